// Two singleton components that depend on each other (a configuration error babylon diagnoses:
// "initialize failed for recursive dependent component"), requested concurrently from BOTH ends.
// Single-threaded: both get() return nullptr.  Two threads: each holds its holder's recursive mutex inside
// initialize() and blocks for ever on the other one.
#include <babylon/application_context.h>

#include <atomic>
#include <chrono>
#include <cstdio>
#include <cstdlib>
#include <thread>

using ::babylon::ApplicationContext;
static std::atomic<int> inside {0};
static void rendezvous() { // make the window deterministic: both initialize() calls are running
  inside.fetch_add(1);
  for (int i = 0; i < 2000 && inside.load() < 2; i++) std::this_thread::sleep_for(std::chrono::milliseconds(1));
}
struct B;
struct A {
  int initialize(ApplicationContext& ctx);
};
struct B {
  int initialize(ApplicationContext& ctx);
};
int A::initialize(ApplicationContext& ctx) {
  rendezvous();
  return ctx.get_or_create<B>() ? 0 : -1;
}
int B::initialize(ApplicationContext& ctx) {
  rendezvous();
  return ctx.get_or_create<A>() ? 0 : -1;
}

int main() {
  ApplicationContext ctx;
  ctx.register_component(ApplicationContext::DefaultComponentHolder<A>::create());
  ctx.register_component(ApplicationContext::DefaultComponentHolder<B>::create());
  std::atomic<int> done {0};
  std::thread t1([&] { printf("get<A> -> %p\n", (void*)ctx.get<A>()); done++; });
  std::thread t2([&] { printf("get<B> -> %p\n", (void*)ctx.get<B>()); done++; });
  for (int i = 0; i < 50 && done.load() < 2; i++) std::this_thread::sleep_for(std::chrono::milliseconds(100));
  if (done.load() < 2) {
    printf("DEADLOCK: %d of 2 get() calls returned after 5 s\n", done.load());
    fflush(stdout);
    _Exit(1);
  }
  t1.join();
  t2.join();
  printf("ok (both calls returned)\n");
  return 0;
}
