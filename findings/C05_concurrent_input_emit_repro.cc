// Standalone (real threads, no harness): graph  I --(V)--> T,  target T, the input I (no producer) is published by
// another thread concurrently with Graph::run.  Whenever the run SUCCEEDS, wait() must not return before V's
// processor has finished.  Counts how often it does.
#include <babylon/anyflow/builder.h>
#include <atomic>
#include <cstdio>
#include <thread>
using namespace ::babylon::anyflow;
static std::atomic<int> started {0}, done {0};
struct V : GraphProcessor {
  int process() noexcept override {
    started.fetch_add(1);
    *vertex().anonymous_emit(0)->emit<int>() = 1;                 // T published: the closure finishes
    for (volatile int i = 0; i < 20000; i = i + 1) {}               // still inside process()
    done.fetch_add(1);
    return 0;
  }
};
int main(int argc, char** argv) {
  long iters = argc > 1 ? atol(argv[1]) : 300000;
  GraphBuilder b;
  { auto& v = b.add_vertex([] { return std::unique_ptr<GraphProcessor>(new V); }); v.anonymous_depend().to("I"); v.anonymous_emit().to("T"); }
  b.finish();
  auto g = b.build();
  std::atomic<long> go {0}, fin {0};
  std::atomic<int> delay {0};
  std::thread ext([&] {
    for (long k = 1; k <= iters; k++) {
      while (go.load() < k) {}
      for (volatile int i = 0; i < delay.load(); i = i + 1) {}
      *g->find_data("I")->emit<int>() = 7;
      fin.store(k);
    }
  });
  long ok = 0, failed = 0, early = 0;
  for (long k = 1; k <= iters; k++) {
    started = 0; done = 0;
    delay = (int)(k % 400);
    go.store(k);
    for (volatile int i = 0; i < (int)((k / 400) % 64) * 8; i = i + 1) {}   // sweep the relative timing of run() and the emit
    {
      auto closure = g->run(g->find_data("T"));
      int code = closure.get();
      closure.wait();
      int s = started.load(), d = done.load();
      if (code != 0) failed++; else { ok++; if (d < s || s == 0) { early++; if (early <= 3) std::printf("iteration %ld: get() = 0, wait() returned, processor started=%d finished=%d\n", k, s, d); } }
      while (fin.load() < k) {}
      while (done.load() < started.load()) {}
    }
    g->reset();
  }
  ext.join();
  std::printf("runs ok=%ld failed(-1, input too late)=%ld   wait() returned before the processor finished: %ld\n", ok, failed, early);
  return early ? 1 : 0;
}
