#!/bin/sh
# usage: build.sh <repo root> <source without .cpp> [extra flags]   -> ./<source>.bin
# the programs look at private members: -fno-access-control.  Only futex.cpp / executor.cpp of babylon are compiled in.
REPO=$1; N=$2; shift 2
LIBS="$(pkg-config --libs protobuf absl_time absl_base absl_strings absl_str_format absl_flat_hash_map absl_hash absl_raw_hash_set)"
g++ -std=c++20 -O1 -g -fno-access-control -Wno-deprecated-declarations -I$REPO/src "$@" $N.cpp \
  $REPO/src/babylon/coroutine/futex.cpp $REPO/src/babylon/basic_executor.cpp $REPO/src/babylon/executor.cpp -o $N.bin $LIBS -lpthread
