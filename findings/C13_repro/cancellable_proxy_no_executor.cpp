// co_await Cancellable<Task<T>>(task): the proxy coroutine has no executor, so await_transform binds the inner task to
// *nullptr; as soon as the inner task really suspends (here: on a Future) its resumption goes through a null executor.
#include "babylon/coroutine/cancelable.h"
#include "babylon/executor.h"
#include "babylon/future.h"
#include <cstdio>
using ::babylon::coroutine::Cancellable;
using ::babylon::coroutine::Task;
static Task<int> inner(::babylon::Future<int> f) {
  co_return co_await f;
}
static Task<> outer(::babylon::Future<int> f, int* out) {
  auto r = co_await Cancellable<Task<int>>(inner(f));
  *out = r ? *r : -1;
}
int main() {
  ::babylon::Promise<int> promise;
  int out = 0;
  ::babylon::InplaceExecutor::instance().submit(outer, promise.get_future(), &out);
  std::printf("suspended, now completing the future...\n");
  std::fflush(stdout);
  promise.set_value(42);   // resumes inner through BasicPromise::resume -> resume_in_executor(nullptr, handle)
  std::printf("result = %d   (expected 42)\n", out);
  return out == 42 ? 0 : 1;
}
