// wake_one() gives up after one failed take: returns 0 although another waiter is suspended and not being cancelled
#include "babylon/coroutine/futex.h"
#include "babylon/executor.h"
#include <cstdio>
using ::babylon::coroutine::Futex;
using ::babylon::coroutine::Task;
static Task<> waiter(Futex* f, Futex::Cancellation* out, int* resumed) {
  co_await f->wait(1).on_suspend([out](Futex::Cancellation t) { *out = t; });
  ++*resumed;
}
int main() {
  Futex futex;
  futex.value() = 1;
  auto& ex = ::babylon::InplaceExecutor::instance();
  Futex::Cancellation tok_a, tok_b;
  int resumed_a = 0, resumed_b = 0;
  ex.submit(waiter, &futex, &tok_a, &resumed_a);
  ex.submit(waiter, &futex, &tok_b, &resumed_b);  // B is now the first node of the list
  // first step of Futex::Awaitable::cancel(tok_b) on another thread: it owns B, has not reached remove_awaiter yet
  auto& box = ::babylon::DepositBox<Futex::Node>::instance();
  auto* node_b = box.take_released(tok_b._id);
  int n = futex.wake_one();
  std::printf("wake_one() = %d, A resumed = %d   (expected 1, 1: A is suspended and nobody cancels it)\n", n, resumed_a);
  // the canceller finishes
  node_b->futex->remove_awaiter(node_b);
  node_b->promise->resume(node_b->handle);
  box.finish_released(tok_b._id);
  std::printf("after the canceller finished: B resumed = %d, wake_one() = %d\n", resumed_b, futex.wake_one());
  return n == 1 && resumed_a == 1 ? 0 : 1;
}
