// Futex::Awaitable::await_suspend reads its own member _on_suspend AFTER add_awaiter has published the node.
// The awaitable lives in the coroutine frame (await_transform returns it by value), so a wake_one() that runs in
// between resumes the coroutine, which finishes and frees the frame: use after free (run under -fsanitize=address).
// The concurrent waker is played by a hook at the return of Futex::add_awaiter (-finstrument-functions).
#include "babylon/coroutine/futex.h"
#include "babylon/executor.h"
#include <cstdio>
using ::babylon::coroutine::Futex;
using ::babylon::coroutine::Task;
static Futex futex;
static bool armed = false;
static int callbacks = 0, resumed = 0;
static Task<> waiter() {
  co_await futex.wait(1).on_suspend([](Futex::Cancellation) { ++callbacks; });
  ++resumed;
}
extern "C" {
__attribute__((no_instrument_function)) void __cyg_profile_func_enter(void*, void*) {}
__attribute__((no_instrument_function)) void __cyg_profile_func_exit(void* fn, void*) {
#pragma GCC diagnostic ignored "-Wpmf-conversions"
  if (armed && fn == (void*)(&Futex::add_awaiter)) {
    armed = false;       // the mutex is released (lock_guard destroyed before the hook): another thread's wake_one()
    futex.wake_one();    // resumes the coroutine in place; it completes and its frame is destroyed
  }
}
}
int main() {
  futex.value() = 1;
  armed = true;
  ::babylon::InplaceExecutor::instance().submit(waiter);
  std::printf("resumed = %d, on_suspend callbacks = %d\n", resumed, callbacks);
  return 0;
}
