// wake_all() reads node->next after finish_released(node->id): a waiter arriving in between reuses the slot
// (DepositBox::emplace resets the node) and the rest of wake_all's private list is never resumed.
// The "other thread" is played by a hook that runs exactly when IdAllocator::deallocate returns inside wake_all
// (futex.cpp compiled with -finstrument-functions; no lock is held at that point).
#include "babylon/coroutine/futex.h"
#include "babylon/executor.h"
#include <cstdio>
using ::babylon::coroutine::Futex;
using ::babylon::coroutine::Task;
static Futex futex;
static int resumed[4];
static bool in_wake_all = false, fired = false;
static Task<> waiter(int i) {
  co_await futex.wait(1);
  ++resumed[i];
}
extern "C" {
__attribute__((no_instrument_function)) void __cyg_profile_func_enter(void*, void*) {}
__attribute__((no_instrument_function)) void __cyg_profile_func_exit(void* fn, void*) {
#pragma GCC diagnostic ignored "-Wpmf-conversions"
  if (in_wake_all && !fired && fn == (void*)(&::babylon::IdAllocator<uint32_t>::deallocate)) {
    fired = true;  // a new waiter on "another thread", between finish_released(node->id) and node = node->next
    ::babylon::InplaceExecutor::instance().submit(waiter, 3);
  }
}
}
int main() {
  futex.value() = 1;
  auto& ex = ::babylon::InplaceExecutor::instance();
  for (int i = 0; i < 3; i++) ex.submit(waiter, i);
  in_wake_all = true;
  int n = futex.wake_all();
  in_wake_all = false;
  std::printf("wake_all() = %d, resumed = %d %d %d   (expected 3, 1 1 1)\n", n, resumed[0], resumed[1], resumed[2]);
  int m = futex.wake_all();
  std::printf("second wake_all() = %d, resumed = %d %d %d, newcomer %d   (with the defect waiters 0 and 1 are lost for good)\n", m, resumed[0], resumed[1], resumed[2], resumed[3]);
  return resumed[0] == 1 && resumed[1] == 1 && resumed[2] == 1 ? 0 : 1;
}
