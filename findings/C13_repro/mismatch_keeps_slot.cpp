// a wait whose value does not match does not suspend - but its DepositBox slot is never given back
#include "babylon/coroutine/futex.h"
#include "babylon/executor.h"
#include <cstdio>
using ::babylon::coroutine::Futex;
using ::babylon::coroutine::Task;
static Task<> waiter(Futex* f, int* done) {
  for (int i = 0; i < 1000; i++) co_await f->wait(42);  // futex value is 1: never suspends
  *done = 1;
}
int main() {
  Futex futex;
  futex.value() = 1;
  int done = 0;
  ::babylon::InplaceExecutor::instance().submit(waiter, &futex, &done);
  auto& box = ::babylon::DepositBox<Futex::Node>::instance();
  unsigned live = 0;
  box._slot_id_allocator.for_each([&](uint32_t b, uint32_t e) { live += e - b; });
  std::printf("done = %d, slots allocated = %u, still held = %u   (expected: nothing held, one slot reused)\n", done, (unsigned)box._slot_id_allocator.end(), live);
  return live == 0 ? 0 : 1;
}
