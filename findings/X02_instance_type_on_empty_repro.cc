// g++ -std=c++20 -I/repo/src repro.cc /repo/src/babylon/any.cpp -o repro && ./repro
#include <babylon/any.h>
#include <cstdio>
int main() {
  babylon::Any any;                                   // empty
  printf("bool=%d type=%d\n", (int)static_cast<bool>(any), (int)any.type());
  fflush(stdout);
  const babylon::Id& id = any.instance_type();        // _meta.descriptor() == nullptr -> nullptr->type_id
  printf("name size=%zu\n", id.name.size());          // never reached: SIGSEGV
  return 0;
}
