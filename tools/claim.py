#!/usr/bin/env python3
"""tools/claim.py <ID> <drivers,comma> <specs,comma> <technique> <text> <note> : add/replace a claimed check in manifest_src.json and regenerate MANIFEST.json"""
import json, os, subprocess, sys
V = os.path.dirname(os.path.dirname(os.path.abspath(__file__)))
p = os.path.join(V, "tools", "manifest_src.json")
m = json.load(open(p))
pid, drivers, specs, technique, text, note = sys.argv[1:7]
m["checks"][pid] = {"text": text, "note": note, "technique": technique, "design_ref": "DESIGN.md §4 %s, §10" % pid,
                    "drivers": [d for d in drivers.split(",") if d], "specs": [s for s in specs.split(",") if s]}
for e in m["engines"]:
    if pid not in e["serves_properties"]:
        e["serves_properties"].append(pid)
        e["serves_properties"].sort()
json.dump(m, open(p, "w"), indent=1)
subprocess.run([sys.executable, os.path.join(V, "tools", "manifest_gen.py")], check=True)
