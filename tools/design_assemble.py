#!/usr/bin/env python3
"""rewrites DESIGN.md from '### 10.6 Detection record' to the end: tools/design_tail.md with @@SEED_TABLE@@ replaced by tools/seed_table.py output"""
import os, subprocess
V = os.path.dirname(os.path.dirname(os.path.abspath(__file__)))
d = open(os.path.join(V, "DESIGN.md")).read()
i = d.index("### 10.6 Detection record")
tail = open(os.path.join(V, "tools", "design_tail.md")).read()
tab = subprocess.run(["python3", os.path.join(V, "tools", "seed_table.py")], capture_output=True, text=True, check=True).stdout
open(os.path.join(V, "DESIGN.md"), "w").write(d[:i] + tail.replace("@@SEED_TABLE@@", tab))
