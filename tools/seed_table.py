#!/usr/bin/env python3
"""prints the detection table of the independent seeded changes (seeded/<ID>_<n>/meta.json + result.json) as markdown"""
import glob, json, os, re
V = os.path.dirname(os.path.dirname(os.path.abspath(__file__)))


def key(p):
    m = re.match(r"(C\d+)_(\d+)$", os.path.basename(p))
    return (m.group(1), int(m.group(2))) if m else ("Z", 0)


def short(s, n):
    s = " ".join(str(s).split()).replace("|", "/")
    return s if len(s) <= n else s[:n - 1] + "…"


rows, caught, total = [], 0, 0
for d in sorted(glob.glob(os.path.join(V, "seeded", "C*_*")), key=key):
    if not os.path.isdir(d) or key(d)[0] == "Z":
        continue
    try:
        meta = json.load(open(os.path.join(d, "meta.json")))
    except Exception:
        meta = {}
    res = {}
    if os.path.exists(os.path.join(d, "result.json")):
        res = json.load(open(os.path.join(d, "result.json")))
    total += 1
    if res.get("detected"):
        caught += 1
        v = res["violation_lines"][0] if res.get("violation_lines") else ""
        m = re.search(r"replay=\S*/([^/\s]+)\s*#\s*(.*)", v)
        clause = m.group(2) if m else v
        clause = re.sub(r" params=.*", "", clause)
        verdict = "V2" if "L2 model" in clause or "tlc_" in v else "V1"
        out = "%s: %s" % (verdict, short(clause, 110))
    elif res:
        out = "**missed** (exit %s, %d drift lines)" % (res.get("exit"), res.get("spec_drift_lines", 0))
    else:
        out = "not run"
    if res.get("history"):
        out += "; first run exit %s, caught after the check was strengthened" % res["history"][0].get("exit") if res.get("detected") else ""
    if res.get("note"):
        out += "; " + short(res["note"], 200)
    rows.append("| %s | %s | %s | %s |" % (os.path.basename(d), short(meta.get("title", ""), 150), short(meta.get("needs", ""), 170), out))
print("| seed | change | needs | result of `tools/mutant_run` (quick tier, current checks) |")
print("|---|---|---|---|")
print("\n".join(rows))
print()
print("%d of %d independent seeded changes are reported as VIOLATION by the quick tier." % (caught, total))
