#!/usr/bin/env python3
"""Regenerates MANIFEST.json from tools/manifest_src.json (claimed checks) + properties.jsonl (everything else -> not_applicable)."""
import json, os
V = os.path.dirname(os.path.dirname(os.path.abspath(__file__)))
src = json.load(open(os.path.join(V, "tools", "manifest_src.json")))
props = [json.loads(l) for l in open(os.path.join(V, "properties.jsonl"))]
m = {"version": 1, "setup_cmd": "tools/setup",
     "hooks": src["hooks"], "engines": src.get("engines", []), "checks": [], "notes": src.get("notes", ""), "not_applicable": []}
for p in props:
    c = src["checks"].get(p["id"])
    if c:
        m["checks"].append({"property_id": p["id"], "quick_cmd": "tools/check %s --tier quick" % p["id"], "thorough_cmd": "tools/check %s --tier thorough" % p["id"],
                            "evidence_file": "evidence/%s.json" % p["id"], "replay_cmd_template": "tools/check %s --replay {path}" % p["id"], "engine": c.get("engine", "tlc+vsched"),
                            "level_claimed": {"category": "model_checking", "text": c["text"], "design_ref": c.get("design_ref", "DESIGN.md §4")},
                            "level_note": c["note"], "technique": c["technique"]})
    else:
        m["not_applicable"].append({"property_id": p["id"], "reason": src.get("na", {}).get(p["id"], "machinery for this property is still under construction; not claimed yet")})
json.dump(m, open(os.path.join(V, "MANIFEST.json"), "w"), indent=1)
print("checks:", [c["property_id"] for c in m["checks"]])
