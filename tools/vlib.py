"""Shared machinery for the /verif checks: building drivers from /repo's working tree,
running TLC (model checking and trace validation), verdicts and evidence files."""
import hashlib
import json
import os
import re
import shutil
import subprocess
import sys
import time

VERIF = os.path.dirname(os.path.dirname(os.path.abspath(__file__)))
REPO = os.environ.get("VERIF_REPO", "/repo")
BUILD = os.environ.get("VERIF_BUILD", os.path.join(VERIF, "build"))
SPEC = os.path.join(VERIF, "spec")
JAR = "/opt/veriftools/tla/tla2tools.jar:/opt/veriftools/tla/CommunityModules-deps.jar"
NCPU = os.cpu_count() or 8


class Broken(Exception):
    """The check itself is broken (exit 2) - never reported as a pass or a violation."""


def log(*a):
    print(*a, flush=True)


# ----------------------------------------------------------------------------- build
def _drivers():
    """every harness/drivers/*.build.json contributes {target: {srcs, repo_srcs, protos, flags, libs, opt, no_interpose, no_core}}"""
    d = {}
    dd = os.path.join(VERIF, "harness", "drivers")
    for f in sorted(os.listdir(dd)):
        if f.endswith(".build.json"):
            d.update(json.load(open(os.path.join(dd, f))))
    return d


def write_ninja():
    os.makedirs(BUILD, exist_ok=True)
    libs = subprocess.run("pkg-config --libs protobuf absl_time absl_base absl_strings absl_str_format absl_flat_hash_map absl_hash absl_raw_hash_set", shell=True, capture_output=True, text=True).stdout.strip()
    if not libs:
        libs = "-lprotobuf -labsl_time -labsl_base -labsl_strings -labsl_str_format_internal"
    out = []
    w = out.append
    w("builddir = %s" % BUILD)
    w("cxx = g++")
    w("base = -std=c++20 -g -fno-access-control -Wno-deprecated-declarations -Wno-attributes -pthread")
    w("inc = -I%s/src -I%s/harness -I%s/gen" % (REPO, VERIF, BUILD))
    w("rule cc\n  command = $cxx $base $opt $inc $flags -MD -MF $out.d -c $in -o $out\n  depfile = $out.d\n  deps = gcc\n  description = CC $out")
    w("rule link\n  command = $cxx -o $out $in $libs %s -lfmt -ldl -lpthread\n  description = LINK $out" % libs)
    w("rule protoc\n  command = protoc --cpp_out=%s/gen -I$dir $in\n  description = PROTOC $in" % BUILD)
    os.makedirs(os.path.join(BUILD, "gen"), exist_ok=True)
    core = []
    for f in ("vsched", "shims", "vrun"):
        w("build obj/%s.o: cc %s/harness/%s.cc\n  opt = -O1" % (f, VERIF, f))
        core.append("obj/%s.o" % f)
    seen = set()
    for name, d in _drivers().items():
        objs = []
        inter = "" if d.get("no_interpose") else "-include %s/harness/interpose.h" % VERIF
        opt = d.get("opt", "-O1")
        variant = d.get("variant", "i" if inter else "n") + opt.replace("-", "").replace(" ", "")
        flags = "%s -DBABYLON_VERIF %s" % (inter, d.get("flags", ""))
        order = ""
        gens = []
        for pr in d.get("protos", []):
            src = pr if pr.startswith("/") else os.path.join(REPO, pr)
            base = os.path.splitext(os.path.basename(src))[0]
            cc = "gen/%s.pb.cc" % base
            if cc not in seen:
                seen.add(cc)
                w("build %s gen/%s.pb.h: protoc %s\n  dir = %s" % (cc, base, src, os.path.dirname(src)))
            gens.append(cc)
        if gens:
            order = " || " + " ".join(gens)
        for src in d.get("srcs", []):
            o = "obj/%s/%s.o" % (name, os.path.basename(src))
            w("build %s: cc %s/%s%s\n  opt = %s\n  flags = %s" % (o, VERIF, src, order, opt, flags))
            objs.append(o)
        for src in d.get("repo_srcs", []) + gens:
            full = src if src.startswith("gen/") else os.path.join(REPO, src)
            o = "obj/repo_%s/%s.o" % (variant + hashlib.md5(flags.encode()).hexdigest()[:6], src.replace("/", "_"))
            if o not in seen:
                seen.add(o)
                extra = " -fno-access-control" if src.endswith("message.trick.cpp") or src.endswith("patch/arena.cpp") else ""
                w("build %s: cc %s%s\n  opt = %s\n  flags = %s%s" % (o, full, order, opt, flags, extra))
            objs.append(o)
        link_core = [] if d.get("no_core") else core
        w("build bin/%s: link %s\n  libs = %s" % (name, " ".join(objs + link_core), d.get("libs", "")))
    path = os.path.join(BUILD, "build.ninja")
    text = "\n".join(out) + "\n"
    if not os.path.exists(path) or open(path).read() != text:
        open(path, "w").write(text)
    return path


def build(targets):
    """Incremental build (follows /repo's working tree through depfiles)."""
    write_ninja()
    t0 = time.time()
    r = subprocess.run(["ninja", "-C", BUILD, "-j", str(NCPU)] + ["bin/" + t for t in targets], capture_output=True, text=True)
    if r.returncode != 0:
        log(r.stdout[-6000:])
        log(r.stderr[-3000:])
        raise Broken("build failed for %s" % targets)
    return time.time() - t0


def driver(name, args, timeout=1800, check=True):
    cmd = [os.path.join(BUILD, "bin", name)] + [str(a) for a in args]
    r = subprocess.run(cmd, capture_output=True, text=True, timeout=timeout)
    if r.returncode != 0 and check:
        log(r.stdout[-3000:])
        log(r.stderr[-3000:])
        raise Broken("driver %s failed (%d): %s" % (name, r.returncode, " ".join(cmd)))
    last = r.stdout.strip().splitlines()[-1] if r.stdout.strip() else "{}"
    try:
        return json.loads(last)
    except Exception:
        return {"raw": r.stdout[-2000:]}


def driver_status(summary):
    """merge per-worker summaries"""
    tot = {"execs": 0, "events": 0, "status": {}}
    parts = summary.get("parts", [summary])
    for p in parts:
        tot["execs"] += p.get("execs", 0)
        tot["events"] += p.get("events", 0)
        for k, v in p.get("status", {}).items():
            tot["status"][k] = tot["status"].get(k, 0) + v
    if summary.get("bad_workers"):
        raise Broken("driver worker crashed")
    return tot


# ----------------------------------------------------------------------------- TLC
class TlcResult:
    def __init__(self):
        self.ok = False
        self.violation = None  # name of violated invariant/property, "deadlock", "assert" ...
        self.error_trace = ""
        self.states = 0
        self.distinct = 0
        self.depth = 0
        self.coverage = {}
        self.out = ""
        self.wall = 0.0
        self.cached = False
        self.printed = []

    def to_json(self):
        return {"ok": self.ok, "violation": self.violation, "states": self.states, "distinct": self.distinct, "depth": self.depth, "wall_s": round(self.wall, 2), "cached": self.cached, "coverage": self.coverage, "printed": self.printed, "error_trace": self.error_trace[:6000]}


def _hash_files(paths, extra=""):
    h = hashlib.sha256()
    for p in sorted(paths):
        h.update(p.encode())
        h.update(open(p, "rb").read())
    h.update(extra.encode())
    return h.hexdigest()[:24]


def spec_closure(tla):
    """module file + everything under spec/ it EXTENDS/INSTANCEs (transitively)"""
    d = os.path.dirname(tla)
    todo, seen = [tla], []
    while todo:
        f = todo.pop()
        if f in seen or not os.path.exists(f):
            continue
        seen.append(f)
        txt = open(f).read()
        names = []
        for m in re.finditer(r"EXTENDS\s+([^\n]+)", txt):
            names += [x.strip() for x in m.group(1).split(",")]
        names += re.findall(r"INSTANCE\s+(\w+)", txt)
        for n in names:
            for dd in (d, os.path.join(SPEC, "lib"), os.path.join(SPEC, "mo"), SPEC):
                p = os.path.join(dd, n + ".tla")
                if os.path.exists(p):
                    todo.append(p)
                    break
    return seen


def _auto_workers():
    """all cores when the machine is idle, fewer when many checks/agents run at once"""
    w = os.environ.get("VERIF_TLC_WORKERS")
    if w:
        return int(w)
    try:
        load = os.getloadavg()[0]
    except OSError:
        load = 0
    return NCPU if load < NCPU else max(2, NCPU // 4)


def tlc(tla, cfg, workers=None, simulate=None, depth=None, env=None, timeout=3600, cache=False, coverage=False, extra_hash="", dfs=False, heap="8g", deadlock=None, dump=None, lib_dirs=None, seed=None):
    """Run TLC. Returns TlcResult. `cache`: reuse a stored result when spec+cfg(+extra) are unchanged."""
    tla = os.path.abspath(tla)
    cfg = os.path.abspath(cfg)
    res = TlcResult()
    key = None
    cdir = os.path.join(BUILD, "tlc_cache")
    if cache:
        key = _hash_files(spec_closure(tla) + [cfg], extra_hash + str(simulate) + str(depth))
        cp = os.path.join(cdir, key + ".json")
        if os.path.exists(cp):
            d = json.load(open(cp))
            res.__dict__.update(d)
            res.cached = True
            return res
    import uuid
    run_id = "%d_%s" % (os.getpid(), uuid.uuid4().hex[:12])
    meta = os.path.join(BUILD, "tlc", run_id)
    os.makedirs(meta, exist_ok=True)
    libs = (lib_dirs or []) + [os.path.dirname(tla), os.path.join(SPEC, "lib"), os.path.join(SPEC, "mo"), SPEC]
    cap = os.environ.get("VERIF_HEAP_CAP", "12g")
    if int(heap.rstrip("g")) > int(cap.rstrip("g")):
        heap = cap
    jopts = ["-XX:+UseParallelGC", "-Xmx" + heap, "-DTLA-Library=" + ":".join(libs)]
    if dfs:
        jopts.append("-Dtlc2.tool.queue.IStateQueue=StateDeque")
    cmd = ["java"] + jopts + ["-cp", JAR, "tlc2.TLC", "-metadir", meta, "-config", cfg, "-workers", str(workers or _auto_workers()), "-noGenerateSpecTE"]
    if simulate:
        cmd += ["-simulate", simulate]
    if depth:
        cmd += ["-depth", str(depth)]
    if coverage:
        cmd += ["-coverage", "1"]
    if deadlock is False:
        cmd += ["-deadlock"]
    if dump:
        cmd += ["-dump", dump[0], dump[1]]
    if seed is not None:
        cmd += ["-seed", str(seed)]
    cmd.append(tla)
    e = dict(os.environ)
    if env:
        e.update({k: str(v) for k, v in env.items()})
    t0 = time.time()
    try:
        r = subprocess.run(cmd, capture_output=True, text=True, timeout=timeout, env=e, cwd=os.path.dirname(tla))
        out = r.stdout + r.stderr
        rc = r.returncode
    except subprocess.TimeoutExpired as ex:
        out = (ex.stdout or b"").decode(errors="replace") if isinstance(ex.stdout, bytes) else (ex.stdout or "")
        out += "\nTLC TIMEOUT"
        rc = -9
    res.wall = time.time() - t0
    shutil.rmtree(meta, ignore_errors=True)
    res.out = out
    m = re.findall(r"(\d+) states generated, (\d+) distinct states found", out)
    if m:
        res.states, res.distinct = int(m[-1][0]), int(m[-1][1])
    m = re.search(r"depth of the complete state graph search is (\d+)", out)
    if m:
        res.depth = int(m.group(1))
    res.printed = re.findall(r"^VERIF:(.*)$", out, re.M)
    if "Model checking completed. No error has been found" in out or (simulate and rc in (0, -9) and "Error:" not in out) or ("Finished computing initial states" in out and rc == 0 and "Error:" not in out):
        res.ok = rc in (0, -9) if simulate else rc == 0
    if not res.ok:
        m = re.search(r"Invariant (\w+) is violated", out)
        if m:
            res.violation = m.group(1)
        elif "Deadlock reached" in out:
            res.violation = "deadlock"
        elif re.search(r"Temporal properties were violated", out):
            res.violation = "temporal"
        elif re.search(r"Action property (\w+) is violated|action property", out):
            res.violation = "action_property"
        elif "The first argument of Assert evaluated to FALSE" in out:
            res.violation = "assert"
        elif re.search(r"Error: The postcondition|postcondition", out, re.I):
            res.violation = "postcondition"
        elif "TLC TIMEOUT" in out:
            res.violation = "timeout"
        else:
            res.violation = "tlc_error"
        i = out.find("Error:")
        if i < 0:
            res.error_trace = out[-4000:]
        elif len(out) - i <= 60000:
            res.error_trace = out[i:]
        else:  # long counterexamples: keep the header and the END (the last states are what callers read)
            res.error_trace = out[i:i + 6000] + "\n[... %d characters omitted ...]\n" % (len(out) - i - 46000) + out[-40000:]
    if coverage:
        for mm in re.finditer(r"<(\w+) line (\d+), col \d+ to line \d+, col \d+ of module (\w+)>: (\d+):(\d+)", out):
            res.coverage["%s.%s" % (mm.group(3), mm.group(1))] = [int(mm.group(4)), int(mm.group(5))]
    if cache and key and res.violation not in ("timeout", "tlc_error"):
        os.makedirs(cdir, exist_ok=True)
        d = {k: v for k, v in res.__dict__.items() if k not in ("cached",)}
        d["out"] = res.out[-4000:]
        json.dump(d, open(os.path.join(cdir, key + ".json"), "w"))
    return res


def sany(tla):
    r = subprocess.run(["java", "-cp", JAR, "-DTLA-Library=" + ":".join([os.path.dirname(tla), os.path.join(SPEC, "lib"), os.path.join(SPEC, "mo"), SPEC]), "tla2sany.SANY", tla], capture_output=True, text=True, cwd=os.path.dirname(tla))
    ok = r.returncode == 0 and "Semantic errors" not in r.stdout and "rror" not in r.stdout.replace("Semantic processing of module", "")
    return ok, r.stdout + r.stderr


# ----------------------------------------------------------------------------- traces
def split_traces(path):
    """yield lists of parsed events, one list per execution (reset .. end)"""
    cur = None
    with open(path) as f:
        for line in f:
            line = line.strip()
            if not line:
                continue
            try:
                ev = json.loads(line)
            except Exception:
                raise Broken("unparsable trace line in %s: %s" % (path, line[:200]))
            if ev.get("k") == "reset":
                if cur is not None:
                    yield cur
                cur = [ev]
            elif cur is not None:
                cur.append(ev)
    if cur is not None:
        yield cur


def write_ndjson(path, events):
    with open(path, "w") as f:
        for e in events:
            f.write(json.dumps(e, separators=(",", ":")) + "\n")


def validate_trace(trace_tla, cfg, ndjson, extra_env=None, timeout=1800, dfs=True, heap="6g"):
    """Run a *_Trace.tla spec over an ndjson file. The spec must print, via PrintT, lines
    starting with VERIF: carrying JSON (accepted length etc.). Returns TlcResult."""
    env = {"TRACE": ndjson}
    if extra_env:
        env.update(extra_env)
    return tlc(trace_tla, cfg, workers=1, env=env, timeout=timeout, dfs=dfs, heap=heap, deadlock=False)


def parse_verif(out):
    """<< "VERIF", explained, total, {<<site, mo>>...} >> printed by a trace spec's postcondition"""
    m = re.search(r'<<\s*"VERIF",\s*(\d+),\s*(\d+),\s*(.*?)>>\s*\n(?:Model checking|Error|The |\d+ states)', out, re.S)
    if not m:
        return None
    pairs = re.findall(r'<<"(\w+)",\s*"(\w+)">>', m.group(3))
    return int(m.group(1)), int(m.group(2)), pairs


class TraceIssue:
    def __init__(self, exec_index, kind, detail, line):
        self.exec_index = exec_index  # index into the list of executions given to check_traces
        self.kind = kind              # "invariant:<name>" | "rejected" | "error"
        self.detail = detail
        self.line = line              # line (1-based, within the concatenated file of that round)


def _last_l(error_trace):
    m = re.findall(r"/\\ l = (\d+)", error_trace)
    return int(m[-1]) if m else None


def check_traces(tla, cfg, execs, name, max_rounds=3, timeout=1800, env=None):
    """Validate executions (each a list of normalised event dicts, starting with a reset line)
    against a trace specification.  Returns (n_accepted, issues, stats).  After a rejected or
    violating execution the remaining ones are still checked."""
    issues = []
    accepted = 0
    stats = {"states": 0, "wall": 0.0, "rounds": 0, "pairs": set()}
    offset = 0
    todo = list(execs)
    os.makedirs(os.path.join(BUILD, "traces"), exist_ok=True)
    while todo and stats["rounds"] < max_rounds:
        stats["rounds"] += 1
        path = os.path.join(BUILD, "traces", "%s.%d.ndjson" % (name, os.getpid()))
        starts = []
        n = 0
        with open(path, "w") as f:
            for ex in todo:
                starts.append(n + 1)
                for e in ex:
                    f.write(json.dumps(e, separators=(",", ":")) + "\n")
                n += len(ex)
        r = validate_trace(tla, cfg, path, extra_env=env, timeout=timeout)
        stats["states"] += r.distinct
        stats["wall"] += r.wall
        pv = parse_verif(r.out)
        if pv:
            stats["pairs"].update(pv[2])
        try:
            os.unlink(path)
        except OSError:
            pass
        if r.ok and pv and pv[0] >= pv[1]:
            accepted += len(todo)
            todo = []
            break
        # locate the failing line
        if r.violation and r.violation not in ("tlc_error", "timeout", "postcondition"):
            line = _last_l(r.error_trace) or 1
            line = max(1, line - 1)  # l points at the next line to explain; the offending event is the previous one
            kind = "invariant:" + r.violation
            k = r.error_trace.rfind("\nState ")
            detail = r.error_trace[k:] if k >= 0 else r.error_trace[-6000:]
        elif pv:
            line = min(pv[0] + 1, n)
            kind = "rejected"
            detail = "explained %d of %d lines" % (pv[0], pv[1])
        else:
            raise Broken("trace validation of %s failed: %s" % (name, (r.error_trace or r.out)[-3000:]))
        j = 0
        for idx, st in enumerate(starts):
            if st <= line:
                j = idx
        issues.append(TraceIssue(offset + j, kind, detail, line - starts[j] + 1))
        accepted += j
        offset += j + 1
        todo = todo[j + 1:]
    stats["pairs"] = sorted(stats["pairs"])
    stats["unchecked"] = len(todo)
    return accepted, issues, stats


# ----------------------------------------------------------------------------- verdicts / evidence
class Verdict:
    def __init__(self, pid, tier, seed):
        self.pid = pid
        self.tier = tier
        self.seed = seed
        self.t0 = time.time()
        self.violations = []  # (what, replay_path)
        self.known = []
        self.cov = {"states": 0, "transitions": 0, "traces_validated_against_impl": 0, "samples": [], "exhaustive": False}
        self.extra = {}
        self.assumptions = []
        self.drift = 0
        self.write_evidence = True  # set False for --replay runs (they explore a single execution)

    def add_tlc(self, name, r):
        self.cov["states"] += r.distinct
        self.cov["transitions"] += r.states
        self.extra.setdefault("tlc_runs", {})[name] = {"distinct": r.distinct, "generated": r.states, "depth": r.depth, "ok": r.ok, "violation": r.violation, "cached": r.cached, "wall_s": round(r.wall, 1)}

    def sample(self, s):
        if len(self.cov["samples"]) < 6:
            self.cov["samples"].append(s)

    def violation(self, what, replay):
        self.violations.append((what, replay))

    def finish(self, level="model_checking"):
        known = load_known(self.pid)
        real = []
        for what, replay in self.violations:
            k = match_known(known, what)
            if k is not None:
                self.known.append(k)
            else:
                real.append((what, replay))
        for k in {json.dumps(k, sort_keys=True) for k in self.known}:
            kk = json.loads(k)
            log("KNOWN-FINDING: property=%s %s" % (self.pid, kk.get("what", "")))
        ev = {"property_id": self.pid, "tier": self.tier, "seed": self.seed, "level": level, "coverage": dict(self.cov, **self.extra), "assumptions": self.assumptions, "wall_s": round(time.time() - self.t0, 2), "violations": len(real)}
        ev["coverage"]["drift"] = self.drift
        ev["coverage"]["known_findings_hit"] = len(self.known)
        if ev["coverage"]["states"] < 1:
            ev["coverage"]["states"] = 0
        _conform_coverage(ev["coverage"])
        if self.write_evidence:
            # runs against a scratch copy of the repository (mutants) keep their evidence with their build
            edir = os.path.join(VERIF, "evidence") if REPO == "/repo" else os.path.join(BUILD, "evidence")
            os.makedirs(edir, exist_ok=True)
            json.dump(ev, open(os.path.join(edir, self.pid + ".json"), "w"), indent=1)
        for what, replay in real:
            log("VIOLATION property=%s replay=%s  # %s" % (self.pid, replay, what))
        return 1 if real else 0


_COV_INT = ("evaluations", "distinct_nontrivial", "states", "transitions", "traces_validated_against_impl", "obligations", "discharged", "programs", "disagreements_checked")
_COV_STR = ("rule", "explanation", "checker_cmd")


def _conform_coverage(cov):
    """EVIDENCE.schema.json types a few coverage keys; a check that put a richer value under such a key keeps it
    under <key>_detail and the typed key gets the measured count"""
    for k in _COV_INT:
        v = cov.get(k)
        if v is None or (isinstance(v, int) and not isinstance(v, bool) and v >= 0):
            continue
        cov[k + "_detail"] = v
        if isinstance(v, dict):
            cov[k] = sum(x for x in v.values() if isinstance(x, int) and not isinstance(x, bool))
        elif isinstance(v, (list, tuple, set)):
            cov[k] = len(v)
        elif isinstance(v, float) and v >= 0:
            cov[k] = int(v)
        else:
            del cov[k]
    for k in _COV_STR:
        if k in cov and not isinstance(cov[k], str):
            cov[k] = json.dumps(cov[k])
    if "samples" in cov and not isinstance(cov["samples"], list):
        cov["samples"] = [cov["samples"]]
    if "exhaustive" in cov and not isinstance(cov["exhaustive"], bool):
        cov["exhaustive"] = bool(cov["exhaustive"])
    if "trusted_base" in cov:
        tb = cov["trusted_base"]
        cov["trusted_base"] = [str(x) for x in (tb if isinstance(tb, (list, tuple)) else [tb])]


def load_known(pid):
    """open findings for a property: known_findings.json (the committed list) plus, while components are
    being integrated, one-entry files findings/*.json (merged into known_findings.json at integration)"""
    out = []
    p = os.path.join(VERIF, "known_findings.json")
    if os.path.exists(p):
        out += json.load(open(p)).get("findings", [])
    fd = os.path.join(VERIF, "findings")
    if os.path.isdir(fd):
        for f in sorted(os.listdir(fd)):
            if f.endswith(".json"):
                try:
                    d = json.load(open(os.path.join(fd, f)))
                    out += d.get("findings", [d] if "match" in d else [])
                except Exception:
                    pass
    return [k for k in out if k.get("property") == pid and k.get("status") == "open"]


def match_known(known, what):
    for k in known:
        if re.search(k["match"], what):
            return k
    return None


def save_replay(pid, name, content):
    d = os.path.join(BUILD, "replay", pid)
    os.makedirs(d, exist_ok=True)
    p = os.path.join(d, name)
    if isinstance(content, (list, dict)):
        if isinstance(content, list):
            write_ndjson(p, content)
        else:
            json.dump(content, open(p, "w"), indent=1)
    else:
        open(p, "w").write(content)
    return p
