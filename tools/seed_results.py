#!/usr/bin/env python3
"""collects /tmp/seedrun_<ID>_<n>.out (output of tools/mutant_run on a seeded change) into seeded/<ID>_<n>/result.json"""
import glob, json, os, re, sys
V = os.path.dirname(os.path.dirname(os.path.abspath(__file__)))
rows = []
for f in sorted(glob.glob("/tmp/seedrun_C*_*.out")):
    name = os.path.basename(f)[len("seedrun_"):-4]
    d = os.path.join(V, "seeded", name)
    if not os.path.isdir(d):
        continue
    txt = open(f).read()
    m = re.search(r"^exit=(\d+)", txt, re.M)
    if not m:
        continue
    viol = [l[:400] for l in txt.splitlines() if l.startswith("VIOLATION")]
    drift = sum(1 for l in txt.splitlines() if l.startswith("SPEC-DRIFT"))
    res = {"ran": "tools/mutant_run <name> seeded/%s/patch.diff %s   (worktree of /repo HEAD + patch, quick tier)" % (name, name.split("_")[0]),
           "exit": int(m.group(1)), "detected": int(m.group(1)) == 1, "violation_lines": viol[:4], "spec_drift_lines": drift}
    old = os.path.join(d, "result.json")
    hist = []
    if os.path.exists(old):
        o = json.load(open(old))
        hist = o.get("history", [])
        if o.get("exit") != res["exit"]:
            hist.append({"exit": o.get("exit"), "detected": o.get("detected"), "note": "earlier run, before the check was strengthened"})
    res["history"] = hist
    json.dump(res, open(old, "w"), indent=1)
    rows.append((name, res["detected"], viol[0][:120] if viol else ""))
for r in rows:
    print(r)
