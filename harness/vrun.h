// vrun: process-per-execution runner for vsched drivers.
// A driver registers scenarios; `vrun::main` parses the command line, forks one
// child per execution (so function-local statics, thread ids, instance ids all
// start from the state the specification's Init describes), collects the ndjson
// traces and prints a one-line JSON summary.
#pragma once
#include <map>
#include <string>

#include "vsched.h"

namespace vrun {

struct Params {
  std::map<std::string, std::string> kv;
  long get(const char* name, long def) const;
  std::string str(const char* name, const char* def) const;
  std::string json() const;
};

// A scenario runs in the forked child. It must build its objects, call
// begin() (which starts vsched with the configured strategy), run, and call
// vsched::finish().
using Scenario = void (*)(const Params&);
void add(const char* name, Scenario fn, const char* default_params);

// called by the scenario when its set-up is done; starts the scheduler
void begin();
// seed of this execution (for the driver's own random choices)
unsigned long seed();
// deterministic per-execution random number (independent of the scheduler's)
unsigned long rnd();

int main(int argc, char** argv);

} // namespace vrun
