// See vsched.h. Compiled without interpose.h.
#include "vsched.h"

#include <errno.h>
#include <linux/futex.h>
#include <stdarg.h>
#include <stdio.h>
#include <stdlib.h>
#include <string.h>
#include <sys/syscall.h>
#include <unistd.h>

#include <algorithm>
#include <map>
#include <string>
#include <vector>

namespace vsched {
namespace {

constexpr int MAXT = 64;

enum St : uint8_t { UNUSED = 0, RUNNABLE, BLK_FUTEX, SLEEPING, JOINING, LOCKWAIT, EXITED };

struct Thr {
  int id = -1;
  int go = 0;
  St st = UNUSED;
  const void* waddr = nullptr;
  bool has_deadline = false;
  int64_t deadline = 0;
  bool timed_out = false;
  bool spurious = false;
  bool eintr = false; // the spurious return is reported as -1/EINTR (signal) instead of 0
  uint8_t pending = 0; // kind of the operation announced at the current schedule point
  int join_target = -1;
  void* mtx = nullptr;
  bool yielded = false;
  long prio = 0;
  unsigned long handle = 0;
  uint64_t block_seq = 0; // FIFO order of futex blocking
};

struct Range {
  uintptr_t lo, hi;
  std::string name;
  size_t elem = 0; // >0: array naming
};

struct Global {
  bool active = false;
  Thr thr[MAXT];
  int nthr = 0;
  int cur = -1;
  int64_t vclock = 0;
  uint64_t rng = 88172645463325252ull;
  Config cfg;
  std::string strategy;
  long steps = 0;
  long nevents = 0;
  std::string trace;
  int trace_fd = -1;
  std::vector<Range> names;
  std::vector<Decision> decisions;
  std::map<uint64_t, int> interned;
  uint64_t block_counter = 0;
  int script_pos = 0;
  std::vector<long> pct_change;
  long pct_low = 0;
  bool in_sched = false;
};

Global G;
thread_local Thr* tls_me = nullptr;

inline long raw_syscall6(long n, long a, long b, long c, long d, long e, long f) {
  long ret;
  register long r10 __asm__("r10") = d;
  register long r8 __asm__("r8") = e;
  register long r9 __asm__("r9") = f;
  __asm__ volatile("syscall" : "=a"(ret) : "a"(n), "D"(a), "S"(b), "d"(c), "r"(r10), "r"(r8), "r"(r9) : "rcx", "r11", "memory");
  return ret;
}

void park(Thr* t) {
  while (__atomic_load_n(&t->go, __ATOMIC_ACQUIRE) == 0) {
    raw_syscall6(SYS_futex, (long)&t->go, FUTEX_WAIT | FUTEX_PRIVATE_FLAG, 0, 0, 0, 0);
  }
  __atomic_store_n(&t->go, 0, __ATOMIC_RELAXED);
}
void unpark(Thr* t) {
  __atomic_store_n(&t->go, 1, __ATOMIC_RELEASE);
  raw_syscall6(SYS_futex, (long)&t->go, FUTEX_WAKE | FUTEX_PRIVATE_FLAG, 1, 0, 0, 0);
}

uint64_t rnd() {
  uint64_t x = G.rng;
  x ^= x << 13;
  x ^= x >> 7;
  x ^= x << 17;
  G.rng = x;
  return x * 0x2545F4914F6CDD1Dull;
}

const char* mo_name(uint8_t mo) {
  switch (mo) {
    case MO_RLX: return "rlx";
    case MO_CON: return "con";
    case MO_ACQ: return "acq";
    case MO_REL: return "rel";
    case MO_AR: return "ar";
    case MO_SC: return "sc";
    default: return "none";
  }
}
const char* kind_name(uint8_t k) {
  static const char* n[] = {"load", "store", "xchg", "cas", "faa", "fand", "for", "fxor", "fence", "fwait", "fwake", "sleep", "yield", "clock", "lock", "unlock", "spawn", "join", "exit", "start", "user", "point"};
  return n[k];
}

void flush_trace() {
  if (G.trace_fd >= 0 && !G.trace.empty()) {
    const char* p = G.trace.data();
    size_t left = G.trace.size();
    while (left > 0) {
      ssize_t w = ::write(G.trace_fd, p, left);
      if (w <= 0) break;
      p += w;
      left -= (size_t)w;
    }
    G.trace.clear();
  }
}

inline void count_step() {
  if (G.script_pos < G.cfg.script_len) G.script_pos++;
}

void emit(const char* fmt, ...) {
  char buf[1024];
  va_list ap;
  va_start(ap, fmt);
  int n = vsnprintf(buf, sizeof buf, fmt, ap);
  va_end(ap);
  if (n < 0) return;
  if ((size_t)n >= sizeof buf) n = sizeof buf - 1;
  G.trace.append(buf, (size_t)n);
  G.trace.push_back('\n');
  G.nevents++;
  if (G.trace_fd >= 0 && G.trace.size() > (1u << 16)) flush_trace();
}

// JSON fragment naming a location:  "loc":"slot","i":1[,"off":2]
std::string loc_json(const void* addr) {
  uintptr_t a = (uintptr_t)addr;
  char buf[256];
  for (size_t i = G.names.size(); i-- > 0;) {
    const Range& r = G.names[i];
    if (a >= r.lo && a < r.hi) {
      size_t idx = r.elem ? (a - r.lo) / r.elem : 0;
      size_t off = r.elem ? (a - r.lo) % r.elem : a - r.lo;
      if (off) snprintf(buf, sizeof buf, "\"loc\":\"%s\",\"i\":%zu,\"off\":%zu", r.name.c_str(), idx, off);
      else snprintf(buf, sizeof buf, "\"loc\":\"%s\",\"i\":%zu", r.name.c_str(), idx);
      return buf;
    }
  }
  return "\"loc\":\"?\",\"i\":0";
}

// TLC integers are 32 bit: keep values below 2^31, map all-ones to -1, intern the rest
long long small(uint64_t v, uint8_t size) {
  if (v < 2000000000ull) return (long long)v;
  if (size == 8 && v == UINT64_MAX) return -1;
  if (size == 4 && v == UINT32_MAX) return -1;
  auto it = G.interned.find(v);
  if (it == G.interned.end()) it = G.interned.emplace(v, (int)G.interned.size()).first;
  return 2000000000ll + it->second;
}

void emit_decisions() {
  if (G.strategy != "pb") return;
  std::string s;
  char b[96];
  size_t n = G.decisions.size();
  for (size_t i = 0; i < n; i++) {
    const Decision& d = G.decisions[i];
    snprintf(b, sizeof b, "%s[%d,%llu,%d,%d]", s.empty() ? "" : ",", d.chosen, (unsigned long long)d.enabled_mask, d.prev, (int)d.prev_enabled);
    s += b;
    if (s.size() > 800 || i + 1 == n) {
      emit("{\"k\":\"dec\",\"d\":[%s]}", s.c_str());
      s.clear();
    }
  }
}

[[noreturn]] void end_now(Status st, const char* why) {
  static const char* names[] = {"ok", "deadlock", "budget", "crash", "script_mismatch"};
  std::string blocked;
  for (int i = 0; i < G.nthr; i++) {
    const Thr& t = G.thr[i];
    if (t.st == BLK_FUTEX || t.st == JOINING || t.st == LOCKWAIT || t.st == SLEEPING) {
      char b[160];
      snprintf(b, sizeof b, "%s{\"t\":%d,\"st\":%d,%s}", blocked.empty() ? "" : ",", t.id, (int)t.st, t.st == BLK_FUTEX ? loc_json(t.waddr).c_str() : "\"loc\":\"\",\"i\":0");
      blocked += b;
    }
  }
  emit_decisions();
  emit("{\"k\":\"end\",\"status\":\"%s\",\"steps\":%ld,\"vtime_us\":%lld,\"why\":\"%s\",\"blocked\":[%s]}", names[st], G.steps, (long long)(G.vclock / 1000), why, blocked.c_str());
  flush_trace();
  G.active = false;
  _exit(40 + (int)st);
}

bool any_timer(int* who, int64_t* when) {
  int best = -1;
  int64_t bt = 0;
  for (int i = 0; i < G.nthr; i++) {
    Thr& t = G.thr[i];
    if ((t.st == SLEEPING) || (t.st == BLK_FUTEX && t.has_deadline)) {
      if (best < 0 || t.deadline < bt || (t.deadline == bt && t.id < best)) {
        best = t.id;
        bt = t.deadline;
      }
    }
  }
  if (best < 0) return false;
  *who = best;
  *when = bt;
  return true;
}

void fire_timer(int who, int64_t when) {
  Thr& t = G.thr[who];
  if (when > G.vclock) G.vclock = when;
  if (t.st == BLK_FUTEX) t.timed_out = true;
  t.st = RUNNABLE;
  t.has_deadline = false;
  emit("{\"k\":\"tick\",\"now_us\":%lld,\"wakes\":%d}", (long long)(G.vclock / 1000), who);
}

// choose the next thread to perform its pending operation and hand over the baton
void reschedule(Thr* me) {
  G.steps++;
  if (G.steps > G.cfg.max_steps) end_now(ST_BUDGET, "step budget exhausted (livelock candidate)");
  int enabled[MAXT];
  int n = 0;
  const std::string& S = G.strategy;
  bool scripted = (S == "script" && G.script_pos < G.cfg.script_len);
  for (;;) {
    n = 0;
    for (int i = 0; i < G.nthr; i++)
      if (G.thr[i].st == RUNNABLE) enabled[n++] = i;
    int who;
    int64_t when;
    bool timers = any_timer(&who, &when);
    if (scripted) {
      if (G.cfg.script[G.script_pos] <= -2) { // spurious futex return of thread (-2 - entry)
        int t = -2 - G.cfg.script[G.script_pos];
        G.script_pos++;
        if (t >= G.nthr || G.thr[t].st != BLK_FUTEX) end_now(ST_SCRIPT_MISMATCH, "script asks for a spurious wake of a thread that is not blocked");
        G.thr[t].st = RUNNABLE;
        G.thr[t].has_deadline = false;
        G.thr[t].spurious = true;
        emit("{\"k\":\"spur\",\"wakes\":%d,\"now_us\":%lld}", t, (long long)(G.vclock / 1000));
        scripted = G.script_pos < G.cfg.script_len;
        continue;
      }
      if (G.cfg.script[G.script_pos] == -1) { // explicit time advance
        G.script_pos++;
        if (!timers) end_now(ST_SCRIPT_MISMATCH, "script asks for a tick but no timer is pending");
        fire_timer(who, when);
        scripted = G.script_pos < G.cfg.script_len;
        continue;
      }
      break;
    }
    if (n == 0) {
      if (!timers) end_now(ST_DEADLOCK, "no enabled thread and no pending timer");
      fire_timer(who, when);
      continue;
    }
    if (timers && S != "pb" && (int)(rnd() % 1000) < G.cfg.time_permille) {
      fire_timer(who, when);
      continue;
    }
    if (G.cfg.spurious_permille > 0 && S != "pb" && (int)(rnd() % 1000) < G.cfg.spurious_permille) {
      // a futex wait may return without a wake (signal, spurious): pick a blocked thread
      int cand[MAXT];
      int m = 0;
      for (int i = 0; i < G.nthr; i++)
        if (G.thr[i].st == BLK_FUTEX) cand[m++] = i;
      if (m > 0) {
        Thr& t = G.thr[cand[rnd() % (uint64_t)m]];
        if (t.has_deadline && t.deadline > G.vclock) {
          // it returns some time into its wait (never past another pending timer)
          int64_t lim = t.deadline;
          for (int i = 0; i < G.nthr; i++)
            if (i != t.id && (G.thr[i].st == SLEEPING || (G.thr[i].st == BLK_FUTEX && G.thr[i].has_deadline)) && G.thr[i].deadline < lim) lim = G.thr[i].deadline;
          if (lim > G.vclock) G.vclock += (int64_t)(rnd() % (uint64_t)(lim - G.vclock));
        }
        t.st = RUNNABLE;
        t.has_deadline = false;
        t.spurious = true;
        t.eintr = (rnd() & 1) != 0;
        emit("{\"k\":\"spur\",\"wakes\":%d,\"now_us\":%lld}", t.id, (long long)(G.vclock / 1000));
        continue;
      }
    }
    break;
  }
  int next = -1;
  bool me_enabled = me->st == RUNNABLE;
  if (scripted) {
    // entries name the program thread that performs the next *logged* step; the main thread
    // (spawn / join only) runs whenever it can; start / exit / clock points consume nothing
    if (G.thr[0].st == RUNNABLE) next = 0;
    for (int i = 1; next < 0 && i < G.nthr; i++)  // a thread that only has to exit does so at once (so it can be joined)
      if (G.thr[i].st == RUNNABLE && G.thr[i].pending == K_EXIT) next = i;
    if (next < 0) {
      next = G.cfg.script[G.script_pos];
      if (next >= 0 && next < G.nthr && G.thr[next].st == SLEEPING) fire_timer(next, G.thr[next].deadline); // its sleep is over
      if (next < 0 || next >= G.nthr || G.thr[next].st != RUNNABLE) {
        char b[128];
        snprintf(b, sizeof b, "script step %d wants thread %d which is not enabled", G.script_pos, next);
        end_now(ST_SCRIPT_MISMATCH, b);
      }
    }
  } else if (S == "pct") {
    // lower priority at change points
    for (long cp : G.pct_change)
      if (cp == G.steps && me_enabled) me->prio = --G.pct_low;
    long best = 0;
    for (int i = 0; i < n; i++) {
      Thr& t = G.thr[enabled[i]];
      if (next < 0 || t.prio > best) {
        next = t.id;
        best = t.prio;
      }
    }
  } else if (S == "pb" || S == "script") {
    // explicit preemptions from the script: pairs (decision_index, thread)
    int didx = (int)G.decisions.size();
    int forced = -1;
    if (n > 1) {
      for (int i = 0; i + 1 < G.cfg.script_len; i += 2)
        if (G.cfg.script[i] == didx) forced = G.cfg.script[i + 1];
    }
    if (forced >= 0 && G.thr[forced].st == RUNNABLE) next = forced;
    else if (me_enabled && !me->yielded) next = me->id;
    else {
      // non-preemptive switch: lowest id other than me if possible
      for (int i = 0; i < n; i++)
        if (enabled[i] != me->id) {
          next = enabled[i];
          break;
        }
      if (next < 0) next = enabled[0];
    }
  } else { // random (also after a script ran out)
    if (me_enabled && !me->yielded && (int)(rnd() % 1000) >= G.cfg.switch_permille) next = me->id;
    else {
      int cand[MAXT];
      int m = 0;
      for (int i = 0; i < n; i++)
        if (!(me->yielded && enabled[i] == me->id)) cand[m++] = enabled[i];
      if (m == 0) {
        cand[0] = me->id;
        m = 1;
      }
      next = cand[rnd() % (uint64_t)m];
    }
  }
  if (n > 1) {
    Decision d;
    d.step = (int)G.steps;
    d.chosen = next;
    d.n_enabled = n;
    d.enabled_mask = 0;
    for (int i = 0; i < n; i++) d.enabled_mask |= 1ull << enabled[i];
    d.prev = me->id;
    d.prev_enabled = (uint8_t)(me_enabled && !me->yielded);
    G.decisions.push_back(d);
  }
  me->yielded = false;
  if (next == me->id) return;
  G.cur = next;
  unpark(&G.thr[next]);
  if (me->st == EXITED) return; // never park an exited thread
  park(me);
}

void set_yield_prio(Thr* me) {
  me->yielded = true;
  if (G.strategy == "pct") me->prio = --G.pct_low;
}

struct ExitGuard {
  Thr* t = nullptr;
  ~ExitGuard() {
    if (t == nullptr || !G.active) return;
    Thr* me = t;
    Op op{};
    op.kind = K_EXIT;
    before(op);
    emit("{\"k\":\"exit\",\"t\":%d}", me->id);
    me->st = EXITED;
    for (int i = 0; i < G.nthr; i++)
      if (G.thr[i].st == JOINING && G.thr[i].join_target == me->id) G.thr[i].st = RUNNABLE;
    tls_me = nullptr;
    reschedule(me);
  }
};
thread_local ExitGuard tls_guard;

} // namespace

bool active() noexcept {
  return G.active && tls_me != nullptr && !G.in_sched;
}
int self() {
  return tls_me ? tls_me->id : -1;
}
long steps() {
  return G.steps;
}
int64_t now_ns() {
  return G.vclock;
}

void before(const Op& op) noexcept {
  if (!active()) return;
  tls_me->pending = op.kind;
  reschedule(tls_me);
}

bool inject_spurious() noexcept {
  return false;
}

void after(const Op& op, uint64_t result, bool ok) noexcept {
  if (!active()) return;
  count_step();
  if (!G.cfg.log_atomics) return;
  Thr* me = tls_me;
  std::string loc = op.kind == K_FENCE ? std::string() : loc_json(op.addr);
  switch (op.kind) {
    case K_LOAD:
      emit("{\"k\":\"load\",\"t\":%d,%s,\"sz\":%d,\"mo\":\"%s\",\"v\":%lld}", me->id, loc.c_str(), op.size, mo_name(op.mo), small(result, op.size));
      break;
    case K_STORE:
      emit("{\"k\":\"store\",\"t\":%d,%s,\"sz\":%d,\"mo\":\"%s\",\"v\":%lld}", me->id, loc.c_str(), op.size, mo_name(op.mo), small(op.a, op.size));
      break;
    case K_XCHG:
      emit("{\"k\":\"xchg\",\"t\":%d,%s,\"sz\":%d,\"mo\":\"%s\",\"a\":%lld,\"v\":%lld}", me->id, loc.c_str(), op.size, mo_name(op.mo), small(op.a, op.size), small(result, op.size));
      break;
    case K_CAS:
      emit("{\"k\":\"cas\",\"t\":%d,%s,\"sz\":%d,\"mo\":\"%s\",\"mof\":\"%s\",\"weak\":%d,\"a\":%lld,\"b\":%lld,\"v\":%lld,\"ok\":%s}", me->id, loc.c_str(), op.size, mo_name(op.mo), mo_name(op.mo_fail), op.weak, small(op.a, op.size), small(op.b, op.size), small(result, op.size), ok ? "true" : "false");
      break;
    case K_FAA:
    case K_FAND:
    case K_FOR:
    case K_FXOR:
      emit("{\"k\":\"%s\",\"t\":%d,%s,\"sz\":%d,\"mo\":\"%s\",\"a\":%lld,\"v\":%lld}", kind_name(op.kind), me->id, loc.c_str(), op.size, mo_name(op.mo), small(op.a, op.size), small(result, op.size));
      break;
    case K_FENCE:
      emit("{\"k\":\"fence\",\"t\":%d,\"mo\":\"%s\"}", me->id, mo_name(op.mo));
      break;
    default:
      break;
  }
}

void start(const Config& cfg) {
  G.cfg = cfg;
  G.strategy = cfg.strategy;
  G.rng = cfg.seed * 0x9E3779B97F4A7C15ull + 0x1234567ull;
  if (G.rng == 0) G.rng = 1;
  for (int i = 0; i < 8; i++) rnd();
  G.nthr = 1;
  Thr& t = G.thr[0];
  t = Thr();
  t.id = 0;
  t.st = RUNNABLE;
  t.prio = 1000;
  G.cur = 0;
  G.steps = 0;
  G.vclock = 0;
  G.script_pos = 0;
  G.decisions.clear();
  G.pct_change.clear();
  G.pct_low = 0;
  if (G.strategy == "pct") {
    for (int i = 0; i + 1 < cfg.pct_depth; i++) G.pct_change.push_back(1 + (long)(rnd() % (uint64_t)std::max(1, cfg.est_steps)));
    t.prio = 1000 + (long)(rnd() % 1000);
  }
  tls_me = &t;
  G.active = true;
}

void finish() {
  if (!G.active) return;
  for (int i = 1; i < G.nthr; i++) {
    if (G.thr[i].st != EXITED) {
      // main must join everything; treat as a driver error
      end_now(ST_CRASH, "finish() with live managed threads");
    }
  }
  emit_decisions();
  emit("{\"k\":\"end\",\"status\":\"ok\",\"steps\":%ld,\"vtime_us\":%lld}", G.steps, (long long)(G.vclock / 1000));
  G.active = false;
  tls_me = nullptr;
  flush_trace();
}

void name_loc(const void* addr, size_t bytes, const char* name) {
  Range r;
  r.lo = (uintptr_t)addr;
  r.hi = r.lo + bytes;
  r.name = name;
  G.names.push_back(r);
}
void name_array(const void* addr, size_t elem_bytes, size_t count, const char* fmt_name) {
  Range r;
  r.lo = (uintptr_t)addr;
  r.hi = r.lo + elem_bytes * count;
  r.name = fmt_name;
  r.elem = elem_bytes;
  G.names.push_back(r);
}
void clear_names() {
  G.names.clear();
}

void event(const char* body, bool pt) {
  if (!G.active || tls_me == nullptr) {
    // setup-phase events are still logged (thread -1)
    emit("{\"t\":-1,%s}", body);
    return;
  }
  if (pt) {
    Op op{};
    op.kind = K_USER;
    before(op);
    count_step();
  }
  emit("{\"t\":%d,%s}", tls_me->id, body);
}
void eventf(bool pt, const char* fmt, ...) {
  char buf[900];
  va_list ap;
  va_start(ap, fmt);
  vsnprintf(buf, sizeof buf, fmt, ap);
  va_end(ap);
  event(buf, pt);
}

void set_trace_fd(int fd) {
  G.trace_fd = fd;
}
const char* trace_data(size_t* len) {
  *len = G.trace.size();
  return G.trace.data();
}
const Decision* decisions(size_t* n) {
  *n = G.decisions.size();
  return G.decisions.data();
}

// ---- futex ------------------------------------------------------------------
int futex_wait(uint32_t* addr, uint32_t val, const struct timespec* to) noexcept {
  Thr* me = tls_me;
  Op op{};
  op.kind = K_FUTEX_WAIT;
  op.addr = addr;
  before(op);
  count_step();
  uint32_t cur = __atomic_load_n(addr, __ATOMIC_RELAXED);
  std::string loc = loc_json(addr);
  if (cur != val) {
    emit("{\"k\":\"fwait\",\"t\":%d,%s,\"exp\":%lld,\"cur\":%lld,\"res\":\"eagain\"}", me->id, loc.c_str(), small(val, 4), small(cur, 4));
    errno = EAGAIN;
    return -1;
  }
  int64_t rel = -1;
  if (to != nullptr) {
    rel = (int64_t)to->tv_sec * 1000000000ll + to->tv_nsec;
    if (rel < 0) rel = 0;
  }
  emit("{\"k\":\"fwait\",\"t\":%d,%s,\"exp\":%lld,\"cur\":%lld,\"res\":\"block\",\"to_us\":%lld}", me->id, loc.c_str(), small(val, 4), small(cur, 4), (long long)(rel < 0 ? -1 : rel / 1000));
  me->st = BLK_FUTEX;
  me->waddr = addr;
  me->timed_out = false;
  me->has_deadline = rel >= 0;
  me->deadline = G.vclock + (rel >= 0 ? rel : 0);
  me->block_seq = ++G.block_counter;
  reschedule(me);
  bool timed_out = me->timed_out;
  me->timed_out = false;
  me->waddr = nullptr;
  count_step();
  bool spur = me->spurious;
  bool eintr = spur && me->eintr;
  me->spurious = false;
  me->eintr = false;
  emit("{\"k\":\"fret\",\"t\":%d,%s,\"res\":\"%s\"}", me->id, loc.c_str(), timed_out ? "timeout" : eintr ? "eintr" : spur ? "spurious" : "woken");
  if (eintr) {
    errno = EINTR;
    return -1;
  }
  if (timed_out) {
    errno = ETIMEDOUT;
    return -1;
  }
  return 0;
}

int futex_wake(uint32_t* addr, int n) noexcept {
  Thr* me = tls_me;
  Op op{};
  op.kind = K_FUTEX_WAKE;
  op.addr = addr;
  before(op);
  count_step();
  int woken = 0;
  while (woken < n) {
    Thr* best = nullptr;
    for (int i = 0; i < G.nthr; i++) {
      Thr& t = G.thr[i];
      if (t.st == BLK_FUTEX && t.waddr == addr && (best == nullptr || t.block_seq < best->block_seq)) best = &t;
    }
    if (best == nullptr) break;
    best->st = RUNNABLE;
    best->has_deadline = false;
    woken++;
  }
  emit("{\"k\":\"fwake\",\"t\":%d,%s,\"n\":%d,\"woken\":%d}", me->id, loc_json(addr).c_str(), n > 1000000 ? -1 : n, woken);
  return woken;
}

void sleep_ns(int64_t ns) noexcept {
  Thr* me = tls_me;
  Op op{};
  op.kind = K_SLEEP;
  before(op);
  count_step();
  emit("{\"k\":\"sleep\",\"t\":%d,\"us\":%lld}", me->id, (long long)(ns / 1000));
  if (ns <= 0) {
    set_yield_prio(me);
    return;
  }
  me->st = SLEEPING;
  me->deadline = G.vclock + ns;
  if (G.strategy == "pct") me->prio = --G.pct_low;
  reschedule(me);
}

void yield() noexcept {
  Thr* me = tls_me;
  Op op{};
  op.kind = K_YIELD;
  set_yield_prio(me);
  before(op);
  count_step();
  emit("{\"k\":\"yield\",\"t\":%d}", me->id);
}

int64_t clock_read(int clk) noexcept {
  Thr* me = tls_me;
  Op op{};
  op.kind = K_CLOCK;
  before(op);
  emit("{\"k\":\"clock\",\"t\":%d,\"clk\":%d,\"now_us\":%lld}", me->id, clk, (long long)(G.vclock / 1000));
  return G.vclock;
}

__asm__(".symver __pthread_mutex_lock,__pthread_mutex_lock@GLIBC_2.2.5");
__asm__(".symver __pthread_mutex_trylock,__pthread_mutex_trylock@GLIBC_2.2.5");
__asm__(".symver __pthread_mutex_unlock,__pthread_mutex_unlock@GLIBC_2.2.5");
extern "C" int __pthread_mutex_trylock(void*);
extern "C" int __pthread_mutex_unlock(void*);

void mutex_lock(void* m) noexcept {
  Thr* me = tls_me;
  for (;;) {
    Op op{};
    op.kind = K_MUTEX_LOCK;
    op.addr = m;
    before(op);
    if (__pthread_mutex_trylock(m) == 0) {
      emit("{\"k\":\"lock\",\"t\":%d,%s}", me->id, loc_json(m).c_str());
      return;
    }
    me->st = LOCKWAIT;
    me->mtx = m;
    reschedule(me);
  }
}

int mutex_trylock(void* m) noexcept {
  Thr* me = tls_me;
  Op op{};
  op.kind = K_MUTEX_LOCK;
  op.addr = m;
  before(op);
  int r = __pthread_mutex_trylock(m);
  emit("{\"k\":\"trylock\",\"t\":%d,%s,\"ok\":%s}", me->id, loc_json(m).c_str(), r == 0 ? "true" : "false");
  return r;
}

void mutex_unlock(void* m) noexcept {
  Thr* me = tls_me;
  Op op{};
  op.kind = K_MUTEX_UNLOCK;
  op.addr = m;
  before(op);
  __pthread_mutex_unlock(m);
  for (int i = 0; i < G.nthr; i++)
    if (G.thr[i].st == LOCKWAIT && G.thr[i].mtx == m) G.thr[i].st = RUNNABLE;
  emit("{\"k\":\"unlock\",\"t\":%d,%s}", me->id, loc_json(m).c_str());
}

int on_create(void** tramp_arg, void* (*fn)(void*), void* arg) noexcept {
  if (!active()) return -1;
  Thr* me = tls_me;
  Op op{};
  op.kind = K_SPAWN;
  before(op);
  if (G.nthr >= MAXT) end_now(ST_CRASH, "too many threads");
  int id = G.nthr++;
  Thr& t = G.thr[id];
  t = Thr();
  t.id = id;
  t.st = RUNNABLE;
  t.prio = 1000 + (long)(G.strategy == "pct" ? rnd() % 1000 : 0);
  ThreadStart* ts = (ThreadStart*)malloc(sizeof(ThreadStart));
  ts->fn = fn;
  ts->arg = arg;
  ts->id = id;
  *tramp_arg = ts;
  emit("{\"k\":\"spawn\",\"t\":%d,\"child\":%d}", me->id, id);
  return id;
}

void* trampoline(void* p) {
  ThreadStart ts = *(ThreadStart*)p;
  free(p);
  Thr* me = &G.thr[ts.id];
  tls_me = me;
  tls_guard.t = me; // constructed first => destroyed last among this thread's thread_locals
  park(me);         // wait until scheduled for the first time
  emit("{\"k\":\"start\",\"t\":%d}", me->id);
  return ts.fn(ts.arg);
}

void register_handle(int id, unsigned long h) noexcept {
  G.thr[id].handle = h;
}
int id_of_handle(unsigned long h) noexcept {
  if (!G.active) return -1;
  // glibc reuses the pthread_t of a joined thread: the newest live owner of the handle wins
  for (int i = G.nthr - 1; i >= 1; i--)
    if (G.thr[i].handle == h && G.thr[i].handle != 0) return i;
  return -1;
}

void on_join(int id) noexcept {
  Thr* me = tls_me;
  Op op{};
  op.kind = K_JOIN;
  before(op);
  if (G.thr[id].st != EXITED) {
    me->st = JOINING;
    me->join_target = id;
    reschedule(me);
  }
  G.thr[id].handle = 0;
  emit("{\"k\":\"join\",\"t\":%d,\"child\":%d}", me->id, id);
}

void point(const void* addr, const char* what) noexcept {
  if (!active()) return;
  Op op{};
  op.kind = K_POINT;
  op.addr = addr;
  before(op);
  emit("{\"k\":\"point\",\"t\":%d,%s,\"what\":\"%s\"}", tls_me->id, loc_json(addr).c_str(), what);
}

} // namespace vsched
