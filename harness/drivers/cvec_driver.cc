// Driver for ConcurrentVector (property C04).
// Runs client programs against the real vector under vsched with VIRTUAL TIME and logs
//   * call / ret of the public operations with the identity of the element they designate,
//   * constructor / destructor calls of the element type (per element identity),
//   * every allocation / free of block tables and blocks with the virtual time,
// next to the interposed atomic operations on _block_table and RetireList::_head.
//
// Allocation-recording trick: babylon allocates block tables and blocks (and nothing else here) with the
// ALIGNED global operator new / delete.  This executable replaces those four functions.  Every aligned
// allocation made while the scheduler is active gets a sequence number `aid`; a free does not hand the
// memory back but keeps it in quarantine, so (1) identities are never recycled inside an execution,
// (2) "snapshot used after its table was freed" is an observable event (the driver asks is_freed()
// before it touches a snapshot) instead of silent corruption, (3) babylon itself reading a table that
// was given back (legitimate more than 64 s after it was superseded: a thread may be stalled that long
// inside an operation) still reads what was there; whether that read was inside the guaranteed period
// is judged by the specifications from the recorded times.  An element is identified by (aid of its block,
// offset in the block).  Which aid is a table and which a block is not decided here: a table is what
// _block_table / the retire list point to, a block is what holds elements (the specifications decide).
//
// program syntax (param prog): threads separated by '_', operations by '.'
//   e<i>   ensure(i)            r<n>  reserve(n)         x<i>  operator[](i)   (i must have been ensured)
//   s      take + hold snapshot u<i>  use held snapshot[i] (skipped, logged freed=1, if its table was freed)
//   f<n>   for_each(0, n)       (reserved_snapshot(n) + segment walk; logs every element it is handed)
//   g      gc()                 w<s>  sleep s seconds (virtual)
// params: bs = block size hint, st = 1: static BLOCK_SIZE template argument (bs in {1,2,4}), t0 = initial
//         virtual time in seconds (every thread starts by sleeping until then: 16-bit stamp wrap)
#include <babylon/concurrent/vector.h>

#include <string>
#include <thread>
#include <vector>

#include "vrun.h"

namespace {

// ---------------------------------------------------------------- allocation recorder
struct Rec {
  char* p;
  size_t sz;
  bool freed;
};
constexpr int MAXREC = 4096;
Rec g_rec[MAXREC];
int g_nrec = 0;
bool g_track = false;
thread_local bool tl_in_hook = false;

int find_rec(const void* q) {
  const char* c = (const char*)q;
  for (int i = g_nrec; i-- > 0;)
    if (c >= g_rec[i].p && c < g_rec[i].p + g_rec[i].sz) return i;
  return -1;
}
long now_s() {
  return (long)(vsched::now_ns() / 1000000000ll);
}

void* rec_alloc(size_t sz, size_t al) {
  if (al < sizeof(void*)) al = sizeof(void*);
  void* p = nullptr;
  if (posix_memalign(&p, al, sz ? sz : 1) != 0) abort();
  if (g_track && !tl_in_hook && vsched::active() && g_nrec < MAXREC) {
    tl_in_hook = true;
    int aid = g_nrec + 1;
    g_rec[g_nrec++] = Rec {(char*)p, sz, false};
    vsched::eventf(false, "\"k\":\"alloc\",\"aid\":%d,\"sz\":%zu,\"now\":%ld", aid, sz, now_s());
    tl_in_hook = false;
  }
  return p;
}
void rec_free(void* p) {
  if (p == nullptr) return;
  int r = find_rec(p);
  if (r < 0 || tl_in_hook) {
    if (r < 0) free(p);
    return;
  }
  tl_in_hook = true;
  Rec& rc = g_rec[r];
  bool ok = !rc.freed && rc.p == (char*)p;
  vsched::eventf(false, "\"k\":\"free\",\"aid\":%d,\"ok\":%s,\"now\":%ld", r + 1, ok ? "true" : "false", now_s());
  if (ok) {
    rc.freed = true; // kept in quarantine (neither reused nor poisoned)
  }
  tl_in_hook = false;
}
bool is_freed(const void* p) {
  int r = find_rec(p);
  return r >= 0 && g_rec[r].freed;
}

// ---------------------------------------------------------------- element type
constexpr int MARK = 0x5EED;
struct Elem {
  int v;
  int pad;
  Elem() noexcept;
  ~Elem() noexcept;
};
void elem_id(const void* e, int* aid, long* off) {
  int r = find_rec(e);
  *aid = r < 0 ? -1 : r + 1;
  *off = r < 0 ? 0 : (long)(((const char*)e - g_rec[r].p) / (long)sizeof(Elem));
}
Elem::Elem() noexcept {
  int aid;
  long off;
  elem_id(this, &aid, &off);
  vsched::eventf(false, "\"k\":\"ctor\",\"aid\":%d,\"off\":%ld", aid, off);
  v = MARK;
  pad = 0;
}
Elem::~Elem() noexcept {
  int aid;
  long off;
  elem_id(this, &aid, &off);
  vsched::eventf(false, "\"k\":\"dtor\",\"aid\":%d,\"off\":%ld,\"val\":%d", aid, off, v == MARK ? 1 : 0);
  v = 0;
}

// ---------------------------------------------------------------- programs
struct OpSpec {
  char op;
  long n;
};
std::vector<std::vector<OpSpec>> parse_prog(const std::string& s) {
  std::vector<std::vector<OpSpec>> prog(1);
  size_t i = 0;
  while (i <= s.size()) {
    size_t j = s.find_first_of("._", i);
    if (j == std::string::npos) j = s.size();
    if (j > i) prog.back().push_back(OpSpec {s[i], atol(s.c_str() + i + 1)});
    if (j < s.size() && s[j] == '_') prog.emplace_back();
    i = j + 1;
  }
  return prog;
}

template <typename V>
struct Holder {
  typename V::Snapshot snap;
  bool has = false;
};

template <typename V>
int table_aid(V& v, const void* tb) {
  (void)v;
  if (tb == (const void*)&V::EMPTY_BLOCK_TABLE) return 0;
  int r = find_rec(tb);
  return r < 0 ? -1 : r + 1;
}

template <typename V>
void log_elem_ret(const char* op, long n, V& v, Elem* e) {
  (void)v;
  int aid;
  long off;
  elem_id(e, &aid, &off);
  // the user reads the element it was handed: it must be a constructed object
  int val = (aid >= 0 && !is_freed(e)) ? (e->v == MARK ? 1 : 0) : -1;
  vsched::eventf(false, "\"k\":\"ret\",\"op\":\"%s\",\"n\":%ld,\"aid\":%d,\"off\":%ld,\"val\":%d,\"now\":%ld", op, n, aid, off, val, now_s());
}

template <typename V>
void run_op(V& v, Holder<V>& h, const OpSpec& o) {
  char ops[2] = {o.op, 0};
  if (o.op == 'w') {
    struct timespec ts = {(time_t)o.n, 0};
    ::nanosleep(&ts, nullptr);
    return;
  }
  vsched::eventf(true, "\"k\":\"call\",\"op\":\"%s\",\"n\":%ld,\"now\":%ld", ops, o.n, now_s());
  switch (o.op) {
    case 'e': {
      Elem& e = v.ensure((size_t)o.n);
      log_elem_ret<V>(ops, o.n, v, &e);
      break;
    }
    case 'x': {
      Elem& e = v[(size_t)o.n];
      log_elem_ret<V>(ops, o.n, v, &e);
      break;
    }
    case 'r': {
      v.reserve((size_t)o.n);
      vsched::eventf(false, "\"k\":\"ret\",\"op\":\"r\",\"n\":%ld,\"aid\":0,\"off\":0,\"val\":0,\"now\":%ld", o.n, now_s());
      break;
    }
    case 's': {
      h.snap = v.snapshot();
      h.has = true;
      vsched::eventf(false, "\"k\":\"ret\",\"op\":\"s\",\"n\":0,\"aid\":%d,\"off\":0,\"val\":%ld,\"now\":%ld", table_aid(v, h.snap._block_table), (long)h.snap.size(), now_s());
      break;
    }
    case 'u': {
      int tb = h.has ? table_aid(v, h.snap._block_table) : -1;
      if (h.has && tb > 0 && is_freed(h.snap._block_table)) {
        // the table behind the held snapshot is gone: touching it would be a use after free
        vsched::eventf(false, "\"k\":\"ret\",\"op\":\"u\",\"n\":%ld,\"tb\":%d,\"aid\":-1,\"off\":0,\"val\":-1,\"freed\":1,\"now\":%ld", o.n, tb, now_s());
      } else if (!h.has || tb < 0 || (size_t)o.n >= h.snap.size()) {
        vsched::eventf(false, "\"k\":\"ret\",\"op\":\"u\",\"n\":%ld,\"tb\":%d,\"aid\":-1,\"off\":0,\"val\":-1,\"freed\":0,\"now\":%ld", o.n, h.has ? tb : -1, now_s());
      } else {
        Elem& e = h.snap[(size_t)o.n];
        int aid;
        long off;
        elem_id(&e, &aid, &off);
        int val = (aid >= 0 && !is_freed(&e)) ? (e.v == MARK ? 1 : 0) : -1;
        vsched::eventf(false, "\"k\":\"ret\",\"op\":\"u\",\"n\":%ld,\"tb\":%d,\"aid\":%d,\"off\":%ld,\"val\":%d,\"freed\":0,\"now\":%ld", o.n, tb, aid, off, val, now_s());
      }
      break;
    }
    case 'f': {
      std::string ids = "[";
      long idx = 0;
      v.for_each(0, (size_t)o.n, [&](Elem* b, Elem* e) {
        for (Elem* p = b; p != e; ++p, ++idx) {
          int aid;
          long off;
          elem_id(p, &aid, &off);
          int val = (aid >= 0 && !is_freed(p)) ? (p->v == MARK ? 1 : 0) : -1;
          ids += (idx ? "," : "") + std::string("[") + std::to_string(aid) + "," + std::to_string(off) + "," + std::to_string(val) + "]";
        }
      });
      ids += "]";
      vsched::eventf(false, "\"k\":\"ret\",\"op\":\"f\",\"n\":%ld,\"aid\":0,\"off\":0,\"val\":%ld,\"els\":%s,\"now\":%ld", o.n, idx, ids.c_str(), now_s());
      break;
    }
    case 'g': {
      v.gc();
      vsched::eventf(false, "\"k\":\"ret\",\"op\":\"g\",\"n\":0,\"aid\":0,\"off\":0,\"val\":0,\"now\":%ld", now_s());
      break;
    }
    default:
      break;
  }
}

template <typename V>
void run_scenario(const vrun::Params& p) {
  auto prog = parse_prog(p.str("prog", "e0_e1"));
  long t0 = p.get("t0", 0);
  size_t bs = (size_t)p.get("bs", 1);
  g_nrec = 0;
  {
    V* vp = new V(bs);
    V& v = *vp;
    vsched::name_loc(&v._block_table, sizeof(v._block_table), "bt");
    vsched::name_loc(&v._retire_list._head, sizeof(v._retire_list._head), "head");
    std::vector<Holder<V>> holders(prog.size());
    vrun::begin();
    g_track = true;
    vsched::eventf(false, "\"k\":\"cfg\",\"bs\":%zu,\"elem\":%zu", (size_t)v.block_size(), sizeof(Elem));
    {
      std::vector<std::thread> ths;
      for (size_t t = 0; t < prog.size(); t++) {
        ths.emplace_back([&, t] {
          if (t0 > 0) {
            struct timespec ts = {(time_t)t0, 0};
            ::nanosleep(&ts, nullptr);
          }
          for (auto& op : prog[t]) run_op(v, holders[t], op);
        });
      }
      for (auto& th : ths) th.join();
    }
    // the vector dies: every element destroyed once, every table / block given back
    vsched::eventf(false, "\"k\":\"destroy\",\"now\":%ld", now_s());
    delete vp;
    std::string live = "[";
    bool first = true;
    for (int i = 0; i < g_nrec; i++)
      if (!g_rec[i].freed) {
        live += (first ? "" : ",") + std::to_string(i + 1);
        first = false;
      }
    live += "]";
    vsched::eventf(false, "\"k\":\"dead\",\"live\":%s,\"now\":%ld", live.c_str(), now_s());
    g_track = false;
  }
  vsched::finish();
}

void scenario_cvec(const vrun::Params& p) {
  long st = p.get("st", 0);
  long bs = p.get("bs", 1);
  if (st == 0) run_scenario<::babylon::ConcurrentVector<Elem, 0>>(p);
  else if (bs == 1) run_scenario<::babylon::ConcurrentVector<Elem, 1>>(p);
  else if (bs == 2) run_scenario<::babylon::ConcurrentVector<Elem, 2>>(p);
  else run_scenario<::babylon::ConcurrentVector<Elem, 4>>(p);
}

struct Reg {
  Reg() { vrun::add("cvec", scenario_cvec, "bs=1,st=0,t0=0,prog=e0_e1"); }
} reg;

} // namespace

// ---------------------------------------------------------------- replaced aligned operator new / delete
void* operator new(std::size_t sz, std::align_val_t al) {
  return rec_alloc(sz, (size_t)al);
}
void* operator new[](std::size_t sz, std::align_val_t al) {
  return rec_alloc(sz, (size_t)al);
}
void operator delete(void* p, std::align_val_t) noexcept {
  rec_free(p);
}
void operator delete(void* p, std::size_t, std::align_val_t) noexcept {
  rec_free(p);
}
void operator delete[](void* p, std::align_val_t) noexcept {
  rec_free(p);
}
void operator delete[](void* p, std::size_t, std::align_val_t) noexcept {
  rec_free(p);
}

int main(int argc, char** argv) {
  return vrun::main(argc, argv);
}
