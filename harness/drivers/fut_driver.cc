// Driver for Future / Promise / CountDownLatch (property C08).
// Runs client programs against the real FutureContext (default SchedInterface: futex and clock go
// through the libc shims) under vsched and logs call / ret / callback / value accesses next to the
// interposed atomic operations.
//
// params:  mode=fut|latch, count=<latch count>, prog=<threads separated by '_', operations by '.'>
//   sv<v>    promise.set_value(v)                      (mode=fut, exactly one in a program)
//   cd<n>    latch.count_down(n)                       (mode=latch)
//   get      future.get(), then read the value         (every client thread works on its own COPY of the future)
//   wf<to>   future.wait_for(to)   to = z (0) | n (-1ns) | N (INT64_MIN ns) | h (INT64_MAX/2 ns) | H (INT64_MAX ns)
//                                     | <digits> microseconds (std::chrono::microseconds)
//   of       future.on_finish(callback(T&))            th   future.then(callback(T&) -> int)
//   rd       future.ready()                            sl<us> usleep (driver level, moves virtual time)
// wbase=<n> (mode=fut): initial waiter count 2^31 - n (counter about to carry into READY_MASK), n <= 16
// callback / node identity:  id = thread * 10 + index of the operation in the thread's program (1-based)
#include <babylon/future.h>

#include <chrono>
#include <string>
#include <thread>
#include <vector>

#include "vrun.h"

namespace {

constexpr int POISON = 99; // content of the value cell before it is constructed

struct Val {
  int v;
  Val(int x) {
    // the construction of the value inside set_value (non-atomic write of the value cell)
    vsched::eventf(true, "\"k\":\"vw\",\"v\":%d", x);
    v = x;
  }
};

struct OpSpec {
  std::string name;
  std::string arg;
};

std::vector<std::vector<OpSpec>> parse_prog(const std::string& s) {
  std::vector<std::vector<OpSpec>> prog;
  prog.emplace_back();
  size_t i = 0;
  while (i <= s.size()) {
    size_t j = s.find_first_of("._", i);
    if (j == std::string::npos) j = s.size();
    std::string tok = s.substr(i, j - i);
    if (!tok.empty()) {
      OpSpec op;
      static const char* names[] = {"get", "sv", "cd", "wf", "of", "th", "rd", "sl"};
      for (const char* n : names) {
        if (tok.compare(0, strlen(n), n) == 0) {
          op.name = n;
          op.arg = tok.substr(strlen(n));
          break;
        }
      }
      prog.back().push_back(op);
    }
    if (j < s.size() && s[j] == '_') prog.emplace_back();
    i = j + 1;
  }
  return prog;
}

inline int as_int(const Val& v) { return v.v; }
inline int as_int(const size_t& v) { return (int)v; }

struct ThenResult {
  int id;
  ::babylon::Future<int> fut;
};

template <typename F>
bool do_wait_for(F& fut, const std::string& a) {
  using ns = std::chrono::nanoseconds;
  if (a == "z") return fut.wait_for(ns(0));
  if (a == "n") return fut.wait_for(ns(-1));
  if (a == "N") return fut.wait_for(ns(INT64_MIN));
  if (a == "h") return fut.wait_for(ns(INT64_MAX / 2));
  if (a == "H") return fut.wait_for(ns(INT64_MAX));
  return fut.wait_for(std::chrono::microseconds(atol(a.c_str())));
}

// the operations of a client thread on its own copy of the future
template <typename F, typename SetFn>
void run_thread(int tid, const std::vector<OpSpec>& ops, const F& base, SetFn&& setter, std::vector<ThenResult>& thens) {
  F fut = base; // a copy of the future (shares the context)
  int opi = 0;
  for (auto& op : ops) {
    opi++;
    int id = tid * 10 + opi;
    long res = 0;
    vsched::eventf(true, "\"k\":\"call\",\"op\":\"%s\",\"arg\":\"%s\",\"id\":%d", op.name.c_str(), op.arg.c_str(), id);
    if (op.name == "sv" || op.name == "cd") {
      setter(atoi(op.arg.c_str()));
    } else if (op.name == "get") {
      auto& r = fut.get();
      int seen = as_int(r);
      vsched::eventf(true, "\"k\":\"vr\",\"v\":%d", seen);
      res = 1;
    } else if (op.name == "wf") {
      res = do_wait_for(fut, op.arg) ? 1 : 0;
    } else if (op.name == "rd") {
      res = fut.ready() ? 1 : 0;
    } else if (op.name == "of") {
      fut.on_finish([id](typename F::ResultType& v) {
        int seen = as_int(v);
        vsched::eventf(true, "\"k\":\"cbb\",\"id\":%d,\"op\":\"of\",\"v\":%d", id, seen);
        vsched::eventf(true, "\"k\":\"cbe\",\"id\":%d,\"op\":\"of\"", id);
      });
    } else if (op.name == "th") {
      auto f2 = fut.then([id](typename F::ResultType& v) {
        int seen = as_int(v);
        vsched::eventf(true, "\"k\":\"cbb\",\"id\":%d,\"op\":\"th\",\"v\":%d", id, seen);
        vsched::eventf(true, "\"k\":\"cbe\",\"id\":%d,\"op\":\"th\"", id);
        return seen + 1000;
      });
      thens.push_back(ThenResult {id, f2});
    } else if (op.name == "sl") {
      ::usleep((useconds_t)atol(op.arg.c_str()));
    }
    vsched::eventf(true, "\"k\":\"ret\",\"op\":\"%s\",\"arg\":\"%s\",\"id\":%d,\"res\":%ld", op.name.c_str(), op.arg.c_str(), id, res);
  }
}

// make the interned tokens of the trace decodable: READY_MASK + k, READY_MASK - 16 + k and -(k) as 64 bit
void emit_symbols() {
  static std::atomic<uint32_t> sym32 {0};
  static std::atomic<uint64_t> sym64 {0};
  vsched::name_loc(&sym32, sizeof(sym32), "sym32");
  vsched::name_loc(&sym64, sizeof(sym64), "sym64");
  for (uint32_t k = 0; k < 12; k++) sym32.store(0x80000000u + k, std::memory_order_relaxed);
  for (uint32_t k = 0; k < 16; k++) sym32.store(0x7FFFFFF0u + k, std::memory_order_relaxed);
  for (uint64_t k = 2; k < 6; k++) sym64.store((uint64_t)0 - k, std::memory_order_relaxed);
}

std::string thens_json(std::vector<std::vector<ThenResult>>& thens) {
  std::string s = "[";
  bool first = true;
  for (auto& v : thens) {
    for (auto& r : v) {
      bool rdy = r.fut.ready();
      int val = rdy ? r.fut.get() : -1;
      s += (first ? "" : ",") + std::string("[") + std::to_string(r.id) + "," + (rdy ? "1" : "0") + "," + std::to_string(val) + "]";
      first = false;
    }
  }
  return s + "]";
}

void scenario_fut(const vrun::Params& p) {
  auto prog = parse_prog(p.str("prog", "sv7_get"));
  bool latch_mode = p.str("mode", "fut") == "latch";
  std::vector<std::vector<ThenResult>> thens(prog.size());
  if (!latch_mode) {
    using P = ::babylon::Promise<Val>;
    using F = ::babylon::Future<Val>;
    P promise;
    F base = promise.get_future();
    auto* ctx = promise._context.get();
    reinterpret_cast<Val*>(ctx->_storage)->v = POISON;
    // wbase = n: the waiter counter starts n registrations before its carry into READY_MASK (as after 2^31 - n
    // slow-path get / wait_for calls, e.g. timed-out polls, on this future)
    if (p.get("wbase", 0) > 0) ctx->_futex.value().store(0x80000000u - (uint32_t)p.get("wbase", 0), std::memory_order_relaxed);
    vsched::name_loc(&ctx->_futex, sizeof(ctx->_futex), "futex");
    vsched::name_loc(&ctx->_head, sizeof(ctx->_head), "head");
    vrun::begin();
    emit_symbols();
    {
      std::vector<std::thread> ths;
      for (size_t t = 0; t < prog.size(); t++) {
        ths.emplace_back([&, t] { run_thread((int)t + 1, prog[t], base, [&](int v) { promise.set_value(v); }, thens[t]); });
      }
      for (auto& th : ths) th.join();
    }
    bool rdy = base.ready();
    vsched::eventf(false, "\"k\":\"final\",\"ready\":%d,\"value\":%d,\"thens\":%s", rdy ? 1 : 0, reinterpret_cast<Val*>(ctx->_storage)->v, thens_json(thens).c_str());
    thens.clear();
    vsched::finish();
  } else {
    using F = ::babylon::Future<size_t>;
    size_t count = (size_t)p.get("count", 1);
    ::babylon::CountDownLatch<> latch(count);
    F base = latch.get_future();
    auto* ctx = latch._promise._context.get();
    if (count != 0) *reinterpret_cast<size_t*>(ctx->_storage) = POISON;
    vsched::name_loc(&ctx->_futex, sizeof(ctx->_futex), "futex");
    vsched::name_loc(&ctx->_head, sizeof(ctx->_head), "head");
    vsched::name_loc(&latch._count, sizeof(latch._count), "count");
    vrun::begin();
    emit_symbols();
    {
      std::vector<std::thread> ths;
      for (size_t t = 0; t < prog.size(); t++) {
        ths.emplace_back([&, t] { run_thread((int)t + 1, prog[t], base, [&](int n) { latch.count_down((size_t)n); }, thens[t]); });
      }
      for (auto& th : ths) th.join();
    }
    bool rdy = base.ready();
    vsched::eventf(false, "\"k\":\"final\",\"ready\":%d,\"value\":%d,\"thens\":%s", rdy ? 1 : 0, (int)*reinterpret_cast<size_t*>(ctx->_storage), thens_json(thens).c_str());
    thens.clear();
    vsched::finish();
  }
}

struct Reg {
  Reg() { vrun::add("fut", scenario_fut, "mode=fut,count=1,wbase=0,prog=sv7_get"); }
} reg;

} // namespace

int main(int argc, char** argv) {
  return vrun::main(argc, argv);
}
