// Driver for property C20 (logging).
//
// scenario "entry"  (sequential): the REAL LogStreamBuffer / LogEntry on a recording PageAllocator.
//   params: P=<page size>, prog=<entries separated by '_', write sizes separated by '.'>  e.g. 3.17.1_40
//   per step it logs: size (field and abstract), pages allocated (ids = order of allocation), guard state;
//   at the end of an entry the scatter list as (page id, offset, len), the bytes read through it and the
//   pages handed back when the entry is released through AsyncFileAppender::discard (the real release path).
//
// scenario "app"  (concurrent): the REAL AsyncFileAppender under vsched with a recording PageAllocator and
//   recording FileObjects (virtual seams). writev is redefined in this executable: it logs the segments
//   (page ids) and forwards to the kernel; the files are memfds the driver reads back after close().
//   params: P, cap=<queue capacity>, prog=<threads '_', ops '.'>  op = w<file>x<len> | d<len>
//           close=safe|drain|raw   rot=<permille: probability that a descriptor check rotates the file>
//           stall=1: the writer thread is held inside its first descriptor check until every write() has returned
//                    (a backlog of all remaining entries then arrives in ONE batch; needs cap >= number of writes)
//   writev behaves like the kernel: more than IOV_MAX (1024) segments -> -1 / EINVAL, nothing written.
//
// Precondition O2 (DESIGN 6): an entry of size 0 is the appender's own stop marker, so the driver never
// hands one to write().
#include <babylon/logging/async_file_appender.h>
#include <babylon/logging/log_entry.h>
#include <babylon/reusable/page_allocator.h>

#include <errno.h>
#include <fcntl.h>
#include <limits.h>
#include <string.h>
#include <sys/mman.h>
#include <sys/syscall.h>
#include <sys/uio.h>
#include <unistd.h>

#include <map>
#include <string>
#include <thread>
#include <vector>

#include "vrun.h"

namespace {

using ::babylon::AsyncFileAppender;
using ::babylon::FileObject;
using ::babylon::LogEntry;
using ::babylon::LogStreamBuffer;
using ::babylon::PageAllocator;

// ---- long lists are logged in parts that follow their main event ------------------------------
void emit_parts(const char* of, const std::vector<long>& v) {
  std::string s;
  size_t n = 0;
  for (size_t i = 0; i < v.size(); i++) {
    s += (n ? "," : "") + std::to_string(v[i]);
    n++;
    if (s.size() > 700 || i + 1 == v.size()) {
      vsched::eventf(false, "\"k\":\"part\",\"of\":\"%s\",\"v\":[%s]", of, s.c_str());
      s.clear();
      n = 0;
    }
  }
}

// ---- recording page allocator (virtual seam) -----------------------------------------------------
constexpr size_t GUARD = 512;
constexpr unsigned char GUARD_BYTE = 0xA5;

struct RecAlloc : public PageAllocator {
  size_t P = 64;
  std::map<char*, int> live; // page base -> id
  int next_id = 0;
  bool damaged = false;           // a guard zone was written
  std::vector<long> op_allocs;    // ids allocated since the last take()
  std::vector<long> op_frees;     // ids freed since the last take() (0 = not a live page)
  bool log_each = false;          // concurrent scenario: one event per allocate / free

  size_t page_size() const noexcept override { return P; }
  using PageAllocator::allocate;
  using PageAllocator::deallocate;
  void allocate(void** pages, size_t num) noexcept override {
    for (size_t i = 0; i < num; i++) {
      char* raw = (char*)malloc(GUARD + P + GUARD);
      memset(raw, GUARD_BYTE, GUARD);
      memset(raw + GUARD, 0xEE, P);
      memset(raw + GUARD + P, GUARD_BYTE, GUARD);
      char* page = raw + GUARD;
      int id = ++next_id;
      live[page] = id;
      op_allocs.push_back(id);
      if (log_each) vsched::eventf(false, "\"k\":\"alloc\",\"id\":%d", id);
      pages[i] = page;
    }
  }
  bool guards_ok(char* page) const {
    for (size_t i = 0; i < GUARD; i++)
      if ((unsigned char)page[-(long)GUARD + (long)i] != GUARD_BYTE || (unsigned char)page[P + i] != GUARD_BYTE) return false;
    return true;
  }
  void deallocate(void** pages, size_t num) noexcept override {
    for (size_t i = 0; i < num; i++) {
      char* page = (char*)pages[i];
      auto it = live.find(page);
      if (it == live.end()) {
        op_frees.push_back(0);
        if (log_each) vsched::eventf(false, "\"k\":\"free\",\"id\":0");
        continue; // not ours (or already returned): never touch it
      }
      if (!guards_ok(page)) damaged = true;
      op_frees.push_back(it->second);
      if (log_each) vsched::eventf(false, "\"k\":\"free\",\"id\":%d", it->second);
      free(page - GUARD);
      live.erase(it);
    }
  }
  // which live page contains p?  id 0 = none
  int locate(const void* p, long* off) const {
    auto it = live.upper_bound((char*)p);
    if (it == live.begin()) return 0;
    --it;
    if ((char*)p >= it->first && (char*)p < it->first + P) {
      *off = (char*)p - it->first;
      return it->second;
    }
    return 0;
  }
  bool check_guards() {
    for (auto& kv : live)
      if (!guards_ok(kv.first)) damaged = true;
    return !damaged;
  }
  std::vector<long> live_ids() const {
    std::vector<long> v;
    for (auto& kv : live) v.push_back(kv.second);
    return v;
  }
};

unsigned char byte_at(int entry, size_t off) {
  return (unsigned char)((entry * 37 + off * 7 + 11) % 251);
}

// scatter list -> flat (id, off, len)* and the bytes visible through it (only inside live pages)
void describe_iov(const RecAlloc& ra, const std::vector<struct ::iovec>& iov, std::vector<long>& segs, std::vector<long>& data) {
  for (auto& v : iov) {
    long off = 0;
    int id = ra.locate(v.iov_base, &off);
    segs.push_back(id);
    segs.push_back(off);
    segs.push_back((long)v.iov_len);
    if (id != 0) {
      size_t can = (size_t)((long)ra.P - off);
      size_t n = v.iov_len < can ? v.iov_len : can;
      for (size_t i = 0; i < n; i++) data.push_back((unsigned char)((char*)v.iov_base)[i]);
    }
  }
}

long fnv(const std::vector<long>& d) {
  unsigned long h = 2166136261ul;
  for (long x : d) h = ((h ^ (unsigned long)x) * 16777619ul) & 0x3ffffffful;
  return (long)h;
}

std::vector<std::string> split(const std::string& s, char c) {
  std::vector<std::string> out;
  size_t i = 0;
  while (i <= s.size()) {
    size_t j = s.find(c, i);
    if (j == std::string::npos) j = s.size();
    out.push_back(s.substr(i, j - i));
    i = j + 1;
  }
  return out;
}

// ================================================================================ scenario entry
void scenario_entry(const vrun::Params& p) {
  RecAlloc ra;
  ra.P = (size_t)p.get("P", 24);
  long data_max = p.get("data_max", 420);
  LogStreamBuffer buffer;
  buffer.set_page_allocator(ra);
  AsyncFileAppender releaser; // never initialised: only its discard() (the real release path) is used
  releaser.set_page_allocator(ra);
  vrun::begin();
  vsched::eventf(false, "\"k\":\"consts\",\"ipc\":%zu,\"P\":%zu,\"entry_bytes\":%zu", LogEntry::INLINE_PAGE_CAPACITY, ra.P, sizeof(LogEntry));
  int eno = 0;
  for (auto& es : split(p.str("prog", "3.17.1"), '_')) {
    eno++;
    std::vector<long> written;
    buffer.begin();
    vsched::eventf(false, "\"k\":\"begin\",\"e\":%d", eno);
    for (auto& cs : split(es, '.')) {
      if (cs.empty()) continue;
      size_t k = (size_t)atol(cs.c_str());
      std::string bytes;
      for (size_t i = 0; i < k; i++) bytes.push_back((char)byte_at(eno, written.size() + i));
      ra.op_allocs.clear();
      long ret;
      if (k == 1 && (written.size() % 2) == 0) {
        ret = buffer.sputc(bytes[0]) == std::char_traits<char>::eof() ? 0 : 1;
      } else {
        ret = (long)buffer.sputn(bytes.data(), (std::streamsize)k);
      }
      for (size_t i = 0; i < k; i++) written.push_back((unsigned char)bytes[i]);
      long lsize = (long)buffer._log.size;
      long abs = lsize + (long)(buffer.pptr() - buffer._sync_point);
      vsched::eventf(false, "\"k\":\"write\",\"n\":%zu,\"ret\":%ld,\"size\":%ld,\"lsize\":%ld,\"guards\":%s", k, ret, abs, lsize, ra.check_guards() ? "true" : "false");
      emit_parts("allocs", ra.op_allocs);
    }
    ra.op_allocs.clear();
    LogEntry& entry = buffer.end();
    vsched::eventf(false, "\"k\":\"endentry\",\"size\":%zu,\"guards\":%s", entry.size, ra.check_guards() ? "true" : "false");
    std::vector<struct ::iovec> iov;
    entry.append_to_iovec(ra.P, iov);
    std::vector<long> segs, data;
    describe_iov(ra, iov, segs, data);
    bool small = (long)written.size() <= data_max && (long)data.size() <= data_max;
    vsched::eventf(false, "\"k\":\"iov\",\"nseg\":%zu,\"hw\":%ld,\"hr\":%ld,\"nw\":%zu,\"nr\":%zu,\"full\":%s", iov.size(), fnv(written), fnv(data), written.size(), data.size(), small ? "true" : "false");
    emit_parts("segs", segs);
    if (small) {
      emit_parts("wbytes", written);
      emit_parts("rbytes", data);
    }
    ra.op_frees.clear();
    releaser.discard(entry);
    vsched::eventf(false, "\"k\":\"release\",\"guards\":%s", ra.damaged ? "false" : "true");
    emit_parts("freed", ra.op_frees);
    emit_parts("live", ra.live_ids());
  }
  vsched::finish();
}

// ================================================================================ scenario app
RecAlloc* g_ra = nullptr;
long g_writes_total = 0;    // write() calls of the program
long g_writes_returned = 0; // ... that have returned
bool g_stall = false;
long g_fail_at = 0;         // fault injection: the k-th writev call returns -1 / EINTR and writes nothing (0 = never)
long g_writev_calls = 0;

struct RecFile : public FileObject {
  int fno = 0;
  int cur = -1;
  std::vector<int> keep; // our own dup of every generation's descriptor (the appender closes the originals)
  long rot_permille = 0;
  int max_gen = 3;
  int checks = 0;
  void open_gen();
  std::tuple<int, int> check_and_get_file_descriptor() noexcept override;
};
std::map<int, std::pair<int, int>> g_fd_owner; // fd -> (file, generation)

void RecFile::open_gen() {
  int fd = (int)::syscall(SYS_memfd_create, "c20", 0);
  cur = fd;
  keep.push_back(::dup(fd));
  g_fd_owner[fd] = {fno, (int)keep.size() - 1};
}

std::tuple<int, int> RecFile::check_and_get_file_descriptor() noexcept {
  checks++;
  if (cur < 0) {
    if (g_stall) {
      g_stall = false; // once: hold the writer thread here while the logging threads fill the queue
      while (g_writes_returned < g_writes_total) ::usleep(100);
    }
    open_gen();
    vsched::eventf(true, "\"k\":\"check\",\"f\":%d,\"g\":%d,\"rot\":false", fno, (int)keep.size() - 1);
    return {cur, -1};
  }
  if ((int)keep.size() < max_gen && (long)(vrun::rnd() % 1000) < rot_permille) {
    int old = cur;
    open_gen();
    vsched::eventf(true, "\"k\":\"check\",\"f\":%d,\"g\":%d,\"rot\":true", fno, (int)keep.size() - 1);
    return {cur, old};
  }
  vsched::eventf(true, "\"k\":\"check\",\"f\":%d,\"g\":%d,\"rot\":false", fno, (int)keep.size() - 1);
  return {cur, -1};
}

struct WOp {
  char kind; // 'w' | 'd'
  int file;
  size_t len;
};

void scenario_app(const vrun::Params& p) {
  RecAlloc ra;
  g_ra = &ra;
  ra.P = (size_t)p.get("P", 24);
  ra.log_each = true;
  size_t cap = (size_t)p.get("cap", 2);
  std::string closemode = p.str("close", "safe");
  std::vector<std::vector<WOp>> prog;
  for (auto& ts : split(p.str("prog", "w0x10"), '_')) {
    prog.emplace_back();
    for (auto& os : split(ts, '.')) {
      if (os.empty()) continue;
      WOp o {os[0], 0, 1};
      if (o.kind == 'w') {
        size_t x = os.find('x');
        o.file = atoi(os.c_str() + 1);
        o.len = (size_t)atol(os.c_str() + x + 1);
      } else {
        o.len = (size_t)atol(os.c_str() + 1);
      }
      if (o.len == 0) o.len = 1; // O2: a size-0 entry is the appender's stop marker
      prog.back().push_back(o);
    }
  }
  RecFile files[2];
  for (int f = 0; f < 2; f++) {
    files[f].fno = f;
    files[f].rot_permille = p.get("rot", 0);
  }
  long expected_bytes = 0;
  for (auto& t : prog)
    for (auto& o : t)
      if (o.kind == 'w') {
        expected_bytes += (long)o.len;
        g_writes_total++;
      }
  g_stall = p.get("stall", 0) != 0;
  g_fail_at = p.get("fail", 0);

  vrun::begin();
  {
    AsyncFileAppender appender;
    appender.set_page_allocator(ra);
    appender.set_queue_capacity(cap);
    vsched::eventf(false, "\"k\":\"consts\",\"ipc\":%zu,\"P\":%zu,\"cap\":%zu,\"iovmax\":%d", LogEntry::INLINE_PAGE_CAPACITY, ra.P, appender._queue.capacity(), (int)IOV_MAX);
    appender.initialize(); // the writer thread: managed thread 1
    {
      std::vector<std::thread> ths;
      for (size_t t = 0; t < prog.size(); t++) {
        ths.emplace_back([&, t] {
          LogStreamBuffer buffer;
          buffer.set_page_allocator(ra);
          int seq = 0;
          for (auto& o : prog[t]) {
            int e = (int)(t + 1) * 10 + (++seq);
            buffer.begin();
            std::string bytes;
            bytes.push_back((char)e); // first byte names the entry
            for (size_t i = 1; i < o.len; i++) bytes.push_back((char)byte_at(e, i));
            ra.op_allocs.clear();
            buffer.sputn(bytes.data(), (std::streamsize)bytes.size());
            LogEntry& entry = buffer.end();
            std::vector<long> pages = ra.op_allocs;
            std::vector<long> bl;
            for (char c : bytes) bl.push_back((unsigned char)c);
            if (o.kind == 'w') {
              vsched::eventf(true, "\"k\":\"wcall\",\"e\":%d,\"f\":%d,\"n\":%zu,\"size\":%zu", e, o.file, o.len, entry.size);
              emit_parts("pages", pages);
              emit_parts("bytes", bl);
              appender.write(entry, &files[o.file]);
              g_writes_returned++;
              vsched::eventf(true, "\"k\":\"wret\",\"e\":%d", e);
            } else {
              vsched::eventf(true, "\"k\":\"dcall\",\"e\":%d,\"n\":%zu,\"size\":%zu", e, o.len, entry.size);
              emit_parts("pages", pages);
              appender.discard(entry);
              vsched::eventf(true, "\"k\":\"dret\",\"e\":%d", e);
            }
          }
        });
      }
      for (auto& th : ths) th.join();
    }
    // every write() has returned.  close() pushes its marker with a futex wait that the writer thread
    // never wakes (observation O1): "safe" waits until the marker's slot is free (close() cannot block,
    // entries may still be queued), "drain" until everything reached the files, "raw" calls it at once.
    if (closemode == "safe") {
      auto& q = appender._queue;
      for (;;) {
        size_t idx = q._next_push_index.load(std::memory_order_relaxed);
        if (q._slots.futex(idx & q._slot_mask).version(std::memory_order_acquire) == q.push_version_for_index(idx)) break;
        ::usleep(50);
      }
    } else if (closemode == "drain") {
      for (;;) {
        long got = 0;
        for (auto& f : files)
          for (int fd : f.keep) got += (long)::lseek(fd, 0, SEEK_END);
        if (got >= expected_bytes && appender.pending_size() == 0) break;
        ::usleep(50);
      }
    }
    vsched::eventf(true, "\"k\":\"ccall\",\"pending\":%zu", appender.pending_size());
    int rc = appender.close();
    vsched::eventf(true, "\"k\":\"cret\",\"rc\":%d", rc);
  }
  for (auto& f : files) {
    for (size_t g = 0; g < f.keep.size(); g++) {
      std::vector<long> data;
      long n = (long)::lseek(f.keep[g], 0, SEEK_END);
      ::lseek(f.keep[g], 0, SEEK_SET);
      std::string buf((size_t)n, '\0');
      long got = n > 0 ? (long)::read(f.keep[g], &buf[0], (size_t)n) : 0;
      for (long i = 0; i < got; i++) data.push_back((unsigned char)buf[(size_t)i]);
      vsched::eventf(false, "\"k\":\"file\",\"f\":%d,\"g\":%zu,\"n\":%ld", f.fno, g, n);
      emit_parts("data", data);
    }
  }
  vsched::eventf(false, "\"k\":\"final\",\"guards\":%s", ra.check_guards() ? "true" : "false");
  emit_parts("live", ra.live_ids());
  vsched::finish();
}

struct Reg {
  Reg() {
    vrun::add("entry", scenario_entry, "P=24,prog=3.17.1,data_max=420");
    vrun::add("app", scenario_app, "P=24,cap=2,prog=w0x10,close=safe,rot=0,stall=0,fail=0");
  }
} reg;

} // namespace

// writev as called by AsyncFileAppender::write_use_plain_writev: record, then hand to the kernel
extern "C" ssize_t writev(int fd, const struct iovec* iov, int cnt) {
  if (g_ra != nullptr && vsched::active()) {
    std::vector<struct ::iovec> v(iov, iov + cnt);
    std::vector<long> segs, data;
    describe_iov(*g_ra, v, segs, data);
    auto it = g_fd_owner.find(fd);
    int f = it == g_fd_owner.end() ? -1 : it->second.first;
    int g = it == g_fd_owner.end() ? -1 : it->second.second;
    bool fail = ++g_writev_calls == g_fail_at;
    vsched::eventf(true, "\"k\":\"writev\",\"f\":%d,\"g\":%d,\"cnt\":%d,\"einval\":%s,\"fail\":%s", f, g, cnt, cnt > IOV_MAX ? "true" : "false", fail ? "true" : "false");
    emit_parts("segs", segs);
    if (fail) { // interrupted before anything was written
      errno = EINTR;
      return -1;
    }
  }
  if (cnt > IOV_MAX || cnt < 0) { // what the kernel does
    errno = EINVAL;
    return -1;
  }
  return (ssize_t)::syscall(SYS_writev, fd, iov, cnt);
}

int main(int argc, char** argv) {
  return vrun::main(argc, argv);
}
