// Driver for the monotonic buffer resources (property C06).
//
// The real ExclusiveMonotonicBufferResource / SharedMonotonicBufferResource /
// SwissMemoryResource run against a *recording* PageAllocator and a *recording*
// std::pmr upstream (both virtual seams of babylon, no hook needed).  All memory
// comes from one mmap'ed window so that every pointer can be logged as an integer
// "virtual address"  v = p - window_base  that coincides with the integer address
// space of spec/Mono.tla:
//     page with ordinal k  lives at  k * P          (odd ordinals only: pages are never
//                                                     adjacent and are aligned to exactly P)
//     upstream "rec"       hands out [UB, 2*UB)      bump allocation, blocks aligned to
//     upstream "dflt"      hands out [2*UB, 3*UB)    exactly the requested alignment
// ("dflt" is std::pmr::new_delete_resource(), recorded by replacing the aligned global
// operator new/delete; it only matters after a move construction, see findings/C06_*).
// nullptr -> 0, any pointer outside the window -> -1.
//
// scenario seq     one exclusive resource, program = ops separated by '.':
//   a:B:AL  allocate(B, AL)      t:B:AL  allocate<AL>(B)     v:B:AL  through the pmr vtable
//   x:D:AL  allocate(space left in the page after aligning + D, AL)
//   am:N:B:AL  N times a:B:AL    d  register_destructor       dm:N   N times d
//   c:V  contains(vaddr V; -1 = a heap pointer)   cb:I:OFF  contains(block I + OFF)
//   cf:D contains(free_begin + D)   ce:D contains(free_end + D)
//   r  release()    ma  move-assign into a configured empty resource   mc  move-construct
//   (the resource is destroyed at the end: op "destroy")
// scenario shared  Shared/Swiss resource, threads separated by '_' (thread 1 is spawned by
//   main): a / d as above, sK spawn thread K, jK join thread K; main joins, logs the
//   bookkeeping of every per-thread resource, releases and destroys.
#include <babylon/reusable/memory_resource.h>

#include <sys/mman.h>

#include <map>
#include <string>
#include <thread>
#include <vector>

#include "vrun.h"

namespace {

using Excl = ::babylon::ExclusiveMonotonicBufferResource;
using Shared = ::babylon::SharedMonotonicBufferResource;
using Swiss = ::babylon::SwissMemoryResource;

constexpr uintptr_t UB = 1u << 22;
constexpr uintptr_t SPACE = 3 * UB;
char* g_base = nullptr;

[[noreturn]] void driver_error(const char* what) {
  fprintf(stderr, "mono_driver: %s\n", what);
  _exit(99);
}

void make_window() {
  size_t len = 4 * UB + SPACE;
  void* m = mmap(nullptr, len, PROT_READ | PROT_WRITE, MAP_PRIVATE | MAP_ANONYMOUS | MAP_NORESERVE, -1, 0);
  if (m == MAP_FAILED) driver_error("mmap failed");
  uintptr_t a = ((uintptr_t)m + 4 * UB - 1) & ~(uintptr_t)(4 * UB - 1);
  g_base = (char*)a;
}
bool in_window(const void* p) {
  uintptr_t a = (uintptr_t)p, b = (uintptr_t)g_base;
  return g_base != nullptr && a >= b && a < b + SPACE;
}
// scenario real: pages come from babylon's own allocator stack (arbitrary heap addresses); the recording
// decorator gives every live page a virtual address (lowest free odd ordinal * P, as RecPages does)
std::map<uintptr_t, long> g_real_pages; // real page base -> virtual address
size_t g_real_P = 0;
long vaddr(const void* p) {
  if (p == nullptr) return 0;
  if (in_window(p)) return (long)((uintptr_t)p - (uintptr_t)g_base);
  if (!g_real_pages.empty()) {
    auto it = g_real_pages.upper_bound((uintptr_t)p);
    if (it != g_real_pages.begin()) {
      --it;
      if ((uintptr_t)p - it->first <= g_real_P) return it->second + (long)((uintptr_t)p - it->first);
    }
  }
  return -1;
}
// memory the driver may write its canaries into
bool mapped(const void* p) {
  return p != nullptr && vaddr(p) > 0;
}

// ---------------------------------------------------------------- recording page allocator
struct RecPages : public ::babylon::PageAllocator {
  size_t P = 256;
  std::vector<char> out; // out[i]: page with ordinal 2i+1 is handed out
  long batches = 0;
  size_t page_size() const noexcept override {
    return P;
  }
  using PageAllocator::allocate;
  using PageAllocator::deallocate;
  void allocate(void** pages, size_t num) noexcept override {
    for (size_t j = 0; j < num; j++) {
      size_t i = 0;
      while (i < out.size() && out[i]) i++;
      if (i == out.size()) out.push_back(0);
      if ((2 * i + 2) * P > UB) driver_error("page window exhausted");
      out[i] = 1;
      char* p = g_base + (2 * i + 1) * P;
      memset(p, 0xA5, P);
      pages[j] = p;
      vsched::eventf(false, "\"k\":\"palloc\",\"pg\":%ld", vaddr(p));
    }
  }
  void deallocate(void** pages, size_t num) noexcept override {
    long bi = batches++;
    for (size_t j = 0; j < num; j++) {
      void* p = pages[j]; // read again for every entry: a batch stored inside a page it frees is scribbled
      long v = vaddr(p);
      bool ok = v > 0 && v < (long)UB && v % (long)P == 0 && ((v / (long)P) & 1) == 1 && (size_t)(v / (long)P / 2) < out.size() && out[(size_t)(v / (long)P / 2)];
      vsched::eventf(false, "\"k\":\"pfree\",\"pg\":%ld,\"ok\":%s,\"bi\":%ld,\"bn\":%zu", v, ok ? "true" : "false", bi, num);
      if (ok) {
        out[(size_t)(v / (long)P / 2)] = 0;
        memset(p, 0xDD, P);
      }
    }
  }
};

// ---------------------------------------------------------------- recording decorator around a real allocator
// Forwards to babylon's own PageAllocator stack and logs the calls.  The monotonic resources rely on
//   page pointer % page_size == 0       (do_allocate_in_new_page serves every alignment <= page_size
//                                        request from the start of a fresh page)
// which is an ENVIRONMENT ASSUMPTION of spec/Mono.tla (EnvPagesAligned): "pm" carries the real remainder.
struct RealPages : public ::babylon::PageAllocator {
  ::babylon::PageAllocator* inner = nullptr;
  std::vector<char> out;
  long batches = 0;
  size_t page_size() const noexcept override {
    return inner->page_size();
  }
  using PageAllocator::allocate;
  using PageAllocator::deallocate;
  void allocate(void** pages, size_t num) noexcept override {
    size_t P = inner->page_size();
    inner->allocate(pages, num);
    for (size_t j = 0; j < num; j++) {
      size_t i = 0;
      while (i < out.size() && out[i]) i++;
      if (i == out.size()) out.push_back(0);
      if ((2 * i + 2) * P > UB) driver_error("virtual page window exhausted");
      out[i] = 1;
      long v = (long)((2 * i + 1) * P);
      g_real_pages[(uintptr_t)pages[j]] = v;
      memset(pages[j], 0xA5, P);
      vsched::eventf(false, "\"k\":\"palloc\",\"pg\":%ld,\"pm\":%ld", v, (long)((uintptr_t)pages[j] % P));
    }
  }
  void deallocate(void** pages, size_t num) noexcept override {
    size_t P = inner->page_size();
    long bi = batches++;
    for (size_t j = 0; j < num; j++) {
      void* p = pages[j];
      auto it = g_real_pages.find((uintptr_t)p);
      bool ok = it != g_real_pages.end();
      vsched::eventf(false, "\"k\":\"pfree\",\"pg\":%ld,\"ok\":%s,\"bi\":%ld,\"bn\":%zu", ok ? it->second : -1l, ok ? "true" : "false", bi, num);
      if (ok) {
        out[(size_t)(it->second / (long)P / 2)] = 0;
        g_real_pages.erase(it);
        memset(p, 0xDD, P);
        inner->deallocate(p); // only pages the real allocator handed out go back to it
      }
    }
  }
};

// ---------------------------------------------------------------- recording upstreams
struct Bump {
  const char* name;
  uintptr_t base, cur;
  std::map<uintptr_t, std::pair<size_t, size_t>> live;
  void* alloc(size_t n, size_t al) {
    if (al == 0) al = 1;
    uintptr_t a = (cur + al - 1) / al * al;
    if (a % (2 * al) == 0) a += al; // aligned to exactly `al`, never to 2*al
    if (a + n + 8 > base + UB) driver_error("upstream window exhausted");
    cur = a + n + 8;
    live[a] = {n, al};
    memset(g_base + a, 0xA5, n);
    vsched::eventf(false, "\"k\":\"ualloc\",\"u\":\"%s\",\"a\":%ld,\"n\":%zu,\"al\":%zu", name, (long)a, n, al);
    return g_base + a;
  }
  void free(void* p, size_t n, size_t al) {
    long v = vaddr(p);
    auto it = live.find((uintptr_t)v);
    bool ok = v > 0 && it != live.end() && it->second.first == n && it->second.second == al;
    vsched::eventf(false, "\"k\":\"ufree\",\"u\":\"%s\",\"a\":%ld,\"n\":%ld,\"al\":%ld,\"ok\":%s", name, v, (long)(n < 2000000000ul ? n : 2000000000ul), (long)(al < 2000000000ul ? al : 2000000000ul), ok ? "true" : "false");
    if (v > 0 && it != live.end()) {
      memset(g_base + v, 0xDD, it->second.first);
      live.erase(it);
      if (live.empty()) cur = base;
    }
  }
};
Bump g_rec {"rec", UB, UB, {}};
Bump g_dflt {"dflt", 2 * UB, 2 * UB, {}};
bool g_divert = false; // aligned operator new is served by g_dflt

struct RecUpstream : public std::pmr::memory_resource {
  void* do_allocate(size_t n, size_t al) override {
    return g_rec.alloc(n, al);
  }
  void do_deallocate(void* p, size_t n, size_t al) override {
    g_rec.free(p, n, al);
  }
  bool do_is_equal(const memory_resource& o) const noexcept override {
    return this == &o;
  }
};

} // namespace

// std::pmr::new_delete_resource() ends here
void* operator new(std::size_t n, std::align_val_t al) {
  if (g_divert) return g_dflt.alloc(n, (size_t)al);
  size_t a = (size_t)al < sizeof(void*) ? sizeof(void*) : (size_t)al;
  void* p = nullptr;
  if (posix_memalign(&p, a, n ? n : 1) != 0) throw std::bad_alloc();
  return p;
}
void operator delete(void* p, std::size_t n, std::align_val_t al) noexcept {
  if (in_window(p)) {
    g_dflt.free(p, n, (size_t)al);
    return;
  }
  free(p);
}
void operator delete(void* p, std::align_val_t al) noexcept {
  if (in_window(p)) {
    g_dflt.free(p, 0, (size_t)al);
    return;
  }
  free(p);
}

namespace {

// ---------------------------------------------------------------- canaries, destructors
struct Block {
  char* p;
  size_t n;
  unsigned char pat;
};
std::vector<Block> g_blocks;

bool canaries_ok() {
  for (const Block& b : g_blocks)
    for (size_t i = 0; i < b.n; i++)
      if ((unsigned char)b.p[i] != b.pat) return false;
  return true;
}
void dtor_common(void* p, int fn) {
  vsched::eventf(true, "\"k\":\"dtor\",\"id\":%ld,\"fn\":%d,\"intact\":%s", (long)(uintptr_t)p, fn, canaries_ok() ? "true" : "false");
}
void dtor0(void* p) {
  dtor_common(p, 0);
}
void dtor1(void* p) {
  dtor_common(p, 1);
}

// ---------------------------------------------------------------- bookkeeping read-out
// one line per intrusive array, newest array first, entries newest first
void log_view(Excl* r, int ri) {
  {
    auto* pa = r->_last_page_array;
    char** it = r->_last_page_pointer;
    for (int guard = 0; pa != nullptr && guard < 200; guard++) {
      if (vaddr(pa) <= 0) {
        vsched::eventf(false, "\"k\":\"pa\",\"r\":%d,\"at\":-1,\"ents\":[]", ri);
        break;
      }
      std::string s;
      char** end = pa->pages + 15;
      if (it < pa->pages || it > end) it = end;
      for (; it < end; ++it) s += (s.empty() ? "" : ",") + std::to_string(vaddr(*it));
      vsched::eventf(false, "\"k\":\"pa\",\"r\":%d,\"at\":%ld,\"ents\":[%s]", ri, vaddr(pa), s.c_str());
      pa = pa->next;
      it = pa ? pa->pages : nullptr;
    }
  }
  {
    auto* oa = r->_last_oversize_page_array;
    auto* it = r->_last_oversize_page_pointer;
    for (int guard = 0; oa != nullptr && guard < 200; guard++) {
      if (vaddr(oa) <= 0) {
        vsched::eventf(false, "\"k\":\"oa\",\"r\":%d,\"at\":-1,\"ents\":[]", ri);
        break;
      }
      std::string s;
      auto* end = oa->pages + 15;
      if (it < oa->pages || it > end) it = end;
      for (; it < end; ++it) {
        long n = it->bytes < 2000000000ul ? (long)it->bytes : 2000000000l;
        long al = it->alignment < 2000000000ul ? (long)it->alignment : 2000000000l;
        s += (s.empty() ? "" : ",") + ("[" + std::to_string(vaddr(it->page)) + "," + std::to_string(n) + "," + std::to_string(al) + "]");
      }
      vsched::eventf(false, "\"k\":\"oa\",\"r\":%d,\"at\":%ld,\"ents\":[%s]", ri, vaddr(oa), s.c_str());
      oa = oa->next;
      it = oa ? oa->pages : nullptr;
    }
  }
  {
    auto* da = r->_last_destroy_task_array;
    auto* it = r->_last_destroy_task_pointer;
    for (int guard = 0; da != nullptr && guard < 200; guard++) {
      if (vaddr(da) <= 0) {
        vsched::eventf(false, "\"k\":\"da\",\"r\":%d,\"at\":-1,\"ents\":[]", ri);
        break;
      }
      std::string s;
      auto* end = da->tasks + 15;
      if (it < da->tasks || it > end) it = end;
      for (; it < end; ++it) {
        uintptr_t id = (uintptr_t)it->ptr;
        s += (s.empty() ? "" : ",") + std::to_string(id < 1000000 ? (long)id : -1l);
      }
      vsched::eventf(false, "\"k\":\"da\",\"r\":%d,\"at\":%ld,\"ents\":[%s]", ri, vaddr(da), s.c_str());
      da = da->next;
      it = da ? da->tasks : nullptr;
    }
  }
}

const char* up_name(Excl* r, RecUpstream* rec) {
  return r->_upstream == rec ? "rec" : (r->_upstream == std::pmr::new_delete_resource() ? "dflt" : "other");
}

std::vector<std::string> split(const std::string& s, char sep) {
  std::vector<std::string> v;
  size_t i = 0;
  while (i <= s.size()) {
    size_t j = s.find(sep, i);
    if (j == std::string::npos) j = s.size();
    if (j > i) v.push_back(s.substr(i, j - i));
    i = j + 1;
  }
  return v;
}

// the ConcurrentAdder behind allocate_oversize_page_num() creates its thread local slot lazily with an
// aligned operator new: do that before aligned news are diverted to the "dflt" upstream
void prime() {
  struct Tmp : std::pmr::memory_resource {
    void* do_allocate(size_t n, size_t) override {
      return malloc(n);
    }
    void do_deallocate(void* p, size_t, size_t) override {
      free(p);
    }
    bool do_is_equal(const memory_resource& o) const noexcept override {
      return this == &o;
    }
  } tmp;
  struct TmpPages : ::babylon::PageAllocator {
    size_t page_size() const noexcept override {
      return 256;
    }
    void allocate(void** p, size_t n) noexcept override {
      for (size_t i = 0; i < n; i++) p[i] = aligned_alloc(256, 256);
    }
    void deallocate(void** p, size_t n) noexcept override {
      for (size_t i = 0; i < n; i++) free(p[i]);
    }
  } tp;

  Excl r;
  r.set_page_allocator(tp);
  r.set_upstream(tmp);
  r.allocate(1000, 8);
  r.allocate(8, 8);
  r.release();
  (void)Excl::allocate_oversize_page_num();
}

// ---------------------------------------------------------------- scenario seq
void run_sequential(const vrun::Params& p, ::babylon::PageAllocator& pages, bool divert) {
  RecUpstream rec;
  vrun::begin();
  g_divert = divert;
  Excl* r = new Excl;
  r->set_page_allocator(pages);
  r->set_upstream(rec);
  long next_id = 0;

  auto ret_common = [&](const char* op, const std::string& extra) {
    vsched::eventf(false, "\"k\":\"ret\",\"op\":\"%s\"%s,\"fb\":%ld,\"fe\":%ld,\"used\":%ld,\"alloc\":%ld,\"up\":\"%s\"", op, extra.c_str(), vaddr(r->_free_begin), vaddr(r->_free_end), (long)r->space_used(), (long)r->space_allocated(), up_name(r, &rec));
    log_view(r, 0);
  };
  auto check = [&]() { vsched::eventf(false, "\"k\":\"chk\",\"intact\":%s", canaries_ok() ? "true" : "false"); };

  auto do_alloc = [&](char how, size_t b, size_t al) {
    vsched::eventf(false, "\"k\":\"call\",\"op\":\"alloc\",\"n\":%zu,\"al\":%zu", b, al);
    void* q;
    if (how == 't' && al == 1) q = r->allocate<1>(b);
    else if (how == 't' && al == 8) q = r->allocate<8>(b);
    else if (how == 't' && al == 64) q = r->allocate<64>(b);
    else if (how == 'v') q = static_cast<std::pmr::memory_resource*>(r)->allocate(b, al);
    else q = r->allocate(b, al);
    ret_common("alloc", ",\"n\":" + std::to_string(b) + ",\"al\":" + std::to_string(al) + ",\"a\":" + std::to_string(vaddr(q)) + ",\"am\":" +
                            std::to_string(al ? (long)((uintptr_t)q % al) : 0l));
    // fill only memory inside the window (a block outside is reported by the specification, not by a crash here)
    if (b > 0 && mapped(q) && mapped((char*)q + b - 1)) {
      unsigned char pat = (unsigned char)(0x21 + g_blocks.size() % 90);
      memset(q, pat, b);
      g_blocks.push_back({(char*)q, b, pat});
    } else {
      g_blocks.push_back({(char*)q, 0, 0});
    }
    check();
  };
  auto do_reg = [&]() {
    long id = ++next_id;
    int fn = (int)(id % 2);
    vsched::eventf(false, "\"k\":\"call\",\"op\":\"rd\",\"id\":%ld,\"fn\":%d", id, fn);
    r->register_destructor((void*)(uintptr_t)id, fn ? dtor1 : dtor0);
    ret_common("rd", ",\"id\":" + std::to_string(id) + ",\"fn\":" + std::to_string(fn));
    check();
  };
  auto do_contains = [&](const void* q) {
    vsched::eventf(false, "\"k\":\"call\",\"op\":\"contains\",\"p\":%ld", vaddr(q));
    bool res = r->contains(q);
    ret_common("contains", ",\"p\":" + std::to_string(vaddr(q)) + ",\"res\":" + (res ? "true" : "false"));
    check();
  };
  static char heap_obj[64];

  for (const std::string& tok : split(p.str("prog", "a:8:8.r"), '.')) {
    std::vector<std::string> f = split(tok, ':');
    auto num = [&](size_t i) { return i < f.size() ? atol(f[i].c_str()) : 0l; };
    const std::string& op = f[0];
    if (op == "a" || op == "t" || op == "v") {
      do_alloc(op[0], (size_t)num(1), (size_t)num(2));
    } else if (op == "x") {
      // (space left in the current page after aligning) + D bytes: the exact fits / does-not-fit boundary
      size_t al = num(2) > 0 ? (size_t)num(2) : 1;
      uintptr_t f = ((uintptr_t)r->_free_begin + al - 1) & ~(uintptr_t)(al - 1);
      long rem = (long)((uintptr_t)r->_free_end - f);
      long b = rem + num(1);
      do_alloc('a', (size_t)(b < 0 ? 0 : b), al);
    } else if (op == "am") {
      for (long i = 0; i < num(1); i++) do_alloc('a', (size_t)num(2), (size_t)num(3));
    } else if (op == "d") {
      do_reg();
    } else if (op == "dm") {
      for (long i = 0; i < num(1); i++) do_reg();
    } else if (op == "c") {
      do_contains(num(1) < 0 ? (const void*)heap_obj : (const void*)(g_base + num(1)));
    } else if (op == "cb") {
      if (g_blocks.empty()) do_contains(nullptr);
      else do_contains(g_blocks[(size_t)num(1) % g_blocks.size()].p + num(2));
    } else if (op == "cf") {
      do_contains(r->_free_begin ? r->_free_begin + num(1) : nullptr);
    } else if (op == "ce") {
      do_contains(r->_free_end ? r->_free_end + num(1) : nullptr);
    } else if (op == "r") {
      check();
      vsched::event("\"k\":\"call\",\"op\":\"release\"");
      r->release();
      g_blocks.clear();
      next_id = 0;
      ret_common("release", "");
    } else if (op == "ma") {
      vsched::event("\"k\":\"call\",\"op\":\"mva\"");
      Excl* r2 = new Excl;
      r2->set_page_allocator(pages);
      r2->set_upstream(rec);
      *r2 = std::move(*r);
      delete r; // releases the (empty) former target state
      r = r2;
      ret_common("mva", "");
      check();
    } else if (op == "mc") {
      vsched::event("\"k\":\"call\",\"op\":\"mvc\"");
      Excl* r2 = new Excl(std::move(*r));
      delete r;
      r = r2;
      ret_common("mvc", "");
      check();
    } else {
      driver_error("unknown op");
    }
  }
  check();
  vsched::event("\"k\":\"call\",\"op\":\"destroy\"");
  delete r; // the destructor releases whatever is left
  g_blocks.clear();
  vsched::event("\"k\":\"ret\",\"op\":\"destroy\",\"fb\":0,\"fe\":0,\"used\":0,\"alloc\":0,\"up\":\"\"");
  g_divert = false;
  vsched::finish();
}

void scenario_seq(const vrun::Params& p) {
  make_window();
  RecPages pages;
  pages.P = (size_t)p.get("P", 256);
  prime();
  run_sequential(p, pages, true);
}

// scenario real: the same operation sequences on babylon's own allocator stack behind the recording decorator
//   stack=nd      NewDeletePageAllocator(P)
//   stack=cached  CachedPageAllocator -> NewDeletePageAllocator(P)
//   stack=heap    PageHeap(P)
void scenario_real(const vrun::Params& p) {
  make_window(); // the upstream "rec" still lives in the window
  size_t P = (size_t)p.get("P", 4096);
  std::string stack = p.str("stack", "nd");
  static ::babylon::NewDeletePageAllocator nd;
  static ::babylon::CachedPageAllocator cached;
  static ::babylon::PageHeap heap;
  RealPages pages;
  if (stack == "cached") {
    nd.set_page_size(P);
    cached.set_upstream(nd);
    cached.set_free_page_capacity(4);
    pages.inner = &cached;
  } else if (stack == "heap") {
    heap.set_page_size(P);
    heap.set_free_page_capacity(4);
    pages.inner = &heap;
  } else {
    nd.set_page_size(P);
    pages.inner = &nd;
  }
  g_real_P = pages.page_size();
  prime();
  run_sequential(p, pages, false);
}

// ---------------------------------------------------------------- scenario shared
struct ShCtx {
  Shared* res;
  std::vector<std::vector<std::string>> prog; // prog[k-1] = program of thread k
  std::thread th[8];
  bool started[8] = {false};
  bool joined[8] = {false};
  std::vector<Excl*> slots; // per-thread resources in order of first appearance
  long next_id = 0;
};

int slot_of(ShCtx& c, Excl* e) {
  for (size_t i = 0; i < c.slots.size(); i++)
    if (c.slots[i] == e) return (int)i;
  c.slots.push_back(e);
  return (int)c.slots.size() - 1;
}

void run_thread(ShCtx* c, int k);

void spawn(ShCtx* c, int k) {
  if (k < 1 || k > 7 || c->started[k] || (size_t)k > c->prog.size()) return;
  c->started[k] = true;
  c->th[k] = std::thread(run_thread, c, k);
}
void join(ShCtx* c, int k) {
  if (k < 1 || k > 7 || !c->started[k] || c->joined[k]) return;
  c->joined[k] = true;
  c->th[k].join();
}

void run_thread(ShCtx* c, int k) {
  for (const std::string& tok : c->prog[(size_t)k - 1]) {
    std::vector<std::string> f = split(tok, ':');
    auto num = [&](size_t i) { return i < f.size() ? atol(f[i].c_str()) : 0l; };
    if (f[0] == "a") {
      size_t b = (size_t)num(1), al = (size_t)num(2);
      vsched::eventf(true, "\"k\":\"call\",\"op\":\"alloc\",\"n\":%zu,\"al\":%zu", b, al);
      void* q = c->res->allocate(b, al);
      int ri = slot_of(*c, &c->res->_resources.local());
      vsched::eventf(true, "\"k\":\"ret\",\"op\":\"alloc\",\"n\":%zu,\"al\":%zu,\"a\":%ld,\"r\":%d", b, al, vaddr(q), ri);
      if (b > 0 && in_window(q) && in_window((char*)q + b - 1)) {
        unsigned char pat = (unsigned char)(0x21 + g_blocks.size() % 90);
        memset(q, pat, b);
        g_blocks.push_back({(char*)q, b, pat});
      }
      vsched::eventf(true, "\"k\":\"chk\",\"intact\":%s", canaries_ok() ? "true" : "false");
    } else if (f[0] == "d") {
      long id = ++c->next_id;
      int fn = (int)(id % 2);
      int ri = slot_of(*c, &c->res->_resources.local());
      vsched::eventf(true, "\"k\":\"call\",\"op\":\"rd\",\"id\":%ld,\"fn\":%d,\"r\":%d", id, fn, ri);
      c->res->register_destructor((void*)(uintptr_t)id, fn ? dtor1 : dtor0);
      vsched::eventf(true, "\"k\":\"ret\",\"op\":\"rd\",\"id\":%ld,\"fn\":%d,\"r\":%d", id, fn, ri);
    } else if (f[0][0] == 's') {
      spawn(c, atoi(f[0].c_str() + 1));
    } else if (f[0][0] == 'j') {
      join(c, atoi(f[0].c_str() + 1));
    }
  }
}

void scenario_shared(const vrun::Params& p) {
  make_window();
  RecPages pages;
  pages.P = (size_t)p.get("P", 256);
  RecUpstream rec;
  ShCtx c;
  for (const std::string& t : split(p.str("prog", "a:8:8"), '_')) c.prog.push_back(split(t, '.'));
  bool swiss = p.str("variant", "shared") == "swiss";
  Shared* res = swiss ? new Swiss(pages) : new Shared(pages);
  res->set_upstream(rec);
  c.res = res;
  vrun::begin();
  spawn(&c, 1);
  for (bool more = true; more;) {
    more = false;
    for (int k = 1; k < 8; k++)
      if (c.started[k] && !c.joined[k]) {
        join(&c, k);
        more = true;
      }
  }
  // quiescent: bookkeeping of every per-thread resource
  {
    int n = 0;
    res->_resources.for_each([&](Excl* it, Excl* end) {
      for (; it != end; ++it) {
        int ri = slot_of(c, it);
        log_view(it, ri);
        n++;
      }
    });
    vsched::eventf(false, "\"k\":\"view\",\"resources\":%d,\"used\":%ld,\"alloc\":%ld", n, (long)res->space_used(), (long)res->space_allocated());
  }
  vsched::eventf(false, "\"k\":\"chk\",\"intact\":%s", canaries_ok() ? "true" : "false");
  vsched::event("\"k\":\"call\",\"op\":\"release\"", true);
  res->release();
  g_blocks.clear();
  vsched::eventf(true, "\"k\":\"ret\",\"op\":\"release\",\"used\":%ld,\"alloc\":%ld", (long)res->space_used(), (long)res->space_allocated());
  // reusable: one more round on the main thread, then destruction releases it
  if (p.get("again", 1)) {
    vsched::eventf(true, "\"k\":\"call\",\"op\":\"alloc\",\"n\":%d,\"al\":%d", 24, 8);
    void* q = res->allocate(24, 8);
    int ri = slot_of(c, &res->_resources.local());
    vsched::eventf(true, "\"k\":\"ret\",\"op\":\"alloc\",\"n\":%d,\"al\":%d,\"a\":%ld,\"r\":%d", 24, 8, vaddr(q), ri);
    long id = ++c.next_id;
    vsched::eventf(true, "\"k\":\"call\",\"op\":\"rd\",\"id\":%ld,\"fn\":%d,\"r\":%d", id, (int)(id % 2), ri);
    res->register_destructor((void*)(uintptr_t)id, id % 2 ? dtor1 : dtor0);
    vsched::eventf(true, "\"k\":\"ret\",\"op\":\"rd\",\"id\":%ld,\"fn\":%d,\"r\":%d", id, (int)(id % 2), ri);
  }
  vsched::event("\"k\":\"call\",\"op\":\"destroy\"", true);
  delete res;
  vsched::eventf(true, "\"k\":\"ret\",\"op\":\"destroy\",\"used\":0,\"alloc\":0");
  vsched::finish();
}

struct Reg {
  Reg() {
    vrun::add("seq", scenario_seq, "P=256,prog=a:8:8.r");
    vrun::add("real", scenario_real, "P=4096,stack=nd,prog=a:8:8.r");
    vrun::add("shared", scenario_shared, "P=256,variant=shared,again=1,prog=a:8:8.s2.a:300:8.d_a:8:8.d");
  }
} reg;

} // namespace

int main(int argc, char** argv) {
  return vrun::main(argc, argv);
}
