// Driver for the page allocators and ObjectPool (property C17).
// Runs client programs against the REAL CachedPageAllocator / BatchPageAllocator /
// CountingPageAllocator / PageHeap / ObjectPool under vsched.  The upstream of the allocator
// stack is a recording PageAllocator (virtual seam): pages are tagged small integers that are
// never reused, so the L1 monitor (spec/Pages_Mon.tla) can follow every page.
//
// scenario "pages"   params: stack, cap, batch, prog
//   stack: allocator stack from the caller down to the recording upstream, one letter per layer
//          k = CountingPageAllocator   b = BatchPageAllocator   c = CachedPageAllocator
//          h = PageHeap (its internal CachedPageAllocator is pointed at the recorder)
//   prog : phases separated by '/', threads by '_', operations by '.'
//          a<n>  allocate(pages, n)          a   allocate()            (single page overload)
//          d<n>  deallocate(oldest n held)   d   deallocate(page)      e<n> deallocate(newest n held)
//        caller c of a later phase is a different real thread but keeps caller c's pages (cross-thread deallocate)
//        all threads of a phase are joined before the next one starts (quiescent observation between)
//
// scenario "pool"    params: mode (0 strict / 1 auto), cap, inject, rec, prog
//   prog : p pop()   t try_pop()   r release the oldest held pointer (custom deleter -> push)
//          u push(std::move(ptr)) of the oldest held pointer      every thread releases what it
//          still holds when its program ends
#include <babylon/concurrent/object_pool.h>
#include <babylon/reusable/page_allocator.h>

#include <deque>
#include <memory>
#include <string>
#include <thread>
#include <vector>

#include "vrun.h"

namespace {

using ::babylon::BatchPageAllocator;
using ::babylon::CachedPageAllocator;
using ::babylon::CountingPageAllocator;
using ::babylon::PageAllocator;
using ::babylon::PageHeap;

struct OpSpec {
  char name = 'a';
  int n = 1;
  bool single = true; // no count given: the single-object overload
};
using Prog = std::vector<std::vector<std::vector<OpSpec>>>; // phase -> thread -> ops

Prog parse_prog(const std::string& s) {
  Prog prog;
  prog.emplace_back();
  prog.back().emplace_back();
  size_t i = 0;
  while (i <= s.size()) {
    size_t j = s.find_first_of("._/", i);
    if (j == std::string::npos) j = s.size();
    std::string tok = s.substr(i, j - i);
    if (!tok.empty()) {
      OpSpec op;
      op.name = tok[0];
      if (tok.size() > 1) {
        op.n = atoi(tok.c_str() + 1);
        op.single = false;
      }
      prog.back().back().push_back(op);
    }
    if (j < s.size() && s[j] == '_') prog.back().emplace_back();
    if (j < s.size() && s[j] == '/') {
      prog.emplace_back();
      prog.back().emplace_back();
    }
    i = j + 1;
  }
  return prog;
}

std::string ids_json(const std::vector<long>& v) {
  std::string s = "[";
  for (size_t i = 0; i < v.size(); i++) s += (i ? "," : "") + std::to_string(v[i]);
  return s + "]";
}

long page_id(void* p) {
  uintptr_t v = (uintptr_t)p;
  return v > 1000000 ? -1 : (long)v; // anything that is not one of our tags
}

// ------------------------------------------------------------------------------------------------
// recording upstream: hands out fresh tags 1, 2, 3 ...
struct RecordingUpstream : public PageAllocator {
  long next = 0;
  size_t page_size() const noexcept override { return 64; }
  using PageAllocator::allocate;
  using PageAllocator::deallocate;
  // the schedule point comes first; handing out the tags and logging them is then one atomic step of the
  // execution (the order of the "up" lines in the trace is the order in which upstream served the calls)
  void allocate(void** pages, size_t num) noexcept override {
    vsched::event("\"k\":\"upcall\"", true);
    std::vector<long> ids;
    for (size_t i = 0; i < num; i++) {
      pages[i] = (void*)(uintptr_t)(++next);
      ids.push_back(next);
    }
    vsched::eventf(false, "\"k\":\"up\",\"op\":\"alloc\",\"n\":%zu,\"pages\":%s", num, ids_json(ids).c_str());
  }
  void deallocate(void** pages, size_t num) noexcept override {
    vsched::event("\"k\":\"upcall\"", true);
    std::vector<long> ids;
    for (size_t i = 0; i < num; i++) ids.push_back(page_id(pages[i]));
    vsched::eventf(false, "\"k\":\"up\",\"op\":\"dealloc\",\"n\":%zu,\"pages\":%s", num, ids_json(ids).c_str());
  }
};

struct Stack {
  RecordingUpstream rec;
  std::vector<std::unique_ptr<PageAllocator>> layers; // top first
  std::string kinds;
  CachedPageAllocator* cached = nullptr;
  BatchPageAllocator* batch = nullptr;
  CountingPageAllocator* counting = nullptr;
  PageHeap* heap = nullptr;
  PageAllocator* top = nullptr;
};

void name_queue(::babylon::ConcurrentBoundedQueue<void*>& q) {
  size_t cap = q.capacity();
  vsched::name_loc(&q._next_push_index, sizeof(q._next_push_index), "push_idx");
  vsched::name_loc(&q._next_pop_index, sizeof(q._next_pop_index), "pop_idx");
  if (cap > 0) {
    size_t stride = cap > 1 ? (size_t)((char*)&q._slots.value(1) - (char*)&q._slots.value(0)) : 64;
    vsched::name_array(&q._slots.futex(0), stride, cap, "slot");
  }
}

void build_stack(Stack& s, const std::string& kinds, size_t cap, size_t batch) {
  s.kinds = kinds;
  // build bottom-up
  PageAllocator* below = &s.rec;
  std::vector<std::unique_ptr<PageAllocator>> rev;
  for (size_t i = kinds.size(); i-- > 0;) {
    char k = kinds[i];
    if (k == 'c') {
      auto a = std::make_unique<CachedPageAllocator>();
      a->set_upstream(*below);
      a->set_free_page_capacity(cap);
      s.cached = a.get();
      name_queue(a->_free_pages);
      below = a.get();
      rev.push_back(std::move(a));
    } else if (k == 'b') {
      auto a = std::make_unique<BatchPageAllocator>();
      a->set_upstream(*below);
      a->set_batch_size(batch);
      s.batch = a.get();
      below = a.get();
      rev.push_back(std::move(a));
    } else if (k == 'k') {
      auto a = std::make_unique<CountingPageAllocator>();
      a->set_upstream(*below);
      s.counting = a.get();
      below = a.get();
      rev.push_back(std::move(a));
    } else if (k == 'h') {
      auto a = std::make_unique<PageHeap>();
      a->set_free_page_capacity(cap);
      a->_cached_allocator.set_upstream(*below); // the seam: PageHeap has no public upstream setter
      s.heap = a.get();
      name_queue(a->_cached_allocator._free_pages);
      below = a.get();
      rev.push_back(std::move(a));
    }
  }
  for (size_t i = rev.size(); i-- > 0;) s.layers.push_back(std::move(rev[i]));
  s.top = below;
}

struct Caller {
  std::deque<long> held;
  std::deque<long> inbox; // pages given by another caller (picked up at a quiescent point or by the next d/e)
};

void quiesce(Stack& s, std::vector<Caller>& callers, bool seq) {
  long free_n = -1, buf = -1, count = -1, held = 0;
  if (s.cached) free_n = (long)s.cached->free_page_num();
  if (s.heap) free_n = (long)s.heap->free_page_num();
  if (s.batch) {
    buf = 0;
    s.batch->_cache.for_each([&](BatchPageAllocator::Slot* it, BatchPageAllocator::Slot* end) {
      for (; it != end; ++it) {
        if (it->next_page < it->buffer.end()) buf += (long)(it->buffer.end() - it->next_page);
      }
    });
  }
  if (s.counting) count = (long)s.counting->allocated_page_num();
  if (s.heap) count = (long)s.heap->allocate_page_num();
  for (auto& c : callers) held += (long)(c.held.size() + c.inbox.size());
  vsched::eventf(false, "\"k\":\"quiesce\",\"free\":%ld,\"buf\":%ld,\"count\":%ld,\"held\":%ld,\"seq\":%s", free_n, buf, count, held, seq ? "true" : "false");
}

void run_page_op(Stack& s, std::vector<Caller>& callers, int c, const OpSpec& op) {
  Caller& me = callers[(size_t)c];
  PageAllocator* top = s.top;
  if (op.name == 'a') {
    int n = op.single ? 1 : op.n;
    vsched::eventf(true, "\"k\":\"call\",\"c\":%d,\"op\":\"alloc\",\"n\":%d", c, n);
    std::vector<void*> got((size_t)n, nullptr);
    if (op.single) got[0] = top->allocate();
    else top->allocate(got.data(), (size_t)n);
    std::vector<long> ids;
    for (auto p : got) ids.push_back(page_id(p));
    vsched::eventf(true, "\"k\":\"ret\",\"c\":%d,\"op\":\"alloc\",\"n\":%d,\"pages\":%s", c, n, ids_json(ids).c_str());
    vsched::eventf(false, "\"k\":\"use\",\"c\":%d,\"pages\":%s", c, ids_json(ids).c_str()); // the caller writes its pages
    for (long id : ids) me.held.push_back(id);
  } else if (op.name == 'd' || op.name == 'e') {
    while (!me.inbox.empty()) {
      me.held.push_back(me.inbox.front());
      me.inbox.pop_front();
    }
    int n = op.single ? 1 : op.n;
    if ((size_t)n > me.held.size()) n = (int)me.held.size();
    if (n == 0) return;
    std::vector<long> ids;
    for (int i = 0; i < n; i++) {
      if (op.name == 'd') {
        ids.push_back(me.held.front());
        me.held.pop_front();
      } else {
        ids.push_back(me.held.back());
        me.held.pop_back();
      }
    }
    std::vector<void*> arr;
    for (long id : ids) arr.push_back((void*)(uintptr_t)id);
    vsched::eventf(false, "\"k\":\"use\",\"c\":%d,\"pages\":%s", c, ids_json(ids).c_str());
    vsched::eventf(true, "\"k\":\"call\",\"c\":%d,\"op\":\"dealloc\",\"n\":%d,\"pages\":%s", c, n, ids_json(ids).c_str());
    if (op.single) top->deallocate(arr[0]);
    else top->deallocate(arr.data(), (size_t)n);
    vsched::eventf(true, "\"k\":\"ret\",\"c\":%d,\"op\":\"dealloc\",\"n\":%d,\"pages\":[]", c, n);
  }
}

void scenario_pages(const vrun::Params& p) {
  std::string kinds = p.str("stack", "c");
  size_t cap = (size_t)p.get("cap", 2);
  size_t batch = (size_t)p.get("batch", 2);
  Prog prog = parse_prog(p.str("prog", "a2.d2_a1.d1"));
  size_t ncallers = 0;
  for (auto& ph : prog) ncallers = std::max(ncallers, ph.size());
  auto* st = new Stack;
  build_stack(*st, kinds, cap, batch);
  std::vector<Caller> callers(ncallers);
  vrun::begin();
  for (size_t ph = 0; ph < prog.size(); ph++) {
    vsched::eventf(false, "\"k\":\"phase\",\"n\":%zu", ph);
    {
      std::vector<std::thread> ths;
      for (size_t c = 0; c < prog[ph].size(); c++) {
        ths.emplace_back([&, c, ph] {
          for (auto& op : prog[ph][c]) run_page_op(*st, callers, (int)c, op);
        });
      }
      for (auto& th : ths) th.join();
    }
    quiesce(*st, callers, prog[ph].size() <= 1);
  }
  // destruction, top first (an allocator must not outlive its upstream)
  for (size_t i = 0; i < st->layers.size(); i++) {
    char k = st->kinds[i];
    vsched::eventf(false, "\"k\":\"destroy\",\"what\":\"%c\",\"ph\":\"begin\"", k);
    st->layers[i].reset();
    vsched::eventf(false, "\"k\":\"destroy\",\"what\":\"%c\",\"ph\":\"end\"", k);
  }
  {
    std::vector<long> held;
    for (auto& c : callers) {
      for (long id : c.held) held.push_back(id);
      for (long id : c.inbox) held.push_back(id);
    }
    vsched::eventf(false, "\"k\":\"final\",\"pages\":%s", ids_json(held).c_str());
  }
  vsched::finish();
}

// ------------------------------------------------------------------------------------------------
// ObjectPool
struct Obj {
  long id;
  explicit Obj(long i) : id(i) {}
  ~Obj() {
    vsched::eventf(true, "\"k\":\"dtor\",\"obj\":%ld", id);
  }
};
using Pool = ::babylon::ObjectPool<Obj>;
using Ptr = std::unique_ptr<Obj, Pool::Deleter>;

struct PoolWorld {
  std::unique_ptr<Pool> pool;
  long next_id = 0;
};

void pool_push_events(int c, long id, bool begin, bool inject) {
  vsched::eventf(true, "\"k\":\"%s\",\"c\":%d,\"op\":\"push\",\"obj\":%ld,\"inject\":%s", begin ? "call" : "ret", c, id, inject ? "true" : "false");
}

void release_one(PoolWorld& w, int c, std::deque<Ptr>& held, bool explicit_push) {
  if (held.empty()) return;
  Ptr ptr = std::move(held.front());
  held.pop_front();
  long id = ptr->id;
  vsched::eventf(false, "\"k\":\"use\",\"c\":%d,\"obj\":%ld", c, id);
  pool_push_events(c, id, true, false);
  if (explicit_push) w.pool->push(std::move(ptr));
  else ptr.reset(); // custom deleter returns the object to its pool
  pool_push_events(c, id, false, false);
}

void run_pool_op(PoolWorld& w, int c, std::deque<Ptr>& held, const OpSpec& op) {
  if (op.name == 'p' || op.name == 't') {
    const char* name = op.name == 'p' ? "pop" : "trypop";
    vsched::eventf(true, "\"k\":\"call\",\"c\":%d,\"op\":\"%s\",\"obj\":0,\"inject\":false", c, name);
    Ptr ptr = op.name == 'p' ? w.pool->pop() : w.pool->try_pop();
    long id = ptr ? ptr->id : 0;
    vsched::eventf(true, "\"k\":\"ret\",\"c\":%d,\"op\":\"%s\",\"obj\":%ld,\"inject\":false", c, name, id);
    if (ptr) {
      vsched::eventf(false, "\"k\":\"use\",\"c\":%d,\"obj\":%ld", c, id);
      held.push_back(std::move(ptr));
    }
  } else if (op.name == 'r') {
    release_one(w, c, held, false);
  } else if (op.name == 'u') {
    release_one(w, c, held, true);
  }
}

void scenario_pool(const vrun::Params& p) {
  bool autom = p.get("mode", 0) != 0;
  size_t cap = (size_t)p.get("cap", 2);
  long inject = p.get("inject", 1);
  bool rec = p.get("rec", 1) != 0;
  Prog prog = parse_prog(p.str("prog", "p.r_p.r"));
  auto* w = new PoolWorld;
  w->pool = std::make_unique<Pool>();
  w->pool->reserve_and_clear(cap);
  if (autom) {
    w->pool->set_creator([w] {
      vsched::event("\"k\":\"upcall\"", true);
      long id = ++w->next_id;
      vsched::eventf(false, "\"k\":\"create\",\"obj\":%ld", id);
      return std::unique_ptr<Obj>(new Obj(id));
    });
  }
  if (rec) {
    w->pool->set_recycler([](Obj& o) {
      vsched::eventf(true, "\"k\":\"recycle\",\"obj\":%ld", o.id);
    });
  }
  {
    auto& q = w->pool->_free_objects;
    size_t qc = q.capacity();
    vsched::name_loc(&q._next_push_index, sizeof(q._next_push_index), "push_idx");
    vsched::name_loc(&q._next_pop_index, sizeof(q._next_pop_index), "pop_idx");
    if (qc > 0) {
      size_t stride = qc > 1 ? (size_t)((char*)&q._slots.value(1) - (char*)&q._slots.value(0)) : 64;
      vsched::name_array(&q._slots.futex(0), stride, qc, "slot");
    }
  }
  vrun::begin();
  for (long i = 0; i < inject; i++) {
    long id = ++w->next_id;
    pool_push_events(0, id, true, true);
    w->pool->push(std::unique_ptr<Obj>(new Obj(id)));
    pool_push_events(0, id, false, true);
  }
  for (size_t ph = 0; ph < prog.size(); ph++) {
    vsched::eventf(false, "\"k\":\"phase\",\"n\":%zu", ph);
    {
      std::vector<std::thread> ths;
      for (size_t c = 0; c < prog[ph].size(); c++) {
        ths.emplace_back([&, c, ph] {
          std::deque<Ptr> held;
          for (auto& op : prog[ph][c]) run_pool_op(*w, (int)c + 1, held, op);
          while (!held.empty()) release_one(*w, (int)c + 1, held, false);
        });
      }
      for (auto& th : ths) th.join();
    }
    vsched::eventf(false, "\"k\":\"quiesce\",\"free\":%ld,\"buf\":-1,\"count\":-1,\"held\":0,\"seq\":%s", (long)w->pool->free_object_number(), prog[ph].size() <= 1 ? "true" : "false");
  }
  vsched::eventf(false, "\"k\":\"destroy\",\"what\":\"p\",\"ph\":\"begin\"");
  w->pool.reset();
  vsched::eventf(false, "\"k\":\"destroy\",\"what\":\"p\",\"ph\":\"end\"");
  vsched::eventf(false, "\"k\":\"final\",\"pages\":[]");
  vsched::finish();
}

struct Reg {
  Reg() {
    vrun::add("pages", scenario_pages, "stack=c,cap=2,batch=2,prog=a2.d2_a1.d1");
    vrun::add("pool", scenario_pool, "mode=0,cap=2,inject=1,rec=1,prog=p.r_p.r");
  }
} reg;

} // namespace

int main(int argc, char** argv) {
  return vrun::main(argc, argv);
}
