// Sequential driver for ConcurrentTransientHashSet / ConcurrentTransientHashMap (property C18).
//
// Executes operation scripts on two real containers and logs, per operation, everything the public
// API lets a caller observe (size() of both containers, result of emplace / find, the iterated key
// and value lists, a find() sweep over the key universe).  It decides nothing: the ndjson trace is
// validated by TLC against spec/HSet_Trace.tla.
//
//   hset_driver --scripts FILE --out TRACE
//   FILE: one script per line   id|kind|kmap|op;op;...
//   kind: set_int set_u64 set_str set_mo map_int map_str map_mo      (mo = move-only key / mapped value)
//   kmap: how abstract keys 1,2,3.. become concrete keys (0 identity, 1 same 7-bit tag, 2 same tag and
//         same home group in small tables, 3 scrambled; strings: 0 short (SSO), 1/2 long, 3 mixed)
//   ops (containers are 1 and 2, both default-constructed when a script starts):
//     D c            destroy, default-construct          N c n        destroy, construct with n buckets
//     E c k v [how]  emplace key k / value v             M c lo n v   emplace lo..lo+n-1
//        how: 0 emplace 1 insert(lvalue or rvalue) 2 try_emplace / insert(rvalue) 3 operator[]
//     F c k          find + contains + count             I c [how]    iterate (how 1: through a const reference)
//     Z c            size only                           A c pmax     audit: iterate + find(1..pmax)
//     C c            clear                               R c n / H c n  reserve / rehash
//     Y d s [how]    d = s (how 1: destroy d, copy-construct from s); Y c c / V c c / S c c: self assignment / self swap
//     V d s          d = std::move(s)                    W d s        destroy d, move-construct from s
//     S a b [how]    a.swap(b) (how 1: std::swap(a, b))
// Each script runs in a forked child (a crash or hang is recorded as the trace's end status).
#include <babylon/concurrent/transient_hash_table.h>

#include <signal.h>
#include <sys/mman.h>
#include <sys/wait.h>
#include <unistd.h>

#include <cstdio>
#include <cstdlib>
#include <cstring>
#include <fstream>
#include <memory>
#include <new>
#include <sstream>
#include <string>
#include <unordered_map>
#include <vector>

namespace {

struct MoKey {
  static constexpr uint64_t GONE = 0xDEADDEADDEADDEADull;
  uint64_t v;
  explicit MoKey(uint64_t x) noexcept : v {x} {}
  MoKey(MoKey&& o) noexcept : v {o.v} {
    o.v = GONE;
  }
  MoKey(const MoKey&) = delete;
  MoKey& operator=(const MoKey&) = delete;
  MoKey& operator=(MoKey&&) = delete;
  bool operator==(const MoKey& o) const noexcept {
    return v == o.v;
  }
};

} // namespace

namespace std {
template <>
struct hash<MoKey> {
  size_t operator()(const MoKey& k) const noexcept {
    return ::std::hash<uint64_t>()(k.v);
  }
};
} // namespace std

namespace {

using ::babylon::ConcurrentTransientHashMap;
using ::babylon::ConcurrentTransientHashSet;

uint64_t enc_u64(int kmap, long k) {
  switch (kmap) {
    case 1: return static_cast<uint64_t>(k) * 128u;
    case 2: return static_cast<uint64_t>(k) * 8192u;
    case 3: return static_cast<uint64_t>(k) * 0x9E3779B97F4A7C15ull;
    default: return static_cast<uint64_t>(k);
  }
}
int enc_int(int kmap, long k) {
  switch (kmap) {
    case 1: return static_cast<int>(k * 128);
    case 2: return static_cast<int>(k * 8192);
    case 3: return static_cast<int>(static_cast<uint32_t>(k) * 2654435761u);
    default: return static_cast<int>(k);
  }
}
std::string enc_str(int kmap, long k) {
  std::string s = std::to_string(k);
  bool lng = kmap == 1 || kmap == 2 || (kmap == 3 && (k % 2));
  if (!lng) return "k" + s;
  if (kmap == 2) return s + std::string(40, 'y');
  return std::string(40, 'x') + s;
}
std::string enc_sval(long v) {
  return (v % 2) ? "v" + std::to_string(v) + std::string(30, '.') : "v" + std::to_string(v);
}
long dec_sval(const std::string& s) {
  if (s.empty()) return 0; // value-initialised mapped value (operator[])
  if (s[0] != 'v') return -7;
  return atol(s.c_str() + 1);
}

// ---- per kind: how to build keys / values and how to read them back -------------------------------
struct SetInt {
  using C = ConcurrentTransientHashSet<int>;
  using Key = int;
  static constexpr bool is_map = false, copyable = true;
  static Key key(int kmap, long k) { return enc_int(kmap, k); }
  static std::string repr(const Key& k) { return std::to_string(k); }
  static const Key& key_of(const C::value_type& e) { return e; }
  static long val_of(const C::value_type&) { return 0; }
};
struct SetU64 {
  using C = ConcurrentTransientHashSet<uint64_t>;
  using Key = uint64_t;
  static constexpr bool is_map = false, copyable = true;
  static Key key(int kmap, long k) { return enc_u64(kmap, k); }
  static std::string repr(const Key& k) { return std::to_string(k); }
  static const Key& key_of(const C::value_type& e) { return e; }
  static long val_of(const C::value_type&) { return 0; }
};
struct SetStr {
  using C = ConcurrentTransientHashSet<std::string>;
  using Key = std::string;
  static constexpr bool is_map = false, copyable = true;
  static Key key(int kmap, long k) { return enc_str(kmap, k); }
  static std::string repr(const Key& k) { return k; }
  static const Key& key_of(const C::value_type& e) { return e; }
  static long val_of(const C::value_type&) { return 0; }
};
struct SetMo {
  using C = ConcurrentTransientHashSet<MoKey>;
  using Key = MoKey;
  static constexpr bool is_map = false, copyable = false;
  static Key key(int kmap, long k) { return MoKey {enc_u64(kmap, k)}; }
  static std::string repr(const Key& k) { return std::to_string(k.v); }
  static const Key& key_of(const C::value_type& e) { return e; }
  static long val_of(const C::value_type&) { return 0; }
};
struct MapInt {
  using C = ConcurrentTransientHashMap<int, long>;
  using Key = int;
  using Val = long;
  static constexpr bool is_map = true, copyable = true;
  static Key key(int kmap, long k) { return enc_int(kmap, k); }
  static std::string repr(const Key& k) { return std::to_string(k); }
  static Val val(long v) { return v; }
  static const Key& key_of(const C::value_type& e) { return e.first; }
  static long val_of(const C::value_type& e) { return e.second; }
};
struct MapStr {
  using C = ConcurrentTransientHashMap<std::string, std::string>;
  using Key = std::string;
  using Val = std::string;
  static constexpr bool is_map = true, copyable = true;
  static Key key(int kmap, long k) { return enc_str(kmap, k); }
  static std::string repr(const Key& k) { return k; }
  static Val val(long v) { return enc_sval(v); }
  static const Key& key_of(const C::value_type& e) { return e.first; }
  static long val_of(const C::value_type& e) { return dec_sval(e.second); }
};
struct MapMo {
  using C = ConcurrentTransientHashMap<uint64_t, std::unique_ptr<long>>;
  using Key = uint64_t;
  using Val = std::unique_ptr<long>;
  static constexpr bool is_map = true, copyable = false;
  static Key key(int kmap, long k) { return enc_u64(kmap, k); }
  static std::string repr(const Key& k) { return std::to_string(k); }
  static Val val(long v) { return std::make_unique<long>(v); }
  static const Key& key_of(const C::value_type& e) { return e.first; }
  static long val_of(const C::value_type& e) { return e.second ? *e.second : 0; }
};

struct Op {
  std::string name;
  long a[5] = {0, 0, 0, 0, 0};
  int n = 0;
};

std::vector<Op> parse_ops(const std::string& s) {
  std::vector<Op> ops;
  std::stringstream ss(s);
  std::string tok;
  while (std::getline(ss, tok, ';')) {
    std::stringstream ts(tok);
    Op op;
    if (!(ts >> op.name)) continue;
    long x;
    while (op.n < 5 && (ts >> x)) op.a[op.n++] = x;
    ops.push_back(op);
  }
  return ops;
}

FILE* g_out = nullptr;

struct Line {
  std::string s;
  void kv(const char* k, long v) {
    s += ",\"";
    s += k;
    s += "\":";
    s += std::to_string(v);
  }
  void kb(const char* k, bool v) {
    s += ",\"";
    s += k;
    s += v ? "\":true" : "\":false";
  }
  void ks(const char* k, const std::string& v) {
    s += ",\"";
    s += k;
    s += "\":\"";
    s += v;
    s += "\"";
  }
  void kl(const char* k, const std::vector<long>& v) {
    s += ",\"";
    s += k;
    s += "\":[";
    for (size_t i = 0; i < v.size(); i++) {
      if (i) s += ",";
      s += std::to_string(v[i]);
    }
    s += "]";
  }
  void raw(const char* k, const std::string& v) {
    s += ",\"";
    s += k;
    s += "\":";
    s += v;
  }
};

template <typename T>
struct Runner {
  using C = typename T::C;
  alignas(C) unsigned char buf[2][sizeof(C)];
  C* c[2];
  int kmap = 0;
  std::unordered_map<std::string, long> rev; // concrete key -> abstract key

  Runner() {
    for (int i = 0; i < 2; i++) c[i] = new (buf[i]) C();
  }
  ~Runner() {
    for (int i = 0; i < 2; i++) c[i]->~C();
  }

  typename T::Key mk(long k) {
    auto key = T::key(kmap, k);
    rev.emplace(T::repr(key), k);
    return key;
  }
  long abstract(const typename T::Key& key) {
    auto it = rev.find(T::repr(key));
    return it == rev.end() ? -1 : it->second; // -1: a key nobody inserted
  }

  // white box (only for the L2-lite shape conformance, never for the verdict)
  static std::string chain_of(C& x) {
#ifdef HSET_NO_WHITEBOX
    return "[]";
#else
    std::string s = "[";
    auto* node = &x._head;
    int guard = 0;
    while (node != nullptr && guard++ < 64) {
      bool ph = node->table._controls == ::babylon::internal::concurrent_transient_hash_table::Group::s_dummy_controls;
      if (s.size() > 1) s += ",";
      s += "[" + std::to_string(node->table.bucket_count()) + "," + std::to_string(node->table.size()) + "," + (ph ? "1" : "0") + "]";
      node = node->next.load(::std::memory_order_acquire);
    }
    return s + "]";
#endif
  }

  struct Emp {
    bool ins;
    long rkey, rval;
  };

  Emp emplace(C& x, long k, long v, int how) {
    if constexpr (T::is_map) {
      if (how == 3) {
        bool before = x.contains(mk(k));
        auto& ref = x[mk(k)];
        if (!before) ref = T::val(v);
        auto it = x.find(mk(k));
        if (it == x.end()) return {!before, -2, -2};
        return {!before, abstract(T::key_of(*it)), T::val_of(*it)};
      }
      auto r = how == 1   ? x.insert(typename C::value_type {mk(k), T::val(v)})
               : how == 2 ? x.try_emplace(mk(k), T::val(v))
                          : x.emplace(mk(k), T::val(v));
      if (r.first == x.end()) return {r.second, -2, -2};
      return {r.second, abstract(T::key_of(*r.first)), T::val_of(*r.first)};
    } else {
      (void)v;
      if constexpr (T::copyable) {
        if (how == 1) {
          auto key = mk(k);
          auto r = x.insert(key);
          if (r.first == x.end()) return {r.second, -2, -2};
          return {r.second, abstract(T::key_of(*r.first)), 0};
        }
      }
      auto r = (how == 1 || how == 2) ? x.insert(mk(k)) : x.emplace(mk(k));
      if (r.first == x.end()) return {r.second, -2, -2};
      return {r.second, abstract(T::key_of(*r.first)), 0};
    }
  }

  template <typename CC>
  void iterate(CC& x, std::vector<long>& keys, std::vector<long>& vals) {
    size_t guard = 0;
    for (auto it = x.begin(); it != x.end(); ++it) {
      keys.push_back(abstract(T::key_of(*it)));
      vals.push_back(T::val_of(*it));
      if (++guard > 100000) break; // a cycle would otherwise fill the disk; the duplicate keys are the evidence
    }
  }

  void run(const std::vector<Op>& ops) {
    for (auto& op : ops) {
      Line L;
      const std::string& o = op.name;
      int ci = static_cast<int>(op.a[0]) - 1;
      int di = 0;
      long key = 0, val = 0, n = 0, how = 0, ins = 0, rkey = 0, rval = 0;
      bool found = false, ok = true;
      std::vector<long> keys, vals, fk, fv;
      if (ci < 0 || ci > 1) ci = 0;
      C& x = *c[ci];
      if (o == "D") {
        c[ci]->~C();
        c[ci] = new (buf[ci]) C();
      } else if (o == "N") {
        n = op.a[1];
        c[ci]->~C();
        c[ci] = new (buf[ci]) C(static_cast<size_t>(n));
      } else if (o == "E") {
        key = op.a[1];
        val = op.a[2];
        how = op.a[3];
        auto r = emplace(x, key, val, static_cast<int>(how));
        ins = r.ins;
        rkey = r.rkey;
        rval = r.rval;
      } else if (o == "M") {
        key = op.a[1];
        n = op.a[2];
        val = op.a[3];
        for (long k = key; k < key + n; k++) {
          auto r = emplace(x, k, val, static_cast<int>(k % 3));
          ins += r.ins;
          if (r.rkey != k) ok = false;
        }
      } else if (o == "F") {
        key = op.a[1];
        auto probe = mk(key);
        auto it = x.find(probe);
        found = it != x.end();
        const C& cx = x;
        bool f2 = cx.find(probe) != cx.end();
        ok = (x.contains(probe) == found) && (x.count(probe) == (found ? 1u : 0u)) && f2 == found;
        if (found) {
          rkey = abstract(T::key_of(*it));
          rval = T::val_of(*it);
        }
      } else if (o == "I" || o == "A") {
        how = o == "I" ? op.a[1] : 0;
        if (how == 1) {
          const C& cx = x;
          iterate(cx, keys, vals);
        } else {
          iterate(x, keys, vals);
        }
        if (o == "A") {
          n = op.a[1];
          for (long k = 1; k <= n; k++) {
            auto probe = mk(k);
            auto it = x.find(probe);
            if (it != x.end()) {
              fk.push_back(abstract(T::key_of(*it)) == k ? k : -1);
              fv.push_back(T::val_of(*it));
            }
          }
        }
      } else if (o == "Z") {
      } else if (o == "C") {
        x.clear();
      } else if (o == "R") {
        n = op.a[1];
        x.reserve(static_cast<size_t>(n));
      } else if (o == "H") {
        n = op.a[1];
        x.rehash(static_cast<size_t>(n));
      } else if (o == "Y" || o == "V" || o == "W" || o == "S") {
        di = static_cast<int>(op.a[1]) - 1;
        how = op.a[2];
        // di == ci: self copy assignment / self move assignment / self swap (through two references, the way
        // `v[i] = v[j]` with i == j reaches the operator)
        if (di < 0 || di > 1 || (di == ci && o == "W")) {
          fprintf(stderr, "bad script: %s needs two different containers\n", o.c_str());
          _exit(3);
        }
        if (di == ci) how = 0;
        if (o == "Y") {
          if constexpr (T::copyable) {
            if (how == 1) {
              c[ci]->~C();
              c[ci] = new (buf[ci]) C(*c[di]);
            } else {
              *c[ci] = *c[di];
            }
          } else {
            fprintf(stderr, "bad script: copy of a move-only kind\n");
            _exit(3);
          }
        } else if (o == "V") {
          *c[ci] = std::move(*c[di]);
        } else if (o == "W") {
          c[ci]->~C();
          c[ci] = new (buf[ci]) C(std::move(*c[di]));
        } else {
          if (how == 1) {
            std::swap(*c[ci], *c[di]);
          } else {
            c[ci]->swap(*c[di]);
          }
        }
      } else {
        fprintf(stderr, "bad script: unknown op %s\n", o.c_str());
        _exit(3);
      }
      L.s = "{\"k\":\"op\"";
      L.ks("op", o);
      L.kv("c", ci + 1);
      L.kv("d", (o == "Y" || o == "V" || o == "W" || o == "S") ? di + 1 : 0);
      L.kv("key", key);
      L.kv("val", T::is_map ? val : 0);
      L.kv("n", n);
      L.kv("how", how);
      L.kv("ins", ins);
      L.kb("found", found);
      L.kb("ok", ok);
      L.kv("rkey", rkey);
      L.kv("rval", rval);
      L.kl("sz", {static_cast<long>(c[0]->size()), static_cast<long>(c[1]->size())});
      L.kl("keys", keys);
      L.kl("vals", vals);
      L.kl("fk", fk);
      L.kl("fv", fv);
      L.raw("chains", "[" + chain_of(*c[0]) + "," + chain_of(*c[1]) + "]");
      L.s += "}\n";
      fputs(L.s.c_str(), g_out);
      fflush(g_out);
    }
  }
};

struct Script {
  std::string id, kind, ops;
  int kmap = 0;
};

void run_script(const Script& s) {
  auto ops = parse_ops(s.ops);
#define KIND(name, T)      \
  if (s.kind == name) {    \
    Runner<T> r;           \
    r.kmap = s.kmap;       \
    r.run(ops);            \
    return;                \
  }
  KIND("set_int", SetInt)
  KIND("set_u64", SetU64)
  KIND("set_str", SetStr)
  KIND("set_mo", SetMo)
  KIND("map_int", MapInt)
  KIND("map_str", MapStr)
  KIND("map_mo", MapMo)
#undef KIND
  fprintf(stderr, "bad script: unknown kind %s\n", s.kind.c_str());
  _exit(3);
}

bool is_map_kind(const std::string& k) {
  return k.compare(0, 4, "map_") == 0;
}

} // namespace

int main(int argc, char** argv) {
  std::string scripts_file, out;
  int timeout_s = 20;
  for (int i = 1; i < argc; i++) {
    std::string a = argv[i];
    if (a == "--scripts" && i + 1 < argc) scripts_file = argv[++i];
    else if (a == "--out" && i + 1 < argc) out = argv[++i];
    else if (a == "--timeout" && i + 1 < argc) timeout_s = atoi(argv[++i]);
  }
  if (scripts_file.empty() || out.empty()) {
    fprintf(stderr, "usage: hset_driver --scripts FILE --out TRACE\n");
    return 2;
  }
  std::vector<Script> scripts;
  {
    std::ifstream in(scripts_file);
    std::string line;
    while (std::getline(in, line)) {
      if (line.empty()) continue;
      Script s;
      std::stringstream ss(line);
      std::string km;
      std::getline(ss, s.id, '|');
      std::getline(ss, s.kind, '|');
      std::getline(ss, km, '|');
      std::getline(ss, s.ops);
      s.kmap = atoi(km.c_str());
      scripts.push_back(s);
    }
  }
  g_out = fopen(out.c_str(), "w");
  if (!g_out) {
    perror("out");
    return 2;
  }
  // progress[0] = index of the script being executed by the child
  long* progress = static_cast<long*>(mmap(nullptr, sizeof(long) * 2, PROT_READ | PROT_WRITE, MAP_SHARED | MAP_ANONYMOUS, -1, 0));
  size_t next = 0;
  long n_ok = 0, n_crash = 0, n_hang = 0, n_bad = 0;
  while (next < scripts.size()) {
    progress[0] = static_cast<long>(next);
    fflush(g_out);
    pid_t pid = fork();
    if (pid == 0) {
      for (size_t i = next; i < scripts.size(); i++) {
        progress[0] = static_cast<long>(i);
        alarm(timeout_s);
        auto& s = scripts[i];
        fprintf(g_out, "{\"k\":\"reset\",\"id\":\"%s\",\"kind\":\"%s\",\"kmap\":%d,\"map\":%s,\"script\":\"%s\"}\n", s.id.c_str(), s.kind.c_str(), s.kmap,
                is_map_kind(s.kind) ? "true" : "false", s.ops.c_str());
        fflush(g_out);
        run_script(s);
        fprintf(g_out, "{\"k\":\"end\",\"status\":\"ok\"}\n");
        fflush(g_out);
      }
      alarm(0);
      fflush(g_out);
      _exit(0);
    }
    int st = 0;
    waitpid(pid, &st, 0);
    // the child appended through its own copy of the stream: continue at the end of the file
    fseek(g_out, 0, SEEK_END);
    if (WIFEXITED(st) && WEXITSTATUS(st) == 0) {
      n_ok += static_cast<long>(scripts.size() - next);
      next = scripts.size();
    } else {
      size_t at = static_cast<size_t>(progress[0]);
      n_ok += static_cast<long>(at - next);
      const char* status = "crash";
      if (WIFSIGNALED(st) && WTERMSIG(st) == SIGALRM) {
        status = "hang";
        n_hang++;
      } else if (WIFEXITED(st) && WEXITSTATUS(st) == 3) {
        status = "bad_script";
        n_bad++;
      } else {
        n_crash++;
      }
      fprintf(g_out, "\n{\"k\":\"end\",\"status\":\"%s\",\"sig\":%d}\n", status, WIFSIGNALED(st) ? WTERMSIG(st) : 0);
      fflush(g_out);
      next = at + 1;
    }
  }
  fclose(g_out);
  printf("{\"execs\":%zu,\"events\":0,\"status\":{\"ok\":%ld,\"crash\":%ld,\"hang\":%ld,\"bad_script\":%ld}}\n", scripts.size(), n_ok, n_crash, n_hang, n_bad);
  return n_bad ? 2 : 0;
}
