// Driver for ConcurrentFixedSwissTable / ConcurrentTransientHashSet / ConcurrentTransientHashMap
// under CONCURRENT emplace / insert / find / contains / operator[]  (property C03).
//
// The hasher (template parameter H, an existing seam) maps every key to a (bucket base, 7-bit tag) chosen
// by the configuration, so colliding groups and equal tags are constants, not luck.  The SIMD group load
// of the probe is a plain _mm_loadu_si128 that interposition cannot see; the hasher, the key comparison
// and the element constructor are schedule points, so a thread switch can be placed between "group
// loaded" and "key compared" / "CAS attempted" (every write of a control byte is an interposed atomic).
// With the optional guarded hook H-1 (hooks/H1_group_point.diff) the group load itself is a point too.
//
// params:
//   kind = fixed | set | map
//   head = 0 (default-constructed placeholder) | 16 | 32 | ...
//   keys = h.tag-h.tag-...        key ids 1..n ; hash(key) = (h << 7) | tag
//   pre  = per table (separated by '/') tokens separated by '.':  <tag>[x<repeat>]  |  e[x<repeat>] (empty)
//          slot j of the table is pre-filled with filler key 100 + 1000*ord + j (hash base j, the given tag)
//   prog = threads separated by '_', operations by '.':
//          e<k> emplace(T&&)   i<k> insert(const T&)   f<k> find   c<k> contains
//          x<k> map operator[] t<k> map try_emplace
#include <babylon/concurrent/transient_hash_table.h>

#include <sched.h>

#include <string>
#include <thread>
#include <vector>

#include "vrun.h"

// The bucket arrays are allocated with the over-aligned operator new (an existing seam): inside the measured phase the
// allocation is a schedule point, so a thread can be preempted between "decided to allocate" and "array installed".
bool g_alloc_point = false;
void* operator new(std::size_t n, std::align_val_t al) {
  if (g_alloc_point) vsched::event("\"k\":\"alloc\"", true);
  std::size_t a = static_cast<std::size_t>(al);
  void* p = ::aligned_alloc(a, (n + a - 1) / a * a);
  if (p == nullptr) abort();
  return p;
}
void operator delete(void* p, std::align_val_t) noexcept { ::free(p); }
void operator delete(void* p, std::size_t, std::align_val_t) noexcept { ::free(p); }

namespace {

constexpr uint32_t MAGIC = 0x5eed1234u;

struct TabInfo {
  char* values;
  size_t stride;
  size_t buckets;
  const void* ctrl;
};
std::vector<TabInfo> g_tabs; // by chain ordinal
void (*g_refresh)() = nullptr;
bool g_log = false; // driver events only while the scheduler is active (not during the sequential pre-fill)

// (ordinal, index) of an element address; (-1, -1) when it is not a slot of a linked table
bool slot_of(const void* p, int* ord, int* idx) {
  for (int pass = 0; pass < 2; pass++) {
    for (size_t o = 0; o < g_tabs.size(); o++) {
      const TabInfo& t = g_tabs[o];
      if (t.values != nullptr && (const char*)p >= t.values && (const char*)p < t.values + t.stride * t.buckets) {
        *ord = (int)o;
        *idx = (int)(((const char*)p - t.values) / (long)t.stride);
        return true;
      }
    }
    if (pass == 0 && g_refresh) g_refresh();
  }
  *ord = -1;
  *idx = -1;
  return false;
}

struct Elem {
  int key = 0;
  int h = 0;
  int tag = 0;
  int payload = 0;
  uint32_t magic = 0;
  mutable int moved = 0; // set on the SOURCE of a move construction

  Elem() = default;
  Elem(int k, int hh, int tg) : key(k), h(hh), tag(tg), payload(k * 7 + 1), magic(MAGIC) {}
  Elem(Elem&& o) noexcept { build(o, true); }
  Elem(const Elem& o) noexcept { build(o, false); }
  Elem& operator=(const Elem&) = delete;
  ~Elem() { magic = 0xdeadu; }

  bool valid() const { return magic == MAGIC && payload == key * 7 + 1; }

  void build(const Elem& o, bool mv) noexcept {
    int ord, idx;
    bool in_table = slot_of(this, &ord, &idx);
    // the argument may already be moved-from (a defect in the code under test): recorded, not hidden
    int src_moved = o.moved;
    in_table = in_table && g_log;
    if (in_table) vsched::eventf(true, "\"k\":\"ctor\",\"ord\":%d,\"idx\":%d,\"key\":%d,\"mv\":%s,\"src_moved\":%d", ord, idx, o.key, mv ? "true" : "false", src_moved);
    key = o.key;
    h = o.h;
    tag = o.tag;
    payload = o.payload;
    if (in_table) vsched::event("\"k\":\"ctorm\"", true); // a point in the middle of the construction
    magic = o.magic;
    if (mv) o.moved = 1;
  }
  // lhs is the element stored in the table, rhs the caller's key
  bool operator==(const Elem& o) const noexcept {
    int ord, idx;
    bool in_table = slot_of(this, &ord, &idx);
    bool ok = valid();
    bool eq = key == o.key;
    if (in_table && g_log) vsched::eventf(true, "\"k\":\"keq\",\"ord\":%d,\"idx\":%d,\"key\":%d,\"skey\":%d,\"valid\":%s,\"eq\":%s", ord, idx, o.key, key, ok ? "true" : "false", eq ? "true" : "false");
    return eq;
  }
};

struct Val {
  int v = 41;
};

struct Hasher {
  size_t operator()(const Elem& e) const noexcept {
    if (g_refresh) g_refresh();
    if (g_log) vsched::eventf(true, "\"k\":\"hash\",\"key\":%d", e.key);
    return ((size_t)e.h << 7) | (size_t)(e.tag & 0x7f);
  }
};

using Fixed = ::babylon::ConcurrentFixedSwissTable<Elem, Hasher>;
using Set = ::babylon::ConcurrentTransientHashSet<Elem, Hasher>;
using Map = ::babylon::ConcurrentTransientHashMap<Elem, Val, Hasher>;

const Elem& key_of(const Elem& e) { return e; }
const Elem& key_of(const std::pair<const Elem, Val>& p) { return p.first; }

template <typename Table>
void name_table(Table& t, int ord, const void* next) {
  char nm[32];
  TabInfo ti;
  ti.buckets = t._bucket_mask + 1;
  ti.ctrl = t._controls;
  ti.values = (char*)t._values;
  ti.stride = sizeof(*t._values);
  if ((size_t)ord < g_tabs.size()) g_tabs[(size_t)ord] = ti; // the table's arrays were replaced (never on the unchanged code)
  else g_tabs.push_back(ti);
  snprintf(nm, sizeof nm, "ctrl%d", ord);
  vsched::name_array(t._controls, 1, ti.buckets + 16, nm);
  if (next) {
    snprintf(nm, sizeof nm, "next%d", ord);
    vsched::name_loc(next, sizeof(void*), nm);
  }
}

Fixed* g_fixed = nullptr;
Set* g_set = nullptr;
Map* g_map = nullptr;

template <typename S>
void refresh_chain(S* s) {
  auto* node = &s->_head;
  size_t ord = 0;
  while (node != nullptr) {
    if (ord >= g_tabs.size() || g_tabs[ord].ctrl != (const void*)node->table._controls || g_tabs[ord].values != (char*)node->table._values)
      name_table(node->table, (int)ord, &node->next);
    // raw read: the driver must not add interposed operations of its own
    node = *reinterpret_cast<decltype(node) const*>(reinterpret_cast<const void*>(&node->next));
    ord++;
  }
}
void refresh_all() {
  if (g_fixed) {
    if (g_tabs.empty()) name_table(*g_fixed, 0, nullptr);
  } else if (g_set) {
    refresh_chain(g_set);
  } else if (g_map) {
    refresh_chain(g_map);
  }
}

struct KeyDef {
  int h, tag;
};
std::vector<KeyDef> g_keys;

struct OpSpec {
  char op;
  int k;
};

std::vector<std::vector<OpSpec>> parse_prog(const std::string& s) {
  std::vector<std::vector<OpSpec>> prog(1);
  size_t i = 0;
  while (i < s.size()) {
    if (s[i] == '_') {
      prog.emplace_back();
      i++;
    } else if (s[i] == '.') {
      i++;
    } else {
      OpSpec o;
      o.op = s[i++];
      o.k = atoi(s.c_str() + i);
      while (i < s.size() && isdigit((unsigned char)s[i])) i++;
      prog.back().push_back(o);
    }
  }
  return prog;
}

std::vector<std::vector<int>> parse_pre(const std::string& s) {
  std::vector<std::vector<int>> pre;
  if (s.empty() || s == "none") return pre;
  pre.emplace_back();
  size_t i = 0;
  while (i <= s.size()) {
    size_t j = s.find_first_of("./", i);
    if (j == std::string::npos) j = s.size();
    std::string tok = s.substr(i, j - i);
    if (!tok.empty()) {
      int rep = 1;
      size_t x = tok.find('x');
      if (x != std::string::npos) rep = atoi(tok.c_str() + x + 1);
      int tag = tok[0] == 'e' ? -1 : atoi(tok.c_str());
      for (int r = 0; r < rep; r++) pre.back().push_back(tag);
    }
    if (j < s.size() && s[j] == '/') pre.emplace_back();
    i = j + 1;
  }
  return pre;
}

void parse_keys(const std::string& s) {
  g_keys.clear();
  size_t i = 0;
  while (i < s.size()) {
    size_t j = s.find('-', i);
    if (j == std::string::npos) j = s.size();
    std::string tok = s.substr(i, j - i);
    KeyDef k;
    k.h = atoi(tok.c_str());
    size_t d = tok.find('.');
    k.tag = d == std::string::npos ? 0 : atoi(tok.c_str() + d + 1);
    g_keys.push_back(k);
    i = j + 1;
  }
}

std::vector<std::vector<int>> g_pre;

Elem make_key(int k) {
  if (k >= 100) { // a pre-filled key: slot j of table ord, hash base j, the tag of the pre-fill
    size_t o = (size_t)(k - 100) / 1000, j = (size_t)(k - 100) % 1000;
    int tag = o < g_pre.size() && j < g_pre[o].size() && g_pre[o][j] >= 0 ? g_pre[o][j] : 0;
    return Elem(k, (int)j, tag);
  }
  const KeyDef& d = g_keys[(size_t)k - 1];
  return Elem(k, d.h, d.tag);
}

struct Res {
  int ord = -1, idx = -1;
  bool ins = false;
  int rkey = 0;
  bool rvalid = true;
};

template <typename P>
void read_back(const P* p, Res& r) {
  if (p == nullptr) return;
  slot_of(p, &r.ord, &r.idx);
  const Elem& e = key_of(*p);
  r.rkey = e.key;
  r.rvalid = e.valid();
}

// one API call on the fixed table
Res do_op(Fixed& c, const OpSpec& o, Elem& arg) {
  Res r;
  if (o.op == 'e') {
    auto res = c.emplace(std::move(arg));
    r.ins = res.second;
    if (res.first != c.end()) read_back(&*res.first, r);
  } else if (o.op == 'i') {
    auto res = c.insert(static_cast<const Elem&>(arg));
    r.ins = res.second;
    if (res.first != c.end()) read_back(&*res.first, r);
  } else if (o.op == 'f') {
    auto it = c.find(arg);
    if (it != c.end()) read_back(&*it, r);
  } else {
    // contains: only the boolean is observable
    r.ins = c.contains(arg);
    r.ord = r.ins ? -2 : -1;
  }
  return r;
}
Res do_op(Set& c, const OpSpec& o, Elem& arg) {
  Res r;
  if (o.op == 'e') {
    auto res = c.emplace(std::move(arg));
    r.ins = res.second;
    if (res.first != c.end()) read_back(&*res.first, r);
  } else if (o.op == 'i') {
    auto res = c.insert(static_cast<const Elem&>(arg));
    r.ins = res.second;
    if (res.first != c.end()) read_back(&*res.first, r);
  } else if (o.op == 'f') {
    auto it = c.find(arg);
    if (it != c.end()) read_back(&*it, r);
  } else {
    r.ins = c.contains(arg);
    r.ord = r.ins ? -2 : -1;
  }
  return r;
}
Res do_op(Map& c, const OpSpec& o, Elem& arg) {
  Res r;
  if (o.op == 'e' || o.op == 't') {
    auto res = o.op == 'e' ? c.emplace(std::move(arg)) : c.try_emplace(std::move(arg), Val {7});
    r.ins = res.second;
    if (res.first != c.end()) read_back(&*res.first, r);
  } else if (o.op == 'i') {
    std::pair<const Elem, Val> v(static_cast<const Elem&>(arg), Val {3});
    auto res = c.insert(static_cast<const std::pair<const Elem, Val>&>(v));
    r.ins = res.second;
    if (res.first != c.end()) read_back(&*res.first, r);
  } else if (o.op == 'x') {
    // operator[] : the size before/after is not observable concurrently; "inserted" is unknown (reported as -1)
    Val& v = c[std::move(arg)];
    int ord, idx;
    if (slot_of(&v, &ord, &idx)) {
      const TabInfo& t = g_tabs[(size_t)ord];
      read_back(reinterpret_cast<const std::pair<const Elem, Val>*>(t.values + t.stride * (size_t)idx), r);
    }
  } else if (o.op == 'f') {
    auto it = c.find(arg);
    if (it != c.end()) read_back(&*it, r);
  } else {
    r.ins = c.contains(arg);
    r.ord = r.ins ? -2 : -1;
  }
  return r;
}

template <typename C>
void run_op(C& c, const OpSpec& o) {
  Elem arg = make_key(o.k);
  arg.moved = 0;
  vsched::eventf(true, "\"k\":\"call\",\"op\":\"%c\",\"key\":%d", o.op, o.k);
  Res r = do_op(c, o, arg);
  vsched::eventf(true, "\"k\":\"ret\",\"op\":\"%c\",\"key\":%d,\"ord\":%d,\"idx\":%d,\"ins\":%s,\"consumed\":%s,\"rkey\":%d,\"rvalid\":%s", o.op, o.k, r.ord, r.idx,
                 r.ins ? "true" : "false", arg.moved ? "true" : "false", r.rkey, r.rvalid ? "true" : "false");
}

// quiescent observation: every occupied slot of every linked table (read raw, not through begin()/size())
void dump_final() {
  // vsched's event buffer is small: the slots are reported in chunks ("fslots"), then one "final" line
  std::string s;
  int n = 0;
  auto flush = [&] {
    if (n > 0) vsched::eventf(false, "\"k\":\"fslots\",\"slots\":[%s]", s.c_str());
    s.clear();
    n = 0;
  };
  for (size_t o = 0; o < g_tabs.size(); o++) {
    const TabInfo& t = g_tabs[o];
    if (t.values == nullptr) continue;
    const int8_t* c = (const int8_t*)t.ctrl;
    for (size_t i = 0; i < t.buckets; i++) {
      if (c[i] >= 0) {
        const Elem* e = (const Elem*)(t.values + t.stride * i);
        char b[96];
        snprintf(b, sizeof b, "%s[%zu,%zu,%d,%d,%d]", n ? "," : "", o, i, e->key, (int)c[i], e->valid() ? 1 : 0);
        s += b;
        if (++n == 24) flush();
      }
    }
  }
  flush();
  // mirrored tail: byte B + j must equal byte j for j < 15
  int mirror_bad = 0;
  for (size_t o = 0; o < g_tabs.size(); o++) {
    const TabInfo& t = g_tabs[o];
    if (t.values == nullptr) continue;
    const int8_t* c = (const int8_t*)t.ctrl;
    for (size_t j = 0; j + 1 < 16; j++)
      if (c[t.buckets + j] != c[j]) mirror_bad++;
  }
  vsched::eventf(false, "\"k\":\"final\",\"ntab\":%zu,\"mirror_bad\":%d", g_tabs.size(), mirror_bad);
}

template <typename C>
void final_finds(C& c, int nkeys) {
  for (int k = 1; k <= nkeys; k++) {
    OpSpec o {'f', k};
    Elem arg = make_key(k);
    Res r = do_op(c, o, arg);
    vsched::eventf(false, "\"k\":\"ffind\",\"key\":%d,\"ord\":%d,\"idx\":%d", k, r.ord, r.idx);
  }
}

// quiescent re-insertion of every key: a key that is stored must be reported as already present, at its slot
template <typename C>
void final_emplaces(C& c, int nkeys) {
  for (int k = 1; k <= nkeys; k++) {
    OpSpec o {'e', k};
    Elem arg = make_key(k);
    Res r = do_op(c, o, arg);
    vsched::eventf(false, "\"k\":\"femp\",\"key\":%d,\"ord\":%d,\"idx\":%d,\"ins\":%s", k, r.ord, r.idx, r.ins ? "true" : "false");
  }
}

template <typename C>
void prefill(C& c, const std::vector<std::vector<int>>& pre) {
  for (size_t o = 0; o < pre.size(); o++) {
    for (size_t j = 0; j < pre[o].size(); j++) {
      if (pre[o][j] < 0) continue;
      Elem f(100 + 1000 * (int)o + (int)j, (int)j, pre[o][j]);
      OpSpec op {'e', f.key};
      Res r = do_op(c, op, f);
      if (!(r.ins && r.ord == (int)o && r.idx == (int)j)) {
        vsched::eventf(false, "\"k\":\"prefill_bad\",\"ord\":%zu,\"idx\":%zu,\"got_ord\":%d,\"got_idx\":%d", o, j, r.ord, r.idx);
      }
    }
  }
}

template <typename C>
void run_all(C& c, const vrun::Params& p) {
  auto prog = parse_prog(p.str("prog", "e1_e1"));
  auto pre = parse_pre(p.str("pre", "none"));
  g_pre = pre;
  g_refresh = refresh_all;
  refresh_all();
  prefill(c, pre);
  refresh_all();
  vrun::begin();
  g_log = true;
  g_alloc_point = true;
  {
    std::vector<std::thread> ths;
    for (size_t t = 0; t < prog.size(); t++) {
      ths.emplace_back([&, t] {
        for (auto& op : prog[t]) run_op(c, op);
      });
    }
    for (auto& th : ths) th.join();
  }
  g_log = false;
  g_alloc_point = false;
  refresh_all();
  dump_final();
  final_finds(c, (int)g_keys.size());
  final_emplaces(c, (int)g_keys.size());
  vsched::finish();
  g_refresh = nullptr;
}

void scenario_swiss(const vrun::Params& p) {
  std::string kind = p.str("kind", "set");
  long head = p.get("head", 16);
  parse_keys(p.str("keys", "0.1"));
  g_tabs.clear();
  if (kind == "fixed") {
    if (head == 0) {
      Fixed c;
      g_fixed = &c;
      run_all(c, p);
    } else {
      Fixed c((size_t)head);
      g_fixed = &c;
      run_all(c, p);
    }
    g_fixed = nullptr;
  } else if (kind == "set") {
    if (head == 0) {
      Set c;
      g_set = &c;
      run_all(c, p);
    } else {
      Set c((size_t)head);
      g_set = &c;
      run_all(c, p);
    }
    g_set = nullptr;
  } else {
    if (head == 0) {
      Map c;
      g_map = &c;
      run_all(c, p);
    } else {
      Map c((size_t)head);
      g_map = &c;
      run_all(c, p);
    }
    g_map = nullptr;
  }
}

struct Reg {
  Reg() { vrun::add("swiss", scenario_swiss, "kind=set,head=16,keys=0.1,pre=none,prog=e1_e1"); }
} reg;

} // namespace

int main(int argc, char** argv) {
  return vrun::main(argc, argv);
}
