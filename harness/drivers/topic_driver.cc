// Driver for ConcurrentTransientTopic (property C15).
// Runs client programs against the real topic (default SchedInterface: futex through the libc
// shims) under vsched and logs call / callback / return events next to the interposed atomics.
//
// program syntax (param prog): threads separated by '_' (the FIRST one is the main thread 0),
// operations by '.':
//   pN   publish_n<true>(N)        qN   publish_n<false>(N)
//   pv   publish(value)            qv   publish<false>(value)
//   cN   consume(N) on the thread's consumer
//   cl   close()          clr  clear()        sub  consumer = topic.subscribe()
//   sK   spawn thread K   jK   join thread K  (main thread; K in spawn order 1,2,..)
// params: pre = items published and consumed by every consumer BEFORE the scheduler starts (moves
//               the run next to the vector's block boundary at 128)
//         rsv = slots reserved before the start (0: the vector grows during the run; slot words
//               then carry arena names only ("mem") and the L1 monitor / HBMon judge the run)
#include <babylon/concurrent/transient_topic.h>

#include <cstring>
#include <new>
#include <string>
#include <thread>
#include <vector>

#include "vrun.h"

// Every over-aligned allocation (the vector's blocks and block tables are the only ones) comes from a
// static arena, so that also blocks allocated DURING a run have trace names ("mem", word offset): the
// happens-before monitor then sees each slot word as its own location.
alignas(4096) static char g_arena[8 << 20];
static size_t g_arena_used = 0;
void* operator new(std::size_t n, std::align_val_t al) {
  size_t a = (size_t)al;
  size_t off = __atomic_fetch_add(&g_arena_used, n + a, __ATOMIC_RELAXED);
  off = (off + a - 1) / a * a;
  if (off + n > sizeof(g_arena)) abort();
  return g_arena + off;
}
void operator delete(void*, std::align_val_t) noexcept {}
void operator delete(void*, std::size_t, std::align_val_t) noexcept {}

namespace {

struct Val {
  int v;
  int t;
};
struct Item {
  int v = 0;
  Item() = default;
  // publish(value) assigns inside the topic's own callback: log the callback edge from here
  Item& operator=(Val&& x);
};
using Topic = ::babylon::ConcurrentTransientTopic<Item>;
using Slot = Topic::Slot;
using It = Topic::Iterator;
constexpr size_t BS = 128;

struct OpSpec {
  std::string name;
  int n = 0;
};

std::vector<std::vector<OpSpec>> parse_prog(const std::string& s) {
  std::vector<std::vector<OpSpec>> prog;
  size_t i = 0;
  prog.emplace_back();
  while (i <= s.size()) {
    size_t j = s.find_first_of("._", i);
    if (j == std::string::npos) j = s.size();
    std::string tok = s.substr(i, j - i);
    if (!tok.empty()) {
      OpSpec op;
      size_t k = 0;
      while (k < tok.size() && isalpha((unsigned char)tok[k])) k++;
      op.name = tok.substr(0, k);
      if (k < tok.size()) op.n = atoi(tok.c_str() + k);
      prog.back().push_back(op);
    }
    if (j < s.size() && s[j] == '_') prog.emplace_back();
    i = j + 1;
  }
  return prog;
}

std::string vals_json(const std::vector<int>& v) {
  std::string s = "[";
  for (size_t i = 0; i < v.size(); i++) s += (i ? "," : "") + std::to_string(v[i]);
  return s + "]";
}

struct World {
  Topic topic;
  std::vector<std::vector<OpSpec>> prog;
  std::vector<Topic::Consumer> cons;
  std::vector<int> next_val;
  std::vector<std::thread> ths;
};

// publication index of a slot: look the address up in the vector's current block table
// (raw read of the table pointer: no interposed operation, no schedule point)
long index_of(World& w, Slot* s) {
  using BT = Topic::SlotVector::BlockTable;
  BT* bt;
  memcpy(&bt, (void*)&w.topic._slots._block_table, sizeof bt);
  for (size_t b = 0; b < bt->size; b++) {
    Slot* base = bt->blocks[b];
    if (s >= base && s < base + BS) return (long)(b * BS + (size_t)(s - base));
  }
  return -1;
}

void name_blocks(World& w) {
  using BT = Topic::SlotVector::BlockTable;
  BT* bt;
  memcpy(&bt, (void*)&w.topic._slots._block_table, sizeof bt);
  for (size_t b = 0; b < bt->size; b++) {
    char nm[32];
    snprintf(nm, sizeof nm, "slotB%zu", b);
    vsched::name_array(&bt->blocks[b][0].futex, sizeof(Slot), BS, nm);
  }
}

World* gw = nullptr;

Item& Item::operator=(Val&& x) {
  long idx = index_of(*gw, (Slot*)((char*)this - offsetof(Slot, value)));
  vsched::eventf(true, "\"k\":\"cb\",\"idx\":%ld,\"n\":1,\"vals\":[%d]", idx, x.v);
  v = x.v;
  return *this;
}

void publish_cb(World& w, int t, It b, It e) {
  int n = (int)(e - b);
  long idx = index_of(w, b._slot);
  std::vector<int> vals;
  for (int i = 0; i < n; i++) vals.push_back((t + 1) * 100 + (++w.next_val[(size_t)t]));
  vsched::eventf(true, "\"k\":\"cb\",\"idx\":%ld,\"n\":%d,\"vals\":%s", idx, n, vals_json(vals).c_str());
  It it = b;
  for (int i = 0; i < n; i++, ++it) it->v = vals[(size_t)i];
}

void run_op(World& w, int t, const OpSpec& op) {
  Topic& topic = w.topic;
  const std::string& nm = op.name;
  if (nm == "s") {
    int k = op.n;
    if ((size_t)k >= w.ths.size()) w.ths.resize((size_t)k + 1);
    w.ths[(size_t)k] = std::thread([&w, k] {
      for (auto& o : w.prog[(size_t)k]) run_op(w, k, o);
    });
    return;
  }
  if (nm == "j") {
    // virtual join only: a real pthread_join would let glibc hand the joined thread's pthread_t to the
    // next spawned thread, which vsched::id_of_handle then resolves to the old (exited) id.
    // The real joins happen at the end of the scenario.
    vsched::on_join(op.n);
    return;
  }
  vsched::eventf(true, "\"k\":\"call\",\"op\":\"%s\",\"n\":%d", nm.c_str(), op.n);
  long res = 0, idx = 0;
  std::vector<int> vals;
  if (nm == "pv" || nm == "qv") {
    // the single-value overloads publish(value) / publish<false>(value)
    int v = (t + 1) * 100 + (++w.next_val[(size_t)t]);
    if (nm == "pv") topic.publish(Val {v, t});
    else topic.publish<false>(Val {v, t});
    res = 1;
  } else if (nm == "p" || nm == "q") {
    if (nm == "p") {
      topic.publish_n<true>((size_t)op.n, [&](It b, It e) { publish_cb(w, t, b, e); });
    } else {
      topic.publish_n<false>((size_t)op.n, [&](It b, It e) { publish_cb(w, t, b, e); });
    }
    res = op.n;
  } else if (nm == "c") {
    auto range = w.cons[(size_t)t].consume((size_t)op.n);
    vsched::event("\"k\":\"ret0\"", true); // schedule point; the payload is read right after it
    res = (long)range.size();
    idx = (long)range._begin;
    for (size_t i = 0; i < range.size(); i++) vals.push_back(range[i].v);
  } else if (nm == "cl") {
    topic.close();
  } else if (nm == "clr") {
    topic.clear();
  } else if (nm == "sub") {
    w.cons[(size_t)t] = topic.subscribe();
  }
  if (nm != "c") vsched::event("\"k\":\"ret0\"", true);
  vsched::eventf(false, "\"k\":\"ret\",\"op\":\"%s\",\"n\":%d,\"res\":%ld,\"idx\":%ld,\"vals\":%s", nm.c_str(), op.n, res, idx, vals_json(vals).c_str());
}

void scenario_topic(const vrun::Params& p) {
  static World w;
  gw = &w;
  w.prog = parse_prog(p.str("prog", "s1.s2.j1.cl.j2_p1_c1.c1"));
  size_t nthr = w.prog.size();
  long pre = p.get("pre", 0);
  long rsv = p.get("rsv", 256);
  w.cons.resize(nthr);
  w.next_val.assign(nthr, 0);
  w.ths.resize(nthr);
  if (rsv > 0) w.topic._slots.reserve((size_t)rsv); // (Topic::reserve is declared but not defined upstream)
  if (pre > 0) {
    long k = 0;
    w.topic.publish_n<false>((size_t)pre, [&](It b, It e) {
      for (; b != e; ++b) b->v = 5000 + (int)(k++);
    });
  }
  for (size_t t = 0; t < nthr; t++) {
    w.cons[t] = w.topic.subscribe();
    if (pre > 0) {
      auto r = w.cons[t].consume((size_t)pre);
      if ((long)r.size() != pre) abort();
      for (long i = 0; i < pre; i++)
        if (r[(size_t)i].v != 5000 + (int)i) abort();
    }
  }
  vsched::name_array(g_arena, 4, sizeof(g_arena) / 4, "mem"); // registered first: more specific names win
  vsched::name_loc(&w.topic._next_event_index, sizeof(w.topic._next_event_index), "idx");
  vsched::name_loc(&w.topic._slots._block_table, sizeof(w.topic._slots._block_table), "tab");
  if (rsv > 0) name_blocks(w);
  vrun::begin();
  for (auto& o : w.prog[0]) run_op(w, 0, o);
  vsched::event("\"k\":\"mainend\"");
  for (auto& th : w.ths)
    if (th.joinable()) th.join();
  // quiescent observation
  {
    size_t idx;
    memcpy(&idx, (void*)&w.topic._next_event_index, sizeof idx);
    vsched::eventf(false, "\"k\":\"final\",\"next\":%zu", idx);
  }
  vsched::finish();
}

struct Reg {
  Reg() { vrun::add("topic", scenario_topic, "pre=0,rsv=256,prog=s1.s2.j1.cl.j2_p1_c1.c1"); }
} reg;

} // namespace

int main(int argc, char** argv) {
  return vrun::main(argc, argv);
}
