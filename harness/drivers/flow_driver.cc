// Driver for babylon::anyflow (property C05).
// Builds a graph of the generated family from a compact description with the real GraphBuilder,
// runs it (run -> get -> wait -> reset, one or more cycles) under vsched and logs the L1 observables
// (run call, processor begin/end with the inputs seen, emit attempts, closure finished / wait
// returned, reset) next to the interposed atomic operations of dependency / vertex / data / closure.
//
// params
//   g   vertices separated by '_', each "v" + dependencies separated by '.'
//       dependency := <target data> [ ('c' | 'u') <condition data> ] [ 'e' ]     c = on, u = unless, e = essential
//       vertex k (1-based) emits data k; data above the vertex count are inputs (no producer)
//   nd  number of data
//   x   executor: 0 = inplace, 1|2 = pool of that many scheduler controlled workers taking tasks in any order
//   cy  cycles separated by '_':  t<targets>-p<preset>-j<injected or 0>-k<kind per data: t|f|e>-f<failing vertices>
//       (ids are single digits).  kind: value is truthy / falsy / empty (not emitted)
// threads: 0 = caller of Graph::run, 1 = external injector, 2.. = pool workers
#include <babylon/anyflow/builder.h>
#include <babylon/anyflow/closure.h>
#include <babylon/anyflow/data.h>
#include <babylon/anyflow/graph.h>
#include <babylon/anyflow/vertex.h>

#include <linux/futex.h>
#include <sys/syscall.h>
#include <unistd.h>

#include <climits>
#include <string>
#include <thread>
#include <vector>

#include "vrun.h"

// The babylon sources of this driver are compiled with -finstrument-functions (flow.build.json): the entry of
// GraphDependency::check_established -- plain code between the decrement of _waiting_num and the evaluation of the
// condition / the write of _established -- becomes a schedule point ("pt"), so that the scheduler can interleave
// another thread's ready() / activate() of the same dependency exactly there.
static void* g_check_established = nullptr;
extern "C" {
__attribute__((no_instrument_function)) void __cyg_profile_func_enter(void* fn, void*) {
  if (fn == g_check_established && fn != nullptr && vsched::active() && vsched::self() >= 0) vsched::event("\"k\":\"pt\"", true);
}
__attribute__((no_instrument_function)) void __cyg_profile_func_exit(void*, void*) {}
}

namespace {

using ::babylon::anyflow::Closure;
using ::babylon::anyflow::ClosureContext;
using ::babylon::anyflow::ClosureContextImplement;
using ::babylon::anyflow::Graph;
using ::babylon::anyflow::GraphBuilder;
using ::babylon::anyflow::GraphData;
using ::babylon::anyflow::GraphDependency;
using ::babylon::anyflow::GraphExecutor;
using ::babylon::anyflow::GraphProcessor;
using ::babylon::anyflow::GraphVertex;
using ::babylon::anyflow::GraphVertexClosure;

struct Dep {
  int t = 0, c = 0;
  bool ev = false, ess = false;
};
struct Cycle {
  std::vector<int> tg, ps, fl;
  int ij = 0;
  std::string kd;
};

// driver-level blocking (futex under vsched): one word bumped on every driver state change
struct Gate {
  std::atomic<uint32_t> w {0};
  uint32_t see() {
    return w.load(std::memory_order_acquire);
  }
  void wait(uint32_t seen) {
    syscall(SYS_futex, &w, FUTEX_WAIT_PRIVATE, seen, nullptr, nullptr, 0);
  }
  void bump() {
    w.fetch_add(1, std::memory_order_acq_rel);
    syscall(SYS_futex, &w, FUTEX_WAKE_PRIVATE, INT_MAX, nullptr, nullptr, 0);
  }
};

struct Task {
  GraphVertex* v;
  GraphVertexClosure c;
};

struct Ctx {
  int nv = 0, nd = 0, mode = 0;
  std::vector<std::vector<Dep>> deps;
  std::vector<Cycle> cyc;
  int cur = 0;
  std::unique_ptr<Graph> graph;
  std::vector<GraphData*> data;   // 1-based
  std::vector<std::string> side;  // term published into data d (this cycle)
  std::vector<std::string> terms; // interned terms: value = index + 1
  Gate gate;
  std::vector<Task> tasks;
  bool stop = false;
  int busy = 0; // workers inside vertex->run
  int inj_go = 0, inj_done = 0;
};
Ctx* C = nullptr;

std::vector<int> digits(const std::string& s) {
  std::vector<int> v;
  for (char ch : s)
    if (ch >= '0' && ch <= '9' && ch != '0') v.push_back(ch - '0');
  return v;
}

std::vector<std::string> split(const std::string& s, char sep) {
  std::vector<std::string> out;
  size_t i = 0;
  while (i <= s.size()) {
    size_t j = s.find(sep, i);
    if (j == std::string::npos) j = s.size();
    out.push_back(s.substr(i, j - i));
    i = j + 1;
  }
  return out;
}

void parse_graph(const std::string& g) {
  for (auto& vs : split(g, '_')) {
    std::vector<Dep> dl;
    if (vs.size() > 1) {
      for (auto& ds : split(vs.substr(1), '.')) {
        if (ds.empty()) continue;
        Dep d;
        size_t k = 0;
        d.t = ds[k++] - '0';
        if (k < ds.size() && (ds[k] == 'c' || ds[k] == 'u')) {
          d.ev = ds[k] == 'c';
          d.c = ds[k + 1] - '0';
          k += 2;
        }
        if (k < ds.size() && ds[k] == 'e') d.ess = true;
        dl.push_back(d);
      }
    }
    C->deps.push_back(dl);
  }
  C->nv = (int)C->deps.size();
}

void parse_cycles(const std::string& s) {
  for (auto& cs : split(s, '_')) {
    Cycle c;
    for (auto& f : split(cs, '-')) {
      if (f.empty()) continue;
      std::string r = f.substr(1);
      switch (f[0]) {
        case 't': c.tg = digits(r); break;
        case 'p': c.ps = digits(r); break;
        case 'j': c.ij = r.empty() ? 0 : r[0] - '0'; break;
        case 'k': c.kd = r; break;
        case 'f': c.fl = digits(r); break;
        default: break;
      }
    }
    while ((int)c.kd.size() < C->nd) c.kd.push_back('t');
    C->cyc.push_back(c);
  }
}

bool has(const std::vector<int>& v, int x) {
  for (int y : v)
    if (y == x) return true;
  return false;
}

int64_t intern(const std::string& term) {
  C->terms.push_back(term);
  return (int64_t)C->terms.size();
}

std::string term_seen(int d, int64_t val) {
  if (val == 0) return C->side[(size_t)d];
  if (val < 0 || (size_t)val > C->terms.size()) return "?";
  return C->terms[(size_t)val - 1];
}

void acc(int d, bool w) {
  vsched::eventf(false, "\"k\":\"acc\",\"loc\":\"dval\",\"i\":%d,\"w\":%s", d, w ? "true" : "false");
}

// publish data d from outside the graph (preset before the run / injector concurrently with it)
void emit_external(int d, char src) {
  const Cycle& cy = C->cyc[(size_t)C->cur];
  char kind = cy.kd[(size_t)d - 1];
  bool empty = src == 'p' && kind == 'e';
  std::string term = empty ? "_" : std::string(1, src) + std::to_string(d);
  auto c = C->data[(size_t)d]->emit<int64_t>();
  bool valid = c.valid();
  vsched::eventf(false, "\"k\":\"emit\",\"d\":%d,\"src\":\"%c\",\"by\":0,\"valid\":%s,\"term\":\"%s\"", d, src, valid ? "true" : "false", term.c_str());
  if (valid) {
    acc(d, true);
    if (!empty) {
      C->side[(size_t)d] = term;
      *c = kind == 't' ? intern(term) : 0;
    }
    c.release();
  }
}

struct FlowProc : public GraphProcessor {
  int setup() noexcept override {
    auto& V = vertex();
    size_t v = V.index();
    for (size_t i = 0; i < V.anonymous_dependency_size(); i++) {
      V.anonymous_dependency(i)->declare_essential(C->deps[v][i].ess);
    }
    return 0;
  }
  int process() noexcept override {
    auto& V = vertex();
    int v = (int)V.index() + 1;
    const auto& dd = C->deps[(size_t)v - 1];
    const Cycle& cy = C->cyc[(size_t)C->cur];
    std::string ins, dr, de, cr, tr, args;
    vsched::event("\"k\":\"dobs_b\""); // the driver's own ready() loads are not part of the library's protocol
    for (size_t i = 0; i < dd.size(); i++) {
      GraphDependency* dep = V.anonymous_dependency(i);
      const Dep& D = dd[i];
      bool r = dep->ready(), e = dep->established();
      bool crdy = D.c ? C->data[(size_t)D.c]->ready() : true;
      bool trdy = C->data[(size_t)D.t]->ready();
      const int64_t* p = dep->value<int64_t>();
      std::string s = "_";
      if (p != nullptr) {
        acc(D.t, false);
        s = term_seen(D.t, *p);
      }
      const char* sep = i ? "," : "";
      ins += std::string(sep) + "\"" + s + "\"";
      args += std::string(sep) + s;
      dr += std::string(sep) + (r ? "true" : "false");
      de += std::string(sep) + (e ? "true" : "false");
      cr += std::string(sep) + (crdy ? "true" : "false");
      tr += std::string(sep) + (trdy ? "true" : "false");
    }
    vsched::event("\"k\":\"dobs_e\"");
    vsched::eventf(true, "\"k\":\"vbegin\",\"v\":%d,\"ins\":[%s],\"dr\":[%s],\"de\":[%s],\"cr\":[%s],\"tr\":[%s]", v, ins.c_str(), dr.c_str(), de.c_str(), cr.c_str(), tr.c_str());
    int code = 0;
    if (has(cy.fl, v)) {
      code = -7;
    } else {
      char kind = cy.kd[(size_t)v - 1];
      if (kind != 'e') {
        std::string term = "f" + std::to_string(v) + "(" + args + ")";
        auto c = V.anonymous_emit(0)->emit<int64_t>();
        bool valid = c.valid();
        vsched::eventf(false, "\"k\":\"emit\",\"d\":%d,\"src\":\"v\",\"by\":%d,\"valid\":%s,\"term\":\"%s\"", v, v, valid ? "true" : "false", term.c_str());
        if (valid) {
          acc(v, true);
          C->side[(size_t)v] = term;
          *c = kind == 't' ? intern(term) : 0;
          c.release();
        }
      }
    }
    vsched::eventf(true, "\"k\":\"vend\",\"v\":%d,\"code\":%d", v, code);
    return code;
  }
};

struct FlowExec : public GraphExecutor {
  Closure create_closure() noexcept override {
    auto c = Closure::create<::babylon::SchedInterface>(*this);
    ClosureContext* ctx = c.context();
    vsched::name_loc(&ctx->_waiting_vertex_num, sizeof(ctx->_waiting_vertex_num), "wvn");
    vsched::name_loc(&ctx->_waiting_data_num, sizeof(ctx->_waiting_data_num), "wdn");
    vsched::name_loc(&ctx->_callback, sizeof(ctx->_callback), "cb");
    auto* impl = static_cast<ClosureContextImplement<::babylon::SchedInterface>*>(ctx);
    vsched::name_loc(impl->_finished._context.get(), sizeof(*impl->_finished._context), "pfin");
    vsched::name_loc(impl->_flushed._context.get(), sizeof(*impl->_flushed._context), "pflu");
    return c;
  }
  // the executor seam: a vertex handed over here is "started"; "vdone" when GraphVertex::run has returned
  int32_t run(GraphVertex* vertex, GraphVertexClosure&& closure) noexcept override {
    int v = (int)vertex->index() + 1;
    vsched::eventf(false, "\"k\":\"vsub\",\"v\":%d", v);
    if (C->mode == 0) {
      vertex->run(::std::move(closure));
      vsched::eventf(false, "\"k\":\"vdone\",\"v\":%d", v);
      return 0;
    }
    C->tasks.push_back(Task {vertex, ::std::move(closure)});
    C->gate.bump();
    return 0;
  }
  int32_t run(ClosureContext* closure, Closure::Callback* callback) noexcept override {
    closure->run(callback);
    return 0;
  }
};

void worker_main() {
  for (;;) {
    uint32_t s = C->gate.see();
    if (!C->tasks.empty()) {
      size_t idx = (size_t)(vrun::rnd() % C->tasks.size());
      Task t = ::std::move(C->tasks[idx]);
      C->tasks.erase(C->tasks.begin() + (long)idx);
      C->busy++;
      t.v->run(::std::move(t.c));
      vsched::eventf(false, "\"k\":\"vdone\",\"v\":%d", (int)t.v->index() + 1);
      C->busy--;
      C->gate.bump();
      continue;
    }
    if (C->stop) break;
    C->gate.wait(s);
  }
}

void injector_main() {
  for (size_t k = 0; k < C->cyc.size(); k++) {
    for (;;) {
      uint32_t s = C->gate.see();
      if (C->inj_go > (int)k) break;
      C->gate.wait(s);
    }
    if (C->cyc[k].ij != 0) emit_external(C->cyc[k].ij, 'j');
    C->inj_done = (int)k + 1;
    C->gate.bump();
  }
}

std::string obs_data(const std::vector<int>& ds, std::string& rd, bool with_acc) {
  std::string vals;
  rd.clear();
  vsched::event("\"k\":\"dobs_b\"");
  for (size_t i = 0; i < ds.size(); i++) {
    GraphData* d = C->data[(size_t)ds[i]];
    bool r = d->ready();
    std::string s = "_";
    if (r && !d->empty()) {
      const int64_t* p = d->value<int64_t>();
      if (p != nullptr) {
        if (with_acc) acc(ds[i], false);
        s = term_seen(ds[i], *p);
      }
    }
    rd += std::string(i ? "," : "") + (r ? "true" : "false");
    vals += std::string(i ? "," : "") + "\"" + s + "\"";
  }
  vsched::event("\"k\":\"dobs_e\"");
  return vals;
}

void scenario_flow(const vrun::Params& p) {
  Ctx ctx;
  C = &ctx;
  ctx.nd = (int)p.get("nd", 2);
  ctx.mode = (int)p.get("x", 0);
  parse_graph(p.str("g", "v2"));
  parse_cycles(p.str("cy", "t1-p2-j0-ktt-f"));
  ctx.side.assign((size_t)ctx.nd + 1, "_");

  FlowExec exec;
  GraphBuilder builder;
  builder.set_executor(exec);
  for (int v = 1; v <= ctx.nv; v++) {
    auto& vb = builder.add_vertex([] {
      return ::std::unique_ptr<GraphProcessor>(new FlowProc);
    });
    for (const Dep& d : ctx.deps[(size_t)v - 1]) {
      auto& db = vb.anonymous_depend().to("d" + std::to_string(d.t));
      if (d.c != 0) {
        if (d.ev) db.on("d" + std::to_string(d.c));
        else db.unless("d" + std::to_string(d.c));
      }
    }
    vb.anonymous_emit().to("d" + std::to_string(v));
  }
  if (builder.finish() != 0) {
    vsched::event("\"k\":\"builderr\",\"what\":\"finish\"");
    _exit(45);
  }
  ctx.graph = builder.build();
  if (!ctx.graph) {
    vsched::event("\"k\":\"builderr\",\"what\":\"build\"");
    _exit(45);
  }
  ctx.data.assign((size_t)ctx.nd + 1, nullptr);
  for (int d = 1; d <= ctx.nd; d++) {
    GraphData* gd = ctx.graph->find_data("d" + std::to_string(d));
    if (gd == nullptr) {
      vsched::event("\"k\":\"builderr\",\"what\":\"data\"");
      _exit(45);
    }
    ctx.data[(size_t)d] = gd;
    vsched::name_loc(&gd->_closure, sizeof(gd->_closure), ("dclo." + std::to_string(d)).c_str());
    vsched::name_loc(&gd->_acquired, sizeof(gd->_acquired), ("dacq." + std::to_string(d)).c_str());
    vsched::name_loc(&gd->_depend_state, sizeof(gd->_depend_state), ("dds." + std::to_string(d)).c_str());
    vsched::name_loc(&gd->_producer_done_num, sizeof(gd->_producer_done_num), ("dpdn." + std::to_string(d)).c_str());
  }
  for (int v = 1; v <= ctx.nv; v++) {
    GraphVertex& gv = ctx.graph->_vertexes[(size_t)v - 1];
    vsched::name_loc(&gv._activated, sizeof(gv._activated), ("vact." + std::to_string(v)).c_str());
    vsched::name_loc(&gv._waiting_num, sizeof(gv._waiting_num), ("vwn." + std::to_string(v)).c_str());
    for (size_t i = 0; i < gv._dependencies.size(); i++) {
      vsched::name_loc(&gv._dependencies[i]._waiting_num, sizeof(gv._dependencies[i]._waiting_num), ("dwn." + std::to_string(v) + "." + std::to_string(i + 1)).c_str());
    }
  }
  vsched::name_loc(&ctx.gate.w, sizeof(ctx.gate.w), "gate");
  std::atomic<int64_t> interner {0};
  vsched::name_loc(&interner, sizeof(interner), "intern");

  g_check_established = (void*)(&GraphDependency::check_established);
  vrun::begin();
  // negative counter values are interned by the recorder: fix their codes (decoded by the normaliser)
  for (int64_t x = -2; x >= -6; x--) interner.store(x, std::memory_order_relaxed);
  {
    std::vector<std::thread> ths;
    ths.emplace_back(injector_main);
    for (int w = 0; w < ctx.mode; w++) ths.emplace_back(worker_main);

    for (size_t k = 0; k < ctx.cyc.size(); k++) {
      const Cycle& cy = ctx.cyc[k];
      ctx.cur = (int)k;
      for (auto& s : ctx.side) s = "_";
      vsched::eventf(true, "\"k\":\"run\",\"cyc\":%d", (int)k + 1);
      for (int d : cy.ps) emit_external(d, 'p');
      ctx.inj_go = (int)k + 1;
      ctx.gate.bump();
      {
        std::vector<GraphData*> tg;
        for (int d : cy.tg) tg.push_back(ctx.data[(size_t)d]);
        Closure closure = ctx.graph->run(tg.data(), tg.size());
        int code = closure.get();
        std::string rd;
        std::string vals = obs_data(cy.tg, rd, code == 0);
        vsched::eventf(true, "\"k\":\"fin\",\"code\":%d,\"rd\":[%s],\"vals\":[%s]", code, rd.c_str(), vals.c_str());
        closure.wait();
        vsched::eventf(true, "\"k\":\"waitret\"");
        // the harness keeps the closure alive (and does not reset) until the injector is done and the pool is
        // drained: whatever the library still starts after wait() returned is observed, never a use after free
        for (;;) {
          uint32_t s = ctx.gate.see();
          if (ctx.inj_done > (int)k && ctx.tasks.empty() && ctx.busy == 0) break;
          ctx.gate.wait(s);
        }
      }
      {
        std::vector<int> all;
        for (int d = 1; d <= ctx.nd; d++) all.push_back(d);
        std::string rd;
        std::string vals = obs_data(all, rd, false);
        vsched::eventf(false, "\"k\":\"obs\",\"rd\":[%s],\"vals\":[%s]", rd.c_str(), vals.c_str());
      }
      ctx.graph->reset();
      vsched::eventf(true, "\"k\":\"greset\"");
    }
    ctx.stop = true;
    ctx.gate.bump();
    for (auto& t : ths) t.join();
  }
  vsched::finish();
}

struct Reg {
  Reg() {
    vrun::add("flow", scenario_flow, "g=v2,nd=2,x=0,cy=t1-p2-j0-ktt-f");
  }
} reg;

} // namespace

int main(int argc, char** argv) {
  return vrun::main(argc, argv);
}
