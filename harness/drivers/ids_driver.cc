// Driver for IdAllocator / ThreadId / DepositBox (property C14).
// Runs client programs against the real objects under vsched and logs call / got / ret
// events next to the interposed atomic operations.
//
// scenarios
//   ids   IdAllocator<uint32_t> used directly
//   tid   ThreadId::current_thread_id<Tag>() with real thread birth / death (IdAllocator<uint16_t>)
//   box   DepositBox<Item>
//
// params (lists: '.' between elements, '_' between threads, 'x' = empty)
//   n      ids minted in the (unlogged, single-threaded) set-up          box: items emplaced
//   fr     values deallocated in the set-up, in this order               box: taken + finished
//   own    ids: which set-up ids each thread holds at the start (thread lists)
//   prog   thread programs:  al | de<k> | fe        (ids, tid; tid: first op al, last op de0 = thread exit)
//                            em<s> | tk<s> | tr<s> | fr<k> | fe   (box; s = board slot, k = index in the held list)
//   after  per thread the threads that are joined before it is created (generations)
//   nb     board slots (box); set-up item i is posted at board slot i
//   dn     number of versions in the value dictionary (see below); db: further version bases the dictionary covers
//
// white-box operation  adv<k>  (ids, box): the version tag of the allocator's free-list head jumps by k, atomically
// with the call event -- the equivalent of k allocate/deallocate rounds on other values, used to reach version
// distances like 2^16 without running 65536 rounds.
//
// 64-bit head values do not fit TLC integers and are interned by vsched; at the end of an execution
// the driver stores every candidate (version, value) pair into a dummy atomic, preceded by a "dict"
// event, so that the normaliser can decode the interned tokens.
#include <babylon/concurrent/deposit_box.h>
#include <babylon/concurrent/id_allocator.h>

#include <string>
#include <thread>
#include <vector>

#include "vrun.h"

namespace {

using ::babylon::VersionedValue;

struct OpSpec {
  std::string name;
  int n = 0;
};

std::vector<std::string> split(const std::string& s, char sep) {
  std::vector<std::string> out;
  size_t i = 0;
  while (i <= s.size()) {
    size_t j = s.find(sep, i);
    if (j == std::string::npos) j = s.size();
    out.push_back(s.substr(i, j - i));
    i = j + 1;
  }
  return out;
}
std::vector<int> int_list(const std::string& s) {
  std::vector<int> v;
  for (auto& tok : split(s, '.'))
    if (!tok.empty() && tok != "-" && tok != "x") v.push_back(atoi(tok.c_str()));
  return v;
}
std::vector<std::vector<int>> int_lists(const std::string& s, size_t nthr) {
  std::vector<std::vector<int>> r;
  for (auto& th : split(s, '_')) r.push_back(int_list(th));
  r.resize(nthr);
  return r;
}
std::vector<std::vector<OpSpec>> parse_prog(const std::string& s) {
  std::vector<std::vector<OpSpec>> prog;
  for (auto& th : split(s, '_')) {
    prog.emplace_back();
    for (auto& tok : split(th, '.')) {
      if (tok.empty() || tok == "-" || tok == "x") continue;
      OpSpec op;
      size_t k = 0;
      while (k < tok.size() && isalpha((unsigned char)tok[k])) k++;
      op.name = tok.substr(0, k);
      if (k < tok.size()) op.n = atoi(tok.c_str() + k);
      prog.back().push_back(op);
    }
  }
  return prog;
}

std::string vals_json(const std::vector<long>& v) {
  std::string s = "[";
  for (size_t i = 0; i < v.size(); i++) s += (i ? "," : "") + std::to_string(v[i]);
  return s + "]";
}

// ---- value dictionary --------------------------------------------------------------------------
std::atomic<uint64_t> g_dict {0};

void emit_dict(int nval, int nver, const std::vector<int>& bases = {}) {
  vsched::name_loc(&g_dict, sizeof(g_dict), "dict");
  std::vector<long> vers;
  for (int ver = 0; ver < nver; ver++) vers.push_back(ver);
  for (int b : bases)
    for (long ver = std::max(0, b - 2); ver < (long)b + nver; ver++) vers.push_back(ver);
  for (long ver : vers) {
    for (int val = -2; val < nval; val++) {
      uint64_t lo = val == -1 ? 0xFFFFFFFFull : val == -2 ? 0xFFFFFFFEull : (uint64_t)val;
      uint64_t x = ((uint64_t)ver << 32) | lo;
      if (x < 2000000000ull) continue;
      vsched::eventf(false, "\"k\":\"dict\",\"hi\":%ld,\"lo\":%d", ver, val);
      g_dict.store(x, std::memory_order_relaxed);
    }
  }
}

// main thread: create the program threads in order; before creating thread t join the threads in after[t]
template <typename F>
void run_threads(size_t nthr, const std::vector<std::vector<int>>& after, F&& body) {
  std::vector<std::thread> ths(nthr);
  std::vector<bool> joined(nthr, false);
  for (size_t t = 0; t < nthr; t++) {
    for (int u : after[t]) {
      if (u >= 1 && (size_t)u <= t && !joined[(size_t)u - 1]) {
        ths[(size_t)u - 1].join();
        joined[(size_t)u - 1] = true;
      }
    }
    ths[t] = std::thread([&body, t] { body(t); });
  }
  for (size_t t = 0; t < nthr; t++)
    if (!joined[t]) ths[t].join();
}

template <typename A, typename T>
void name_allocator(A& alloc, T*) {
  vsched::name_loc(&alloc._next_value, sizeof(alloc._next_value), "next");
  vsched::name_loc(&alloc._free_head, sizeof(alloc._free_head), "head");
  vsched::name_loc(&alloc._free_next_value._block_table, sizeof(alloc._free_next_value._block_table), "ftab");
  vsched::name_array(&alloc._free_next_value.ensure(0), sizeof(std::atomic<T>), 128, "fnext");
}

// white-box: the head's version tag jumps by k (atomically with the call event: no schedule point in between)
template <typename A>
void do_adv(A& alloc, int k) {
  vsched::event("\"k\":\"sp\"", true);
  alloc._free_head.version += (uint32_t)k;
  vsched::eventf(false, "\"k\":\"call\",\"op\":\"adv\",\"n\":%d,\"id\":%ld,\"idh\":%ld", k,
                 alloc._free_head.value == UINT32_MAX ? -1L : (long)alloc._free_head.value, (long)alloc._free_head.version);
  vsched::eventf(true, "\"k\":\"ret\",\"op\":\"adv\",\"n\":%d,\"id\":-1,\"idh\":0", k);
}

template <typename A>
std::vector<long> do_for_each(A&& fe) {
  std::vector<long> vals;
  fe([&](uint32_t b, uint32_t e) {
    for (uint32_t i = b; i < e && vals.size() < 64; i++) vals.push_back((long)i);
  });
  return vals;
}

// ================================================================================================
// scenario ids: IdAllocator<uint32_t>
// ================================================================================================
using Alloc32 = ::babylon::IdAllocator<uint32_t>;
using Id32 = VersionedValue<uint32_t>;

void ids_op(Alloc32& al, std::vector<Id32>& held, const OpSpec& op) {
  if (op.name == "al") {
    vsched::eventf(true, "\"k\":\"call\",\"op\":\"al\",\"n\":0,\"id\":-1,\"idh\":0");
    Id32 id = al.allocate();
    held.push_back(id);
    vsched::eventf(true, "\"k\":\"ret\",\"op\":\"al\",\"n\":0,\"id\":%ld,\"idh\":%ld", (long)id.value, (long)id.version);
  } else if (op.name == "de") {
    if ((size_t)op.n >= held.size()) {
      vsched::eventf(true, "\"k\":\"call\",\"op\":\"de\",\"n\":%d,\"id\":-1,\"idh\":0", op.n);
      vsched::eventf(true, "\"k\":\"ret\",\"op\":\"de\",\"n\":%d,\"id\":-1,\"idh\":0", op.n);
      return;
    }
    Id32 id = held[(size_t)op.n];
    held.erase(held.begin() + op.n);
    vsched::eventf(true, "\"k\":\"call\",\"op\":\"de\",\"n\":%d,\"id\":%ld,\"idh\":%ld", op.n, (long)id.value, (long)id.version);
    al.deallocate(id);
    vsched::eventf(true, "\"k\":\"ret\",\"op\":\"de\",\"n\":%d,\"id\":%ld,\"idh\":%ld", op.n, (long)id.value, (long)id.version);
  } else if (op.name == "adv") {
    do_adv(al, op.n);
  } else if (op.name == "fe") {
    vsched::eventf(true, "\"k\":\"call\",\"op\":\"fe\",\"n\":0,\"id\":-1,\"idh\":0");
    auto vals = do_for_each([&](auto&& cb) { al.for_each(cb); });
    vsched::eventf(true, "\"k\":\"ret\",\"op\":\"fe\",\"n\":0,\"id\":-1,\"idh\":0,\"vals\":%s", vals_json(vals).c_str());
  }
}

void scenario_ids(const vrun::Params& p) {
  auto prog = parse_prog(p.str("prog", "al"));
  size_t nthr = prog.size();
  int n = (int)p.get("n", 0);
  auto fr = int_list(p.str("fr", "x"));
  auto own = int_lists(p.str("own", "x"), nthr);
  auto after = int_lists(p.str("after", "x"), nthr);
  Alloc32 al;
  name_allocator(al, (uint32_t*)nullptr);
  // set-up (not logged): mint n ids, free some
  std::vector<Id32> minted;
  for (int i = 0; i < n; i++) minted.push_back(al.allocate());
  for (int v : fr) al.deallocate(minted[(size_t)v]);
  std::vector<std::vector<Id32>> held(nthr);
  for (size_t t = 0; t < nthr; t++)
    for (int v : own[t]) held[t].push_back(minted[(size_t)v]);
  vrun::begin();
  run_threads(nthr, after, [&](size_t t) {
    for (auto& op : prog[t]) ids_op(al, held[t], op);
  });
  auto vals = do_for_each([&](auto&& cb) { al.for_each(cb); });
  vsched::eventf(false, "\"k\":\"final\",\"vals\":%s,\"end\":%ld", vals_json(vals).c_str(), (long)al.end());
  emit_dict((int)p.get("dv", 8), (int)p.get("dn", 16), int_list(p.str("db", "x")));
  vsched::finish();
}

// ================================================================================================
// scenario tid: ThreadId with real thread birth / death
// ================================================================================================
struct VerifTag {};
using TId = ::babylon::ThreadId;

void scenario_tid(const vrun::Params& p) {
  auto prog = parse_prog(p.str("prog", "al.de0"));
  size_t nthr = prog.size();
  auto after = int_lists(p.str("after", "x"), nthr);
  auto& al = ::babylon::internal::concurrent_id_allocator::IdAllocatorFotType<VerifTag, false>::instance();
  name_allocator(al, (uint16_t*)nullptr);
  vrun::begin();
  run_threads(nthr, after, [&](size_t t) {
    bool have = false;
    VersionedValue<uint16_t> mine {0};
    for (auto& op : prog[t]) {
      if (op.name == "al") {
        vsched::eventf(true, "\"k\":\"call\",\"op\":\"al\",\"n\":0,\"id\":-1,\"idh\":0");
        mine = TId::current_thread_id<VerifTag>();
        have = true;
        vsched::eventf(true, "\"k\":\"ret\",\"op\":\"al\",\"n\":0,\"id\":%ld,\"idh\":%ld", (long)mine.value, (long)mine.version);
      } else if (op.name == "fe") {
        vsched::eventf(true, "\"k\":\"call\",\"op\":\"fe\",\"n\":0,\"id\":-1,\"idh\":0");
        auto vals = do_for_each([&](auto&& cb) { TId::for_each<VerifTag>(cb); });
        vsched::eventf(true, "\"k\":\"ret\",\"op\":\"fe\",\"n\":0,\"id\":-1,\"idh\":0,\"vals\":%s", vals_json(vals).c_str());
      } else if (op.name == "de") {
        // thread exit: the thread_local's destructor deallocates after this function returned;
        // the return of the call is the scheduler's exit event of this thread
        if (!have) {
          vsched::eventf(true, "\"k\":\"call\",\"op\":\"de\",\"n\":0,\"id\":-1,\"idh\":0");
          vsched::eventf(true, "\"k\":\"ret\",\"op\":\"de\",\"n\":0,\"id\":-1,\"idh\":0");
          continue;
        }
        auto again = TId::current_thread_id<VerifTag>();
        vsched::eventf(true, "\"k\":\"call\",\"op\":\"de\",\"n\":0,\"id\":%ld,\"idh\":%ld,\"same\":%s", (long)mine.value, (long)mine.version,
                       again.version_and_value == mine.version_and_value ? "true" : "false");
        return;
      }
    }
  });
  auto vals = do_for_each([&](auto&& cb) { TId::for_each<VerifTag>(cb); });
  vsched::eventf(false, "\"k\":\"final\",\"vals\":%s,\"end\":%ld", vals_json(vals).c_str(), (long)TId::end<VerifTag>());
  vsched::finish();
}

// ================================================================================================
// scenario box: DepositBox<Item>
// ================================================================================================
struct Item {
  long v;
  explicit Item(long x) : v(x) {}
  ~Item() { v = -7; }
};
using Box = ::babylon::DepositBox<Item>;

struct BoxCtx {
  Box* box;
  std::vector<Id32> board; // value == UINT32_MAX: empty
  std::vector<bool> posted;
};

void box_op(BoxCtx& c, size_t t, int opi, std::vector<Id32>& held, const OpSpec& op) {
  Box& box = *c.box;
  if (op.name == "em") {
    long item = (long)(t + 1) * 100 + opi;
    vsched::eventf(true, "\"k\":\"call\",\"op\":\"em\",\"n\":%d,\"id\":-1,\"idh\":0,\"item\":%ld", op.n, item);
    Id32 id = box.emplace(item);
    long got = box.unsafe_get(id).v;
    vsched::eventf(true, "\"k\":\"ret\",\"op\":\"em\",\"n\":%d,\"id\":%ld,\"idh\":%ld,\"item\":%ld", op.n, (long)id.value, (long)id.version, got);
    if ((size_t)op.n < c.board.size()) {
      c.board[(size_t)op.n] = id; // posted atomically with the ret event (no schedule point in between)
      c.posted[(size_t)op.n] = true;
    }
  } else if (op.name == "tk" || op.name == "tr") {
    vsched::event("\"k\":\"sp\"", true); // schedule point; the board is read atomically with the call event
    bool have = (size_t)op.n < c.board.size() && c.posted[(size_t)op.n];
    if (!have) {
      vsched::eventf(false, "\"k\":\"call\",\"op\":\"%s\",\"n\":%d,\"id\":-1,\"idh\":0", op.name.c_str(), op.n);
      vsched::eventf(true, "\"k\":\"ret\",\"op\":\"%s\",\"n\":%d,\"id\":-1,\"idh\":0,\"res\":0,\"item\":0", op.name.c_str(), op.n);
      return;
    }
    Id32 id = c.board[(size_t)op.n];
    vsched::eventf(false, "\"k\":\"call\",\"op\":\"%s\",\"n\":%d,\"id\":%ld,\"idh\":%ld", op.name.c_str(), op.n, (long)id.value, (long)id.version);
    long item = 0;
    int res = 0;
    if (op.name == "tk") {
      auto acc = box.take(id);
      res = acc ? 1 : 0;
      if (acc) item = acc->v;
      vsched::eventf(true, "\"k\":\"got\",\"op\":\"tk\",\"n\":%d,\"id\":%ld,\"idh\":%ld,\"res\":%d,\"item\":%ld", op.n, (long)id.value, (long)id.version, res, item);
      // accessor goes out of scope: finish_released
    } else {
      Item* it = box.take_released(id);
      res = it ? 1 : 0;
      if (it) {
        item = it->v;
        held.push_back(id);
      }
      vsched::eventf(true, "\"k\":\"got\",\"op\":\"tr\",\"n\":%d,\"id\":%ld,\"idh\":%ld,\"res\":%d,\"item\":%ld", op.n, (long)id.value, (long)id.version, res, item);
    }
    vsched::eventf(true, "\"k\":\"ret\",\"op\":\"%s\",\"n\":%d,\"id\":%ld,\"idh\":%ld,\"res\":%d,\"item\":%ld", op.name.c_str(), op.n, (long)id.value, (long)id.version, res, item);
  } else if (op.name == "fr") {
    if ((size_t)op.n >= held.size()) {
      vsched::eventf(true, "\"k\":\"call\",\"op\":\"fr\",\"n\":%d,\"id\":-1,\"idh\":0", op.n);
      vsched::eventf(true, "\"k\":\"ret\",\"op\":\"fr\",\"n\":%d,\"id\":-1,\"idh\":0", op.n);
      return;
    }
    Id32 id = held[(size_t)op.n];
    held.erase(held.begin() + op.n);
    vsched::eventf(true, "\"k\":\"call\",\"op\":\"fr\",\"n\":%d,\"id\":%ld,\"idh\":%ld", op.n, (long)id.value, (long)id.version);
    box.finish_released(id);
    vsched::eventf(true, "\"k\":\"ret\",\"op\":\"fr\",\"n\":%d,\"id\":%ld,\"idh\":%ld", op.n, (long)id.value, (long)id.version);
  } else if (op.name == "adv") {
    do_adv(box._slot_id_allocator, op.n);
  } else if (op.name == "fe") {
    vsched::eventf(true, "\"k\":\"call\",\"op\":\"fe\",\"n\":0,\"id\":-1,\"idh\":0");
    auto vals = do_for_each([&](auto&& cb) { box._slot_id_allocator.for_each(cb); });
    vsched::eventf(true, "\"k\":\"ret\",\"op\":\"fe\",\"n\":0,\"id\":-1,\"idh\":0,\"vals\":%s", vals_json(vals).c_str());
  }
}

void scenario_box(const vrun::Params& p) {
  auto prog = parse_prog(p.str("prog", "em0"));
  size_t nthr = prog.size();
  int n = (int)p.get("n", 0);
  int nb = (int)p.get("nb", 4);
  auto fr = int_list(p.str("fr", "x"));
  auto after = int_lists(p.str("after", "x"), nthr);
  Box& box = Box::instance(); // fresh in every forked child
  name_allocator(box._slot_id_allocator, (uint32_t*)nullptr);
  vsched::name_loc(&box._slots._block_table, sizeof(box._slots._block_table), "stab");
  {
    auto& s0 = box._slots.ensure(0);
    auto& s1 = box._slots.ensure(1);
    vsched::name_array(&s0.version, (size_t)((char*)&s1 - (char*)&s0), 128, "sver");
  }
  BoxCtx c;
  c.box = &box;
  c.board.assign((size_t)std::max(nb, n), Id32 {UINT64_MAX});
  c.posted.assign(c.board.size(), false);
  // set-up (not logged): n items, item i posted at board slot i; the ones in fr taken and finished
  for (int i = 0; i < n; i++) {
    c.board[(size_t)i] = box.emplace((long)(900 + i));
    c.posted[(size_t)i] = true;
  }
  for (int v : fr) {
    box.take(c.board[(size_t)v]);
  }
  std::vector<std::vector<Id32>> held(nthr);
  vrun::begin();
  run_threads(nthr, after, [&](size_t t) {
    int opi = 0;
    for (auto& op : prog[t]) box_op(c, t, ++opi, held[t], op);
  });
  auto vals = do_for_each([&](auto&& cb) { box._slot_id_allocator.for_each(cb); });
  vsched::eventf(false, "\"k\":\"final\",\"vals\":%s,\"end\":%ld", vals_json(vals).c_str(), (long)box._slot_id_allocator.end());
  emit_dict((int)p.get("dv", 8), (int)p.get("dn", 16), int_list(p.str("db", "x")));
  vsched::finish();
}

struct Reg {
  Reg() {
    vrun::add("ids", scenario_ids, "n=2,fr=1.0,own=x,prog=al.al_al.al.de0,after=x,dv=8,dn=16");
    vrun::add("tid", scenario_tid, "prog=al.de0_al.de0,after=x");
    vrun::add("box", scenario_box, "n=1,fr=x,prog=tk0_tk0,after=x,nb=4,dv=8,dn=16");
  }
} reg;

} // namespace

int main(int argc, char** argv) {
  return vrun::main(argc, argv);
}
