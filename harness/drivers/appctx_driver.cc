// Driver for babylon::ApplicationContext (extra component X01).
// Registers components described by `regs` in a fresh ApplicationContext, lets the client threads of `prog`
// look components up (by type / by type + name) and use them through ComponentAccessor::get_or_create under
// vsched, then clears the context on the main thread.  Logged next to the interposed atomic operations
// (SingletonState word "st<c>", holder mutex "mx<c>", the sequence counter shows up as an unnamed faa):
//   call / ret     around component_accessor<T>(name).get_or_create()   (c = holder the real lookup produced, 0 = EMPTY)
//   ctor / ib / ie / dtor   component constructor, initialize() begin / end (ok), destructor  (user callbacks)
//   use / usev     the caller reads the payload of the instance it was given (v = value seen)
//   clear_call / clear_ret / final
//
// params:
//   regs = registrations separated by '_':  <ty><nm><s|f><0|1>{-<ty><nm>}
//          ty 1..4 type, nm 0 = no name | 1..3 = "a" "b" "c", s singleton / f factory holder, 1 = initialize() fails,
//          then the dependencies initialize() fetches with get_or_create (type, name) in order (first failure -> -1,
//          like BABYLON_AUTOWIRE)
//   prog = 'p' + threads separated by '_', operations by '.': <ty><nm> = get_or_create<Comp<ty>>(name nm), then use it
// component index c = position in regs (1-based); instance ids are handed out in construction order.
#include <babylon/application_context.h>

#include <memory>
#include <string>
#include <thread>
#include <vector>

#include "vrun.h"

namespace {

using ::babylon::Any;
using ::babylon::ApplicationContext;
using Holder0 = ApplicationContext::ComponentHolder;

constexpr int POISON = 99; // payload before initialize() completed
constexpr int GOOD = 7;
const char* const NAMES[] = {"", "a", "b", "c"};

struct RegSpec {
  int ty = 1, nm = 0;
  bool factory = false, fail = false;
  std::vector<std::pair<int, int>> deps;
};

std::vector<RegSpec> REGS;       // 1-based (REGS[0] unused)
std::vector<Holder0*> HOLDERS;   // c -> holder, 0 = the EMPTY holder
thread_local int tl_reg = 0;     // registration whose create_instance() is running on this thread
int g_next_inst = 1;             // plain: exactly one managed thread runs at a time
int g_alive = 0;

int holder_index(Holder0* h) {
  for (size_t i = 0; i < HOLDERS.size(); i++)
    if (HOLDERS[i] == h) return (int)i;
  return -1;
}

int do_get(ApplicationContext& ctx, int ty, int nm);

struct Base {
  int reg = 0, inst = 0;
  volatile int payload = POISON;
};

template <int TY>
struct Comp : Base {
  Comp() {
    reg = tl_reg;
    inst = g_next_inst++;
    g_alive++;
    int st = (int)HOLDERS[(size_t)reg]->_singleton_state; // plain read by the thread that owns the holder's lock
    vsched::eventf(true, "\"k\":\"ctor\",\"c\":%d,\"inst\":%d,\"st\":%d", reg, inst, st);
    payload = POISON;
  }
  ~Comp() {
    g_alive--;
    vsched::eventf(true, "\"k\":\"dtor\",\"c\":%d,\"inst\":%d", reg, inst);
    payload = POISON;
  }
  int initialize(ApplicationContext& ctx) {
    vsched::eventf(true, "\"k\":\"ib\",\"c\":%d,\"inst\":%d", reg, inst);
    bool ok = true;
    for (auto& d : REGS[(size_t)reg].deps) {
      if (do_get(ctx, d.first, d.second) == 0) {
        ok = false;
        break;
      }
    }
    if (REGS[(size_t)reg].fail) ok = false;
    vsched::eventf(true, "\"k\":\"ie\",\"c\":%d,\"inst\":%d,\"ok\":%s", reg, inst, ok ? "true" : "false");
    if (ok) payload = GOOD;
    return ok ? 0 : -1;
  }
};

// the documented extension point: a ComponentHolder subclass that only tells the component which registration it
// belongs to; creation itself is DefaultComponentHolder's
template <int TY>
struct Holder : ApplicationContext::DefaultComponentHolder<Comp<TY>> {
  int reg;
  Holder(int r, bool factory) : reg(r) {
    if (factory) this->set_support_singleton(false);
  }
  Any create_instance() noexcept override {
    tl_reg = reg;
    return ApplicationContext::DefaultComponentHolder<Comp<TY>>::create_instance();
  }
};

template <int TY>
int get_typed(ApplicationContext& ctx, int nm) {
  auto acc = nm == 0 ? ctx.component_accessor<Comp<TY>>() : ctx.component_accessor<Comp<TY>>(NAMES[nm]);
  int c = holder_index(acc._holder);
  vsched::eventf(true, "\"k\":\"call\",\"ty\":%d,\"nm\":%d,\"c\":%d", TY, nm, c);
  auto sc = acc.get_or_create();
  Comp<TY>* p = sc.get();
  int res = p ? p->inst : 0;
  vsched::eventf(true, "\"k\":\"ret\",\"ty\":%d,\"nm\":%d,\"c\":%d,\"res\":%d", TY, nm, c, res);
  if (p) {
    vsched::eventf(true, "\"k\":\"use\",\"inst\":%d", res);
    int v = p->payload; // the caller uses what it was given
    vsched::eventf(false, "\"k\":\"usev\",\"inst\":%d,\"v\":%d", res, v);
  }
  return res; // a factory instance is destroyed here (ScopedComponent), a singleton stays
}

int do_get(ApplicationContext& ctx, int ty, int nm) {
  switch (ty) {
    case 1: return get_typed<1>(ctx, nm);
    case 2: return get_typed<2>(ctx, nm);
    case 3: return get_typed<3>(ctx, nm);
    default: return get_typed<4>(ctx, nm);
  }
}

std::unique_ptr<Holder0> make_holder(int ty, int reg, bool factory) {
  switch (ty) {
    case 1: return std::unique_ptr<Holder0>(new Holder<1>(reg, factory));
    case 2: return std::unique_ptr<Holder0>(new Holder<2>(reg, factory));
    case 3: return std::unique_ptr<Holder0>(new Holder<3>(reg, factory));
    default: return std::unique_ptr<Holder0>(new Holder<4>(reg, factory));
  }
}

std::vector<std::string> split(const std::string& s, char sep) {
  std::vector<std::string> out;
  size_t i = 0;
  while (i <= s.size()) {
    size_t j = s.find(sep, i);
    if (j == std::string::npos) j = s.size();
    out.push_back(s.substr(i, j - i));
    i = j + 1;
  }
  return out;
}

void scenario_appctx(const vrun::Params& p) {
  REGS.assign(1, RegSpec());
  for (auto& r : split(p.str("regs", "10s0"), '_')) {
    if (r.size() < 4) continue;
    RegSpec rs;
    rs.ty = r[0] - '0';
    rs.nm = r[1] - '0';
    rs.factory = r[2] == 'f';
    rs.fail = r[3] == '1';
    auto parts = split(r, '-');
    for (size_t i = 1; i < parts.size(); i++)
      if (parts[i].size() >= 2) rs.deps.emplace_back(parts[i][0] - '0', parts[i][1] - '0');
    REGS.push_back(rs);
  }
  std::vector<std::vector<std::pair<int, int>>> prog;
  {
    std::string ps = p.str("prog", "p10");
    if (!ps.empty() && ps[0] == 'p') ps = ps.substr(1);
    for (auto& th : split(ps, '_')) {
      prog.emplace_back();
      for (auto& op : split(th, '.'))
        if (op.size() >= 2) prog.back().emplace_back(op[0] - '0', op[1] - '0');
    }
  }
  // nothing of the logging machinery takes part: WARNING lines of failed creations are switched off
  ::babylon::LoggerManager::instance().get_root_logger()._min_severity = ::babylon::LogSeverity(::babylon::LogSeverity::NUM);

  ApplicationContext ctx;
  HOLDERS.assign(1, &ApplicationContext::EMPTY_COMPONENT_HOLDER);
  for (size_t r = 1; r < REGS.size(); r++) {
    auto h = make_holder(REGS[r].ty, (int)r, REGS[r].factory);
    HOLDERS.push_back(h.get());
    if (REGS[r].nm == 0) ctx.register_component(std::move(h));
    else ctx.register_component(std::move(h), NAMES[REGS[r].nm]);
  }
  static std::vector<std::string> names;
  names.clear();
  names.reserve(2 * HOLDERS.size());
  for (size_t c = 0; c < HOLDERS.size(); c++) {
    names.push_back("st" + std::to_string(c));
    vsched::name_loc(&HOLDERS[c]->_singleton_state, sizeof(HOLDERS[c]->_singleton_state), names.back().c_str());
    names.push_back("mx" + std::to_string(c));
    vsched::name_loc(HOLDERS[c]->_mutex.get(), sizeof(std::recursive_mutex), names.back().c_str());
  }
  vrun::begin();
  {
    std::vector<std::thread> ths;
    for (size_t t = 0; t < prog.size(); t++) {
      ths.emplace_back([&, t] {
        for (auto& op : prog[t]) do_get(ctx, op.first, op.second);
      });
    }
    for (auto& th : ths) th.join();
  }
  vsched::eventf(true, "\"k\":\"clear_call\"");
  ctx.clear();
  vsched::eventf(true, "\"k\":\"clear_ret\"");
  // after clear the context is empty: nothing is found any more
  int found = 0;
  for (size_t r = 1; r < REGS.size(); r++) {
    switch (REGS[r].ty) {
      case 1: found += (bool)ctx.component_accessor<Comp<1>>() + (bool)ctx.component_accessor<Comp<1>>(NAMES[REGS[r].nm]); break;
      case 2: found += (bool)ctx.component_accessor<Comp<2>>() + (bool)ctx.component_accessor<Comp<2>>(NAMES[REGS[r].nm]); break;
      case 3: found += (bool)ctx.component_accessor<Comp<3>>() + (bool)ctx.component_accessor<Comp<3>>(NAMES[REGS[r].nm]); break;
      default: found += (bool)ctx.component_accessor<Comp<4>>() + (bool)ctx.component_accessor<Comp<4>>(NAMES[REGS[r].nm]); break;
    }
  }
  vsched::eventf(false, "\"k\":\"final\",\"alive\":%d,\"found\":%d", g_alive, found);
  vsched::finish();
}

struct Reg {
  Reg() { vrun::add("appctx", scenario_appctx, "regs=10s0,prog=p10_10"); }
} reg;

} // namespace

int main(int argc, char** argv) {
  return vrun::main(argc, argv);
}
