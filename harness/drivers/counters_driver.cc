// Driver for property C19 (counters / enumerable thread-locals).
//
// scenario "hist": executes an API HISTORY on the real classes with real threads (real thread_local):
//   threads are created / joined by script, counters constructed / destroyed / moved by script, every
//   call is logged with its result.  The scheduler is not started: each call runs to completion on the
//   thread the history names (the main thread hands it over and waits).
//   param h: tokens separated by '.', fields by ':'
//     S<t> start thread t      X<t> thread t exits (joined)
//     C<o> construct counter in place o     D<o> destroy     M<a>:<b> a = std::move(b)    N<a>:<b> new (a) T(std::move(b))
//     K<t>:<o>:<v> thread t: counter << v   L<t>:<o> thread t: local()
//     V<o> value()   R<o> reset()   F<o> for_each   A<o> for_each_alive (const overload)   B<o> for_each_alive (non-const overload)
//   param kind: adder | summer | maxer | miner | cetl | etl ;  param ext: |v| == ext means the type's extreme
//
// scenario "tear": maxer / miner.  A thread records `old`, the period is reset, the thread records `nw` while it is
//   single-stepped (x86 trap flag): after every instruction that changed its slot a reader THREAD calls value() -
//   i.e. the counting thread is pre-empted between its plain stores.  Logged like "conc" (call / ret events).
//
// scenario "dtor" (vsched): nw threads count into counter X and exit; then thread A destroys X WHILE thread B constructs
//   counter Y of the same type, reads it, counts `prog` into it and reads it again; at quiescence Y is read (final) and
//   a third counter Z is constructed and read (fresh).  Only Y's calls are logged as call / ret (the monitor judges Y).
//
// scenario "conc": counting threads and a reader under vsched; call / ret events are schedule points.
//   param prog: per-thread value lists ('_' between threads, '.' between values), pre: values a thread
//   counts and exits before (dead thread whose slot is re-used), nr: number of value() calls of the reader
#include <babylon/concurrent/counter.h>
#include <babylon/concurrent/thread_local.h>

#include <signal.h>
#include <ucontext.h>
#include <unistd.h>

#include <atomic>
#include <climits>
#include <cstring>
#include <limits>
#include <condition_variable>
#include <functional>
#include <map>
#include <memory>
#include <mutex>
#include <string>
#include <thread>
#include <vector>

#include "vrun.h"

namespace {

using ::babylon::CompactEnumerableThreadLocal;
using ::babylon::EnumerableThreadLocal;

struct Cell32 { // trivial, half a cache line: two instances share one line, the third starts the next storage
  long v;
  char pad[BABYLON_CACHELINE_SIZE / 2 - sizeof(long)];
};

struct Obs {
  long r1 = 0, r2 = 0, v0 = 0;
  bool has = true;
};
struct CellObs {
  long slot;
  long a, b;
  bool cur;
};

struct Family {
  virtual ~Family() {}
  virtual long npl() = 0;
  virtual bool movable() = 0;
  virtual bool resettable() = 0;
  virtual void create(int o) = 0;
  virtual void destroy(int o) = 0;
  virtual void move(int a, int b) = 0;
  virtual void mctor(int a, int b) = 0;
  virtual void count(int o, long v) = 0;
  virtual const void* local(int o) = 0;
  virtual long tid() = 0; // only called after local() happened on this thread
  virtual Obs value(int o) = 0;
  // ONE call of the API: form 0 = value(T&) / value(), form 1 = the argument-less value() of maxer / miner
  virtual Obs value1(int o, int form) { (void)form; return value(o); }
  virtual void reset(int o) = 0;
  virtual std::vector<CellObs> foreach(int o, int mode) = 0; // 0 for_each, 1 for_each_alive const, 2 for_each_alive non-const
  virtual void ident(int o, long& iid, long& off, long& sidx) = 0;
};

constexpr int kPlaces = 8;

template <typename T>
struct Places {
  alignas(64) unsigned char buf[kPlaces][(sizeof(T) + 63) / 64 * 64];
  bool live[kPlaces] = {};
  T& at(int o) { return *reinterpret_cast<T*>(buf[o]); }
};

// ---- counters built on CompactEnumerableThreadLocal -------------------------------------------------
struct AdderTr {
  using C = ::babylon::ConcurrentAdder;
  static constexpr bool kMovable = true, kReset = true;
  static auto& st(C& c) { return c._storage; }
  static void count(C& c, long v) { c << v; }
  static Obs value(C& c) {
    Obs r;
    r.r1 = c.value();
    r.v0 = r.r1;
    return r;
  }
  static void reset(C& c) { c.reset(); }
  template <typename E>
  static CellObs cell(C&, const E& e) { return {0, (long)e, 0, false}; }
};
struct SummerTr {
  using C = ::babylon::ConcurrentSummer;
  static constexpr bool kMovable = false, kReset = false;
  static auto& st(C& c) { return c._storage; }
  static void count(C& c, long v) { c << (ssize_t)v; }
  static Obs value(C& c) {
    Obs r;
    auto s = c.value();
    r.r1 = s.sum;
    r.r2 = (long)s.num;
    r.v0 = r.r1;
    return r;
  }
  static void reset(C&) {}
  template <typename E>
  static CellObs cell(C&, const E& e) { return {0, (long)e.sum, (long)e.num, false}; }
};
template <typename Cmp>
struct CmpTr {
  using C = Cmp;
  static constexpr bool kMovable = false, kReset = true;
  static auto& st(C& c) { return c._storage; }
  static void count(C& c, long v) { c << (ssize_t)v; }
  static Obs value(C& c) {
    Obs r;
    ssize_t x = 0;
    r.has = c.value(x);
    r.r1 = r.has ? (long)x : 0;
    r.v0 = (long)c.value();
    return r;
  }
  static Obs value1(C& c, int form) {
    Obs r;
    if (form == 0) {
      ssize_t x = 0;
      r.has = c.value(x);
      r.r1 = r.has ? (long)x : 0;
      r.v0 = r.r1;
    } else {
      r.v0 = (long)c.value();
      r.r1 = r.v0;
    }
    return r;
  }
  static void reset(C& c) { c.reset(); }
  template <typename E>
  static CellObs cell(C& c, const E& e) {
    bool cur = e.version == c._version;
    return {0, cur ? (long)e.value : 0, cur ? 1 : 0, cur};
  }
};
struct CetlTr {
  using C = CompactEnumerableThreadLocal<Cell32, 1, false>;
  static constexpr bool kMovable = true, kReset = true;
  static auto& st(C& c) { return c; }
  static void count(C& c, long v) {
    auto& l = c.local();
    l.v = l.v + v;
  }
  static Obs value(C& c) {
    Obs r;
    const C& cc = c;
    cc.for_each([&](const Cell32& e) { r.r1 += e.v; });
    r.v0 = r.r1;
    return r;
  }
  static void reset(C& c) {
    c.for_each([&](Cell32& e) { e.v = 0; });
  }
  template <typename E>
  static CellObs cell(C&, const E& e) { return {0, e.v, 0, false}; }
};

template <typename Tr>
struct CompactFamily : Family {
  using C = typename Tr::C;
  using S = typename std::remove_reference<decltype(Tr::st(*(C*)nullptr))>::type;
  using Line = typename S::CacheLine;
  using Etl = typename S::Storage;
  Places<C> pl;

  long npl() override { return (long)S::NUM_PER_CACHELINE; }
  bool movable() override { return Tr::kMovable; }
  bool resettable() override { return Tr::kReset; }
  void create(int o) override { new (pl.buf[o]) C(); }
  void destroy(int o) override { pl.at(o).~C(); }
  void move(int a, int b) override {
    if constexpr (Tr::kMovable) pl.at(a) = std::move(pl.at(b));
  }
  void mctor(int a, int b) override {
    if constexpr (Tr::kMovable) new (pl.buf[a]) C(std::move(pl.at(b)));
  }
  void count(int o, long v) override { Tr::count(pl.at(o), v); }
  const void* local(int o) override { return &Tr::st(pl.at(o)).local(); }
  long tid() override { return (long)Etl::ThreadIdType::template current_thread_id<Line>().value; }
  Obs value(int o) override { return Tr::value(pl.at(o)); }
  Obs value1(int o, int form) override {
    if constexpr (requires(C& c) { Tr::value1(c, 0); }) return Tr::value1(pl.at(o), form);
    else return Tr::value(pl.at(o));
  }
  void reset(int o) override { Tr::reset(pl.at(o)); }
  void ident(int o, long& iid, long& off, long& sidx) override {
    S& s = Tr::st(pl.at(o));
    iid = (long)s._instance_id;
    off = (long)s._cacheline_offset;
    sidx = iid / (long)S::NUM_PER_CACHELINE;
  }
  std::vector<CellObs> foreach(int o, int mode) override {
    C& c = pl.at(o);
    S& ncs = Tr::st(c);
    const S& s = ncs;
    std::vector<CellObs> out;
    const Etl& etl = *s._storage;
    auto snap = etl._storage.snapshot();
    size_t n = snap.size();
    auto cb = [&](const auto& e) {
      CellObs co = Tr::cell(c, e);
      co.slot = -1;
      for (size_t i = 0; i < n; i++) {
        if ((const void*)&snap[i].value[s._cacheline_offset] == (const void*)&e) co.slot = (long)i;
      }
      out.push_back(co);
    };
    if (mode == 2) ncs.for_each_alive([&](auto& e) { cb(e); });
    else if (mode == 1) s.for_each_alive(cb);
    else s.for_each(cb);
    return out;
  }
};

// ---- a bare EnumerableThreadLocal used adder-like ------------------------------------------------------
struct EtlFamily : Family {
  using C = EnumerableThreadLocal<long, false>;
  Places<C> pl;
  long npl() override { return 1; }
  bool movable() override { return true; }
  bool resettable() override { return true; }
  void create(int o) override { new (pl.buf[o]) C(); }
  void destroy(int o) override { pl.at(o).~C(); }
  void move(int a, int b) override { pl.at(a) = std::move(pl.at(b)); }
  void mctor(int a, int b) override { new (pl.buf[a]) C(std::move(pl.at(b))); }
  void count(int o, long v) override {
    long& l = pl.at(o).local();
    l = l + v;
  }
  const void* local(int o) override { return &pl.at(o).local(); }
  long tid() override { return (long)::babylon::ThreadId::current_thread_id<long>().value; }
  Obs value(int o) override {
    Obs r;
    const C& c = pl.at(o);
    c.for_each([&](const long* it, const long* end) {
      for (; it != end; ++it) r.r1 += *it;
    });
    r.v0 = r.r1;
    return r;
  }
  void reset(int o) override {
    pl.at(o).for_each([&](long* it, long* end) {
      for (; it != end; ++it) *it = 0;
    });
  }
  void ident(int, long& iid, long& off, long& sidx) override { iid = off = sidx = -1; }
  std::vector<CellObs> foreach(int o, int mode) override {
    const C& c = pl.at(o);
    std::vector<CellObs> out;
    auto snap = c._storage.snapshot();
    size_t n = snap.size();
    auto cb = [&](const long* it, const long* end) {
      for (; it != end; ++it) {
        CellObs co {-1, *it, 0, false};
        for (size_t i = 0; i < n; i++)
          if (&snap[i] == it) co.slot = (long)i;
        out.push_back(co);
      }
    };
    if (mode == 2) pl.at(o).for_each_alive([&](long* it, long* end) { cb(it, end); });
    else if (mode == 1) c.for_each_alive(cb);
    else c.for_each(cb);
    return out;
  }
};

std::unique_ptr<Family> make_family(const std::string& kind) {
  if (kind == "adder") return std::unique_ptr<Family>(new CompactFamily<AdderTr>());
  if (kind == "summer") return std::unique_ptr<Family>(new CompactFamily<SummerTr>());
  if (kind == "maxer") return std::unique_ptr<Family>(new CompactFamily<CmpTr<::babylon::ConcurrentMaxer>>());
  if (kind == "miner") return std::unique_ptr<Family>(new CompactFamily<CmpTr<::babylon::ConcurrentMiner>>());
  if (kind == "cetl") return std::unique_ptr<Family>(new CompactFamily<CetlTr>());
  if (kind == "etl") return std::unique_ptr<Family>(new EtlFamily());
  return nullptr;
}

// ---- logging straight to the trace pipe (fd 3) so that a crash keeps the prefix -----------------------
void out_line(const std::string& s) {
  std::string l = "{" + s + "}\n";
  (void)!::write(3, l.data(), l.size());
}
std::string kv(const char* k, long v) { return std::string("\"") + k + "\":" + std::to_string(v); }
std::string ks(const char* k, const std::string& v) { return std::string("\"") + k + "\":\"" + v + "\""; }
std::string kb(const char* k, bool v) { return std::string("\"") + k + "\":" + (v ? "true" : "false"); }
std::string obs_json(const Obs& r) { return kv("r1", r.r1) + "," + kv("r2", r.r2) + "," + kb("has", r.has) + "," + kv("v0", r.v0); }

long expand(const std::string& kind, long v, long ext) {
  if ((kind == "maxer" || kind == "miner") && ext > 0) {
    if (v == ext) return std::numeric_limits<ssize_t>::max();
    if (v == -ext) return std::numeric_limits<ssize_t>::min();
  }
  return v;
}

// ---- a worker thread that executes what the main thread hands over ------------------------------------
struct Worker {
  std::mutex m;
  std::condition_variable cv;
  std::function<void()> job;
  bool has = false, done = false, quit = false;
  std::thread th;
  void loop() {
    std::unique_lock<std::mutex> lk(m);
    for (;;) {
      cv.wait(lk, [&] { return has || quit; });
      if (has) {
        job();
        has = false;
        done = true;
        cv.notify_all();
      } else if (quit) return;
    }
  }
  void run(std::function<void()> f) {
    std::unique_lock<std::mutex> lk(m);
    job = std::move(f);
    has = true;
    done = false;
    cv.notify_all();
    cv.wait(lk, [&] { return done; });
  }
  void stop() {
    {
      std::unique_lock<std::mutex> lk(m);
      quit = true;
      cv.notify_all();
    }
    th.join();
  }
};

std::vector<std::string> split(const std::string& s, char sep) {
  std::vector<std::string> v;
  size_t i = 0;
  while (i <= s.size()) {
    size_t j = s.find(sep, i);
    if (j == std::string::npos) j = s.size();
    if (j > i) v.push_back(s.substr(i, j - i));
    i = j + 1;
  }
  return v;
}

void bad_history(const std::string& why) {
  out_line(ks("k", "end") + "," + ks("status", "bad_history") + "," + ks("why", why));
  _exit(0);
}

void scenario_hist(const vrun::Params& p) {
  std::string kind = p.str("kind", "adder");
  long ext = p.get("ext", 3);
  auto fam = make_family(kind);
  if (!fam) bad_history("kind");
  out_line(ks("k", "info") + "," + kv("npl", fam->npl()));
  std::map<int, std::unique_ptr<Worker>> workers;
  std::map<const void*, long> addr_ids;
  bool live[kPlaces] = {};
  auto addr_id = [&](const void* a) {
    auto it = addr_ids.find(a);
    if (it != addr_ids.end()) return it->second;
    long id = (long)addr_ids.size() + 1;
    addr_ids[a] = id;
    return id;
  };
  for (auto& tok : split(p.str("h", ""), '.')) {
    char op = tok[0];
    std::vector<long> f;
    for (auto& x : split(tok.substr(1), ':')) f.push_back(atol(x.c_str()));
    auto need = [&](size_t n) {
      if (f.size() != n) bad_history(tok);
    };
    auto place = [&](long o, bool want_live) {
      if (o < 1 || o >= kPlaces || live[o] != want_live) bad_history(tok);
      return (int)o;
    };
    auto worker = [&](long t) -> Worker& {
      auto it = workers.find((int)t);
      if (it == workers.end()) bad_history(tok);
      return *it->second;
    };
    switch (op) {
      case 'S': {
        need(1);
        if (workers.count((int)f[0])) bad_history(tok);
        auto w = std::unique_ptr<Worker>(new Worker());
        Worker* wp = w.get();
        w->th = std::thread([wp] { wp->loop(); });
        workers[(int)f[0]] = std::move(w);
        out_line(ks("k", "start") + "," + kv("t", f[0]));
        break;
      }
      case 'X': {
        need(1);
        worker(f[0]).stop();
        workers.erase((int)f[0]);
        out_line(ks("k", "exit") + "," + kv("t", f[0]));
        break;
      }
      case 'C': {
        need(1);
        int o = place(f[0], false);
        fam->create(o);
        live[o] = true;
        long iid, off, sidx;
        fam->ident(o, iid, off, sidx);
        out_line(ks("k", "create") + "," + kv("o", o) + "," + kv("iid", iid) + "," + kv("off", off) + "," + kv("sidx", sidx) + "," + obs_json(fam->value(o)));
        break;
      }
      case 'D': {
        need(1);
        int o = place(f[0], true);
        fam->destroy(o);
        live[o] = false;
        out_line(ks("k", "destroy") + "," + kv("o", o));
        break;
      }
      case 'M': {
        need(2);
        int a = place(f[0], true), b = place(f[1], true);
        if (!fam->movable() || a == b) bad_history(tok);
        fam->move(a, b);
        out_line(ks("k", "move") + "," + kv("o", a) + "," + kv("p", b));
        break;
      }
      case 'N': {
        need(2);
        int a = place(f[0], false), b = place(f[1], true);
        if (!fam->movable()) bad_history(tok);
        fam->mctor(a, b);
        live[a] = true;
        out_line(ks("k", "mctor") + "," + kv("o", a) + "," + kv("p", b));
        break;
      }
      case 'K': {
        need(3);
        int o = place(f[1], true);
        long v = expand(kind, f[2], ext);
        long tid = -1;
        const void* a = nullptr;
        worker(f[0]).run([&] {
          fam->count(o, v);
          tid = fam->tid();
          a = fam->local(o);
        });
        out_line(ks("k", "count") + "," + kv("t", f[0]) + "," + kv("o", o) + "," + kv("v", v) + "," + kv("tid", tid) + "," + kv("addr", addr_id(a)));
        break;
      }
      case 'L': {
        need(2);
        int o = place(f[1], true);
        long tid = -1;
        const void* a = nullptr;
        worker(f[0]).run([&] {
          a = fam->local(o);
          tid = fam->tid();
        });
        out_line(ks("k", "local") + "," + kv("t", f[0]) + "," + kv("o", o) + "," + kv("tid", tid) + "," + kv("addr", addr_id(a)));
        break;
      }
      case 'V': {
        need(1);
        int o = place(f[0], true);
        out_line(ks("k", "value") + "," + kv("o", o) + "," + obs_json(fam->value(o)));
        break;
      }
      case 'R': {
        need(1);
        int o = place(f[0], true);
        if (!fam->resettable()) bad_history(tok);
        fam->reset(o);
        out_line(ks("k", "creset") + "," + kv("o", o));
        break;
      }
      case 'F':
      case 'A':
      case 'B': {
        need(1);
        int o = place(f[0], true);
        auto cells = fam->foreach(o, op == 'F' ? 0 : op == 'A' ? 1 : 2);
        std::string s = "[";
        for (size_t i = 0; i < cells.size(); i++) {
          s += std::string(i ? "," : "") + "{" + kv("s", cells[i].slot) + "," + kv("a", cells[i].a) + "," + kv("b", cells[i].b) + "," + kb("cur", cells[i].cur) + "}";
        }
        s += "]";
        out_line(ks("k", op == 'F' ? "foreach" : op == 'A' ? "foreach_alive" : "foreach_alive_nc") + "," + kv("o", o) + ",\"cells\":" + s);
        break;
      }
      default: bad_history(tok);
    }
  }
  for (auto& w : workers) w.second->stop();
  workers.clear();
  out_line(ks("k", "end") + "," + ks("status", "ok"));
  _exit(0); // the counters left alive are not destroyed (as a program that exits would)
}

// ---- counting threads and a reader under vsched -----------------------------------------------------------
void scenario_conc(const vrun::Params& p) {
  std::string kind = p.str("kind", "adder");
  long ext = p.get("ext", 3);
  auto fam = make_family(kind);
  if (!fam) return;
  std::vector<std::vector<long>> prog;
  for (auto& th : split(p.str("prog", "1.1_1"), '_')) {
    prog.emplace_back();
    for (auto& x : split(th, '.')) prog.back().push_back(expand(kind, atol(x.c_str()), ext));
  }
  std::vector<long> pre;
  for (auto& x : split(p.str("pre", ""), '.')) pre.push_back(expand(kind, atol(x.c_str()), ext));
  long nr = p.get("nr", 2);
  fam->create(1);
  vrun::begin();
  if (!pre.empty()) {
    std::thread t([&] {
      for (long v : pre) {
        vsched::eventf(true, "\"k\":\"call\",\"op\":\"count\",\"v\":%ld", v);
        fam->count(1, v);
        vsched::eventf(true, "\"k\":\"ret\",\"op\":\"count\",\"v\":%ld", v);
      }
    });
    t.join();
  }
  {
    std::vector<std::thread> ths;
    for (size_t i = 0; i < prog.size(); i++) {
      ths.emplace_back([&, i] {
        for (long v : prog[i]) {
          vsched::eventf(true, "\"k\":\"call\",\"op\":\"count\",\"v\":%ld", v);
          fam->count(1, v);
          vsched::eventf(true, "\"k\":\"ret\",\"op\":\"count\",\"v\":%ld", v);
        }
      });
    }
    ths.emplace_back([&] {
      for (long i = 0; i < nr; i++) {
        vsched::eventf(true, "\"k\":\"call\",\"op\":\"value\",\"v\":0");
        Obs r = fam->value1(1, (int)(i % 2));
        vsched::eventf(true, "\"k\":\"ret\",\"op\":\"value\",\"form\":%d,%s", (int)(i % 2), obs_json(r).c_str());
      }
    });
    for (auto& t : ths) t.join();
  }
  {
    Obs r = fam->value(1);
    vsched::eventf(false, "\"k\":\"final\",%s", obs_json(r).c_str());
  }
  vsched::finish();
}

// ---- a counting thread pre-empted between two plain stores (single-stepping) ---------------------------------
#if defined(__x86_64__)
struct Tear {
  std::atomic<long> req {0}, ack {0};
  volatile bool armed = false;
  const volatile long* w0 = nullptr; // the two words of the thread's slot
  const volatile long* w1 = nullptr;
  long l0 = 0, l1 = 0;
  long stops = 0;
} g_tear;

void tear_trap(int, siginfo_t*, void* ucv) {
  ucontext_t* uc = (ucontext_t*)ucv;
  if (!g_tear.armed) {
    uc->uc_mcontext.gregs[REG_EFL] &= ~0x100L; // stop single-stepping
    return;
  }
  long a = *g_tear.w0, b = *g_tear.w1;
  if (a != g_tear.l0 || b != g_tear.l1) { // the instruction just executed stored into the slot
    g_tear.l0 = a;
    g_tear.l1 = b;
    g_tear.stops++;
    long r = g_tear.req.fetch_add(1, std::memory_order_acq_rel) + 1;
    while (g_tear.ack.load(std::memory_order_acquire) != r) {} // the reader thread runs value() now
  }
}

void scenario_tear(const vrun::Params& p) {
  std::string kind = p.str("kind", "maxer");
  long ext = p.get("ext", 3);
  long oldv = expand(kind, p.get("old", 2), ext), nwv = expand(kind, p.get("nw", 1), ext);
  auto fam = make_family(kind);
  if (!fam || (kind != "maxer" && kind != "miner")) bad_history("kind");
  fam->create(1);
  struct sigaction sa;
  memset(&sa, 0, sizeof sa);
  sa.sa_sigaction = tear_trap;
  sa.sa_flags = SA_SIGINFO;
  sigaction(SIGTRAP, &sa, nullptr);
  std::atomic<bool> stop {false};
  std::thread reader([&] {
    long served = 0;
    for (;;) {
      long r = g_tear.req.load(std::memory_order_acquire);
      if (r == served) {
        if (stop.load()) return;
        continue;
      }
      out_line("\"t\":2," + ks("k", "call") + "," + ks("op", "value") + "," + kv("v", 0));
      Obs o = fam->value1(1, 0);
      out_line("\"t\":2," + ks("k", "ret") + "," + ks("op", "value") + "," + kv("form", 0) + "," + obs_json(o));
      served = r;
      g_tear.ack.store(r, std::memory_order_release);
    }
  });
  std::thread writer([&] {
    out_line("\"t\":1," + ks("k", "call") + "," + ks("op", "count") + "," + kv("v", oldv));
    fam->count(1, oldv);
    out_line("\"t\":1," + ks("k", "ret") + "," + ks("op", "count") + "," + kv("v", oldv));
    fam->reset(1);
    out_line("\"t\":1," + ks("k", "creset"));
    const long* slot = (const long*)fam->local(1);
    g_tear.w0 = slot;
    g_tear.w1 = slot + 1;
    g_tear.l0 = slot[0];
    g_tear.l1 = slot[1];
    out_line("\"t\":1," + ks("k", "call") + "," + ks("op", "count") + "," + kv("v", nwv));
    g_tear.armed = true;
    asm volatile("pushfq\n\torq $0x100, (%%rsp)\n\tpopfq" ::: "memory", "cc");
    fam->count(1, nwv);
    g_tear.armed = false; // the next trap clears the flag
    asm volatile("nop\n\tnop" ::: "memory");
    out_line("\"t\":1," + ks("k", "ret") + "," + ks("op", "count") + "," + kv("v", nwv));
  });
  writer.join();
  stop = true;
  reader.join();
  out_line("\"t\":0," + ks("k", "info") + "," + kv("stops", g_tear.stops));
  out_line("\"t\":0," + ks("k", "final") + "," + obs_json(fam->value1(1, 0)));
  out_line(ks("k", "end") + "," + ks("status", "ok"));
  _exit(0);
}
#else
void scenario_tear(const vrun::Params&) {
  out_line(ks("k", "end") + "," + ks("status", "unsupported"));
  _exit(0);
}
#endif

// ---- destruction of one counter concurrent with construction / counting of another (vsched) ------------------
void scenario_dtor(const vrun::Params& p) {
  std::string kind = p.str("kind", "adder");
  long ext = p.get("ext", 3);
  auto fam = make_family(kind);
  if (!fam) return;
  long nw = p.get("nw", 2);
  std::vector<long> prog;
  for (auto& x : split(p.str("prog", "2.1"), '.')) prog.push_back(expand(kind, atol(x.c_str()), ext));
  fam->create(1);
  vrun::begin();
  for (long i = 0; i < nw; i++) { // the slots the destructor will walk over (their threads are dead by then)
    std::thread t([&] { fam->count(1, expand(kind, 2, ext)); });
    t.join();
  }
  {
    std::thread a([&] {
      vsched::eventf(true, "\"k\":\"dcall\"");
      fam->destroy(1);
      vsched::eventf(true, "\"k\":\"dret\"");
    });
    std::thread b([&] {
      fam->create(2);
      for (size_t i = 0; i <= prog.size(); i++) {
        vsched::eventf(true, "\"k\":\"call\",\"op\":\"value\",\"v\":0");
        Obs r = fam->value1(2, 0);
        vsched::eventf(true, "\"k\":\"ret\",\"op\":\"value\",\"form\":0,%s", obs_json(r).c_str());
        if (i == prog.size()) break;
        vsched::eventf(true, "\"k\":\"call\",\"op\":\"count\",\"v\":%ld", prog[i]);
        fam->count(2, prog[i]);
        vsched::eventf(true, "\"k\":\"ret\",\"op\":\"count\",\"v\":%ld", prog[i]);
      }
    });
    a.join();
    b.join();
  }
  vsched::eventf(false, "\"k\":\"final\",%s", obs_json(fam->value1(2, 0)).c_str());
  fam->create(3);
  vsched::eventf(false, "\"k\":\"fresh\",%s", obs_json(fam->value1(3, 0)).c_str());
  vsched::finish();
}

struct Reg {
  Reg() {
    vrun::add("hist", scenario_hist, "kind=adder,ext=3,h=S1.C1.K1:1:1.V1");
    vrun::add("tear", scenario_tear, "kind=maxer,ext=3,old=2,nw=1");
    vrun::add("dtor", scenario_dtor, "kind=adder,ext=3,nw=2,prog=2.1");
    vrun::add("conc", scenario_conc, "kind=adder,ext=3,prog=1.1_1,pre=,nr=2");
  }
} reg;

} // namespace

int main(int argc, char** argv) {
  return vrun::main(argc, argv);
}
