// Driver for babylon::GarbageCollector<R> (property C10).
// The real collector runs under vsched: its std::thread is created through the pthread_create shim
// (after vrun::begin(), so it is managed: thread 1), usleep is virtual time.  The reclaimer R is a driver
// type: its invocation, its moves on the collector thread (= task consumed from the queue) and its
// destruction without invocation are logged.
//
// program syntax (param prog): threads separated by '_', operations by '.'
//   rt<i>  retire(R{i})           en<r> / lv<r>  enter / leave critical region r
//   st     stop()                 dt             delete the collector (destructor)
//   sg<k> / wt<k>  set / wait for driver flag k        sl<n>  usleep(n ms)      (only shape the schedule; not part of the history)
// params: cap = set_queue_capacity (0: keep the default), nreg = regions, style = 0 accessor per region /
//         1 thread-local (each region used by one thread), qbase = initial ticket of the internal queue (white box)
// en<r> on a region that is already open nests (depth 2): only the outermost pair enters / leaves.
#include <babylon/concurrent/garbage_collector.h>

#include <sched.h>
#include <unistd.h>

#include <atomic>
#include <string>
#include <thread>
#include <vector>

#include "vrun.h"

namespace {

using ::babylon::Epoch;

int g_invoked[64];

struct R {
  int id = 0;
  bool live = false; // holds a reclaimer that was neither invoked nor moved away
  R() = default;
  explicit R(int i) : id(i), live(true) {}
  R(R&& o) noexcept : id(o.id), live(o.live) {
    o.live = false;
    if (live && vsched::active()) vsched::eventf(false, "\"k\":\"rmove\",\"id\":%d", id);
  }
  R& operator=(R&& o) noexcept {
    if (live && vsched::active()) vsched::eventf(false, "\"k\":\"rdrop\",\"id\":%d,\"why\":\"overwritten\"", id);
    id = o.id;
    live = o.live;
    o.live = false;
    return *this;
  }
  ~R() {
    if (live && vsched::active()) vsched::eventf(false, "\"k\":\"rdrop\",\"id\":%d,\"why\":\"destroyed\"", id);
  }
  void operator()() noexcept {
    int n = id >= 0 && id < 64 ? ++g_invoked[id] : 0;
    vsched::eventf(true, "\"k\":\"reclaim\",\"id\":%d,\"n\":%d,\"live\":%s", id, n, live ? "true" : "false");
    live = false;
  }
};
using GC = ::babylon::GarbageCollector<R>;

struct OpSpec {
  std::string name;
  int x = 0;
};

std::vector<std::vector<OpSpec>> parse_prog(const std::string& s) {
  std::vector<std::vector<OpSpec>> prog;
  prog.emplace_back();
  size_t i = 0;
  while (i <= s.size()) {
    size_t j = s.find_first_of("._", i);
    if (j == std::string::npos) j = s.size();
    std::string tok = s.substr(i, j - i);
    if (!tok.empty()) {
      OpSpec op;
      size_t k = 0;
      while (k < tok.size() && isalpha((unsigned char)tok[k])) k++;
      op.name = tok.substr(0, k);
      if (k < tok.size()) op.x = atoi(tok.c_str() + k);
      prog.back().push_back(op);
    }
    if (j < s.size() && s[j] == '_') prog.emplace_back();
    i = j + 1;
  }
  return prog;
}

struct World {
  std::atomic<int> flag[8];
  GC* gc = nullptr;
  std::vector<Epoch::Accessor> accs;
  int style = 0;
};

void run_op(World& w, const OpSpec& op) {
  const std::string& n = op.name;
  if (n == "sg") {
    w.flag[op.x & 7].store(1, std::memory_order_release);
    return;
  }
  if (n == "wt") {
    while (w.flag[op.x & 7].load(std::memory_order_acquire) == 0) usleep(50); // virtual time: the waiter is not runnable meanwhile
    return;
  }
  if (n == "sl") {
    usleep((useconds_t)(op.x > 0 ? op.x : 5) * 1000);
    return;
  }
  const char* ln = n == "rt" ? "retire" : n == "en" ? "enter" : n == "lv" ? "leave" : n == "st" ? "stop" : "dtor";
  vsched::eventf(true, "\"k\":\"call\",\"op\":\"%s\",\"x\":%d", ln, op.x);
  if (n == "rt") {
    w.gc->retire(R(op.x));
  } else if (n == "en") {
    if (w.style == 1) w.gc->epoch().lock();
    else w.accs[(size_t)op.x].lock();
  } else if (n == "lv") {
    if (w.style == 1) w.gc->epoch().unlock();
    else w.accs[(size_t)op.x].unlock();
  } else if (n == "st") {
    w.gc->stop();
  } else if (n == "dt") {
    w.accs.clear(); // accessors first (they point into the collector's epoch)
    delete w.gc;
    w.gc = nullptr;
  }
  vsched::eventf(true, "\"k\":\"ret\",\"op\":\"%s\",\"x\":%d", ln, op.x);
}

void scenario_gc(const vrun::Params& p) {
  auto prog = parse_prog(p.str("prog", "rt1.st.dt"));
  size_t cap = (size_t)p.get("cap", 2);
  size_t nreg = (size_t)p.get("nreg", 1);
  static World w;
  w.style = (int)p.get("style", 0);
  for (auto& f : w.flag) f.store(0, std::memory_order_relaxed);
  vsched::name_array(&w.flag[0], sizeof(w.flag[0]), 8, "flag");
  w.gc = new GC;
  if (cap > 0) w.gc->set_queue_capacity(cap);
  GC& gc = *w.gc;
  // white box: start the queue at ticket `qbase` (a multiple of the capacity) - as if qbase tasks had gone through -
  // to reach the wrap of the 16-bit slot versions (round 32768) with a handful of retirements
  size_t qbase = (size_t)p.get("qbase", 0);
  if (qbase != 0) {
    auto& q = gc._queue;
    qbase -= qbase % q.capacity();
    q._next_push_index.store(qbase, std::memory_order_relaxed);
    q._next_pop_index.store(qbase, std::memory_order_relaxed);
    for (size_t i = 0; i < q.capacity(); i++) q._slots.futex(i)._futex.value().store(q.push_version_for_index(qbase), std::memory_order_relaxed);
  }
  gc._epoch._slots.ensure(0);
  w.accs.resize(nreg + 1);
  if (w.style == 0)
    for (size_t r = 1; r <= nreg; r++) w.accs[r] = gc._epoch.create_accessor();
  auto& tl_alloc = ::babylon::internal::concurrent_id_allocator::IdAllocatorFotType<Epoch, false>::instance();
  vsched::name_loc(&gc._epoch._version, sizeof(gc._epoch._version), "version");
  vsched::name_loc(&gc._epoch._id_allocator._next_value, sizeof(gc._epoch._id_allocator._next_value), "count");
  vsched::name_loc(&tl_alloc._next_value, sizeof(tl_alloc._next_value), "tcount");
  vsched::name_array(&gc._epoch._slots[0], sizeof(Epoch::Slot), 16, "slot");
  vsched::name_loc(&gc._queue._next_push_index, sizeof(gc._queue._next_push_index), "push_idx");
  vsched::name_loc(&gc._queue._next_pop_index, sizeof(gc._queue._next_pop_index), "pop_idx");
  size_t qcap = gc._queue.capacity();
  size_t stride = qcap > 1 ? (size_t)((char*)&gc._queue._slots.value(1) - (char*)&gc._queue._slots.value(0)) : 64;
  vsched::name_array(&gc._queue._slots.futex(0), stride, qcap, "qslot");
  vrun::begin();
  vsched::eventf(false, "\"k\":\"info\",\"qcap\":%zu", qcap);
  gc.start(); // the collector thread: managed thread 1
  {
    std::vector<std::thread> ths;
    for (size_t t = 0; t < prog.size(); t++) {
      ths.emplace_back([&, t] {
        for (auto& op : prog[t]) run_op(w, op);
      });
    }
    for (auto& th : ths) th.join();
  }
  if (w.gc != nullptr) { // the program did not destroy the collector: do it here (not part of the judged history)
    w.accs.clear();
    delete w.gc;
    w.gc = nullptr;
  }
  std::string cnt = "[";
  for (int i = 1; i <= 16; i++) cnt += (i > 1 ? "," : "") + std::to_string(g_invoked[i]);
  cnt += "]";
  vsched::eventf(false, "\"k\":\"final\",\"cnt\":%s", cnt.c_str());
  vsched::finish();
}

struct Reg {
  Reg() { vrun::add("gc", scenario_gc, "prog=rt1.st.dt,cap=2,nreg=1,style=0,qbase=0"); }
} reg;

} // namespace

int main(int argc, char** argv) {
  return vrun::main(argc, argv);
}
