// Driver for babylon executors (property C07).
// Runs client programs against the real ThreadPoolExecutor / InplaceExecutor /
// AlwaysUseNewThreadExecutor / a refusing Executor under vsched and logs the L1
// observables: submission call / return (accepted or refused), task begin / end with the
// thread identity and the answer of is_running_in(), futures observed, stop call / return,
// destruction, final run counters.
//
// scenarios
//   pool   w=<workers> g=<global cap> l=<local cap> steal=0|1 bal=<us, -1 unset> slp=<us a parent task sleeps after
//          submitting its children> idoff=<thread-id slots already taken: the workers' local queues start there>
//          fin=dtor|stop prog=<program>
//   inplace / newthread / refuse (pat=<pattern over a(ccept) r(efuse), indexed by task id, e.g. raar>)   prog=<program>
//
// program: threads separated by '_', operations by '.'; thread 0 of the program is the main
// thread (runs its operations after it has spawned the other threads), it may be empty.
//   e[c[g]]  execute(): root task with c children, each child with g grandchildren (future kept)
//   s[c[g]]  submit()
//   g        get() on every future this thread holds for a task accepted before stop() was called
//   x        stop()            (pool only; at most one in a program)
//   u        wakeup_one_worker() (pool only)
//   y        usleep(300)  (virtual)
//   i        wait (bounded) until every worker is blocked in the global queue's pop (pool only)
//   w        wait (bounded) until the root tasks submitted so far have submitted their children
// hold=1: a task that has submitted children waits (bounded) until somebody has started each of them
// children: odd child index -> execute, even -> submit.  task ids: root r = 1..9 in program text
// order, child k of p = 10*p+k.
#include <babylon/executor.h>

#include <malloc.h>
#include <string.h>

#include <string>
#include <thread>
#include <vector>

#include "vrun.h"

namespace {

using ::babylon::Executor;
using ::babylon::Future;

struct Node {
  int id = 0;
  int parent = 0;
  int nchild = 0;
  int ngrand = 0;
  bool via_execute = false;
  // payload written by the submitter, read by the task
  int in = 0;
  // payload written by the task, read through the future
  int out = 0;
  int runs = 0;
  int tid = -1;
  bool sub_done = false;  // submission call returned
  bool accepted = false;
  bool oblig = false;     // accepted before stop() was called (driver's view; only used to decide what to wait for)
  bool has_fut = false;
  Future<int> fut;
};

Node g_nodes[1000];
Executor* g_ex = nullptr;
::babylon::ThreadPoolExecutor* g_pool = nullptr;
bool g_stop_called = false;
thread_local int tl_cur_sub = 0;
int g_salt = 0;
long g_slp = 0; // a task that has submitted children sleeps this long (virtual us) before it returns
long g_hold = 0; // a task that has submitted children waits (bounded) until all of them have been started by somebody
int g_parents_submitted = 0; // root tasks with children handed to the executor / that have submitted all their children
int g_parents_spawned = 0;

struct OpSpec {
  char op = 0;
  int c = 0;
  int g = 0;
  int id = 0;
};

std::vector<std::vector<OpSpec>> parse_prog(const std::string& s) {
  std::vector<std::vector<OpSpec>> prog;
  prog.emplace_back();
  int next_root = 1;
  size_t i = 0;
  while (i <= s.size()) {
    size_t j = s.find_first_of("._", i);
    if (j == std::string::npos) j = s.size();
    std::string tok = s.substr(i, j - i);
    if (!tok.empty()) {
      OpSpec op;
      op.op = tok[0];
      if (tok.size() > 1 && isdigit((unsigned char)tok[1])) op.c = tok[1] - '0';
      if (tok.size() > 2 && isdigit((unsigned char)tok[2])) op.g = tok[2] - '0';
      if (op.op == 'e' || op.op == 's') op.id = next_root++;
      prog.back().push_back(op);
    }
    if (j < s.size() && s[j] == '_') prog.emplace_back();
    i = j + 1;
  }
  return prog;
}

int body(Node* n);

// one submission (root or child) through the public Executor interface
void spawn(Node* n) {
  n->in = n->id * 7 + g_salt;
  vsched::eventf(true, "\"k\":\"sub\",\"id\":%d,\"par\":%d,\"via\":\"%s\",\"inv\":%d", n->id, n->parent, n->via_execute ? "execute" : "submit", n->in);
  tl_cur_sub = n->id;
  bool ok;
  bool valid = false;
  int ret = 0;
  if (n->via_execute) {
    auto f = g_ex->execute([n] { return body(n); });
    valid = f.valid();
    ok = valid;
    if (valid) {
      n->fut = ::std::move(f);
      n->has_fut = true;
    }
  } else {
    ret = g_ex->submit([n] { body(n); });
    ok = ret == 0;
  }
  tl_cur_sub = 0;
  n->accepted = ok;
  n->oblig = ok && !g_stop_called;
  n->sub_done = true;
  vsched::eventf(false, "\"k\":\"subret\",\"id\":%d,\"ok\":%s,\"valid\":%s,\"ret\":%d", n->id, ok ? "true" : "false", valid ? "true" : "false", ret);
}

int body(Node* n) {
  n->runs++;
  n->tid = vsched::self();
  bool rin = g_ex->is_running_in();
  int in = n->in;
  vsched::eventf(true, "\"k\":\"tb\",\"id\":%d,\"rin\":%s,\"inv\":%d", n->id, rin ? "true" : "false", in);
  for (int k = 1; k <= n->nchild; k++) {
    Node* c = &g_nodes[n->id * 10 + k];
    c->id = n->id * 10 + k;
    c->parent = n->id;
    c->nchild = n->ngrand;
    c->ngrand = 0;
    c->via_execute = (k % 2) == 1;
    spawn(c);
  }
  if (n->nchild > 0 && n->parent == 0) g_parents_spawned++;
  if (n->nchild > 0 && g_hold > 0) {
    // staging only (no effect on what is judged): keep this worker busy while its children sit in a queue
    for (int spin = 0; spin < 400; spin++) {
      bool all = true;
      for (int k = 1; k <= n->nchild; k++) all = all && g_nodes[n->id * 10 + k].runs > 0;
      if (all) break;
      ::usleep(100);
    }
  }
  if (n->nchild > 0 && g_slp > 0) ::usleep((useconds_t)g_slp);
  int ret = in * 2 + 1;
  n->out = ret;
  bool rin_end = g_ex->is_running_in(); // still true after nested submissions unwound
  vsched::eventf(true, "\"k\":\"te\",\"id\":%d,\"ret\":%d,\"rin\":%s", n->id, ret, rin_end ? "true" : "false");
  return ret;
}

void observe(Node* n, const char* phase) {
  if (!n->sub_done || !n->has_fut) return;
  bool ready = n->fut.ready();
  int val = 0;
  if (ready) val = n->fut.get();
  vsched::eventf(false, "\"k\":\"fut\",\"id\":%d,\"ready\":%s,\"val\":%d,\"phase\":\"%s\"", n->id, ready ? "true" : "false", val, phase);
}

void observe_all(const char* phase) {
  for (int id = 1; id < 1000; id++)
    if (g_nodes[id].id == id) observe(&g_nodes[id], phase);
}

void run_ops(const std::vector<OpSpec>& ops) {
  std::vector<Node*> mine;
  for (auto& op : ops) {
    switch (op.op) {
      case 'e':
      case 's': {
        Node* n = &g_nodes[op.id];
        n->id = op.id;
        n->parent = 0;
        n->nchild = op.c;
        n->ngrand = op.g;
        n->via_execute = op.op == 'e';
        if (n->nchild > 0) g_parents_submitted++;
        spawn(n);
        if (n->has_fut) mine.push_back(n);
      } break;
      case 'g': {
        for (Node* n : mine) {
          if (!n->oblig) continue;
          int v = n->fut.get();
          vsched::eventf(true, "\"k\":\"fut\",\"id\":%d,\"ready\":true,\"val\":%d,\"phase\":\"get\"", n->id, v);
        }
        mine.clear();
      } break;
      case 'x': {
        if (g_pool != nullptr) {
          g_stop_called = true;
          vsched::eventf(false, "\"k\":\"stopcall\",\"op\":\"stop\"");
          g_pool->stop();
          vsched::eventf(false, "\"k\":\"stopret\",\"op\":\"stop\"");
          observe_all("stopret");
        }
      } break;
      case 'u': {
        if (g_pool != nullptr) g_pool->wakeup_one_worker();
      } break;
      case 'y': {
        ::usleep(300);
      } break;
      case 'i': { // staging: until every worker sits in the global queue's pop (one pop ticket per worker beyond the pushes)
        if (g_pool != nullptr) {
          for (int spin = 0; spin < 4000; spin++) {
            size_t push_idx, pop_idx; // raw reads: no schedule point, no trace event
            memcpy(&push_idx, (const void*)&g_pool->_global_task_queue._next_push_index, sizeof push_idx);
            memcpy(&pop_idx, (const void*)&g_pool->_global_task_queue._next_pop_index, sizeof pop_idx);
            if (pop_idx >= push_idx + g_pool->_worker_number) break;
            ::usleep(100);
          }
        }
      } break;
      case 'w': { // staging: until every root task with children submitted so far has submitted its children
        for (int spin = 0; spin < 2000 && g_parents_spawned < g_parents_submitted; spin++) ::usleep(100);
      } break;
      default:
        break;
    }
  }
}

void final_event() {
  std::string runs = "[";
  bool first = true;
  for (int id = 1; id < 1000; id++) {
    if (g_nodes[id].id != id) continue;
    runs += (first ? "[" : ",[") + std::to_string(id) + "," + std::to_string(g_nodes[id].runs) + "]";
    first = false;
  }
  runs += "]";
  vsched::eventf(false, "\"k\":\"final\",\"runs\":%s", runs.c_str());
}

// every heap address gets a name ("heap" + byte offset): queue slots, local queues, future states
void name_heap() {
  ::mallopt(M_ARENA_MAX, 1);
  ::mallopt(M_MMAP_THRESHOLD, 32 << 20);
  void* p = ::malloc(64);
  uintptr_t lo = (uintptr_t)p;
  lo = lo > (64u << 20) ? lo - (64u << 20) : 4096;
  ::free(p);
  vsched::name_loc((const void*)lo, (size_t)1 << 30, "heap");
}

void run_program(const std::vector<std::vector<OpSpec>>& prog) {
  std::vector<std::thread> ths;
  for (size_t t = 1; t < prog.size(); t++) ths.emplace_back([&prog, t] { run_ops(prog[t]); });
  run_ops(prog[0]);
  for (auto& th : ths) th.join();
}

void scenario_pool(const vrun::Params& p) {
  name_heap();
  g_salt = (int)(vrun::seed() % 50);
  auto prog = parse_prog(p.str("prog", "e_e"));
  auto* ex = new ::babylon::ThreadPoolExecutor;
  ex->set_worker_number((size_t)p.get("w", 2));
  ex->set_global_capacity((size_t)p.get("g", 1));
  ex->set_local_capacity((size_t)p.get("l", 0));
  ex->set_enable_work_stealing(p.get("steal", 0) != 0);
  g_slp = p.get("slp", 0);
  g_hold = p.get("hold", 0);
  // idoff=N: N slots of the thread-id allocator behind ThreadPoolExecutor's EnumerableThreadLocal<TaskQueue> are
  // already taken (as by N threads of earlier pools that are still alive), so the workers' local queues get the
  // slots N, N+1, ... : with N = 126 / 127 they straddle the 128-entry block boundary of the ConcurrentVector
  for (long i = 0, idoff = p.get("idoff", 0); i < idoff; i++) {
    ::babylon::internal::concurrent_id_allocator::IdAllocatorFotType<::babylon::ThreadPoolExecutor::TaskQueue, false>::instance().allocate();
  }
  long bal = p.get("bal", -1);
  if (bal >= 0) ex->set_balance_interval(::std::chrono::microseconds {bal});
  g_ex = ex;
  g_pool = ex;
  vsched::name_loc(&ex->_running, sizeof(ex->_running), "running");
  vsched::name_loc(&ex->_global_task_queue._next_push_index, sizeof(size_t), "g_push");
  vsched::name_loc(&ex->_global_task_queue._next_pop_index, sizeof(size_t), "g_pop");
  vrun::begin();
  int rc = ex->start();
  vsched::eventf(false, "\"k\":\"started\",\"rc\":%d,\"gcap\":%zu", rc, ex->_global_task_queue.capacity());
  run_program(prog);
  bool explicit_stop = p.str("fin", "dtor") == "stop";
  if (explicit_stop && !g_stop_called) {
    g_stop_called = true;
    vsched::eventf(false, "\"k\":\"stopcall\",\"op\":\"stop\"");
    ex->stop();
    vsched::eventf(false, "\"k\":\"stopret\",\"op\":\"stop\"");
    observe_all("stopret");
  }
  bool first = !g_stop_called;
  g_stop_called = true;
  vsched::eventf(false, "\"k\":\"stopcall\",\"op\":\"%s\"", first ? "dtor" : "dtor2");
  delete ex;
  vsched::eventf(false, "\"k\":\"stopret\",\"op\":\"%s\"", first ? "dtor" : "dtor2");
  vsched::eventf(false, "\"k\":\"destroyed\"");
  observe_all("final");
  final_event();
  vsched::finish();
}

void scenario_inplace(const vrun::Params& p) {
  name_heap();
  g_salt = (int)(vrun::seed() % 50);
  auto prog = parse_prog(p.str("prog", "e11"));
  g_ex = &::babylon::InplaceExecutor::instance();
  vrun::begin();
  run_program(prog);
  vsched::eventf(false, "\"k\":\"progend\"");
  observe_all("final");
  final_event();
  vsched::finish();
}

void scenario_newthread(const vrun::Params& p) {
  name_heap();
  g_salt = (int)(vrun::seed() % 50);
  auto prog = parse_prog(p.str("prog", "e1"));
  auto& ex = ::babylon::AlwaysUseNewThreadExecutor::instance();
  g_ex = &ex;
  vsched::name_loc(&ex._running, sizeof(ex._running), "nt_running");
  vrun::begin();
  run_program(prog);
  vsched::eventf(false, "\"k\":\"joincall\"");
  ex.join();
  vsched::eventf(false, "\"k\":\"joinret\"");
  vsched::eventf(false, "\"k\":\"progend\"");
  observe_all("final");
  // the detached threads only have their exit left: let them go before the scheduler shuts down
  for (;;) {
    bool all = true;
    for (int id = 1; id < 1000; id++)
      if (g_nodes[id].id == id && g_nodes[id].accepted && g_nodes[id].runs == 0) all = false;
    if (all) break;
    ::usleep(200);
  }
  for (int id = 1; id < 1000; id++)
    if (g_nodes[id].id == id && g_nodes[id].tid > 0) vsched::on_join(g_nodes[id].tid);
  final_event();
  vsched::finish();
}

// an executor whose transfer step refuses: the default BasicExecutor::invoke (returns -1) for
// pattern character 'r', an inline run for 'a'
struct Flaky : public Executor {
  std::string pat;
  int invoke(::babylon::MoveOnlyFunction<void(void)>&& function) noexcept override {
    int id = tl_cur_sub;
    bool accept = !pat.empty() && pat[(size_t)id % pat.size()] == 'a';
    if (!accept) {
      vsched::eventf(true, "\"k\":\"refuse\",\"id\":%d", id);
      return ::babylon::BasicExecutor::invoke(::std::move(function));
    }
    RunnerScope scope {*this};
    function();
    return 0;
  }
};

void scenario_refuse(const vrun::Params& p) {
  name_heap();
  g_salt = (int)(vrun::seed() % 50);
  auto prog = parse_prog(p.str("prog", "e.s"));
  static Flaky ex;
  ex.pat = p.str("pat", "r");
  g_ex = &ex;
  vrun::begin();
  run_program(prog);
  vsched::eventf(false, "\"k\":\"progend\"");
  observe_all("final");
  final_event();
  vsched::finish();
}

struct Reg {
  Reg() {
    vrun::add("pool", scenario_pool, "w=2,g=1,l=0,steal=0,bal=-1,slp=0,hold=0,idoff=0,fin=dtor,prog=e_e");
    vrun::add("inplace", scenario_inplace, "prog=e11");
    vrun::add("newthread", scenario_newthread, "prog=e1");
    vrun::add("refuse", scenario_refuse, "pat=r,prog=e.s");
  }
} reg;

} // namespace

int main(int argc, char** argv) {
  return vrun::main(argc, argv);
}
