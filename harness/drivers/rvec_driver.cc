// C12 driver: executes operation programs on the REAL babylon reusable containers and logs, per
// operation, the resolved arguments, the full observable state of every vector (size,
// constructed_size, capacity, content id of every live and every stale element, buffer id) and -
// for the instrumented element type - every element life-cycle event (constructor / assignment /
// destructor with destination and source address, mapped to (buffer id, slot)).
// Nothing is judged here: the ndjson trace is validated by TLC against spec/RVec_Trace.tla and
// spec/RMgr_Trace.tla.
//
//   rvec_driver --programs FILE --out FILE
// one program per line:   kind=<kind>;pid=<n>;src=<seed|tlc|fixed>;ops=<op>|<op>|...
//   vector kinds  int elem relem str mstr nest pb     op = name,v,w,a,b,f,x,q   (q = '-' or v.v.v)
//   string kinds  sstr smstr                          (same operations, char slots)
//   manager kind  mgr : ops = step|step...            (see run_mgr)
// Arguments are "raw": the driver reduces positions modulo the current size, skips operations whose
// interface precondition cannot be met and logs the RESOLVED operation, so a program is always a
// legal use of the std::vector interface.
#include <babylon/reusable/manager.h>
#include <babylon/reusable/string.h>
#include <babylon/reusable/vector.h>

#include <arena_example.pb.h>
#include <fcntl.h>
#include <sys/wait.h>
#include <unistd.h>

#include <cstdio>
#include <cstdlib>
#include <cstring>
#include <fstream>
#include <map>
#include <sstream>
#include <string>
#include <vector>

using ::babylon::ArenaExample;
using ::babylon::ExclusiveMonotonicBufferResource;
using ::babylon::MonotonicAllocator;
using ::babylon::MonotonicBufferResource;
using ::babylon::MonotonicString;
using ::babylon::ReusableVector;
using ::babylon::SwissAllocator;
using ::babylon::SwissMemoryResource;
using ::babylon::SwissString;
using ::babylon::SwissVector;

// ------------------------------------------------------------------------------------------------
// life-cycle recorder
struct RawEv {
  const char* t;
  uintptr_t dst, src;
};
static std::vector<RawEv> g_ev;
static bool g_rec = false;
static inline void rec(const char* t, const void* d, const void* s) {
  if (g_rec) g_ev.push_back({t, (uintptr_t)d, (uintptr_t)s});
}

// instrumented element: content id + an event per special member, with the addresses involved
struct Elem {
  using AllocationMetadata = void;  // reusable, nothing to record
  long id;
  Elem() noexcept : id(0) { rec("cd", this, nullptr); }
  Elem(long v) noexcept : id(v) { rec("cv", this, nullptr); }
  Elem(const Elem& o) noexcept : id(o.id) { rec("cc", this, &o); }
  Elem(Elem&& o) noexcept : id(o.id) {
    o.id = -1;
    rec("cm", this, &o);
  }
  Elem& operator=(const Elem& o) noexcept {
    id = o.id;
    rec("ac", this, &o);
    return *this;
  }
  Elem& operator=(Elem&& o) noexcept {
    if (this != &o) {
      id = o.id;
      o.id = -1;
    }
    rec("am", this, &o);
    return *this;
  }
  Elem& operator=(long v) noexcept {
    id = v;
    rec("av", this, nullptr);
    return *this;
  }
  void clear() noexcept {
    id = 0;
    rec("ad", this, nullptr);
  }
  ~Elem() noexcept { rec("d", this, nullptr); }
};

// ------------------------------------------------------------------------------------------------
static FILE* g_out = nullptr;
static std::string jarr(const std::vector<long>& v) {
  std::string s = "[";
  for (size_t i = 0; i < v.size(); ++i) {
    if (i) s += ",";
    s += std::to_string(v[i]);
  }
  return s + "]";
}

struct Op {
  std::string n, f;
  long v = 0, w = 0, a = 0, b = 0, x = 0;
  std::vector<long> q;
};
static std::vector<std::string> split(const std::string& s, char c) {
  std::vector<std::string> r;
  std::string cur;
  for (char ch : s) {
    if (ch == c) {
      r.push_back(cur);
      cur.clear();
    } else
      cur += ch;
  }
  r.push_back(cur);
  return r;
}
static Op parse_op(const std::string& s) {
  auto p = split(s, ',');
  Op o;
  if (p.size() < 8) {
    fprintf(stderr, "bad op %s\n", s.c_str());
    exit(3);
  }
  o.n = p[0];
  o.v = atol(p[1].c_str());
  o.w = atol(p[2].c_str());
  o.a = atol(p[3].c_str());
  o.b = atol(p[4].c_str());
  o.f = p[5];
  o.x = atol(p[6].c_str());
  if (p[7] != "-" && !p[7].empty())
    for (auto& e : split(p[7], '.')) o.q.push_back(atol(e.c_str()));
  return o;
}

// content id <-> byte string: id 0 = empty; odd ids short (SSO), even ids longer than the SSO buffer (heap);
// ids with id % 5 == 3 (3: short, 8: long, ...) carry an embedded NUL byte at position 1 (binary payload).
// The decoder compares the FULL byte content and the length.
static std::string str_of(long id) {
  if (id <= 0) return "";
  size_t len = (id % 2) ? (size_t)(id % 7 + 1) : (size_t)(20 + id);
  std::string s(len, (char)('a' + (id % 26)));
  if (id % 5 == 3 && len >= 2) s[1] = '\0';
  return s;
}
static bool has_nul(const std::string& s) { return s.find('\0') != std::string::npos; }
template <typename S>
static long id_of_str(const S& s) {
  if (s.empty()) return 0;
  long id = -3;
  for (long k = 1; k < 26; ++k)
    if ((char)('a' + k) == s[0]) id = k;
  if (id < 0) return -3;
  std::string e = str_of(id);
  if (e.size() != s.size() || memcmp(e.data(), s.data(), e.size()) != 0) return -3;
  return id;
}

// ------------------------------------------------------------------------------------------------
// element kinds
struct KInt {
  static constexpr const char* mode = "cnt";
  using Res = SwissMemoryResource;
  using T = int;
  using Vec = SwissVector<int>;
  using Ext = int;
  static Ext make(long id, Vec::allocator_type) { return (int)id; }
  static long decode(const T& t) { return t; }
  static void eb_val(Vec& v, long id) { v.emplace_back((int)id); }
  static void em_val(Vec& v, size_t pos, long id) { v.emplace(v.begin() + pos, (int)id); }
  static void pb_move(Vec& v, long id, Vec::allocator_type) { v.push_back((int)id); }
  static void in_move(Vec& v, size_t pos, long id, Vec::allocator_type) { v.insert(v.begin() + pos, (int)id); }
};
template <typename VecT, typename ResT>
struct KElemT {
  static constexpr const char* mode = "full";
  using Res = ResT;
  using T = Elem;
  using Vec = VecT;
  using Ext = Elem;
  static Ext make(long id, typename Vec::allocator_type) { return Elem(id); }
  static long decode(const T& t) { return t.id; }
  static void eb_val(Vec& v, long id) { v.emplace_back(id); }
  static void em_val(Vec& v, size_t pos, long id) { v.emplace(v.begin() + pos, id); }
  static void pb_move(Vec& v, long id, typename Vec::allocator_type) { v.push_back(Elem(id)); }
  static void in_move(Vec& v, size_t pos, long id, typename Vec::allocator_type) { v.insert(v.begin() + pos, Elem(id)); }
};
using KElem = KElemT<SwissVector<Elem>, SwissMemoryResource>;
using KRElem = KElemT<ReusableVector<Elem>, ExclusiveMonotonicBufferResource>;  // polymorphic MonotonicAllocator<Elem>

template <typename StrT, typename VecT, typename ResT>
struct KStrT {
  static constexpr const char* mode = "cnt";
  using Res = ResT;
  using T = StrT;
  using Vec = VecT;
  using Ext = std::string;
  static Ext make(long id, typename Vec::allocator_type) { return str_of(id); }
  static long decode(const T& t) { return id_of_str(t); }
  // emplace arguments: (const char*) for text, (const char*, size) for binary payloads (embedded NUL)
  static void eb_val(Vec& v, long id) {
    std::string s = str_of(id);
    if (has_nul(s)) v.emplace_back(s.data(), s.size());
    else v.emplace_back(s.c_str());
  }
  static void em_val(Vec& v, size_t pos, long id) {
    std::string s = str_of(id);
    if (has_nul(s)) v.emplace(v.begin() + pos, s.data(), s.size());
    else v.emplace(v.begin() + pos, s.c_str());
  }
  static void pb_move(Vec& v, long id, typename Vec::allocator_type a) { v.push_back(StrT(str_of(id), a)); }
  static void in_move(Vec& v, size_t pos, long id, typename Vec::allocator_type a) { v.insert(v.begin() + pos, StrT(str_of(id), a)); }
};
using KStr = KStrT<SwissString, SwissVector<SwissString>, SwissMemoryResource>;
using KMStr = KStrT<MonotonicString, ReusableVector<MonotonicString>, ExclusiveMonotonicBufferResource>;

struct KNest {
  static constexpr const char* mode = "cnt";
  using Res = SwissMemoryResource;
  using T = SwissVector<int>;
  using Vec = SwissVector<SwissVector<int>>;
  using Ext = SwissVector<int>;
  static size_t len(long id) { return id <= 0 ? 0 : (size_t)(id % 3 + 1); }
  static Ext make(long id, Vec::allocator_type a) {
    Ext e(a);
    e.assign(len(id), (int)id);
    return e;
  }
  static long decode(const T& t) {
    if (t.empty()) return 0;
    long id = t[0];
    if (id <= 0 || t.size() != len(id)) return -3;
    for (auto x : t)
      if (x != id) return -3;
    return id;
  }
  static void eb_val(Vec& v, long id) { v.emplace_back(len(id), (int)id); }
  static void em_val(Vec& v, size_t pos, long id) { v.emplace(v.begin() + pos, len(id), (int)id); }
  static void pb_move(Vec& v, long id, Vec::allocator_type a) { v.push_back(make(id, a)); }
  static void in_move(Vec& v, size_t pos, long id, Vec::allocator_type a) { v.insert(v.begin() + pos, make(id, a)); }
};

struct KPb {
  static constexpr const char* mode = "cnt";
  using Res = SwissMemoryResource;
  using T = ArenaExample;
  using Vec = SwissVector<ArenaExample>;
  using Ext = ArenaExample;
  static Ext make(long id, Vec::allocator_type) {
    ArenaExample m;
    if (id > 0) {
      m.set_p((uint64_t)id);
      m.set_s(str_of(id));
      m.add_rp((uint64_t)id);
    }
    return m;
  }
  static long decode(const T& t) {
    if (!t.has_p() && t.s().empty() && t.rp_size() == 0 && !t.has_s()) return 0;
    long id = (long)t.p();
    if (id <= 0 || !t.has_p() || t.s() != str_of(id) || t.rp_size() != 1 || (long)t.rp(0) != id) return -3;
    return id;
  }
  static void eb_val(Vec&, long) {}
  static void em_val(Vec&, size_t, long) {}
  static void pb_move(Vec& v, long id, Vec::allocator_type a) { v.push_back(make(id, a)); }
  static void in_move(Vec& v, size_t pos, long id, Vec::allocator_type a) { v.insert(v.begin() + pos, make(id, a)); }
};

// ------------------------------------------------------------------------------------------------
struct Buf {
  uintptr_t base;
  size_t bytes;
  int id;
};

template <typename K>
struct VecRunner {
  using Vec = typename K::Vec;
  using T = typename K::T;
  using Alloc = typename Vec::allocator_type;
  typename K::Res res;
  Alloc alloc {res};
  alignas(Vec) char store[3][sizeof(Vec)];
  Vec* vp[3] = {nullptr, nullptr, nullptr};
  std::vector<Buf> bufs;
  int nbuf = 0;
  bool has_val;
  // the same operations on a std::vector of content ids: only a cross-check of the specification's L1
  // (a disagreement between RVec!AbsApply and this vector means the SPECIFICATION is wrong -> CHECK-BROKEN)
  std::vector<long> ref[3];

  void ref_exec(const Op& o) {
    const std::string& n = o.n;
    std::vector<long>& r = ref[o.v];
    std::vector<long>* w = (o.w >= 1 && o.w <= 2) ? &ref[o.w] : nullptr;
    bool self = o.f == "self";
    if (n == "pb") { if (self) r.push_back(r[o.x]); else r.push_back(o.x); }
    else if (n == "pop") r.pop_back();
    else if (n == "ins") { if (self) r.insert(r.begin() + o.a, r[o.x]); else r.insert(r.begin() + o.a, o.x); }
    else if (n == "insn") { if (self) r.insert(r.begin() + o.a, (size_t)o.b, r[o.x]); else r.insert(r.begin() + o.a, (size_t)o.b, o.x); }
    else if (n == "insr") r.insert(r.begin() + o.a, o.q.begin(), o.q.end());
    else if (n == "era") r.erase(r.begin() + o.a);
    else if (n == "erar") r.erase(r.begin() + o.a, r.begin() + o.b);
    else if (n == "rsz") r.resize((size_t)o.b);
    else if (n == "rszv") { if (self) r.resize((size_t)o.b, r[o.x]); else r.resize((size_t)o.b, o.x); }
    else if (n == "res") r.reserve((size_t)o.b);
    else if (n == "clr") r.clear();
    else if (n == "asgn") r.assign((size_t)o.b, o.x);
    else if (n == "asgr") r.assign(o.q.begin(), o.q.end());
    else if (n == "asgc") r.assign((size_t)o.b, 0L);
    else if (n == "swp") r.swap(*w);
    else if (n == "mva") r = std::move(*w);  // *w: valid but unspecified, replaced by the observation below
    else if (n == "cpa") r = *w;
    else if (n == "new" || n == "newm") r = std::vector<long>();
    else if (n == "newn") r = std::vector<long>((size_t)o.b);
    else if (n == "newnv") r = std::vector<long>((size_t)o.b, o.x);
    else if (n == "newr") r = std::vector<long>(o.q.begin(), o.q.end());
    else if (n == "cpc") r = std::vector<long>(*w);
    else if (n == "mvc") { r = std::vector<long>(std::move(*w)); w->clear(); }
    else if (n == "del") r = std::vector<long>();
  }

  bool alive(long v) { return v >= 1 && v <= 2 && vp[v] != nullptr; }
  void note_buffers() {
    for (int v = 1; v <= 2; ++v) {
      if (!vp[v] || vp[v]->capacity() == 0) continue;
      uintptr_t base = (uintptr_t)vp[v]->data();
      bool known = false;
      for (auto& b : bufs)
        if (b.base == base) known = true;
      if (!known) bufs.push_back({base, vp[v]->capacity() * sizeof(T), ++nbuf});
    }
  }
  bool locate(uintptr_t a, int& b, long& i) {
    for (auto it = bufs.rbegin(); it != bufs.rend(); ++it)
      if (a >= it->base && a < it->base + it->bytes) {
        b = it->id;
        i = (long)((a - it->base) / sizeof(T));
        return true;
      }
    b = 0;
    i = 0;
    return false;
  }
  int bid_of(Vec* v) {
    if (!v || v->capacity() == 0) return 0;
    for (auto& b : bufs)
      if (b.base == (uintptr_t)v->data()) return b.id;
    return 0;
  }
  std::string obs(int v) {
    Vec* p = vp[v];
    if (!p) return "{\"al\":0,\"sz\":0,\"cons\":0,\"cap\":0,\"c\":[],\"st\":[],\"bid\":0}";
    std::vector<long> c, st;
    bool was = g_rec;
    g_rec = false;
    for (size_t i = 0; i < p->size(); ++i) c.push_back(K::decode(p->data()[i]));
    for (size_t i = p->size(); i < p->constructed_size(); ++i) st.push_back(K::decode(p->data()[i]));
    g_rec = was;
    char head[160];
    snprintf(head, sizeof(head), "{\"al\":1,\"sz\":%zu,\"cons\":%zu,\"cap\":%zu,\"bid\":%d,", p->size(), p->constructed_size(), p->capacity(), bid_of(p));
    return std::string(head) + "\"c\":" + jarr(c) + ",\"st\":" + jarr(st) + "}";
  }

  // resolve raw arguments against the current state; false = skip this operation
  bool resolve(Op& o) {
    const std::string& n = o.n;
    bool creates = n == "new" || n == "newn" || n == "newnv" || n == "newr" || n == "newm" || n == "cpc" || n == "mvc";
    if (o.v < 1 || o.v > 2) return false;
    if (creates) {
      if (alive(o.v)) return false;
      if (n == "cpc" || n == "mvc") {
        o.w = 3 - o.v;
        if (!alive(o.w)) return false;
      }
      if (o.f == "self") o.f = "ext";
      if (n == "newnv") o.f = "ext";
      return true;
    }
    if (!alive(o.v)) return false;
    size_t sz = vp[o.v]->size();
    if (n == "swp" || n == "mva" || n == "cpa") {
      o.w = 3 - o.v;
      return alive(o.w);
    }
    if (o.f == "self") {
      if (sz == 0 || n == "asgn") {
        o.f = "ext";
        o.x = o.x % 3 + 1;
      } else
        o.x = o.x % (long)sz;
    }
    if (o.f != "self" && (n == "insn" || n == "rszv" || n == "asgn")) o.f = "ext";  // const V& only
    if (o.f == "val" && !has_val) o.f = "ext";
    if (n == "pop") return sz > 0;
    if (n == "ins" || n == "insn" || n == "insr") o.a = o.a % (long)(sz + 1);
    if (n == "era") {
      if (sz == 0) return false;
      o.a = o.a % (long)sz;
    }
    if (n == "erar") {
      o.a = o.a % (long)(sz + 1);
      o.b = o.a + o.b % (long)(sz - o.a + 1);
    }
    return true;
  }

  void exec(Op& o) {
    const std::string& n = o.n;
    Vec* v = vp[o.v];
    Vec* w = (o.w >= 1 && o.w <= 2) ? vp[o.w] : nullptr;
    void* st = store[o.v];
    bool self = o.f == "self";
    if (n == "pb") {
      if (self)
        v->push_back((*v)[o.x]);
      else if (o.f == "extm")
        K::pb_move(*v, o.x, alloc);
      else if (o.f == "val")
        eb_val(*v, o.x);
      else {
        auto e = K::make(o.x, alloc);
        const auto& ce = e;
        v->push_back(ce);
      }
    } else if (n == "pop") {
      v->pop_back();
    } else if (n == "ins") {
      if (self)
        v->insert(v->begin() + o.a, (*v)[o.x]);
      else if (o.f == "extm")
        K::in_move(*v, o.a, o.x, alloc);
      else if (o.f == "val")
        em_val(*v, o.a, o.x);
      else {
        auto e = K::make(o.x, alloc);
        const auto& ce = e;
        v->insert(v->begin() + o.a, ce);
      }
    } else if (n == "insn") {
      if (self)
        v->insert(v->begin() + o.a, (size_t)o.b, (*v)[o.x]);
      else {
        auto e = K::make(o.x, alloc);
        v->insert(v->begin() + o.a, (size_t)o.b, e);
      }
    } else if (n == "insr") {
      std::vector<typename K::Ext> q;
      q.reserve(o.q.size());
      for (long id : o.q) q.push_back(K::make(id, alloc));
      v->insert(v->begin() + o.a, q.begin(), q.end());
    } else if (n == "era") {
      v->erase(v->begin() + o.a);
    } else if (n == "erar") {
      v->erase(v->begin() + o.a, v->begin() + o.b);
    } else if (n == "rsz") {
      v->resize((size_t)o.b);
    } else if (n == "rszv") {
      if (self)
        v->resize((size_t)o.b, (*v)[o.x]);
      else {
        auto e = K::make(o.x, alloc);
        v->resize((size_t)o.b, e);
      }
    } else if (n == "res") {
      v->reserve((size_t)o.b);
    } else if (n == "clr") {
      v->clear();
    } else if (n == "asgn") {
      auto e = K::make(o.x, alloc);
      v->assign((size_t)o.b, e);
    } else if (n == "asgr") {
      std::vector<typename K::Ext> q;
      q.reserve(o.q.size());
      for (long id : o.q) q.push_back(K::make(id, alloc));
      v->assign(q.begin(), q.end());
    } else if (n == "asgc") {
      v->assign((size_t)o.b);
    } else if (n == "swp") {
      v->swap(*w);
    } else if (n == "mva") {
      *v = std::move(*w);
    } else if (n == "cpa") {
      const Vec& cw = *w;
      *v = cw;
    } else if (n == "new") {
      vp[o.v] = new (st) Vec(alloc);
    } else if (n == "newn") {
      vp[o.v] = new (st) Vec((size_t)o.b, alloc);
    } else if (n == "newnv") {
      auto e = K::make(o.x, alloc);
      vp[o.v] = new (st) Vec((size_t)o.b, e, alloc);
    } else if (n == "newr") {
      std::vector<typename K::Ext> q;
      q.reserve(o.q.size());
      for (long id : o.q) q.push_back(K::make(id, alloc));
      vp[o.v] = new (st) Vec(q.begin(), q.end(), alloc);
    } else if (n == "cpc") {
      const Vec& cw = *w;
      vp[o.v] = new (st) Vec(cw);
    } else if (n == "mvc") {
      vp[o.v] = new (st) Vec(std::move(*w));
    } else if (n == "newm") {
      typename Vec::AllocationMetadata md;
      md.capacity = (size_t)o.b;
      vp[o.v] = new (st) Vec(md, alloc);
    } else if (n == "del") {
      v->~Vec();
      vp[o.v] = nullptr;
    } else {
      fprintf(stderr, "unknown op %s\n", n.c_str());
      exit(3);
    }
  }
  void eb_val(Vec& v, long id) { K::eb_val(v, id); }
  void em_val(Vec& v, size_t pos, long id) { K::em_val(v, pos, id); }

  void step(Op o) {
    if (!resolve(o)) return;
    g_ev.clear();
    ref_exec(o);
    g_rec = true;
    exec(o);
    g_rec = false;
    if (o.n == "mva" && vp[o.w]) {  // ISO C++ leaves the moved-from vector unspecified: take what it holds
      ref[o.w].clear();
      for (size_t i = 0; i < vp[o.w]->size(); ++i) ref[o.w].push_back(K::decode(vp[o.w]->data()[i]));
    }
    note_buffers();
    std::string evs = "[";
    bool first = true;
    for (auto& e : g_ev) {
      int db, sb;
      long di, si;
      if (!locate(e.dst, db, di)) continue;  // temporaries / arguments outside every buffer
      if (e.src == 0 || !locate(e.src, sb, si)) {
        sb = 0;
        si = 0;
      }
      char b[128];
      snprintf(b, sizeof(b), "%s[\"%s\",%d,%ld,%d,%ld]", first ? "" : ",", e.t, db, di, sb, si);
      evs += b;
      first = false;
    }
    evs += "]";
    fprintf(g_out, "{\"k\":\"op\",\"n\":\"%s\",\"v\":%ld,\"w\":%ld,\"a\":%ld,\"b\":%ld,\"f\":\"%s\",\"x\":%ld,\"q\":%s,\"nb\":%d,\"o\":[%s,%s],\"ref\":[%s,%s],\"ev\":%s}\n",
            o.n.c_str(), o.v, o.w, o.a, o.b, o.f.c_str(), o.x, jarr(o.q).c_str(), nbuf, obs(1).c_str(), obs(2).c_str(), jarr(ref[1]).c_str(), jarr(ref[2]).c_str(), evs.c_str());
    fflush(g_out);
  }

  void run(const std::vector<Op>& ops) {
    has_val = !std::is_same<K, KPb>::value;
    for (auto& o : ops) step(o);
    // end of life: destroy whatever is still alive (logged like any other operation)
    for (long v = 1; v <= 2; ++v)
      if (alive(v)) {
        Op d;
        d.n = "del";
        d.f = "def";
        d.v = v;
        step(d);
      }
  }
};

// ------------------------------------------------------------------------------------------------
// strings with char slots (L1 only: contents, size, capacity)
template <typename S, typename ResT>
struct StrRunner {
  using Alloc = typename S::allocator_type;
  ResT res;
  Alloc alloc {res};
  alignas(S) char store[3][sizeof(S)];
  S* sp[3] = {nullptr, nullptr, nullptr};
  static char ch(long id) { return id <= 0 ? '\0' : (char)('a' + id % 26); }
  static long idc(char c) { return c == '\0' ? 0 : (c > 'a' && c <= 'z') ? c - 'a' : -3; }
  bool alive(long v) { return v >= 1 && v <= 2 && sp[v] != nullptr; }
  std::string obs(int v) {
    S* p = sp[v];
    if (!p) return "{\"al\":0,\"sz\":0,\"cons\":0,\"cap\":0,\"c\":[],\"st\":[],\"bid\":0}";
    std::vector<long> c;
    for (size_t i = 0; i < p->size(); ++i) c.push_back(idc((*p)[i]));
    char head[160];
    snprintf(head, sizeof(head), "{\"al\":1,\"sz\":%zu,\"cons\":%zu,\"cap\":%zu,\"bid\":0,", p->size(), p->size(), p->capacity());
    return std::string(head) + "\"c\":" + jarr(c) + ",\"st\":[]}";
  }
  bool resolve(Op& o) {
    const std::string& n = o.n;
    bool creates = n == "new" || n == "newn" || n == "newnv" || n == "newr" || n == "newm" || n == "cpc" || n == "mvc";
    if (o.v < 1 || o.v > 2) return false;
    if (n == "newm" || n == "newn" || n == "asgc") return false;  // no counterpart on basic_string
    if (o.f == "self" || o.f == "val" || o.f == "extm") o.x = o.x % 3 + 1;  // chars are passed by value
    o.f = "ext";
    if (creates) {
      if (alive(o.v)) return false;
      if (n == "cpc" || n == "mvc") {
        o.w = 3 - o.v;
        if (!alive(o.w)) return false;
      }
      return true;
    }
    if (!alive(o.v)) return false;
    size_t sz = sp[o.v]->size();
    if (n == "swp" || n == "mva" || n == "cpa") {
      o.w = 3 - o.v;
      return alive(o.w);
    }
    if (n == "pop") return sz > 0;
    if (n == "ins" || n == "insn" || n == "insr") o.a = o.a % (long)(sz + 1);
    if (n == "era") {
      if (sz == 0) return false;
      o.a = o.a % (long)sz;
    }
    if (n == "erar") {
      o.a = o.a % (long)(sz + 1);
      o.b = o.a + o.b % (long)(sz - o.a + 1);
    }
    return true;
  }
  void exec(Op& o) {
    const std::string& n = o.n;
    S* v = sp[o.v];
    S* w = (o.w >= 1 && o.w <= 2) ? sp[o.w] : nullptr;
    void* st = store[o.v];
    std::string q;
    for (long id : o.q) q.push_back(ch(id));
    if (n == "pb") v->push_back(ch(o.x));
    else if (n == "pop") v->pop_back();
    else if (n == "ins") v->insert(v->begin() + o.a, ch(o.x));
    else if (n == "insn") v->insert(v->begin() + o.a, (size_t)o.b, ch(o.x));
    else if (n == "insr") v->insert(v->begin() + o.a, q.begin(), q.end());
    else if (n == "era") v->erase(v->begin() + o.a);
    else if (n == "erar") v->erase(v->begin() + o.a, v->begin() + o.b);
    else if (n == "rsz") v->resize((size_t)o.b);
    else if (n == "rszv") v->resize((size_t)o.b, ch(o.x));
    else if (n == "res") v->reserve((size_t)o.b);
    else if (n == "clr") v->clear();
    else if (n == "asgn") v->assign((size_t)o.b, ch(o.x));
    else if (n == "asgr") { if (q.size() % 2) *v = q; else v->assign(q.begin(), q.end()); }  // operator=(const std::string&) / assign(range)
    else if (n == "swp") v->swap(*w);
    else if (n == "mva") *v = std::move(*w);
    else if (n == "cpa") { const S& cw = *w; *v = cw; }
    else if (n == "new") sp[o.v] = new (st) S(alloc);
    else if (n == "newnv") sp[o.v] = new (st) S((size_t)o.b, ch(o.x), alloc);
    else if (n == "newr") sp[o.v] = new (st) S(q.begin(), q.end(), alloc);
    else if (n == "cpc") { const S& cw = *w; sp[o.v] = new (st) S(cw, alloc); }
    else if (n == "mvc") sp[o.v] = new (st) S(std::move(*w), alloc);
    else if (n == "del") { v->~S(); sp[o.v] = nullptr; }
    else { fprintf(stderr, "unknown op %s\n", n.c_str()); exit(3); }
  }
  void step(Op o) {
    if (!resolve(o)) return;
    exec(o);
    fprintf(g_out, "{\"k\":\"op\",\"n\":\"%s\",\"v\":%ld,\"w\":%ld,\"a\":%ld,\"b\":%ld,\"f\":\"%s\",\"x\":%ld,\"q\":%s,\"nb\":0,\"o\":[%s,%s],\"ev\":[]}\n",
            o.n.c_str(), o.v, o.w, o.a, o.b, o.f.c_str(), o.x, jarr(o.q).c_str(), obs(1).c_str(), obs(2).c_str());
    fflush(g_out);
  }
  void run(const std::vector<Op>& ops) {
    for (auto& o : ops) step(o);
    for (long v = 1; v <= 2; ++v)
      if (alive(v)) {
        Op d;
        d.n = "del";
        d.f = "def";
        d.v = v;
        step(d);
      }
  }
};


// ------------------------------------------------------------------------------------------------
// manager scenario:  kind=mgr;pid=N;r=<recreate interval>;objs=vs.vi.s.vv.pb.ve;ops=<cycle>|<cycle>...
//   cycle = one workload per object separated by '/', a workload = content ids joined by '.', '-' = empty
// every cycle: observe (pre), fill every object, observe (mid), manager.clear(), observe (post).
// Observation of an object: size, constructed_size, capacity, decoded contents, retained capacity of
// every constructed element, accessor validity (non-null and inside the manager's resource).
static long g_elem_live = 0;
struct MElem {  // element with a non-trivial destructor: counts objects alive (end of life at release())
  using AllocationMetadata = void;
  long id;
  MElem() noexcept : id(0) { ++g_elem_live; }
  MElem(long v) noexcept : id(v) { ++g_elem_live; }
  MElem(const MElem& o) noexcept : id(o.id) { ++g_elem_live; }
  MElem(MElem&& o) noexcept : id(o.id) { ++g_elem_live; }
  MElem& operator=(const MElem&) noexcept = default;
  MElem& operator=(MElem&&) noexcept = default;
  MElem& operator=(long v) noexcept {
    id = v;
    return *this;
  }
  void clear() noexcept { id = 0; }
  ~MElem() noexcept { --g_elem_live; }
};

struct MObj {
  virtual ~MObj() {}
  virtual void fill(const std::vector<long>& ids) = 0;
  virtual std::string obs(SwissMemoryResource& res) = 0;
  virtual std::vector<long> needs(const std::vector<long>& ids) = 0;
  virtual const char* kind() = 0;  // "vec" | "str"
  virtual long fresh() = 0;         // capacity of a fresh element
};
static std::string mobs(const char* kind, long fr, bool ok, size_t sz, size_t cons, size_t cap, const std::vector<long>& c, const std::vector<long>& ecap, int cnt = 0) {
  char head[200];
  snprintf(head, sizeof(head), "{\"kind\":\"%s\",\"cnt\":%d,\"fr\":%ld,\"ok\":%d,\"sz\":%zu,\"cons\":%zu,\"cap\":%zu,", kind, cnt, fr, ok ? 1 : 0, sz, cons, cap);
  return std::string(head) + "\"c\":" + jarr(c) + ",\"ecap\":" + jarr(ecap) + "}";
}
template <typename V, typename Derived>
struct MVecBase : MObj {
  ::babylon::ReusableAccessor<V> acc;
  const char* kind() override { return "vec"; }
  std::string obs(SwissMemoryResource& res) override {
    V* p = acc.get();
    bool ok = acc && p != nullptr && res.contains(p) && (p->capacity() == 0 || res.contains(p->data()));
    std::vector<long> c, ec;
    if (ok) {
      for (size_t i = 0; i < p->size(); ++i) c.push_back(Derived::dec(p->data()[i]));
      for (size_t i = 0; i < p->constructed_size(); ++i) ec.push_back(Derived::ecap(p->data()[i]));
    }
    return mobs("vec", fresh(), ok, ok ? p->size() : 0, ok ? p->constructed_size() : 0, ok ? p->capacity() : 0, c, ec, Derived::counted);
  }
};
struct MVI : MVecBase<SwissVector<int>, MVI> {
  static constexpr int counted = 0;
  static long dec(const int& x) { return x; }
  static long ecap(const int&) { return 0; }
  long fresh() override { return 0; }
  void fill(const std::vector<long>& ids) override {
    for (long id : ids) acc->emplace_back((int)id);
  }
  std::vector<long> needs(const std::vector<long>& ids) override { return std::vector<long>(ids.size(), 0); }
};
struct MVE : MVecBase<SwissVector<MElem>, MVE> {
  static constexpr int counted = 1;
  static long dec(const MElem& x) { return x.id; }
  static long ecap(const MElem&) { return 0; }
  long fresh() override { return 0; }
  void fill(const std::vector<long>& ids) override {
    for (long id : ids) acc->emplace_back(id);
  }
  std::vector<long> needs(const std::vector<long>& ids) override { return std::vector<long>(ids.size(), 0); }
};
struct MVS : MVecBase<SwissVector<SwissString>, MVS> {
  static constexpr int counted = 0;
  static long dec(const SwissString& x) { return id_of_str(x); }
  static long ecap(const SwissString& x) { return (long)x.capacity(); }
  long fresh() override { return (long)std::string().capacity(); }
  void fill(const std::vector<long>& ids) override {
    for (size_t i = 0; i < ids.size(); ++i) {
      std::string s = str_of(ids[i]);
      if (i % 2 && has_nul(s))
        acc->emplace_back(s.data(), s.size());
      else if (i % 2)
        acc->emplace_back(s.c_str());
      else
        acc->push_back(s);
    }
  }
  std::vector<long> needs(const std::vector<long>& ids) override {
    std::vector<long> r;
    for (long id : ids) r.push_back((long)str_of(id).size());
    return r;
  }
};
struct MVV : MVecBase<SwissVector<SwissVector<int>>, MVV> {
  static constexpr int counted = 0;
  static long dec(const SwissVector<int>& x) { return KNest::decode(x); }
  static long ecap(const SwissVector<int>& x) { return (long)x.capacity(); }
  long fresh() override { return 0; }
  void fill(const std::vector<long>& ids) override {
    for (long id : ids) acc->emplace_back(KNest::len(id), (int)id);
  }
  std::vector<long> needs(const std::vector<long>& ids) override {
    std::vector<long> r;
    for (long id : ids) r.push_back((long)KNest::len(id));
    return r;
  }
};
struct MS : MObj {
  ::babylon::ReusableAccessor<SwissString> acc;
  const char* kind() override { return "str"; }
  long fresh() override { return (long)std::string().capacity(); }
  void fill(const std::vector<long>& ids) override {
    if (!ids.empty()) *acc = str_of(ids[0]);
  }
  std::vector<long> needs(const std::vector<long>& ids) override {
    std::vector<long> r;
    if (!ids.empty()) r.push_back((long)str_of(ids[0]).size());
    return r;
  }
  std::string obs(SwissMemoryResource& res) override {
    SwissString* p = acc.get();
    bool ok = acc && p != nullptr && res.contains(p);
    std::vector<long> c, ec;
    if (ok) {
      if (!p->empty()) c.push_back(id_of_str(*p));
      ec.push_back((long)p->capacity());
    }
    return mobs("str", fresh(), ok, c.size(), 1, 1, c, ec);
  }
};
struct MPB : MObj {  // protobuf message: a value with retained capacity (the bytes field s)
  ::babylon::ReusableAccessor<ArenaExample> acc;
  // the string object / repeated block of a message live in the arena once the field was first set (Clear() keeps
  // them, re-creation reserves them from the metadata); their byte buffers are on the heap. The retained capacity
  // is therefore represented by the longest value the field has held so far (-1: never set, nothing retained).
  long warm = -1;
  const char* kind() override { return "str"; }
  long fresh() override { return -1; }
  void fill(const std::vector<long>& ids) override {
    if (!ids.empty()) {
      warm = std::max(warm, (long)str_of(ids[0]).size());
      acc->set_p((uint64_t)ids[0]);
      acc->set_s(str_of(ids[0]));
      acc->add_rp((uint64_t)ids[0]);
    }
  }
  std::vector<long> needs(const std::vector<long>& ids) override {
    std::vector<long> r;
    if (!ids.empty()) r.push_back((long)str_of(ids[0]).size());
    return r;
  }
  std::string obs(SwissMemoryResource& res) override {
    ArenaExample* p = acc.get();
    bool ok = acc && p != nullptr && res.contains(p);
    std::vector<long> c, ec;
    if (ok) {
      long id = KPb::decode(*p);
      if (id != 0) c.push_back(id);
      ec.push_back(warm);
    }
    return mobs("msg", fresh(), ok, c.size(), 1, 1, c, ec);
  }
};

static bool g_released = false;
static void canary_dtor(void*) { g_released = true; }

static void run_mgr(std::map<std::string, std::string>& kv) {
  ::babylon::NewDeletePageAllocator pages;
  pages.set_page_size((size_t)std::max(64L, atol(kv["page"].empty() ? "4096" : kv["page"].c_str())));
  ::babylon::SwissManager manager;
  manager.resource().set_page_allocator(pages);
  long r = atol(kv["r"].c_str());
  manager.set_recreate_interval((size_t)r);
  std::vector<std::unique_ptr<MObj>> objs;
  for (auto& k : split(kv["objs"], '.')) {
    if (k == "vi") {
      auto o = new MVI;
      o->acc = manager.create_object<SwissVector<int>>();
      objs.emplace_back(o);
    } else if (k == "ve") {
      auto o = new MVE;
      o->acc = manager.create_object<SwissVector<MElem>>();
      objs.emplace_back(o);
    } else if (k == "vs") {
      auto o = new MVS;
      o->acc = manager.create_object<SwissVector<SwissString>>();
      objs.emplace_back(o);
    } else if (k == "vv") {
      auto o = new MVV;
      o->acc = manager.create_object<SwissVector<SwissVector<int>>>();
      objs.emplace_back(o);
    } else if (k == "s") {
      auto o = new MS;
      o->acc = manager.create_object<SwissString>();
      objs.emplace_back(o);
    } else if (k == "pb") {
      auto o = new MPB;
      o->acc = manager.create_object<ArenaExample>();
      objs.emplace_back(o);
    } else {
      fprintf(stderr, "unknown manager object kind %s\n", k.c_str());
      exit(3);
    }
  }
  auto& res = manager.resource();
  auto all = [&]() {
    std::string s = "[";
    for (size_t i = 0; i < objs.size(); ++i) s += (i ? "," : "") + objs[i]->obs(res);
    return s + "]";
  };
  static char canary;
  long cyc = 0;
  for (auto& cs : split(kv["ops"], '|')) {
    if (cs.empty()) continue;
    ++cyc;
    auto ws = split(cs, '/');
    std::vector<std::vector<long>> W(objs.size());
    for (size_t i = 0; i < objs.size() && i < ws.size(); ++i)
      if (ws[i] != "-" && !ws[i].empty())
        for (auto& e : split(ws[i], '.')) W[i].push_back(atol(e.c_str()));
    for (size_t i = 0; i < objs.size(); ++i)
      if (std::string(objs[i]->kind()) == "str" && W[i].size() > 1) W[i].resize(1);
    g_released = false;
    res.register_destructor(&canary, canary_dtor);  // runs when the resource is released (= re-creation)
    std::string o0 = all();
    size_t used0 = res.space_used();
    std::string w = "[", need = "[";
    for (size_t i = 0; i < objs.size(); ++i) {
      w += (i ? "," : "") + jarr(W[i]);
      need += (i ? "," : "") + jarr(objs[i]->needs(W[i]));
    }
    w += "]";
    need += "]";
    for (size_t i = 0; i < objs.size(); ++i) objs[i]->fill(W[i]);
    size_t used1 = res.space_used();
    std::string o1 = all();
    long live1 = g_elem_live;
    manager.clear();
    std::string o2 = all();
    fprintf(g_out, "{\"k\":\"cyc\",\"cyc\":%ld,\"r\":%ld,\"w\":%s,\"need\":%s,\"o0\":%s,\"o1\":%s,\"o2\":%s,\"used0\":%zu,\"used1\":%zu,\"used2\":%zu,\"alloc2\":%zu,\"rel\":%d,\"live1\":%ld,\"live2\":%ld}\n",
            cyc, r, w.c_str(), need.c_str(), o0.c_str(), o1.c_str(), o2.c_str(), used0, used1, res.space_used(), res.space_allocated(), g_released ? 1 : 0, live1, g_elem_live);
    fflush(g_out);
  }
}

// ------------------------------------------------------------------------------------------------
static std::map<std::string, std::string> parse_prog(const std::string& line) {
  std::map<std::string, std::string> kv;
  for (auto& part : split(line, ';')) {
    auto eq = part.find('=');
    if (eq != std::string::npos) kv[part.substr(0, eq)] = part.substr(eq + 1);
  }
  return kv;
}

static const char* mode_of(const std::string& kind) {
  if (kind == "elem" || kind == "relem") return "full";
  if (kind == "sstr" || kind == "smstr") return "l1";
  if (kind == "mgr") return "mgr";
  return "cnt";
}

static void run_program(std::map<std::string, std::string>& kv) {
  std::string kind = kv["kind"];
  if (kind == "mgr") {
    run_mgr(kv);
    return;
  }
  std::vector<Op> ops;
  if (!kv["ops"].empty())
    for (auto& s : split(kv["ops"], '|'))
      if (!s.empty()) ops.push_back(parse_op(s));
  if (kind == "int") {
    VecRunner<KInt> r;
    r.run(ops);
  } else if (kind == "elem") {
    VecRunner<KElem> r;
    r.run(ops);
  } else if (kind == "relem") {
    VecRunner<KRElem> r;
    r.run(ops);
  } else if (kind == "str") {
    VecRunner<KStr> r;
    r.run(ops);
  } else if (kind == "mstr") {
    VecRunner<KMStr> r;
    r.run(ops);
  } else if (kind == "nest") {
    VecRunner<KNest> r;
    r.run(ops);
  } else if (kind == "pb") {
    VecRunner<KPb> r;
    r.run(ops);
  } else if (kind == "sstr") {
    StrRunner<SwissString, SwissMemoryResource> r;
    r.run(ops);
  } else if (kind == "smstr") {
    StrRunner<MonotonicString, ExclusiveMonotonicBufferResource> r;
    r.run(ops);
  } else {
    fprintf(stderr, "unknown kind %s\n", kind.c_str());
    exit(3);
  }
}

static long count_resets(const std::string& path) {
  std::ifstream in(path);
  std::string line;
  long n = 0;
  while (std::getline(in, line))
    if (line.rfind("{\"k\":\"reset\"", 0) == 0) ++n;
  return n;
}

int main(int argc, char** argv) {
  std::string programs, out;
  for (int i = 1; i < argc; ++i) {
    std::string a = argv[i];
    if (a == "--programs" && i + 1 < argc) programs = argv[++i];
    else if (a == "--out" && i + 1 < argc) out = argv[++i];
  }
  if (programs.empty() || out.empty()) {
    fprintf(stderr, "usage: rvec_driver --programs FILE --out FILE\n");
    return 3;
  }
  std::vector<std::string> lines;
  {
    std::ifstream in(programs);
    std::string line;
    while (std::getline(in, line))
      if (!line.empty()) lines.push_back(line);
    FILE* f = fopen(out.c_str(), "w");
    if (!f) return 3;
    fclose(f);
  }
  // A child process executes the programs one after the other (every program builds its own resource and
  // containers); if it dies, the crash is recorded for the program it was executing and a new child continues
  // with the next program.
  long crashes = 0;
  size_t start = 0;
  while (start < lines.size()) {
    pid_t c = fork();
    if (c == 0) {
      g_out = fopen(out.c_str(), "a");
      for (size_t i = start; i < lines.size(); ++i) {
        auto kv = parse_prog(lines[i]);
        fprintf(g_out, "{\"k\":\"reset\",\"pid\":%ld,\"kind\":\"%s\",\"mode\":\"%s\",\"src\":\"%s\",\"prog\":\"%s\"}\n", atol(kv["pid"].c_str()), kv["kind"].c_str(),
                mode_of(kv["kind"]), kv["src"].c_str(), lines[i].c_str());
        fflush(g_out);
        run_program(kv);
        fprintf(g_out, "{\"k\":\"end\",\"status\":\"ok\"}\n");
        fflush(g_out);
      }
      fclose(g_out);
      _exit(0);
    }
    int st = 0;
    waitpid(c, &st, 0);
    if (WIFEXITED(st) && WEXITSTATUS(st) == 0) break;
    if (WIFEXITED(st) && WEXITSTATUS(st) == 3) return 3;  // malformed program: the driver input is wrong
    ++crashes;
    FILE* f = fopen(out.c_str(), "a");
    fprintf(f, "\n{\"k\":\"end\",\"status\":\"crash\",\"sig\":%d}\n", WIFSIGNALED(st) ? WTERMSIG(st) : -WEXITSTATUS(st));
    fclose(f);
    start = (size_t)count_resets(out);
  }
  printf("{\"execs\":%zu,\"crashes\":%ld}\n", lines.size(), crashes);
  return 0;
}
