// Driver for ConcurrentBoundedQueue (properties C01, C02).
// Runs client programs against the real queue under vsched and logs
// call / callback / return events next to the interposed atomic operations.
//
// program syntax (param prog):  threads separated by '_', operations by '.'
//   op := name [n] [':' CWK]        CWK = CONCURRENT, USE_FUTEX_WAIT, USE_FUTEX_WAKE as 0/1
//   pu  push          po  pop            tpu try_push      tpo try_pop
//   pun push_n(n)     pon pop_n(n)       tpun try_push_n   tpon try_pop_n
//   cpun / cpon       compensating push_n / pop_n (callback + reverse callback)
//   xpon n            try_pop_n_exclusively_until (timeout param to_us)
#include <babylon/concurrent/bounded_queue.h>

#include <string>
#include <thread>
#include <vector>

#include "vrun.h"

namespace {

struct Item {
  int v = 0;
};
using Queue = ::babylon::ConcurrentBoundedQueue<Item>;

struct OpSpec {
  std::string name;
  int n = 1;
  int fl = 7; // C<<2 | W<<1 | K
};

std::vector<std::vector<OpSpec>> parse_prog(const std::string& s) {
  std::vector<std::vector<OpSpec>> prog;
  size_t i = 0;
  prog.emplace_back();
  while (i <= s.size()) {
    size_t j = s.find_first_of("._", i);
    if (j == std::string::npos) j = s.size();
    std::string tok = s.substr(i, j - i);
    if (!tok.empty()) {
      OpSpec op;
      size_t k = 0;
      while (k < tok.size() && isalpha((unsigned char)tok[k])) k++;
      op.name = tok.substr(0, k);
      size_t c = tok.find(':');
      if (k < tok.size() && isdigit((unsigned char)tok[k])) op.n = atoi(tok.c_str() + k);
      if (c != std::string::npos && tok.size() >= c + 4) op.fl = ((tok[c + 1] == '1') << 2) | ((tok[c + 2] == '1') << 1) | (tok[c + 3] == '1');
      prog.back().push_back(op);
    }
    if (j < s.size() && s[j] == '_') prog.emplace_back();
    i = j + 1;
  }
  return prog;
}

template <typename F>
void with_flags3(int fl, F&& f) {
  switch (fl & 7) {
    case 0: f(std::false_type {}, std::false_type {}, std::false_type {}); break;
    case 1: f(std::false_type {}, std::false_type {}, std::true_type {}); break;
    case 2: f(std::false_type {}, std::true_type {}, std::false_type {}); break;
    case 3: f(std::false_type {}, std::true_type {}, std::true_type {}); break;
    case 4: f(std::true_type {}, std::false_type {}, std::false_type {}); break;
    case 5: f(std::true_type {}, std::false_type {}, std::true_type {}); break;
    case 6: f(std::true_type {}, std::true_type {}, std::false_type {}); break;
    default: f(std::true_type {}, std::true_type {}, std::true_type {}); break;
  }
}
template <typename F>
void with_flags2(int fl, F&& f) { // CONCURRENT, USE_FUTEX_WAKE
  switch (((fl >> 2) & 1) << 1 | (fl & 1)) {
    case 0: f(std::false_type {}, std::false_type {}); break;
    case 1: f(std::false_type {}, std::true_type {}); break;
    case 2: f(std::true_type {}, std::false_type {}); break;
    default: f(std::true_type {}, std::true_type {}); break;
  }
}

struct Ctx {
  Queue* q;
  char* slot0; // address of slot[0].value
  size_t stride;
  int tid;     // program thread number (1-based)
  int next_val;
  long to_us;
};

int slot_of(Ctx& c, Item* p) {
  return (int)(((char*)p - c.slot0) / (long)c.stride);
}
// element i of a contiguous range of slots (slots are cache-line strided)
Item& at(Ctx& c, Item* b, int i) {
  return *(Item*)((char*)b + (long)c.stride * i);
}

std::string vals_json(const std::vector<int>& v) {
  std::string s = "[";
  for (size_t i = 0; i < v.size(); i++) s += (i ? "," : "") + std::to_string(v[i]);
  return s + "]";
}

// producer side callback over a contiguous range
void fill(Ctx& c, Item* b, int n, const char* role) {
  int slot = slot_of(c, b);
  std::vector<int> vals;
  for (int i = 0; i < n; i++) vals.push_back(c.tid * 100 + (++c.next_val));
  vsched::eventf(true, "\"k\":\"cbb\",\"role\":\"%s\",\"slot\":%d,\"n\":%d,\"vals\":%s", role, slot, n, vals_json(vals).c_str());
  for (int i = 0; i < n; i++) at(c, b, i).v = vals[(size_t)i];
  bool intact = true;
  vsched::event("\"k\":\"cbm\"", true); // a point in the middle of the callback
  for (int i = 0; i < n; i++) intact = intact && at(c, b, i).v == vals[(size_t)i];
  vsched::eventf(true, "\"k\":\"cbe\",\"role\":\"%s\",\"slot\":%d,\"n\":%d,\"vals\":%s,\"intact\":%s", role, slot, n, vals_json(vals).c_str(), intact ? "true" : "false");
}

// consumer side callback
void drain(Ctx& c, Item* b, int n, const char* role) {
  int slot = slot_of(c, b);
  std::vector<int> vals;
  for (int i = 0; i < n; i++) vals.push_back(at(c, b, i).v);
  vsched::eventf(true, "\"k\":\"cbb\",\"role\":\"%s\",\"slot\":%d,\"n\":%d,\"vals\":%s", role, slot, n, vals_json(vals).c_str());
  vsched::event("\"k\":\"cbm\"", true);
  bool intact = true;
  for (int i = 0; i < n; i++) intact = intact && at(c, b, i).v == vals[(size_t)i];
  for (int i = 0; i < n; i++) at(c, b, i).v = -7; // consumed marker: a later reader of a stale slot sees it
  vsched::eventf(true, "\"k\":\"cbe\",\"role\":\"%s\",\"slot\":%d,\"n\":%d,\"vals\":%s,\"intact\":%s", role, slot, n, vals_json(vals).c_str(), intact ? "true" : "false");
}

void run_op(Ctx& c, const OpSpec& op) {
  Queue& q = *c.q;
  using It = Queue::Iterator;
  long res = -1;
  vsched::eventf(true, "\"k\":\"call\",\"op\":\"%s\",\"n\":%d,\"fl\":%d", op.name.c_str(), op.n, op.fl);
  if (op.name == "pu") {
    with_flags3(op.fl, [&](auto C, auto W, auto K) { q.push<C.value, W.value, K.value>([&](Item& it) { fill(c, &it, 1, "push"); }); });
    res = 1;
  } else if (op.name == "po") {
    with_flags3(op.fl, [&](auto C, auto W, auto K) { q.pop<C.value, W.value, K.value>([&](Item& it) { drain(c, &it, 1, "pop"); }); });
    res = 1;
  } else if (op.name == "tpu") {
    with_flags2(op.fl, [&](auto C, auto K) { res = q.try_push<C.value, K.value>([&](Item& it) { fill(c, &it, 1, "push"); }); });
  } else if (op.name == "tpo") {
    with_flags2(op.fl, [&](auto C, auto K) { res = q.try_pop<C.value, K.value>([&](Item& it) { drain(c, &it, 1, "pop"); }); });
  } else if (op.name == "pun") {
    with_flags3(op.fl, [&](auto C, auto W, auto K) { q.push_n<C.value, W.value, K.value>([&](It b, It e) { fill(c, &*b, (int)(e - b), "push"); }, (size_t)op.n); });
    res = op.n;
  } else if (op.name == "pon") {
    with_flags3(op.fl, [&](auto C, auto W, auto K) { q.pop_n<C.value, W.value, K.value>([&](It b, It e) { drain(c, &*b, (int)(e - b), "pop"); }, (size_t)op.n); });
    res = op.n;
  } else if (op.name == "tpun") {
    with_flags2(op.fl, [&](auto C, auto K) { res = (long)q.try_push_n<C.value, K.value>([&](It b, It e) { fill(c, &*b, (int)(e - b), "push"); }, (size_t)op.n); });
  } else if (op.name == "tpon") {
    with_flags2(op.fl, [&](auto C, auto K) { res = (long)q.try_pop_n<C.value, K.value>([&](It b, It e) { drain(c, &*b, (int)(e - b), "pop"); }, (size_t)op.n); });
  } else if (op.name == "cpun") {
    // compensating push: when the queue is full the reverse callback plays consumer
    q.push_n([&](It b, It e) { fill(c, &*b, (int)(e - b), "push"); }, [&](It b, It e) { drain(c, &*b, (int)(e - b), "rpop"); }, (size_t)op.n);
    res = op.n;
  } else if (op.name == "cpon") {
    q.pop_n([&](It b, It e) { drain(c, &*b, (int)(e - b), "pop"); }, [&](It b, It e) { fill(c, &*b, (int)(e - b), "rpush"); }, (size_t)op.n);
    res = op.n;
  } else if (op.name == "xpon") {
    struct ::timespec ts;
    ts.tv_sec = c.to_us / 1000000;
    ts.tv_nsec = (c.to_us % 1000000) * 1000;
    long t0 = (long)(vsched::now_ns() / 1000);
    if (op.fl & 1) res = (long)q.try_pop_n_exclusively_until<true>([&](It b, It e) { drain(c, &*b, (int)(e - b), "pop"); }, (size_t)op.n, &ts);
    else res = (long)q.try_pop_n_exclusively_until<false>([&](It b, It e) { drain(c, &*b, (int)(e - b), "pop"); }, (size_t)op.n, &ts);
    vsched::eventf(false, "\"k\":\"timed\",\"t0_us\":%ld,\"t1_us\":%ld,\"to_us\":%ld", t0, (long)(vsched::now_ns() / 1000), c.to_us);
  }
  vsched::eventf(true, "\"k\":\"ret\",\"op\":\"%s\",\"n\":%d,\"res\":%ld", op.name.c_str(), op.n, res);
}

void scenario_bq(const vrun::Params& p) {
  size_t cap = (size_t)p.get("cap", 2);
  long base = p.get("base", 0); // initial ticket value (multiple of capacity): used to reach 16-bit version wrap
  auto prog = parse_prog(p.str("prog", "pu_po"));
  Queue q(cap);
  cap = q.capacity();
  if (base != 0) {
    q._next_push_index.store((size_t)base, std::memory_order_relaxed);
    q._next_pop_index.store((size_t)base, std::memory_order_relaxed);
    for (size_t i = 0; i < cap; i++) q._slots.futex(i)._futex.value().store(q.push_version_for_index((size_t)base), std::memory_order_relaxed);
  }
  vsched::name_loc(&q._next_push_index, sizeof(q._next_push_index), "push_idx");
  vsched::name_loc(&q._next_pop_index, sizeof(q._next_pop_index), "pop_idx");
  size_t stride = cap > 1 ? (size_t)((char*)&q._slots.value(1) - (char*)&q._slots.value(0)) : 64;
  vsched::name_array(&q._slots.futex(0), stride, cap, "slot");
  std::vector<Ctx> ctx(prog.size());
  for (size_t t = 0; t < prog.size(); t++) ctx[t] = Ctx {&q, (char*)&q._slots.value(0), stride, (int)t + 1, 0, p.get("to_us", 5000)};
  vrun::begin();
  {
    std::vector<std::thread> ths;
    for (size_t t = 0; t < prog.size(); t++) {
      ths.emplace_back([&, t] {
        for (auto& op : prog[t]) run_op(ctx[t], op);
      });
    }
    for (auto& th : ths) th.join();
  }
  // quiescent observation: what is left in the queue
  {
    std::vector<int> left;
    Item it;
    long pi = (long)(q._next_push_index.load(std::memory_order_relaxed) - (size_t)base);
    long ci = (long)(q._next_pop_index.load(std::memory_order_relaxed) - (size_t)base);
    while (q.try_pop<false, false>(it)) left.push_back(it.v);
    vsched::eventf(false, "\"k\":\"final\",\"left\":%s,\"push_idx\":%ld,\"pop_idx\":%ld", vals_json(left).c_str(), pi, ci);
  }
  vsched::finish();
}

struct Reg {
  Reg() { vrun::add("bq", scenario_bq, "cap=2,prog=pu_po,base=0,to_us=5000"); }
} reg;

} // namespace

int main(int argc, char** argv) {
  return vrun::main(argc, argv);
}
