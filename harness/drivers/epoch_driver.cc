// Driver for babylon::Epoch (property C09).
// Runs client programs against the real Epoch under vsched. The CLIENT protocol of the
// property (shared pointer cell, freed flags, accessor hand-over mailboxes) lives here.
//
// program syntax (param prog): threads separated by '_', operations by '.'
//   lk<h> lock     ul<h> unlock      h = 0: thread-local style (Epoch::lock/unlock), h >= 1: Accessor h
//   cr<h> create_accessor -> handle h          rl<h> Accessor::release
//   rd    read the shared pointer (inside a region)      df   use (dereference) the object read
//   gv<h> hand accessor h (locked) + the object read to another thread        tk<h> receive it
//   un    unlink: exchange the shared pointer with a fresh object
//   ti    Epoch::tick -> e of the objects unlinked since the last tick
//   lw    Epoch::low_water_mark -> mark          rc   free every retired object with e <= mark
//   sl<n> usleep(n ms), virtual time (only shapes the schedule; not part of the history)
//   rl<h> may be applied to an accessor that is still locked (its region ends there)
// params: ns = slots named (upper bound of ids), nh = handles, pre = accessors created before the threads start
#include <babylon/concurrent/epoch.h>

#include <sched.h>
#include <unistd.h>

#include <algorithm>
#include <atomic>
#include <string>
#include <thread>
#include <vector>

#include "vrun.h"

namespace {

using ::babylon::Epoch;

struct OpSpec {
  std::string name;
  int h = 0;
};

std::vector<std::vector<OpSpec>> parse_prog(const std::string& s) {
  std::vector<std::vector<OpSpec>> prog;
  prog.emplace_back();
  size_t i = 0;
  while (i <= s.size()) {
    size_t j = s.find_first_of("._", i);
    if (j == std::string::npos) j = s.size();
    std::string tok = s.substr(i, j - i);
    if (!tok.empty()) {
      OpSpec op;
      size_t k = 0;
      while (k < tok.size() && isalpha((unsigned char)tok[k])) k++;
      op.name = tok.substr(0, k);
      if (k < tok.size()) op.h = atoi(tok.c_str() + k);
      prog.back().push_back(op);
    }
    if (j < s.size() && s[j] == '_') prog.emplace_back();
    i = j + 1;
  }
  return prog;
}

const char* long_name(const std::string& n) {
  if (n == "lk") return "lock";
  if (n == "ul") return "unlock";
  if (n == "cr") return "create";
  if (n == "rl") return "release";
  if (n == "ti") return "tick";
  if (n == "lw") return "lwm";
  return "?";
}

long long small(uint64_t v) {
  return v == UINT64_MAX ? -1 : (long long)v;
}

struct World {
  Epoch epoch;
  std::atomic<int> ptr {1};       // the shared structure: id of the current object
  std::atomic<int> mbox[8];       // accessor hand-over: object id + 1, 0 = not given yet
  std::atomic<int> done {0};
  bool freed[64] = {false};
  std::vector<Epoch::Accessor> accs;
};

struct Local {
  int tid = 0;   // program thread number (1-based)
  int nunl = 0;  // objects this thread has installed
  int obj = 0;
  std::vector<int> pend;
  std::vector<std::pair<int, uint64_t>> retired;
  uint64_t e = 0;
  uint64_t mark = 0;
};

void run_op(World& w, Local& l, const OpSpec& op) {
  const std::string& n = op.name;
  if (n == "rd") {
    l.obj = w.ptr.load(std::memory_order_acquire);
    return;
  }
  if (n == "df") {
    bool f = l.obj > 0 && w.freed[l.obj];
    vsched::eventf(true, "\"k\":\"deref\",\"obj\":%d,\"freed\":%s", l.obj, f ? "true" : "false");
    return;
  }
  if (n == "un") {
    int fresh = 10 * l.tid + (++l.nunl); // object ids: 1 = initial, 10 * thread + k = k-th object installed by thread
    int old = w.ptr.exchange(fresh, std::memory_order_acq_rel);
    l.pend.push_back(old);
    vsched::eventf(false, "\"k\":\"unlink\",\"obj\":%d,\"fresh\":%d", old, fresh);
    return;
  }
  if (n == "rc") {
    std::string objs = "[";
    std::vector<std::pair<int, uint64_t>> keep;
    std::vector<int> go;
    for (auto& p : l.retired) {
      if (p.second <= l.mark) go.push_back(p.first);
      else keep.push_back(p);
    }
    std::sort(go.begin(), go.end());
    for (size_t i = 0; i < go.size(); i++) {
      w.freed[go[i]] = true;
      objs += (i ? "," : "") + std::to_string(go[i]);
    }
    objs += "]";
    l.retired.swap(keep);
    vsched::eventf(true, "\"k\":\"reclaim\",\"objs\":%s,\"mark\":%lld", objs.c_str(), small(l.mark));
    return;
  }
  if (n == "sl") { // stay where we are for n ms of virtual time (only shapes the schedule)
    usleep((useconds_t)(op.h > 0 ? op.h : 5) * 1000);
    return;
  }
  if (n == "gv") {
    w.mbox[op.h].store(l.obj + 1, std::memory_order_release);
    l.obj = 0;
    return;
  }
  if (n == "tk") {
    int v;
    while ((v = w.mbox[op.h].load(std::memory_order_acquire)) == 0) usleep(50); // virtual time: not runnable meanwhile
    l.obj = v - 1;
    return;
  }
  const char* ln = long_name(n);
  vsched::eventf(true, "\"k\":\"call\",\"op\":\"%s\",\"h\":%d", ln, op.h);
  long long res = 0;
  if (n == "lk") {
    if (op.h == 0) w.epoch.lock();
    else w.accs[(size_t)op.h].lock();
  } else if (n == "ul") {
    if (op.h == 0) w.epoch.unlock();
    else w.accs[(size_t)op.h].unlock();
  } else if (n == "cr") {
    w.accs[(size_t)op.h] = w.epoch.create_accessor();
    res = (long long)w.accs[(size_t)op.h]._index;
  } else if (n == "rl") {
    w.accs[(size_t)op.h].release();
  } else if (n == "ti") {
    l.e = w.epoch.tick();
    for (int o : l.pend) l.retired.emplace_back(o, l.e);
    l.pend.clear();
    res = small(l.e);
  } else if (n == "lw") {
    l.mark = w.epoch.low_water_mark();
    res = small(l.mark);
  }
  vsched::eventf(true, "\"k\":\"ret\",\"op\":\"%s\",\"h\":%d,\"res\":%lld", ln, op.h, res);
}

void scenario_epoch(const vrun::Params& p) {
  auto prog = parse_prog(p.str("prog", "lk0.rd.df.ul0_un.ti.lw.rc"));
  size_t nh = (size_t)p.get("nh", 0);
  size_t pre = (size_t)p.get("pre", 0);
  static World w; // one per forked execution
  w.accs.resize(nh + 1);
  for (auto& m : w.mbox) m.store(0, std::memory_order_relaxed);
  // the first block of the slot vector (1024 slots) exists before the threads start; growing the vector is C04
  w.epoch._slots.ensure(0);
  for (size_t h = 1; h <= pre; h++) w.accs[h] = w.epoch.create_accessor();
  auto& tl_alloc = ::babylon::internal::concurrent_id_allocator::IdAllocatorFotType<Epoch, false>::instance();
  vsched::name_loc(&w.epoch._version, sizeof(w.epoch._version), "version");
  vsched::name_loc(&w.epoch._id_allocator._next_value, sizeof(w.epoch._id_allocator._next_value), "count");
  vsched::name_loc(&w.epoch._id_allocator._free_head, sizeof(w.epoch._id_allocator._free_head), "free");
  vsched::name_loc(&tl_alloc._next_value, sizeof(tl_alloc._next_value), "tcount");
  vsched::name_loc(&tl_alloc._free_head, sizeof(tl_alloc._free_head), "tfree");
  vsched::name_array(&w.epoch._slots[0], sizeof(Epoch::Slot), 16, "slot");
  vsched::name_loc(&w.ptr, sizeof(w.ptr), "ptr");
  vsched::name_array(&w.mbox[0], sizeof(w.mbox[0]), 8, "mbox");
  vsched::name_loc(&w.done, sizeof(w.done), "done");
  int nthreads = (int)prog.size();
  vrun::begin();
  {
    std::vector<std::thread> ths;
    for (size_t t = 0; t < prog.size(); t++) {
      ths.emplace_back([&, t] {
        Local l;
        l.tid = (int)t + 1;
        for (auto& op : prog[t]) run_op(w, l, op);
        // no thread exits (and gives its thread id back) before every thread is through its program
        w.done.fetch_add(1, std::memory_order_acq_rel);
        while (w.done.load(std::memory_order_acquire) < nthreads) usleep(100); // virtual time: not runnable meanwhile
      });
    }
    for (auto& th : ths) th.join();
  }
  // quiescent observation: everybody left -> nothing holds the mark back
  vsched::eventf(false, "\"k\":\"final\",\"mark\":%lld,\"version\":%lld", small(w.epoch.low_water_mark()),
                 small(w.epoch._version.load(std::memory_order_relaxed)));
  vsched::finish();
}

struct Reg {
  Reg() { vrun::add("epoch", scenario_epoch, "prog=lk0.rd.df.ul0_un.ti.lw.rc,ns=2,nh=0,pre=0"); }
} reg;

} // namespace

int main(int argc, char** argv) {
  return vrun::main(argc, argv);
}
