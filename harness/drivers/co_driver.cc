// Driver for babylon coroutines (property C13): real C++20 coroutines awaiting a
// coroutine futex, a cancellable wrapper, a child task or a future, run under vsched.
//
// params
//   wt     waiters separated by '-', each  <bound executor digit>:<round kinds>
//            m  futex.wait(matching value)           x  futex.wait(non-matching value)
//            c  futex.wait(matching) whose on_suspend callback cancels itself
//            d  futex.wait(value read from the futex word just before)  - with value changes (op u)
//            f  co_await Future<int>                  t  co_await child Task awaiting the future
//            i  co_await child Task that finishes at once
//            n  co_await Cancellable<Task<int>> (child awaits the future)
//   em     one char per executor: i = runs the function inside invoke (inline), q = queue + worker thread
//   cex    executor digit the child tasks (t, i, n) are bound to, 'u' = unbound (inherits / in place)
//   prog   threads separated by '_', operations by '.'
//            sW submit waiter W     k wake_one     a wake_all     cWR cancel round R of waiter W
//            u  store a new (never used before) value into the futex word (atomic_value().store)
//            tWR wait until the cancellation token of round R of waiter W exists
//            hE  hold executor E: queue a function that blocks its worker until rE (backlog), return once it runs
//            vWR set the future of round R of waiter W     wG / pG see park below
//
// events (L1 observables): wait / susp / res / done / spurious (coroutine side), call / ret (operations),
// inv (Executor::invoke seam: executor, ticket, innermost operation), final (quiescent observation)
#include <babylon/coroutine/cancelable.h>
#include <babylon/coroutine/futex.h>
#include <babylon/executor.h>
#include <babylon/future.h>

#include <stdlib.h>
#include <string.h>
#include <new>
#include <unistd.h>

#include <string>
#include <thread>
#include <vector>

#include "vrun.h"

#define NOINSTR __attribute__((no_instrument_function))

namespace {
struct Park {
  bool await_ready() const noexcept { return false; }
  void await_suspend(::std::coroutine_handle<>) const noexcept {}
  void await_resume() const noexcept {}
};
} // namespace

BABYLON_COROUTINE_NAMESPACE_BEGIN
template <>
class BasicPromise::Transformer<Park> {
 public:
  static Park await_transform(BasicPromise&, Park&& p) { return p; }
};
BABYLON_COROUTINE_NAMESPACE_END

namespace {

using ::babylon::MoveOnlyFunction;
using ::babylon::coroutine::Cancellable;
using ::babylon::coroutine::Futex;
using ::babylon::coroutine::Task;
using FNode = Futex::Node;
using CCancellation = ::babylon::coroutine::BasicCancellable::Cancellation;

constexpr uint64_t FVAL = 7;
constexpr uint64_t FNEVER = 9999;

constexpr int MAXW = 6, MAXR = 3;

thread_local int tl_ticket = 0;         // ticket of the executor run this thread is inside
thread_local int tl_ops[16];            // stack of operation ids in progress on this thread
thread_local int tl_nops = 0;
thread_local char tl_opk[16];          // first letter of the operation names on that stack
int g_ticket = 0, g_opid = 0;           // serialised by vsched
volatile int g_inflight = 0;

// directed staging at function boundaries of the unmodified babylon code (-finstrument-functions seam):
//   park=<site>:<opkind>:<nth>:<gate>[+...]   site rm = entry of Futex::remove_awaiter, de = return of IdAllocator::deallocate
// the nth time <site> is reached inside an operation of kind <opkind> (k wake_one, a wake_all, c cancel) the thread
// announces parked[gate] and sleeps (virtual time) until released[gate]; program ops: wG wait for parked[G], pG release G
struct ParkRule {
  char site[3];
  char opk;
  int nth, gate, seen;
};
ParkRule g_rules[4];
int g_nrules = 0;
volatile int g_parked[8], g_released[8];

NOINSTR char cur_opk() { return tl_nops ? tl_opk[tl_nops - 1] : 0; }
NOINSTR void at_site(const char* site) {
  for (int i = 0; i < g_nrules; i++) {
    ParkRule& r = g_rules[i];
    if (r.site[0] != site[0] || r.site[1] != site[1] || r.opk != cur_opk()) continue;
    if (++r.seen != r.nth) continue;
    vsched::eventf(true, "\"k\":\"parked\",\"site\":\"%s\",\"gate\":%d", site, r.gate);
    g_parked[r.gate] = 1;
    for (int spin = 0; !g_released[r.gate] && spin < 2000; spin++) ::usleep(50);
  }
}

int cur_op() { return tl_nops ? tl_ops[tl_nops - 1] : 0; }

struct DrvExec : public ::babylon::Executor {
  struct Item {
    MoveOnlyFunction<void(void)> fn;
    int tk {0};
  };
  int idx {0};
  bool queued {false};
  ::babylon::ConcurrentBoundedQueue<Item> q;
  std::thread worker;

  void run(MoveOnlyFunction<void(void)>& fn, int tk) noexcept {
    RunnerScope scope {*this};
    int old = tl_ticket;
    tl_ticket = tk;
    fn();
    tl_ticket = old;
  }
  int invoke(MoveOnlyFunction<void(void)>&& fn) noexcept override {
    int tk = ++g_ticket;
    vsched::eventf(true, "\"k\":\"inv\",\"ex\":%d,\"tk\":%d,\"op\":%d", idx, tk, cur_op());
    if (!queued) {
      MoveOnlyFunction<void(void)> f {::std::move(fn)};
      run(f, tk);
      return 0;
    }
    g_inflight = g_inflight + 1;
    q.push(Item {::std::move(fn), tk});
    return 0;
  }
  void loop() {
    for (;;) {
      Item it;
      q.pop(it);
      if (!it.fn) break;
      run(it.fn, it.tk);
      { MoveOnlyFunction<void(void)> drop {::std::move(it.fn)}; }
      g_inflight = g_inflight - 1;
    }
  }
  void start() {
    if (queued) {
      q.reserve_and_clear(16);
      worker = std::thread([this] { loop(); });
    }
  }
  void stop() {
    if (queued) {
      q.push(Item {});
      worker.join();
    }
  }
};

struct Op {
  char kind;
  int w, r;
};

struct Ctx {
  Futex futex;
  DrvExec ex[3];
  int nex {2};
  int cex {-1};
  int nw {0};
  int bound[MAXW];
  std::string kinds[MAXW];
  Futex::Cancellation ftok[MAXW][MAXR];
  CCancellation ctok[MAXW][MAXR];
  volatile int has_tok[MAXW][MAXR];
  volatile int over[MAXW][MAXR];
  volatile int done[MAXW];
  volatile int submitted[MAXW];
  ::babylon::Promise<int> prom[MAXW][MAXR];
  ::babylon::Future<int> fut[MAXW][MAXR];
  volatile int fset[MAXW][MAXR];
  int maxsim {0};
};

int running_ex(Ctx* c) {
  for (int e = 0; e < c->nex; e++)
    if (c->ex[e].is_running_in()) return e;
  return -1;
}

int want_of(int w, int r) { return 100 + 10 * w + r; }

struct OpScope {
  int id;
  OpScope(const char* op, int w, int r) {
    id = ++g_opid;
    vsched::eventf(true, "\"k\":\"call\",\"id\":%d,\"op\":\"%s\",\"w\":%d,\"r\":%d", id, op, w, r);
    tl_opk[tl_nops] = op[0] == 'w' ? (op[4] == '1' ? 'k' : 'a') : op[0];
    tl_ops[tl_nops++] = id;
  }
  void ret(const char* op, int w, int r, long res) {
    tl_nops--;
    vsched::eventf(true, "\"k\":\"ret\",\"id\":%d,\"op\":\"%s\",\"w\":%d,\"r\":%d,\"res\":%ld", id, op, w, r, res);
  }
};

Task<int> child_future(Ctx* c, int w, int r) {
  int v = co_await c->fut[w][r];
  co_return v;
}
Task<int> child_now(Ctx*, int, int) {
  co_return 7;
}

template <typename T>
T&& bind_child(Ctx* c, T&& task) {
  if (c->cex >= 0) task.set_executor(c->ex[c->cex]);
  return ::std::move(task);
}

Task<> waiter(Ctx* c, int w) {
  const std::string kinds = c->kinds[w];
  for (int r = 0; r < (int)kinds.size(); r++) {
    char kd = kinds[(size_t)r];
    bool isfx = kd == 'm' || kd == 'x' || kd == 'c' || kd == 'd';
    const char* kname = isfx ? "futex" : kd == 'f' ? "future" : kd == 'n' ? "cancel" : "task";
    uint64_t expv = kd == 'x' ? FNEVER : kd == 'd' ? c->futex.atomic_value().load(::std::memory_order_acquire) : FVAL;
    vsched::eventf(true, "\"k\":\"wait\",\"w\":%d,\"r\":%d,\"kind\":\"%s\",\"exp\":%d,\"tk\":%d,\"bound\":%d,\"ib\":%s", w, r, kname, (int)expv, tl_ticket, c->bound[w], (kd == 'n' && c->cex < 0) ? "false" : "true");
    int has = 1, val = 0, want = 0;
    if (isfx) {
      // the awaitable is owned by the driver (never freed): await_suspend may still be running on the
      // suspending thread when another thread has already resumed this coroutine
      auto* aw = new Futex::Awaitable(c->futex.wait(expv));
      aw->on_suspend([c, w, r, kd](Futex::Cancellation&& tok) {
        c->ftok[w][r] = tok;
        vsched::eventf(true, "\"k\":\"susp\",\"w\":%d,\"r\":%d,\"slot\":%d,\"ver\":%d", w, r, (int)tok._id.value, (int)(tok._id.version & 0xffff));
        c->has_tok[w][r] = 1;
        if (kd == 'c') {
          OpScope s("cancel", w, r);
          bool ok = tok();
          s.ret("cancel", w, r, ok ? 1 : 0);
        }
      });
      co_await ::std::move(*aw);
    } else if (kd == 'f') {
      want = want_of(w, r);
      val = co_await c->fut[w][r];
    } else if (kd == 't') {
      want = want_of(w, r);
      val = co_await bind_child(c, child_future(c, w, r));
    } else if (kd == 'i') {
      want = 7;
      val = co_await bind_child(c, child_now(c, w, r));
    } else if (kd == 'n') {
      want = want_of(w, r);
      auto* cw = new Cancellable<Task<int>>(bind_child(c, child_future(c, w, r)));
      cw->on_suspend([c, w, r](CCancellation&& tok) {
        c->ctok[w][r] = tok;
        vsched::eventf(true, "\"k\":\"susp\",\"w\":%d,\"r\":%d,\"slot\":%d,\"ver\":%d", w, r, (int)tok._id.value, (int)(tok._id.version & 0xffff));
        c->has_tok[w][r] = 1;
      });
      auto res = co_await ::std::move(*cw);
      has = res ? 1 : 0;
      val = res ? *res : 0;
    }
    vsched::eventf(true, "\"k\":\"res\",\"w\":%d,\"r\":%d,\"tk\":%d,\"ex\":%d,\"bound\":%d,\"has\":%s,\"val\":%d,\"want\":%d", w, r, tl_ticket, running_ex(c), c->bound[w], has ? "true" : "false", val, want);
    c->over[w][r] = 1;
  }
  vsched::eventf(true, "\"k\":\"done\",\"w\":%d", w);
  c->done[w] = 1;
  // keep the frame: a resumption nobody is entitled to shows up as an event instead of a wild jump
  for (;;) {
    co_await Park {};
    vsched::eventf(true, "\"k\":\"spurious\",\"w\":%d", w);
  }
}

std::vector<std::vector<Op>> parse_prog(const std::string& s) {
  std::vector<std::vector<Op>> prog;
  prog.emplace_back();
  size_t i = 0;
  while (i <= s.size()) {
    size_t j = s.find_first_of("._", i);
    if (j == std::string::npos) j = s.size();
    std::string tok = s.substr(i, j - i);
    if (!tok.empty()) {
      Op op {tok[0], 0, 0};
      if (tok.size() > 1) op.w = tok[1] - '0';
      if (tok.size() > 2) op.r = tok[2] - '0';
      prog.back().push_back(op);
    }
    if (j < s.size() && s[j] == '_') prog.emplace_back();
    i = j + 1;
  }
  return prog;
}

void set_future(Ctx* c, int w, int r, const char* opname) {
  if (c->fset[w][r]) return;
  c->fset[w][r] = 1;
  OpScope s(opname, w, r);
  c->prom[w][r].set_value(want_of(w, r));
  s.ret(opname, w, r, 0);
}

void run_op(Ctx* c, const Op& op) {
  switch (op.kind) {
    case 's': {
      OpScope s("submit", op.w, 0);
      c->submitted[op.w] = 1;
      int rc = c->ex[c->bound[op.w]].submit(waiter(c, op.w));
      s.ret("submit", op.w, 0, rc);
      break;
    }
    case 'k': {
      OpScope s("wake1", 0, 0);
      int n = c->futex.wake_one();
      s.ret("wake1", 0, 0, n);
      break;
    }
    case 'a': {
      OpScope s("wakeall", 0, 0);
      int n = c->futex.wake_all();
      s.ret("wakeall", 0, 0, n);
      break;
    }
    case 'c': {
      // wait (virtual time) until the token exists or the round is over without one
      for (int spin = 0; !c->has_tok[op.w][op.r] && !c->over[op.w][op.r] && spin < 400; spin++) ::usleep(50);
      if (!c->has_tok[op.w][op.r]) {
        vsched::eventf(true, "\"k\":\"skip\",\"op\":\"cancel\",\"w\":%d,\"r\":%d", op.w, op.r);
        break;
      }
      char kd = c->kinds[op.w][(size_t)op.r];
      OpScope s("cancel", op.w, op.r);
      bool ok = (kd == 'n') ? c->ctok[op.w][op.r]() : c->ftok[op.w][op.r]();
      s.ret("cancel", op.w, op.r, ok ? 1 : 0);
      break;
    }
    case 'v':
      set_future(c, op.w, op.r, "setval");
      break;
    case 'u': {   // the waker's half of the protocol: change the word, then (next op) wake
      OpScope s("setv", 0, 0);   // values only grow: the new value is known when the store has happened
      int v = (int)c->futex.atomic_value().fetch_add(1, ::std::memory_order_seq_cst) + 1;
      s.ret("setv", 0, 0, v);
      break;
    }
    case 't':
      for (int spin = 0; !c->has_tok[op.w][op.r] && !c->over[op.w][op.r] && spin < 2000; spin++) ::usleep(50);
      break;
    case 'h': {
      int g = 4 + op.w;
      c->ex[op.w].invoke([g] {
        g_parked[g] = 1;
        for (int spin = 0; !g_released[g] && spin < 4000; spin++) ::usleep(50);
      });
      for (int spin = 0; !g_parked[g] && spin < 2000; spin++) ::usleep(50);
      break;
    }
    case 'r':
      g_released[4 + op.w] = 1;
      break;
    case 'w':
      for (int spin = 0; !g_parked[op.w] && !g_released[op.w] && spin < 2000; spin++) ::usleep(50);
      break;
    case 'p':
      g_released[op.w] = 1;
      break;
    default:
      break;
  }
}

void wait_idle() {
  for (int i = 0; g_inflight != 0 && i < 2000; i++) ::usleep(100);
}

template <typename B>
void box_stats(B& box, int* alloc, int* live) {
  *alloc = (int)box._slot_id_allocator.end();
  int n = 0;
  box._slot_id_allocator.for_each([&](uint32_t b, uint32_t e) { n += (int)(e - b); });
  *live = n;
}

void scenario_co(const vrun::Params& p) {
  static Ctx ctx; // fresh per forked child
  Ctx* c = &ctx;
  std::string em = p.str("em", "ii");
  c->nex = (int)em.size();
  for (int e = 0; e < c->nex; e++) {
    c->ex[e].idx = e;
    c->ex[e].queued = em[(size_t)e] == 'q';
  }
  std::string cex = p.str("cex", "u");
  c->cex = cex[0] == 'u' ? -1 : cex[0] - '0';
  std::string wt = p.str("wt", "0:m");
  {
    size_t i = 0;
    while (i <= wt.size() && c->nw < MAXW) {
      size_t j = wt.find('-', i);
      if (j == std::string::npos) j = wt.size();
      std::string one = wt.substr(i, j - i);
      if (one.size() >= 3) {
        c->bound[c->nw] = one[0] - '0';
        c->kinds[c->nw] = one.substr(2, MAXR);
        c->nw++;
      }
      i = j + 1;
    }
  }
  for (int w = 0; w < c->nw; w++)
    for (int r = 0; r < MAXR; r++) c->fut[w][r] = c->prom[w][r].get_future();
  auto prog = parse_prog(p.str("prog", "s0_k"));
  {
    std::string pk = p.str("park", "");
    size_t i = 0;
    while (i < pk.size() && g_nrules < 4) {
      size_t j = pk.find('+', i);
      if (j == std::string::npos) j = pk.size();
      std::string one = pk.substr(i, j - i); // rm:c:1:1
      if (one.size() >= 8) {
        ParkRule& r = g_rules[g_nrules++];
        r.site[0] = one[0];
        r.site[1] = one[1];
        r.site[2] = 0;
        r.opk = one[3];
        r.nth = one[5] - '0';
        r.gate = one[7] - '0';
        r.seen = 0;
      }
      i = j + 1;
    }
  }
  c->futex.value() = FVAL;
  vsched::name_loc(&c->futex._mutex, sizeof(c->futex._mutex), "fmutex");
  vsched::name_loc(&c->futex._value, sizeof(c->futex._value), "fvalue");
  vrun::begin();
  for (int e = 0; e < c->nex; e++) c->ex[e].start();
  {
    std::vector<std::thread> ths;
    for (size_t t = 0; t < prog.size(); t++) {
      ths.emplace_back([&, t] {
        for (auto& op : prog[t]) run_op(c, op);
      });
    }
    for (auto& th : ths) th.join();
  }
  // drive to quiescence: complete every future, then wake until nobody is left
  wait_idle();
  for (int w = 0; w < c->nw; w++)
    for (int r = 0; r < (int)c->kinds[w].size(); r++)
      if (strchr("ftn", c->kinds[w][(size_t)r])) {
        set_future(c, w, r, "setval");
        wait_idle();
      }
  for (int it = 0; it < 8; it++) {
    bool all = true;
    for (int w = 0; w < c->nw; w++) all = all && (!c->submitted[w] || c->done[w]);
    if (all) break;
    OpScope s("wakeall", 1, 0); // w = 1: issued by the driver at quiescence
    int n = c->futex.wake_all();
    s.ret("wakeall", 1, 0, n);
    wait_idle();
    if (n == 0) break;
  }
  for (int e = 0; e < c->nex; e++) c->ex[e].stop();
  int alive = 0;
  for (int w = 0; w < c->nw; w++) alive += (c->submitted[w] && !c->done[w]) ? 1 : 0;
  int fa = 0, fl = 0, ca = 0, cl = 0;
  box_stats(::babylon::DepositBox<FNode>::instance(), &fa, &fl);
  box_stats(::babylon::DepositBox<::babylon::coroutine::BasicCancellable*>::instance(), &ca, &cl);
  vsched::eventf(false, "\"k\":\"final\",\"alive\":%d,\"falloc\":%d,\"flive\":%d,\"calloc\":%d,\"clive\":%d,\"listed\":%s", alive, fa, fl, ca, cl, c->futex._awaiter_head.next ? "true" : "false");
  vsched::finish();
}

struct Reg {
  Reg() { vrun::add("co", scenario_co, "wt=0:m,em=ii,cex=u,prog=s0_k,park="); }
} reg;

} // namespace

// Freed memory is overwritten with a pattern (sized header in front of every block), so that a read of a destroyed
// coroutine frame yields the same non-zero garbage in every execution instead of whatever the allocator left there.
namespace {
constexpr size_t HDR = 16;
NOINSTR void* poison_new(size_t n) {
  char* p = (char*)::malloc(n + HDR);
  if (p == nullptr) ::abort();
  *(size_t*)p = n;
  return p + HDR;
}
NOINSTR void poison_delete(void* q) noexcept {
  if (q == nullptr) return;
  char* p = (char*)q - HDR;
  ::memset(q, 0xCB, *(size_t*)p);
  ::free(p);
}
} // namespace
void* operator new(size_t n) { return poison_new(n); }
void* operator new[](size_t n) { return poison_new(n); }
void* operator new(size_t n, const std::nothrow_t&) noexcept { return poison_new(n); }
void* operator new[](size_t n, const std::nothrow_t&) noexcept { return poison_new(n); }
void operator delete(void* p) noexcept { poison_delete(p); }
void operator delete[](void* p) noexcept { poison_delete(p); }
void operator delete(void* p, size_t) noexcept { poison_delete(p); }
void operator delete[](void* p, size_t) noexcept { poison_delete(p); }
void operator delete(void* p, const std::nothrow_t&) noexcept { poison_delete(p); }
void operator delete[](void* p, const std::nothrow_t&) noexcept { poison_delete(p); }

// -finstrument-functions seam (no babylon source change): the return of IdAllocator<uint32_t>::deallocate,
// i.e. the moment DepositBox::finish_released has made the slot reusable, is a schedule point.  Without it the
// plain load that follows (Futex::wake_all: node = node->next) could never be separated from the release.
extern "C" {
NOINSTR void __cyg_profile_func_enter(void* fn, void*) {
#pragma GCC diagnostic push
#pragma GCC diagnostic ignored "-Wpmf-conversions"
  static void* const target = (void*)(&::babylon::coroutine::Futex::remove_awaiter);
#pragma GCC diagnostic pop
  if (fn == target && vsched::active()) at_site("rm");
}
NOINSTR void __cyg_profile_func_exit(void* fn, void*) {
#pragma GCC diagnostic push
#pragma GCC diagnostic ignored "-Wpmf-conversions"
  static void* const target = (void*)(&::babylon::IdAllocator<uint32_t>::deallocate);
#pragma GCC diagnostic pop
  if (fn == target && vsched::active()) {
    vsched::event("\"k\":\"released\"", true);
    at_site("de");
  }
}
}

int main(int argc, char** argv) {
  return vrun::main(argc, argv);
}
