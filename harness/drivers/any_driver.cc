// X02: babylon::Any driven by operation scripts generated from the TLC state graph of spec/AnyBox.tla.
// Every script runs in a forked child on fresh objects; after every operation the child prints the observable
// projection of ALL Any variables (what the public API shows) plus the ledger of the instrumented payload types.
// Nothing is judged here: the lines are validated by TLC against spec/AnyBox_Trace.tla.
//
//   any_driver --scripts FILE --out FILE
//   script line:  id|nvars|ext types (comma separated, may be empty)|op,a,b,ty,c,how;op,a,b,ty,c,how;...
#include <babylon/any.h>

#include <fcntl.h>
#include <sys/mman.h>
#include <sys/resource.h>
#include <sys/wait.h>
#include <unistd.h>

#include <cstdint>
#include <cstdio>
#include <cstdlib>
#include <cstring>
#include <fstream>
#include <memory>
#include <set>
#include <sstream>
#include <string>
#include <vector>

using babylon::Any;

extern "C" const char* __asan_default_options() { return "detect_leaks=0:abort_on_error=0:exitcode=66"; }

// ---------------------------------------------------------------- instrumented payload types
static int g_next_id = 0;
static std::set<int> g_live[3];          // P, Q, S: ids of live objects
static long g_ctor = 0, g_dtor = 0, g_err = 0;

static int born(int k) { int id = ++g_next_id; g_live[k].insert(id); ++g_ctor; return id; }
static void died(int k, int id) { if (g_live[k].erase(id) != 1) { ++g_err; } ++g_dtor; }

struct P {   // > 8 bytes, copyable
  int id; int val; long pad[3];
  explicit P(int v) : id(born(0)), val(v), pad{7, 7, 7} {}
  P(const P& o) : id(born(0)), val(o.val), pad{7, 7, 7} {}
  P(P&& o) : id(born(0)), val(o.val), pad{7, 7, 7} {}
  P& operator=(const P&) = delete;
  ~P() { died(0, id); val = -777; id = -1; }
};
struct Q {   // > 8 bytes, neither copyable nor movable
  int id; int val; long pad[3];
  explicit Q(int v) : id(born(1)), val(v), pad{9, 9, 9} {}
  Q(const Q&) = delete;
  Q(Q&&) = delete;
  ~Q() { died(1, id); val = -777; id = -1; }
};
struct S {   // <= 8 bytes, non-trivial, copyable: lives in Any::_holder
  int id; int val;
  explicit S(int v) : id(born(2)), val(v) {}
  S(const S& o) : id(born(2)), val(o.val) {}
  S(S&& o) : id(born(2)), val(o.val) {}
  S& operator=(const S&) = delete;
  ~S() { died(2, id); val = -777; id = -1; }
};
struct T { int32_t v; };   // small trivial class type: inline, Type::INSTANCE
static_assert(sizeof(P) > 8 && sizeof(Q) > 8 && sizeof(S) <= 8 && std::is_trivial<T>::value, "payload layout");

// ---------------------------------------------------------------- type table (the tags of AnyBox.tla)
enum Tag { tP, tQ, tS, tT, ti64, ti32, ti16, ti8, tu64, tu32, tu16, tu8, tbool, tdbl, tf32, NTAG };
static const char* TAGS[NTAG] = {"P", "Q", "S", "T", "i64", "i32", "i16", "i8", "u64", "u32", "u16", "u8", "bool", "dbl", "f32"};
template <int K> struct TT;
#define DEF_TT(k, type) template <> struct TT<k> { typedef type type_t; };
DEF_TT(tP, P) DEF_TT(tQ, Q) DEF_TT(tS, S) DEF_TT(tT, T) DEF_TT(ti64, int64_t) DEF_TT(ti32, int32_t) DEF_TT(ti16, int16_t)
DEF_TT(ti8, int8_t) DEF_TT(tu64, uint64_t) DEF_TT(tu32, uint32_t) DEF_TT(tu16, uint16_t) DEF_TT(tu8, uint8_t)
DEF_TT(tbool, bool) DEF_TT(tdbl, double) DEF_TT(tf32, float)

static int tag_of(const std::string& s) {
  for (int i = 0; i < NTAG; ++i) if (s == TAGS[i]) return i;
  return -1;
}
// the two values of every type (V1 / V2 of the specification; doubles and floats are reported as twice their value)
static const long VAL1[NTAG] = {1, 1, 1, 1, -4, -3, -2, -1, 100000, 70000, 65535, 200, 1, 5, 1};
static const long VAL2[NTAG] = {2, 2, 2, 2, 100000, 70000, 300, 100, 6, 5, 300, 7, 0, 201, 15};

template <typename X> struct Acc;     // read / write the abstract value of a payload
template <> struct Acc<P> { static long get(const P& x) { return x.val; } static void set(P& x, long v) { x.val = (int)v; } };
template <> struct Acc<Q> { static long get(const Q& x) { return x.val; } static void set(Q& x, long v) { x.val = (int)v; } };
template <> struct Acc<S> { static long get(const S& x) { return x.val; } static void set(S& x, long v) { x.val = (int)v; } };
template <> struct Acc<T> { static long get(const T& x) { return x.v; } static void set(T& x, long v) { x.v = (int32_t)v; } };
template <typename X> struct Acc {   // integers
  static long get(const X& x) { return (long)x; }
  static void set(X& x, long v) { x = (X)v; }
};
template <> struct Acc<double> { static long get(const double& x) { return (long)(x * 2); } static void set(double& x, long v) { x = v / 2.0; } };
template <> struct Acc<float> { static long get(const float& x) { return (long)(x * 2); } static void set(float& x, long v) { x = v / 2.0f; } };
template <> struct Acc<bool> { static long get(const bool& x) { return x ? 1 : 0; } static void set(bool& x, long v) { x = v != 0; } };

template <typename X> struct Make {   // construct a payload with abstract value v
  static X make(long v) { X x; Acc<X>::set(x, v); return x; }
  static X* heap(long v) { X* x = new X; Acc<X>::set(*x, v); return x; }
};
template <> struct Make<P> { static P make(long v) { return P((int)v); } static P* heap(long v) { return new P((int)v); } };
template <> struct Make<S> { static S make(long v) { return S((int)v); } static S* heap(long v) { return new S((int)v); } };
template <> struct Make<Q> { static Q* heap(long v) { return new Q((int)v); } };

// ---------------------------------------------------------------- the objects under test
static const int MAXV = 3;
alignas(Any) static char g_store[MAXV][sizeof(Any)];
static int g_nvars = 0;
static Any& V(int a) { return *reinterpret_cast<Any*>(g_store[a - 1]); }
static std::vector<int> g_ext_tag;      // tag of external object e (1-based)
static std::vector<void*> g_ext_ptr;

static const long BIG = 1073741824L;
template <typename R> static long rep_int(R r) {
  if (std::is_unsigned<R>::value) { uint64_t u = (uint64_t)r; return u >= (uint64_t)BIG ? BIG : (long)u; }
  int64_t s = (int64_t)r; return (s >= BIG || s <= -BIG) ? BIG : (long)s;
}
static long rep_f(double d) {
  double t = d * 2;
  if (!(t > -(double)BIG && t < (double)BIG) || t != (double)(long)t) return BIG;
  return (long)t;
}

struct VarObs {
  std::string gt, cg;   // JSON arrays of tags with get<T>() / cget<T>() != nullptr
  const void* ptr = nullptr;
  int tag = -1;
  long val = 0;
};
template <int K> static void probe(Any& a, VarObs& o, bool first_g[2]) {
  typedef typename TT<K>::type_t X;
  X* g = a.get<X>();
  const X* c = a.cget<X>();
  const X* c2 = const_cast<const Any&>(a).get<X>();
  if (c != c2) ++g_err;                              // const get == cget
  if (g != nullptr) { o.gt += (first_g[0] ? "\"" : ",\""); o.gt += TAGS[K]; o.gt += "\""; first_g[0] = false; if (g != c) ++g_err; }
  if (c != nullptr) {
    o.cg += (first_g[1] ? "\"" : ",\""); o.cg += TAGS[K]; o.cg += "\""; first_g[1] = false;
    if (o.ptr == nullptr) { o.ptr = c; o.tag = K; o.val = Acc<X>::get(*c); }
  }
}
template <int K> struct ProbeAll { static void run(Any& a, VarObs& o, bool f[2]) { ProbeAll<K - 1>::run(a, o, f); probe<K - 1>(a, o, f); } };
template <> struct ProbeAll<0> { static void run(Any&, VarObs&, bool[2]) {} };

static const char* type_name(Any::Type t) {
  switch (t) {
    case Any::Type::EMPTY: return "EMPTY"; case Any::Type::INSTANCE: return "INSTANCE";
    case Any::Type::INT64: return "i64"; case Any::Type::INT32: return "i32"; case Any::Type::INT16: return "i16"; case Any::Type::INT8: return "i8";
    case Any::Type::UINT64: return "u64"; case Any::Type::UINT32: return "u32"; case Any::Type::UINT16: return "u16"; case Any::Type::UINT8: return "u8";
    case Any::Type::BOOLEAN: return "bool"; case Any::Type::DOUBLE: return "dbl"; case Any::Type::FLOAT: return "f32";
  }
  return "?";
}
template <int K> struct IdTag { static const char* find(const babylon::Id& id) { if (&id == &babylon::TypeId<typename TT<K - 1>::type_t>::ID) return TAGS[K - 1]; return IdTag<K - 1>::find(id); } };
template <> struct IdTag<0> { static const char* find(const babylon::Id&) { return "?"; } };

static void print_state(FILE* f) {
  VarObs obs[MAXV];
  for (int a = 1; a <= g_nvars; ++a) { bool fg[2] = {true, true}; ProbeAll<NTAG>::run(V(a), obs[a - 1], fg); }
  fprintf(f, "\"o\":[");
  for (int a = 1; a <= g_nvars; ++a) {
    Any& x = V(a);
    const Any& cx = x;
    VarObs& o = obs[a - 1];
    bool ne = static_cast<bool>(cx);
    const char* tn = ne ? IdTag<NTAG>::find(cx.instance_type()) : "none";
    int64_t tov = 0;
    int to = cx.to(tov);
    // location of the object behind cget
    const char* lk = "n"; int li = 0;
    if (o.ptr != nullptr) {
      lk = "h";
      for (int b = 1; b <= g_nvars; ++b) { const char* p = (const char*)o.ptr; if (p >= g_store[b - 1] && p < g_store[b - 1] + sizeof(Any)) { lk = "v"; li = b; } }
      for (size_t e = 0; e < g_ext_ptr.size(); ++e) if (o.ptr == g_ext_ptr[e]) { lk = "x"; li = (int)e + 1; }
    }
    int al = 0;
    if (o.ptr != nullptr) for (int b = g_nvars; b >= 1; --b) if (obs[b - 1].ptr == o.ptr) al = b;
    fprintf(f, "%s{\"ne\":%s,\"te\":\"%s\",\"rf\":%s,\"cr\":%s,\"gt\":[%s],\"cg\":[%s],\"tn\":\"%s\",\"vl\":%ld,", a > 1 ? "," : "", ne ? "true" : "false",
            type_name(cx.type()), cx.is_reference() ? "true" : "false", cx.is_const_reference() ? "true" : "false", o.gt.c_str(), o.cg.c_str(), tn, o.val);
    fprintf(f, "\"as\":[%ld,%ld,%ld,%ld,%ld,%ld,%ld,%ld,%ld,%ld,%ld],", rep_int(cx.as<int64_t>()), rep_int(cx.as<int32_t>()), rep_int(cx.as<int16_t>()),
            rep_int(cx.as<int8_t>()), rep_int(cx.as<uint64_t>()), rep_int(cx.as<uint32_t>()), rep_int(cx.as<uint16_t>()), rep_int(cx.as<uint8_t>()),
            (long)(cx.as<bool>() ? 1 : 0), rep_f(cx.as<double>()), rep_f((double)cx.as<float>()));
    if (to == 0 && rep_int(tov) != rep_int(cx.as<int64_t>())) ++g_err;
    fprintf(f, "\"to\":%d,\"lc\":[\"%s\",%d],\"al\":%d}", to, lk, li, al);
  }
  fprintf(f, "],\"lv\":[%zu,%zu,%zu],\"xs\":[", g_live[0].size(), g_live[1].size(), g_live[2].size());
  for (size_t e = 0; e < g_ext_ptr.size(); ++e) {
    long v = g_ext_tag[e] == tP ? ((P*)g_ext_ptr[e])->val : g_ext_tag[e] == tQ ? ((Q*)g_ext_ptr[e])->val : ((S*)g_ext_ptr[e])->val;
    fprintf(f, "%s%ld", e ? "," : "", v);
  }
  fprintf(f, "]");
}

// ---------------------------------------------------------------- operations
struct Op { std::string op; int a = 0, b = 0; std::string ty, c; int how = 0; };
struct Res { long nc = 0, nd = 0, rl = 0, rv = 0; };
struct Bracket {   // payload constructions / destructions performed between open and close = by Any code
  long c0, d0; Res& r;
  explicit Bracket(Res& res) : c0(g_ctor), d0(g_dtor), r(res) {}
  void close() { r.nc = g_ctor - c0; r.nd = g_dtor - d0; }
};
static void unsupported(const Op& o) { fprintf(stderr, "any_driver: unsupported operation %s ty=%s how=%d\n", o.op.c_str(), o.ty.c_str(), o.how); _exit(3); }

template <typename X> static void op_val(const Op& o, Res& r) {
  X tmp = Make<X>::make(VAL1[tag_of(o.ty)]);
  Any& a = V(o.a);
  Bracket br(r);
  switch (o.how % 3) {
    case 0: a = std::move(tmp); break;                                   // operator=(T&&) -> Any(T&&)
    case 1: a = tmp; break;                                              // operator=(T&)  -> Any(const T&) copy
    default: a.~Any(); new (&a) Any(std::move(tmp)); break;              // ~Any + constructor
  }
  br.close();
}
template <typename X, bool CLASS> struct PtrErased {
  static bool run(Any&, std::unique_ptr<X>&, int) { return false; }
};
template <typename X> struct PtrErased<X, true> {
  static bool run(Any& a, std::unique_ptr<X>& p, int how) {
    if (how == 2) { a.assign(Any::descriptor<X>(), p.release()); return true; }
    if (how == 3) { a.~Any(); new (&a) Any(Any::descriptor<X>(), static_cast<void*>(p.release())); return true; }
    return false;
  }
};
template <typename X> static void op_ptr(const Op& o, Res& r) {
  std::unique_ptr<X> p(Make<X>::heap(VAL1[tag_of(o.ty)]));
  Any& a = V(o.a);
  Bracket br(r);
  int how = o.how % 4;
  if (!PtrErased<X, std::is_class<X>::value>::run(a, p, how)) {
    if (how % 2 == 0) a = std::move(p); else { a.~Any(); new (&a) Any(std::move(p)); }
  }
  br.close();
}
template <typename X> static void op_ref(const Op& o, Res& r) {
  X* x = (X*)g_ext_ptr[o.b - 1];
  const X* cx = x;
  Any& a = V(o.a);
  Bracket br(r);
  int how = o.how % 3;
  if (o.c == "mref") {
    if (how == 2) a.ref(Any::descriptor<X>(), static_cast<void*>(x)); else a.ref(*x);
  } else {
    if (how == 0) a.cref(*cx); else if (how == 1) a.ref(*cx); else a.cref(Any::descriptor<X>(), static_cast<const void*>(cx));
  }
  br.close();
}
template <typename X> static void op_rel(const Op& o, Res& r) {
  Any& a = V(o.a);
  std::unique_ptr<X> p;
  { Bracket br(r); p = a.release<X>(); br.close(); }
  if (p) { r.rl = 1; r.rv = Acc<X>::get(*p); }
}
template <int K> struct Poke {
  static bool run(Any& a) {
    typedef typename TT<K - 1>::type_t X;
    X* g = a.get<X>();
    if (g != nullptr) { long v = Acc<X>::get(*g); Acc<X>::set(*g, v == VAL1[K - 1] ? VAL2[K - 1] : VAL1[K - 1]); return true; }
    return Poke<K - 1>::run(a);
  }
};
template <> struct Poke<0> { static bool run(Any&) { return false; } };

#define BY_TAG(fn, tg, ...)                                                                                              \
  switch (tg) {                                                                                                          \
    case ti64: fn<int64_t>(__VA_ARGS__); break; case ti32: fn<int32_t>(__VA_ARGS__); break; case ti16: fn<int16_t>(__VA_ARGS__); break; \
    case ti8: fn<int8_t>(__VA_ARGS__); break; case tu64: fn<uint64_t>(__VA_ARGS__); break; case tu32: fn<uint32_t>(__VA_ARGS__); break; \
    case tu16: fn<uint16_t>(__VA_ARGS__); break; case tu8: fn<uint8_t>(__VA_ARGS__); break; case tbool: fn<bool>(__VA_ARGS__); break;   \
    case tdbl: fn<double>(__VA_ARGS__); break; case tf32: fn<float>(__VA_ARGS__); break;                                  \
    case tP: fn<P>(__VA_ARGS__); break; case tS: fn<S>(__VA_ARGS__); break; case tT: fn<T>(__VA_ARGS__); break;          \
    default: unsupported(o);                                                                                             \
  }

static void execute(const Op& o, Res& r) {
  int tg = tag_of(o.ty);
  if (o.op == "val") {
    BY_TAG(op_val, tg, o, r)
  } else if (o.op == "ptr") {
    if (tg == tQ) op_ptr<Q>(o, r); else { BY_TAG(op_ptr, tg, o, r) }
  } else if (o.op == "ref") {
    int et = g_ext_tag[o.b - 1];
    if (et == tP) op_ref<P>(o, r); else if (et == tQ) op_ref<Q>(o, r); else if (et == tS) op_ref<S>(o, r); else unsupported(o);
  } else if (o.op == "refany") {
    Any& a = V(o.a); Any& b = V(o.b); const Any& cb = b;
    Bracket br(r);
    if (o.c == "mref") a.ref(b); else if (o.how % 2 == 0) a.cref(cb); else a.ref(cb);
    br.close();
  } else if (o.op == "copy") {
    Any& a = V(o.a); Any& b = V(o.b); const Any& cb = b;
    Bracket br(r);
    int how = o.how % 4;
    if (o.a == o.b) how %= 2;
    if (how == 0) a = cb; else if (how == 1) a = b; else if (how == 2) { a.~Any(); new (&a) Any(cb); } else { a.~Any(); new (&a) Any(b); }
    br.close();
  } else if (o.op == "move") {
    Any& a = V(o.a); Any& b = V(o.b);
    Bracket br(r);
    if (o.a == o.b || o.how % 2 == 0) a = std::move(b); else { a.~Any(); new (&a) Any(std::move(b)); }
    br.close();
  } else if (o.op == "clear") {
    Any& a = V(o.a);
    Bracket br(r);
    if (o.how % 2 == 0) a.clear(); else { a.~Any(); new (&a) Any; }
    br.close();
  } else if (o.op == "rel") {
    if (tg == tQ) op_rel<Q>(o, r); else { BY_TAG(op_rel, tg, o, r) }
  } else if (o.op == "relany") {
    Any& a = V(o.a);
    VarObs before; bool fg[2] = {true, true};
    ProbeAll<NTAG>::run(a, before, fg);
    std::unique_ptr<void, void (*)(void*)> p(nullptr, nullptr);
    { Bracket br(r); p = a.release(); br.close(); }
    if (p) { r.rl = 1; r.rv = before.val; if (p.get() != before.ptr) ++g_err; }
  } else if (o.op == "poke") {
    if (!Poke<NTAG>::run(V(o.a))) ++g_err;
  } else if (o.op == "pokex") {
    int et = g_ext_tag[o.b - 1];
    if (et == tP) { P* x = (P*)g_ext_ptr[o.b - 1]; x->val = 3 - x->val; }
    else if (et == tQ) { Q* x = (Q*)g_ext_ptr[o.b - 1]; x->val = 3 - x->val; }
    else { S* x = (S*)g_ext_ptr[o.b - 1]; x->val = 3 - x->val; }
  } else {
    unsupported(o);
  }
}

// ---------------------------------------------------------------- script handling
static std::vector<std::string> split(const std::string& s, char d) {
  std::vector<std::string> out; std::string cur; std::istringstream is(s);
  while (std::getline(is, cur, d)) out.push_back(cur);
  return out;
}
static Op parse_op(const std::string& tok) {
  auto p = split(tok, ',');
  Op o;
  if (p.size() != 6) { fprintf(stderr, "any_driver: bad token '%s'\n", tok.c_str()); exit(3); }
  o.op = p[0]; o.a = atoi(p[1].c_str()); o.b = atoi(p[2].c_str()); o.ty = p[3]; o.c = p[4]; o.how = atoi(p[5].c_str());
  return o;
}
static void print_op(FILE* f, const Op& o) {
  fprintf(f, "\"op\":\"%s\",\"a\":%d,\"b\":%d,\"ty\":\"%s\",\"c\":\"%s\",\"how\":%d", o.op.c_str(), o.a, o.b, o.ty.c_str(), o.c.c_str(), o.how);
}

static void child(const std::vector<Op>& ops, const std::vector<std::string>& ext, int nvars, FILE* out, volatile int* done) {
  g_nvars = nvars;
  for (int a = 1; a <= nvars; ++a) new (&V(a)) Any;
  for (auto& e : ext) {
    int t = tag_of(e);
    g_ext_tag.push_back(t);
    g_ext_ptr.push_back(t == tP ? (void*)new P(1) : t == tQ ? (void*)new Q(1) : t == tS ? (void*)new S(1) : nullptr);
    if (g_ext_ptr.back() == nullptr) { fprintf(stderr, "any_driver: bad ext type %s\n", e.c_str()); _exit(3); }
  }
  for (size_t i = 0; i < ops.size(); ++i) {
    Res r;
    execute(ops[i], r);
    fprintf(out, "{\"k\":\"op\",");
    print_op(out, ops[i]);
    fprintf(out, ",");
    print_state(out);
    fprintf(out, ",\"nc\":%ld,\"nd\":%ld,\"rl\":%ld,\"rv\":%ld,\"er\":%ld}\n", r.nc, r.nd, r.rl, r.rv, g_err);
    fflush(out);
    *done = (int)i + 1;
  }
  // drop every variable, then the external objects: nothing instrumented may stay alive, the externals must still be alive here
  for (int a = 1; a <= nvars; ++a) V(a).~Any();
  size_t l0 = g_live[0].size(), l1 = g_live[1].size(), l2 = g_live[2].size();
  size_t e0 = 0, e1 = 0, e2 = 0;
  for (int t : g_ext_tag) { e0 += t == tP; e1 += t == tQ; e2 += t == tS; }
  for (size_t e = 0; e < g_ext_ptr.size(); ++e) {
    if (g_ext_tag[e] == tP) delete (P*)g_ext_ptr[e]; else if (g_ext_tag[e] == tQ) delete (Q*)g_ext_ptr[e]; else delete (S*)g_ext_ptr[e];
  }
  fprintf(out, "{\"k\":\"fin\",\"lv\":[%ld,%ld,%ld],\"er\":%ld}\n", (long)l0 - (long)e0, (long)l1 - (long)e1, (long)l2 - (long)e2, g_err);
  fflush(out);
}

int main(int argc, char** argv) {
  std::string scripts, outp;
  for (int i = 1; i + 1 < argc; i += 2) {
    if (!strcmp(argv[i], "--scripts")) scripts = argv[i + 1];
    else if (!strcmp(argv[i], "--out")) outp = argv[i + 1];
  }
  if (scripts.empty() || outp.empty()) { fprintf(stderr, "usage: any_driver --scripts FILE --out FILE\n"); return 2; }
  std::ifstream in(scripts);
  FILE* out = fopen(outp.c_str(), "w");
  if (!in || !out) { fprintf(stderr, "any_driver: cannot open files\n"); return 2; }
  volatile int* done = (volatile int*)mmap(nullptr, 4096, PROT_READ | PROT_WRITE, MAP_SHARED | MAP_ANONYMOUS, -1, 0);
  std::string line;
  long execs = 0, events = 0, n_ok = 0, n_abort = 0, n_crash = 0;
  while (std::getline(in, line)) {
    if (line.empty()) continue;
    auto parts = split(line, '|');
    if (parts.size() < 4) { fprintf(stderr, "any_driver: bad script line\n"); return 2; }
    int nvars = atoi(parts[1].c_str());
    if (nvars < 1 || nvars > MAXV) { fprintf(stderr, "any_driver: bad nvars\n"); return 2; }
    std::vector<std::string> ext = split(parts[2], ',');
    std::vector<Op> ops;
    for (auto& tok : split(parts[3], ';')) if (!tok.empty()) ops.push_back(parse_op(tok));
    fprintf(out, "{\"k\":\"reset\",\"id\":\"%s\",\"nvars\":%d,\"next\":%zu}\n", parts[0].c_str(), nvars, ext.size());
    fflush(out);
    *done = 0;
    pid_t pid = fork();
    if (pid == 0) {
      // a corrupted heap may spin forever: SIGXCPU after 4 s of CPU / SIGALRM after 60 s -> status crash
      struct rlimit rl = {4, 5};
      setrlimit(RLIMIT_CPU, &rl);
      alarm(60);
      child(ops, ext, nvars, out, done);
      fflush(out);
      _exit(0);
    }
    int st = 0;
    waitpid(pid, &st, 0);
    fseek(out, 0, SEEK_END);
    const char* status = "ok";
    if (WIFSIGNALED(st)) status = WTERMSIG(st) == SIGABRT ? "abort" : "crash";
    else if (!WIFEXITED(st) || WEXITSTATUS(st) != 0) status = "crash";
    int d = *done;
    events += d;
    ++execs;
    if (!strcmp(status, "ok")) ++n_ok; else if (!strcmp(status, "abort")) ++n_abort; else ++n_crash;
    fprintf(out, "{\"k\":\"end\",\"status\":\"%s\",\"done\":%d,\"sig\":%d,", status, d, WIFSIGNALED(st) ? WTERMSIG(st) : 0);
    Op pend;
    pend.op = "none"; pend.ty = "-"; pend.c = "-";
    if (strcmp(status, "ok") != 0 && d < (int)ops.size()) pend = ops[d];
    print_op(out, pend);
    fprintf(out, "}\n");
    fflush(out);
  }
  fclose(out);
  printf("{\"execs\":%ld,\"events\":%ld,\"status\":{\"ok\":%ld,\"abort\":%ld,\"crash\":%ld}}\n", execs, events, n_ok, n_abort, n_crash);
  return 0;
}
