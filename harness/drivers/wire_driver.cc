// C11 driver: replays the cases emitted by TLC (spec/MC_Wire.tla) through babylon's serialization and logs what the
// real code does (ndjson) for validation by spec/Wire_Trace.tla.  It records only - every judgement is made by TLC.
//   usage: wire_driver --cases FILE --out FILE [--build TAG]
//   case line:  id kind schema value prev bytes      (value / prev: JSON arrays or "-", bytes: hex or "-")
// Values travel as nested JSON arrays (see the header comment of spec/Wire.tla for the representation).
// Each batch of cases runs in a forked child; a child that dies (signal, sanitizer abort, alarm, runaway stream reads)
// produces an {"k":"end","status":"crash|hang"} record for the case it was working on and the next child continues.
#include <babylon/serialization.h>

#include <google/protobuf/io/zero_copy_stream.h>
#include <google/protobuf/io/zero_copy_stream_impl_lite.h>
#include <sys/mman.h>
#include <sys/resource.h>
#include <sys/wait.h>
#include <unistd.h>

#include <cstdio>
#include <cstring>
#include <fstream>
#include <functional>
#include <list>
#include <map>
#include <memory>
#include <sstream>
#include <string>
#include <unordered_map>
#include <unordered_set>
#include <vector>

#include "wire.pb.h"

using ::babylon::Serialization;
using ::google::protobuf::io::CodedInputStream;
using ::google::protobuf::io::CodedOutputStream;

// ------------------------------------------------------------------------------------------------ J: nested int arrays
struct J {
  bool is_num {false};
  uint64_t num {0};
  std::vector<J> arr;
  static J n(uint64_t v) {
    J j;
    j.is_num = true;
    j.num = v;
    return j;
  }
  void print(std::string& o) const {
    if (is_num) {
      o += std::to_string(num);
      return;
    }
    o += '[';
    for (size_t i = 0; i < arr.size(); ++i) {
      if (i) o += ',';
      arr[i].print(o);
    }
    o += ']';
  }
  std::string str() const {
    std::string o;
    print(o);
    return o;
  }
};
static J parse_j(const char*& p) {
  J j;
  if (*p == '[') {
    ++p;
    while (*p != ']') {
      j.arr.push_back(parse_j(p));
      if (*p == ',') ++p;
    }
    ++p;
  } else {
    j.is_num = true;
    while (*p >= '0' && *p <= '9') j.num = j.num * 10 + static_cast<uint64_t>(*p++ - '0');
  }
  return j;
}
static J groups(uint64_t u) {
  J j;
  do {
    j.arr.push_back(J::n(u & 127));
    u >>= 7;
  } while (u);
  return j;
}
static uint64_t ungroups(const J& j) {
  uint64_t u = 0;
  int sh = 0;
  for (auto& g : j.arr) {
    if (sh < 64) u |= g.num << sh;
    sh += 7;
  }
  return u;
}
static J bytes_j(const void* p, size_t n) {
  J j;
  for (size_t i = 0; i < n; ++i) j.arr.push_back(J::n(static_cast<const unsigned char*>(p)[i]));
  return j;
}
static std::string j_bytes(const J& j) {
  std::string s;
  for (auto& b : j.arr) s.push_back(static_cast<char>(b.num));
  return s;
}

// ------------------------------------------------------------------------------------------------ the schema family
enum E : int32_t { ZERO = 0, ONE = 1, NEG = -1, BIG = 0x7fffffff };

#define AGG using is_agg = void; template <class V_> void visit(V_&& vis)
struct St {
  std::string s, t;
  BABYLON_COMPATIBLE((s, 1)(t, 2))
  AGG { vis(s); vis(t); }
};
struct In2 {
  std::string s;
  BABYLON_COMPATIBLE((s, 1))
  AGG { vis(s); }
};
struct In {
  int32_t a {0};
  std::unique_ptr<In2> p;
  BABYLON_COMPATIBLE((a, 1)(p, 2))
  AGG { vis(a); vis(p); }
};
struct H1 {
  int32_t i {7};
  std::string s;
  BABYLON_COMPATIBLE((i, 1)(s, 2))
  AGG { vis(i); vis(s); }
};
struct Ca {
  int32_t a1 {0}, a2 {0}, a3 {0}, a4 {0}, a5 {0}, a6 {0}, a7 {0}, a8 {0}, a9 {0}, a10 {0};
  std::vector<int32_t> v;
  BABYLON_COMPATIBLE((a1, 1)(a2, 2)(a3, 3)(a4, 4)(a5, 5)(a6, 6)(a7, 7)(a8, 8)(a9, 9)(a10, 10)(v, 11))
  AGG { vis(a1); vis(a2); vis(a3); vis(a4); vis(a5); vis(a6); vis(a7); vis(a8); vis(a9); vis(a10); vis(v); }
};
struct Co {
  std::vector<int32_t> vi;
  std::vector<std::string> vs;
  std::list<int64_t> li;
  int32_t ar[2] {0, 0};
  std::unordered_set<uint32_t> us;
  std::unordered_map<int32_t, std::string> mp;
  std::vector<bool> vb;
  std::vector<float> vf;
  double ad[1] {0};
  std::vector<St> vst;
  BABYLON_COMPATIBLE((vi, 1)(vs, 2)(li, 3)(ar, 4)(us, 5)(mp, 6)(vb, 7)(vf, 8)(ad, 9)(vst, 10))
  AGG { vis(vi); vis(vs); vis(li); vis(ar); vis(us); vis(mp); vis(vb); vis(vf); vis(ad); vis(vst); }
};
struct Sc {
  bool b {false};
  int8_t i8 {0};
  uint16_t u16 {0};
  int32_t i32 {0};
  uint32_t u32 {0};
  int64_t i64 {0};
  uint64_t u64 {0};
  E e {ZERO};
  float f {0};
  double d {0};
  BABYLON_COMPATIBLE((b, 1)(i8, 2)(u16, 3)(i32, 4)(u32, 5)(i64, 6)(u64, 7)(e, 8)(f, 9)(d, 10))
  AGG { vis(b); vis(i8); vis(u16); vis(i32); vis(u32); vis(i64); vis(u64); vis(e); vis(f); vis(d); }
};
struct Pt {
  std::unique_ptr<int32_t> a;
  std::unique_ptr<std::string> b;
  std::shared_ptr<St> c;
  std::unique_ptr<std::vector<int32_t>> d;
  std::shared_ptr<int64_t> e;
  std::vector<std::unique_ptr<std::string>> vp;
  BABYLON_COMPATIBLE((a, 1)(b, 2)(c, 3)(d, 4)(e, 5)(vp, 6))
  AGG { vis(a); vis(b); vis(c); vis(d); vis(e); vis(vp); }
};
struct De : public St {
  int32_t x {0};
  In in;
  BABYLON_COMPATIBLE_WITH_BASE((St, 1), (x, 2)(in, 3))
  AGG { vis(static_cast<St&>(*this)); vis(x); vis(in); }
};
// nesting depth 4 through pointers (a struct cannot name itself inside the macro: incomplete type)
struct Re4 {
  int32_t v {0};
  BABYLON_COMPATIBLE((v, 1))
  AGG { vis(v); }
};
struct Re3 {
  int32_t v {0};
  std::unique_ptr<Re4> next;
  BABYLON_COMPATIBLE((v, 1)(next, 2))
  AGG { vis(v); vis(next); }
};
struct Re2 {
  int32_t v {0};
  std::unique_ptr<Re3> next;
  BABYLON_COMPATIBLE((v, 1)(next, 2))
  AGG { vis(v); vis(next); }
};
struct Re {
  int32_t v {0};
  std::unique_ptr<Re2> next;
  BABYLON_COMPATIBLE((v, 1)(next, 2))
  AGG { vis(v); vis(next); }
};
struct CaM {
  Ca c;
  int32_t x {0};
  BABYLON_COMPATIBLE((c, 1)(x, 2))
  AGG { vis(c); vis(x); }
};
struct CaN {
  CaM c;
  St s;
  std::vector<Ca> vc;
  BABYLON_COMPATIBLE((c, 1)(s, 2)(vc, 3))
  AGG { vis(c); vis(s); vis(vc); }
};
struct PV {
  std::vector<std::unique_ptr<int32_t>> v;
  BABYLON_COMPATIBLE((v, 1))
  AGG { vis(v); }
};
struct CpSub {
  int32_t i32 {0};
  std::string s;
  std::vector<int32_t> rpi32;
  BABYLON_COMPATIBLE((i32, 4)(s, 19)(rpi32, 47))
  AGG { vis(i32); vis(s); vis(rpi32); }
};
struct Cp {
  bool b {false};
  int32_t i32 {0};
  int64_t i64 {0};
  uint32_t u32 {0};
  uint64_t u64 {0};
  float f {0};
  double d {0};
  E e {ZERO};
  std::string s, by;
  CpSub m;
  std::vector<bool> rpb;
  std::vector<int32_t> rpi32;
  std::vector<int64_t> rpi64;
  std::vector<uint32_t> rpu32;
  std::vector<uint64_t> rpu64;
  std::vector<float> rpf;
  std::vector<double> rpd;
  std::vector<E> rpe;
  BABYLON_COMPATIBLE((b, 1)(i32, 4)(i64, 5)(u32, 8)(u64, 9)(f, 16)(d, 17)(e, 18)(s, 19)(by, 20)(m, 21)(rpb, 44)(
      rpi32, 47)(rpi64, 48)(rpu32, 51)(rpu64, 52)(rpf, 59)(rpd, 60)(rpe, 61))
  AGG {
    vis(b); vis(i32); vis(i64); vis(u32); vis(u64); vis(f); vis(d); vis(e); vis(s); vis(by); vis(m); vis(rpb); vis(rpi32);
    vis(rpi64); vis(rpu32); vis(rpu64); vis(rpf); vis(rpd); vis(rpe);
  }
};
struct Wm {
  wire::PbIn m;
  std::unique_ptr<wire::PbIn> pm;
  int32_t x {0};
  BABYLON_COMPATIBLE((m, 1)(pm, 2)(x, 3))
  AGG { vis(m); vis(pm); vis(x); }
};
// boundary family: tags of width 1 / 2 / 3, payload lengths around the varint width boundaries
struct BS {
  std::string s1, s15, s16, s2047, s2048;
  BABYLON_COMPATIBLE((s1, 1)(s15, 15)(s16, 16)(s2047, 2047)(s2048, 2048))
  AGG { vis(s1); vis(s15); vis(s16); vis(s2047); vis(s2048); }
};
struct BN {
  BS in;
  int32_t x {0};
  BABYLON_COMPATIBLE((in, 1)(x, 2))
  AGG { vis(in); vis(x); }
};
struct BM {
  BS in;
  std::vector<int32_t> v;
  int32_t x {0};
  BABYLON_COMPATIBLE((in, 2047)(v, 2048)(x, 15))
  AGG { vis(in); vis(v); vis(x); }
};
struct BC {
  std::vector<std::string> vs;
  std::vector<St> va;
  std::vector<int32_t> vi;
  std::list<std::string> ls;
  BABYLON_COMPATIBLE((vs, 1)(va, 2)(vi, 3)(ls, 16))
  AGG { vis(vs); vis(va); vis(vi); vis(ls); }
};
// key type with cached sizes (top-level map: the map's own SERIALIZED_SIZE_CACHED decides whether a sizing pass runs)
struct Ky {
  std::vector<int32_t> v;
  BABYLON_COMPATIBLE((v, 1))
  AGG { vis(v); }
  bool operator==(const Ky& o) const { return v == o.v; }
};
namespace std {
template <> struct hash<Ky> {
  size_t operator()(const Ky& k) const noexcept { size_t h = 7; for (auto x : k.v) h = h * 131 + static_cast<uint32_t>(x); return h; }
};
}
struct H2 {
  std::vector<int32_t> v;
  H1 m;
  BABYLON_COMPATIBLE((v, 1)(m, 2))
  AGG { vis(v); vis(m); }
};
struct H3 {
  std::vector<std::string> vs;
  std::unordered_map<int32_t, std::string> mp;
  BABYLON_COMPATIBLE((vs, 1)(mp, 2))
  AGG { vis(vs); vis(mp); }
};
struct H4 {
  int32_t a[2] {0, 0};
  std::list<std::string> l;
  BABYLON_COMPATIBLE((a, 1)(l, 2))
  AGG { vis(a); vis(l); }
};
struct H5 {
  float f {0};
  std::unique_ptr<H1> p;
  BABYLON_COMPATIBLE((f, 1)(p, 2))
  AGG { vis(f); vis(p); }
};

// ------------------------------------------------------------------------------------------------ value <-> J
template <class T, class X = void> struct Conv;
template <class T> J to_j(const T& v) { return Conv<T>::to(v); }
template <class T> void from_j(const J& j, T& v) { Conv<T>::from(j, v); }

#define CONV32(T)                                                                     \
  template <> struct Conv<T> {                                                        \
    static J to(const T& v) { return groups(static_cast<uint32_t>(v)); }              \
    static void from(const J& j, T& v) { v = static_cast<T>(static_cast<uint32_t>(ungroups(j))); } \
  };
CONV32(bool) CONV32(int8_t) CONV32(uint16_t) CONV32(int32_t) CONV32(uint32_t)
#define CONV64(T)                                                                     \
  template <> struct Conv<T> {                                                        \
    static J to(const T& v) { return groups(static_cast<uint64_t>(v)); }              \
    static void from(const J& j, T& v) { v = static_cast<T>(ungroups(j)); }           \
  };
CONV64(int64_t) CONV64(uint64_t) CONV64(E)
#define CONVRAW(T)                                                                    \
  template <> struct Conv<T> {                                                        \
    static J to(const T& v) { return bytes_j(&v, sizeof(T)); }                        \
    static void from(const J& j, T& v) { std::string s = j_bytes(j); memcpy(&v, s.data(), sizeof(T)); } \
  };
CONVRAW(float) CONVRAW(double)
template <> struct Conv<std::string> {
  static J to(const std::string& v) { return bytes_j(v.data(), v.size()); }
  static void from(const J& j, std::string& v) { v = j_bytes(j); }
};
template <class T> struct Conv<std::vector<T>> {
  static J to(const std::vector<T>& v) { J j; for (const auto& e : v) j.arr.push_back(to_j(e)); return j; }
  static void from(const J& j, std::vector<T>& v) { v.clear(); for (auto& e : j.arr) { v.emplace_back(); from_j(e, v.back()); } }
};
template <> struct Conv<std::vector<bool>> {
  static J to(const std::vector<bool>& v) { J j; for (bool e : v) j.arr.push_back(to_j(e)); return j; }
  static void from(const J& j, std::vector<bool>& v) { v.clear(); for (auto& e : j.arr) { bool b; from_j(e, b); v.push_back(b); } }
};
template <class T> struct Conv<std::list<T>> {
  static J to(const std::list<T>& v) { J j; for (const auto& e : v) j.arr.push_back(to_j(e)); return j; }
  static void from(const J& j, std::list<T>& v) { v.clear(); for (auto& e : j.arr) { v.emplace_back(); from_j(e, v.back()); } }
};
template <class T, size_t N> struct Conv<T[N]> {
  static J to(const T (&v)[N]) { J j; for (size_t i = 0; i < N; ++i) j.arr.push_back(to_j(v[i])); return j; }
  static void from(const J& j, T (&v)[N]) { for (size_t i = 0; i < N && i < j.arr.size(); ++i) from_j(j.arr[i], v[i]); }
};
template <class T> struct Conv<std::unordered_set<T>> {
  static J to(const std::unordered_set<T>& v) { J j; for (const auto& e : v) j.arr.push_back(to_j(e)); return j; }
  static void from(const J& j, std::unordered_set<T>& v) { v.clear(); for (auto& e : j.arr) { T t; from_j(e, t); v.emplace(std::move(t)); } }
};
template <class K, class V> struct Conv<std::unordered_map<K, V>> {
  static J to(const std::unordered_map<K, V>& v) {
    J j;
    for (const auto& e : v) { J p; p.arr.push_back(to_j(e.first)); p.arr.push_back(to_j(e.second)); j.arr.push_back(p); }
    return j;
  }
  static void from(const J& j, std::unordered_map<K, V>& v) {
    v.clear();
    for (auto& e : j.arr) { K k; V x; from_j(e.arr[0], k); from_j(e.arr[1], x); v.emplace(std::move(k), std::move(x)); }
  }
};
template <class T> struct Conv<std::unique_ptr<T>> {
  static J to(const std::unique_ptr<T>& v) { J j; if (v) j.arr.push_back(to_j(*v)); return j; }
  static void from(const J& j, std::unique_ptr<T>& v) { if (j.arr.empty()) v.reset(); else { v.reset(new T {}); from_j(j.arr[0], *v); } }
};
template <class T> struct Conv<std::shared_ptr<T>> {
  static J to(const std::shared_ptr<T>& v) { J j; if (v) j.arr.push_back(to_j(*v)); return j; }
  static void from(const J& j, std::shared_ptr<T>& v) { if (j.arr.empty()) v.reset(); else { v.reset(new T {}); from_j(j.arr[0], *v); } }
};
struct ToVis {
  J j;
  template <class M> void operator()(M& m) { j.arr.push_back(to_j(m)); }
};
struct FromVis {
  const J& j;
  size_t i {0};
  template <class M> void operator()(M& m) { if (i < j.arr.size()) from_j(j.arr[i], m); ++i; }
};
template <class T> struct Conv<T, typename T::is_agg> {
  static J to(const T& v) { ToVis vis; const_cast<T&>(v).visit(vis); return vis.j; }
  static void from(const J& j, T& v) { FromVis vis {j}; v.visit(vis); }     // member-wise, in place (caches untouched)
};
// protobuf messages: optional member = [] / [v], repeated = array
#define PB_OPT(name, expr) { J o; if (v.has_##name()) o.arr.push_back(expr); j.arr.push_back(o); }
template <> struct Conv<wire::PbIn> {
  static J to(const wire::PbIn& v) {
    J j;
    PB_OPT(a, to_j<int32_t>(v.a())) PB_OPT(s, to_j(v.s()))
    return j;
  }
  static void from(const J& j, wire::PbIn& v) {
    v.Clear();
    if (!j.arr[0].arr.empty()) { int32_t x; from_j(j.arr[0].arr[0], x); v.set_a(x); }
    if (!j.arr[1].arr.empty()) v.set_s(j_bytes(j.arr[1].arr[0]));
  }
};
template <> struct Conv<wire::PbSub> {
  static J to(const wire::PbSub& v) {
    J j;
    PB_OPT(i32, to_j<int32_t>(v.i32())) PB_OPT(s, to_j(v.s()))
    J r; for (auto x : v.rpi32()) r.arr.push_back(to_j<int32_t>(x)); j.arr.push_back(r);
    return j;
  }
  static void from(const J& j, wire::PbSub& v) {
    v.Clear();
    if (!j.arr[0].arr.empty()) { int32_t x; from_j(j.arr[0].arr[0], x); v.set_i32(x); }
    if (!j.arr[1].arr.empty()) v.set_s(j_bytes(j.arr[1].arr[0]));
    for (auto& e : j.arr[2].arr) { int32_t x; from_j(e, x); v.add_rpi32(x); }
  }
};
#define PB_REP(name, T) { J r; for (auto x : v.name()) r.arr.push_back(to_j<T>(static_cast<T>(x))); j.arr.push_back(r); }
#define PB_SET(ix, name, T) if (!j.arr[ix].arr.empty()) { T x; from_j(j.arr[ix].arr[0], x); v.set_##name(x); }
#define PB_ADD(ix, name, T) for (auto& e : j.arr[ix].arr) { T x; from_j(e, x); v.add_##name(x); }
template <> struct Conv<wire::PbCp> {
  static J to(const wire::PbCp& v) {
    J j;
    PB_OPT(b, to_j<bool>(v.b())) PB_OPT(i32, to_j<int32_t>(v.i32())) PB_OPT(i64, to_j<int64_t>(v.i64()))
    PB_OPT(u32, to_j<uint32_t>(v.u32())) PB_OPT(u64, to_j<uint64_t>(v.u64())) PB_OPT(f, to_j<float>(v.f()))
    PB_OPT(d, to_j<double>(v.d())) PB_OPT(e, to_j<E>(static_cast<E>(v.e()))) PB_OPT(s, to_j(v.s())) PB_OPT(by, to_j(v.by()))
    PB_OPT(m, to_j(v.m()))
    PB_REP(rpb, bool) PB_REP(rpi32, int32_t) PB_REP(rpi64, int64_t) PB_REP(rpu32, uint32_t) PB_REP(rpu64, uint64_t)
    PB_REP(rpf, float) PB_REP(rpd, double) PB_REP(rpe, E)
    return j;
  }
  static void from(const J& j, wire::PbCp& v) {
    v.Clear();
    PB_SET(0, b, bool) PB_SET(1, i32, int32_t) PB_SET(2, i64, int64_t) PB_SET(3, u32, uint32_t) PB_SET(4, u64, uint64_t)
    PB_SET(5, f, float) PB_SET(6, d, double)
    if (!j.arr[7].arr.empty()) { E x; from_j(j.arr[7].arr[0], x); v.set_e(static_cast<wire::E>(x)); }
    if (!j.arr[8].arr.empty()) v.set_s(j_bytes(j.arr[8].arr[0]));
    if (!j.arr[9].arr.empty()) v.set_by(j_bytes(j.arr[9].arr[0]));
    if (!j.arr[10].arr.empty()) from_j(j.arr[10].arr[0], *v.mutable_m());
    PB_ADD(11, rpb, bool) PB_ADD(12, rpi32, int32_t) PB_ADD(13, rpi64, int64_t) PB_ADD(14, rpu32, uint32_t)
    PB_ADD(15, rpu64, uint64_t) PB_ADD(16, rpf, float) PB_ADD(17, rpd, double)
    for (auto& e : j.arr[18].arr) { E x; from_j(e, x); v.add_rpe(static_cast<wire::E>(x)); }
  }
};

// ------------------------------------------------------------------------------------------------ presentations
static volatile int* g_progress;   // shared with the parent: [0] index of the case in work, [1] presentation class (0 b / 1 u)
// stream that hands out the input in chunks of a fixed size, every chunk in its own exact-size heap block
class ChunkStream : public ::google::protobuf::io::ZeroCopyInputStream {
 public:
  ChunkStream(const std::string& data, size_t chunk) {
    for (size_t o = 0; o < data.size(); o += chunk) {
      size_t n = std::min(chunk, data.size() - o);
      _chunks.emplace_back(new uint8_t[n]);
      memcpy(_chunks.back().get(), data.data() + o, n);
      _sizes.push_back(n);
    }
  }
  bool Next(const void** data, int* size) override {
    if (_backup) {
      *data = _chunks[_i - 1].get() + (_sizes[_i - 1] - _backup);
      *size = static_cast<int>(_backup);
      _count += static_cast<int64_t>(_backup);
      _backup = 0;
      return true;
    }
    if (_i >= _chunks.size()) {
      if (++_eof_calls > 3000) _exit(77);   // runaway: the parser keeps asking for data after the end of the stream
      return false;
    }
    *data = _chunks[_i].get();
    *size = static_cast<int>(_sizes[_i]);
    _count += static_cast<int64_t>(_sizes[_i]);
    ++_i;
    return true;
  }
  void BackUp(int n) override { _backup = static_cast<size_t>(n); _count -= n; }
  bool Skip(int n) override {
    const void* d; int s;
    while (n > 0) {
      if (!Next(&d, &s)) return false;
      if (s > n) { BackUp(s - n); return true; }
      n -= s;
    }
    return true;
  }
  int64_t ByteCount() const override { return _count; }

 private:
  std::vector<std::unique_ptr<uint8_t[]>> _chunks;
  std::vector<size_t> _sizes;
  size_t _i {0}, _backup {0};
  int64_t _count {0};
  int _eof_calls {0};
};

struct Outcome {
  bool ok;
  std::string val;    // J text of the parsed value ("" when rejected)
  bool operator<(const Outcome& o) const { return std::tie(ok, val) < std::tie(o.ok, o.val); }
};
template <class T> static Outcome finish(bool ok, T& v) { return Outcome {ok, ok ? to_j(v).str() : std::string()}; }
template <class T> struct Fresh { T v {}; };

// all presentations of one byte string; results grouped by class: [0] bounded, [1] unbounded stream
template <class T>
static void present(const std::string& in, int cls, std::map<Outcome, std::pair<int, std::string>>& res) {
  auto add = [&](const Outcome& o, const std::string& name) {
    auto it = res.find(o);
    if (it == res.end()) res.emplace(o, std::make_pair(1, name)); else it->second.first++;
  };
  size_t n = in.size();
  // chunk sizes: every size 1..n for inputs up to 24 bytes, beyond that 1..16, then a growing subset, n-1 and n
  std::vector<size_t> chunks;
  for (size_t c = 1; c <= (n ? n : 1); c = (n <= 24 || c < 16) ? c + 1 : c + c / 3) chunks.push_back(c);
  if (n > 24) { chunks.push_back(n - 1); chunks.push_back(n); }
  if (cls == 0) {
    { Fresh<T> f; bool ok = Serialization::parse_from_string(in, f.v); add(finish(ok, f.v), "string"); }
    { std::unique_ptr<char[]> buf(new char[n ? n : 1]); memcpy(buf.get(), in.data(), n);
      Fresh<T> f; bool ok = Serialization::parse_from_array(buf.get(), n, f.v); add(finish(ok, f.v), "array"); }
    for (size_t c : chunks) {
      ChunkStream cs(in, c); CodedInputStream is(&cs); is.PushLimit(static_cast<int>(n));
      Fresh<T> f; bool ok = Serialization::parse_from_coded_stream(is, f.v); add(finish(ok, f.v), "chunk" + std::to_string(c) + "+limit");
    }
    std::string emb = in + std::string("\x08\xaa\x12", 3);    // bytes behind the enclosing limit must never be looked at
    for (size_t c : {static_cast<size_t>(1), n + 3}) {
      ChunkStream cs(emb, c); CodedInputStream is(&cs); is.PushLimit(static_cast<int>(n));
      Fresh<T> f; bool ok = Serialization::parse_from_coded_stream(is, f.v); add(finish(ok, f.v), "embedded" + std::to_string(c) + "+limit");
    }
  } else {
    for (size_t c : chunks) {
      ChunkStream cs(in, c); CodedInputStream is(&cs);
      Fresh<T> f; bool ok = Serialization::parse_from_coded_stream(is, f.v); add(finish(ok, f.v), "chunk" + std::to_string(c));
    }
  }
}

struct Case {
  long id;
  std::string kind, sch, val, prev, bytes;
};
static FILE* g_out;
static std::string g_build;
static std::string hexbytes(const std::string& h) {
  std::string s;
  if (h == "-") return s;
  for (size_t i = 0; i + 1 < h.size(); i += 2) s.push_back(static_cast<char>(std::stoi(h.substr(i, 2), nullptr, 16)));
  return s;
}
static std::string jb(const std::string& s) { return bytes_j(s.data(), s.size()).str(); }
static void emit(const std::string& line) { fputs(line.c_str(), g_out); fputc('\n', g_out); fflush(g_out); }

template <class T> static std::string ser_record(const Case& c, T& obj, int dirty) {
  // serialize FIRST (the library has to run its own sizing pass where it needs one), then ask for the predicted size
  std::string s; bool ok = Serialization::serialize_to_string(obj, s);
  size_t pred = Serialization::calculate_serialized_size(obj);
  // through a coded stream over a chunked output (3 byte blocks)
  std::string s2; { ::google::protobuf::io::StringOutputStream so(&s2); CodedOutputStream cos(&so);
                    ok = Serialization::serialize_to_coded_stream(obj, cos) && ok; }
  // into an exact size array with the cached sizes of a preceding size computation
  size_t pred2 = Serialization::calculate_serialized_size(obj);
  std::string s3(pred2, '\0');
  bool ok3 = Serialization::serialize_to_array_with_cached_size(obj, &s3[0], s3.size());
  Fresh<T> back; bool pok = Serialization::parse_from_string(s, back.v);
  std::string o = "{\"k\":\"ser\",\"build\":\"" + g_build + "\",\"id\":" + std::to_string(c.id) + ",\"sch\":\"" + c.sch + "\",\"dirty\":" +
                  std::to_string(dirty) + ",\"val\":" + to_j(obj).str() + ",\"size\":" + std::to_string(pred) + ",\"size2\":" +
                  std::to_string(pred2) + ",\"ok\":" + (ok && ok3 ? "1" : "0") + ",\"bytes\":" + jb(s) + ",\"bytes_c\":" + jb(s2) +
                  ",\"bytes_a\":" + jb(s3) + ",\"pok\":" + (pok ? "1" : "0") + ",\"out\":" + (pok ? to_j(back.v).str() : std::string("[]")) + "}";
  return o;
}

template <class T> static void run_case(const Case& c) {
  if (c.kind == "val") {
    const char* p = c.val.c_str(); J jv = parse_j(p);
    { Fresh<T> f; from_j(jv, f.v); emit(ser_record(c, f.v, 0)); }
    if (c.prev != "-") {      // an object that held (and serialized) another value before: stale cached sizes must not leak
      const char* q = c.prev.c_str(); J jp = parse_j(q);
      Fresh<T> f; from_j(jp, f.v); std::string tmp; Serialization::serialize_to_string(f.v, tmp);
      from_j(jv, f.v); emit(ser_record(c, f.v, 1));
    }
    if constexpr (std::is_same<T, Cp>::value) {   // what protobuf reads out of babylon's bytes
      Fresh<T> f; from_j(jv, f.v); std::string s; Serialization::serialize_to_string(f.v, s);
      wire::PbCp m; bool ok = m.ParseFromString(s);
      emit("{\"k\":\"pbparse\",\"build\":\"" + g_build + "\",\"id\":" + std::to_string(c.id) + ",\"sch\":\"" + c.sch + "\",\"val\":" + c.val +
           ",\"bytes\":" + jb(s) + ",\"ok\":" + (ok ? "1" : "0") + ",\"out\":" + (ok ? to_j(m).str() : std::string("[]")) + "}");
    }
  }
  if (c.kind == "pbv") {
    if constexpr (std::is_same<T, Cp>::value) {   // what protobuf writes for these members
      const char* p = c.val.c_str(); J jv = parse_j(p);
      wire::PbCp m; from_j(jv, m); std::string s; bool ok = m.SerializeToString(&s);
      emit("{\"k\":\"pbser\",\"build\":\"" + g_build + "\",\"id\":" + std::to_string(c.id) + ",\"sch\":\"" + c.sch + "\",\"val\":" + c.val +
           ",\"ok\":" + (ok ? "1" : "0") + ",\"bytes\":" + jb(s) + ",\"size\":" + std::to_string(m.ByteSizeLong()) + "}");
    }
  }
  std::string in = hexbytes(c.bytes);
  for (int cls = 0; cls < 2; ++cls) {
    g_progress[1] = cls;
    std::map<Outcome, std::pair<int, std::string>> res;
    present<T>(in, cls, res);
    for (auto& r : res) {
      std::string o = "{\"k\":\"parse\",\"build\":\"" + g_build + "\",\"id\":" + std::to_string(c.id) + ",\"sch\":\"" + c.sch + "\",\"cls\":\"" +
                      (cls ? "u" : "b") + "\",\"np\":" + std::to_string(r.second.first) + ",\"pres\":\"" + r.second.second + "\",\"ok\":" +
                      (r.first.ok ? "1" : "0") + ",\"out\":" + (r.first.ok ? r.first.val : std::string("[]"));
      if (r.first.ok) {      // success => the result serializes and parses back (same presentation class: flat / stream)
        const char* p = r.first.val.c_str(); J jr = parse_j(p);
        Fresh<T> f; from_j(jr, f.v); std::string s; bool sok = Serialization::serialize_to_string(f.v, s);
        Fresh<T> g; bool ok2;
        if (cls == 0) ok2 = Serialization::parse_from_string(s, g.v);
        else { ChunkStream cs(s, 2); CodedInputStream is(&cs); ok2 = Serialization::parse_from_coded_stream(is, g.v); }
        o += std::string(",\"ok2\":") + (sok && ok2 ? "1" : "0") + ",\"bytes2\":" + jb(s) + ",\"out2\":" + (ok2 ? to_j(g.v).str() : std::string("[]"));
      }
      emit(o + "}");
    }
  }
}

using Runner = void (*)(const Case&);
static std::map<std::string, Runner> runners() {
  return {{"TI32", run_case<int32_t>}, {"TStr", run_case<std::string>}, {"TVecI", run_case<std::vector<int32_t>>},
          {"TPtrS", run_case<std::unique_ptr<std::string>>}, {"TMk", run_case<std::unordered_map<Ky, int32_t>>},
          {"TMv", run_case<std::unordered_map<int32_t, Ky>>}, {"TVMk", run_case<std::vector<std::unordered_map<Ky, int32_t>>>},
          {"TPMk", run_case<std::unique_ptr<std::unordered_map<Ky, int32_t>>>}, {"Sc", run_case<Sc>}, {"St", run_case<St>}, {"Co", run_case<Co>},
          {"Pt", run_case<Pt>}, {"De", run_case<De>}, {"Re", run_case<Re>}, {"Ca", run_case<Ca>}, {"CaN", run_case<CaN>},
          {"PV", run_case<PV>}, {"Cp", run_case<Cp>}, {"Wm", run_case<Wm>}, {"BS", run_case<BS>}, {"BN", run_case<BN>}, {"BSL", run_case<BS>}, {"BNL", run_case<BN>}, {"BM", run_case<BM>}, {"BC", run_case<BC>}, {"H1", run_case<H1>}, {"H2", run_case<H2>},
          {"H3", run_case<H3>}, {"H4", run_case<H4>}, {"H5", run_case<H5>}};
}

int main(int argc, char** argv) {
  std::string cases_path, out_path;
  size_t batch = 400;
  unsigned alarm_s = 20;
  size_t max_crashes = 40;   // enough witnesses: a build in which (nearly) every case dies is not replayed to the end
  for (int i = 1; i + 1 < argc; i += 2) {
    std::string a = argv[i];
    if (a == "--cases") cases_path = argv[i + 1];
    else if (a == "--out") out_path = argv[i + 1];
    else if (a == "--build") g_build = argv[i + 1];
    else if (a == "--batch") batch = static_cast<size_t>(atol(argv[i + 1]));
    else if (a == "--max-crashes") max_crashes = static_cast<size_t>(atol(argv[i + 1]));
    else if (a == "--alarm") alarm_s = static_cast<unsigned>(atol(argv[i + 1]));
  }
  std::vector<Case> cases;
  {
    std::ifstream in(cases_path);
    std::string line;
    while (std::getline(in, line)) {
      std::istringstream ls(line);
      Case c;
      if (ls >> c.id >> c.kind >> c.sch >> c.val >> c.prev >> c.bytes) cases.push_back(c);
    }
  }
  auto rs = runners();
  g_progress = static_cast<volatile int*>(mmap(nullptr, 4096, PROT_READ | PROT_WRITE, MAP_SHARED | MAP_ANONYMOUS, -1, 0));
  g_out = fopen(out_path.c_str(), "a");
  size_t next = 0, crashes = 0, hangs = 0;
  while (next < cases.size()) {
    size_t end = std::min(cases.size(), next + batch);
    g_progress[0] = static_cast<int>(next);
    g_progress[1] = 0;
    fflush(g_out);
    pid_t pid = fork();
    if (pid == 0) {
      for (size_t i = next; i < end; ++i) {
        g_progress[0] = static_cast<int>(i);
        g_progress[1] = 0;
        alarm(alarm_s);
        auto it = rs.find(cases[i].sch);
        if (it == rs.end()) { emit("{\"k\":\"end\",\"id\":" + std::to_string(cases[i].id) + ",\"status\":\"noschema\"}"); continue; }
        it->second(cases[i]);
      }
      fflush(g_out);
      _exit(0);
    }
    int st = 0;
    waitpid(pid, &st, 0);
    if (WIFEXITED(st) && WEXITSTATUS(st) == 0) {
      next = end;
      continue;
    }
    size_t at = static_cast<size_t>(g_progress[0]);
    bool hang = (WIFEXITED(st) && WEXITSTATUS(st) == 77) || (WIFSIGNALED(st) && WTERMSIG(st) == SIGALRM);
    (hang ? hangs : crashes)++;
    emit("{\"k\":\"end\",\"build\":\"" + g_build + "\",\"id\":" + std::to_string(cases[at].id) + ",\"sch\":\"" + cases[at].sch + "\",\"cls\":\"" +
         (g_progress[1] ? "u" : "b") + "\",\"status\":\"" + (hang ? "hang" : "crash") + "\",\"code\":" +
         std::to_string(WIFSIGNALED(st) ? 1000 + WTERMSIG(st) : WEXITSTATUS(st)) + "}");
    next = at + 1;
    if (crashes >= max_crashes) break;
  }
  fclose(g_out);
  printf("{\"cases\":%zu,\"done\":%zu,\"crashes\":%zu,\"hangs\":%zu}\n", cases.size(), next, crashes, hangs);
  return 0;
}
