// Driver for ConcurrentExecutionQueue (property C16).
// Runs client programs against the real execution queue under vsched.  The executor is a driver
// subclass of babylon::Executor (virtual invoke seam): it runs the closure inline, or hands it to a
// fresh scheduler-controlled thread, or refuses the launch on scripted attempts.
//
// params
//   cap     capacity hint of the queue
//   mode    i = inline executor (first producer turns into the consumer), a = asynchronous
//   faults  string over {o,f}: the k-th call of invoke() is refused iff faults[k] == 'f'
//           (attempts beyond the string are accepted)  --  SubmitOutcome of EQ.tla
//   retry   1: a thread whose execute()/signal_push_event() returned != 0 calls
//           signal_push_event() until it returns 0 before it goes on
//   prog    threads separated by '_', operations by '.':  e = execute(next item of this thread),
//           s = signal_push_event(), j = join()
// After every program thread has finished the main thread (thread 0) logs "quiesce"; if the last
// launch was refused it calls signal_push_event() until accepted ("the next accepted signal"),
// then join(), then reports what is left in the queue ("final").
#include <babylon/concurrent/execution_queue.h>

#include <string>
#include <thread>
#include <vector>

#include "vrun.h"

namespace {

char* g_slot0 = nullptr; // address of slot[0].value
size_t g_stride = 64;
size_t g_cap = 0;

int slot_of(const void* p) {
  if (g_slot0 == nullptr) return -1;
  long d = (const char*)p - g_slot0;
  if (d < 0 || (size_t)d >= g_stride * g_cap) return -1;
  return (int)((size_t)d / g_stride);
}

struct Item {
  int v = 0;
  Item() = default;
  explicit Item(int x) : v(x) {}
  Item(Item&& o) noexcept : v(o.v) {}
  Item(const Item& o) : v(o.v) {}
  // the payload write of a push: the queue's callback assigns into the slot
  Item& operator=(Item&& o) noexcept {
    int s = slot_of(this);
    if (s >= 0 && vsched::active()) vsched::eventf(false, "\"k\":\"pw\",\"slot\":%d,\"v\":%d", s, o.v);
    v = o.v;
    return *this;
  }
  Item& operator=(const Item& o) {
    int s = slot_of(this);
    if (s >= 0 && vsched::active()) vsched::eventf(false, "\"k\":\"pw\",\"slot\":%d,\"v\":%d", s, o.v);
    v = o.v;
    return *this;
  }
};

using EQ = ::babylon::ConcurrentExecutionQueue<Item>;
using Iter = EQ::Iterator;

std::string vals_json(const std::vector<int>& v) {
  std::string s = "[";
  for (size_t i = 0; i < v.size(); i++) s += (i ? "," : "") + std::to_string(v[i]);
  return s + "]";
}

struct ScriptedExecutor : public ::babylon::Executor {
  bool async = false;
  std::string faults;
  size_t attempts = 0;
  bool last_refused = false;
  std::thread workers[48];
  size_t nworkers = 0;

  virtual int invoke(::babylon::MoveOnlyFunction<void(void)>&& function) noexcept override {
    size_t k = attempts++;
    bool refuse = k < faults.size() && faults[k] == 'f';
    last_refused = refuse;
    vsched::eventf(true, "\"k\":\"sub\",\"att\":%zu,\"ok\":%s", k, refuse ? "false" : "true");
    if (refuse) return -1;
    if (!async) {
      function();
      return 0;
    }
    size_t w = nworkers++;
    if (w >= 48) abort();
    workers[w] = std::thread([f = std::move(function)]() mutable { f(); });
    return 0;
  }
  void join_workers() {
    for (size_t i = 0; i < nworkers; i++)
      if (workers[i].joinable()) workers[i].join();
  }
};

struct Ctx {
  EQ* q;
  int tid;
  int next = 0;
  bool retry = false;
};

int do_op(Ctx& c, char op) {
  int res = 0;
  if (op == 'e') {
    int v = c.tid * 100 + (++c.next);
    vsched::eventf(true, "\"k\":\"call\",\"op\":\"e\",\"item\":%d", v);
    res = c.q->execute(Item(v));
    vsched::eventf(true, "\"k\":\"ret\",\"op\":\"e\",\"item\":%d,\"res\":%d", v, res);
  } else if (op == 's') {
    vsched::eventf(true, "\"k\":\"call\",\"op\":\"s\",\"item\":0");
    res = c.q->signal_push_event();
    vsched::eventf(true, "\"k\":\"ret\",\"op\":\"s\",\"item\":0,\"res\":%d", res);
  } else if (op == 'j') {
    vsched::eventf(true, "\"k\":\"call\",\"op\":\"j\",\"item\":0");
    c.q->join();
    vsched::eventf(true, "\"k\":\"ret\",\"op\":\"j\",\"item\":0,\"res\":0");
  }
  return res;
}

void run_thread(Ctx& c, const std::string& ops) {
  for (char op : ops) {
    if (op != 'e' && op != 's' && op != 'j') continue;
    int res = do_op(c, op);
    while (res != 0 && c.retry) res = do_op(c, 's');
  }
}

void scenario_eq(const vrun::Params& p) {
  std::string mode = p.str("mode", "a");
  std::string faults = p.str("faults", "");
  if (faults == "n" || faults == "-") faults = "";
  std::string prog = p.str("prog", "e.e_j");
  bool retry = p.get("retry", 1) != 0;
  std::vector<std::string> threads;
  {
    size_t i = 0;
    while (i <= prog.size()) {
      size_t j = prog.find('_', i);
      if (j == std::string::npos) j = prog.size();
      threads.push_back(prog.substr(i, j - i));
      i = j + 1;
    }
  }
  static ScriptedExecutor exec;
  exec.async = mode == "a";
  exec.faults = faults;
  static EQ q;
  q.initialize((size_t)p.get("cap", 2), exec, [&](Iter b, Iter e) {
    std::vector<int> vals, slots;
    for (Iter it = b; it != e; ++it) {
      vals.push_back((*it).v);
      slots.push_back(slot_of(&*it));
    }
    vsched::eventf(true, "\"k\":\"cbb\",\"n\":%zu,\"vals\":%s,\"slots\":%s", vals.size(), vals_json(vals).c_str(), vals_json(slots).c_str());
    bool intact = true;
    size_t i = 0;
    for (Iter it = b; it != e; ++it, ++i) intact = intact && (*it).v == vals[i];
    for (Iter it = b; it != e; ++it) (*it).v = -7; // consumed marker
    vsched::eventf(true, "\"k\":\"cbe\",\"n\":%zu,\"vals\":%s,\"slots\":%s,\"intact\":%s", vals.size(), vals_json(vals).c_str(), vals_json(slots).c_str(), intact ? "true" : "false");
  });
  size_t cap = q.capacity();
  g_cap = cap;
  g_slot0 = (char*)&q._queue._slots.value(0);
  g_stride = cap > 1 ? (size_t)((char*)&q._queue._slots.value(1) - (char*)&q._queue._slots.value(0)) : 64;
  vsched::name_loc(&q._events, sizeof(q._events), "events");
  vsched::name_loc(&q._queue._next_push_index, sizeof(q._queue._next_push_index), "push_idx");
  vsched::name_loc(&q._queue._next_pop_index, sizeof(q._queue._next_pop_index), "pop_idx");
  vsched::name_array(&q._queue._slots.futex(0), g_stride, cap, "slot");
  std::vector<Ctx> ctx(threads.size());
  for (size_t t = 0; t < threads.size(); t++) ctx[t] = Ctx {&q, (int)t + 1, 0, retry};
  vrun::begin();
  {
    std::vector<std::thread> ths;
    for (size_t t = 0; t < threads.size(); t++) ths.emplace_back([&, t] { run_thread(ctx[t], threads[t]); });
    for (auto& th : ths) th.join();
  }
  vsched::eventf(true, "\"k\":\"quiesce\",\"unrec\":%s", exec.last_refused ? "true" : "false");
  Ctx mc {&q, 0, 0, false};
  if (exec.last_refused) {
    while (do_op(mc, 's') != 0) {
    }
  }
  do_op(mc, 'j');
  {
    std::vector<int> left;
    Item it;
    while (q._queue.try_pop<false, false>(it)) left.push_back(it.v);
    vsched::eventf(false, "\"k\":\"final\",\"left\":%s,\"events\":%zu", vals_json(left).c_str(), *(volatile size_t*)(void*)&q._events);
  }
  exec.join_workers();
  vsched::finish();
}

struct Reg {
  Reg() { vrun::add("eq", scenario_eq, "cap=2,mode=a,faults=n,retry=1,prog=e.e_j"); }
} reg;

} // namespace

int main(int argc, char** argv) {
  return vrun::main(argc, argv);
}
