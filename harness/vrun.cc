// See vrun.h. Compiled without interpose.h.
#include "vrun.h"

#include <errno.h>
#include <fcntl.h>
#include <poll.h>
#include <signal.h>
#include <stdio.h>
#include <stdlib.h>
#include <string.h>
#include <sys/time.h>
#include <sys/wait.h>
#include <unistd.h>

#include <deque>
#include <exception>
#include <string>
#include <vector>

namespace vrun {
namespace {

struct Entry {
  std::string name;
  Scenario fn;
  std::string defaults;
};
std::vector<Entry>& registry() {
  static std::vector<Entry> r;
  return r;
}

struct Options {
  std::string scenario;
  std::string params;
  std::string strategy = "mix";
  long seed_lo = 1, seed_hi = 2;
  std::string script;
  std::string scripts_file;
  int pb_bound = 2;
  long max_execs = 1000000;
  std::string out;
  int sw = -1, tm = -1, depth = 3, spurious = 0;
  long max_steps = 200000;
  int jobs = 1;
  int timeout_ms = 120000;  // wall-clock guard per execution (virtual time makes real hangs impossible unless the code blocks outside the scheduler)
  bool atomics = true;
};

vsched::Config g_cfg;
std::vector<int> g_script;
unsigned long g_seed = 1;
unsigned long g_rng = 1;
std::string g_strategy_name;

Params parse_params(const std::string& defaults, const std::string& over) {
  Params p;
  for (const std::string* s : {&defaults, &over}) {
    size_t i = 0;
    while (i < s->size()) {
      size_t j = s->find(',', i);
      if (j == std::string::npos) j = s->size();
      std::string kv = s->substr(i, j - i);
      size_t e = kv.find('=');
      if (e != std::string::npos) p.kv[kv.substr(0, e)] = kv.substr(e + 1);
      i = j + 1;
    }
  }
  return p;
}

std::vector<int> parse_ints(const std::string& s) {
  std::vector<int> v;
  size_t i = 0;
  while (i < s.size()) {
    size_t j = s.find(',', i);
    if (j == std::string::npos) j = s.size();
    if (j > i) v.push_back(atoi(s.substr(i, j - i).c_str()));
    i = j + 1;
  }
  return v;
}

void crash_handler(int sig) {
  char buf[128];
  vsched::eventf(false, "\"k\":\"crash\",\"sig\":%d", sig);
  snprintf(buf, sizeof buf, "{\"k\":\"end\",\"status\":\"crash\",\"sig\":%d}\n", sig);
  size_t len;
  const char* d = vsched::trace_data(&len);
  // best effort flush: write buffered trace then the end line
  int fd = 3;
  (void)!::write(fd, d, len);
  (void)!::write(fd, buf, strlen(buf));
  _exit(43);
}

struct ExecResult {
  std::string trace;
  std::string status;
  std::vector<std::vector<long>> decisions;
};

ExecResult run_one(const Entry& e, const Params& p, const Options& o, unsigned long seed, const std::string& strategy, const std::vector<int>& script) {
  ExecResult r;
  int fds[2];
  if (pipe(fds) != 0) {
    perror("pipe");
    exit(2);
  }
  fflush(stdout);
  fflush(stderr);
  pid_t pid = fork();
  if (pid == 0) {
    close(fds[0]);
    if (fds[1] != 3) {
      dup2(fds[1], 3);
      close(fds[1]);
    }
    vsched::set_trace_fd(3);
    signal(SIGSEGV, crash_handler);
    signal(SIGABRT, crash_handler);
    signal(SIGBUS, crash_handler);
    signal(SIGFPE, crash_handler);
    signal(SIGILL, crash_handler);
    std::set_terminate([] { crash_handler(6); });
    g_seed = seed;
    g_rng = seed * 2654435761ul + 12345;
    g_script = script;
    g_cfg = vsched::Config();
    g_cfg.seed = seed;
    g_strategy_name = strategy;
    std::string st = strategy;
    if (st == "mix") {
      // vary the exploration style with the seed
      switch (seed % 4) {
        case 0: st = "pct"; g_cfg.pct_depth = 2 + (int)((seed / 4) % 3); break;
        case 1: st = "random"; g_cfg.switch_permille = 100; break;
        case 2: st = "random"; g_cfg.switch_permille = 400; break;
        default: st = "random"; g_cfg.switch_permille = 1000; break;
      }
    }
    static std::string st_keep;
    st_keep = st;
    g_cfg.strategy = st_keep.c_str();
    if (o.sw >= 0) g_cfg.switch_permille = o.sw;
    if (o.tm >= 0) g_cfg.time_permille = o.tm;
    g_cfg.spurious_permille = o.spurious;
    if (strategy == "pct") g_cfg.pct_depth = o.depth;
    g_cfg.max_steps = o.max_steps;
    g_cfg.script = g_script.data();
    g_cfg.script_len = (int)g_script.size();
    g_cfg.log_atomics = o.atomics;
    {
      std::string sc;
      for (size_t i = 0; i < script.size(); i++) sc += (i ? "," : "") + std::to_string(script[i]);
      std::string hdr = "{\"k\":\"reset\",\"scn\":\"" + e.name + "\",\"seed\":" + std::to_string(seed) + ",\"strategy\":\"" + st + "\",\"params\":" + p.json() + ",\"script\":[" + sc + "]}\n";
      (void)!::write(3, hdr.data(), hdr.size());
    }
    e.fn(p);
    _exit(0);
  }
  close(fds[1]);
  struct timeval t0;
  gettimeofday(&t0, nullptr);
  char buf[65536];
  bool timed_out = false;
  for (;;) {
    struct pollfd pfd = {fds[0], POLLIN, 0};
    int pr = poll(&pfd, 1, 200);
    if (pr > 0) {
      ssize_t n = read(fds[0], buf, sizeof buf);
      if (n > 0) r.trace.append(buf, (size_t)n);
      else break;
    } else {
      struct timeval t1;
      gettimeofday(&t1, nullptr);
      long ms = (t1.tv_sec - t0.tv_sec) * 1000 + (t1.tv_usec - t0.tv_usec) / 1000;
      if (ms > o.timeout_ms) {
        kill(pid, SIGKILL);
        timed_out = true;
        break;
      }
    }
  }
  close(fds[0]);
  int wst = 0;
  waitpid(pid, &wst, 0);
  if (timed_out) {
    r.status = "hang";
    r.trace += "{\"k\":\"end\",\"status\":\"hang\"}\n";
  } else if (WIFSIGNALED(wst)) {
    r.status = "crash";
    r.trace += "{\"k\":\"end\",\"status\":\"crash\",\"sig\":" + std::to_string(WTERMSIG(wst)) + "}\n";
  } else {
    int code = WEXITSTATUS(wst);
    switch (code) {
      case 0: r.status = "ok"; break;
      case 41: r.status = "deadlock"; break;
      case 42: r.status = "budget"; break;
      case 43: r.status = "crash"; break;
      case 44: r.status = "script_mismatch"; break;
      default:
        r.status = "exit" + std::to_string(code);
        r.trace += "{\"k\":\"end\",\"status\":\"crash\",\"exit\":" + std::to_string(code) + "}\n";
    }
  }
  // extract and strip decision lines
  size_t pos = 0;
  std::string kept;
  while (pos < r.trace.size()) {
    size_t nl = r.trace.find('\n', pos);
    if (nl == std::string::npos) nl = r.trace.size();
    std::string line = r.trace.substr(pos, nl - pos);
    pos = nl + 1;
    static const char kDec[] = "\"k\":\"dec\",\"d\":[";
    size_t k = line.find(kDec);
    if (k != std::string::npos) {
      const char* c = line.c_str() + k + strlen(kDec);
      while (*c && *c != ']') {
        if (*c == '[') {
          c++;
          std::vector<long> d;
          while (*c && *c != ']') {
            d.push_back(strtol(c, (char**)&c, 10));
            if (*c == ',') c++;
          }
          r.decisions.push_back(d);
          if (*c == ']') c++;
        } else c++;
      }
      continue;
    }
    if (!line.empty()) {
      kept += line;
      kept.push_back('\n');
    }
  }
  r.trace.swap(kept);
  return r;
}

struct Summary {
  long execs = 0;
  std::map<std::string, long> by_status;
  long events = 0;
};

void account(Summary& s, const ExecResult& r, FILE* out) {
  s.execs++;
  s.by_status[r.status]++;
  for (char c : r.trace)
    if (c == '\n') s.events++;
  if (out) fwrite(r.trace.data(), 1, r.trace.size(), out);
}

struct PbItem {
  std::vector<int> script; // pairs
  int cost;
};

} // namespace

long Params::get(const char* name, long def) const {
  auto it = kv.find(name);
  return it == kv.end() ? def : atol(it->second.c_str());
}
std::string Params::str(const char* name, const char* def) const {
  auto it = kv.find(name);
  return it == kv.end() ? def : it->second;
}
std::string Params::json() const {
  std::string s = "{";
  bool first = true;
  for (auto& kvp : kv) {
    if (!first) s += ",";
    first = false;
    bool num = !kvp.second.empty();
    for (char c : kvp.second)
      if (!(c >= '0' && c <= '9') && c != '-') num = false;
    s += "\"" + kvp.first + "\":" + (num ? kvp.second : "\"" + kvp.second + "\"");
  }
  return s + "}";
}

void add(const char* name, Scenario fn, const char* defaults) {
  registry().push_back({name, fn, defaults});
}
void begin() {
  vsched::start(g_cfg);
}
unsigned long seed() {
  return g_seed;
}
unsigned long rnd() {
  g_rng ^= g_rng << 13;
  g_rng ^= g_rng >> 7;
  g_rng ^= g_rng << 17;
  return g_rng * 0x2545F4914F6CDD1Dul;
}

int main(int argc, char** argv) {
  Options o;
  for (int i = 1; i < argc; i++) {
    std::string a = argv[i];
    auto next = [&]() -> std::string { return i + 1 < argc ? argv[++i] : ""; };
    if (a == "--list") {
      for (auto& e : registry()) printf("%s %s\n", e.name.c_str(), e.defaults.c_str());
      return 0;
    } else if (a == "--scenario") o.scenario = next();
    else if (a == "--params") o.params = next();
    else if (a == "--strategy") o.strategy = next();
    else if (a == "--seeds") {
      std::string s = next();
      size_t c = s.find(':');
      o.seed_lo = atol(s.c_str());
      o.seed_hi = c == std::string::npos ? o.seed_lo + 1 : atol(s.c_str() + c + 1);
    } else if (a == "--script") o.script = next();
    else if (a == "--scripts-file") o.scripts_file = next();
    else if (a == "--pb-bound") o.pb_bound = atoi(next().c_str());
    else if (a == "--max-execs") o.max_execs = atol(next().c_str());
    else if (a == "--out") o.out = next();
    else if (a == "--switch") o.sw = atoi(next().c_str());
    else if (a == "--time") o.tm = atoi(next().c_str());
    else if (a == "--depth") o.depth = atoi(next().c_str());
    else if (a == "--spurious") o.spurious = atoi(next().c_str());
    else if (a == "--max-steps") o.max_steps = atol(next().c_str());
    else if (a == "-j") o.jobs = atoi(next().c_str());
    else if (a == "--timeout-ms") o.timeout_ms = atoi(next().c_str());
    else if (a == "--no-atomics") o.atomics = false;
    else {
      fprintf(stderr, "unknown option %s\n", a.c_str());
      return 2;
    }
  }
  const Entry* e = nullptr;
  for (auto& x : registry())
    if (x.name == o.scenario) e = &x;
  if (e == nullptr) {
    fprintf(stderr, "unknown scenario '%s' (use --list)\n", o.scenario.c_str());
    return 2;
  }
  Params p = parse_params(e->defaults, o.params);

  // parallel workers: each handles a residue class of the seed range / script list
  int jobs = o.jobs < 1 ? 1 : o.jobs;
  std::vector<pid_t> workers;
  int wid = 0;
  std::vector<std::string> parts;
  if (jobs > 1 && o.strategy != "pb") {
    for (int w = 0; w < jobs; w++) parts.push_back(o.out + ".part" + std::to_string(w));
    for (int w = 0; w < jobs; w++) {
      pid_t pid = fork();
      if (pid == 0) {
        wid = w;
        workers.clear();
        goto work;
      }
      workers.push_back(pid);
    }
    {
      Summary total;
      int bad = 0;
      for (pid_t pid : workers) {
        int st;
        waitpid(pid, &st, 0);
        if (!WIFEXITED(st) || WEXITSTATUS(st) != 0) bad++;
      }
      FILE* out = o.out.empty() ? nullptr : fopen(o.out.c_str(), "w");
      std::string sums = "[";
      for (int w = 0; w < jobs; w++) {
        FILE* f = fopen(parts[(size_t)w].c_str(), "r");
        if (f) {
          char buf[65536];
          size_t n;
          while ((n = fread(buf, 1, sizeof buf, f)) > 0)
            if (out) fwrite(buf, 1, n, out);
          fclose(f);
          unlink(parts[(size_t)w].c_str());
        }
        std::string sp = parts[(size_t)w] + ".sum";
        f = fopen(sp.c_str(), "r");
        if (f) {
          char buf[4096];
          size_t n = fread(buf, 1, sizeof buf - 1, f);
          buf[n] = 0;
          sums += std::string(w ? "," : "") + buf;
          fclose(f);
          unlink(sp.c_str());
        }
      }
      sums += "]";
      if (out) fclose(out);
      printf("{\"workers\":%d,\"bad_workers\":%d,\"parts\":%s}\n", jobs, bad, sums.c_str());
      return bad ? 2 : 0;
    }
  }
work : {
  bool is_worker = jobs > 1 && o.strategy != "pb";
  std::string outp = is_worker ? parts[(size_t)wid] : o.out;
  FILE* out = outp.empty() ? nullptr : fopen(outp.c_str(), "w");
  Summary s;
  long pb_max_cost = 0;
  if (!o.scripts_file.empty()) {
    // one behaviour per line:  params|script
    FILE* f = fopen(o.scripts_file.c_str(), "r");
    if (!f) {
      perror("scripts-file");
      return 2;
    }
    char* line = nullptr;
    size_t cap = 0;
    long idx = 0;
    while (getline(&line, &cap, f) > 0) {
      std::string l = line;
      while (!l.empty() && (l.back() == '\n' || l.back() == '\r')) l.pop_back();
      if (l.empty()) continue;
      long my = idx++;
      if (is_worker && my % jobs != wid) continue;
      size_t bar = l.find('|');
      std::string ps = bar == std::string::npos ? "" : l.substr(0, bar);
      std::string sc = bar == std::string::npos ? l : l.substr(bar + 1);
      Params pp = parse_params(e->defaults, o.params + "," + ps);
      ExecResult r = run_one(*e, pp, o, (unsigned long)(my + 1), "script", parse_ints(sc));
      account(s, r, out);
    }
    free(line);
    fclose(f);
  } else if (o.strategy == "pb" && !o.script.empty()) {
    // replay of one explored execution: the script is the list of (decision, thread) pairs
    ExecResult r = run_one(*e, p, o, (unsigned long)o.seed_lo, "pb", parse_ints(o.script));
    account(s, r, out);
  } else if (o.strategy == "pb") {
    std::deque<PbItem> q[8];
    q[0].push_back({{}, 0});
    long seedc = o.seed_lo;
    while (s.execs < o.max_execs) {
      int c = 0;
      while (c <= o.pb_bound && q[c].empty()) c++;
      if (c > o.pb_bound) break;
      PbItem it = q[c].front();
      q[c].pop_front();
      if (c > pb_max_cost) pb_max_cost = c;
      ExecResult r = run_one(*e, p, o, (unsigned long)seedc, "pb", it.script);
      account(s, r, out);
      long last = it.script.empty() ? -1 : it.script[it.script.size() - 2];
      for (size_t j = 0; j < r.decisions.size(); j++) {
        if ((long)j <= last) continue;
        const auto& d = r.decisions[j];
        if (d.size() < 4) continue;
        for (int a = 0; a < 64; a++) {
          if (!((unsigned long long)d[1] >> a & 1) || a == d[0]) continue;
          int cost = it.cost + ((d[3] && a != d[2]) ? 1 : 0);
          if (cost > o.pb_bound) continue;
          PbItem ni = it;
          ni.script.push_back((int)j);
          ni.script.push_back(a);
          ni.cost = cost;
          q[cost].push_back(ni);
        }
      }
    }
    long left = 0;
    for (int c = 0; c <= o.pb_bound && c < 8; c++) left += (long)q[c].size();
    s.by_status["_pb_unexplored"] = left;
  } else {
    std::vector<int> script = parse_ints(o.script);
    for (long sd = o.seed_lo; sd < o.seed_hi; sd++) {
      if (is_worker && sd % jobs != wid) continue;
      ExecResult r = run_one(*e, p, o, (unsigned long)sd, o.strategy, script);
      account(s, r, out);
    }
  }
  if (out) fclose(out);
  std::string js = "{\"execs\":" + std::to_string(s.execs) + ",\"events\":" + std::to_string(s.events) + ",\"status\":{";
  bool first = true;
  for (auto& kv : s.by_status) {
    js += std::string(first ? "" : ",") + "\"" + kv.first + "\":" + std::to_string(kv.second);
    first = false;
  }
  js += "}}";
  if (is_worker) {
    FILE* f = fopen((parts[(size_t)wid] + ".sum").c_str(), "w");
    if (f) {
      fputs(js.c_str(), f);
      fclose(f);
    }
    _exit(0);
  }
  printf("%s\n", js.c_str());
  return 0;
}
}

} // namespace vrun
