// libc / pthread entry points redefined in the harness executable so that the
// blocking, time and thread primitives babylon reaches (directly, through
// libstdc++ or through abseil) are controlled by vsched. Unmanaged threads and
// the phases before vsched::start / after vsched::finish fall through to libc.
// Compiled without interpose.h.
#include <dlfcn.h>
#include <errno.h>
#include <linux/futex.h>
#include <pthread.h>
#include <sched.h>
#include <stdarg.h>
#include <stdint.h>
#include <sys/syscall.h>
#include <time.h>
#include <unistd.h>

#include "vsched.h"

__asm__(".symver __pthread_mutex_lock,__pthread_mutex_lock@GLIBC_2.2.5");
__asm__(".symver __pthread_mutex_trylock,__pthread_mutex_trylock@GLIBC_2.2.5");
__asm__(".symver __pthread_mutex_unlock,__pthread_mutex_unlock@GLIBC_2.2.5");
extern "C" {

int __pthread_mutex_lock(pthread_mutex_t*);
int __pthread_mutex_trylock(pthread_mutex_t*);
int __pthread_mutex_unlock(pthread_mutex_t*);

static long raw6(long n, long a, long b, long c, long d, long e, long f) {
  long ret;
  register long r10 __asm__("r10") = d;
  register long r8 __asm__("r8") = e;
  register long r9 __asm__("r9") = f;
  __asm__ volatile("syscall" : "=a"(ret) : "a"(n), "D"(a), "S"(b), "d"(c), "r"(r10), "r"(r8), "r"(r9) : "rcx", "r11", "memory");
  if (ret < 0 && ret > -4096) {
    errno = (int)-ret;
    return -1;
  }
  return ret;
}

long syscall(long n, ...) noexcept {
  va_list ap;
  va_start(ap, n);
  long a = va_arg(ap, long), b = va_arg(ap, long), c = va_arg(ap, long), d = va_arg(ap, long), e = va_arg(ap, long), f = va_arg(ap, long);
  va_end(ap);
  if (n == SYS_futex && vsched::active()) {
    int cmd = (int)b & FUTEX_CMD_MASK;
    if (cmd == FUTEX_WAIT) return vsched::futex_wait((uint32_t*)a, (uint32_t)c, (const struct timespec*)d);
    if (cmd == FUTEX_WAKE) return vsched::futex_wake((uint32_t*)a, (int)c);
  }
  return raw6(n, a, b, c, d, e, f);
}

int usleep(useconds_t us) {
  if (vsched::active()) {
    vsched::sleep_ns((int64_t)us * 1000);
    return 0;
  }
  struct timespec ts = {(time_t)(us / 1000000), (long)(us % 1000000) * 1000};
  return (int)raw6(SYS_nanosleep, (long)&ts, 0, 0, 0, 0, 0);
}

int nanosleep(const struct timespec* req, struct timespec* rem) {
  if (vsched::active()) {
    vsched::sleep_ns((int64_t)req->tv_sec * 1000000000ll + req->tv_nsec);
    return 0;
  }
  return (int)raw6(SYS_nanosleep, (long)req, (long)rem, 0, 0, 0, 0);
}

int clock_nanosleep(clockid_t clk, int flags, const struct timespec* req, struct timespec* rem) {
  if (vsched::active()) {
    int64_t ns = (int64_t)req->tv_sec * 1000000000ll + req->tv_nsec;
    if (flags & TIMER_ABSTIME) ns -= vsched::now_ns() + (clk == CLOCK_REALTIME ? 1700000000ll * 1000000000ll : 0);
    vsched::sleep_ns(ns < 0 ? 0 : ns);
    return 0;
  }
  long r = raw6(SYS_clock_nanosleep, clk, flags, (long)req, (long)rem, 0, 0);
  return r < 0 ? errno : 0;
}

int sched_yield(void) noexcept {
  if (vsched::active()) {
    vsched::yield();
    return 0;
  }
  return (int)raw6(SYS_sched_yield, 0, 0, 0, 0, 0, 0);
}

// virtual clocks: monotonic clocks start at 1000 s, realtime at a fixed epoch
int clock_gettime(clockid_t clk, struct timespec* ts) noexcept {
  if (vsched::active()) {
    int64_t ns = vsched::clock_read((int)clk);
    if (clk == CLOCK_REALTIME || clk == CLOCK_REALTIME_COARSE) ns += 1700000000ll * 1000000000ll;
    else ns += 1000ll * 1000000000ll;
    ts->tv_sec = (time_t)(ns / 1000000000ll);
    ts->tv_nsec = (long)(ns % 1000000000ll);
    return 0;
  }
  return (int)raw6(SYS_clock_gettime, clk, (long)ts, 0, 0, 0, 0);
}

int pthread_mutex_lock(pthread_mutex_t* m) noexcept {
  if (vsched::active()) {
    vsched::mutex_lock(m);
    return 0;
  }
  return __pthread_mutex_lock(m);
}
int pthread_mutex_trylock(pthread_mutex_t* m) noexcept {
  if (vsched::active()) return vsched::mutex_trylock(m);
  return __pthread_mutex_trylock(m);
}
int pthread_mutex_unlock(pthread_mutex_t* m) noexcept {
  if (vsched::active()) {
    vsched::mutex_unlock(m);
    return 0;
  }
  return __pthread_mutex_unlock(m);
}

typedef int (*create_fn)(pthread_t*, const pthread_attr_t*, void* (*)(void*), void*);
typedef int (*join_fn)(pthread_t, void**);

int pthread_create(pthread_t* th, const pthread_attr_t* attr, void* (*fn)(void*), void* arg) noexcept {
  static create_fn real = (create_fn)dlsym(RTLD_NEXT, "pthread_create");
  void* targ = nullptr;
  int id = vsched::on_create(&targ, fn, arg);
  if (id < 0) return real(th, attr, fn, arg);
  int r = real(th, attr, vsched::trampoline, targ);
  if (r == 0) vsched::register_handle(id, (unsigned long)*th);
  return r;
}

int pthread_join(pthread_t th, void** ret) {
  static join_fn real = (join_fn)dlsym(RTLD_NEXT, "pthread_join");
  if (vsched::active()) {
    int id = vsched::id_of_handle((unsigned long)th);
    if (id >= 0) vsched::on_join(id);
  }
  return real(th, ret);
}

} // extern "C"
