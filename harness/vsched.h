// vsched: deterministic user-level scheduler + trace recorder used to bind the
// TLA+ specifications in /verif/spec to the real babylon code.
//
// Exactly one *managed* thread runs between two schedule points. Schedule
// points are: every interposed std::atomic operation / fence (interpose.h),
// futex wait/wake, usleep / sched_yield / nanosleep, clock reads, mutex
// lock/unlock, thread create / join / exit (shims.cc) and the driver's own
// markers (call / ret / payload accesses).
//
// This file is compiled WITHOUT interposition (it uses compiler builtins and raw
// futex system calls only), so it adds no synchronisation that babylon's own
// operations would not have, and it can be included from interposed code.
#pragma once
#include <stddef.h>
#include <stdint.h>
#include <time.h>

namespace vsched {

enum OpKind : uint8_t {
  K_LOAD = 0,
  K_STORE,
  K_XCHG,
  K_CAS,
  K_FAA,
  K_FAND,
  K_FOR,
  K_FXOR,
  K_FENCE,
  K_FUTEX_WAIT,
  K_FUTEX_WAKE,
  K_SLEEP,
  K_YIELD,
  K_CLOCK,
  K_MUTEX_LOCK,
  K_MUTEX_UNLOCK,
  K_SPAWN,
  K_JOIN,
  K_EXIT,
  K_START,
  K_USER,  // driver events (call/ret/acc ...)
  K_POINT, // guarded hook in babylon (BABYLON_VERIF)
};

// memory orders as small ints (same numbering as std::memory_order)
enum Mo : uint8_t { MO_RLX = 0, MO_CON, MO_ACQ, MO_REL, MO_AR, MO_SC, MO_NONE = 9 };

struct Op {
  const void* addr;
  uint8_t size;
  uint8_t kind;
  uint8_t mo;      // success / only order
  uint8_t mo_fail; // CAS failure order
  uint8_t weak;    // CAS weak
  uint64_t a;      // operand (store value, add value, CAS expected)
  uint64_t b;      // CAS desired
};

// ---- called by interpose.h ------------------------------------------------
// Announce the operation; returns when this thread may perform it.
void before(const Op& op) noexcept;
// Report the result (value read / previous value; ok for CAS) and log the event.
void after(const Op& op, uint64_t result, bool ok) noexcept;
// For weak CAS: should a spurious failure be injected (only when scripted).
bool inject_spurious() noexcept;
// true when the calling thread is managed and the scheduler is active
bool active() noexcept;

// ---- driver API -----------------------------------------------------------
struct Config {
  uint64_t seed = 1;
  // "random": at each point keep running thread with prob (1-switch_permille/1000)
  // "pct": PCT with `depth` priority change points over `est_steps`
  // "script": follow `script` (thread ids, -1 = advance time), then "random"
  // "pb": preemption-bounded: follow `script` of (step, thread) preemptions; else
  //       non-preemptive (run current thread until it blocks/yields)
  const char* strategy = "random";
  int switch_permille = 300;
  int time_permille = 50; // probability to fire the earliest timer while others are enabled
  int spurious_permille = 0; // probability (per decision) of a spurious futex return for some blocked thread
  int pct_depth = 3;
  int est_steps = 400;
  long max_steps = 200000;
  const int* script = nullptr; // strategy script
  int script_len = 0;
  bool log_atomics = true;
};

void start(const Config& cfg);  // calling thread becomes managed thread 0
void finish();                  // all other managed threads must have exited
long steps();                   // schedule points so far
int self();                     // managed thread id or -1
int64_t now_ns();               // virtual time

// name an address range for the trace ("q.slot[1].word"). stride>0: array of
// `count` elements `elem` bytes apart named name[i]
void name_loc(const void* addr, size_t bytes, const char* name);
void name_array(const void* addr, size_t elem_bytes, size_t count, const char* fmt_name);
void clear_names();

// driver events: a JSON object body WITHOUT braces, e.g.  "\"k\":\"call\",\"op\":\"push\",\"v\":3"
// `point`: also make it a schedule point
void event(const char* json_body, bool point = false);
void eventf(bool point, const char* fmt, ...) __attribute__((format(printf, 2, 3)));

// Outcome of the execution, written as the last trace line: {"k":"end","status":...}
enum Status { ST_OK = 0, ST_DEADLOCK = 1, ST_BUDGET = 2, ST_CRASH = 3, ST_SCRIPT_MISMATCH = 4 };

// Where the trace goes. fd < 0: keep in memory (trace_data()).
void set_trace_fd(int fd);
const char* trace_data(size_t* len);
// number of schedule decisions that had >1 enabled thread, and the choices taken (for pb exploration)
struct Decision {
  int step;
  int chosen;
  int n_enabled;
  uint64_t enabled_mask;
  int prev; // thread that was running
  uint8_t prev_enabled;
};
const Decision* decisions(size_t* n);

// ---- used by shims.cc -----------------------------------------------------
int futex_wait(uint32_t* addr, uint32_t val, const struct timespec* rel_timeout) noexcept; // returns 0 / -1 with errno
int futex_wake(uint32_t* addr, int n) noexcept;
void sleep_ns(int64_t ns) noexcept;
void yield() noexcept;
int64_t clock_read(int clk) noexcept; // schedule point + returns virtual ns for clock id
void mutex_lock(void* m) noexcept;
int mutex_trylock(void* m) noexcept;
void mutex_unlock(void* m) noexcept;
// thread life-cycle
struct ThreadStart {
  void* (*fn)(void*);
  void* arg;
  int id;
};
int on_create(void** trampoline_arg, void* (*fn)(void*), void* arg) noexcept; // returns new id or -1 if unmanaged
void* trampoline(void* ts);
void register_handle(int id, unsigned long handle) noexcept;
int id_of_handle(unsigned long handle) noexcept;
void on_join(int id) noexcept; // blocks (virtually) until thread exited
void point(const void* addr, const char* what) noexcept; // BABYLON_VERIF hook

} // namespace vsched
