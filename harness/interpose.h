// Force-included (-include) in every translation unit of a harness build.
// Replaces std::atomic<T> and std::atomic_thread_fence *as seen by babylon code*
// with layout-identical wrappers that report each operation (address, size, kind,
// memory order actually passed, operands, result) to vsched before performing
// the real operation with the real order. No babylon source is changed.
#pragma once
#ifndef VERIF_INTERPOSE_H
#define VERIF_INTERPOSE_H

// ---- everything that must see the real std::atomic is included first ---------
#include <algorithm>
#include <array>
#include <atomic>
#include <cassert>
#include <chrono>
#include <condition_variable>
#include <coroutine>
#include <cstddef>
#include <cstdint>
#include <cstring>
#include <deque>
#include <fstream>
#include <functional>
#include <future>
#include <iostream>
#include <limits>
#include <list>
#include <map>
#include <memory>
#include <memory_resource>
#include <mutex>
#include <new>
#include <optional>
#include <random>
#include <regex>
#include <set>
#include <shared_mutex>
#include <sstream>
#include <stdexcept>
#include <streambuf>
#include <string>
#include <string_view>
#include <thread>
#include <tuple>
#include <type_traits>
#include <typeinfo>
#include <unordered_map>
#include <unordered_set>
#include <utility>
#include <variant>
#include <vector>
#include <version>

#include <absl/base/attributes.h>
#include <absl/base/config.h>
#include <absl/base/optimization.h>
#include <absl/container/flat_hash_map.h>
#include <absl/container/flat_hash_set.h>
#include <absl/container/inlined_vector.h>
#include <absl/meta/type_traits.h>
#include <absl/numeric/bits.h>
#include <absl/strings/escaping.h>
#include <absl/strings/str_format.h>
#include <absl/strings/str_split.h>
#include <absl/time/clock.h>
#include <absl/time/time.h>
#include <absl/utility/utility.h>
#include <google/protobuf/arena.h>
#include <google/protobuf/io/coded_stream.h>
#include <google/protobuf/io/zero_copy_stream_impl_lite.h>
#include <google/protobuf/message.h>
#include <google/protobuf/message_lite.h>
#include <google/protobuf/repeated_field.h>
#include <google/protobuf/text_format.h>
#ifdef VERIF_EXTRA_PREINCLUDE
#include VERIF_EXTRA_PREINCLUDE
#endif

#include "vsched.h"

namespace std {

inline void verif_atomic_thread_fence(memory_order mo) noexcept {
  ::vsched::Op op{};
  op.kind = ::vsched::K_FENCE;
  op.mo = static_cast<uint8_t>(mo);
  ::vsched::before(op);
  atomic_thread_fence(mo);
  ::vsched::after(op, 0, true);
}

template <typename T>
struct vatomic {
  static_assert(is_trivially_copyable<T>::value, "atomic of non-trivially-copyable type");
  atomic<T> _real;

  static constexpr bool is_always_lock_free = atomic<T>::is_always_lock_free;

  vatomic() noexcept = default;
  constexpr vatomic(T v) noexcept : _real(v) {}
  vatomic(const vatomic&) = delete;
  vatomic& operator=(const vatomic&) = delete;

  static uint64_t bits(const T& v) noexcept {
    uint64_t r = 0;
    memcpy(&r, &v, sizeof(T) < 8 ? sizeof(T) : 8);
    return r;
  }
  ::vsched::Op mk(uint8_t kind, memory_order mo) const noexcept {
    ::vsched::Op op{};
    op.addr = this;
    op.size = sizeof(T);
    op.kind = kind;
    op.mo = static_cast<uint8_t>(mo);
    return op;
  }

  bool is_lock_free() const noexcept { return _real.is_lock_free(); }
  bool is_lock_free() const volatile noexcept { return _real.is_lock_free(); }

  T load(memory_order mo = memory_order_seq_cst) const noexcept {
    auto op = mk(::vsched::K_LOAD, mo);
    ::vsched::before(op);
    T v = _real.load(mo);
    ::vsched::after(op, bits(v), true);
    return v;
  }
  operator T() const noexcept { return load(); }

  void store(T v, memory_order mo = memory_order_seq_cst) noexcept {
    auto op = mk(::vsched::K_STORE, mo);
    op.a = bits(v);
    ::vsched::before(op);
    _real.store(v, mo);
    ::vsched::after(op, 0, true);
  }
  T operator=(T v) noexcept {
    store(v);
    return v;
  }

  T exchange(T v, memory_order mo = memory_order_seq_cst) noexcept {
    auto op = mk(::vsched::K_XCHG, mo);
    op.a = bits(v);
    ::vsched::before(op);
    T old = _real.exchange(v, mo);
    ::vsched::after(op, bits(old), true);
    return old;
  }

  bool cas_impl(T& expected, T desired, memory_order s, memory_order f, bool weak) noexcept {
    auto op = mk(::vsched::K_CAS, s);
    op.mo_fail = static_cast<uint8_t>(f);
    op.weak = weak;
    op.a = bits(expected);
    op.b = bits(desired);
    ::vsched::before(op);
    bool ok;
    if (weak && ::vsched::inject_spurious()) {
      expected = _real.load(f);
      ok = false;
    } else {
      ok = _real.compare_exchange_strong(expected, desired, s, f);
    }
    ::vsched::after(op, ok ? op.a : bits(expected), ok);
    return ok;
  }
  static constexpr memory_order fail_order(memory_order m) noexcept {
    return m == memory_order_acq_rel ? memory_order_acquire : m == memory_order_release ? memory_order_relaxed : m;
  }
  bool compare_exchange_strong(T& e, T d, memory_order s, memory_order f) noexcept { return cas_impl(e, d, s, f, false); }
  bool compare_exchange_strong(T& e, T d, memory_order m = memory_order_seq_cst) noexcept { return cas_impl(e, d, m, fail_order(m), false); }
  bool compare_exchange_weak(T& e, T d, memory_order s, memory_order f) noexcept { return cas_impl(e, d, s, f, true); }
  bool compare_exchange_weak(T& e, T d, memory_order m = memory_order_seq_cst) noexcept { return cas_impl(e, d, m, fail_order(m), true); }

  // arithmetic (integral and pointer types)
  template <typename U = T, typename D = conditional_t<is_pointer<U>::value, ptrdiff_t, U>>
  U fetch_add(D v, memory_order mo = memory_order_seq_cst) noexcept {
    auto op = mk(::vsched::K_FAA, mo);
    op.a = static_cast<uint64_t>(v);
    ::vsched::before(op);
    U old = _real.fetch_add(v, mo);
    ::vsched::after(op, bits(old), true);
    return old;
  }
  template <typename U = T, typename D = conditional_t<is_pointer<U>::value, ptrdiff_t, U>>
  U fetch_sub(D v, memory_order mo = memory_order_seq_cst) noexcept {
    auto op = mk(::vsched::K_FAA, mo);
    op.a = static_cast<uint64_t>(0) - static_cast<uint64_t>(v);
    ::vsched::before(op);
    U old = _real.fetch_sub(v, mo);
    ::vsched::after(op, bits(old), true);
    return old;
  }
  template <typename U = T>
  U fetch_and(U v, memory_order mo = memory_order_seq_cst) noexcept {
    auto op = mk(::vsched::K_FAND, mo);
    op.a = bits(v);
    ::vsched::before(op);
    U old = _real.fetch_and(v, mo);
    ::vsched::after(op, bits(old), true);
    return old;
  }
  template <typename U = T>
  U fetch_or(U v, memory_order mo = memory_order_seq_cst) noexcept {
    auto op = mk(::vsched::K_FOR, mo);
    op.a = bits(v);
    ::vsched::before(op);
    U old = _real.fetch_or(v, mo);
    ::vsched::after(op, bits(old), true);
    return old;
  }
  template <typename U = T>
  U fetch_xor(U v, memory_order mo = memory_order_seq_cst) noexcept {
    auto op = mk(::vsched::K_FXOR, mo);
    op.a = bits(v);
    ::vsched::before(op);
    U old = _real.fetch_xor(v, mo);
    ::vsched::after(op, bits(old), true);
    return old;
  }
  template <typename U = T>
  U operator++() noexcept { return fetch_add(1) + 1; }
  template <typename U = T>
  U operator++(int) noexcept { return fetch_add(1); }
  template <typename U = T>
  U operator--() noexcept { return fetch_sub(1) - 1; }
  template <typename U = T>
  U operator--(int) noexcept { return fetch_sub(1); }
  template <typename U = T>
  U operator+=(U v) noexcept { return fetch_add(v) + v; }
  template <typename U = T>
  U operator-=(U v) noexcept { return fetch_sub(v) - v; }
  template <typename U = T>
  U operator|=(U v) noexcept { return fetch_or(v) | v; }
  template <typename U = T>
  U operator&=(U v) noexcept { return fetch_and(v) & v; }
};

} // namespace std

#define atomic vatomic
#define atomic_thread_fence verif_atomic_thread_fence

#endif // VERIF_INTERPOSE_H
