------------------------------ MODULE MC_CVec ------------------------------
(* Model-checking instance of CVec: memory orders from the table MO_CVec (regenerated from *)
(* the running code by the conformance step), program families as constants.               *)
EXTENDS CVec, MO_CVec

MOf(site) == MO[site]

O(op, n) == [op |-> op, n |-> n]
Cfg(bs, t0, prog) == [bs |-> bs, t0 |-> t0, prog |-> prog]
E(n) == O("e", n)
S == O("s", 0)
U(n) == O("u", n)
G == O("g", 0)

\* growers only (no clock): who wins / loses the table CAS, loser clean-up, retry with a larger table
Cfg_grow2q == { Cfg(bs, 0, << <<E(i)>>, <<E(j)>> >>) : bs \in {1, 2}, i \in {0, 3}, j \in {1, 3} }
         \cup { Cfg(2, 0, << <<E(0), E(3)>>, <<E(5), O("x", 0)>> >>), Cfg(1, 0, << <<O("r", 2)>>, <<O("f", 1), E(1)>> >>) }
Cfg_wmq == { Cfg(1, 0, << <<E(1)>>, <<E(0), O("x", 0)>>, <<S, U(0)>> >>), Cfg(2, 0, << <<E(2)>>, <<E(3)>>, <<S, U(1)>> >>) }
Cfg_grow2 == { Cfg(bs, 0, << <<E(i)>>, <<E(j)>> >>) : bs \in {1, 2}, i \in 0..3, j \in 0..3 }
       \cup { Cfg(bs, 0, << <<E(0), E(i)>>, <<E(j), O("x", 0)>> >>) : bs \in {1, 2}, i \in {1, 3}, j \in {2, 5} }
       \cup { Cfg(bs, 0, << <<O("r", 3)>>, <<O("f", 2), E(1)>> >>) : bs \in {1, 2} }
Cfg_grow3 == { Cfg(bs, 0, << <<E(i)>>, <<E(j)>>, <<E(k)>> >>) : bs \in {1, 2}, i \in {0, 1}, j \in {1, 2}, k \in {2, 5} }
\* clock families: growers + snapshot holder + gc caller.  t0 puts the start near the stamp wrap.
Cfg_clock == { Cfg(1, t0, << <<E(0)>>, <<E(1)>>, <<S, U(0)>>, <<G>> >>) : t0 \in {0, 2 * TPU} }
\* stamp arithmetic across the wrap and from initial clock values beyond one and several wraps (SMOD units each):
\* one grower that supersedes two tables, a snapshot holder that also calls gc
WrapStarts == {(SMOD - 1) * TPU, SMOD * TPU + TPU, 2 * SMOD * TPU + 3 * TPU, 5 * SMOD * TPU}
Cfg_wrap == { Cfg(1, t0, << <<E(0), E(1)>>, <<S, G, U(0)>> >>) : t0 \in WrapStarts }
Cfg_wrapq == { Cfg(1, t0, << <<E(0), E(1)>>, <<S, G, U(0)>> >>) : t0 \in {(SMOD - 1) * TPU, 2 * SMOD * TPU + 3 * TPU} }
Cfg_h4w == { Cfg(1, t0, << <<E(0)>>, <<E(1)>>, <<G>> >>) : t0 \in WrapStarts }
\* smallest witness family of hypothesis H4: two growers, one gc caller
Cfg_h4 == { Cfg(1, 0, << <<E(0)>>, <<E(1)>>, <<G>> >>) }
\* weak memory (no clock): publication of the table and of the elements behind it
Cfg_wm == { Cfg(bs, 0, << <<E(1)>>, <<E(0), O("x", 0)>>, <<S, U(0)>> >>) : bs \in {1, 2} }
     \cup { Cfg(1, 0, << <<E(0)>>, <<E(1)>>, <<E(1)>> >>) }

\* Reduction.  Allocating / filling / dropping private tables and blocks (s_new, s_blk, s_del, s_deltab) and
\* entering an operation (Call) touch nothing another thread can observe before the next atomic operation
\* of the same thread, so they commute with every step of the other threads: it is enough to explore the
\* interleavings in which such a step is taken as soon as it is enabled (lowest thread first).
\* The same holds for the return of an operation that is handed an element or nothing (blocks are only given
\* back by their creator before publication or by the destructor).
LocalPc(t) == \/ pc[t] \in {"s_new", "s_blk", "s_del", "s_deltab"}
              \/ (pc[t] = "idle" /\ L[t].opi <= Len(cfg.prog[t]))
              \/ (pc[t] = "ret" /\ Op(t).op \in {"e", "x", "r", "f", "g"})
LocalThr == {t \in Thr : LocalPc(t)}
Next == IF LocalThr # {}
        THEN Step(CHOOSE t \in LocalThr : \A u \in LocalThr : t <= u, MOf)
        ELSE \/ \E t \in Thr : Step(t, MOf)
             \/ Destroy(MOf)
             \/ (now < cfg.t0 + MaxNow /\ TimeMatters /\ Tick(1))
             \/ (Dead /\ UNCHANGED vars)
\* the same without the reduction (used to cross-check it on the smallest family)
NextFull == \/ \E t \in Thr : Step(t, MOf)
            \/ Destroy(MOf)
            \/ (now < cfg.t0 + MaxNow /\ Tick(1))
            \/ (Dead /\ UNCHANGED vars)
SpecFull == Init /\ [][NextFull]_vars
Spec == Init /\ [][Next]_vars

\* hide the ghost event from the state identity
View == <<cfg, ms, pc, L, hp, now, H>>
=============================================================================
