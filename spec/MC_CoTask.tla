----------------------------- MODULE MC_CoTask -----------------------------
(* Model-checking instance of CoTask: await_suspend registering the awaiter vs final_suspend reading it, *)
(* future awaitable on_finish vs set_value; parent and child on the same / different executors          *)
EXTENDS CoTask

O(op, r) == [op |-> op, r |-> r]
Cfg(kinds, bound, cex, emode, prog) == [kinds |-> kinds, bound |-> bound, cex |-> cex, emode |-> emode, prog |-> prog]
Modes == {<<"i", "i">>, <<"i", "q">>, <<"q", "i">>, <<"q", "q">>}

Cfg_quick ==
  { Cfg(kd, 1, cx, em, << <<O("s", 0)>>, <<O("v", 1)>>, <<O("v", 2)>> >>) :
      kd \in {<<"f", "t">>, <<"t", "f">>, <<"t", "i">>, <<"i", "t">>, <<"t", "t">>}, cx \in {0, 2}, em \in Modes }
Cfg_3r ==
  { Cfg(kd, 1, cx, em, << <<O("s", 0)>>, <<O("v", 1), O("v", 3)>>, <<O("v", 2)>> >>) :
      kd \in {<<"f", "t", "i">>, <<"t", "i", "f">>, <<"t", "t", "t">>, <<"f", "f", "t">>}, cx \in {0, 1, 2}, em \in Modes }

Next == \/ \E t \in Thr : Step(t)
        \/ (AllDone /\ UNCHANGED vars)
Spec == Init /\ [][Next]_vars
=============================================================================
