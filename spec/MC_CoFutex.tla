---------------------------- MODULE MC_CoFutex ----------------------------
(* Model-checking instance of CoFutex: configuration families.                        *)
(* waiters <= 3, wakers 1-2, cancellers 1-2, slot reuse depth 2 (two rounds), 2 executors *)
EXTENDS CoFutex

O(op, w, r) == [op |-> op, w |-> w, r |-> r]
S(w) == O("s", w, 0)
K == O("k", 0, 0)
A == O("a", 0, 0)
C(w, r) == O("c", w, r)
U == O("u", 0, 0)
Cfg(kinds, bound, emode, prog) == [kinds |-> kinds, bound |-> bound, emode |-> emode, prog |-> prog]
Modes == {<<"i", "i">>, <<"i", "q">>, <<"q", "q">>}

\* ---- H3a: a canceller owns the first node but has not unlinked it yet when wake_one scans
Cfg_h3a == { Cfg(<< <<"m">>, <<"m">> >>, <<1, 1>>, <<"i", "i">>, << <<S(1), S(2)>>, <<K>>, <<C(2, 1)>> >>) }
\* ---- H3b: a newcomer re-emplaces the slot wake_all has just given back
Cfg_h3b == { Cfg(<< <<"m">>, <<"m">>, <<"m">> >>, <<1, 1, 1>>, <<"i", "i">>, << <<S(1), S(2)>>, <<A>>, <<S(3)>> >>) }
\* ---- H3c: a wait whose value does not match
Cfg_h3c == { Cfg(<< <<"x">> >>, <<1>>, <<"i", "i">>, << <<S(1)>> >>) }

\* ---- families for the exhaustive runs (checked with the proposed repairs switched on, see the cfg files)
\* two waiters with two rounds (slot reuse depth 2), one waker thread, one canceller, every executor mode pairing
Cfg_small ==
  { Cfg(<< <<"m", "m">>, <<"m">> >>, <<1, 2>>, em, << <<S(1), S(2)>>, <<K, A>>, <<C(2, 1)>> >>) : em \in Modes }
  \cup { Cfg(<< <<"m", "x">>, <<"x", "m">> >>, <<1, 2>>, em, << <<S(1)>>, <<S(2), K>>, <<A>> >>) : em \in {<<"i", "q">>} }
  \cup { Cfg(<< <<"c", "m">>, <<"m">> >>, <<1, 1>>, <<"i", "i">>, << <<S(1), S(2)>>, <<K>>, <<K>> >>) }
\* the quick tier's exhaustive run: slot reuse, wake_one + wake_all against a canceller, inline + queued executor
Cfg_quick ==
  { Cfg(<< <<"m", "m">>, <<"m">> >>, <<1, 2>>, <<"i", "q">>, << <<S(1), S(2)>>, <<K, A>>, <<C(2, 1)>> >>) }
\* value changes: wakers store a new value then wake; waiters wait for the old / the current value (lost wake-up clause)
Cfg_val ==
  { Cfg(<< <<"m", "d">>, <<"d", "m">> >>, <<1, 2>>, em, << <<S(1), S(2)>>, <<U, A>>, <<U, K>> >>) : em \in {<<"i", "i">>, <<"i", "q">>} }
  \cup { Cfg(<< <<"d", "d">>, <<"d">> >>, <<1, 1>>, <<"i", "i">>, << <<S(1)>>, <<S(2), U, A>>, <<U, A>>, <<C(1, 1)>> >>) }
Cfg_valq ==
  { Cfg(<< <<"m", "d">>, <<"d">> >>, <<1, 2>>, <<"i", "q">>, << <<S(1), S(2)>>, <<U, A>>, <<U, K>> >>) }
\* three waiters, wake_one against wake_all against a canceller
Cfg_3w ==
  { Cfg(<< <<"m">>, <<"m">>, <<"m">> >>, <<1, 2, 1>>, em, << <<S(1), S(2), S(3)>>, <<K>>, <<A>>, <<C(2, 1)>> >>) : em \in {<<"i", "q">>, <<"i", "i">>} }
\* two wakers, two cancellers, reuse
Cfg_2k2c ==
  { Cfg(<< <<"m", "m">>, <<"m", "m">> >>, <<1, 2>>, <<"i", "q">>, << <<S(1), S(2)>>, <<K, K>>, <<A>>, <<C(1, 1)>>, <<C(2, 1)>> >>) }
\* wake_all walking its private list while newcomers arrive and reuse slots (the H3b situation, all modes)
Cfg_reuse ==
  { Cfg(<< <<"m", "m">>, <<"m", "m">>, <<"m">> >>, <<1, 1, 2>>, em, << <<S(1), S(2)>>, <<A, A>>, <<S(3), K>> >>) : em \in Modes }

Cfg_fixcheck == Cfg_h3a \cup Cfg_h3b \cup Cfg_h3c

Next == \/ \E t \in Thr : Step(t)
        \/ (AllDone /\ UNCHANGED vars)
Spec == Init /\ [][Next]_vars
=============================================================================
