--------------------------- MODULE Appender_Trace ---------------------------
(***************************************************************************)
(* Trace validation of the REAL AsyncFileAppender (driver scenario "app")  *)
(* against the L2 specification Appender.tla: L2 conformance only (a trace *)
(* that cannot be explained is SPEC-DRIFT, never a violation; verdicts     *)
(* come from Appender_Mon.tla).                                            *)
(*                                                                         *)
(* Visible lines and the Appender action that must explain them:           *)
(*   wcall / dcall (t, i, f)   Build(t)      (the entry <<t,i>> exists)    *)
(*   wret                      Ret(t)        dret            Discard(t)    *)
(*   check (f, rot)            WDestOne(rot) for destination f             *)
(*   writev (f, cnt, entries)  WWritev: the next chunk (<= IOV_MAX         *)
(*                             segments) of that destination's list        *)
(*   ccall                     CCall         cret            CJoin         *)
(* Everything the queue does in between (ticket, publish, the writer's     *)
(* pops / releases / back-off, the closer's marker) is not logged at this  *)
(* level (the atomics of the queue belong to C01 / C02): those actions are *)
(* Silent steps TLC may insert anywhere.  The trace is accepted iff some   *)
(* interleaving of silent steps explains every line.                       *)
(***************************************************************************)
EXTENDS Appender, Json, IOUtils

Tr == ndJsonDeserialize(IOEnv.TRACE)

VARIABLES l       \* next line to explain

tvars == <<vars, l>>

\* every op carries the number of segments (pages + page-table pages) the real entry had
CfgOf(e) == [prog |-> e.prog, cap |-> e.cap, maxrot |-> 64, early |-> FALSE, iovmax |-> e.iovmax]

\* the next execution starts from the initial state of its configuration (InitFor, primed)
ResetFor(c) ==
  /\ cfg' = c
  /\ lpc' = [t \in 1..Len(c.prog) |-> "idle"] /\ li' = [t \in 1..Len(c.prog) |-> 1]
  /\ cells' = << >> /\ popIdx' = 0 /\ relIdx' = 0
  /\ tk' = [t \in 0..Len(c.prog) |-> 0]
  /\ cpc' = "wait"
  /\ wpc' = "pop" /\ wn' = 0 /\ woff' = 0 /\ wfull' = FALSE /\ stop' = FALSE /\ wdi' = 1
  /\ dests' = << >> /\ iov' = [f \in Files |-> << >>]
  /\ gen' = [f \in Files |-> 0] /\ rots' = 0
  /\ content' = [f \in Files |-> << >>]
  /\ held' = {} /\ pool' = {} /\ dfree' = FALSE
  /\ wdone' = {} /\ must' = {} /\ discarded' = {}

TInit ==
  /\ l = 2
  /\ Tr[1].k = "reset"
  /\ InitFor(CfgOf(Tr[1]))
  /\ TLCSet(1, 1) /\ TLCSet(2, {})

Progress == TLCSet(1, IF TLCGet(1) < l' THEN l' ELSE TLCGet(1))

\* the entries (in order, without repetition) a chunk of the model's scatter list belongs to
EntsOf(q) == LET keep == {i \in 1..Len(q) : i = 1 \/ q[i][1] # q[i - 1][1]}
                 idx(k) == CHOOSE i \in keep : Cardinality({j \in keep : j <= i}) = k
             IN [k \in 1..Cardinality(keep) |-> q[idx(k)][1]]
ChunkLen == LET f == dests[wdi] IN IF Len(iov[f]) - woff < IOVMax THEN Len(iov[f]) - woff ELSE IOVMax

Visible ==
  /\ l <= Len(Tr)
  /\ LET e == Tr[l]
     IN CASE e.k \in {"wcall", "dcall"} ->
               /\ e.t \in Loggers /\ Cur(e.t) = <<e.t, e.i>> /\ ~Finished(e.t)
               /\ OpOf(Cur(e.t)).k = (IF e.k = "wcall" THEN "w" ELSE "d") /\ (e.k = "wcall" => OpOf(Cur(e.t)).f = e.f)
               /\ Build(e.t)
          [] e.k = "wret" -> e.t \in Loggers /\ Ret(e.t)
          [] e.k = "dret" -> e.t \in Loggers /\ Discard(e.t)
          [] e.k = "check" ->
               /\ wpc = "dest" /\ wdi <= Len(dests) /\ dests[wdi] = e.f
               /\ WDestOne(e.rot)
          [] e.k = "writev" ->
               /\ wpc = "wv" /\ dests[wdi] = e.f
               /\ ChunkLen = e.cnt
               /\ EntsOf(SubSeq(iov[e.f], woff + 1, woff + ChunkLen)) = e.ents
               /\ WWritev
          [] e.k = "ccall" -> CCall
          [] e.k = "cret" -> CJoin
          [] e.k = "end" ->
               /\ (e.status = "ok" => cpc = "done" /\ \A t \in Loggers : Finished(t))
               /\ UNCHANGED vars
          [] e.k = "reset" -> ResetFor(CfgOf(e))
          [] OTHER -> FALSE
  /\ l' = l + 1
  /\ (Tr[l].k # "reset" => UNCHANGED cfg)

\* what the queue and the writer do between two logged events
Silent ==
  /\ l <= Len(Tr) /\ Tr[l].k # "reset"
  /\ \/ \E t \in Loggers : Ticket(t) \/ Fill(t)
     \/ CTicket \/ CCheck
     \/ WPop1 \/ WRel1 \/ WPop2 \/ WRel2 \/ WBackoff \/ WDestDone \/ WFree
  /\ UNCHANGED <<cfg, l>>

TNext == (Visible \/ Silent) /\ Progress
TSpec == TInit /\ [][TNext]_tvars

Post == PrintT(<<"VERIF", TLCGet(1) - 1, Len(Tr), {}>>)
=============================================================================
