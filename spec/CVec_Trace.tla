---------------------------- MODULE CVec_Trace ----------------------------
(***************************************************************************)
(* Trace validation of the real ConcurrentVector against the L2            *)
(* specification CVec.  Every line of the normalised ndjson trace recorded *)
(* under vsched (atomic operations on _block_table and RetireList::_head,  *)
(* clock reads, allocator calls with the constructor / destructor calls    *)
(* they frame, call / return of the public operations, timer ticks of the  *)
(* virtual clock) must be explained by exactly the CVec action the         *)
(* thread's pc allows, with the same operands, values and outcome.         *)
(*                                                                         *)
(* Pointers show up in the trace as opaque interned numbers; vm binds each *)
(* one, the first time it is seen, to the model value at that position     *)
(* (table identity for _block_table; stamp and node for _head) and every   *)
(* later occurrence must agree (injective per location).                   *)
(*                                                                         *)
(* The memory order of each step is the one the running code passed, so    *)
(* the happens-before views of WeakMem evolve with the code's real orders; *)
(* every L1 clause of C04 is evaluated on every state of the trace with    *)
(* the real (virtual) time: TPU = 64 ticks of one second, SMOD = 65536.    *)
(* The <<site, order>> pairs seen are collected for MO_CVec.tla.           *)
(***************************************************************************)
EXTENDS CVec, Json, IOUtils

Tr == ndJsonDeserialize(IOEnv.TRACE)

VARIABLES l,       \* next line to explain
          moSeen,  \* set of <<site, order>> observed
          vm       \* [bt |-> trace value -> table, head |-> trace value -> head]

tvars == <<vars, l, moSeen, vm>>

CfgOf(e) == [bs |-> e.bs, t0 |-> e.t0, prog |-> e.prog]
VM0 == [bt |-> << >>, head |-> (0 :> 0)]

TInit ==
  /\ l = 2
  /\ moSeen = {}
  /\ vm = VM0
  /\ Tr[1].k = "reset"
  /\ InitFor(CfgOf(Tr[1]))
  /\ TLCSet(1, 1)
  /\ TLCSet(2, {})

Progress == TLCSet(1, IF TLCGet(1) < l' THEN l' ELSE TLCGet(1))

\* pairs <<trace value, model value>> an atomic event relates
Pairs(m, e) ==
  CASE e.k = "load" -> {<<e.v, m.v>>}
    [] e.k = "xchg" -> {<<e.v, m.v>>}
    [] e.k = "cas" -> {<<e.v, m.v>>, <<e.a, m.a>>, <<e.b, m.b>>}
    [] OTHER -> {}
Agree(f, P) ==
  /\ \A p \in P : IF p[1] \in DOMAIN f THEN f[p[1]] = p[2] ELSE \A x \in DOMAIN f : f[x] # p[2]
  /\ \A p \in P, q \in P : (p[1] = q[1]) <=> (p[2] = q[2])
Bound(f, P) == [x \in DOMAIN f \cup {p[1] : p \in P} |-> IF x \in DOMAIN f THEN f[x] ELSE (CHOOSE p \in P : p[1] = x)[2]]

Matches(m, e) ==
  /\ m.t = e.t /\ m.k = e.k
  /\ CASE e.k \in {"load", "xchg"} -> m.loc = e.loc
       [] e.k = "cas" -> m.loc = e.loc /\ m.ok = e.ok
       [] e.k = "clock" -> m.v = e.v
       [] e.k = "tick" -> m.v = e.v
       [] e.k \in {"alloc", "free"} -> m.id = e.id
       [] e.k \in {"mkblk", "rmblk"} -> m.id = e.id /\ m.cnt = e.cnt
       [] e.k = "call" -> m.op = e.op /\ m.n = e.n
       [] e.k = "ret" -> m.op = e.op /\ m.n = e.n /\ m.id = e.id /\ m.off = e.off /\ m.v = e.v /\ m.ok = e.ok
       [] e.k \in {"sleep", "destroy", "dead"} -> TRUE
       [] OTHER -> FALSE

FailSite(site) == site \in {"table_cas_fail", "retire_head_cas_expired_fail", "retire_head_cas_push_fail", "gc_head_cas_fail"}

Consume ==
  /\ l <= Len(Tr)
  /\ LET e == Tr[l]
         MOe(site) == IF FailSite(site) THEN e.mof ELSE e.mo
     IN /\ e.k \notin {"reset", "end"}
        /\ IF e.k = "tick" THEN Tick(e.v - now)
           ELSE IF e.t = 0 THEN Destroy(MOe)
           ELSE Step(e.t, MOe)
        /\ Matches(ev', e)
        /\ IF e.k \in {"load", "xchg", "cas"}
           THEN /\ Agree(vm[e.loc], Pairs(ev', e))
                /\ vm' = [vm EXCEPT ![e.loc] = Bound(@, Pairs(ev', e))]
           ELSE vm' = vm
        /\ moSeen' = IF ev'.site # "" THEN moSeen \cup {<<ev'.site, ev'.mo>>} ELSE moSeen
  /\ l' = l + 1

\* (the pairs seen so far are also printed at the end of every execution, so that they survive a later
\* execution of the same file that stops the run with a violated invariant)
End ==
  /\ l <= Len(Tr) /\ Tr[l].k = "end"
  /\ (Tr[l].status = "ok" => Dead)
  /\ PrintT(<<"VERIFMO", moSeen>>)
  /\ l' = l + 1
  /\ UNCHANGED <<vars, moSeen, vm>>

Reset ==
  /\ l <= Len(Tr) /\ Tr[l].k = "reset"
  /\ LET c == CfgOf(Tr[l])
     IN /\ cfg' = c /\ ms' = MS0(c) /\ pc' = [t \in 0..Len(c.prog) |-> "idle"] /\ L' = [t \in 0..Len(c.prog) |-> L0]
        /\ hp' = HP0 /\ now' = c.t0 /\ H' = H0 /\ ev' = NoEv
  /\ vm' = VM0
  /\ l' = l + 1
  /\ UNCHANGED moSeen

TNext == (Consume \/ End \/ Reset) /\ Progress /\ (l' > Len(Tr) => TLCSet(2, moSeen'))

TSpec == TInit /\ [][TNext]_tvars

\* reported at the end:  <<"VERIF", lines explained, lines, site/order pairs>>
Post == PrintT(<<"VERIF", TLCGet(1) - 1, Len(Tr), TLCGet(2)>>)

\* debugging aid: violated exactly when the whole (truncated) trace was explained
DbgStop == l <= Len(Tr)

\* L1 verdicts on the observed execution (same formulas as the model-checked ones)
TSameElementForSameIndex == SameElementForSameIndex
TStableAddress == StableAddress
TConstructedOnceBeforeVisible == ConstructedOnceBeforeVisible
TDestroyedOnce == DestroyedOnce
TNotDestroyedEarly == NotDestroyedEarly
TNoLeak == NoLeak
TNoDoubleFree == NoDoubleFree
TNoDataRace == NoDataRace
TNoUseAfterFree == NoUseAfterFree
TCooling == Cooling
=============================================================================
