----------------------------- MODULE MC_Counters -----------------------------
(* Model-checking instance of Counters: bounded HISTORIES of thread start/exit,  *)
(* counter create/destroy/move, count, reset (budgets), exhaustively by TLC;     *)
(* with Reads = TRUE the pure read calls appear as steps too (tlc -simulate      *)
(* then yields API histories that the driver executes on the real classes).      *)
EXTENDS Counters

CONSTANTS Kinds,     \* families explored by this run
          NPL,       \* instances per cache line
          Vals,      \* values counted (for maxer/miner: includes TMin and TMax)
          MaxLive,   \* threads alive at once
          MaxCount, MaxReset, MaxMove,
          MaxOps,    \* length of the history (depth of the exhaustive search)
          Split,     \* TRUE: count / value() as interleaving steps (ConcurrentReadBounds)
          DSplit,    \* TRUE: the compact destructor as its steps (walk over the slots, release of the id)
          Reads      \* TRUE: value / for_each / for_each_alive are steps of the behaviour

VARIABLE bud

\* TLC configuration files cannot spell negative numbers
M1 == -1
M2 == -2
M3 == -3
V_m101 == {-1, 0, 1}
V_m1p1 == {-1, 1}
V_sim == {-3, -1, 1, 2, 3}
mvars == <<vars, bud>>

Lowest(S) == CHOOSE x \in S : \A y \in S : x <= y
FreeObj == {o \in Obj : ~obj[o].live}
Spend(f) == bud' = [bud EXCEPT ![f] = @ + 1, !.ops = @ + 1]
Step1 == bud' = [bud EXCEPT !.ops = @ + 1]

MCInit == /\ \E k \in Kinds : InitFor(k, IF k = "etl" THEN 1 ELSE NPL)
          /\ bud = [count |-> 0, reset |-> 0, move |-> 0, ops |-> 0]

Structure ==
  \/ \E t \in Thr : ThreadStart(t) /\ (IF t = 1 THEN TRUE ELSE tst[t - 1] # "new") /\ Cardinality(Live) < MaxLive
  \/ \E t \in Thr : ThreadExit(t)
  \/ \E o \in Obj : Create(o) /\ o = Lowest(FreeObj)
  \/ \E o \in Obj : IF DSplit THEN DestroyBegin(o) ELSE Destroy(o)
  \/ DSplit /\ (DestroyStep \/ DestroyEnd)

Moves ==
  \/ \E a, b \in Obj : MoveAssign(a, b)
  \/ \E a, b \in Obj : MoveCtor(a, b) /\ a = Lowest(FreeObj)

Atomic ==
  \/ \E t \in Thr, o \in Obj, v \in Vals : Count(t, o, v)
  \/ \E t \in Thr, o \in Obj : Local(t, o)

Splits ==
  \/ \E t \in Thr, o \in Obj, v \in Vals : CountBegin(t, o, v) /\ bud.count < MaxCount /\ Spend("count")
  \/ ((\E t \in Thr : CountWrite(t) \/ CountEnd(t)) \/ (\E o \in Obj : ReadBegin(o)) \/ ReadStep \/ ReadEnd) /\ UNCHANGED bud

ReadCalls == \E o \in Obj : \E nm \in {"value", "foreach", "foreach_alive", "foreach_alive_nc"} : ReadOp(nm, o)

MCStep ==
  \/ Structure /\ Step1
  \/ Moves /\ bud.move < MaxMove /\ Spend("move")
  \/ ~Split /\ Atomic /\ bud.count < MaxCount /\ Spend("count")
  \/ Split /\ Splits
  \/ (\E o \in Obj : Reset(o)) /\ bud.reset < MaxReset /\ Spend("reset")
  \/ Reads /\ ReadCalls /\ Step1

MCNext ==
  /\ bud.ops < MaxOps
  /\ MCStep

MCSpec == MCInit /\ [][MCNext]_mvars

\* the ghost event is not part of the state identity
View == <<kind, npl, impl, ghost, conc, bud>>
=============================================================================
