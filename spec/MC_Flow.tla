------------------------------ MODULE MC_Flow ------------------------------
(* Model-checking instance of Flow: the graph family is the generated module Flow_Graphs (checks/flow_common.py), *)
(* the memory orders the committed table MO_Flow.                                                                *)
EXTENDS Flow, Flow_Graphs, MO_Flow

MOf(site) == MO[site]

Next == \/ \E t \in Thr : Step(t, MOf)
        \/ (AllDone /\ UNCHANGED vars)
Spec == Init /\ [][Next]_vars
FairSpec == Spec /\ \A t \in 0..3 : WF_vars(t \in Thr /\ Step(t, MOf))

\* hide the ghost event from the state identity
View == <<cfg, mem, sh, st, pool, H>>

\* Terminates: under fair scheduling every run / reset cycle completes (closure finished, wait() returned)
Termination == <>[]AllDone
=============================================================================
