---------------------------- MODULE HSet_Trace ----------------------------
(***************************************************************************)
(* Trace validation of the real ConcurrentTransientHashSet / HashMap       *)
(* against HSet.  Every line of the trace is one operation executed by     *)
(* harness/drivers/hset_driver.cc on the real containers together with     *)
(* everything the public API showed afterwards.  The line must be a step   *)
(* of HSet (the operation decides which action, its arguments are the      *)
(* logged ones) and the logged observations must be what the reference     *)
(* container ref' (L1) says:                                               *)
(*    SizeIsCard                 size() of every live container            *)
(*    IterateVisitsEachOnce      iterated key list: no duplicate, no       *)
(*                               invented key, none missing                *)
(*    FindExactlyKeys            find / contains / count, find sweep       *)
(*    EmplaceResult              emplace returns (position of k, fresh?)   *)
(*    MappedValueIsFirstInserted values seen through emplace / find / iter *)
(*    Completes                  the operation returned (no crash / hang)  *)
(* The first clause that fails in an execution is recorded in bad (with    *)
(* execution id and line) and the rest of that execution is skipped.       *)
(* The L2-lite chain is compared with the real chain (white box) only as   *)
(* conformance of the steering model: recorded in drift (no verdict).      *)
(*                                                                         *)
(* Known defect H1 (findings/C18_default_constructed_chain.md): when an    *)
(* observation deviates from ref' EXACTLY as the code-as-read predicts     *)
(* (SizeRetX / IterKeysX with asread = TRUE on a placeholder-headed        *)
(* chain) the facet is recorded in h1 with the id of the execution, the    *)
(* reference follows the real object (resync) and validation continues, so *)
(* that other clauses are still judged on the rest of the trace.  Any      *)
(* other deviation goes to bad.                                            *)
(***************************************************************************)
EXTENDS HSet, Json, IOUtils

Tr == ndJsonDeserialize(IOEnv.TRACE)

VARIABLES l,      \* next line to explain
          base,   \* line of the reset that started the current execution
          cur,    \* id of the current execution
          skip,   \* a clause failed in the current execution: its remaining lines are not judged (the model lost the object)
          bad,    \* set of <<"bad_" \o clause, execution id, line within the execution>>: first failure of each execution
          drift,  \* set of <<"drift_shape", execution id, line>>: first L2-lite shape mismatch of each execution
          osz,    \* osz[i]: what size() of container i returned last (the code feeds it into clear/reserve/rehash/copy)
          h1      \* set of <<"h1_" \o facet, execution id, line>> of the known defect H1 (first execution per facet)

tvars == <<vars, l, base, cur, skip, bad, drift, osz, h1>>

ToSet(s) == {s[j] : j \in 1..Len(s)}
NoDup(s) == Cardinality(ToSet(s)) = Len(s)
ChainObs(c) == [j \in 1..Len(c) |-> <<c[j].cap, Cnt(c[j]), IF c[j].ph THEN 1 ELSE 0>>]
H1Head(c) == c[1].ph /\ Len(c) >= 2
Card(S) == Cardinality(S)

TInit ==
  /\ l = 2 /\ Tr[1].k = "reset"
  /\ Init
  /\ base = 1 /\ cur = Tr[1].id /\ skip = FALSE
  /\ bad = {} /\ drift = {} /\ h1 = {}
  /\ osz = [i \in Cons |-> 0]
  /\ TLCSet(1, 1) /\ TLCSet(2, {}) /\ TLCSet(3, {}) /\ TLCSet(4, {})

Fresh(e) ==
  /\ ref' = [i \in Cons |-> EmptyMap]
  /\ st' = [i \in Cons |-> EmptyMap]
  /\ ch' = [i \in Cons |-> Placeholder]
  /\ mf' = [i \in Cons |-> FALSE]
  /\ ev' = ""
  /\ osz' = [i \in Cons |-> 0]
  /\ cur' = e.id /\ base' = l /\ skip' = FALSE
  /\ UNCHANGED <<bad, drift, h1>>

\* keys the rebuild (reserve / rehash / copy) of src delivers: all of them, unless the size observed on dst afterwards
\* is exactly what the iteration as read (H1) leaves
KeptFor(src, dst, e) ==
  LET full == AllKeys(ch[src])
      ar == IterKeysX(ch[src], TRUE)
  IN IF ar # full /\ e.sz[dst] = Card(ar) THEN ar ELSE full
Rebuilds(e) == (e.op \in {"R", "H"} /\ Len(ch[e.c]) > 1) \/ e.op = "Y"
RebuildSrc(e) == IF e.op = "Y" THEN e.d ELSE e.c
H1Rebuild(e) == Rebuilds(e) /\ KeptFor(RebuildSrc(e), e.c, e) # AllKeys(ch[RebuildSrc(e)])

Do(e) ==
  CASE e.op = "D" -> Construct(e.c, "D", 0)
    [] e.op = "N" -> Construct(e.c, "N", e.n)
    [] e.op = "E" -> Emplace(e.c, e.key, e.val)
    [] e.op = "M" -> EmplaceMany(e.c, e.key, e.n, e.val)
    [] e.op = "F" -> Find(e.c, e.key)
    [] e.op \in {"I", "A"} -> Iterate(e.c)
    [] e.op = "Z" -> Size(e.c)
    [] e.op = "C" -> Clear(e.c, osz[e.c])
    [] e.op = "R" -> Reserve(e.c, e.n, osz[e.c], KeptFor(e.c, e.c, e), TRUE)
    [] e.op = "H" -> Rehash(e.c, e.n, osz[e.c], KeptFor(e.c, e.c, e), TRUE)
    [] e.op = "Y" -> Copy(e.c, e.d, osz[e.d], KeptFor(e.d, e.c, e), TRUE)
    [] e.op = "V" -> MoveAssign(e.c, e.d)
    [] e.op = "W" -> MoveCtor(e.c, e.d)
    [] e.op = "S" -> Swap(e.c, e.d)

---------------------------------------------------------------------------
\* judgement of the observations of line e; evaluated after Do(e): primed variables = state after the operation
SizeBadAt(e, i) == ~mf'[i] /\ e.sz[i] # Card(DOMAIN ref'[i])
SizeH1At(e, i) == SizeBadAt(e, i) /\ H1Head(ch'[i]) /\ e.sz[i] = SizeRetX(ch'[i], TRUE)
SizeBad(e) == \E i \in Cons : SizeBadAt(e, i) /\ ~SizeH1At(e, i)
SizeH1(e) == \E i \in Cons : SizeH1At(e, i)

R(e) == ref'[e.c]
IterBad(e) == e.op \in {"I", "A"} /\ ~(NoDup(e.keys) /\ ToSet(e.keys) = DOMAIN R(e))
IterH1(e) == IterBad(e) /\ H1Head(ch'[e.c]) /\ Len(ch'[e.c]) >= 3 /\ NoDup(e.keys) /\ ToSet(e.keys) = ch'[e.c][2].keys

FindBad(e) ==
  \/ e.op = "F" /\ (e.found # (e.key \in DOMAIN R(e)) \/ ~e.ok \/ (e.found /\ e.rkey # e.key))
  \/ e.op = "A" /\ ~(NoDup(e.fk) /\ ToSet(e.fk) = DOMAIN R(e) \cap 1..e.n)

EmplaceBad(e) ==
  \/ e.op = "E" /\ (e.rkey # e.key \/ (e.ins = 1) # (e.key \notin DOMAIN ref[e.c]) \/ e.ins \notin {0, 1})
  \/ e.op = "M" /\ (~e.ok \/ e.ins # Card((e.key..(e.key + e.n - 1)) \ DOMAIN ref[e.c]))

ValueBad(e) ==
  \/ e.op = "E" /\ e.key \in DOMAIN R(e) /\ e.rval # R(e)[e.key]
  \/ e.op = "F" /\ e.found /\ e.key \in DOMAIN R(e) /\ e.rval # R(e)[e.key]
  \/ e.op \in {"I", "A"} /\ \E j \in 1..Len(e.keys) : e.keys[j] \in DOMAIN R(e) /\ e.vals[j] # R(e)[e.keys[j]]
  \/ e.op = "A" /\ \E j \in 1..Len(e.fk) : e.fk[j] \in DOMAIN R(e) /\ e.fv[j] # R(e)[e.fk[j]]

Clause(e) ==
  IF SizeBad(e) THEN "SizeIsCard"
  ELSE IF IterBad(e) /\ ~IterH1(e) THEN "IterateVisitsEachOnce"
  ELSE IF FindBad(e) THEN "FindExactlyKeys"
  ELSE IF EmplaceBad(e) THEN "EmplaceResult"
  ELSE IF ValueBad(e) THEN "MappedValueIsFirstInserted"
  ELSE ""

Here == l - base
AddH1(S, cond, facet) == IF cond /\ ~(\E p \in S : p[1] = "h1_" \o facet) THEN S \cup {<<"h1_" \o facet, cur, Here>>} ELSE S

ShapeBad(e) == \E i \in Cons : e.chains[i] # <<>> /\ e.chains[i] # ChainObs(ch'[i])

TOp(e) ==
  IF skip THEN UNCHANGED <<vars, cur, base, skip, bad, drift, osz, h1>>
  ELSE /\ Do(e)
       /\ bad' = IF Clause(e) # "" THEN bad \cup {<<"bad_" \o Clause(e), cur, Here>>} ELSE bad
       /\ skip' = (Clause(e) # "")
       /\ h1' = AddH1(AddH1(AddH1(h1, SizeH1(e), "size"), IterH1(e), "iter"), H1Rebuild(e), "rebuild")
       /\ drift' = IF ShapeBad(e) /\ ~(\E p \in drift : p[2] = cur) THEN drift \cup {<<"drift_shape", cur, Here>>} ELSE drift
       /\ osz' = [i \in Cons |-> e.sz[i]]
       /\ UNCHANGED <<cur, base>>

TEnd(e) ==
  /\ bad' = IF ~skip /\ e.status # "ok" THEN bad \cup {<<"bad_Completes", cur, Here>>} ELSE bad
  /\ UNCHANGED <<vars, drift, osz, cur, base, skip, h1>>

TNext ==
  /\ l <= Len(Tr)
  /\ LET e == Tr[l]
     IN CASE e.k = "reset" -> Fresh(e)
          [] e.k = "op" -> TOp(e)
          [] e.k = "end" -> TEnd(e)
  /\ l' = l + 1
  /\ TLCSet(1, l') /\ TLCSet(2, h1') /\ TLCSet(3, bad') /\ TLCSet(4, drift')

TSpec == TInit /\ [][TNext]_tvars

\* The verdict is read from the postcondition (no invariant: one pass judges every execution of the file):
\* explained lines, total lines, H1 facets, failed clauses, shape drift.  A trace that is not explained to its end
\* (an operation the specification cannot follow) is a defect of the script generator, not of the code.
Post == PrintT(<<"VERIF", TLCGet(1) - 1, Len(Tr), TLCGet(2), TLCGet(3), TLCGet(4)>>)
=============================================================================
