------------------------------ MODULE Wire ------------------------------
(***************************************************************************)
(* C11 - babylon serialization.                                            *)
(*  (a) protobuf wire grammar as functions on byte sequences.  Integers    *)
(*      are little-endian sequences of 7-bit groups ("numerals"), so 64    *)
(*      bit extremes are exact although TLC integers have 32 bits.         *)
(*  (b) babylon's encoding of every supported type constructor:            *)
(*      Enc(type, value) / Size(type, value) (Size is defined              *)
(*      arithmetically like calculate_serialized_size, NOT as Len(Enc)).   *)
(*  (c) the parser as a deterministic pushdown machine: position, current  *)
(*      limit, stack of frames with the limits they saved, per field       *)
(*      action decode / skip unknown by wire type / fail.  It models the   *)
(*      pinned code as written (CodedInputStream of protobuf 3.21:         *)
(*      PushLimit ignores limits beyond the enclosing one (and negative /  *)
(*      INT_MAX ones), a failed length read pushes limit 0, the            *)
(*      wire type of a known field is checked only when asserts are on).   *)
(*      Terminal states: ok / fail (parse returned true / false).  The     *)
(*      repaired code (/repo 026019b, be0fcf7) has no loop that makes no    *)
(*      progress and no exception in a noexcept function any more, so the  *)
(*      machine never reaches "hang" / "abort"; the clauses Terminates /   *)
(*      NoCrash stay and are judged on what the real code does.            *)
(* Values: scalar = numeral of its unsigned image (uint32 image for the    *)
(* types narrower than 64 bit, uint64 image otherwise); float/double =     *)
(* opaque 4/8 byte sequences; string = byte sequence; vector/list/array =  *)
(* sequence; set = duplicate free sequence (iteration order); map =        *)
(* sequence of <<key, value>>; pointer = <<>> (null) or <<pointee>>;       *)
(* aggregate = sequence of member values in declaration order (base first) *)
(***************************************************************************)
EXTENDS Naturals, Integers, Sequences, FiniteSets, TLC

INTMAX == 2147483647
Min2(a, b) == IF a < b THEN a ELSE b
Rng(s) == {s[i] : i \in DOMAIN s}
RECURSIVE Flat(_)
Flat(ss) == IF Len(ss) = 0 THEN <<>> ELSE Head(ss) \o Flat(Tail(ss))
RECURSIVE SumSeq(_)
SumSeq(s) == IF Len(s) = 0 THEN 0 ELSE Head(s) + SumSeq(Tail(s))
Tup(f) == [i \in 1..Len(f) |-> f[i]]

(* ------------------------------------------------------------------ (a) *)
RECURSIVE Canon(_)
Canon(g) == IF Len(g) = 0 THEN <<0>>
            ELSE IF Len(g) > 1 /\ g[Len(g)] = 0 THEN Canon(SubSeq(g, 1, Len(g) - 1)) ELSE g
RECURSIVE ToG(_)
ToG(n) == IF n < 128 THEN <<n>> ELSE <<n % 128>> \o ToG(n \div 128)
Pow128(i) == CASE i = 0 -> 1 [] i = 1 -> 128 [] i = 2 -> 16384 [] i = 3 -> 2097152 [] i = 4 -> 268435456
\* numeral -> Nat if it fits 31 bits, else -1
GVal(g) == LET c == Canon(g)
           IN IF Len(c) > 5 \/ (Len(c) = 5 /\ c[5] > 7) THEN -1
              ELSE SumSeq([i \in 1..Len(c) |-> c[i] * Pow128(i - 1)])
G(g, i) == IF i <= Len(g) THEN g[i] ELSE 0

Varint(g) == [i \in 1..Len(g) |-> IF i < Len(g) THEN g[i] + 128 ELSE g[i]]
VarintSize(n) == IF n < 128 THEN 1 ELSE IF n < 16384 THEN 2 ELSE IF n < 2097152 THEN 3 ELSE IF n < 268435456 THEN 4 ELSE 5
\* over-long (non canonical) encoding of the same numeral padded to k bytes
VarintPad(g, k) == Varint([i \in 1..k |-> G(g, i)])
Mask32(g) == Canon([i \in 1..Min2(Len(g), 5) |-> IF i = 5 THEN g[i] % 16 ELSE g[i]])
Mask64(g) == Canon([i \in 1..Min2(Len(g), 10) |-> IF i = 10 THEN g[i] % 2 ELSE g[i]])
\* the int obtained by static_cast<int>(uint32): -1 stands for every negative value
Int32(g) == LET c == Mask32(g) IN IF Len(c) = 5 /\ c[5] >= 8 THEN -1 ELSE GVal(c)

Pow2(i) == CASE i = 0 -> 1 [] i = 1 -> 2 [] i = 2 -> 4 [] i = 3 -> 8 [] i = 4 -> 16 [] i = 5 -> 32 [] i = 6 -> 64 [] i = 7 -> 128
Bit(g, j) == (G(g, j \div 7 + 1) \div Pow2(j % 7)) % 2
Bits(g, w) == [j \in 1..w |-> Bit(g, j - 1)]
BAt(b, j) == IF j <= Len(b) THEN b[j] ELSE 0
FromBits(b) == Canon([q \in 1..((Len(b) + 6) \div 7) |->
                 SumSeq([r \in 1..7 |-> BAt(b, 7 * (q - 1) + r) * Pow2(r - 1)])])
\* zig-zag on w bit two's complement: (n << 1) ^ (n >> (w-1))   and back: (n >> 1) ^ -(n & 1)
ZigZag(g, w) == LET b == Bits(g, w) IN FromBits([j \in 1..w |-> ((IF j = 1 THEN 0 ELSE b[j - 1]) + b[w]) % 2])
UnZigZag(g, w) == LET b == Bits(g, w) IN FromBits([j \in 1..w |-> ((IF j = w THEN 0 ELSE b[j + 1]) + b[1]) % 2])
\* fixed32 / fixed64: little endian bytes of a numeral and back
Fixed(g, nb) == LET b == Bits(g, 8 * nb) IN [k \in 1..nb |-> SumSeq([r \in 1..8 |-> b[8 * (k - 1) + r] * Pow2(r - 1)])]
UnFixed(bs) == FromBits([j \in 1..(8 * Len(bs)) |-> (bs[(j - 1) \div 8 + 1] \div Pow2((j - 1) % 8)) % 2])
\* sign extension of a 32 bit image to 64 bit (what static_cast<uint64_t>(int32) does)
SignExt64(g) == LET c == Mask32(g)
                IN IF Len(c) = 5 /\ c[5] >= 8 THEN <<c[1], c[2], c[3], c[4], c[5] + 112, 127, 127, 127, 127, 1>> ELSE c
TagG(num, wt) == ToG(num * 8 + wt)

(* ------------------------------------------------------------------ (b) *)
T0 == [k |-> "", e |-> <<>>, x |-> <<>>, n |-> 0, fs |-> <<>>, nm |-> ""]
Sc(k) == [T0 EXCEPT !.k = k]
Bool == Sc("bool")  I8 == Sc("i8")  U16 == Sc("u16")  I32 == Sc("i32")  U32 == Sc("u32")
I64 == Sc("i64")  U64 == Sc("u64")  Enum == Sc("enum")  F32 == Sc("f32")  F64 == Sc("f64")  Str == Sc("str")
Vec(t) == [T0 EXCEPT !.k = "vec", !.e = t]
List(t) == [T0 EXCEPT !.k = "list", !.e = t]
SetOf(t) == [T0 EXCEPT !.k = "set", !.e = t]
Arr(t, n) == [T0 EXCEPT !.k = "arr", !.e = t, !.n = n]
Map(kt, vt) == [T0 EXCEPT !.k = "map", !.e = vt, !.x = kt]
Uptr(t) == [T0 EXCEPT !.k = "uptr", !.e = t]
Sptr(t) == [T0 EXCEPT !.k = "sptr", !.e = t]
Ref(nm) == [T0 EXCEPT !.k = "ref", !.nm = nm]
Fd(num, t, d) == [num |-> num, t |-> t, d |-> d]
Agg(fs) == [T0 EXCEPT !.k = "agg", !.fs = fs]
\* protobuf message (proto2): members are Opt (presence) or Rep (packed repeated scalars)
Opt(t) == [T0 EXCEPT !.k = "opt", !.e = t]
Rep(t) == [T0 EXCEPT !.k = "rep", !.e = t]
Pb(fs) == [T0 EXCEPT !.k = "pb", !.fs = fs]

Z == <<0>>
F0 == <<0, 0, 0, 0>>
D0 == <<0, 0, 0, 0, 0, 0, 0, 0>>
U32MAX == <<127, 127, 127, 127, 15>>
I32MIN == <<0, 0, 0, 0, 8>>
I32MAX == <<127, 127, 127, 127, 7>>
U64MAX == <<127, 127, 127, 127, 127, 127, 127, 127, 127, 1>>
I64MIN == <<0, 0, 0, 0, 0, 0, 0, 0, 0, 1>>
I64MAX == <<127, 127, 127, 127, 127, 127, 127, 127, 127>>
P32 == <<0, 0, 0, 0, 16>>

(* the schema family - mirrored one to one by the structs of harness/drivers/wire_driver.cc *)
TSt == Agg(<<Fd(1, Str, <<>>), Fd(2, Str, <<>>)>>)
TIn2 == Agg(<<Fd(1, Str, <<>>)>>)
TIn == Agg(<<Fd(1, I32, Z), Fd(2, Uptr(TIn2), <<>>)>>)
TRe4 == Agg(<<Fd(1, I32, Z)>>)
TRe3 == Agg(<<Fd(1, I32, Z), Fd(2, Uptr(TRe4), <<>>)>>)
TRe2 == Agg(<<Fd(1, I32, Z), Fd(2, Uptr(TRe3), <<>>)>>)
TRe == Agg(<<Fd(1, I32, Z), Fd(2, Uptr(TRe2), <<>>)>>)
TH1 == Agg(<<Fd(1, I32, <<7>>), Fd(2, Str, <<>>)>>)
TCa == Agg(<<Fd(1, I32, Z), Fd(2, I32, Z), Fd(3, I32, Z), Fd(4, I32, Z), Fd(5, I32, Z), Fd(6, I32, Z),
             Fd(7, I32, Z), Fd(8, I32, Z), Fd(9, I32, Z), Fd(10, I32, Z), Fd(11, Vec(I32), <<>>)>>)
\* member with a cached member but no cache of its own: its serialized_size_cached() sums the members
TCaM == Agg(<<Fd(1, TCa, <<Z, Z, Z, Z, Z, Z, Z, Z, Z, Z, <<>>>>), Fd(2, I32, Z)>>)
TCo == Agg(<<Fd(1, Vec(I32), <<>>), Fd(2, Vec(Str), <<>>), Fd(3, List(I64), <<>>), Fd(4, Arr(I32, 2), <<Z, Z>>),
             Fd(5, SetOf(U32), <<>>), Fd(6, Map(I32, Str), <<>>), Fd(7, Vec(Bool), <<>>), Fd(8, Vec(F32), <<>>),
             Fd(9, Arr(F64, 1), <<D0>>), Fd(10, Vec(TSt), <<>>)>>)
\* boundary family: length-delimited members whose payload sits at a varint width boundary, tags of width 1 / 2 / 3
TBS == Agg(<<Fd(1, Str, <<>>), Fd(15, Str, <<>>), Fd(16, Str, <<>>), Fd(2047, Str, <<>>), Fd(2048, Str, <<>>)>>)
DBS == <<<<>>, <<>>, <<>>, <<>>, <<>>>>
TCpSub == Agg(<<Fd(4, I32, Z), Fd(19, Str, <<>>), Fd(47, Vec(I32), <<>>)>>)
TPbIn == Pb(<<Fd(1, Opt(I32), <<>>), Fd(2, Opt(Str), <<>>)>>)
TPbSub == Pb(<<Fd(4, Opt(I32), <<>>), Fd(19, Opt(Str), <<>>), Fd(47, Rep(I32), <<>>)>>)

Def(nm) ==
  CASE nm = "TI32" -> I32
    [] nm = "TStr" -> Str
    [] nm = "TVecI" -> Vec(I32)
    [] nm = "TPtrS" -> Uptr(Str)
    [] nm = "TMk" -> Map(Agg(<<Fd(1, Vec(I32), <<>>)>>), I32)      \* top-level maps whose key / mapped type caches sizes
    [] nm = "TVMk" -> Vec(Map(Agg(<<Fd(1, Vec(I32), <<>>)>>), I32))     \* the same map behind wrappers that forward SERIALIZED_SIZE_CACHED
    [] nm = "TPMk" -> Uptr(Map(Agg(<<Fd(1, Vec(I32), <<>>)>>), I32))
    [] nm = "TMv" -> Map(I32, Agg(<<Fd(1, Vec(I32), <<>>)>>))
    [] nm = "Sc" -> Agg(<<Fd(1, Bool, Z), Fd(2, I8, Z), Fd(3, U16, Z), Fd(4, I32, Z), Fd(5, U32, Z), Fd(6, I64, Z),
                          Fd(7, U64, Z), Fd(8, Enum, Z), Fd(9, F32, F0), Fd(10, F64, D0)>>)
    [] nm = "St" -> TSt
    [] nm = "Co" -> TCo
    [] nm = "Pt" -> Agg(<<Fd(1, Uptr(I32), <<>>), Fd(2, Uptr(Str), <<>>), Fd(3, Sptr(TSt), <<>>),
                          Fd(4, Uptr(Vec(I32)), <<>>), Fd(5, Sptr(I64), <<>>), Fd(6, Vec(Uptr(Str)), <<>>)>>)
    [] nm = "De" -> Agg(<<Fd(1, TSt, <<<<>>, <<>>>>), Fd(2, I32, Z), Fd(3, TIn, <<Z, <<>>>>)>>)
    [] nm = "Re" -> TRe
    [] nm = "Ca" -> TCa
    [] nm = "CaN" -> Agg(<<Fd(1, TCaM, <<<<Z, Z, Z, Z, Z, Z, Z, Z, Z, Z, <<>>>>, Z>>), Fd(2, TSt, <<<<>>, <<>>>>), Fd(3, Vec(TCa), <<>>)>>)
    [] nm = "PV" -> Agg(<<Fd(1, Vec(Uptr(I32)), <<>>)>>)
    [] nm = "Cp" -> Agg(<<Fd(1, Bool, Z), Fd(4, I32, Z), Fd(5, I64, Z), Fd(8, U32, Z), Fd(9, U64, Z), Fd(16, F32, F0),
                          Fd(17, F64, D0), Fd(18, Enum, Z), Fd(19, Str, <<>>), Fd(20, Str, <<>>),
                          Fd(21, TCpSub, <<Z, <<>>, <<>>>>), Fd(44, Vec(Bool), <<>>), Fd(47, Vec(I32), <<>>),
                          Fd(48, Vec(I64), <<>>), Fd(51, Vec(U32), <<>>), Fd(52, Vec(U64), <<>>), Fd(59, Vec(F32), <<>>),
                          Fd(60, Vec(F64), <<>>), Fd(61, Vec(Enum), <<>>)>>)
    [] nm = "PbCp" -> Pb(<<Fd(1, Opt(Bool), <<>>), Fd(4, Opt(I32), <<>>), Fd(5, Opt(I64), <<>>), Fd(8, Opt(U32), <<>>),
                           Fd(9, Opt(U64), <<>>), Fd(16, Opt(F32), <<>>), Fd(17, Opt(F64), <<>>), Fd(18, Opt(Enum), <<>>),
                           Fd(19, Opt(Str), <<>>), Fd(20, Opt(Str), <<>>), Fd(21, Opt(TPbSub), <<>>), Fd(44, Rep(Bool), <<>>),
                           Fd(47, Rep(I32), <<>>), Fd(48, Rep(I64), <<>>), Fd(51, Rep(U32), <<>>), Fd(52, Rep(U64), <<>>),
                           Fd(59, Rep(F32), <<>>), Fd(60, Rep(F64), <<>>), Fd(61, Rep(Enum), <<>>)>>)
    [] nm = "Wm" -> Agg(<<Fd(1, TPbIn, <<<<>>, <<>>>>), Fd(2, Uptr(TPbIn), <<>>), Fd(3, I32, Z)>>)
    [] nm \in {"BS", "BSL"} -> TBS
    [] nm \in {"BN", "BNL"} -> Agg(<<Fd(1, TBS, DBS), Fd(2, I32, Z)>>)
    [] nm = "BM" -> Agg(<<Fd(2047, TBS, DBS), Fd(2048, Vec(I32), <<>>), Fd(15, I32, Z)>>)
    [] nm = "BC" -> Agg(<<Fd(1, Vec(Str), <<>>), Fd(2, Vec(TSt), <<>>), Fd(3, Vec(I32), <<>>), Fd(16, List(Str), <<>>)>>)
    [] nm = "H1" -> TH1
    [] nm = "H2" -> Agg(<<Fd(1, Vec(I32), <<>>), Fd(2, TH1, <<<<7>>, <<>>>>)>>)
    [] nm = "H3" -> Agg(<<Fd(1, Vec(Str), <<>>), Fd(2, Map(I32, Str), <<>>)>>)
    [] nm = "H4" -> Agg(<<Fd(1, Arr(I32, 2), <<Z, Z>>), Fd(2, List(Str), <<>>)>>)
    [] nm = "H5" -> Agg(<<Fd(1, F32, F0), Fd(2, Uptr(TH1), <<>>)>>)

Resolve(t) == IF t.k = "ref" THEN Def(t.nm) ELSE t
Is32(k) == k \in {"bool", "i8", "u8", "i16", "u16", "i32", "u32"}
Is64(k) == k \in {"i64", "u64", "enum"}
IsLeaf(t) == Is32(t.k) \/ Is64(t.k) \/ t.k \in {"f32", "f64", "str"}
IsPtr(t) == t.k \in {"uptr", "sptr", "opt"}
RECURSIVE WT(_)
WT(t) == IF Is32(t.k) \/ Is64(t.k) THEN 0 ELSE IF t.k = "f32" THEN 5 ELSE IF t.k = "f64" THEN 1
         ELSE IF IsPtr(t) THEN WT(Resolve(t.e)) ELSE 2

\* static_cast<T>(uint32) followed by static_cast<uint32>(T): the image a parsed value has
Cast32(k, g) ==
  CASE k = "bool" -> IF g = <<0>> THEN <<0>> ELSE <<1>>
    [] k = "u8" -> Canon(<<G(g, 1), G(g, 2) % 2>>)
    [] k = "i8" -> IF G(g, 2) % 2 = 1 THEN <<G(g, 1), 127, 127, 127, 15>> ELSE <<G(g, 1)>>
    [] k = "u16" -> Canon(<<G(g, 1), G(g, 2), G(g, 3) % 4>>)
    [] k = "i16" -> IF (G(g, 3) \div 2) % 2 = 1 THEN <<G(g, 1), G(g, 2), (G(g, 3) % 4) + 124, 127, 15>>
                    ELSE Canon(<<G(g, 1), G(g, 2), G(g, 3) % 4>>)
    [] OTHER -> g
\* enum with underlying int: static_cast<E>(uint64) keeps 32 bits, its uint64 image is the sign extension
Cast64(k, g) == IF k = "enum" THEN SignExt64(g) ELSE g

RECURSIVE Default(_)
Default(t0) == LET t == Resolve(t0)
  IN CASE Is32(t.k) \/ Is64(t.k) -> Z
       [] t.k = "f32" -> F0
       [] t.k = "f64" -> D0
       [] t.k = "arr" -> [i \in 1..t.n |-> Default(t.e)]
       [] t.k \in {"agg", "pb"} -> [i \in 1..Len(t.fs) |-> t.fs[i].d]
       [] OTHER -> <<>>

RECURSIVE Size(_, _), PSize(_, _), FSize(_, _, _), PbSize(_, _), PbFSize(_, _, _)
PSize(t, v) == LET s == Size(t, v) IN IF WT(Resolve(t)) = 2 THEN VarintSize(s) + s ELSE s
FSize(num, t, v) == LET s == Size(t, v)
                    IN IF s = 0 THEN 0 ELSE VarintSize(num * 8) + (IF WT(Resolve(t)) = 2 THEN VarintSize(s) ELSE 0) + s
Size(t0, v) == LET t == Resolve(t0)
  IN CASE Is32(t.k) \/ Is64(t.k) -> Len(v)
       [] t.k = "f32" -> 4
       [] t.k = "f64" -> 8
       [] t.k = "str" -> Len(v)
       [] t.k \in {"vec", "list", "set", "arr"} -> SumSeq([i \in 1..Len(v) |-> PSize(t.e, v[i])])
       [] t.k = "map" -> SumSeq([i \in 1..Len(v) |-> PSize(t.x, v[i][1]) + PSize(t.e, v[i][2])])
       [] t.k \in {"uptr", "sptr"} -> IF Len(v) = 0 THEN 0 ELSE Size(t.e, v[1])
       [] t.k = "agg" -> SumSeq([i \in 1..Len(t.fs) |-> FSize(t.fs[i].num, t.fs[i].t, v[i])])
       [] t.k = "pb" -> PbSize(t, v)
\* protobuf's own sizes (ByteSizeLong): int32 / enum are sign extended to 64 bit on the wire
PbScal(t, v) == IF t.k \in {"i32", "i8", "i16", "enum"} THEN SignExt64(v) ELSE v
PbESize(t, v) == IF Is32(t.k) \/ Is64(t.k) THEN Len(PbScal(t, v)) ELSE Size(t, v)
PbFSize(num, t, v) ==
  IF t.k = "opt" THEN (IF Len(v) = 0 THEN 0
                       ELSE LET e == Resolve(t.e) s == PbESize(e, v[1])
                            IN VarintSize(num * 8) + (IF WT(e) = 2 THEN VarintSize(s) ELSE 0) + s)
  ELSE (IF Len(v) = 0 THEN 0
        ELSE LET s == SumSeq([i \in 1..Len(v) |-> PbESize(t.e, v[i])]) IN VarintSize(num * 8) + VarintSize(s) + s)
PbSize(t, v) == SumSeq([i \in 1..Len(t.fs) |-> PbFSize(t.fs[i].num, t.fs[i].t, v[i])])

RECURSIVE Enc(_, _), PEnc(_, _), FEnc(_, _, _), PbEnc(_, _), PbFEnc(_, _, _), PbEEnc(_, _)
PEnc(t, v) == IF WT(Resolve(t)) = 2 THEN Varint(ToG(Size(t, v))) \o Enc(t, v) ELSE Enc(t, v)
FEnc(num, t, v) == LET s == Size(t, v) w == WT(Resolve(t))
                   IN IF s = 0 THEN <<>> ELSE Varint(TagG(num, w)) \o (IF w = 2 THEN Varint(ToG(s)) ELSE <<>>) \o Enc(t, v)
Enc(t0, v) == LET t == Resolve(t0)
  IN CASE Is32(t.k) \/ Is64(t.k) -> Tup(Varint(v))
       [] t.k \in {"f32", "f64", "str"} -> v
       [] t.k \in {"vec", "list", "set", "arr"} -> Flat([i \in 1..Len(v) |-> PEnc(t.e, v[i])])
       [] t.k = "map" -> Flat([i \in 1..Len(v) |-> PEnc(t.x, v[i][1]) \o PEnc(t.e, v[i][2])])
       [] t.k \in {"uptr", "sptr"} -> IF Len(v) = 0 THEN <<>> ELSE Enc(t.e, v[1])
       [] t.k = "agg" -> Flat([i \in 1..Len(t.fs) |-> FEnc(t.fs[i].num, t.fs[i].t, v[i])])
       [] t.k = "pb" -> PbEnc(t, v)
PbEEnc(t, v) == IF Is32(t.k) \/ Is64(t.k) THEN Tup(Varint(PbScal(t, v))) ELSE Enc(t, v)
PbFEnc(num, t, v) ==
  IF Len(v) = 0 THEN <<>>
  ELSE IF t.k = "opt"
       THEN LET e == Resolve(t.e) w == WT(e)
            IN Varint(TagG(num, w)) \o (IF w = 2 THEN Varint(ToG(PbESize(e, v[1]))) ELSE <<>>) \o PbEEnc(e, v[1])
       ELSE LET b == Flat([i \in 1..Len(v) |-> PbEEnc(t.e, v[i])]) IN Varint(TagG(num, 2)) \o Varint(ToG(Len(b))) \o b
PbEnc(t, v) == Flat([i \in 1..Len(t.fs) |-> PbFEnc(t.fs[i].num, t.fs[i].t, v[i])])

\* per member encodings of an aggregate (to insert unknown fields, omit, permute)
FieldEncs(t0, v) == LET t == Resolve(t0) IN [i \in 1..Len(t.fs) |-> FEnc(t.fs[i].num, t.fs[i].t, v[i])]

\* the null rule: a pointer to a value whose encoding is empty reads back as null
RECURSIVE NullNorm(_, _)
NullNorm(t0, v) == LET t == Resolve(t0)
  IN CASE t.k \in {"uptr", "sptr"} -> IF Len(v) = 0 \/ Size(t.e, v[1]) = 0 THEN <<>> ELSE <<NullNorm(t.e, v[1])>>
       [] t.k \in {"vec", "list", "set", "arr"} -> [i \in 1..Len(v) |-> NullNorm(t.e, v[i])]
       [] t.k = "map" -> [i \in 1..Len(v) |-> <<NullNorm(t.x, v[i][1]), NullNorm(t.e, v[i][2])>>]
       [] t.k = "agg" -> [i \in 1..Len(t.fs) |-> NullNorm(t.fs[i].t, v[i])]
       [] OTHER -> v
\* equality up to the iteration order of sets / maps
RECURSIVE SameV(_, _, _)
SameV(t0, a, b) == LET t == Resolve(t0)
  IN IF a = b THEN TRUE
     ELSE CASE t.k \in {"set", "map"} -> Len(a) = Len(b) /\ Rng(a) = Rng(b)
            [] t.k \in {"vec", "list", "arr"} -> Len(a) = Len(b) /\ \A i \in 1..Len(a) : SameV(t.e, a[i], b[i])
            [] t.k \in {"uptr", "sptr", "opt"} -> Len(a) = Len(b) /\ (Len(a) = 0 \/ SameV(t.e, a[1], b[1]))
            [] t.k \in {"agg", "pb"} -> Len(a) = Len(b) /\ \A i \in 1..Len(a) : SameV(t.fs[i].t, a[i], b[i])
            [] OTHER -> FALSE

(* ------------------------------------------------------------------ (c) *)
Frame(t, v, sl) == [t |-> t, v |-> v, sl |-> sl, i |-> 0, key |-> <<>>, hk |-> FALSE, mark |-> -1]
\* lim0 = Len(inp) for a flat array / string / stream with an enclosing limit, INTMAX for a stream without
M0(inp, t, v0, lim0, dbg) ==
  [inp |-> inp, pos |-> 0, lim |-> lim0, stk |-> <<Frame(Resolve(t), v0, -1)>>, st |-> "run", out |-> <<>>,
   dbg |-> dbg, amb |-> FALSE, n |-> 0, sens |-> {}]
End(m) == Min2(m.lim, Len(m.inp))
HasData(m) == m.pos < End(m)
BUL(m) == IF m.lim = INTMAX THEN -1 ELSE m.lim - m.pos
Top(m) == m.stk[Len(m.stk)]
SetTop(m, f) == [m EXCEPT !.stk[Len(m.stk)] = f]
Fail(m) == [m EXCEPT !.st = "fail"]
FailAmb(m) == [m EXCEPT !.st = "fail", !.amb = TRUE]
\* no pushed limit is in force (Len(inp) for a bounded presentation, INTMAX for a stream without limit)
TopLevel(m) == m.lim = Len(m.inp) \/ m.lim = INTMAX
\* sens: "c" = the outcome may depend on the presentation class (bounded / unbounded stream),
\*       "d" = it may depend on the build (wire type of a known member checked only with asserts on)
Sens(m, x) == [m EXCEPT !.sens = m.sens \cup {x}]

RECURSIVE VScan(_, _, _, _)
VScan(inp, p, end, k) == IF k = 10 THEN -1 ELSE IF p + k >= end THEN 0
                         ELSE IF inp[p + k + 1] < 128 THEN k + 1 ELSE VScan(inp, p, end, k + 1)
\* n: bytes consumed (a truncated varint consumes up to the limit, an over-long one is chunking dependent)
RdVar(inp, p, end) == LET n == VScan(inp, p, end, 0)
  IN IF n > 0 THEN [ok |-> TRUE, n |-> n, g |-> [i \in 1..n |-> inp[p + i] % 128], over |-> FALSE]
     ELSE [ok |-> FALSE, n |-> (IF n = 0 THEN end - p ELSE 0), g |-> <<0>>, over |-> n = -1]
PushLim(pos, lim, n) == IF n >= 0 /\ n <= INTMAX - pos /\ n < lim - pos THEN pos + n ELSE lim

\* decode of a leaf at the current position under the current limit
LeafRead(m, t) ==
  CASE Is32(t.k) -> LET r == RdVar(m.inp, m.pos, End(m))
                    IN [ok |-> r.ok, pos |-> m.pos + r.n, v |-> IF r.ok THEN Cast32(t.k, Mask32(r.g)) ELSE <<>>]
    [] Is64(t.k) -> LET r == RdVar(m.inp, m.pos, End(m))
                    IN [ok |-> r.ok, pos |-> m.pos + r.n, v |-> IF r.ok THEN Cast64(t.k, Mask64(r.g)) ELSE <<>>]
    [] t.k = "f32" -> IF m.pos + 4 <= End(m) THEN [ok |-> TRUE, pos |-> m.pos + 4, v |-> SubSeq(m.inp, m.pos + 1, m.pos + 4)]
                      ELSE [ok |-> FALSE, pos |-> m.pos, v |-> <<>>]
    [] t.k = "f64" -> IF m.pos + 8 <= End(m) THEN [ok |-> TRUE, pos |-> m.pos + 8, v |-> SubSeq(m.inp, m.pos + 1, m.pos + 8)]
                      ELSE [ok |-> FALSE, pos |-> m.pos, v |-> <<>>]
    [] t.k = "str" -> [ok |-> TRUE, pos |-> End(m), v |-> SubSeq(m.inp, m.pos + 1, End(m))]

\* the value rv of a finished child arrives at the frame on top of the stack
Return(m, rv) == LET f == Top(m) k == f.t.k
  IN CASE k \in {"vec", "list", "rep"} -> SetTop(m, [f EXCEPT !.v = Append(f.v, rv)])
       [] k = "set" -> SetTop(m, [f EXCEPT !.v = IF rv \in Rng(f.v) THEN f.v ELSE Append(f.v, rv)])
       [] k = "map" -> IF ~f.hk THEN SetTop(m, [f EXCEPT !.key = rv, !.hk = TRUE])
                       ELSE SetTop(m, [f EXCEPT !.hk = FALSE,
                                       !.v = IF \E j \in 1..Len(f.v) : f.v[j][1] = f.key THEN f.v ELSE Append(f.v, <<f.key, rv>>)])
       [] k = "arr" -> SetTop(m, [f EXCEPT !.v = [f.v EXCEPT ![f.i + 1] = rv], !.i = f.i + 1])
       [] k \in {"uptr", "sptr"} -> SetTop(m, [f EXCEPT !.v = <<rv>>, !.i = 2])
       [] k \in {"agg", "pb"} -> SetTop(m, [f EXCEPT !.v = [f.v EXCEPT ![f.i] = IF f.t.fs[f.i].t.k = "opt" THEN <<rv>> ELSE rv]])

\* the frame on top is done with value rv: pop it, restore the limit it saved, hand rv to the parent
Complete(m, rv) == LET f == Top(m)
                       m1 == [m EXCEPT !.stk = SubSeq(m.stk, 1, Len(m.stk) - 1), !.lim = IF f.sl = -1 THEN m.lim ELSE f.sl]
                   IN IF Len(m1.stk) = 0 THEN [m1 EXCEPT !.st = "ok", !.out = rv] ELSE Return(m1, rv)

\* deserialize_packed_field / deserialize_field of a child of type ct0 whose current value is cv
Call(m0, ct0, cv) == LET ct == Resolve(ct0)
  IN IF WT(ct) = 2
     THEN LET r == RdVar(m0.inp, m0.pos, End(m0))
              p1 == m0.pos + r.n
              nl == PushLim(p1, m0.lim, IF r.ok THEN Int32(r.g) ELSE 0)
              \* since the vector loop no longer consults BytesUntilLimit() every read is bounded by Min(limit, end of input),
              \* so a limit pushed behind the end of an unlimited stream behaves like the ignored one of a bounded presentation:
              \* no outcome depends on the presentation class any more (checked by SensSound in Wire_inv.cfg)
              m == m0
          IN IF r.over THEN FailAmb(m)
             ELSE IF ct.k = "str"
                  THEN LET e == Min2(nl, Len(m.inp)) IN Return([m EXCEPT !.pos = e], SubSeq(m.inp, p1 + 1, e))
                  ELSE [m EXCEPT !.pos = p1, !.lim = nl, !.stk = Append(m.stk, Frame(ct, cv, m.lim))]
     ELSE IF IsLeaf(ct)
          THEN LET r == LeafRead(m0, ct) IN IF r.ok THEN Return([m0 EXCEPT !.pos = r.pos], r.v) ELSE Fail([m0 EXCEPT !.pos = r.pos])
          ELSE [m0 EXCEPT !.stk = Append(m0.stk, Frame(ct, cv, -1))]

FieldIx(t, num) == IF \E j \in 1..Len(t.fs) : t.fs[j].num = num THEN CHOOSE j \in 1..Len(t.fs) : t.fs[j].num = num ELSE 0

\* SerializationHelper::consume_unknown_field
SkipUnknown(m, wt) ==
  CASE wt = 0 -> LET r == RdVar(m.inp, m.pos, End(m)) IN IF r.ok THEN [m EXCEPT !.pos = m.pos + r.n] ELSE Fail(m)
    [] wt = 5 -> IF m.pos + 4 <= End(m) THEN [m EXCEPT !.pos = m.pos + 4] ELSE Fail(m)
    [] wt = 1 -> IF m.pos + 8 <= End(m) THEN [m EXCEPT !.pos = m.pos + 8] ELSE Fail(m)
    [] wt = 2 -> LET r == RdVar(m.inp, m.pos, End(m)) c == Int32(r.g)
                 IN IF r.ok /\ c >= 0 /\ c <= End(m) - (m.pos + r.n) THEN [m EXCEPT !.pos = m.pos + r.n + c] ELSE Fail(m)
    [] OTHER -> Fail(m)

\* one iteration of the member loop generated by BABYLON_SERIALIZABLE
AggStep(m, f) ==
  IF ~HasData(m) THEN Complete(m, f.v)
  ELSE LET r == RdVar(m.inp, m.pos, End(m))
           tg == Mask32(r.g)
           wt == tg[1] % 8
           gv == GVal(tg)
           j == IF gv < 0 THEN 0 ELSE FieldIx(f.t, gv \div 8)
           m1 == [m EXCEPT !.pos = m.pos + r.n]
       IN IF ~r.ok THEN (IF r.over THEN FailAmb(m) ELSE Fail(m1))
          ELSE IF j = 0 THEN SkipUnknown(m1, wt)
          ELSE LET ft == Resolve(f.t.fs[j].t)
                   ct == IF ft.k = "opt" THEN Resolve(ft.e) ELSE ft
                   cv == IF ft.k = "opt" THEN (IF Len(f.v[j]) = 0 THEN Default(ct) ELSE f.v[j][1]) ELSE f.v[j]
               IN IF f.t.k = "pb" /\ wt # WT(ft) THEN SkipUnknown(m1, wt)
                  ELSE IF wt # WT(ft) /\ m.dbg THEN Fail(Sens(m1, "d"))
                  ELSE Call(SetTop(IF wt # WT(ft) THEN Sens(m1, "d") ELSE m1, [f EXCEPT !.i = j]), ct, cv)

Step(m0) == LET m == [m0 EXCEPT !.n = m0.n + 1] f == Top(m) t == f.t k == t.k
  IN CASE IsLeaf(t) -> LET r == LeafRead(m, t) IN IF r.ok THEN Complete([m EXCEPT !.pos = r.pos], r.v) ELSE Fail(m)
       \* vector (since /repo be0fcf7), list, set: an element while data is available below the limit - works without an
       \* enclosing limit and stops at the end of the stream; vector<float/double> reserves min(limit, buffer) bytes only
       [] k \in {"vec", "list", "set", "rep"} -> IF HasData(m) THEN Call(m, t.e, Default(t.e)) ELSE Complete(m, f.v)
       [] k = "map" -> IF f.hk THEN Call(m, t.e, Default(t.e))
                       ELSE IF HasData(m) THEN Call(m, t.x, Default(t.x)) ELSE Complete(m, f.v)
       [] k = "arr" -> IF t.e.k \in {"f32", "f64"}
                       THEN LET w == IF t.e.k = "f32" THEN 4 ELSE 8
                            IN IF m.pos + t.n * w <= End(m)
                               THEN Complete([m EXCEPT !.pos = m.pos + t.n * w],
                                             [i \in 1..t.n |-> SubSeq(m.inp, m.pos + (i - 1) * w + 1, m.pos + i * w)])
                               ELSE Fail(m)
                       ELSE IF f.i < t.n THEN Call(m, t.e, f.v[f.i + 1]) ELSE Complete(m, f.v)
       [] k \in {"uptr", "sptr"} ->
            IF f.i = 0
            THEN (IF HasData(m)
                  THEN LET ct == Resolve(t.e)
                           cv == IF Len(f.v) = 0 \/ k = "sptr" THEN Default(ct) ELSE f.v[1]
                           m1 == SetTop(m, [f EXCEPT !.i = 1])
                       IN IF IsLeaf(ct)
                          THEN LET r == LeafRead(m1, ct)
                               IN IF r.ok THEN Return([m1 EXCEPT !.pos = r.pos], r.v) ELSE Fail(m1)
                          ELSE [m1 EXCEPT !.stk = Append(m1.stk, Frame(ct, cv, -1))]
                  ELSE Complete(m, f.v))
            ELSE Complete(m, f.v)
       [] k \in {"agg", "pb"} -> AggStep(m, f)

RECURSIVE RunM(_)
RunM(m) == IF m.st # "run" THEN m ELSE RunM(Step(m))
Lim0(cls, inp) == IF cls = "b" THEN Len(inp) ELSE INTMAX
Parse(nm, inp, cls, dbg) == RunM(M0(inp, Def(nm), Default(Def(nm)), Lim0(cls, inp), dbg))
\* the outcome for a mode, re-running the machine only when the base run r0 = Parse(nm, inp, "b", TRUE) says the mode can matter
ModeFrom(r0, nm, inp, cls, dbg) ==
  LET r1 == IF "d" \in r0.sens THEN Parse(nm, inp, "b", FALSE) ELSE r0
  IN IF cls = "b" THEN (IF dbg THEN r0 ELSE r1)
     ELSE IF dbg THEN (IF "c" \in r0.sens THEN Parse(nm, inp, "u", TRUE) ELSE r0)
     ELSE (IF "c" \in r1.sens \/ "c" \in r0.sens THEN Parse(nm, inp, "u", FALSE) ELSE r1)
ModeResult(nm, inp, cls, dbg) == ModeFrom(Parse(nm, inp, "b", TRUE), nm, inp, cls, dbg)

(* protobuf view of the Cp struct *)
RECURSIVE ToPb(_, _, _), FromPb(_, _, _)
ToPb(st, pt, v) == [i \in 1..Len(st.fs) |->
   LET ft == Resolve(st.fs[i].t) pf == pt.fs[i].t
   IN IF pf.k = "rep" THEN v[i]
      ELSE IF ft.k = "agg" THEN (IF Size(ft, v[i]) = 0 THEN <<>> ELSE <<ToPb(ft, Resolve(pf.e), v[i])>>)
      ELSE IF ft.k = "str" THEN (IF Len(v[i]) = 0 THEN <<>> ELSE <<v[i]>>)
      ELSE <<v[i]>>]
FromPb(st, pt, pv) == [i \in 1..Len(st.fs) |->
   LET ft == Resolve(st.fs[i].t) pf == pt.fs[i].t
   IN IF pf.k = "rep" THEN pv[i]
      ELSE IF Len(pv[i]) = 0 THEN st.fs[i].d
      ELSE IF ft.k = "agg" THEN FromPb(ft, Resolve(pf.e), pv[i][1]) ELSE pv[i][1]]
\* what a successful parse has to yield for the case kinds that carry an expectation (v: the value the input was made from)
ExpectOf(kind, nm, v, i) == LET t == Def(nm)
  IN CASE kind \in {"val", "unk", "perm"} -> NullNorm(t, v)
       [] kind = "omit" -> NullNorm(t, [v EXCEPT ![i] = t.fs[i].d])
       [] kind = "pbv" -> FromPb(t, Def("PbCp"), v)
ClauseOf(kind) == CASE kind = "val" -> "RoundTrip" [] kind = "unk" -> "UnknownSkipped" [] kind = "omit" -> "DefaultsKept"
                    [] kind = "perm" -> "OrderIrrelevant" [] kind = "pbv" -> "InteropFromProto" [] OTHER -> ""
(* ------------------------------------------------------------ properties *)
\* clauses on ONE case; the model checking module quantifies them over the family
RoundTripOK(nm, v, cls, dbg) ==
  LET r == Parse(nm, Enc(Def(nm), v), cls, dbg) IN r.st = "ok" /\ SameV(Def(nm), r.out, NullNorm(Def(nm), v))
SizeExactOK(nm, v) == Size(Def(nm), v) = Len(Enc(Def(nm), v))
IdempotentOK(nm, r, cls, dbg) ==
  r.st = "ok" => LET r2 == Parse(nm, Enc(Def(nm), r.out), cls, dbg)
                 IN r2.st = "ok" /\ SameV(Def(nm), r2.out, NullNorm(Def(nm), r.out))
\* step bound: every step consumes input, pushes / pops a frame or advances an array index
StepBound(m) == m.n <= 6 * (Len(m.inp) + 4)
=============================================================================
