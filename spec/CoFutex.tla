------------------------------ MODULE CoFutex ------------------------------
(***************************************************************************)
(* L2 (implementation-shaped) specification of babylon::coroutine::Futex   *)
(* (src/babylon/coroutine/futex.h, futex.cpp) together with the resumption  *)
(* path BasicPromise::resume -> Executor::invoke.                           *)
(*                                                                         *)
(*  - DepositBox<Node> at its L1 (C14): emplace / take / finish, LIFO slot  *)
(*    reuse, node fields RESET when a slot is emplaced again.  A slot id is *)
(*    <<slot, generation>>; take(id) wins iff the slot still has that       *)
(*    generation and nobody took it.                                        *)
(*  - std::mutex = variable lock (0 free, else owner thread).               *)
(*  - intrusive list: head (= _awaiter_head.next), nd[s].prev / .next       *)
(*    (0 = nullptr, -1 = &_awaiter_head).                                   *)
(*  - threads carry a STACK of frames: resuming a coroutine through an      *)
(*    inline executor runs its continuation (and its next await_suspend)    *)
(*    nested inside wake_one / wake_all / cancel, exactly as in the code.   *)
(*  - executors: emode[e] = "i" (function runs inside invoke) or "q"        *)
(*    (queue + one worker thread).                                          *)
(*                                                                         *)
(* One action per step of the code that another thread can observe:         *)
(*   await_suspend : emplace, fill, lock, compare(+link), unlock, on_suspend*)
(*   wake_one      : lock, loop{unlink+clear, take}, unlock, resume, finish *)
(*   wake_all      : lock+detach, per node {prev:=null, take}, unlock, then *)
(*                   per node  resume | finish | read next  (three steps)   *)
(*   cancel        : take, lock, remove, unlock, resume, finish             *)
(*                                                                         *)
(* Fix \subseteq {"h3a", "h3b", "h3c"} switches the PROPOSED repairs on      *)
(* (findings/C13_*.md); Fix = {} is the code as it is.                      *)
(***************************************************************************)
EXTENDS Naturals, Integers, Sequences, FiniteSets, TLC

CONSTANTS Configs,  \* set of [kinds, bound, emode, prog]
          Fix

VARIABLES cfg, box, nd, head, lock, tok, cst, crnd, stk, opi, queue, H,
          val      \* the futex word: starts at 0, every "u" operation of a waker stores the next value

vars == <<cfg, box, nd, head, lock, tok, cst, crnd, stk, opi, queue, H, val>>

MaxS == 6
Slots == 1..MaxS
NW == Len(cfg.kinds)
W == 1..NW
NT == Len(cfg.prog)
NE == Len(cfg.emode)
Thr == 1..(NT + NE)                \* program threads, then one (possibly idle) worker per executor
IsWorker(t) == t > NT
ExOf(t) == t - NT

NoId == <<0, 0>>
Node0 == [prev |-> 0, next |-> 0, w |-> 0, r |-> 0, g |-> 0, exp |-> 0]
Never == 99   \* expected value of an "x" round: never stored
F0 == [k |-> "", pc |-> "", w |-> 0, r |-> 0, node |-> 0, nxt |-> 0, id |-> NoId, ok |-> FALSE, hd |-> 0, tail |-> 0,
       cur |-> 0, elig |-> {}, mine |-> {}, done |-> {}, n |-> 0, ex |-> 0, exp |-> 0, after |-> -1]

InitFor(c) ==
  /\ cfg = c
  /\ box = [gen |-> [s \in Slots |-> 0], taken |-> [s \in Slots |-> FALSE], free |-> << >>, n |-> 0]
  /\ nd = [s \in Slots |-> Node0]
  /\ head = 0
  /\ lock = 0
  /\ tok = [w \in 1..Len(c.kinds) |-> [r \in 1..Len(c.kinds[w]) |-> NoId]]
  /\ cst = [w \in 1..Len(c.kinds) |-> "new"]
  /\ crnd = [w \in 1..Len(c.kinds) |-> 1]
  /\ stk = [t \in 1..(Len(c.prog) + Len(c.emode)) |-> << >>]
  /\ opi = [t \in 1..Len(c.prog) |-> 1]
  /\ queue = [e \in 1..Len(c.emode) |-> << >>]
  /\ H = [bad |-> "", clean |-> -1]
  /\ val = 0

Init == \E c \in Configs : InitFor(c)

(***************************************************************************)
(* helpers                                                                 *)
(***************************************************************************)
Top(t) == stk[t][Len(stk[t])]
Below(t) == SubSeq(stk[t], 1, Len(stk[t]) - 1)
Bad(clause) == IF H.bad = "" THEN [H EXCEPT !.bad = clause] ELSE H

RECURSIVE Reach(_, _)
Reach(s, n) == IF s = 0 \/ n = 0 THEN {} ELSE {s} \cup Reach(nd[s].next, n - 1)
OnList == Reach(head, MaxS)
IdOf(s) == <<s, nd[s].g>>
Live(id) == box.gen[id[1]] = id[2] /\ ~box.taken[id[1]]          \* take(id) would win
\* linked nodes nobody owns: what a wake may claim when it gets the lock
EligNow == {IdOf(s) : s \in {x \in OnList : ~box.taken[x]}}

\* BasicPromise::resume(handle) executed by thread t whose frame continues as `cont`
\* (inline executor: the continuation of the coroutine is pushed on top; queue: handed to the worker)
Resume(t, w, cont) ==
  IF w \notin W \/ cst[w] # "susp"
  THEN /\ H' = Bad("ResumedExactlyOncePerSuspension")
       /\ stk' = [stk EXCEPT ![t] = Append(Below(t), cont)]
       /\ UNCHANGED <<cst, queue>>
  ELSE LET e == cfg.bound[w] IN
       /\ cst' = [cst EXCEPT ![w] = "run"]
       /\ IF cfg.emode[e] = "i"
          THEN /\ stk' = [stk EXCEPT ![t] = Append(Append(Below(t), cont), [F0 EXCEPT !.k = "co", !.pc = "res", !.w = w, !.ex = e])]
               /\ UNCHANGED queue
          ELSE /\ stk' = [stk EXCEPT ![t] = Append(Below(t), cont)]
               /\ queue' = [queue EXCEPT ![e] = Append(@, [w |-> w, pc |-> "res"])]
       /\ UNCHANGED H

Finish(s) ==  \* DepositBox::finish_released: the slot goes back to the allocator (LIFO)
  IF \E i \in 1..Len(box.free) : box.free[i] = s
  THEN /\ H' = Bad("NoSlotLeak") /\ UNCHANGED box
  ELSE /\ box' = [box EXCEPT !.free = <<s>> \o @] /\ UNCHANGED H

SetTop(t, f) == [stk EXCEPT ![t] = Append(Below(t), f)]
Pop(t) == [stk EXCEPT ![t] = Below(t)]

(***************************************************************************)
(* coroutine body: continue after a co_await, start the next round         *)
(***************************************************************************)
CoStep(t) ==
  LET f == Top(t)
      w == f.w
      r == IF f.pc = "res" THEN crnd[w] + 1 ELSE crnd[w]    \* continuing after a co_await completes that round
  IN /\ f.k = "co"
     /\ crnd' = [crnd EXCEPT ![w] = r]
     /\ H' = IF f.ex # cfg.bound[w] THEN Bad("ResumedOnBoundExecutor") ELSE H
     /\ IF r > Len(cfg.kinds[w])
        THEN /\ cst' = [cst EXCEPT ![w] = "done"]
             /\ stk' = Pop(t)
        ELSE \* co_await futex.wait(...): the coroutine is suspended, await_suspend runs on this thread
             /\ cst' = [cst EXCEPT ![w] = "susp"]
             \* kinds: "m"/"c" wait for the initial value 0, "x" for a value never stored, "d" for the value read just now
             /\ stk' = SetTop(t, [F0 EXCEPT !.k = "as", !.pc = "emplace", !.w = w, !.r = r, !.ex = f.ex,
                                            !.exp = IF cfg.kinds[w][r] = "x" THEN Never ELSE IF cfg.kinds[w][r] = "d" THEN val ELSE 0])
     /\ UNCHANGED <<box, nd, head, lock, tok, queue>>

(***************************************************************************)
(* Futex::Awaitable::await_suspend                                         *)
(***************************************************************************)
AsStep(t) ==
  LET f == Top(t)
      w == f.w
      s == f.id[1]
      match == f.exp = val        \* add_awaiter: expected_value == _value, under the mutex
  IN /\ f.k = "as"
     /\ CASE f.pc = "emplace" ->
               LET reuse == box.free # << >>
                   ns == IF reuse THEN Head(box.free) ELSE box.n + 1
               IN /\ ns \in Slots
                  /\ box' = [box EXCEPT !.free = IF reuse THEN Tail(@) ELSE @, !.n = IF reuse THEN @ ELSE @ + 1,
                                        !.gen[ns] = @ + 1, !.taken[ns] = FALSE]
                  /\ nd' = [nd EXCEPT ![ns] = Node0]                      \* optional<Node>::emplace(): fields reset
                  /\ stk' = SetTop(t, [f EXCEPT !.pc = "fill", !.id = <<ns, box.gen[ns] + 1>>])
                  /\ UNCHANGED <<head, lock, tok, cst, crnd, queue, H>>
          [] f.pc = "fill" ->
               /\ nd' = [nd EXCEPT ![s] = [Node0 EXCEPT !.w = w, !.r = f.r, !.g = f.id[2], !.exp = f.exp]]
               /\ stk' = SetTop(t, [f EXCEPT !.pc = "lock"])
               /\ UNCHANGED <<box, head, lock, tok, cst, crnd, queue, H>>
          [] f.pc = "lock" ->
               /\ lock = 0 /\ lock' = t
               /\ stk' = SetTop(t, [f EXCEPT !.pc = "cmp"])
               /\ UNCHANGED <<box, nd, head, tok, cst, crnd, queue, H>>
          [] f.pc = "cmp" ->   \* add_awaiter: compare, front insert
               /\ IF match
                  THEN /\ nd' = [x \in Slots |-> IF x = s THEN [nd[s] EXCEPT !.prev = -1, !.next = head]
                                                 ELSE IF x = head THEN [nd[x] EXCEPT !.prev = s] ELSE nd[x]]
                       /\ head' = s
                  ELSE UNCHANGED <<nd, head>>
               /\ stk' = SetTop(t, [f EXCEPT !.pc = "unlock", !.ok = match])
               /\ UNCHANGED <<box, lock, tok, cst, crnd, queue, H>>
          [] f.pc = "unlock" ->
               /\ lock' = 0
               /\ IF f.ok
                  THEN /\ stk' = SetTop(t, [f EXCEPT !.pc = "onsusp"])
                       /\ UNCHANGED <<box, cst, H>>
                  ELSE \* await_suspend returns false: the coroutine continues at once; the slot is NOT given back
                       /\ stk' = SetTop(t, [F0 EXCEPT !.k = "co", !.pc = "res", !.w = w, !.ex = f.ex])
                       /\ cst' = [cst EXCEPT ![w] = "run"]
                       /\ IF "h3c" \in Fix THEN Finish(s) ELSE UNCHANGED <<box, H>>
               /\ UNCHANGED <<nd, head, tok, crnd, queue>>
          [] f.pc = "onsusp" ->   \* _on_suspend({id}): the cancellation token exists from here on
               /\ tok' = [tok EXCEPT ![w][f.r] = f.id]
               /\ IF cfg.kinds[w][f.r] = "c"
                  THEN stk' = [stk EXCEPT ![t] = Append(Append(Below(t), [f EXCEPT !.pc = "ret"]),
                                                        [F0 EXCEPT !.k = "x", !.pc = "x_take", !.id = f.id])]
                  ELSE stk' = Pop(t)
               /\ UNCHANGED <<box, nd, head, lock, cst, crnd, queue, H>>
          [] f.pc = "ret" ->
               /\ stk' = Pop(t)
               /\ UNCHANGED <<box, nd, head, lock, tok, cst, crnd, queue, H>>

(***************************************************************************)
(* Futex::wake_one                                                         *)
(***************************************************************************)
WakeOneStep(t) ==
  LET f == Top(t)
      nx == nd[f.node].next
  IN /\ f.k = "k"
     /\ CASE f.pc = "k_lock" ->
               /\ lock = 0 /\ lock' = t
               /\ stk' = SetTop(t, [f EXCEPT !.pc = "k_loop", !.node = head, !.elig = EligNow])
               /\ UNCHANGED <<box, nd, head, tok, cst, crnd, queue, H>>
          [] f.pc = "k_loop" ->
               /\ stk' = SetTop(t, [f EXCEPT !.pc = IF f.node = 0 THEN "k_unlock" ELSE "k_unlink"])
               /\ UNCHANGED <<box, nd, head, lock, tok, cst, crnd, queue, H>>
          [] f.pc = "k_unlink" ->   \* unconditionally remove the node, clear prev and next
               /\ nd' = [x \in Slots |-> IF x = f.node THEN [nd[x] EXCEPT !.prev = 0, !.next = 0]
                                         ELSE IF x = nx THEN [nd[x] EXCEPT !.prev = -1] ELSE nd[x]]
               /\ head' = nx
               /\ stk' = SetTop(t, [f EXCEPT !.pc = "k_take", !.nxt = nx])
               /\ UNCHANGED <<box, lock, tok, cst, crnd, queue, H>>
          [] f.pc = "k_take" ->     \* box.take_released(node->id)
               IF Live(IdOf(f.node))
               THEN /\ box' = [box EXCEPT !.taken[f.node] = TRUE]
                    /\ stk' = SetTop(t, [f EXCEPT !.pc = "k_unlock", !.ok = TRUE])
                    /\ UNCHANGED <<nd, head, lock, tok, cst, crnd, queue, H>>
               ELSE \* the loop's  node = node->next  reads the pointer that was just cleared
                    /\ stk' = SetTop(t, [f EXCEPT !.pc = "k_loop", !.node = IF "h3a" \in Fix THEN f.nxt ELSE nd[f.node].next])
                    /\ UNCHANGED <<box, nd, head, lock, tok, cst, crnd, queue, H>>
          [] f.pc = "k_unlock" ->
               /\ lock' = 0
               /\ IF f.node # 0
                  THEN /\ stk' = SetTop(t, [f EXCEPT !.pc = "k_resume"]) /\ UNCHANGED H
                  ELSE \* returns 0: nobody that could be claimed when the lock was taken may still be claimable
                       /\ stk' = Pop(t)
                       /\ H' = IF \E id \in f.elig : Live(id) THEN Bad("WakeOneWakesOneIfAnyNotCancelling") ELSE H
               /\ UNCHANGED <<box, nd, head, tok, cst, crnd, queue>>
          [] f.pc = "k_resume" ->
               /\ Resume(t, nd[f.node].w, [f EXCEPT !.pc = "k_finish"])
               /\ UNCHANGED <<box, nd, head, lock, tok, crnd>>
          [] f.pc = "k_finish" ->
               /\ Finish(f.node)
               /\ stk' = Pop(t)
               /\ UNCHANGED <<nd, head, lock, tok, cst, crnd, queue>>

(***************************************************************************)
(* Futex::wake_all                                                         *)
(***************************************************************************)
WakeAllStep(t) ==
  LET f == Top(t)
      c == f.cur
  IN /\ f.k = "a"
     /\ CASE f.pc = "a_lock" ->      \* lock, move the entire list to a local head
               /\ lock = 0 /\ lock' = t
               /\ head' = 0
               /\ stk' = SetTop(t, [f EXCEPT !.pc = "a_loop", !.hd = head, !.tail = 0, !.cur = head, !.elig = EligNow])
               /\ UNCHANGED <<box, nd, tok, cst, crnd, queue, H>>
          [] f.pc = "a_loop" ->
               IF c = 0
               THEN /\ lock' = 0
                    /\ stk' = SetTop(t, [f EXCEPT !.pc = "b_loop", !.cur = f.hd])
                    /\ UNCHANGED <<box, nd, head, tok, cst, crnd, queue, H>>
               ELSE \* node->prev = nullptr; take_released(node->id) ? tail = &node->next : *tail = node->next
                    LET won == Live(IdOf(c))
                        nx == nd[c].next
                    IN /\ box' = IF won THEN [box EXCEPT !.taken[c] = TRUE] ELSE box
                       /\ nd' = [x \in Slots |-> IF x = c THEN [nd[x] EXCEPT !.prev = 0]
                                                 ELSE IF ~won /\ x = f.tail THEN [nd[x] EXCEPT !.next = nx] ELSE nd[x]]
                       /\ stk' = SetTop(t, [f EXCEPT !.cur = nx,
                                                     !.tail = IF won THEN c ELSE @,
                                                     !.hd = IF ~won /\ f.tail = 0 THEN nx ELSE @,
                                                     !.mine = IF won THEN @ \cup {IdOf(c)} ELSE @])
                       /\ UNCHANGED <<head, lock, tok, cst, crnd, queue, H>>
          [] f.pc = "b_loop" ->
               IF c = 0
               THEN \* returns: everything this call took must have been resumed by it
                    /\ stk' = Pop(t)
                    /\ H' = LET h == IF f.mine \ f.done # {} THEN Bad("WakeAllWakesAll") ELSE H
                            IN [h EXCEPT !.clean = IF f.after > @ THEN f.after ELSE @]
                    /\ UNCHANGED <<box, nd, head, lock, tok, cst, crnd, queue>>
               ELSE /\ stk' = SetTop(t, [f EXCEPT !.pc = "b_resume"])
                    /\ UNCHANGED <<box, nd, head, lock, tok, cst, crnd, queue, H>>
          [] f.pc = "b_resume" ->   \* node->promise->resume(node->handle): fields read from the node as it is NOW
               /\ Resume(t, nd[c].w, [f EXCEPT !.pc = "b_finish", !.done = @ \cup {IdOf(c)}, !.nxt = nd[c].next])
               /\ UNCHANGED <<box, nd, head, lock, tok, crnd>>
          [] f.pc = "b_finish" ->   \* box.finish_released(node->id)
               /\ Finish(c)
               /\ stk' = SetTop(t, [f EXCEPT !.pc = "b_next"])
               /\ UNCHANGED <<nd, head, lock, tok, cst, crnd, queue>>
          [] f.pc = "b_next" ->     \* node = node->next : AFTER the slot was given back
               /\ stk' = SetTop(t, [f EXCEPT !.pc = "b_loop", !.n = @ + 1, !.cur = IF "h3b" \in Fix THEN f.nxt ELSE nd[c].next])
               /\ UNCHANGED <<box, nd, head, lock, tok, cst, crnd, queue, H>>

(***************************************************************************)
(* Futex::Awaitable::cancel(id)                                            *)
(***************************************************************************)
CancelStep(t) ==
  LET f == Top(t)
      s == f.id[1]
  IN /\ f.k = "x"
     /\ CASE f.pc = "x_take" ->
               IF Live(f.id)
               THEN /\ box' = [box EXCEPT !.taken[s] = TRUE]
                    /\ stk' = SetTop(t, [f EXCEPT !.pc = "x_lock"])
                    /\ UNCHANGED <<nd, head, lock, tok, cst, crnd, queue, H>>
               ELSE /\ stk' = Pop(t)
                    /\ UNCHANGED <<box, nd, head, lock, tok, cst, crnd, queue, H>>
          [] f.pc = "x_lock" ->
               /\ lock = 0 /\ lock' = t
               /\ stk' = SetTop(t, [f EXCEPT !.pc = "x_remove"])
               /\ UNCHANGED <<box, nd, head, tok, cst, crnd, queue, H>>
          [] f.pc = "x_remove" ->   \* remove_awaiter (cleared prev means already unlinked), unlock
               LET p == nd[s].prev
                   nx == nd[s].next
               IN /\ IF p = 0 THEN UNCHANGED <<nd, head>>
                     ELSE /\ head' = IF p = -1 THEN nx ELSE head
                          /\ nd' = [x \in Slots |-> IF x = p THEN [nd[x] EXCEPT !.next = nx]
                                                    ELSE IF x = nx THEN [nd[x] EXCEPT !.prev = p] ELSE nd[x]]
                  /\ lock' = 0
                  /\ stk' = SetTop(t, [f EXCEPT !.pc = "x_resume"])
                  /\ UNCHANGED <<box, tok, cst, crnd, queue, H>>
          [] f.pc = "x_resume" ->
               /\ Resume(t, nd[s].w, [f EXCEPT !.pc = "x_finish"])
               /\ UNCHANGED <<box, nd, head, lock, tok, crnd>>
          [] f.pc = "x_finish" ->
               /\ Finish(s)
               /\ stk' = Pop(t)
               /\ UNCHANGED <<nd, head, lock, tok, cst, crnd, queue>>

(***************************************************************************)
(* program threads and executor workers                                    *)
(***************************************************************************)
NextOp(t) == IF IsWorker(t) \/ opi[t] > Len(cfg.prog[t]) THEN [op |-> "-", w |-> 0, r |-> 0] ELSE cfg.prog[t][opi[t]]
Dispatch(t) ==
  /\ ~IsWorker(t) /\ stk[t] = << >> /\ opi[t] <= Len(cfg.prog[t])
  /\ LET o == cfg.prog[t][opi[t]] IN
     CASE o.op = "s" ->      \* Executor::submit(task): first resumption through invoke
            /\ cst[o.w] = "new"
            /\ LET e == cfg.bound[o.w] IN
               /\ cst' = [cst EXCEPT ![o.w] = "run"]
               /\ IF cfg.emode[e] = "i"
                  THEN /\ stk' = [stk EXCEPT ![t] = <<[F0 EXCEPT !.k = "co", !.w = o.w, !.ex = e, !.pc = "start"]>>] /\ UNCHANGED queue
                  ELSE /\ queue' = [queue EXCEPT ![e] = Append(@, [w |-> o.w, pc |-> "start"])] /\ UNCHANGED stk
            /\ opi' = [opi EXCEPT ![t] = @ + 1]
            /\ UNCHANGED <<box, nd, head, lock, tok, crnd, H>>
       [] o.op = "k" ->
            /\ stk' = [stk EXCEPT ![t] = <<[F0 EXCEPT !.k = "k", !.pc = "k_lock", !.after = val]>>]
            /\ opi' = [opi EXCEPT ![t] = @ + 1]
            /\ UNCHANGED <<box, nd, head, lock, tok, cst, crnd, queue, H>>
       [] o.op = "a" ->
            /\ stk' = [stk EXCEPT ![t] = <<[F0 EXCEPT !.k = "a", !.pc = "a_lock", !.after = val]>>]
            /\ opi' = [opi EXCEPT ![t] = @ + 1]
            /\ UNCHANGED <<box, nd, head, lock, tok, cst, crnd, queue, H>>
       [] o.op = "u" ->      \* the waker's half of the protocol: store a new value (then wake)
            /\ val' = val + 1
            /\ opi' = [opi EXCEPT ![t] = @ + 1]
            /\ UNCHANGED <<box, nd, head, lock, tok, cst, crnd, stk, queue, H>>
       [] o.op = "c" ->      \* cancellation token of round o.r of waiter o.w, once it exists; skipped if it never will
            /\ \/ /\ tok[o.w][o.r] # NoId
                  /\ stk' = [stk EXCEPT ![t] = <<[F0 EXCEPT !.k = "x", !.pc = "x_take", !.id = tok[o.w][o.r]]>>]
               \/ /\ tok[o.w][o.r] = NoId /\ (crnd[o.w] > o.r \/ cst[o.w] = "done")
                  /\ UNCHANGED stk
            /\ opi' = [opi EXCEPT ![t] = @ + 1]
            /\ UNCHANGED <<box, nd, head, lock, tok, cst, crnd, queue, H>>

Worker(t) ==
  /\ IsWorker(t) /\ stk[t] = << >> /\ cfg.emode[ExOf(t)] = "q" /\ queue[ExOf(t)] # << >>
  /\ stk' = [stk EXCEPT ![t] = <<[F0 EXCEPT !.k = "co", !.w = Head(queue[ExOf(t)]).w, !.pc = Head(queue[ExOf(t)]).pc, !.ex = ExOf(t)]>>]
  /\ queue' = [queue EXCEPT ![ExOf(t)] = Tail(@)]
  /\ UNCHANGED <<box, nd, head, lock, tok, cst, crnd, opi, H>>

Step(t) ==
  /\ UNCHANGED cfg
  /\ \/ Dispatch(t) /\ (NextOp(t).op = "u" \/ UNCHANGED val)
     \/ Worker(t) /\ UNCHANGED val
     \/ /\ stk[t] # << >>
        /\ UNCHANGED <<opi, val>>
        /\ \/ CoStep(t)
           \/ AsStep(t)
           \/ WakeOneStep(t)
           \/ WakeAllStep(t)
           \/ CancelStep(t)

(***************************************************************************)
(* L1 clauses of C13 for the coroutine futex                                *)
(***************************************************************************)
\* nothing can happen any more
Stalled(o) == \/ o.op = "-"
              \/ (o.op = "s" /\ cst[o.w] # "new")
              \/ (o.op = "c" /\ tok[o.w][o.r] = NoId /\ ~(crnd[o.w] > o.r \/ cst[o.w] = "done"))
Quiescent ==
  /\ \A t \in Thr : stk[t] = << >>
  /\ \A e \in 1..NE : queue[e] = << >>
  /\ \A t \in 1..NT : Stalled(NextOp(t))

\* the slot a suspended waiter is waiting in: linked and claimable, i.e. the next wake_all / wake_one reaches it
Wakeable(w) == \E s \in OnList : nd[s].w = w /\ nd[s].r = crnd[w] /\ Live(IdOf(s))

ResumedExactlyOncePerSuspension == H.bad # "ResumedExactlyOncePerSuspension"
WakeOneWakesOneIfAnyNotCancelling == H.bad # "WakeOneWakesOneIfAnyNotCancelling"
WakeAllWakesAll == H.bad # "WakeAllWakesAll"
ResumedOnBoundExecutor == H.bad # "ResumedOnBoundExecutor"
\* a wait with a non-matching value never becomes resumable by others (never linked, no token)
MismatchDoesNotSuspend ==
  /\ \A s \in OnList : nd[s].w \in W /\ nd[s].r \in 1..Len(cfg.kinds[nd[s].w]) => cfg.kinds[nd[s].w][nd[s].r] # "x"
  \* the word only grows: nobody is linked (and claimable) while waiting for a value newer than the word
  /\ \A s \in OnList : Live(IdOf(s)) => nd[s].exp <= val
\* once nothing is running, whoever is still suspended can still be woken (nobody owns its resumption and went away)
NeverLeftSuspendedAfterWakeCondition ==
  /\ Quiescent => \A w \in W : cst[w] = "susp" => Wakeable(w)
  \* no lost wake-up: once a wake_all that was called after the store of value v has returned, nobody is (still or newly)
  \* on the list waiting for a value older than v - check-and-enqueue is atomic with respect to wakers
  /\ \A s \in OnList : Live(IdOf(s)) => nd[s].exp >= H.clean
\* per-wait bookkeeping: at quiescence every slot that is not free belongs to a waiter that is still waiting in it
NoSlotLeak ==
  /\ H.bad # "NoSlotLeak"
  /\ Quiescent => \A s \in 1..box.n : (\E i \in 1..Len(box.free) : box.free[i] = s)
                                       \/ (s \in OnList /\ Live(IdOf(s)) /\ nd[s].w \in W /\ cst[nd[s].w] = "susp")

AllDone == Quiescent
=============================================================================
