---------------------------- MODULE Epoch_Trace ----------------------------
(***************************************************************************)
(* Trace validation of the real babylon::Epoch (plus the driver's client   *)
(* protocol) against the L2 specification Epoch.  Every line of the        *)
(* normalised ndjson trace recorded under vsched must be explained by the  *)
(* Epoch action the thread's pc allows, with the same location, operand,   *)
(* value read and result.  The memory order of each step is the one the    *)
(* running code passed (Tr[l].mo); the <<site, order>> pairs seen are      *)
(* collected, MO_Epoch.tla is regenerated from them and the weak-memory    *)
(* model check is repeated with the code's own orders (a fence the code no *)
(* longer executes is recorded with order "none").                         *)
(***************************************************************************)
EXTENDS Epoch, Json, IOUtils

Tr == ndJsonDeserialize(IOEnv.TRACE)

VARIABLES l, moSeen
tvars == <<vars, l, moSeen>>

CfgOf(e) == [prog |-> e.prog, ns |-> e.ns, nh |-> e.nh, pre |-> e.pre]

TInit ==
  /\ l = 2
  /\ moSeen = {}
  /\ Tr[1].k = "reset"
  /\ InitFor(CfgOf(Tr[1]))
  /\ TLCSet(1, 1)
  /\ TLCSet(2, {})

Progress == TLCSet(1, IF TLCGet(1) < l' THEN l' ELSE TLCGet(1))

Matches(m, e) ==
  /\ m.t = e.t /\ m.k = e.k
  /\ CASE e.k \in {"load", "store"} -> m.loc = e.loc /\ m.i = e.i /\ m.v = e.v
       [] e.k \in {"faa", "xchg"} -> m.loc = e.loc /\ m.i = e.i /\ m.v = e.v /\ m.a = e.a
       [] e.k = "cas" -> m.loc = e.loc
       [] e.k = "fence" -> TRUE
       [] e.k = "call" -> m.op = e.op /\ m.h = e.h
       [] e.k = "ret" -> m.op = e.op /\ m.h = e.h /\ m.res = e.res
       [] e.k = "deref" -> m.v = e.v
       [] e.k = "reclaim" -> m.vals = e.vals /\ m.v = e.v
       [] OTHER -> FALSE

Consume ==
  /\ l <= Len(Tr)
  /\ LET e == Tr[l]
     IN /\ e.k \notin {"reset", "end"}
        /\ (Step(e.t, LAMBDA site : e.mo) \/ CreateFaa(e.t, LAMBDA site : e.mo, TRUE))
        /\ Matches(ev', e)
        /\ moSeen' = IF ev'.site # "" THEN moSeen \cup {<<ev'.site, ev'.mo>>} ELSE moSeen
  /\ l' = l + 1

\* a fence the model has but the code does not execute (tick on x86; a removed fence) gets order "none"
SkipFence ==
  /\ l <= Len(Tr)
  /\ Tr[l].k \notin {"reset", "end", "fence"}
  /\ LET t == Tr[l].t
     IN /\ pc[t] \in {"l_fence", "t_fence"}
        /\ (LFence(t, LAMBDA site : "none") \/ TFence(t, LAMBDA site : "none"))
        /\ moSeen' = moSeen \cup {<<ev'.site, "none">>}
  /\ UNCHANGED l

\* release of a locked accessor: the code under test does not reset the slot (its next operation is not a slot store)
SkipReset ==
  /\ l <= Len(Tr)
  /\ Tr[l].k \notin {"reset", "end"}
  /\ LET t == Tr[l].t
     IN /\ pc[t] = "rl_reset"
        /\ ~(Tr[l].k = "store" /\ Tr[l].loc = "slot")
        /\ RlReset(t, LAMBDA site : "none")
        /\ moSeen' = moSeen \cup {<<"release_slot_store", "none">>}
  /\ UNCHANGED l

\* at the end of an execution the pending fences of threads that produced no further event are skipped too
SkipFenceAtEnd ==
  /\ l <= Len(Tr) /\ Tr[l].k = "end"
  /\ \E t \in Thr : /\ pc[t] \in {"l_fence", "t_fence"}
                    /\ (LFence(t, LAMBDA site : "none") \/ TFence(t, LAMBDA site : "none"))
                    /\ moSeen' = moSeen \cup {<<ev'.site, "none">>}
  /\ UNCHANGED l

End ==
  /\ l <= Len(Tr) /\ Tr[l].k = "end"
  /\ (Tr[l].status = "ok" => AllDone)
  /\ l' = l + 1
  /\ UNCHANGED <<vars, moSeen>>

Reset ==
  /\ l <= Len(Tr) /\ Tr[l].k = "reset"
  /\ LET c == CfgOf(Tr[l])
     IN /\ cfg' = c /\ ms' = MS0(c) /\ pc' = [t \in 1..Len(c.prog) |-> "idle"] /\ L' = [t \in 1..Len(c.prog) |-> L0]
        /\ G' = G0(c) /\ H' = H0(c) /\ ev' = NoEv
  /\ l' = l + 1
  /\ UNCHANGED moSeen

TNext == (Consume \/ SkipFence \/ SkipReset \/ SkipFenceAtEnd \/ End \/ Reset) /\ Progress /\ (l' > Len(Tr) => TLCSet(2, moSeen'))

TSpec == TInit /\ [][TNext]_tvars

Post == PrintT(<<"VERIF", TLCGet(1) - 1, Len(Tr), TLCGet(2)>>)
DbgStop == l <= Len(Tr)

\* L1 verdicts on the observed execution (same formulas as the model-checked ones)
TNoPrematureReclaim == NoPrematureReclaim
TReaderLeftBeforeReclaim == ReaderLeftBeforeReclaim
TNestingCounts == NestingCounts
TReleasedAccessorNeverHoldsBack == ReleasedAccessorNeverHoldsBack
=============================================================================
