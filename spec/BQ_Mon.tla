------------------------------ MODULE BQ_Mon ------------------------------
(***************************************************************************)
(* L1 specification of the bounded queue as a monitor over the observable  *)
(* events of an execution: call / return of the public operations and the  *)
(* begin / end of the user callbacks (which slot, which values).  It knows *)
(* nothing about tickets, versions or futexes, so it judges the property   *)
(* statements C01 / C02 on executions of ANY implementation of the API,    *)
(* also one that no longer follows the L2 specification BQ.tla.            *)
(*                                                                         *)
(*  C01  NoDupNoInvent, Conservation : multiset out = multiset in          *)
(*       RealTimeFIFO                : order of non-overlapping operations *)
(*       Exclusive, Intact           : callback owns its slots             *)
(*       TryJustified                : try_ comes up short only if it may  *)
(*  C02  NoDeadlock / NoLivelock     : balanced role-pure programs finish  *)
(*       TimedPopBound               : timed pop returns by the deadline   *)
(***************************************************************************)
EXTENDS Naturals, Integers, Sequences, FiniteSets, TLC, Json, IOUtils

Tr == ndJsonDeserialize(IOEnv.TRACE)

VARIABLES l, cap, balanced,
          cur,        \* cur[t]: the operation thread t is executing, or [op |-> ""]
          done, prec, \* finished operations, real-time precedence between operations
          pushedBy, poppedBy,
          inCb,       \* set of [t, lo, hi]: callbacks in progress and the slots they own
          overlap, avail, bad

mvars == <<l, cap, balanced, cur, done, prec, pushedBy, poppedBy, inCb, overlap, avail, bad>>

None == [op |-> "", n |-> 0, id |-> 0]
Thrs == 1..8
IsTry(op) == op \in {"tpu", "tpo", "tpun", "tpon"}
IsPush(op) == op \in {"pu", "tpu", "pun", "tpun", "cpun"}
Producing(role) == role \in {"push", "rpush"}

Fresh(e) ==
  /\ cap' = e.cap /\ balanced' = e.balanced
  /\ cur' = [t \in Thrs |-> None]
  /\ done' = {} /\ prec' = {} /\ pushedBy' = << >> /\ poppedBy' = << >> /\ inCb' = {}
  /\ overlap' = [t \in Thrs |-> FALSE] /\ avail' = [t \in Thrs |-> 0]

MInit ==
  /\ l = 2 /\ Tr[1].k = "reset"
  /\ cap = Tr[1].cap /\ balanced = Tr[1].balanced
  /\ cur = [t \in Thrs |-> None]
  /\ done = {} /\ prec = {} /\ pushedBy = << >> /\ poppedBy = << >> /\ inCb = {}
  /\ overlap = [t \in Thrs |-> FALSE] /\ avail = [t \in Thrs |-> 0]
  /\ bad = ""
  /\ TLCSet(1, 1)

Flag(b, name) == IF b /\ bad = "" THEN name ELSE bad
Active == {t \in Thrs : cur[t].op # ""}
Size == Cardinality(DOMAIN pushedBy) - Cardinality(DOMAIN poppedBy)

MCall(e) ==
  /\ cur' = [cur EXCEPT ![e.t] = [op |-> e.op, n |-> e.n, id |-> l]]
  /\ prec' = prec \cup {<<d, l>> : d \in done}
  /\ overlap' = [t \in Thrs |-> IF t = e.t THEN Active # {} ELSE IF t \in Active THEN TRUE ELSE overlap[t]]
  /\ avail' = [avail EXCEPT ![e.t] = Size]
  /\ bad' = Flag(cur[e.t].op # "", "Protocol")
  /\ UNCHANGED <<cap, balanced, done, pushedBy, poppedBy, inCb>>

TryExpected(t, e) ==
  LET room == IF IsPush(e.op) THEN cap - avail[t] ELSE avail[t]
  IN IF e.op \in {"tpu", "tpo"} THEN (IF room > 0 THEN 1 ELSE 0) ELSE IF room < e.n THEN room ELSE e.n

MRet(e) ==
  /\ cur' = [cur EXCEPT ![e.t] = None]
  /\ done' = done \cup {cur[e.t].id}
  /\ bad' = Flag(IsTry(e.op) /\ ~overlap[e.t] /\ e.res # TryExpected(e.t, e), "TryJustified")
  /\ UNCHANGED <<cap, balanced, prec, pushedBy, poppedBy, inCb, overlap, avail>>

Slots(e) == {(e.i + j) % cap : j \in 0..e.n - 1}

MCbBegin(e) ==
  LET id == cur[e.t].id
      vals == {e.vals[j] : j \in 1..Len(e.vals)}
      clash == \E c \in inCb : c.slots \cap Slots(e) # {}
      dupinv == ~Producing(e.op) /\ \E v \in vals : v \notin DOMAIN pushedBy \/ v \in DOMAIN poppedBy
      repush == Producing(e.op) /\ \E v \in vals : v \in DOMAIN pushedBy
  IN /\ inCb' = inCb \cup {[t |-> e.t, slots |-> Slots(e)]}
     /\ pushedBy' = IF Producing(e.op) THEN [x \in DOMAIN pushedBy \cup vals |-> IF x \in DOMAIN pushedBy THEN pushedBy[x] ELSE id] ELSE pushedBy
     /\ poppedBy' = IF Producing(e.op) THEN poppedBy ELSE [x \in DOMAIN poppedBy \cup vals |-> IF x \in DOMAIN poppedBy THEN poppedBy[x] ELSE id]
     /\ bad' = IF clash THEN Flag(TRUE, "Exclusive") ELSE IF dupinv \/ repush THEN Flag(TRUE, "NoDupNoInvent")
               ELSE Flag(Len(e.vals) # e.n \/ e.n > cap, "Protocol")
     /\ UNCHANGED <<cap, balanced, cur, done, prec, overlap, avail>>

MCbEnd(e) ==
  /\ inCb' = {c \in inCb : c.t # e.t}
  /\ bad' = Flag(~e.intact, "Intact")
  /\ UNCHANGED <<cap, balanced, cur, done, prec, pushedBy, poppedBy, overlap, avail>>

\* quiescent observation: what the driver drained afterwards is exactly what was pushed and not popped
MFinal(e) ==
  LET left == {e.vals[j] : j \in 1..Len(e.vals)}
  IN /\ bad' = Flag(left # (DOMAIN pushedBy) \ (DOMAIN poppedBy) \/ Cardinality(left) # Len(e.vals), "Conservation")
     /\ UNCHANGED <<cap, balanced, cur, done, prec, pushedBy, poppedBy, inCb, overlap, avail>>

\* the timed exclusive pop: back by the deadline (plus scheduling slack), early only with everything asked for
MTimed(e) ==
  /\ bad' = Flag(e.t1 - e.t0 > e.to + e.slack, "TimedPopBound")
  /\ UNCHANGED <<cap, balanced, cur, done, prec, pushedBy, poppedBy, inCb, overlap, avail>>

MEnd(e) ==
  /\ bad' = IF e.status = "deadlock" /\ balanced THEN Flag(TRUE, "NoDeadlock")
            ELSE IF e.status = "budget" /\ balanced THEN Flag(TRUE, "NoLivelock")
            ELSE IF e.status \in {"crash", "hang"} THEN Flag(TRUE, "NoCrash")
            ELSE bad
  /\ UNCHANGED <<cap, balanced, cur, done, prec, pushedBy, poppedBy, inCb, overlap, avail>>

MNext ==
  /\ l <= Len(Tr)
  /\ LET e == Tr[l]
     IN CASE e.k = "reset" -> Fresh(e) /\ bad' = bad
          [] e.k = "call" -> MCall(e)
          [] e.k = "ret" -> MRet(e)
          [] e.k = "cbb" -> MCbBegin(e)
          [] e.k = "cbe" -> MCbEnd(e)
          [] e.k = "final" -> MFinal(e)
          [] e.k = "timed" -> MTimed(e)
          [] e.k = "end" -> MEnd(e)
  /\ l' = l + 1
  /\ TLCSet(1, l')

MSpec == MInit /\ [][MNext]_mvars

RealTimeFIFO ==
  \A a \in DOMAIN poppedBy \cap DOMAIN pushedBy, b \in DOMAIN poppedBy \cap DOMAIN pushedBy :
     ~(<<pushedBy[a], pushedBy[b]>> \in prec /\ <<poppedBy[b], poppedBy[a]>> \in prec)

\* the verdict names the clause:  bad = "" means every clause held so far
Holds == bad = "" /\ RealTimeFIFO

\* which line we are at when something fails is recovered from the counterexample (l)
Post == PrintT(<<"VERIF", TLCGet(1) - 1, Len(Tr), {}>>)
=============================================================================
