----------------------------- MODULE Flow_Trace -----------------------------
(***************************************************************************)
(* Trace validation of the real babylon::anyflow against the L2            *)
(* specification Flow.  Every line of the normalised ndjson trace recorded *)
(* under vsched -- each atomic operation on the dependency / vertex /      *)
(* data / closure words with the value it read, its operands and outcome,  *)
(* and the driver's schedule points -- must be explained by exactly the    *)
(* Flow action the thread's frame stack allows.  The counter protocol      *)
(* (which value each fetch_add / fetch_sub / CAS saw, which path was taken *)
(* next) is thereby checked step by step against the specification.        *)
(* The memory order the running code passed is collected per site in       *)
(* moSeen (-> MO_Flow.tla).  A trace the model cannot explain is           *)
(* SPEC-DRIFT, never a violation.                                          *)
(***************************************************************************)
EXTENDS Flow, Json, IOUtils

Tr == ndJsonDeserialize(IOEnv.TRACE)

VARIABLES l,       \* next line to explain
          moSeen   \* set of <<site, order>> observed

tvars == <<vars, l, moSeen>>

CfgOf(e) == [g |-> e.g, x |-> e.x, cycles |-> e.cycles]

TInit ==
  /\ l = 2
  /\ moSeen = {}
  /\ Tr[1].k = "reset"
  /\ InitFor(CfgOf(Tr[1]))
  /\ TLCSet(1, 1)
  /\ TLCSet(2, {})

Progress == TLCSet(1, IF TLCGet(1) < l' THEN l' ELSE TLCGet(1))

Matches(m, e) ==
  /\ m.t = e.t /\ m.k = e.k
  /\ CASE e.k \in {"load", "store"} -> m.loc = e.loc /\ m.i = e.i /\ m.j = e.j /\ m.v = e.v
       [] e.k \in {"faa", "xchg"} -> m.loc = e.loc /\ m.i = e.i /\ m.j = e.j /\ m.v = e.v /\ m.a = e.a
       [] e.k = "cas" -> m.loc = e.loc /\ m.i = e.i /\ m.j = e.j /\ m.v = e.v /\ m.a = e.a /\ m.b = e.b /\ m.ok = e.ok
       [] e.k \in {"run", "vbegin", "vend"} -> m.v = e.v
       [] e.k = "fin" -> m.a = e.a
       [] e.k \in {"waitret", "greset", "pt"} -> TRUE
       [] OTHER -> FALSE

Consume ==
  /\ l <= Len(Tr)
  /\ LET e == Tr[l]
     IN /\ e.k \notin {"reset", "end"}
        /\ Step(e.t, LAMBDA site : e.mo)
        /\ Matches(ev', e)
        /\ moSeen' = IF ev'.site # "" THEN moSeen \cup {<<ev'.site, ev'.mo>>} ELSE moSeen
  /\ l' = l + 1

End ==
  /\ l <= Len(Tr) /\ Tr[l].k = "end"
  /\ l' = l + 1
  /\ UNCHANGED <<vars, moSeen>>

Reset ==
  /\ l <= Len(Tr) /\ Tr[l].k = "reset"
  /\ LET c == CfgOf(Tr[l])
     IN /\ cfg' = c /\ mem' = Mem0 /\ sh' = Sh0(c) /\ pool' = {} /\ H' = H0 /\ ev' = NoEv
        /\ st' = [t \in 0..(1 + c.x) |-> IF t = 0 THEN << [F0 EXCEPT !.pc = "m_run"] >> ELSE <<>>]
  /\ l' = l + 1
  /\ UNCHANGED moSeen

TNext == (Consume \/ End \/ Reset) /\ Progress /\ (l' > Len(Tr) => TLCSet(2, moSeen'))

TSpec == TInit /\ [][TNext]_tvars

\* reported at the end:  <<"VERIF", lines explained, lines, site/order pairs>>
Post == PrintT(<<"VERIF", TLCGet(1) - 1, Len(Tr), TLCGet(2)>>)

\* debugging aid: violated exactly when the whole trace was explained
DbgStop == l <= Len(Tr)
=============================================================================
