---------------------------- MODULE Counters_Mon ----------------------------
(***************************************************************************)
(* L1 monitor for the concurrent-read clause of C19.  It consumes only the *)
(* call / return events of count(v) and value() recorded while counting    *)
(* threads and a reading thread run against ONE real counter under vsched  *)
(* (it knows nothing about slots, caches or ids).                          *)
(*                                                                         *)
(*  ConcurrentReadBounds : a value() overlapping counts returns the exact  *)
(*     aggregate of, per thread, some prefix of that thread's counts that  *)
(*     contains every count completed before the read began and nothing    *)
(*     that started after the read returned                                *)
(*  (also when another counter of the same type is being DESTROYED while   *)
(*  this one is constructed, counted into and read: scenario "dtor")       *)
(*  NewCounterStartsAtZero : a counter constructed at quiescence reads 0   *)
(*  QuiescentExact / ExtremeOfCurrentPeriod : the read after all threads   *)
(*     were joined (including the thread that exited before the others     *)
(*     started, whose slot a later thread re-uses) is exact                *)
(***************************************************************************)
EXTENDS Integers, Sequences, FiniteSets, TLC, Json, IOUtils

Tr == ndJsonDeserialize(IOEnv.TRACE)

VARIABLES l, kind,
          seqs,   \* seqs[t]: values whose count() call by t has begun, in order
          done,   \* done[t]: how many of them have returned
          rlo,    \* rlo[t]: `done` when reader t's value() call began
          prevp,  \* values recorded in earlier periods (before the last reset())
          bad

mvars == <<l, kind, seqs, done, rlo, prevp, bad>>
Thrs == 0..9
Zero == [t \in Thrs |-> 0]

IsCmp == kind \in {"maxer", "miner"}
Better(x, y) == IF kind = "maxer" THEN x > y ELSE x < y
BestOf(P) == CHOOSE x \in P : \A y \in P : ~Better(y, x)
RECURSIVE SeqSum(_)
SeqSum(q) == IF q = <<>> THEN 0 ELSE Head(q) + SeqSum(Tail(q))
RECURSIVE SumFn(_, _)
SumFn(f, S) == IF S = {} THEN 0 ELSE LET x == CHOOSE y \in S : TRUE IN f[x] + SumFn(f, S \ {x})
Max0(S) == IF S = {} THEN 0 ELSE CHOOSE x \in S : \A y \in S : y <= x

ReadBoundsOK(Q, lo, hi, R) ==
  LET T == {t \in Thrs : hi[t] > 0}
  IN \E k \in [T -> 0..Max0({hi[t] : t \in T})] :
       /\ \A t \in T : lo[t] <= k[t] /\ k[t] <= hi[t]
       /\ IF IsCmp
          THEN LET P == UNION {{Q[t][j] : j \in 1..k[t]} : t \in T}
               IN IF R.form = 1 THEN R.v0 = (IF P = {} THEN 0 ELSE BestOf(P))      \* the argument-less value()
                  ELSE IF P = {} THEN ~R.has ELSE R.has /\ R.r1 = BestOf(P)        \* value(x)
          ELSE /\ R.r1 = SumFn([t \in T |-> SeqSum(SubSeq(Q[t], 1, k[t]))], T)
               /\ (kind = "summer" => R.r2 = SumFn(k, T))

\* witness class of a defect of the pinned commit: while the FIRST count of a thread in the current period is in
\* progress (two plain stores: version, value), a maxer / miner read returns a value nobody recorded in this period
\* (the slot's value of an earlier period, or its never-written initial content)
TornFirstCount(R) ==
  /\ IsCmp /\ R.form = 0 /\ R.has
  /\ R.r1 \notin UNION {{seqs[t][j] : j \in 1..Len(seqs[t])} : t \in Thrs}
  /\ \E t \in Thrs : Len(seqs[t]) = 1 /\ done[t] = 0

MInit ==
  /\ l = 2 /\ Tr[1].k = "reset" /\ kind = Tr[1].kind
  /\ seqs = [t \in Thrs |-> <<>>] /\ done = Zero /\ rlo = [t \in Thrs |-> Zero] /\ prevp = {}
  /\ bad = {}
  /\ TLCSet(1, 1) /\ TLCSet(2, {})

Tag == "L" \o ToString(l)
Flag(name, holds) == IF holds THEN bad ELSE bad \cup {<<name, Tag>>}
Hi == [t \in Thrs |-> Len(seqs[t])]
Obs(e) == [r1 |-> e.r1, r2 |-> e.r2, has |-> e.has, v0 |-> e.v0, form |-> e.form]

MNext ==
  /\ l <= Len(Tr)
  /\ LET e == Tr[l]
     IN CASE e.k = "reset" ->
               /\ kind' = e.kind /\ seqs' = [t \in Thrs |-> <<>>] /\ done' = Zero /\ rlo' = [t \in Thrs |-> Zero] /\ prevp' = {} /\ bad' = bad
          [] e.k = "creset" ->    \* reset() at a quiescent point: a new period
               /\ prevp' = prevp \cup UNION {{seqs[t][j] : j \in 1..Len(seqs[t])} : t \in Thrs}
               /\ seqs' = [t \in Thrs |-> <<>>] /\ done' = Zero /\ UNCHANGED <<kind, rlo, bad>>
          [] e.k = "call" /\ e.op = "count" ->
               /\ seqs' = [seqs EXCEPT ![e.t] = Append(@, e.v)] /\ UNCHANGED <<kind, done, rlo, prevp, bad>>
          [] e.k = "ret" /\ e.op = "count" ->
               /\ done' = [done EXCEPT ![e.t] = @ + 1] /\ UNCHANGED <<kind, seqs, rlo, prevp, bad>>
          [] e.k = "call" /\ e.op = "value" ->
               /\ rlo' = [rlo EXCEPT ![e.t] = done] /\ UNCHANGED <<kind, seqs, done, prevp, bad>>
          [] e.k = "ret" /\ e.op = "value" ->
               /\ bad' = Flag(IF TornFirstCount(Obs(e)) THEN "ConcurrentReadBounds_TornFirstCountOfPeriod"
                            ELSE IF \A t \in Thrs : Len(seqs[t]) = 0 THEN "NewCounterStartsAtZero"    \* nothing counted yet
                            ELSE "ConcurrentReadBounds",
                            ReadBoundsOK(seqs, rlo[e.t], Hi, Obs(e)))
               /\ UNCHANGED <<kind, seqs, done, rlo, prevp>>
          [] e.k = "final" ->
               /\ bad' = Flag(IF IsCmp THEN "ExtremeOfCurrentPeriod" ELSE "QuiescentExact", ReadBoundsOK(seqs, Hi, Hi, Obs(e)))
               /\ UNCHANGED <<kind, seqs, done, rlo, prevp>>
          [] e.k = "fresh" ->    \* a counter constructed at quiescence, read at once
               /\ bad' = Flag("NewCounterStartsAtZero", e.r1 = 0 /\ e.r2 = 0 /\ (IsCmp => ~e.has))
               /\ UNCHANGED <<kind, seqs, done, rlo, prevp>>
          [] e.k = "end" ->
               /\ bad' = Flag("NoCrash", e.status = "ok")
               /\ UNCHANGED <<kind, seqs, done, rlo, prevp>>
  /\ l' = l + 1
  /\ TLCSet(1, l')
  /\ (l' > Len(Tr) => TLCSet(2, bad'))

MSpec == MInit /\ [][MNext]_mvars
Post == PrintT(<<"VERIF", TLCGet(1) - 1, Len(Tr), TLCGet(2)>>)
=============================================================================
