----------------------------- MODULE Fut_Trace -----------------------------
(***************************************************************************)
(* Trace validation of the real Future / Promise / CountDownLatch against  *)
(* the L2 specification Fut.  Every line of the (normalised) ndjson trace  *)
(* recorded under vsched must be explained by exactly the Fut action the   *)
(* thread's pc allows, with the same location, operands, value read,       *)
(* outcome, callback identity and virtual-clock reading.  The memory order *)
(* of each step is the one the running code passed (mo / mof of the line): *)
(* the happens-before views evolve with the code's real orders, the L1     *)
(* clauses are evaluated on every state of the trace, and the <<site,      *)
(* order>> pairs seen are collected (MO_Fut.tla is regenerated from them). *)
(***************************************************************************)
EXTENDS Fut, Json, IOUtils

Tr == ndJsonDeserialize(IOEnv.TRACE)

VARIABLES l,       \* next line to explain
          moSeen   \* set of <<site, order>> observed

tvars == <<vars, l, moSeen>>

CfgOf(e) == [mode |-> e.mode, count |-> e.count, spur |-> TRUE, spw |-> 1000, slack |-> 1, fx0 |-> IF "fx0" \in DOMAIN e THEN e.fx0 ELSE 0, prog |-> e.prog]

TInit ==
  /\ l = 2
  /\ moSeen = {}
  /\ Tr[1].k = "reset"
  /\ InitFor(CfgOf(Tr[1]))
  /\ TLCSet(1, 1)
  /\ TLCSet(2, {})

Progress == TLCSet(1, IF TLCGet(1) < l' THEN l' ELSE TLCGet(1))

Matches(m, e) ==
  /\ m.t = e.t /\ m.k = e.k
  /\ CASE e.k = "load" -> m.loc = e.loc /\ m.v = e.v
       [] e.k \in {"faa", "xchg", "for"} -> m.loc = e.loc /\ m.v = e.v /\ m.a = e.a
       [] e.k = "cas" -> m.loc = e.loc /\ m.v = e.v /\ m.a = e.a /\ m.b = e.b /\ m.ok = e.ok
       [] e.k = "fwait" -> m.loc = e.loc /\ m.a = e.a /\ m.v = e.v /\ m.ok = e.ok
       [] e.k = "fret" -> m.loc = e.loc /\ m.ok = e.ok
       [] e.k = "fwake" -> m.loc = e.loc /\ m.v = e.v
       [] e.k = "clock" -> m.v = e.now
       [] e.k = "sleep" -> m.n = e.n
       [] e.k = "call" -> m.op = e.op /\ m.n = e.n /\ m.id = e.id
       [] e.k = "ret" -> m.op = e.op /\ m.res = e.res /\ m.id = e.id
       [] e.k \in {"vw", "vr"} -> m.v = e.v
       [] e.k = "cbb" -> m.id = e.id /\ m.v = e.v
       [] e.k = "cbe" -> m.id = e.id
       [] OTHER -> FALSE

Consume ==
  /\ l <= Len(Tr)
  /\ LET e == Tr[l]
     IN /\ e.k \notin {"reset", "end", "final", "tick", "spur"}
        /\ Step(e.t, LAMBDA site : IF site = "of_head_cas_fail" THEN e.mof ELSE e.mo)
        /\ Matches(ev', e)
        /\ moSeen' = IF ev'.site # "" THEN moSeen \cup {<<ev'.site, ev'.mo>>} ELSE moSeen
  /\ l' = l + 1

\* a virtual timer fired: the clock jumps to the logged time (never before the deadline)
Tick ==
  /\ l <= Len(Tr) /\ Tr[l].k = "tick"
  /\ Fire(Tr[l].t, Tr[l].now)
  /\ l' = l + 1
  /\ UNCHANGED moSeen

\* a futex_wait is about to return without a wake, at the logged virtual time
Spurious ==
  /\ l <= Len(Tr) /\ Tr[l].k = "spur"
  /\ Spur(Tr[l].t, Tr[l].now)
  /\ l' = l + 1
  /\ UNCHANGED moSeen

\* the latch stores a plain size_t: its construction is not visible in the trace
Silent ==
  /\ l <= Len(Tr)
  /\ Tr[l].k \notin {"reset", "end", "final", "tick", "spur"}
  /\ IsLatch
  /\ SvCons(Tr[l].t)
  /\ UNCHANGED <<l, moSeen>>

\* quiescent observation by the driver
Final ==
  /\ l <= Len(Tr) /\ Tr[l].k = "final"
  /\ Tr[l].ready = (IF Sealed THEN 1 ELSE 0)
  /\ Tr[l].v = Observed
  /\ l' = l + 1
  /\ UNCHANGED <<vars, moSeen>>

Stuck == \A t \in Thr : Finished(t) \/ (pc[t] = "w_blocked" /\ ~L[t].timed)

End ==
  /\ l <= Len(Tr) /\ Tr[l].k = "end"
  /\ (Tr[l].status = "ok" => AllDone)
  /\ (Tr[l].status = "deadlock" => Stuck)
  /\ l' = l + 1
  /\ UNCHANGED <<vars, moSeen>>

Reset ==
  /\ l <= Len(Tr) /\ Tr[l].k = "reset"
  /\ LET c == CfgOf(Tr[l])
     IN /\ cfg' = c /\ ms' = MS0(c) /\ pc' = PC0(c) /\ L' = LL0(c) /\ H' = H0(c) /\ nx' = << >> /\ now' = 0 /\ ev' = NoEv
  /\ l' = l + 1
  /\ UNCHANGED moSeen

TNext == (Consume \/ Tick \/ Spurious \/ Silent \/ Final \/ End \/ Reset) /\ Progress /\ (l' > Len(Tr) => TLCSet(2, moSeen'))

TSpec == TInit /\ [][TNext]_tvars

\* reported at the end:  <<"VERIF", lines explained, lines, site/order pairs>>
Post == PrintT(<<"VERIF", TLCGet(1) - 1, Len(Tr), TLCGet(2)>>)

\* debugging aid: violated exactly when the whole (truncated) trace was explained
DbgStop == l <= Len(Tr)

\* L1 verdicts on the observed execution (same formulas as the model-checked ones)
TCallbackExactlyOnce == CallbackExactlyOnce
TCallbackAfterValue == CallbackAfterValue
TNoDataRace == NoDataRace
TGetReturnsValue == GetReturnsValue
TWaitForTrue == WaitForTrue
TWaitForFalse == WaitForFalse
TAfterSet == AfterSet
TReadyOnlyIfSet == ReadyOnlyIfSet
TSetOnce == SetOnce
TNoLostWakeup == NoLostWakeup
TLatchReadyIffZero == LatchReadyIffZero
=============================================================================
