----------------------------- MODULE MC_Swiss -----------------------------
(* Model-checking instance of Swiss: memory orders from the table MO_Swiss (regenerated from the   *)
(* running code by the conformance step), configuration families as constants.  A configuration   *)
(* fixes the container kind, the initial head (0 = default-constructed placeholder), the (hash    *)
(* base, 7-bit tag) of every key, the pre-filled slots of the initially linked tables and the     *)
(* client program of every thread.                                                                *)
EXTENDS Swiss, MO_Swiss

MOf(site) == MO[site]

K(h, tag) == [h |-> h, tag |-> tag]
O(op, k) == [op |-> op, k |-> k]
C(kind, head, keys, pre, prog) == [kind |-> kind, head |-> head, keys |-> keys, pre |-> pre, prog |-> prog]
Rep(n, v) == [j \in 1..n |-> v]
E == -1

\* ---- fixed table, 16 buckets: 15 taken, the last bucket is fought for ("fills up exactly while another thread probes")
\* keys 1, 2: same group, same tag (9) as two of the fillers -> key comparisons against foreign elements
Pre15 == << Rep(13, 7) \o <<9, 9, E>> >>
Cfg_fix16 ==
  { C("fixed", 16, <<K(3, 9), K(5, 9)>>, Pre15, << <<O("e", 1)>>, <<O("e", 2)>>, <<O("f", 1)>> >>),
    C("fixed", 16, <<K(3, 9), K(5, 9)>>, Pre15, << <<O("e", 1), O("f", 2)>>, <<O("i", 2), O("c", 1)>> >>),
    C("fixed", 16, <<K(3, 9)>>, Pre15, << <<O("e", 1)>>, <<O("i", 1)>>, <<O("f", 1)>> >>),
    \* 14 taken: two free buckets, three inserters of two keys
    C("fixed", 16, <<K(3, 9), K(3, 9)>>, << Rep(14, 7) >>, << <<O("e", 1)>>, <<O("e", 2)>>, <<O("e", 1)>> >>),
    \* wrapped window: base 10, buckets 10..15 taken -> the key lands in bucket 0 and is seen through the mirror byte 16
    C("fixed", 16, <<K(10, 9)>>, << Rep(10, E) \o Rep(6, 7) >>, << <<O("e", 1)>>, <<O("e", 1)>>, <<O("f", 1)>> >>),
    C("fixed", 16, <<K(10, 9), K(12, 9)>>, << Rep(10, E) \o Rep(6, 9) >>, << <<O("e", 1), O("f", 2)>>, <<O("e", 2), O("f", 1)>> >>),
    \* default-constructed fixed table: always full, always empty
    C("fixed", 0, <<K(3, 9)>>, << >>, << <<O("e", 1)>>, <<O("f", 1)>> >>) }

\* ---- fixed table, 32 buckets: first group full, the key goes to the second group (triangular step), last bucket of it free
Cfg_fix32 ==
  { C("fixed", 32, <<K(0, 9), K(16, 9)>>, << Rep(14, 7) \o <<9, 9>> \o Rep(15, 7) \o <<E>> >>, << <<O("e", 1)>>, <<O("e", 2)>>, <<O("f", 1)>> >>),
    C("fixed", 32, <<K(0, 9)>>, << Rep(16, 7) \o Rep(14, E) \o <<9, 9>> >>, << <<O("e", 1)>>, <<O("e", 1)>>, <<O("f", 1)>> >>),
    \* window 20..35 wraps into the mirror of buckets 0..3
    C("fixed", 32, <<K(20, 9)>>, << Rep(20, E) \o Rep(12, 7) >>, << <<O("e", 1)>>, <<O("i", 1), O("f", 1)>> >>),
    \* lookup of a pre-filled key of the second group while the first group fills up
    C("fixed", 32, <<K(0, 9)>>, << Rep(15, 7) \o <<E>> \o <<9>> >>, << <<O("e", 1)>>, <<O("f", 116)>>, <<O("e", 116)>> >>) }

\* ---- growing set: head full -> CAS-append a doubled table, losers delete their node
Full16 == Rep(16, 7)
Cfg_grow ==
  { C("set", 16, <<K(3, 9)>>, << Full16 >>, << <<O("e", 1)>>, <<O("e", 1)>>, <<O("f", 1)>> >>),
    C("set", 16, <<K(3, 9), K(35, 9)>>, << Full16 >>, << <<O("e", 1)>>, <<O("i", 2)>>, <<O("e", 1)>> >>),
    C("set", 16, <<K(3, 9), K(3, 9)>>, << Rep(15, 7) \o <<E>> >>, << <<O("e", 1), O("f", 2)>>, <<O("e", 2), O("f", 1)>> >>),
    \* default-constructed placeholder head
    C("set", 0, <<K(3, 9)>>, << >>, << <<O("e", 1)>>, <<O("e", 1)>>, <<O("f", 1)>> >>),
    C("map", 0, <<K(3, 9), K(3, 9)>>, << >>, << <<O("x", 1)>>, <<O("t", 2), O("f", 1)>> >>),
    \* head 32
    C("set", 32, <<K(0, 9)>>, << Rep(32, 7) >>, << <<O("e", 1)>>, <<O("e", 1)>>, <<O("c", 1)>> >>) }

\* ---- chain of three tables: head and second table full, the third is created concurrently
Cfg_chain3 ==
  { C("set", 16, <<K(3, 9)>>, << Full16, Rep(32, 7) >>, << <<O("e", 1)>>, <<O("e", 1)>>, <<O("f", 1)>> >>),
    C("set", 0, <<K(3, 9), K(40, 9)>>, << <<>>, Rep(31, 7) \o <<E>> >>, << <<O("e", 1)>>, <<O("e", 2)>>, <<O("f", 2)>> >>) }

\* ---- weak memory (Stale = TRUE): publication of tag / mirror / table node, two threads (+ one tiny 3-thread)
Cfg_wm ==
  { C("fixed", 16, <<K(3, 9)>>, << Rep(14, 7) \o <<9>> >>, << <<O("e", 1)>>, <<O("f", 1)>> >>),
    C("fixed", 16, <<K(3, 9)>>, << Rep(14, 7) \o <<9>> >>, << <<O("e", 1)>>, <<O("e", 1)>> >>),
    C("fixed", 16, <<K(10, 9)>>, << Rep(10, E) \o Rep(6, 7) >>, << <<O("e", 1)>>, <<O("i", 1)>> >>),
    C("set", 16, <<K(3, 9)>>, << Full16 >>, << <<O("e", 1)>>, <<O("f", 1)>> >>),
    C("set", 16, <<K(3, 9)>>, << Full16 >>, << <<O("e", 1)>>, <<O("e", 1)>> >>),
    C("set", 0, <<K(3, 9), K(3, 9)>>, << >>, << <<O("e", 1)>>, <<O("e", 2)>> >>) }
Cfg_wm3 ==
  { C("set", 16, <<K(3, 9)>>, << Full16 >>, << <<O("e", 1)>>, <<O("e", 1)>>, <<O("f", 1)>> >>),
    C("fixed", 16, <<K(3, 9)>>, << Rep(14, 7) \o <<9>> >>, << <<O("e", 1)>>, <<O("e", 1)>>, <<O("f", 1)>> >>) }

\* ---- termination under weak fairness (spinning losers wait for the winner's publication)
Cfg_live ==
  { C("fixed", 16, <<K(10, 9)>>, << Rep(10, E) \o Rep(6, 7) >>, << <<O("e", 1)>>, <<O("e", 1)>> >>),
    C("set", 16, <<K(3, 9)>>, << Full16 >>, << <<O("e", 1)>>, <<O("e", 1)>> >>) }

\* quick tier: exact fill with equal tags, wrapped window (mirror byte), concurrent append, placeholder head
Cfg_quick ==
  { C("fixed", 16, <<K(3, 9), K(5, 9)>>, Pre15, << <<O("e", 1)>>, <<O("e", 2)>>, <<O("f", 1)>> >>),
    C("fixed", 16, <<K(10, 9)>>, << Rep(10, E) \o Rep(6, 7) >>, << <<O("e", 1)>>, <<O("i", 1)>>, <<O("f", 1)>> >>),
    C("set", 16, <<K(3, 9)>>, << Full16 >>, << <<O("e", 1)>>, <<O("e", 1)>>, <<O("f", 1)>> >>),
    C("set", 0, <<K(3, 9), K(3, 9)>>, << >>, << <<O("e", 1)>>, <<O("e", 2), O("f", 1)>> >>) }
Cfg_sim == Cfg_fix16 \cup Cfg_fix32 \cup Cfg_grow \cup Cfg_chain3

Next == \/ \E t \in Thr : Step(t, MOf)
        \/ (AllDone /\ UNCHANGED vars)
Spec == Init /\ [][Next]_vars
FairSpec == Spec /\ \A t \in 1..3 : WF_vars(t \in Thr /\ Step(t, MOf))

\* Behaviours vsched can realise exactly (used to generate behaviours that are replayed into the real code).
\* Without hook H-1 the SIMD group load has no schedule point of its own: it executes right after the previous
\* step of its thread (eager).  With the hook the load is a point that is released together with the thread's
\* next step (lazy).  new TableNode / delete of the losing node are always eager.
EagerPcs == {"gload", "new_node", "del_loser"}
EagerNext == \E t \in Thr : Step(t, MOf) /\ (\A u \in Thr : pc[u] \in EagerPcs => u = t)
SpecEager == Init /\ [][EagerNext \/ (AllDone /\ UNCHANGED vars)]_vars
LazyNext == \E t \in Thr : /\ Step(t, MOf)
                            /\ (\A u \in Thr : pc[u] \in {"new_node", "del_loser"} => u = t)
                            /\ (ev.k = "gl" => ev.t = t)
SpecLazy == Init /\ [][LazyNext \/ (AllDone /\ UNCHANGED vars)]_vars

\* hide the ghost event from the state identity
View == <<cfg, ms, pc, L, G, H>>

Termination == <>[]AllDone
=============================================================================
