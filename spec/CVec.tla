------------------------------- MODULE CVec -------------------------------
(***************************************************************************)
(* L2 (implementation-shaped) specification of babylon::ConcurrentVector   *)
(* and internal::concurrent_vector::RetireList                             *)
(* (src/babylon/concurrent/vector.h, vector.hpp).                          *)
(*                                                                         *)
(* ONE ACTION PER ATOMIC OPERATION / CLOCK READ / ALLOCATOR CALL of the    *)
(* code; the memory order of every atomic site comes from M(site): the     *)
(* table MO_CVec when model checking, the order logged by the running code *)
(* when validating traces.  Memory is WeakMem.tla (Stale = FALSE: plain    *)
(* interleaving, happens-before still tracked, so NoDataRace is meaningful *)
(* in both modes).                                                         *)
(*                                                                         *)
(* Heap.  hp.obj maps the identity of everything obtained from the aligned *)
(* operator new (100 * allocating thread + its k-th allocation, so that    *)
(* identities do not depend on the interleaving; the trace normaliser      *)
(* numbers the recorded allocations the same way) to: block tables         *)
(*   [kind |-> "tb", st, size, blocks]  (immutable once published) and     *)
(* blocks [kind |-> "blk", ...].  Table 0 is the static EMPTY_BLOCK_TABLE. *)
(* hp.node maps RetireList nodes (10 * thread + k) to [data, next, st].    *)
(* An element is <<block, offset>>.                                        *)
(*                                                                         *)
(* Time.  `now` counts ticks, TPU ticks per 64 s unit (2 when model        *)
(* checking: the smallest resolution that separates "one unit boundary     *)
(* crossed" from "64 s elapsed"; 64, i.e. seconds, when validating         *)
(* traces).  The stamp stored in the head is (now \div TPU) % SMOD         *)
(* (SMOD = 65536 in the code; a small power of two when model checking so  *)
(* that wrap is reached).  Tick may fire between any two steps.            *)
(*                                                                         *)
(* Programs.  cfg.prog[t] is the sequence of public operations of thread t *)
(*   e n  ensure(n)      r n  reserve(n)     f n  for_each(0, n)           *)
(*   x n  operator[](n)  s    snapshot()     u n  held snapshot[n]         *)
(*   g    gc()           w    sleep (traces only)                          *)
(* thread 0 runs the destructor when everybody is done.                    *)
(*                                                                         *)
(* The L1 clauses of property C04 are stated over the history H at the end *)
(* of the module.                                                          *)
(***************************************************************************)
EXTENDS Naturals, Integers, Sequences, FiniteSets, TLC, WeakMem

CONSTANTS Stale,    \* BOOLEAN: loads may read non-latest messages
          Configs,  \* set of initial configurations [bs, t0, prog]
          TPU,      \* ticks per time unit (64 s)
          SMOD,     \* modulus of the stamp
          MaxNow,   \* Tick is disabled from this value of `now` on (model checking bound)
          Fix       \* BOOLEAN: code variant in which retire() reads the clock again before every CAS of its
                    \* loop (the repair proposed in findings/C04_stale_retire_stamp.md); FALSE = pinned commit

VARIABLES cfg, ms, pc, L, hp, now, H, ev
vars == <<cfg, ms, pc, L, hp, now, H, ev>>

BS == cfg.bs
NT == Len(cfg.prog)
Thr == 1..NT
AllThr == 0..NT

BT == <<"bt", 0>>
HEAD == <<"head", 0>>
TabCell(tb) == <<"tab", tb>>
ElCell(a) == <<"el", a[1] * 64 + a[2]>>
NodeCell(n) == <<"node", n>>

Stamp(tm) == (tm \div TPU) % SMOD
HeadVal(ts, n) == ts * 1000 + n
HTs(h) == h \div 1000
HNode(h) == h % 1000
Expire(h, ts) == ((ts - HTs(h)) + SMOD) % SMOD > 1

NoEv == [t |-> 0, k |-> "", site |-> "", mo |-> "", loc |-> "", v |-> 0, a |-> 0, b |-> 0, ok |-> TRUE,
         op |-> "", n |-> 0, id |-> 0, off |-> 0, cnt |-> 0]

L0 == [opi |-> 1, expect |-> 0, tb |-> 0, ntb |-> 0, bnum |-> 0, i |-> 0, node |-> 0, head |-> 0, ts |-> 0,
       cur |-> 0, dlret |-> "", held |-> -1, rtb |-> 0]

H0 == [ctor |-> << >>, dtor |-> << >>, ret |-> {}, supAt |-> << >>, early |-> {}, stalled |-> FALSE,
       bad |-> "", dead |-> FALSE]

HP0 == [obj |-> << >>, node |-> << >>]

MS0(c) == WMInit(0..Len(c.prog), [x \in {BT, HEAD} |-> 0])

InitFor(c) ==
  /\ cfg = c
  /\ ms = MS0(c)
  /\ pc = [t \in 0..Len(c.prog) |-> "idle"]
  /\ L = [t \in 0..Len(c.prog) |-> L0]
  /\ hp = HP0
  /\ now = c.t0
  /\ H = H0
  /\ ev = NoEv

Init == \E c \in Configs : InitFor(c)

KeepAll == Stale

Op(t) == cfg.prog[t][L[t].opi]
Goto(t, p) == pc' = [pc EXCEPT ![t] = p]
SetL(t, l) == L' = [L EXCEPT ![t] = l]
Flag(h, b, name) == IF b /\ h.bad = "" THEN [h EXCEPT !.bad = name] ELSE h
Get(f, x) == IF x \in DOMAIN f THEN f[x] ELSE 0
Put(f, x, v) == [y \in DOMAIN f \cup {x} |-> IF y = x THEN v ELSE f[y]]

(***************************************************************************)
(* heap helpers                                                            *)
(***************************************************************************)
TSize(tb) == IF tb = 0 THEN 0 ELSE hp.obj[tb].size
TBlocks(tb) == IF tb = 0 THEN << >> ELSE hp.obj[tb].blocks
ObjLive(o) == o \in DOMAIN hp.obj /\ hp.obj[o].st = "live"
NewObj(t) == t * 100 + Cardinality({o \in DOMAIN hp.obj : o \div 100 = t}) + 1
NewNode(t) == t * 10 + Cardinality({n \in DOMAIN hp.node : n \div 10 = t}) + 1
Addrs(b) == {<<b, o>> : o \in 0..BS - 1}
\* element designated by index n through table tb
AddrOf(tb, n) == <<TBlocks(tb)[(n \div BS) + 1], n % BS>>
ElemAlive(h, a) == Get(h.ctor, a) = 1 /\ Get(h.dtor, a) = 0 /\ ObjLive(a[1])

\* thread t reads the content of table tb (size, block pointers): a non-atomic read of memory the
\* creator of the table wrote before publishing it.  Reading a table that was freed less than one
\* cooling period after it was superseded is the use-after-free the property excludes.
TouchMs(m, t, tb) == IF tb = 0 THEN m ELSE NaReadEff(m, t, TabCell(tb))
TouchBad(h, tb) ==
  Flag(h, tb # 0 /\ hp.obj[tb].st = "freed" /\ tb \in DOMAIN h.supAt /\ now < h.supAt[tb] + TPU, "NoUseAfterFree")

\* constructor / destructor calls of the elements of block b by thread t
RECURSIVE NaWriteAll(_, _, _)
NaWriteAll(m, t, cells) ==
  IF cells = {} THEN m
  ELSE LET c == CHOOSE x \in cells : TRUE IN NaWriteAll(NaWriteEff(m, t, c, AllThr), t, cells \ {c})
CtorAll(h, b) == [h EXCEPT !.ctor = [a \in DOMAIN h.ctor \cup Addrs(b) |-> Get(h.ctor, a) + (IF a \in Addrs(b) THEN 1 ELSE 0)]]
DtorAll(h, b) == [h EXCEPT !.dtor = [a \in DOMAIN h.dtor \cup Addrs(b) |-> Get(h.dtor, a) + (IF a \in Addrs(b) THEN 1 ELSE 0)]]

FreeObj(o) == [hp EXCEPT !.obj[o].st = "freed"]

(***************************************************************************)
(* memory access helpers (pure)                                            *)
(***************************************************************************)
LoadMs(m, t, x, i, mo) == ScAfter(LoadEff(ScBefore(m, t, mo), t, x, i, mo), t, mo)
RmwMs(m, t, x, v, mo) == ScAfter(RmwEff(ScBefore(m, t, mo), t, x, v, mo, KeepAll), t, mo)
AtomEv(t, k, site, mo, x, v, a, b, ok) ==
  [NoEv EXCEPT !.t = t, !.k = k, !.site = site, !.mo = mo, !.loc = x[1], !.v = v, !.a = a, !.b = b, !.ok = ok]

(***************************************************************************)
(* call / return of the public operations                                  *)
(***************************************************************************)
FirstPc(o) ==
  CASE o.op \in {"e", "r", "f"} -> "g_load"
    [] o.op \in {"x", "s"} -> "x_load"
    [] o.op = "u" -> "ret"
    [] o.op = "g" -> "c_load"

ExpectOf(o) == IF o.op = "e" THEN (o.n \div BS) + 1 ELSE (o.n + BS - 1) \div BS

Call(t) ==
  /\ t \in Thr /\ pc[t] = "idle" /\ L[t].opi <= Len(cfg.prog[t])
  /\ Op(t).op # "w"
  /\ Goto(t, FirstPc(Op(t)))
  /\ SetL(t, [L[t] EXCEPT !.expect = IF Op(t).op \in {"e", "r", "f"} THEN ExpectOf(Op(t)) ELSE 0])
  /\ ev' = [NoEv EXCEPT !.t = t, !.k = "call", !.op = Op(t).op, !.n = Op(t).n]
  /\ UNCHANGED <<cfg, ms, hp, now, H>>

Sleep(t) ==
  /\ t \in Thr /\ pc[t] = "idle" /\ L[t].opi <= Len(cfg.prog[t])
  /\ Op(t).op = "w"
  /\ SetL(t, [L[t] EXCEPT !.opi = @ + 1])
  /\ ev' = [NoEv EXCEPT !.t = t, !.k = "sleep"]
  /\ UNCHANGED <<cfg, ms, pc, hp, now, H>>

\* return: the caller is handed an element (e, x, u) or a table (s) and looks at it
Ret(t) ==
  /\ t \in Thr /\ pc[t] = "ret"
  /\ LET o == Op(t)
         tb == IF o.op = "u" THEN L[t].held ELSE L[t].rtb
         elem == o.op \in {"e", "x"} \/ (o.op = "u" /\ tb >= 0 /\ o.n < TSize(tb) * BS)
         touches == o.op \in {"e", "x", "s", "f"} \/ (o.op = "u" /\ tb >= 0)
         gone == o.op = "u" /\ tb > 0 /\ hp.obj[tb].st = "freed"
         a == IF elem THEN AddrOf(tb, o.n) ELSE <<0, 0>>
         m1 == IF touches /\ ~gone THEN TouchMs(ms, t, tb) ELSE ms
         m2 == IF elem /\ ~gone THEN NaReadEff(m1, t, ElCell(a)) ELSE m1
         h1 == IF touches THEN TouchBad(H, tb) ELSE H
         h2 == IF elem /\ ~gone
               THEN Flag(Flag([h1 EXCEPT !.ret = @ \cup {<<o.n, a>>}],
                              Get(h1.ctor, a) # 1, "ConstructedOnceBeforeVisible"),
                         ~ElemAlive(h1, a), "StableAddress")
               ELSE h1
     IN /\ ms' = m2
        /\ H' = h2
        /\ ev' = [NoEv EXCEPT !.t = t, !.k = "ret", !.op = o.op, !.n = o.n,
                              !.id = IF o.op = "s" THEN tb ELSE IF elem /\ ~gone THEN a[1] ELSE IF o.op = "u" THEN -1 ELSE 0,
                              !.off = IF elem /\ ~gone THEN a[2] ELSE 0,
                              !.v = IF o.op = "u" THEN tb ELSE 0,
                              !.ok = ~gone]
  /\ Goto(t, "idle")
  /\ SetL(t, [L[t] EXCEPT !.opi = @ + 1])
  /\ UNCHANGED <<cfg, hp, now>>

(***************************************************************************)
(* get_qualified_block_table: fast path                                    *)
(***************************************************************************)
GLoad(t, M(_)) ==
  /\ t \in Thr /\ pc[t] = "g_load"
  /\ \E i \in Readable(ms, t, BT, Stale) :
       LET mo == M("table_load")
           v == ms.mem[BT][i].val
       IN /\ ms' = TouchMs(LoadMs(ms, t, BT, i, mo), t, v)
          /\ H' = TouchBad(H, v)
          /\ ev' = AtomEv(t, "load", "table_load", mo, BT, v, 0, 0, TRUE)
          /\ SetL(t, [L[t] EXCEPT !.tb = v, !.rtb = v, !.bnum = TSize(v)])
          /\ Goto(t, IF TSize(v) >= L[t].expect THEN "ret" ELSE "s_new")
  /\ UNCHANGED <<cfg, hp, now>>

(***************************************************************************)
(* get_qualified_block_table_slow                                          *)
(***************************************************************************)
\* create_block_table(expect) + memcpy of the block pointers of the table read
SNew(t) ==
  /\ t \in Thr /\ pc[t] = "s_new"
  /\ LET id == NewObj(t)
         l == L[t]
     IN /\ hp' = [hp EXCEPT !.obj = Put(@, id, [kind |-> "tb", st |-> "live", size |-> l.expect,
                                                blocks |-> SubSeq(TBlocks(l.tb), 1, l.bnum)])]
        /\ ms' = NaWriteEff(TouchMs(ms, t, l.tb), t, TabCell(id), AllThr)
        /\ H' = TouchBad(H, l.tb)
        /\ SetL(t, [l EXCEPT !.ntb = id, !.i = l.bnum])
        /\ ev' = [NoEv EXCEPT !.t = t, !.k = "alloc", !.id = id]
  /\ Goto(t, "s_blk")
  /\ UNCHANGED <<cfg, now>>

\* new_block_table->blocks[i] = create_block(): allocation + one constructor call per element
SBlk(t) ==
  /\ t \in Thr /\ pc[t] = "s_blk"
  /\ LET id == NewObj(t)
         l == L[t]
         o1 == Put(hp.obj, id, [kind |-> "blk", st |-> "live", size |-> 0, blocks |-> << >>])
     IN /\ hp' = [hp EXCEPT !.obj = [o1 EXCEPT ![l.ntb].blocks = Append(@, id)]]
        /\ ms' = NaWriteEff(NaWriteAll(ms, t, {ElCell(a) : a \in Addrs(id)}), t, TabCell(l.ntb), AllThr)
        /\ H' = CtorAll(H, id)
        /\ SetL(t, [l EXCEPT !.i = @ + 1])
        /\ Goto(t, IF l.i + 1 >= l.expect THEN "s_cas" ELSE "s_blk")
        /\ ev' = [NoEv EXCEPT !.t = t, !.k = "mkblk", !.id = id, !.cnt = BS]
  /\ UNCHANGED <<cfg, now>>

\* _block_table.compare_exchange_strong(block_table, new_block_table, acq_rel, acquire)
SCas(t, M(_)) ==
  /\ t \in Thr /\ pc[t] = "s_cas"
  /\ LET mo == M("table_cas")
         l == L[t]
         old == LastVal(ms, BT)
     IN IF old = l.tb
        THEN /\ ms' = RmwMs(ms, t, BT, l.ntb, mo)
             /\ ev' = AtomEv(t, "cas", "table_cas", mo, BT, old, l.tb, l.ntb, TRUE)
             /\ H' = [H EXCEPT !.supAt = Put(@, l.tb, now)]
             /\ SetL(t, [l EXCEPT !.rtb = l.ntb])
             /\ Goto(t, "r_load")
        ELSE /\ ms' = CasFailEff(ms, t, BT, M("table_cas_fail"))
             /\ ev' = AtomEv(t, "cas", "table_cas_fail", M("table_cas_fail"), BT, old, l.tb, l.ntb, FALSE)
             /\ H' = H
             /\ SetL(t, [l EXCEPT !.tb = old, !.rtb = old, !.i = l.bnum])
             /\ Goto(t, "s_del")
  /\ UNCHANGED <<cfg, hp, now>>

\* loser: delete_block(new_block_table->blocks[i]) for the blocks created in this round; after the last
\* one re-read the size of the table the failed CAS returned and either give up or copy again
SDel(t) ==
  /\ t \in Thr /\ pc[t] = "s_del"
  /\ LET l == L[t]
         b == hp.obj[l.ntb].blocks[l.i + 1]
         last == l.i + 1 >= l.expect
         bn == TSize(l.tb)
         enough == bn >= l.expect
         o1 == [hp.obj EXCEPT ![b].st = "freed"]
         o2 == IF last /\ ~enough THEN [o1 EXCEPT ![l.ntb].blocks = SubSeq(TBlocks(l.tb), 1, bn)]
               ELSE IF last THEN [o1 EXCEPT ![l.ntb].blocks = SubSeq(@, 1, l.bnum)] ELSE o1
         m1 == NaWriteAll(ms, t, {ElCell(a) : a \in Addrs(b)})
         m2 == IF last THEN TouchMs(m1, t, l.tb) ELSE m1
         m3 == IF last /\ ~enough THEN NaWriteEff(m2, t, TabCell(l.ntb), AllThr) ELSE m2
     IN /\ hp' = [hp EXCEPT !.obj = o2]
        /\ ms' = m3
        /\ H' = Flag(IF last THEN TouchBad(DtorAll(H, b), l.tb) ELSE DtorAll(H, b), hp.obj[b].st # "live", "NoDoubleFree")
        /\ SetL(t, IF last THEN [l EXCEPT !.bnum = bn, !.i = bn] ELSE [l EXCEPT !.i = @ + 1])
        /\ Goto(t, IF ~last THEN "s_del" ELSE IF enough THEN "s_deltab" ELSE "s_blk")
        /\ ev' = [NoEv EXCEPT !.t = t, !.k = "rmblk", !.id = b, !.cnt = BS]
  /\ UNCHANGED <<cfg, now>>

\* loser whose target is already reached by somebody else's table: delete_block_table(new_block_table)
SDelTab(t) ==
  /\ t \in Thr /\ pc[t] = "s_deltab"
  /\ hp' = FreeObj(L[t].ntb)
  /\ H' = Flag(H, hp.obj[L[t].ntb].st # "live", "NoDoubleFree")
  /\ ev' = [NoEv EXCEPT !.t = t, !.k = "free", !.id = L[t].ntb]
  /\ Goto(t, "ret")
  /\ UNCHANGED <<cfg, ms, L, now>>

(***************************************************************************)
(* RetireList::retire(block_table)                                         *)
(***************************************************************************)
\* skip the nodes whose data is the static empty table (nothing to free, no allocator call)
RECURSIVE SkipEmpty(_, _)
SkipEmpty(nodes, n) == IF n = 0 \/ nodes[n].data # 0 THEN n ELSE SkipEmpty(nodes, nodes[n].next)
RECURSIVE SkippedSet(_, _)
SkippedSet(nodes, n) == IF n = 0 \/ nodes[n].data # 0 THEN {} ELSE {n} \cup SkippedSet(nodes, nodes[n].next)
ReadNodes(m, t, S) == LET RECURSIVE R(_, _)
                          R(mm, SS) == IF SS = {} THEN mm ELSE LET n == CHOOSE x \in SS : TRUE IN R(NaReadEff(mm, t, NodeCell(n)), SS \ {n})
                      IN R(m, S)
FreeNodes(nodes, S) == [n \in DOMAIN nodes |-> IF n \in S THEN [nodes[n] EXCEPT !.st = "freed"] ELSE nodes[n]]

\* start of delete_list(head) by thread t: returns <<memory, nodes, first node that owns a real table>>
DlStart(m, t, nodes, n) ==
  <<ReadNodes(m, t, SkippedSet(nodes, n)), FreeNodes(nodes, SkippedSet(nodes, n)), SkipEmpty(nodes, n)>>

\* new Node; node->data = data; head = _head.load(acquire)
RLoad(t, M(_)) ==
  /\ t \in Thr /\ pc[t] = "r_load"
  /\ \E i \in Readable(ms, t, HEAD, Stale) :
       LET mo == M("retire_head_load")
           v == ms.mem[HEAD][i].val
           n == NewNode(t)
       IN /\ hp' = [hp EXCEPT !.node = Put(@, n, [data |-> L[t].tb, next |-> 0, st |-> "live"])]
          /\ ms' = LoadMs(NaWriteEff(ms, t, NodeCell(n), AllThr), t, HEAD, i, mo)
          /\ ev' = AtomEv(t, "load", "retire_head_load", mo, HEAD, v, 0, 0, TRUE)
          /\ SetL(t, [L[t] EXCEPT !.node = n, !.head = v])
  /\ Goto(t, "r_clock")
  /\ UNCHANGED <<cfg, now, H>>

\* where the push loop starts: the repaired variant reads the clock again whenever `head` was (re)observed
LoopPc == IF Fix THEN "r_clock2" ELSE "r_loop"

\* timestamp = get_current_timestamp()  -- a step of its own: the thread can be delayed right after it
RClock(t) ==
  /\ t \in Thr /\ pc[t] = "r_clock"
  /\ LET ts == Stamp(now)
     IN /\ SetL(t, [L[t] EXCEPT !.ts = ts])
        /\ Goto(t, IF Expire(L[t].head, ts) THEN "r_cas1" ELSE LoopPc)
        /\ ev' = [NoEv EXCEPT !.t = t, !.k = "clock", !.v = now]
  /\ UNCHANGED <<cfg, ms, hp, now, H>>

RClock2(t) ==
  /\ t \in Thr /\ pc[t] = "r_clock2"
  /\ SetL(t, [L[t] EXCEPT !.ts = Stamp(now)])
  /\ Goto(t, "r_loop")
  /\ ev' = [NoEv EXCEPT !.t = t, !.k = "clock", !.v = now]
  /\ UNCHANGED <<cfg, ms, hp, now, H>>

\* the head that retire() pushes carries the stamp read at r_clock; H.stalled remembers that a whole
\* unit boundary was crossed between that clock read and the successful CAS (witness class of H4)
Pushed(h, t) == [h EXCEPT !.stalled = @ \/ Stamp(now) # L[t].ts]

\* expired list: node->next = nullptr; compare_exchange_strong(head, new_head, acq_rel)
RCas1(t, M(_)) ==
  /\ t \in Thr /\ pc[t] = "r_cas1"
  /\ LET mo == M("retire_head_cas_expired")
         l == L[t]
         nh == HeadVal(l.ts, l.node)
         old == LastVal(ms, HEAD)
     IN IF old = l.head
        THEN LET m1 == RmwMs(ms, t, HEAD, nh, mo)
                 d == DlStart(m1, t, hp.node, HNode(old))
             IN /\ ms' = d[1]
                /\ hp' = [hp EXCEPT !.node = d[2]]
                /\ H' = Pushed(H, t)
                /\ SetL(t, [l EXCEPT !.cur = d[3], !.dlret = "ret"])
                /\ Goto(t, IF d[3] = 0 THEN "ret" ELSE "dl")
                /\ ev' = AtomEv(t, "cas", "retire_head_cas_expired", mo, HEAD, old, l.head, nh, TRUE)
        ELSE /\ ms' = CasFailEff(ms, t, HEAD, M("retire_head_cas_expired_fail"))
             /\ hp' = hp /\ H' = H
             /\ SetL(t, [l EXCEPT !.head = old])
             /\ Goto(t, LoopPc)
             /\ ev' = AtomEv(t, "cas", "retire_head_cas_expired_fail", M("retire_head_cas_expired_fail"), HEAD, old, l.head, nh, FALSE)
  /\ UNCHANGED <<cfg, now>>

\* do { node->next = get_node(head); } while (!compare_exchange_weak(head, new_head, acq_rel))
RLoop(t, M(_)) ==
  /\ t \in Thr /\ pc[t] = "r_loop"
  /\ LET mo == M("retire_head_cas_push")
         l == L[t]
         nh == HeadVal(l.ts, l.node)
         old == LastVal(ms, HEAD)
         m0 == NaWriteEff(ms, t, NodeCell(l.node), AllThr)
     IN /\ hp' = [hp EXCEPT !.node[l.node].next = HNode(l.head)]
        /\ IF old = l.head
           THEN /\ ms' = RmwMs(m0, t, HEAD, nh, mo)
                /\ H' = Pushed(H, t)
                /\ UNCHANGED L
                /\ Goto(t, "ret")
                /\ ev' = AtomEv(t, "cas", "retire_head_cas_push", mo, HEAD, old, l.head, nh, TRUE)
           ELSE /\ ms' = CasFailEff(m0, t, HEAD, M("retire_head_cas_push_fail"))
                /\ H' = H
                /\ SetL(t, [l EXCEPT !.head = old])
                /\ Goto(t, LoopPc)
                /\ ev' = AtomEv(t, "cas", "retire_head_cas_push_fail", M("retire_head_cas_push_fail"), HEAD, old, l.head, nh, FALSE)
  /\ UNCHANGED <<cfg, now>>

\* delete_list: D()(node->data) = delete_block_table; delete node.  One action per freed table.
\* Frees made on behalf of retire()/gc() are the ones the cooling period protects.
DlStep(t) ==
  /\ pc[t] = "dl"
  /\ LET l == L[t]
         n == l.cur
         tb == hp.node[n].data
         m1 == NaReadEff(ms, t, NodeCell(n))
         nodes1 == [hp.node EXCEPT ![n].st = "freed"]
         d == DlStart(m1, t, nodes1, hp.node[n].next)
         h1 == Flag(H, hp.obj[tb].st # "live", "NoDoubleFree")
         tooEarly == t # 0 /\ tb \in DOMAIN H.supAt /\ now < H.supAt[tb] + TPU
     IN /\ ms' = d[1]
        /\ hp' = [hp EXCEPT !.node = d[2], !.obj[tb].st = "freed"]
        /\ H' = IF tooEarly THEN [h1 EXCEPT !.early = @ \cup {tb}] ELSE h1
        /\ SetL(t, [l EXCEPT !.cur = d[3]])
        /\ Goto(t, IF d[3] = 0 THEN l.dlret ELSE "dl")
        /\ ev' = [NoEv EXCEPT !.t = t, !.k = "free", !.id = tb]
  /\ UNCHANGED <<cfg, now>>

(***************************************************************************)
(* RetireList::gc()                                                        *)
(***************************************************************************)
CLoad(t, M(_)) ==
  /\ t \in Thr /\ pc[t] = "c_load"
  /\ \E i \in Readable(ms, t, HEAD, Stale) :
       LET mo == M("gc_head_load")
           v == ms.mem[HEAD][i].val
       IN /\ ms' = LoadMs(ms, t, HEAD, i, mo)
          /\ ev' = AtomEv(t, "load", "gc_head_load", mo, HEAD, v, 0, 0, TRUE)
          /\ SetL(t, [L[t] EXCEPT !.head = v])
  /\ Goto(t, "c_clock")
  /\ UNCHANGED <<cfg, hp, now, H>>

CClock(t) ==
  /\ t \in Thr /\ pc[t] = "c_clock"
  /\ LET ts == Stamp(now)
     IN /\ SetL(t, [L[t] EXCEPT !.ts = ts])
        /\ Goto(t, IF Expire(L[t].head, ts) THEN "c_cas" ELSE "ret")
        /\ ev' = [NoEv EXCEPT !.t = t, !.k = "clock", !.v = now]
  /\ UNCHANGED <<cfg, ms, hp, now, H>>

CCas(t, M(_)) ==
  /\ t \in Thr /\ pc[t] = "c_cas"
  /\ LET mo == M("gc_head_cas")
         l == L[t]
         old == LastVal(ms, HEAD)
     IN IF old = l.head
        THEN LET m1 == RmwMs(ms, t, HEAD, 0, mo)
                 d == DlStart(m1, t, hp.node, HNode(old))
             IN /\ ms' = d[1]
                /\ hp' = [hp EXCEPT !.node = d[2]]
                /\ SetL(t, [l EXCEPT !.cur = d[3], !.dlret = "ret"])
                /\ Goto(t, IF d[3] = 0 THEN "ret" ELSE "dl")
                /\ ev' = AtomEv(t, "cas", "gc_head_cas", mo, HEAD, old, l.head, 0, TRUE)
        ELSE /\ ms' = CasFailEff(ms, t, HEAD, M("gc_head_cas_fail"))
             /\ hp' = hp
             /\ SetL(t, [l EXCEPT !.head = old])
             /\ Goto(t, "ret")
             /\ ev' = AtomEv(t, "cas", "gc_head_cas_fail", M("gc_head_cas_fail"), HEAD, old, l.head, 0, FALSE)
  /\ UNCHANGED <<cfg, now, H>>

(***************************************************************************)
(* snapshot() / operator[]                                                 *)
(***************************************************************************)
XLoad(t, M(_)) ==
  /\ t \in Thr /\ pc[t] = "x_load"
  /\ \E i \in Readable(ms, t, BT, Stale) :
       LET mo == M("snapshot_load")
           v == ms.mem[BT][i].val
       IN /\ ms' = LoadMs(ms, t, BT, i, mo)
          /\ ev' = AtomEv(t, "load", "snapshot_load", mo, BT, v, 0, 0, TRUE)
          /\ SetL(t, [L[t] EXCEPT !.rtb = v, !.held = IF Op(t).op = "s" THEN v ELSE @])
  /\ Goto(t, "ret")
  /\ UNCHANGED <<cfg, hp, now, H>>

(***************************************************************************)
(* ~ConcurrentVector (thread 0, after every thread was joined)             *)
(***************************************************************************)
AllDone == \A t \in Thr : pc[t] = "idle" /\ L[t].opi > Len(cfg.prog[t])

RECURSIVE JoinAll(_, _)
JoinAll(m, S) == IF S = {} THEN m ELSE LET u == CHOOSE x \in S : TRUE IN JoinAll(JoinEff(m, 0, u), S \ {u})

DStart ==
  /\ pc[0] = "idle" /\ AllDone
  /\ ms' = JoinAll(ms, Thr)
  /\ Goto(0, "d_load")
  /\ ev' = [NoEv EXCEPT !.k = "destroy"]
  /\ UNCHANGED <<cfg, L, hp, now, H>>

DLoad(M(_)) ==
  /\ pc[0] = "d_load"
  /\ \E i \in Readable(ms, 0, BT, Stale) :
       LET mo == M("dtor_table_load")
           v == ms.mem[BT][i].val
       IN /\ ms' = TouchMs(LoadMs(ms, 0, BT, i, mo), 0, v)
          /\ ev' = AtomEv(0, "load", "dtor_table_load", mo, BT, v, 0, 0, TRUE)
          /\ SetL(0, [L[0] EXCEPT !.tb = v, !.i = 0])
          /\ Goto(0, IF v = 0 THEN "d_xchg" ELSE "d_blk")
  /\ UNCHANGED <<cfg, hp, now, H>>

DBlk ==
  /\ pc[0] = "d_blk"
  /\ LET l == L[0]
         b == hp.obj[l.tb].blocks[l.i + 1]
     IN /\ hp' = FreeObj(b)
        /\ ms' = NaWriteAll(ms, 0, {ElCell(a) : a \in Addrs(b)})
        /\ H' = Flag(DtorAll(H, b), hp.obj[b].st # "live", "NoDoubleFree")
        /\ SetL(0, [l EXCEPT !.i = @ + 1])
        /\ Goto(0, IF l.i + 1 >= TSize(l.tb) THEN "d_tab" ELSE "d_blk")
        /\ ev' = [NoEv EXCEPT !.k = "rmblk", !.id = b, !.cnt = BS]
  /\ UNCHANGED <<cfg, now>>

DTab ==
  /\ pc[0] = "d_tab"
  /\ hp' = FreeObj(L[0].tb)
  /\ H' = Flag(H, hp.obj[L[0].tb].st # "live", "NoDoubleFree")
  /\ ev' = [NoEv EXCEPT !.k = "free", !.id = L[0].tb]
  /\ Goto(0, "d_xchg")
  /\ UNCHANGED <<cfg, ms, L, now>>

\* _retire_list.unsafe_gc(): head = _head.exchange(0, relaxed); delete_list(head)
DXchg(M(_)) ==
  /\ pc[0] = "d_xchg"
  /\ LET mo == M("dtor_head_xchg")
         old == LastVal(ms, HEAD)
         m1 == RmwMs(ms, 0, HEAD, 0, mo)
         d == DlStart(m1, 0, hp.node, HNode(old))
     IN /\ ms' = d[1]
        /\ hp' = [hp EXCEPT !.node = d[2]]
        /\ SetL(0, [L[0] EXCEPT !.cur = d[3], !.dlret = "d_load2"])
        /\ Goto(0, IF d[3] = 0 THEN "d_load2" ELSE "dl")
        /\ ev' = AtomEv(0, "xchg", "dtor_head_xchg", mo, HEAD, old, 0, 0, TRUE)
  /\ UNCHANGED <<cfg, now, H>>

\* ~RetireList: delete_list(_head.load(relaxed)) -- the list is empty by now
DLoad2(M(_)) ==
  /\ pc[0] = "d_load2"
  /\ LET mo == M("dtor_head_load")
         v == LastVal(ms, HEAD)
     IN /\ ms' = LoadMs(ms, 0, HEAD, Len(ms.mem[HEAD]), mo)
        /\ ev' = AtomEv(0, "load", "dtor_head_load", mo, HEAD, v, 0, 0, TRUE)
  /\ Goto(0, "d_end")
  /\ UNCHANGED <<cfg, L, hp, now, H>>

DEnd ==
  /\ pc[0] = "d_end"
  /\ H' = [H EXCEPT !.dead = TRUE]
  /\ Goto(0, "dead")
  /\ ev' = [NoEv EXCEPT !.k = "dead"]
  /\ UNCHANGED <<cfg, ms, L, hp, now>>

(***************************************************************************)
(* time                                                                    *)
(***************************************************************************)
\* Only r_clock / c_clock (the stamp), s_cas (the moment a table is superseded) and dl (the moment a
\* table is given back) look at the time; a tick commutes with every other step, so when model checking
\* it is enough to let time pass right before one of these (TimeMatters).
TimeMatters == \E t \in Thr : pc[t] \in {"r_clock", "r_clock2", "c_clock", "s_cas", "dl"}
Tick(d) ==
  /\ d > 0
  /\ now' = now + d
  /\ ev' = [NoEv EXCEPT !.k = "tick", !.v = now + d]
  /\ UNCHANGED <<cfg, ms, pc, L, hp, H>>

(***************************************************************************)
Step(t, M(_)) ==
  \/ Call(t) \/ Sleep(t) \/ Ret(t)
  \/ GLoad(t, M) \/ SNew(t) \/ SBlk(t) \/ SCas(t, M) \/ SDel(t) \/ SDelTab(t)
  \/ RLoad(t, M) \/ RClock(t) \/ RClock2(t) \/ RCas1(t, M) \/ RLoop(t, M) \/ DlStep(t)
  \/ CLoad(t, M) \/ CClock(t) \/ CCas(t, M)
  \/ XLoad(t, M)

Destroy(M(_)) ==
  \/ DStart \/ DLoad(M) \/ DBlk \/ DTab \/ DXchg(M) \/ DLoad2(M) \/ DEnd \/ DlStep(0)

Dead == pc[0] = "dead"

(***************************************************************************)
(* L1 properties (C04) over the history                                    *)
(***************************************************************************)
\* "two threads asking for the same index always get the same element" and "references ... keep
\* designating the same element": every index has at most one element, whoever asked, whenever
SameElementForSameIndex ==
  \A p \in H.ret, q \in H.ret : p[1] = q[1] => p[2] = q[2]
\* "references and pointers ... stay valid ... for the lifetime of the vector": an element that was handed
\* out stays a live constructed object in live memory until the destructor runs
StableAddress ==
  /\ H.bad # "StableAddress"
  /\ (pc[0] = "idle" => \A p \in H.ret : ElemAlive(H, p[2]))
\* "every element is constructed exactly once before anyone can see it": never twice; everything reachable
\* through the published table is constructed; what was handed out was constructed
Published == TBlocks(LastVal(ms, BT))
ConstructedOnceBeforeVisible ==
  /\ H.bad # "ConstructedOnceBeforeVisible"
  /\ \A a \in DOMAIN H.ctor : H.ctor[a] <= 1
  /\ \A j \in 1..Len(Published) : \A a \in Addrs(Published[j]) : Get(H.ctor, a) = 1
\* "... and destroyed exactly once when the vector dies"
DestroyedOnce ==
  /\ \A a \in DOMAIN H.dtor : H.dtor[a] <= 1 /\ H.dtor[a] <= Get(H.ctor, a)
  /\ (H.dead => \A a \in DOMAIN H.ctor : Get(H.dtor, a) = 1)
\* elements visible before the vector dies are not destroyed early
NotDestroyedEarly ==
  pc[0] = "idle" => \A j \in 1..Len(Published) : \A a \in Addrs(Published[j]) : Get(H.dtor, a) = 0 /\ ObjLive(Published[j])
\* no leak of loser blocks / tables / retired tables at destruction; nothing freed twice
NoLeak ==
  H.dead => /\ \A o \in DOMAIN hp.obj : hp.obj[o].st = "freed"
            /\ \A n \in DOMAIN hp.node : hp.node[n].st = "freed"
NoDoubleFree == H.bad # "NoDoubleFree"
\* "a snapshot stays usable for at least one cooling period (64 s) after the growth that superseded it,
\* even if gc() is called": a table is never given back earlier than one unit after it was superseded ...
Cooling == H.early = {}
\* ... which holds in every behaviour in which no retire() was delayed across a unit boundary between
\* its clock read and its successful CAS (hypothesis H4 is exactly the complement)
CoolingNoStall == H.stalled \/ H.early = {}
\* ... and nobody is handed a freed table inside that period
NoUseAfterFree == H.bad # "NoUseAfterFree"
\* elements and tables are fully written before they can be reached (through the acquire load of the table)
NoDataRace == ~ms.race

=============================================================================
