------------------------------- MODULE GC_Mon -------------------------------
(***************************************************************************)
(* L1 specification of C10 as a monitor over the observable events of an   *)
(* execution: call / return of retire(i), stop(), the destructor, of the   *)
(* lock / unlock that opens / closes critical region r, and the invocation *)
(* of reclaimer i.  It knows nothing about the queue, batches or the       *)
(* collector loop: it judges the statement of C10 on executions of ANY     *)
(* implementation.                                                         *)
(*                                                                         *)
(*  ReclaimedExactlyOnce : no reclaimer is invoked twice                   *)
(*  NeverEarly  : when reclaimer i is invoked, no region that was open     *)
(*                (lock returned, unlock not yet called) when retire(i)    *)
(*                was called is still open                                 *)
(*  AllReclaimedWhenStopReturns : when the stop() / destructor call that   *)
(*                ends the collector returns, every reclaimer whose retire *)
(*                had returned before that call has been invoked.  Two     *)
(*                witness classes are told apart: a region was open (or    *)
(*                entering / leaving) at some point of that call           *)
(*                (bad = "AllReclaimedRegionOpenDuringStop"), or not.      *)
(*  RetireBlocksAndResumes : retire returns only when its task is stored:  *)
(*                never more than capacity + one batch reclaimers are      *)
(*                pending; and (programs whose regions all close) every    *)
(*                retire / stop call returns                               *)
(***************************************************************************)
EXTENDS Naturals, Integers, Sequences, FiniteSets, TLC, Json, IOUtils

Tr == ndJsonDeserialize(IOEnv.TRACE)

Regs == 1..4
Ids == 1..16
Thrs == 0..9

VARIABLES l, cap, batch,
          st,        \* st[r]: 0 closed, 1 outermost lock executing, 2 open, 3 outermost unlock executing
          dep,       \* dep[r]: nesting depth (locks returned minus unlocks called); the region is that of the OUTERMOST pair
          gen,       \* gen[r]: how often region r was entered
          openAt,    \* openAt[i]: region instances <<r, gen>> open when retire(i) was called
          pend,      \* calls executing: {<<thread, op, x>>}
          returned,  \* retire(i) returned
          cnt,       \* invocations of reclaimer i
          joinable, stopping, rds, beforeStop,
          bad
mvars == <<l, cap, batch, st, dep, gen, openAt, pend, returned, cnt, joinable, stopping, rds, beforeStop, bad>>

Fresh(e) ==
  /\ cap' = e.cap /\ batch' = e.batch
  /\ st' = [r \in Regs |-> 0] /\ dep' = [r \in Regs |-> 0] /\ gen' = [r \in Regs |-> 0] /\ openAt' = [i \in Ids |-> {}]
  /\ pend' = {} /\ returned' = {} /\ cnt' = [i \in Ids |-> 0]
  /\ joinable' = TRUE /\ stopping' = FALSE /\ rds' = FALSE /\ beforeStop' = {}

MInit ==
  /\ l = 2 /\ Tr[1].k = "reset"
  /\ cap = Tr[1].cap /\ batch = Tr[1].batch
  /\ st = [r \in Regs |-> 0] /\ dep = [r \in Regs |-> 0] /\ gen = [r \in Regs |-> 0] /\ openAt = [i \in Ids |-> {}]
  /\ pend = {} /\ returned = {} /\ cnt = [i \in Ids |-> 0]
  /\ joinable = TRUE /\ stopping = FALSE /\ rds = FALSE /\ beforeStop = {}
  /\ bad = {}
  /\ TLCSet(1, 1)

Same(vs) == UNCHANGED vs /\ UNCHANGED dep
Bad(b, name) == IF b THEN bad \cup {name} ELSE bad

MCall(e) ==
  /\ pend' = pend \cup {<<e.t, e.op, e.x>>}
  /\ CASE e.op = "enter" ->
            /\ st' = [st EXCEPT ![e.x] = IF dep[e.x] = 0 THEN 1 ELSE @]
            /\ rds' = (rds \/ stopping)
            /\ bad' = bad
            /\ UNCHANGED <<cap, batch, dep, gen, openAt, returned, cnt, joinable, stopping, beforeStop>>
       [] e.op = "leave" ->
            \* only the unlock matching the outermost lock leaves the region
            /\ st' = [st EXCEPT ![e.x] = IF dep[e.x] <= 1 THEN 3 ELSE @]
            /\ dep' = [dep EXCEPT ![e.x] = IF @ > 0 THEN @ - 1 ELSE 0]
            /\ bad' = bad
            /\ UNCHANGED <<cap, batch, gen, openAt, returned, cnt, joinable, stopping, rds, beforeStop>>
       [] e.op = "retire" ->
            /\ openAt' = [openAt EXCEPT ![e.x] = {<<r, gen[r]>> : r \in {y \in Regs : st[y] = 2}}]
            /\ bad' = bad
            /\ Same(<<cap, batch, st, gen, returned, cnt, joinable, stopping, rds, beforeStop>>)
       [] e.op \in {"stop", "dtor"} ->
            /\ stopping' = joinable
            /\ rds' = IF joinable THEN (\E r \in Regs : st[r] # 0) ELSE rds
            /\ beforeStop' = IF joinable THEN returned ELSE beforeStop
            /\ bad' = bad
            /\ Same(<<cap, batch, st, gen, openAt, returned, cnt, joinable>>)

MRet(e) ==
  /\ pend' = pend \ {<<e.t, e.op, e.x>>}
  /\ CASE e.op = "enter" ->
            /\ st' = [st EXCEPT ![e.x] = 2]
            /\ dep' = [dep EXCEPT ![e.x] = @ + 1]
            /\ gen' = [gen EXCEPT ![e.x] = IF dep[e.x] = 0 THEN @ + 1 ELSE @]
            /\ bad' = bad
            /\ UNCHANGED <<cap, batch, openAt, returned, cnt, joinable, stopping, rds, beforeStop>>
       [] e.op = "leave" ->
            /\ st' = [st EXCEPT ![e.x] = IF dep[e.x] = 0 THEN 0 ELSE @]
            /\ bad' = bad
            /\ Same(<<cap, batch, gen, openAt, returned, cnt, joinable, stopping, rds, beforeStop>>)
       [] e.op = "retire" ->
            /\ returned' = returned \cup {e.x}
            /\ bad' = Bad(Cardinality({i \in returned \cup {e.x} : cnt[i] = 0}) > cap + batch, "RetireBlocksAndResumes")
            /\ Same(<<cap, batch, st, gen, openAt, cnt, joinable, stopping, rds, beforeStop>>)
       [] e.op \in {"stop", "dtor"} ->
            LET missing == {i \in beforeStop : cnt[i] = 0}
            IN /\ bad' = IF missing = {} THEN bad
                         ELSE IF rds THEN bad \cup {"AllReclaimedRegionOpenDuringStop"}
                         ELSE bad \cup {"AllReclaimedWhenStopReturns"}
               /\ joinable' = FALSE /\ stopping' = FALSE
               /\ Same(<<cap, batch, st, gen, openAt, returned, cnt, rds, beforeStop>>)

MReclaim(e) ==
  LET early == \E p \in openAt[e.x] : st[p[1]] = 2 /\ gen[p[1]] = p[2]
  IN /\ cnt' = [cnt EXCEPT ![e.x] = @ + 1]
     /\ bad' = Bad(cnt[e.x] >= 1, "ReclaimedExactlyOnce") \cup Bad(early, "NeverEarly")
                 \cup Bad(e.x \notin returned /\ \A p \in pend : ~(p[2] = "retire" /\ p[3] = e.x), "ReclaimedExactlyOnce")
     /\ Same(<<cap, batch, st, gen, openAt, pend, returned, joinable, stopping, rds, beforeStop>>)

\* the driver's own invocation counters agree with the events
MFinal(e) ==
  /\ bad' = Bad(\E i \in 1..Len(e.cnt) : e.cnt[i] # cnt[i], "Protocol")
  /\ Same(<<cap, batch, st, gen, openAt, pend, returned, cnt, joinable, stopping, rds, beforeStop>>)

\* every program closes all its regions: a call that never returns did not resume
MEnd(e) ==
  /\ bad' = IF e.status \in {"crash", "hang"} THEN bad \cup {"NoCrash"}
            ELSE IF e.status \in {"deadlock", "budget"} /\ pend # {} THEN bad \cup {"RetireBlocksAndResumes"}
            ELSE bad
  /\ Same(<<cap, batch, st, gen, openAt, pend, returned, cnt, joinable, stopping, rds, beforeStop>>)

MNext ==
  /\ l <= Len(Tr)
  /\ LET e == Tr[l]
     IN CASE e.k = "reset" -> Fresh(e) /\ bad' = bad
          [] e.k = "call" -> MCall(e)
          [] e.k = "ret" -> MRet(e)
          [] e.k = "reclaim" -> MReclaim(e)
          [] e.k = "final" -> MFinal(e)
          [] e.k = "end" -> MEnd(e)
  /\ l' = l + 1
  /\ TLCSet(1, l')

MSpec == MInit /\ [][MNext]_mvars

\* the witness class "region open during stop()" is reported separately from every other clause
Holds == bad = {}
HoldsOther == bad \ {"AllReclaimedRegionOpenDuringStop"} = {}
Post == PrintT(<<"VERIF", TLCGet(1) - 1, Len(Tr), {}>>)
=============================================================================
