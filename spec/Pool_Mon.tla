------------------------------ MODULE Pool_Mon ------------------------------
(***************************************************************************)
(* L1 specification of babylon::ObjectPool (property C17) as a monitor     *)
(* over the observable events of an execution of the REAL code:            *)
(*   call / ret of pop, try_pop -> object id, push(object id) (explicit,   *)
(*   through the custom deleter, or injection by the owner), invocations   *)
(*   of the creator, the recycler and the object destructor, quiescent     *)
(*   observations (free_object_number), destruction of the pool, end       *)
(*   status of the execution.                                              *)
(* Clauses (the second half of the property statement):                    *)
(*   SingleOwner                 an object handed out by pop is known, not *)
(*                               held by anybody, not destroyed, and was   *)
(*                               given back before; destroyed once         *)
(*   StrictNeverExceedsInjected  strict mode: no creator, outstanding      *)
(*                               objects <= injected objects               *)
(*   BlockedPopResumes           strict mode: a program in which every     *)
(*                               holder eventually gives back ends; a      *)
(*                               deadlock is a pop that never resumed      *)
(*   PopYieldsObject             pop() never returns null                  *)
(*   RecyclerOncePerReturn       exactly one recycler call per push, made  *)
(*                               by the pushing thread before the object   *)
(*                               can be handed out again                   *)
(*   OverflowDestroyedNotLeaked  every object is held, cached or destroyed *)
(*                               (free_object_number accounts for the      *)
(*                               rest); sequentially the cache never       *)
(*                               exceeds the capacity; after the pool is   *)
(*                               gone nothing is left over                 *)
(***************************************************************************)
EXTENDS Naturals, Integers, Sequences, FiniteSets, TLC, Json, IOUtils

Tr == ndJsonDeserialize(IOEnv.TRACE)

VARIABLES l, mode, cap, rec, balanced,
          known, injected, created, dead,
          inPool,   \* objects given back (push returned) and not handed out since
          heldBy,   \* object -> caller
          pend,     \* pend[c]: push in progress [obj, rc (recycler calls), taken (already handed out again)]
          allSeq,   \* every phase so far was single-threaded
          bad

mvars == <<l, mode, cap, rec, balanced, known, injected, created, dead, inPool, heldBy, pend, allSeq, bad>>

Callers == 0..8
NoPend == [obj |-> 0, rc |-> 0, taken |-> FALSE]
Held == DOMAIN heldBy
Flag(b, name) == IF b /\ bad = "" THEN name ELSE bad
Strict == mode = 0

Fresh(e) ==
  /\ mode' = e.mode /\ cap' = e.cap /\ rec' = e.rec /\ balanced' = e.balanced
  /\ known' = {} /\ injected' = {} /\ created' = {} /\ dead' = {} /\ inPool' = {}
  /\ heldBy' = << >> /\ pend' = [c \in Callers |-> NoPend] /\ allSeq' = TRUE

MInit ==
  /\ l = 1
  /\ mode = 0 /\ cap = 0 /\ rec = FALSE /\ balanced = FALSE
  /\ known = {} /\ injected = {} /\ created = {} /\ dead = {} /\ inPool = {}
  /\ heldBy = << >> /\ pend = [c \in Callers |-> NoPend] /\ allSeq = TRUE
  /\ bad = ""
  /\ TLCSet(1, 1)

Same == UNCHANGED <<mode, cap, rec, balanced>>

MCallPush(e) ==
  /\ pend' = [pend EXCEPT ![e.c] = [obj |-> e.obj, rc |-> 0, taken |-> FALSE]]
  /\ IF e.inject
     THEN /\ known' = known \cup {e.obj} /\ injected' = injected \cup {e.obj}
          /\ heldBy' = heldBy
          /\ bad' = Flag(e.obj \in known \/ pend[e.c].obj # 0, "Protocol")
     ELSE /\ known' = known /\ injected' = injected
          /\ heldBy' = [o \in Held \ {e.obj} |-> heldBy[o]]
          /\ bad' = Flag(pend[e.c].obj # 0 \/ e.obj \notin Held \/ (e.obj \in Held /\ heldBy[e.obj] # e.c), "Protocol")
  /\ UNCHANGED <<created, dead, inPool, allSeq>>

MRecycle(e) ==
  /\ IF pend[e.c].obj = e.obj /\ e.obj # 0
     THEN /\ pend' = [pend EXCEPT ![e.c].rc = @ + 1]
          /\ bad' = Flag(pend[e.c].rc >= 1, "RecyclerOncePerReturn")
     ELSE /\ pend' = pend
          /\ bad' = Flag(TRUE, "RecyclerOncePerReturn")
  /\ UNCHANGED <<known, injected, created, dead, inPool, heldBy, allSeq>>

MRetPush(e) ==
  /\ pend' = [pend EXCEPT ![e.c] = NoPend]
  /\ inPool' = IF pend[e.c].taken \/ e.obj \in dead THEN inPool ELSE inPool \cup {e.obj}
  /\ bad' = IF rec /\ pend[e.c].rc # 1 THEN Flag(TRUE, "RecyclerOncePerReturn")
            ELSE Flag(pend[e.c].obj # e.obj, "Protocol")
  /\ UNCHANGED <<known, injected, created, dead, heldBy, allSeq>>

MCreate(e) ==
  /\ known' = known \cup {e.obj} /\ created' = created \cup {e.obj}
  /\ inPool' = inPool \cup {e.obj}
  /\ bad' = IF Strict THEN Flag(TRUE, "StrictNeverExceedsInjected") ELSE Flag(e.obj \in known, "Protocol")
  /\ UNCHANGED <<injected, dead, heldBy, pend, allSeq>>

PendingOf(o) == {c \in Callers : pend[c].obj = o /\ ~pend[c].taken}

MRetPop(e) ==
  IF e.obj = 0
  THEN /\ bad' = Flag(e.op = "pop", "PopYieldsObject")
       /\ UNCHANGED <<known, injected, created, dead, inPool, heldBy, pend, allSeq>>
  ELSE LET o == e.obj
           pc == PendingOf(o)
           avail == o \in inPool \/ pc # {}
           early == o \notin inPool /\ pc # {} /\ rec /\ \A c \in pc : pend[c].rc = 0
           hb == [x \in Held \cup {o} |-> IF x = o THEN e.c ELSE heldBy[x]]
       IN /\ heldBy' = hb
          /\ inPool' = inPool \ {o}
          /\ pend' = IF o \in inPool THEN pend ELSE [c \in Callers |-> IF c \in pc THEN [pend[c] EXCEPT !.taken = TRUE] ELSE pend[c]]
          /\ bad' = IF o \in Held \/ o \in dead \/ o \notin known \/ ~avail THEN Flag(TRUE, "SingleOwner")
                    ELSE IF early THEN Flag(TRUE, "RecyclerOncePerReturn")
                    ELSE Flag(Strict /\ Cardinality(DOMAIN hb) > Cardinality(injected), "StrictNeverExceedsInjected")
          /\ UNCHANGED <<known, injected, created, dead, allSeq>>

MDtor(e) ==
  /\ dead' = dead \cup {e.obj}
  /\ inPool' = inPool \ {e.obj}
  /\ bad' = Flag(e.obj \in dead \/ e.obj \in Held \/ e.obj \notin known, "SingleOwner")
  /\ UNCHANGED <<known, injected, created, heldBy, pend, allSeq>>

MQuiesce(e) ==
  LET alive == Cardinality(known) - Cardinality(dead)
      seq == allSeq /\ e.seq
  IN /\ allSeq' = seq
     /\ bad' = IF alive - Cardinality(Held) # e.free THEN Flag(TRUE, IF Strict THEN "Conservation" ELSE "OverflowDestroyedNotLeaked")
               ELSE Flag(~Strict /\ seq /\ e.free > cap, "OverflowDestroyedNotLeaked")
     /\ UNCHANGED <<known, injected, created, dead, inPool, heldBy, pend>>

\* the pool has been destroyed
MFinal(e) ==
  /\ bad' = Flag(known \ (dead \cup Held) # {}, "OverflowDestroyedNotLeaked")
  /\ UNCHANGED <<known, injected, created, dead, inPool, heldBy, pend, allSeq>>

MEnd(e) ==
  /\ bad' = IF e.status = "deadlock" /\ balanced THEN Flag(TRUE, "BlockedPopResumes")
            ELSE Flag(e.status \in {"crash", "hang"}, "NoCrash")
  /\ UNCHANGED <<known, injected, created, dead, inPool, heldBy, pend, allSeq>>

MNext ==
  /\ l <= Len(Tr)
  /\ LET e == Tr[l]
     IN CASE e.k = "reset" -> Fresh(e) /\ bad' = bad
          [] e.k = "call" /\ e.op = "push" -> MCallPush(e) /\ Same
          [] e.k = "ret" /\ e.op = "push" -> MRetPush(e) /\ Same
          [] e.k = "ret" /\ e.op \in {"pop", "trypop"} -> MRetPop(e) /\ Same
          [] e.k = "recycle" -> MRecycle(e) /\ Same
          [] e.k = "create" -> MCreate(e) /\ Same
          [] e.k = "dtor" -> MDtor(e) /\ Same
          [] e.k = "quiesce" -> MQuiesce(e) /\ Same
          [] e.k = "final" -> MFinal(e) /\ Same
          [] e.k = "end" -> MEnd(e) /\ Same
          [] OTHER -> UNCHANGED <<mode, cap, rec, balanced, known, injected, created, dead, inPool, heldBy, pend, allSeq, bad>>
  /\ l' = l + 1
  /\ TLCSet(1, l')

MSpec == MInit /\ [][MNext]_mvars

Holds == bad = ""

Post == PrintT(<<"VERIF", TLCGet(1) - 1, Len(Tr), {}>>)
=============================================================================
