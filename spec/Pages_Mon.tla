----------------------------- MODULE Pages_Mon -----------------------------
(***************************************************************************)
(* L1 specification of the page allocators (property C17) as a monitor     *)
(* over the observable events of an execution of the REAL code:            *)
(*   call / ret of allocate(n) -> page ids and deallocate(page ids) at the *)
(*   top of an allocator stack (cached / batch / counting / heap),         *)
(*   allocate / deallocate calls arriving at the recording upstream,       *)
(*   quiescent observations (cache size, per-thread buffers, counter),     *)
(*   destruction of the allocators, end status.                            *)
(* It knows nothing about queues, tickets or thread buffers: it follows    *)
(* every page (a tag that upstream never reuses) through                   *)
(*      upstream --up.alloc--> inside --ret alloc--> held by caller c      *)
(*      held by c --call dealloc--> inside --up.dealloc--> upstream        *)
(* and judges the clauses of the property statement:                       *)
(*   SingleOwner            a page handed out is not held by anybody, not  *)
(*                          returned upstream, was obtained from upstream; *)
(*                          a page returned upstream is not held by a      *)
(*                          caller and is returned once                    *)
(*   Conservation           at quiescence obtained - returned =            *)
(*                          held + cached (+ thread buffers)               *)
(*   CountingExact          the counting allocator / heap reports exactly  *)
(*                          the pages callers hold (at quiescence)         *)
(*   DestructorReturnsCache after the stack is destroyed every page that   *)
(*                          is not held by a caller is back upstream       *)
(***************************************************************************)
EXTENDS Naturals, Integers, Sequences, FiniteSets, TLC, Json, IOUtils

Tr == ndJsonDeserialize(IOEnv.TRACE)

VARIABLES l,
          out,      \* pages obtained from upstream and not returned
          back,     \* pages returned upstream
          nObt, nRet,
          heldBy,   \* page -> caller
          cur,      \* cur[c]: operation in progress ("" none)
          bad

mvars == <<l, out, back, nObt, nRet, heldBy, cur, bad>>

Callers == 0..8
SetOf(s) == {s[j] : j \in 1..Len(s)}
HasDup(s) == Cardinality(SetOf(s)) # Len(s)
Held == DOMAIN heldBy
Flag(b, name) == IF b /\ bad = "" THEN name ELSE bad

Fresh ==
  /\ out' = {} /\ back' = {} /\ nObt' = 0 /\ nRet' = 0
  /\ heldBy' = << >> /\ cur' = [c \in Callers |-> ""]

MInit ==
  /\ l = 1
  /\ out = {} /\ back = {} /\ nObt = 0 /\ nRet = 0
  /\ heldBy = << >> /\ cur = [c \in Callers |-> ""]
  /\ bad = ""
  /\ TLCSet(1, 1)

MUpAlloc(e) ==
  LET P == SetOf(e.pages)
  IN /\ out' = out \cup P
     /\ nObt' = nObt + Len(e.pages)
     /\ bad' = Flag(HasDup(e.pages) \/ P \cap (out \cup back) # {}, "Protocol")
     /\ UNCHANGED <<back, nRet, heldBy, cur>>

MUpDealloc(e) ==
  LET P == SetOf(e.pages)
  IN /\ out' = out \ P
     /\ back' = back \cup P
     /\ nRet' = nRet + Len(e.pages)
     /\ bad' = Flag(HasDup(e.pages) \/ P \cap Held # {} \/ ~(P \subseteq out), "SingleOwner")
     /\ UNCHANGED <<nObt, heldBy, cur>>

MCall(e) ==
  /\ cur' = [cur EXCEPT ![e.c] = e.op]
  /\ IF e.op = "dealloc"
     THEN LET P == SetOf(e.pages)
          IN /\ heldBy' = [p \in Held \ P |-> heldBy[p]]
             /\ bad' = Flag(cur[e.c] # "" \/ HasDup(e.pages) \/ \E p \in P : p \notin Held \/ heldBy[p] # e.c, "Protocol")
     ELSE /\ heldBy' = heldBy
          /\ bad' = Flag(cur[e.c] # "", "Protocol")
  /\ UNCHANGED <<out, back, nObt, nRet>>

MRet(e) ==
  /\ cur' = [cur EXCEPT ![e.c] = ""]
  /\ IF e.op = "alloc"
     THEN LET P == SetOf(e.pages)
          IN /\ heldBy' = [p \in Held \cup P |-> IF p \in Held THEN heldBy[p] ELSE e.c]
             /\ bad' = IF HasDup(e.pages) \/ P \cap Held # {} \/ ~(P \subseteq out) THEN Flag(TRUE, "SingleOwner")
                       ELSE Flag(Len(e.pages) # e.n \/ cur[e.c] # "alloc", "Protocol")
     ELSE /\ heldBy' = heldBy
          /\ bad' = Flag(cur[e.c] # "dealloc", "Protocol")
  /\ UNCHANGED <<out, back, nObt, nRet>>

Nat0(x) == IF x < 0 THEN 0 ELSE x

MQuiesce(e) ==
  LET inside == Nat0(e.free) + Nat0(e.buf)
      nheld == Cardinality(Held)
  IN /\ bad' = IF nObt - nRet # nheld + inside \/ Cardinality(out) # nheld + inside THEN Flag(TRUE, "Conservation")
               ELSE IF e.count >= 0 /\ e.count # nheld THEN Flag(TRUE, "CountingExact")
               ELSE Flag(e.held # nheld, "Protocol")
     /\ UNCHANGED <<out, back, nObt, nRet, heldBy, cur>>

\* the whole stack has been destroyed
MFinal(e) ==
  /\ bad' = IF out \ Held # {} THEN Flag(TRUE, "DestructorReturnsCache")
            ELSE Flag(SetOf(e.pages) # Held, "Protocol")
  /\ UNCHANGED <<out, back, nObt, nRet, heldBy, cur>>

MEnd(e) ==
  /\ bad' = Flag(e.status \in {"crash", "hang", "deadlock"}, "NoCrash")
  /\ UNCHANGED <<out, back, nObt, nRet, heldBy, cur>>

MNext ==
  /\ l <= Len(Tr)
  /\ LET e == Tr[l]
     IN CASE e.k = "reset" -> Fresh /\ bad' = bad
          [] e.k = "up" /\ e.op = "alloc" -> MUpAlloc(e)
          [] e.k = "up" /\ e.op = "dealloc" -> MUpDealloc(e)
          [] e.k = "call" -> MCall(e)
          [] e.k = "ret" -> MRet(e)
          [] e.k = "quiesce" -> MQuiesce(e)
          [] e.k = "final" -> MFinal(e)
          [] e.k = "end" -> MEnd(e)
          [] OTHER -> UNCHANGED <<out, back, nObt, nRet, heldBy, cur, bad>>
  /\ l' = l + 1
  /\ TLCSet(1, l')

MSpec == MInit /\ [][MNext]_mvars

\* bad = "" : every clause held so far; otherwise it names the first clause that failed
Holds == bad = ""

Post == PrintT(<<"VERIF", TLCGet(1) - 1, Len(Tr), {}>>)
=============================================================================
