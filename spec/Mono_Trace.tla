---------------------------- MODULE Mono_Trace ----------------------------
(***************************************************************************)
(* Trace validation of the real ExclusiveMonotonicBufferResource against   *)
(* Mono.  One line per operation of the driver (checks/mono_common.py      *)
(* folds the call / page allocator / upstream / destructor / return /      *)
(* bookkeeping read-out events of one operation into one record).  A line  *)
(* is explained when the Mono action for that operation                    *)
(*   - returns the same address / boolean,                                 *)
(*   - makes exactly the logged page allocator calls (allocate, and the    *)
(*     deallocate batches), upstream calls (address, bytes, alignment,     *)
(*     which upstream) and destructor invocations, in the same order,      *)
(*   - leaves _free_begin/_free_end, the accounting, the upstream pointer  *)
(*     and every intrusive array (address and entries, read through        *)
(*     -fno-access-control) exactly where the code left them.              *)
(* The L1 invariants of Mono are evaluated on every state; ContentsStable  *)
(* additionally consumes the canary verdict the driver logged (`intact`).  *)
(* Nothing stops the run: a violated clause is recorded as <<line, clause>>*)
(* and a line that is no step of Mono as <<line, "drift">> (the rest of    *)
(* that execution is skipped), so one pass judges every execution.         *)
(* The page size of an execution comes with its reset line.                *)
(***************************************************************************)
EXTENDS Mono, Json, IOUtils

Tr == ndJsonDeserialize(IOEnv.TRACE)

VARIABLES l,        \* next line to explain
          seen,     \* canaries as observed by the driver
          valid,    \* the current execution has been explained so far
          verd      \* verdicts: <<line, clause>> (clause "drift": the line is no step of Mono)

tvars == <<vars, l, seen, valid, verd>>

TInit ==
  /\ l = 2
  /\ seen = TRUE /\ valid = TRUE /\ verd = {}
  /\ Tr[1].k = "reset"
  /\ Init(Tr[1].P)
  /\ TLCSet(1, 1)
  /\ TLCSet(2, {})

Progress == TLCSet(1, IF TLCGet(1) < l' THEN l' ELSE TLCGet(1)) /\ TLCSet(2, verd')

\* the canaries the driver wrote into every block (checked after each step, inside every destructor and
\* before release) were never disturbed, and the model agrees that no bookkeeping write could have
TContentsStable == ContentsStable /\ seen

\* L1 clauses of the property, evaluated on the state the previous line has led to
ClauseNames == {"Aligned", "InsideOwnedMemory", "Disjoint", "ContentsStable", "ReleaseRunsEachDestructorOnce", "EachPageReturnedOnce",
                "OversizeReturnedWithSameBytesAlign", "AccountingZero", "ReusableAfterRelease"}
H(c) == CASE c = "Aligned" -> Aligned
          [] c = "InsideOwnedMemory" -> InsideOwnedMemory
          [] c = "Disjoint" -> Disjoint
          [] c = "ContentsStable" -> TContentsStable
          [] c = "ReleaseRunsEachDestructorOnce" -> ReleaseRunsEachDestructorOnce
          [] c = "EachPageReturnedOnce" -> EachPageReturnedOnce
          [] c = "OversizeReturnedWithSameBytesAlign" -> OversizeReturnedWithSameBytesAlign
          [] c = "AccountingZero" -> AccountingZero
          [] c = "ReusableAfterRelease" -> ReusableAfterRelease
Judged == IF valid THEN {<<l - 1, c>> : c \in {c \in ClauseNames : ~H(c)}} ELSE {}

\* first line of the next execution
NextReset(i) ==
  CHOOSE j \in (i + 1)..(Len(Tr) + 1) :
    /\ j = Len(Tr) + 1 \/ Tr[j].k = "reset"
    /\ \A k \in (i + 1)..(j - 1) : Tr[k].k # "reset"

UA(s) == [i \in 1..Len(s) |-> [a |-> s[i].a, n |-> s[i].n, al |-> s[i].al, u |-> s[i].src]]
UF(s) == [i \in 1..Len(s) |-> [a |-> s[i].a, n |-> s[i].n, al |-> s[i].al, u |-> s[i].to]]
ViewOas(s) == [i \in 1..Len(s) |-> [at |-> s[i].at,
                 ents |-> [j \in 1..Len(s[i].ents) |-> [a |-> s[i].ents[j].a, n |-> s[i].ents[j].n, al |-> s[i].ents[j].al]]]]
ViewDas(s) == [i \in 1..Len(s) |-> [at |-> s[i].at, ents |-> [j \in 1..Len(s[i].ents) |-> s[i].ents[j].id]]]

\* what the operation did to the outside world
Matches(m, e) ==
  /\ m.pal = e.pal
  /\ UA(m.ual) = e.ual
  /\ m.pfr = e.pfr
  /\ UF(m.ufr) = e.ufr
  /\ m.dts = e.dts
  /\ CASE e.op = "alloc" -> m.res = e.a
       [] e.op = "rd" -> m.id = e.id /\ m.fn = e.fn
       [] e.op = "contains" -> m.bres = e.res
       [] OTHER -> TRUE

\* where the code left its own state (not observable after the destructor)
ViewMatches(e) ==
  e.op # "destroy" =>
    /\ fb' = e.fb /\ fe' = e.fe /\ used' = e.used /\ alloc' = e.alloc /\ up' = e.up
    /\ pas' = e.vpas
    /\ ViewOas(oas') = e.voas
    /\ ViewDas(das') = e.vdas

Op ==
  /\ l <= Len(Tr) /\ Tr[l].k = "op"
  /\ LET e == Tr[l]
     IN /\ CASE e.op = "alloc" -> Allocate(e.n, e.al)
             [] e.op = "rd" -> RegisterDestructor
             [] e.op = "contains" -> Contains(e.p)
             [] e.op = "release" -> Release("release")
             [] e.op = "destroy" -> Release("destroy")
             [] e.op = "mva" -> MoveAssign
             [] e.op = "mvc" -> MoveConstruct
        /\ seen' = (IF e.op \in {"release", "destroy"} THEN TRUE ELSE seen /\ e.intact)
        /\ LET ok == valid /\ Matches(ev', e) /\ ViewMatches(e)
           IN /\ valid' = ok
              /\ l' = IF ok THEN l + 1 ELSE NextReset(l)
              /\ verd' = verd \cup Judged \cup (IF valid /\ ~ok THEN {<<l, "drift">>} ELSE {})

End ==
  /\ l <= Len(Tr) /\ Tr[l].k = "end"
  /\ l' = l + 1
  /\ verd' = verd \cup Judged
  /\ UNCHANGED <<vars, seen, valid>>

Reset ==
  /\ l <= Len(Tr) /\ Tr[l].k = "reset"
  /\ P' = Tr[l].P
  /\ pas' = <<>> /\ oas' = <<>> /\ das' = <<>>
  /\ fb' = 0 /\ fe' = 0 /\ used' = 0 /\ alloc' = 0 /\ up' = "rec" /\ nd' = 0
  /\ blocks' = {} /\ intact' = TRUE /\ dj' = TRUE /\ ins' = TRUE
  /\ pages' = {} /\ ulive' = {} /\ ucur' = UCur0
  /\ ev' = NoEv
  /\ seen' = TRUE /\ valid' = TRUE
  /\ verd' = verd \cup Judged
  /\ l' = l + 1

TNext == (Op \/ End \/ Reset) /\ Progress

TSpec == TInit /\ [][TNext]_tvars

\* <<"VERIF", lines consumed, lines, verdicts>>: every execution is judged in one pass
Post == PrintT(<<"VERIF", TLCGet(1) - 1, Len(Tr), TLCGet(2)>>)
=============================================================================
