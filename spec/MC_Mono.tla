------------------------------ MODULE MC_Mono ------------------------------
(***************************************************************************)
(* Model-checking instance of Mono: all request sequences up to MaxLen     *)
(* over a boundary request set (exhaustive, BFS) and random behaviours     *)
(* (Sim = TRUE, tlc -simulate) whose operation sequences are printed as    *)
(* driver programs and executed on the real resource (spec -> code).       *)
(***************************************************************************)
EXTENDS Mono

CONSTANTS PageSize,   \* page size
          Family,     \* request family, see below
          MaxLen,     \* number of operations
          WithMvc,    \* include the move constructor (drops the upstream: findings/C06_move_drops_upstream.md)
          Sim         \* TRUE: keep the operation history and print it at the end of every behaviour

VARIABLES len, hist

mcvars == <<vars, len, hist>>

ReqBytes ==
  CASE Family = "full" -> {0, 1, 8, 120, 128, 129, P - 128, P - 127, P - 1, P, P + 1, 2 * P}
    [] Family = "mid"  -> {0, 1, 120, P - 128, P - 127, P, P + 1}
    [] Family = "many" -> {8, P - 127, P + 1}
    [] Family = "sim"  -> {0, 1, 8, 120, 128, 129, P - 128, P - 127, P - 1, P, P + 1, 2 * P}
ReqAligns ==
  CASE Family = "full" -> {1, 8, 64, P, 2 * P}
    [] Family = "mid"  -> {1, 64, 2 * P}
    [] Family = "many" -> {1, 64}
    [] Family = "sim"  -> {1, 8, 64, P, 2 * P, 4 * P}
\* macro requests: cnt x (bytes, align)
ManyReqs ==
  CASE Family = "many" -> {<<c, b, 8>> : c \in {13, 14, 15}, b \in {P \div 2, P - 127, P, P + 1}} \cup {<<14, 1, 2 * P>>}
    [] Family = "sim"  -> {<<c, b, 8>> : c \in {3, 14, 15, 16}, b \in {P \div 2 + 1, P - 127, P, P + 1}}
    [] OTHER -> {}
RegCounts == IF Family \in {"many", "sim"} THEN {13, 14} ELSE {}
WithMoves == Family # "many"

Tok2(a, b) == a \o ":" \o ToString(b)
Tok3(a, b, c) == a \o ":" \o ToString(b) \o ":" \o ToString(c)
Tok4(a, b, c, d) == a \o ":" \o ToString(b) \o ":" \o ToString(c) \o ":" \o ToString(d)
Rec(tok) == hist' = IF Sim THEN Append(hist, tok) ELSE hist

ContainsCands ==
  {q \in {0, fb, fb - 1, fe, fe - 1, fe + 8, UB - 1} \cup UNION {{x.a, x.a + x.n - 1, x.a + x.n} : x \in blocks}
         \cup {k.a : k \in Book} : q >= 0}

MCInit == Init(PageSize) /\ len = 0 /\ hist = <<>>

MCNext ==
  \/ /\ len < MaxLen
     /\ len' = len + 1
     /\ \/ \E b \in ReqBytes, al \in ReqAligns : Allocate(b, al) /\ Rec(Tok3("a", b, al))
        \/ RegisterDestructor /\ Rec("d")
        \/ \E m \in ManyReqs : AllocateMany(m[1], m[2], m[3]) /\ Rec(Tok4("am", m[1], m[2], m[3]))
        \/ \E c \in RegCounts : RegisterMany(c) /\ Rec(Tok2("dm", c))
        \/ Release("release") /\ Rec("r")
        \/ WithMoves /\ MoveAssign /\ Rec("ma")
        \/ WithMvc /\ MoveConstruct /\ Rec("mc")
        \/ Sim /\ \E q \in ContainsCands : Contains(q) /\ Rec(Tok2("c", q))
  \/ /\ Sim /\ len = MaxLen
     /\ PrintT(<<"PROG", P, hist>>)
     /\ len' = len + 1
     /\ UNCHANGED <<vars, hist>>

MCSpec == MCInit /\ [][MCNext]_mcvars
=============================================================================
