------------------------------ MODULE MC_Mono ------------------------------
(***************************************************************************)
(* Model-checking instance of Mono: all request sequences up to MaxLen     *)
(* over a boundary request set (exhaustive, BFS) and random behaviours     *)
(* (Sim = TRUE, tlc -simulate) whose operation sequences are printed as    *)
(* driver programs and executed on the real resource (spec -> code).       *)
(***************************************************************************)
EXTENDS Mono

CONSTANTS Configs,    \* set of [P, fam, len, mvc]: page size, request family (below), number of operations,
                      \* whether the move constructor is included (it drops the upstream:
                      \* findings/C06_move_drops_upstream.md); one run explores every configuration of the set
          Sim         \* TRUE: one random operation per step, the operation history is printed at the end

VARIABLES cf, len, hist

mcvars == <<vars, cf, len, hist>>

C(p, f, n) == [P |-> p, fam |-> f, len |-> n, mvc |-> FALSE]
QuickConfigs == {C(256, "mid", 3), C(256, "many", 2), C(128, "mid", 2), C(256, "rem", 2)}
ThoroughConfigs == {C(256, "full", 3), C(256, "mid", 4), C(256, "many", 3), C(256, "rem", 4),
                    C(128, "mid", 3), C(128, "many", 2), C(128, "rem", 3), C(512, "mid", 3), C(512, "many", 2), C(512, "rem", 4),
                    C(4096, "mid", 3), C(4096, "many", 2)}
MvcConfigs == {[P |-> 256, fam |-> "mid", len |-> 3, mvc |-> TRUE]}
Sim128 == {C(128, "sim", 12)}
Sim256 == {C(256, "sim", 12)}
Sim512 == {C(512, "sim", 12)}

Family == cf.fam
MaxLen == cf.len
WithMvc == cf.mvc

ReqBytes ==
  CASE Family = "full" -> {0, 1, 8, 120, 128, 129, P - 128, P - 127, P - 1, P, P + 1, 2 * P}
    [] Family = "mid"  -> {0, 1, 120, P - 128, P - 127, P, P + 1}
    [] Family = "many" -> {8, P - 127, P + 1}
    [] Family = "rem"  -> {8, P - 128, P - 127}
    [] Family = "sim"  -> {0, 1, 8, 120, 128, 129, P - 128, P - 127, P - 1, P, P + 1, 2 * P}
ReqAligns ==
  CASE Family = "full" -> {1, 8, 64, P, 2 * P}
    [] Family = "mid"  -> {1, 64, 2 * P}
    [] Family = "many" -> {1, 64}
    [] Family = "rem"  -> {1, 8}
    [] Family = "sim"  -> {1, 8, 64, P, 2 * P, 4 * P}
\* requests relative to the space left in the current page after aligning: the exact boundary of the
\* fits / does-not-fit decision and of the "page array in the tail of the old page" placement
RelDeltas ==
  CASE Family = "mid"  -> {0, 1}
    [] Family = "many" -> {-128, -127}
    [] Family = "rem"  -> {-129, -128, -127, -1, 0, 1}
    [] Family = "sim"  -> {-129, -128, -127, -1, 0, 1}
    [] OTHER -> {}
Requests(al) == {b \in ReqBytes \cup {(fe - RoundUp(fb, al)) + d : d \in RelDeltas} : b >= 0}
\* macro requests: cnt x (bytes, align)
ManyReqs ==
  CASE Family = "many" -> {<<c, b, 8>> : c \in {13, 14, 15}, b \in {P \div 2, P - 127, P, P + 1}} \cup {<<14, 1, 2 * P>>}
    [] Family = "rem"  -> {<<c, P \div 2 + 1, 8>> : c \in {14, 15}}
    [] Family = "sim"  -> {<<c, b, 8>> : c \in {3, 14, 15, 16}, b \in {P \div 2 + 1, P - 127, P, P + 1}}
    [] OTHER -> {}
RegCounts == IF Family \in {"many", "sim"} THEN {13, 14} ELSE {}
WithMoves == Family \notin {"many", "rem"}

Tok2(a, b) == a \o ":" \o ToString(b)
Tok3(a, b, c) == a \o ":" \o ToString(b) \o ":" \o ToString(c)
Tok4(a, b, c, d) == a \o ":" \o ToString(b) \o ":" \o ToString(c) \o ":" \o ToString(d)
Rec(tok) == hist' = Append(hist, tok)

ContainsCands ==
  {q \in {0, fb - 1, fe - 1, fe + 8} \cup {x.a + x.n - 1 : x \in {y \in blocks : y.n >= P}} : q >= 0}

MCInit == \E c \in Configs : cf = c /\ Init(c.P) /\ len = 0 /\ hist = <<>>

\* exhaustive exploration: every request of the family at every step
AllNext ==
  /\ len < MaxLen
  /\ len' = len + 1
  /\ UNCHANGED <<hist, cf>>
  /\ \/ \E al \in ReqAligns : \E b \in Requests(al) : Allocate(b, al)
     \/ RegisterDestructor
     \/ \E m \in ManyReqs : AllocateMany(m[1], m[2], m[3])
     \/ \E c \in RegCounts : RegisterMany(c)
     \/ Release("release")
     \/ WithMoves /\ MoveAssign
     \/ WithMvc /\ MoveConstruct

\* simulation: ONE randomly chosen operation per step (RandomElement is evaluated once, inside a singleton
\* set), so that a behaviour costs one successor per step; the operation sequence is recorded in hist
Pick(S) == {RandomElement(S)}
SimNext ==
  \/ /\ len < MaxLen
     /\ len' = len + 1 /\ cf' = cf
     /\ \E kind \in Pick(1..20) :
          CASE kind <= 9 ->
                 \E al \in Pick(ReqAligns) : \E b \in Pick(Requests(al)) : Allocate(b, al) /\ Rec(Tok3("a", b, al))
            [] kind \in 10..11 ->
                 \E m \in Pick(ManyReqs) : AllocateMany(m[1], m[2], m[3]) /\ Rec(Tok4("am", m[1], m[2], m[3]))
            [] kind \in 12..14 -> RegisterDestructor /\ Rec("d")
            [] kind = 15 ->
                 \E c \in Pick(RegCounts) :
                    IF Len(das) > 0 /\ Len(Last(das).ents) + c <= CAP
                    THEN RegisterMany(c) /\ Rec(Tok2("dm", c))
                    ELSE RegisterDestructor /\ Rec("d")
            [] kind \in 16..17 -> \E q \in Pick(ContainsCands) : Contains(q) /\ Rec(Tok2("c", q))
            [] kind = 18 -> Release("release") /\ Rec("r")
            [] kind = 19 -> MoveAssign /\ Rec("ma")
            [] OTHER -> \E b \in Pick({P - 127, P, P + 1, 2 * P}) : Allocate(b, 8) /\ Rec(Tok3("a", b, 8))
  \/ /\ len = MaxLen
     /\ PrintT(<<"PROG", P, hist>>)
     /\ len' = len + 1
     /\ UNCHANGED <<vars, hist, cf>>

MCNext == IF Sim THEN SimNext ELSE AllNext

MCSpec == MCInit /\ [][MCNext]_mcvars
=============================================================================
