------------------------------ MODULE LogEntry ------------------------------
(***************************************************************************)
(* C20, sequential half.  babylon::LogStreamBuffer (the WRITER) builds a   *)
(* LogEntry page by page while bytes are streamed into it; LogEntry::      *)
(* append_to_iovec (the READER) later rebuilds the scatter list from       *)
(* `size` ALONE.  Both are transcribed here statement by statement         *)
(* (src/babylon/logging/log_entry.{h,cpp}):                                *)
(*                                                                         *)
(*   LogEntry   { size; pages[IPC-1]; head }     head aliases pages[IPC-1] *)
(*   PageTable  { next; pages[F] }               F = (P - 8) / 8           *)
(*   writer     begin / xsputn -> overflow -> overflow_page_table / sync / *)
(*              end                                                        *)
(*   reader     append_to_iovec / pages_append_to_iovec /                  *)
(*              page_table_append_to_iovec                                 *)
(*                                                                         *)
(* Pages are identified by the order of allocation (1, 2, 3 ...), which is *)
(* exactly what the recording PageAllocator of the driver logs.  The bytes *)
(* of a data page are a contiguous interval of the stream, so a page's     *)
(* content is represented by [start, len] (stream offset of its first      *)
(* byte, bytes stored): "concatenated iovecs = bytes written" is then      *)
(* decidable without enumerating bytes, also for P = 4096.                 *)
(*                                                                         *)
(* L1 clauses (property C20, first sentence):                              *)
(*   BytesRoundTrip, EachPageListedOnce, NoForeignPage, PagesConserved     *)
(* plus NoOverrun (no page pointer is stored outside a table page) and     *)
(* SizeIsBytes (size field + unsynced part = bytes streamed).              *)
(***************************************************************************)
EXTENDS Naturals, Integers, Sequences, FiniteSets, TLC, SequencesExt

CONSTANTS IPC,        \* LogEntry::INLINE_PAGE_CAPACITY (read from the header by the driver: 6)
          PageSizes,  \* page sizes explored by the model checker
          MaxChunk,   \* largest single write explored (0 = any); jumps to every boundary are always explored
          FanOneBeyond, \* FALSE: page sizes with table fan-out 1 (P = 16) are explored up to the inline capacity only
                        \* (beyond it the code overruns the table page: finding C20_page16_table_overrun)
          NearOnly    \* TRUE: only the sizes within 2 of a page / inline / table boundary (large pages)

VARIABLES P,    \* page size of this behaviour
          st,   \* "idle" | "open" | "ended" | "released"
          s,    \* the LogStreamBuffer / LogEntry / allocator state (record, see S0)
          pool, \* pages handed back to the allocator by the release
          ev    \* ghost: the operation just performed (spec -> code replay); hidden by VIEW

vars == <<P, st, s, pool, ev>>

Fan(p) == (p - 8) \div 8                     \* (page_size - sizeof(PageTable)) / sizeof(char*)
NMax(p) == IPC * p + 2 * Fan(p) * p + 2      \* inline capacity + 2 full tables + 2
Lo(a, b) == IF a < b THEN a ELSE b

\* sizes at which anything changes: page, inline and table boundaries
Boundaries(p) == {0, p, 2 * p, (IPC - 1) * p, IPC * p, (IPC + 1) * p,
                  (IPC - 1) * p + Fan(p) * p, (IPC - 1) * p + Fan(p) * p + p,
                  (IPC - 1) * p + 2 * Fan(p) * p, (IPC - 1) * p + 2 * Fan(p) * p + p}
Near(p) == {n \in UNION {(IF b >= 2 THEN b - 2 ELSE 0)..(b + 2) : b \in Boundaries(p)} : n <= NMax(p)}
\* every size for small pages; the neighbourhood of every boundary for large ones
Allowed(p) == IF Fan(p) < 2 /\ ~FanOneBeyond THEN 0..IPC * p ELSE IF NearOnly THEN Near(p) ELSE 0..NMax(p)

NoEv == [k |-> "", n |-> 0]

S0(base) == [
  lsize |-> 0,                               \* _log.size
  inl |-> [i \in 0..IPC - 1 |-> 0],          \* _log.pages[0..IPC-2], slot IPC-1 = _log.head
  tab |-> << >>,                             \* table page id -> [next, slots]
  cur |-> [w |-> 0, idx |-> 0, end |-> IPC], \* _pages / _pages_end: w = 0 inline, else table id
  pg |-> 0, pp |-> 0, sp |-> 0, ep |-> 0,    \* put area: page, pptr, _sync_point, epptr (offsets)
  base |-> base, nalloc |-> base,            \* pages base+1 .. nalloc were allocated for this entry
  pgs |-> << >>,                             \* pgs[id - base] = [kind: "data" | "table", start, len]: the bytes of a data
                                             \* page are the stream interval start .. start+len-1
  wr |-> 0,                                  \* ghost: bytes streamed
  allocs |-> << >>,                          \* ghost: pages allocated by the last operation
  overrun |-> FALSE, spill |-> << >>         \* page pointers stored past the end of a table page
]

Ext(f, k, v) == [x \in DOMAIN f \cup {k} |-> IF x = k THEN v ELSE f[x]]

\* ---- writer --------------------------------------------------------------------------------
\* int LogStreamBuffer::sync()
Sync(x) == IF x.pp > x.sp THEN [x EXCEPT !.lsize = x.lsize + (x.pp - x.sp), !.sp = x.pp] ELSE x

\* void LogStreamBuffer::overflow_page_table()      (the data page was allocated just before)
OverflowPageTable(x, F) ==
  LET T == x.nalloc + 1
      fresh == [next |-> 0, slots |-> [i \in 0..F - 1 |-> 0]]
      y == [x EXCEPT !.nalloc = T, !.pgs = Append(x.pgs, [kind |-> "table", start |-> 0, len |-> 0]), !.allocs = Append(x.allocs, T)]
  IN IF x.cur.w = 0 /\ x.cur.idx = IPC
     THEN \* inline table exhausted: the last inline pointer moves into slot 0, head := new table
          [y EXCEPT !.tab = Ext(x.tab, T, [fresh EXCEPT !.slots = IF F > 0 THEN [fresh.slots EXCEPT ![0] = x.inl[IPC - 1]] ELSE fresh.slots]),
                    !.inl = [x.inl EXCEPT ![IPC - 1] = T],
                    !.cur = [w |-> T, idx |-> 1, end |-> F],
                    !.overrun = x.overrun \/ F < 1]
     ELSE \* chain behind the table whose end is _pages_end
          [y EXCEPT !.tab = Ext([x.tab EXCEPT ![x.cur.w].next = T], T, fresh),
                    !.cur = [w |-> T, idx |-> 0, end |-> F]]

\* int LogStreamBuffer::overflow(int ch)  up to and including setp(); the sputc(ch) is part of Put
Overflow(x, p) ==
  LET F == Fan(p)
      x1 == Sync(x)
      page == x1.nalloc + 1
      x2 == [x1 EXCEPT !.nalloc = page, !.pgs = Append(x1.pgs, [kind |-> "data", start |-> x1.wr, len |-> 0]),
                       !.allocs = Append(x1.allocs, page)]
      x3 == IF x2.cur.idx = x2.cur.end THEN OverflowPageTable(x2, F) ELSE x2
      c == x3.cur
      x4 == IF c.w = 0 THEN [x3 EXCEPT !.inl[c.idx] = page]
            ELSE IF c.idx < F THEN [x3 EXCEPT !.tab[c.w].slots[c.idx] = page]
            ELSE [x3 EXCEPT !.overrun = TRUE, !.spill = Append(x3.spill, page)]
  IN [x4 EXCEPT !.cur.idx = c.idx + 1, !.pg = page, !.pp = 0, !.sp = 0, !.ep = p]

\* xsputn / sputc of k bytes: copy what fits, overflow, copy ... (iterated with FoldLeft: no deep recursion)
PutStep(a, p) ==
  LET x == a.x
  IN IF a.k = 0 THEN a
     ELSE IF x.pp = x.ep THEN [x |-> Overflow(x, p), k |-> a.k]
     ELSE LET m == Lo(a.k, x.ep - x.pp)
              j == x.pg - x.base
          IN [x |-> [x EXCEPT !.pp = x.pp + m, !.pgs[j].len = x.pgs[j].len + m, !.wr = x.wr + m], k |-> a.k - m]
Put(x, k, p) == FoldLeft(LAMBDA a, i : PutStep(a, p), [x |-> x, k |-> k], [i \in 1..2 * (k \div p) + 4 |-> i]).x

AbsSize(x) == x.lsize + (x.pp - x.sp)

\* ---- reader --------------------------------------------------------------------------------
Seg(page, len) == [page |-> page, len |-> len]
Null == Seg(-1, 0)          \* the reader would dereference a null / unwritten pointer here

\* pages_append_to_iovec(pages, size, page_size, iov); slots: index -> page id
PagesIov(slots, size, p) ==
  LET num == size \div p
      rest == size - num * p
      At(i) == IF i \in DOMAIN slots THEN slots[i] ELSE -1
  IN [i \in 1..num |-> Seg(At(i - 1), p)] \o (IF rest > 0 THEN <<Seg(At(num), rest)>> ELSE << >>)

\* page_table_append_to_iovec(table, size, page_size, iov)
RECURSIVE TableIov(_, _, _, _)
TableIov(tab, T, size, p) ==
  LET full == Fan(p) * p
  IN IF T \notin DOMAIN tab THEN <<Null>>
     ELSE IF size > full THEN PagesIov(tab[T].slots, full, p) \o <<Seg(T, 0)>> \o TableIov(tab, tab[T].next, size - full, p)
     ELSE IF size > 0 THEN PagesIov(tab[T].slots, size, p) \o <<Seg(T, 0)>>
     ELSE << >>

\* LogEntry::append_to_iovec(page_size, iov): from size, the inline slots and what they point to
Iovec(size, inl, tab, p) ==
  LET fullInline == IPC * p
  IN IF size > fullInline
     THEN PagesIov(inl, fullInline - p, p) \o TableIov(tab, inl[IPC - 1], size - fullInline + p, p)
     ELSE PagesIov(inl, size, p)

IovOf(x, p) == Iovec(AbsSize(x), x.inl, x.tab, p)

\* (TLC re-evaluates LET-bound sequences on every reference inside a state predicate: each clause
\*  therefore hands the scatter list exactly once to a fold, which is evaluated on a concrete value)
PageSet(iov) == FoldLeft(LAMBDA acc, g : acc \cup {g.page}, {}, iov)

\* ---- actions -------------------------------------------------------------------------------
Init ==
  /\ P \in PageSizes
  /\ st = "idle" /\ s = S0(0) /\ pool = {} /\ ev = NoEv

Begin ==
  /\ st \in {"idle", "released"}     \* the stream buffer is reused for the next entry
  /\ st' = "open" /\ s' = S0(s.nalloc) /\ pool' = {}
  /\ ev' = [k |-> "begin", n |-> 0]
  /\ UNCHANGED P

Write(k) ==
  /\ st = "open"
  /\ s.wr + k \in Allowed(P)
  /\ s' = Put([s EXCEPT !.allocs = << >>], k, P)
  /\ ev' = [k |-> "write", n |-> k]
  /\ UNCHANGED <<P, st, pool>>

End ==
  /\ st = "open"
  /\ st' = "ended" /\ s' = [Sync(s) EXCEPT !.allocs = << >>]
  /\ ev' = [k |-> "end", n |-> 0]
  /\ UNCHANGED <<P, pool>>

\* what AsyncFileAppender does after writev / in discard: every iov_base goes back to the allocator
Release ==
  /\ st = "ended"
  /\ st' = "released"
  /\ pool' = PageSet(IovOf(s, P))
  /\ ev' = [k |-> "release", n |-> 0]
  /\ UNCHANGED <<P, s>>

Chunks == IF MaxChunk = 0 THEN 1..NMax(P) ELSE 1..Lo(MaxChunk, NMax(P))
\* large writes: a first write to the neighbourhood of every boundary; later, to the next allowed size
Jumps == IF s.wr = 0 THEN {n \in Near(P) : n > 0}
         ELSE {n - s.wr : n \in {b \in Allowed(P) : b > s.wr /\ \A m \in Allowed(P) : m > s.wr => b <= m}}

Next == Begin \/ (\E k \in Chunks \cup Jumps : Write(k)) \/ End \/ Release
Spec == Init /\ [][Next]_vars

\* ---- L1 clauses ----------------------------------------------------------------------------
Live == st \in {"open", "ended", "released"}
Pages(x) == x.base + 1..x.nalloc

\* the scatter list describes exactly the streamed bytes 0 .. wr-1, in order
KindOf(x, id) == IF id \in Pages(x) THEN x.pgs[id - x.base].kind ELSE "foreign"
Consecutive(iov, x) ==
  FoldLeft(LAMBDA off, g : IF off < 0 \/ g.len = 0 THEN off
                           ELSE IF KindOf(x, g.page) = "data" /\ x.pgs[g.page - x.base].start = off /\ g.len <= x.pgs[g.page - x.base].len
                                THEN off + g.len ELSE -1,
           0, iov)

SizeIsBytes == Live => AbsSize(s) = s.wr
BytesRoundTrip == Live => Consecutive(IovOf(s, P), s) = s.wr
EachPageListedOnce ==
  Live => /\ Len(IovOf(s, P)) = Cardinality(Pages(s))     \* as many list entries as pages ...
          /\ PageSet(IovOf(s, P)) = Pages(s)               \* ... and every page among them: each exactly once
NoForeignPage ==
  Live => FoldLeft(LAMBDA ok, g : /\ ok
                                  /\ g.page \in Pages(s)
                                  /\ g.len <= P
                                  /\ (g.len = 0) = (KindOf(s, g.page) = "table"),
                   TRUE, IovOf(s, P))
PagesConserved == st = "released" => pool = Pages(s)
NoOverrun == ~s.overrun

\* state identity without the ghost event
View == <<P, st, [s EXCEPT !.allocs = << >>], pool>>
=============================================================================
