--------------------------------- MODULE GC ---------------------------------
(***************************************************************************)
(* L2 specification of babylon::GarbageCollector<R>                        *)
(* (src/babylon/concurrent/garbage_collector.h) over an ABSTRACT epoch     *)
(* (global version, per region the epoch it entered with or MAXV; tick;    *)
(* low-water mark - the abstraction C09 justifies) and an ABSTRACT bounded *)
(* queue (C01/C02: tickets in FIFO order, a cell is written once its slot  *)
(* is free, the consumer takes a published prefix and frees the slots      *)
(* afterwards).                                                            *)
(*                                                                         *)
(*   retire(R)   : tick -> e ; push<true,false,false>: ticket, wait until  *)
(*                 the slot is free (spins: retire BLOCKS while the queue  *)
(*                 is full), write + publish                               *)
(*   keep_reclaim: while (running) {                                       *)
(*                   if (index == tasks.size()) { tasks.clear();           *)
(*                       running = consume(batch, tasks); index = 0; }     *)
(*                   index += reclaim_start_from(index, tasks);            *)
(*                   usleep(backoff); }                                    *)
(*     consume   : ONE try_pop_n(batch); the stop marker (epoch MAXV) ends *)
(*                 the batch and clears `running`                          *)
(*     reclaim_start_from : mark = low_water_mark(); invoke the reclaimers *)
(*                 of tasks[index..] in order while epoch <= mark          *)
(*   stop()      : if joinable: push the marker; join                      *)
(*   ~GC()       : stop()                                                  *)
(*                                                                         *)
(* Several threads may retire concurrently: tick and push are separate     *)
(* steps, so the queue (and a consumed batch) is NOT ordered by epoch.      *)
(*                                                                         *)
(* The constant Drain selects the loop condition: FALSE = `while (running)`*)
(* - what the originally pinned commit executed (finding H2); TRUE = `while *)
(* (running || index < tasks.size())` - the repaired loop of /repo HEAD.  Which one the code under test      *)
(* follows is decided by trace validation (GC_Trace), like the memory      *)
(* order tables of the weak-memory components.                             *)
(***************************************************************************)
EXTENDS Naturals, Integers, Sequences, FiniteSets, TLC

CONSTANTS Configs,  \* set of configurations [cap, prog, nreg]
          Drain     \* BOOLEAN, see above

VARIABLES cfg,
          ver,      \* global epoch
          reg,      \* reg[r]: epoch region r entered with, MAXV = closed
          q,        \* queue window: sequence of cells [id, e, st, owner], st \in {"ticket", "pub", "taken"}
          col,      \* collector thread: [pc, tasks, index, running, avail, snap, mark, pidx (pop index mod capacity), seg, room, rest, full]
          pc, L,    \* client threads
          H,        \* history (L1 observables)
          ev

vars == <<cfg, ver, reg, q, col, pc, L, H, ev>>

MAXV == 1000000
Thr == 1..Len(cfg.prog)
Cap == cfg.cap
Batch == IF Cap < 1024 THEN Cap ELSE 1024
Regs == 1..cfg.nreg
Ids == 1..12

MinOf(a, b) == IF a <= b THEN a ELSE b
SetMin(S) == IF S = {} THEN MAXV ELSE CHOOSE x \in S : \A y \in S : x <= y
Op(t) == cfg.prog[t][L[t].opi]
HasOp(t) == L[t].opi <= Len(cfg.prog[t])

NoEv == [t |-> 0, k |-> "", op |-> "", x |-> 0, n |-> 0, vals |-> <<>>]
L0 == [opi |-> 1, e |-> 0, v |-> 0]
Col0 == [pc |-> "c_cons", tasks |-> <<>>, index |-> 0, running |-> TRUE, avail |-> 0, snap |-> <<>>, mark |-> 0,
         pidx |-> 0, seg |-> 1, room |-> 0, rest |-> 0, full |-> FALSE]
H0(c) == [dep |-> [r \in 1..c.nreg |-> 0],   \* nesting depth of region r (lock_times of its slot)
          gen |-> [r \in 1..c.nreg |-> 0],   \* how often region r was entered
          openAt |-> [i \in Ids |-> {}],      \* region instances open when retire(i) was called
          returned |-> {},                    \* retire(i) returned
          cnt |-> [i \in Ids |-> 0],          \* invocations of reclaimer i
          joinable |-> TRUE,
          stopping |-> FALSE,                 \* the stop() that joins is executing
          rds |-> FALSE,                      \* some region was (possibly) open at some point of that stop()
          beforeStop |-> {},                  \* reclaimers whose retire had returned when it was called
          bad |-> {}]

InitFor(c) ==
  /\ cfg = c
  /\ ver = 0
  /\ reg = [r \in 1..c.nreg |-> MAXV]
  /\ q = <<>>
  /\ col = Col0
  /\ pc = [t \in 1..Len(c.prog) |-> "idle"]
  /\ L = [t \in 1..Len(c.prog) |-> L0]
  /\ H = H0(c)
  /\ ev = NoEv

Init == \E c \in Configs : InitFor(c)

Goto(t, p) == pc' = [pc EXCEPT ![t] = p]
SetL(t, l) == L' = [L EXCEPT ![t] = l]
OpenNow == {<<r, H.gen[r]>> : r \in {x \in Regs : reg[x] # MAXV}}
\* a region that has begun to enter (read the version) counts as open for the L1 bookkeeping only once
\* its lock returned; at L2 "open" = published
Bad(b, name) == IF b THEN H.bad \cup {name} ELSE H.bad

(***************************************************************************)
(* client: critical regions (abstract epoch, two steps as in Epoch::lock)  *)
(***************************************************************************)
\* Regions nest: only the outermost lock reads the version and publishes it, only the matching unlock resets the
\* slot - the entry epoch of a region is that of its OUTERMOST lock.
EnterLoad(t) ==
  /\ pc[t] = "idle" /\ HasOp(t) /\ Op(t).op = "enter" /\ H.dep[Op(t).x] = 0
  /\ SetL(t, [L[t] EXCEPT !.v = ver])
  /\ Goto(t, "e_pub")
  /\ H' = [H EXCEPT !.rds = @ \/ H.stopping]
  /\ ev' = [NoEv EXCEPT !.t = t, !.k = "eload", !.x = Op(t).x, !.n = ver]
  /\ UNCHANGED <<cfg, ver, reg, q, col>>

EnterPub(t) ==
  /\ pc[t] = "e_pub"
  /\ reg' = [reg EXCEPT ![Op(t).x] = L[t].v]
  /\ H' = [H EXCEPT !.gen[Op(t).x] = @ + 1, !.dep[Op(t).x] = 1]
  /\ SetL(t, [L[t] EXCEPT !.opi = @ + 1, !.v = 0])
  /\ Goto(t, "idle")
  /\ ev' = [NoEv EXCEPT !.t = t, !.k = "epub", !.x = Op(t).x, !.n = L[t].v]
  /\ UNCHANGED <<cfg, ver, q, col>>

EnterNested(t) ==
  /\ pc[t] = "idle" /\ HasOp(t) /\ Op(t).op = "enter" /\ H.dep[Op(t).x] >= 1
  /\ H' = [H EXCEPT !.dep[Op(t).x] = @ + 1]
  /\ SetL(t, [L[t] EXCEPT !.opi = @ + 1])
  /\ ev' = [NoEv EXCEPT !.t = t, !.k = "enest", !.x = Op(t).x]
  /\ UNCHANGED <<cfg, ver, reg, q, col, pc>>

Leave(t) ==
  /\ pc[t] = "idle" /\ HasOp(t) /\ Op(t).op = "leave"
  /\ IF H.dep[Op(t).x] >= 2
     THEN /\ ev' = [NoEv EXCEPT !.t = t, !.k = "lnest", !.x = Op(t).x]
          /\ UNCHANGED reg
     ELSE /\ reg' = [reg EXCEPT ![Op(t).x] = MAXV]
          /\ ev' = [NoEv EXCEPT !.t = t, !.k = "eleave", !.x = Op(t).x]
  /\ H' = [H EXCEPT !.dep[Op(t).x] = IF @ > 0 THEN @ - 1 ELSE 0]
  /\ SetL(t, [L[t] EXCEPT !.opi = @ + 1])
  /\ UNCHANGED <<cfg, ver, q, col, pc>>

(***************************************************************************)
(* retire                                                                  *)
(***************************************************************************)
PosOf(t) == CHOOSE p \in 1..Len(q) : q[p].owner = t /\ q[p].st = "ticket"

\* contract of stop() / the destructor: no retire() is executing or still to come on another thread
NoRetirePending(t) == \A u \in Thr \ {t} : \A j \in L[u].opi..Len(cfg.prog[u]) : cfg.prog[u][j].op # "retire"

Call(t) ==
  /\ pc[t] = "idle" /\ HasOp(t) /\ Op(t).op \in {"retire", "stop", "dtor"}
  /\ (Op(t).op \in {"stop", "dtor"} => NoRetirePending(t))
  /\ LET o == Op(t) IN
     /\ ev' = [NoEv EXCEPT !.t = t, !.k = "call", !.op = o.op, !.x = o.x]
     /\ IF o.op = "retire"
        THEN /\ H' = [H EXCEPT !.openAt[o.x] = OpenNow]
             /\ Goto(t, "r_tick")
        ELSE \* stop() / ~GarbageCollector(): only the first one finds the thread joinable
             /\ H' = [H EXCEPT !.stopping = H.joinable,
                               !.rds = IF H.joinable THEN (OpenNow # {} \/ \E u \in Thr : pc[u] = "e_pub") ELSE @,
                               !.beforeStop = IF H.joinable THEN H.returned ELSE @]
             /\ Goto(t, IF H.joinable THEN "s_ticket" ELSE "ret")
  /\ UNCHANGED <<cfg, ver, reg, q, col, L>>

RTick(t) ==
  /\ pc[t] = "r_tick"
  /\ ver' = ver + 1
  /\ SetL(t, [L[t] EXCEPT !.e = ver + 1])
  /\ Goto(t, "r_ticket")
  /\ ev' = [NoEv EXCEPT !.t = t, !.k = "tick", !.n = ver + 1]
  /\ UNCHANGED <<cfg, reg, q, col, H>>

\* _next_push_index.fetch_add
Ticket(t) ==
  /\ pc[t] \in {"r_ticket", "s_ticket"}
  /\ LET marker == pc[t] = "s_ticket"
     IN q' = Append(q, [id |-> IF marker THEN 0 ELSE Op(t).x, e |-> IF marker THEN MAXV ELSE L[t].e, st |-> "ticket", owner |-> t])
  /\ Goto(t, IF pc[t] = "r_ticket" THEN "r_fill" ELSE "s_fill")
  /\ ev' = [NoEv EXCEPT !.t = t, !.k = "ticket"]
  /\ UNCHANGED <<cfg, ver, reg, col, L, H>>

\* the slot of the ticket has been freed by the consumer (spins until then): write the task, publish it
Fill(t) ==
  /\ pc[t] \in {"r_fill", "s_fill"}
  /\ PosOf(t) <= Cap
  /\ q' = [q EXCEPT ![PosOf(t)].st = "pub"]
  /\ Goto(t, IF pc[t] = "r_fill" THEN "ret" ELSE "s_join")
  /\ ev' = [NoEv EXCEPT !.t = t, !.k = "fill"]
  /\ UNCHANGED <<cfg, ver, reg, col, L, H>>

Join(t) ==
  /\ pc[t] = "s_join" /\ col.pc = "exited"
  /\ H' = [H EXCEPT !.joinable = FALSE]
  /\ Goto(t, "ret")
  /\ ev' = [NoEv EXCEPT !.t = t, !.k = "join"]
  /\ UNCHANGED <<cfg, ver, reg, q, col, L>>

Outstanding(h) == Cardinality({i \in h.returned : h.cnt[i] = 0})

Ret(t) ==
  /\ pc[t] = "ret"
  /\ LET o == Op(t)
         ret1 == H.returned \cup {o.x}
         missing == {i \in H.beforeStop : H.cnt[i] = 0}
     IN /\ ev' = [NoEv EXCEPT !.t = t, !.k = "ret", !.op = o.op, !.x = o.x]
        /\ H' = IF o.op = "retire"
                THEN [H EXCEPT !.returned = ret1,
                               \* no more than the queue and one batch can be pending: retire blocked while the queue was full
                               !.bad = Bad(Cardinality({i \in ret1 : H.cnt[i] = 0}) > Cap + Batch, "RetireBlocksAndResumes")]
                ELSE [H EXCEPT !.stopping = FALSE,
                               \* two witness classes: a region was open at some point of the stop() call / none was
                               !.bad = IF missing = {} THEN @
                                       ELSE IF H.rds THEN @ \cup {"AllReclaimedRegionOpenDuringStop"}
                                       ELSE @ \cup {"AllReclaimedWhenStopReturns"}]
  /\ SetL(t, [L[t] EXCEPT !.opi = @ + 1, !.e = 0])
  /\ Goto(t, "idle")
  /\ UNCHANGED <<cfg, ver, reg, q, col>>

(***************************************************************************)
(* collector thread (keep_reclaim)                                         *)
(***************************************************************************)
\* number of leading published cells, at most n
PubPrefixN(n) == LET RECURSIVE N(_)
                     N(p) == IF p <= Len(q) /\ q[p].st = "pub" /\ p <= n THEN N(p + 1) ELSE p - 1
                 IN N(1)

\* top of the loop (pure control, folded into the step that reaches it)
TopPc(running, index, ntasks) ==
  IF Drain
  THEN IF ~running /\ index = ntasks THEN "c_exit" ELSE IF index = ntasks THEN "c_cons" ELSE "c_lwb"
  ELSE IF ~running THEN "c_exit" ELSE IF index = ntasks THEN "c_cons" ELSE "c_lwb"

\* try_pop_n(batch) begins.  The range [pop index, pop index + batch) is dealt with in up to two contiguous
\* segments (split at the end of the ring): scan, index store, callback, slot release - per segment; the second
\* segment is only tried when the first one was complete.  What is published when a segment's scan begins
\* will certainly be taken.
ConsBegin ==
  /\ col.pc = "c_cons"
  /\ LET n1 == MinOf(Batch, Cap - col.pidx)
     IN col' = [col EXCEPT !.pc = "c_take", !.seg = 1, !.room = n1, !.rest = Batch - n1, !.avail = PubPrefixN(n1),
                           !.tasks = <<>>, !.index = 0]
  /\ ev' = [NoEv EXCEPT !.k = "cbegin"]
  /\ UNCHANGED <<cfg, ver, reg, q, pc, L, H>>

\* index store + callback of one segment: the callback moves the tasks out, up to the stop marker
Take ==
  /\ col.pc = "c_take"
  /\ \E k \in col.avail..PubPrefixN(col.room) :
       LET cells == SubSeq(q, 1, k)
           m == IF \E p \in 1..k : cells[p].id = 0 THEN CHOOSE p \in 1..k : cells[p].id = 0 /\ \A p2 \in 1..p - 1 : cells[p2].id # 0 ELSE 0
           moved == IF m = 0 THEN cells ELSE SubSeq(cells, 1, m - 1)
       IN /\ q' = [p \in 1..Len(q) |-> IF p <= k THEN [q[p] EXCEPT !.st = "taken"] ELSE q[p]]
          /\ col' = [col EXCEPT !.pc = IF k = 0 THEN "c_lwb" ELSE "c_rel", !.avail = k,
                                !.full = (k = col.room),
                                !.tasks = @ \o [p \in 1..Len(moved) |-> [id |-> moved[p].id, e |-> moved[p].e]],
                                !.running = IF m = 0 THEN @ ELSE FALSE]
          /\ ev' = [NoEv EXCEPT !.k = "take", !.n = k, !.vals = [p \in 1..Len(moved) |-> moved[p].id]]
  /\ UNCHANGED <<cfg, ver, reg, pc, L, H>>

\* the slots of the segment are handed back one by one (version stores after the callback)
Release ==
  /\ col.pc = "c_rel"
  /\ q' = Tail(q)
  /\ LET last == col.avail = 1
         second == last /\ col.seg = 1 /\ col.full /\ col.rest > 0
         q1 == Tail(q)
         pub2 == LET RECURSIVE N(_)
                     N(p) == IF p <= Len(q1) /\ q1[p].st = "pub" /\ p <= col.rest THEN N(p + 1) ELSE p - 1
                 IN N(1)
     IN col' = [col EXCEPT !.pidx = (@ + 1) % Cap,
                           !.avail = IF second THEN pub2 ELSE @ - 1,
                           !.pc = IF second THEN "c_take" ELSE IF last THEN "c_lwb" ELSE "c_rel",
                           !.seg = IF second THEN 2 ELSE @,
                           !.room = IF second THEN col.rest ELSE @,
                           !.rest = IF second THEN 0 ELSE @]
  /\ ev' = [NoEv EXCEPT !.k = "rel"]
  /\ UNCHANGED <<cfg, ver, reg, pc, L, H>>

\* reclaim_start_from: low_water_mark() scans the slots one after the other
LwBegin ==
  /\ col.pc = "c_lwb"
  /\ col' = [col EXCEPT !.pc = "c_lwe", !.snap = reg]
  /\ ev' = [NoEv EXCEPT !.k = "lwb"]
  /\ UNCHANGED <<cfg, ver, reg, q, pc, L, H>>

NextInv(c) == IF c.index < Len(c.tasks) /\ c.tasks[c.index + 1].e <= c.mark THEN "c_inv" ELSE "c_sleep"

LwEnd ==
  /\ col.pc = "c_lwe"
  /\ \E pick \in [Regs -> BOOLEAN] :
       LET m == SetMin({IF pick[r] THEN col.snap[r] ELSE reg[r] : r \in Regs})
           c1 == [col EXCEPT !.mark = m, !.snap = <<>>]
       IN /\ col' = [c1 EXCEPT !.pc = NextInv(c1)]
          /\ ev' = [NoEv EXCEPT !.k = "lwe", !.n = m]
  /\ UNCHANGED <<cfg, ver, reg, q, pc, L, H>>

Invoke ==
  /\ col.pc = "c_inv"
  /\ LET tk == col.tasks[col.index + 1]
         c1 == [col EXCEPT !.index = @ + 1]
         early == \E p \in H.openAt[tk.id] : reg[p[1]] # MAXV /\ H.gen[p[1]] = p[2]
     IN /\ col' = [c1 EXCEPT !.pc = NextInv(c1)]
        /\ H' = [H EXCEPT !.cnt[tk.id] = IF @ < 2 THEN @ + 1 ELSE @,
                          !.bad = Bad(H.cnt[tk.id] >= 1, "ReclaimedExactlyOnce") \cup Bad(early, "NeverEarly")]
        /\ ev' = [NoEv EXCEPT !.k = "reclaim", !.x = tk.id]
  /\ UNCHANGED <<cfg, ver, reg, q, pc, L>>

Sleep ==
  /\ col.pc = "c_sleep"
  /\ col' = [col EXCEPT !.pc = TopPc(col.running, col.index, Len(col.tasks)), !.mark = 0]
  /\ ev' = [NoEv EXCEPT !.k = "sleep"]
  /\ UNCHANGED <<cfg, ver, reg, q, pc, L, H>>

\* the thread function returns: `tasks` is destroyed, reclaimers not invoked by now never will be
Exit ==
  /\ col.pc = "c_exit"
  /\ col' = [col EXCEPT !.pc = "exited", !.tasks = <<>>, !.index = 0]
  /\ ev' = [NoEv EXCEPT !.k = "exit"]
  /\ UNCHANGED <<cfg, ver, reg, q, pc, L, H>>

ColStep == ConsBegin \/ Take \/ Release \/ LwBegin \/ LwEnd \/ Invoke \/ Sleep \/ Exit

Step(t) == EnterLoad(t) \/ EnterPub(t) \/ EnterNested(t) \/ Leave(t) \/ Call(t) \/ RTick(t) \/ Ticket(t) \/ Fill(t) \/ Join(t) \/ Ret(t)

AllDone == \A t \in Thr : pc[t] = "idle" /\ ~HasOp(t)

(***************************************************************************)
(* L1 properties (C10)                                                     *)
(***************************************************************************)
ReclaimedExactlyOnce == "ReclaimedExactlyOnce" \notin H.bad
NeverEarly == "NeverEarly" \notin H.bad
\* every reclaimer retired before stop() / the destructor was called has been invoked when that call returns
AllReclaimedWhenStopReturns == H.bad \cap {"AllReclaimedWhenStopReturns", "AllReclaimedRegionOpenDuringStop"} = {}
\* ... split by witness class: stop() calls during which no region was open (or entering) at any point,
AllReclaimedUnlessRegionOpenDuringStop == "AllReclaimedWhenStopReturns" \notin H.bad
\* and stop() calls during which some region was (hypothesis H2 of DESIGN.md)
AllReclaimedAlsoWhenRegionOpenDuringStop == "AllReclaimedRegionOpenDuringStop" \notin H.bad
RetireBlocksAndResumes == "RetireBlocksAndResumes" \notin H.bad
\* nothing is lost across a full queue: when everything is over each reclaimer ran (or is pending with a cause)
NothingLost ==
  (AllDone /\ col.pc = "exited" /\ \A r \in Regs : reg[r] = MAXV)
     => \A i \in H.returned : H.cnt[i] = 1 \/ "AllReclaimedRegionOpenDuringStop" \in H.bad
=============================================================================
