------------------------------ MODULE MC_Ids ------------------------------
(* Model-checking instance of Ids: memory orders from the table MO_Ids (generated from the  *)
(* running code by the conformance step; the committed copy documents the current source),  *)
(* program families as constants.                                                           *)
EXTENDS Ids, MO_Ids

MOf(site) == MO[site]

O(op, n) == [op |-> op, n |-> n]
AL == O("al", 0)
DE(k) == O("de", k)
FE == O("fe", 0)
NoAfter(p) == [t \in 1..Len(p) |-> <<>>]
NoOwn(p) == [t \in 1..Len(p) |-> <<>>]
Cfg(n, fr, own, prog, after) == [kind |-> "ids", n |-> n, fr |-> fr, own |-> own, prog |-> prog, after |-> after, nb |-> 0, smod |-> 0]
\* the same programs followed by an observer thread that runs for_each once everybody is done
WithObserver(c) == [c EXCEPT !.prog = Append(c.prog, <<FE>>), !.own = Append(c.own, <<>>),
                             !.after = Append(c.after, [t \in 1..Len(c.prog) |-> t])]

\* pop racing with pop-push-pop of the same value (ABA), two and three threads; free list 0 -> 1 -> TAIL
P_aba2 == << <<AL, AL>>, <<AL, AL, DE(0)>> >>
P_aba3 == << <<AL, AL>>, <<AL, DE(0)>>, <<AL>> >>
P_aba3b == << <<AL, AL>>, <<AL, DE(0), AL>>, <<AL, DE(0)>> >>
Cfg_aba == { WithObserver(Cfg(2, <<1, 0>>, NoOwn(p), p, NoAfter(p))) : p \in {P_aba2, P_aba3} }

\* every thread program over {al, de0} of length <= 3 that never frees more than it holds
Progs(own) == { p \in UNION {[1..k -> {AL, DE(0)}] : k \in 1..3} :
                  \A j \in 1..Len(p) : own + Cardinality({i \in 1..j : p[i] = AL}) - Cardinality({i \in 1..j : p[i] = DE(0)}) >= 0 }
\* two threads, all such programs; thread 1 holds value 2, values 0 and 1 are free (1 on top)
Cfg_all2 == { Cfg(3, <<0, 1>>, << <<2>>, <<>> >>, <<p, q>>, <<<<>>, <<>>>>) : p \in Progs(1), q \in Progs(0) }
\* three threads, empty free list at the start, each holds one value: push-push-push / pop races
Cfg_3own == { Cfg(3, <<>>, << <<0>>, <<1>>, <<2>> >>, <<p, q, r>>, <<<<>>, <<>>, <<>>>>) :
                p \in {<<DE(0), AL>>, <<DE(0), AL, DE(0)>>}, q \in {<<DE(0), AL>>, <<AL, DE(0)>>}, r \in {<<DE(0)>>, <<AL>>} }
\* thread generations (ThreadId): allocate at birth, deallocate at exit; thread 3 is created after 1 exited
P_tid == << <<AL, DE(0)>>, <<AL, FE, DE(0)>>, <<AL, DE(0)>>, <<AL, DE(0)>> >>
Cfg_tid == { [kind |-> "tid", n |-> 0, fr |-> <<>>, own |-> NoOwn(P_tid), prog |-> P_tid, after |-> <<<<>>, <<>>, <<1>>, <<1, 2>>>>, nb |-> 0, smod |-> 0] }

P_tid3 == << <<AL, DE(0)>>, <<AL, FE, DE(0)>>, <<AL, DE(0)>> >>
Cfg_tid3 == { [kind |-> "tid", n |-> 0, fr |-> <<>>, own |-> NoOwn(P_tid3), prog |-> P_tid3, after |-> <<<<>>, <<>>, <<1>>>>, nb |-> 0, smod |-> 0] }
\* two threads, each holds one value, one value free: push / pop / mint races
Cfg_2own == { Cfg(3, <<2>>, << <<0>>, <<1>> >>, <<p, q>>, <<<<>>, <<>>>>) :
                p \in {<<DE(0), AL, AL>>, <<AL, DE(0), DE(0)>>}, q \in {<<DE(0), AL>>, <<AL, DE(1)>>} }

Cfg_quick == Cfg_aba \cup Cfg_tid3 \cup Cfg_2own
Cfg_aba3b == { WithObserver(Cfg(2, <<1, 0>>, NoOwn(P_aba3b), P_aba3b, NoAfter(P_aba3b))) }

\* weak memory: the relaxed free_next link against the acquire head
P_wm2 == << <<AL, AL>>, <<AL, AL, DE(0)>> >>
P_wm2b == << <<AL, AL>>, <<DE(0), AL>> >>
Cfg_wm == { Cfg(2, <<1, 0>>, NoOwn(P_wm2), P_wm2, NoAfter(P_wm2)),
            Cfg(3, <<1, 0>>, << <<>>, <<2>> >>, P_wm2b, NoAfter(P_wm2b)) }
Cfg_wm3 == { Cfg(2, <<1, 0>>, NoOwn(P_aba3), P_aba3, NoAfter(P_aba3)) }

Next == \/ \E t \in Thr : IdsStep(t, MOf)
        \/ (AllDone /\ UNCHANGED vars)
Spec == Init /\ [][Next]_vars

\* witness generation (spec -> code): a pop that has read head and link while the same value was popped,
\* pushed again and the link changed -- the state in which only the version tag protects the stack (ABA)
AbaWindow == \E t \in Thr : /\ pc[t] = "a_cas"
                            /\ LastVal(ms, HeadLoc).value = L[t].cur.value
                            /\ LastVal(ms, HeadLoc).version # L[t].cur.version
                            /\ LastVal(ms, FNext(L[t].cur.value)) # L[t].nh
NoAbaWindow == ~AbaWindow
Cfg_w2 == { Cfg(2, <<1, 0>>, NoOwn(P_aba2), P_aba2, NoAfter(P_aba2)) }
Cfg_w3 == { Cfg(2, <<1, 0>>, NoOwn(P_aba3), P_aba3, NoAfter(P_aba3)) }
\* a deallocate that lost its first CAS and pushed on a retry, at least one version behind its first head load,
\* while an allocate is parked between head load and CAS -- and now the head carries the parked allocate's value
\* again with a different link, exactly as many versions ahead as the retried pushes lagged: had a retry reused
\* the version computed at the first load, the parked compare-exchange would succeed (ABA through version regress)
StalePushWindow == \E t \in Thr : /\ pc[t] = "a_cas" /\ L[t].lag > 0
                                  /\ LastVal(ms, HeadLoc).value = L[t].cur.value
                                  /\ LastVal(ms, HeadLoc).version - L[t].cur.version = L[t].lag
                                  /\ LastVal(ms, FNext(L[t].cur.value)) # L[t].nh
NoStalePushWindow == ~StalePushWindow
\* A: allocate twice | G: deallocate(2) | M: deallocate(0), deallocate(1), allocate, allocate, deallocate(first held)
P_w4 == << <<AL, AL>>, <<DE(0)>>, <<DE(0), DE(0), AL, AL, DE(0)>> >>
Cfg_w4 == { Cfg(3, <<>>, << <<>>, <<2>>, <<0, 1>> >>, P_w4, NoAfter(P_w4)) }
Cfg_sim == Cfg_quick \cup Cfg_3own \cup Cfg_tid

\* hide the ghost event from the state identity
View == <<cfg, ms, pc, L, H>>
=============================================================================
