------------------------------- MODULE AnyBox -------------------------------
(***************************************************************************)
(* babylon::Any (src/babylon/any.h, any.hpp, any.cpp) as a sequential      *)
(* state machine: NVars Any variables, a few driver-owned ("external")     *)
(* payload objects that may be referenced, and an explicit ledger of every *)
(* payload object that exists.  One action per public operation, each with *)
(* its full case analysis over the holder kinds                            *)
(*                                                                         *)
(*   empty    Type::EMPTY                                                   *)
(*   triv     HolderType::INPLACE_TRIVIAL      value lives in _holder      *)
(*   nontriv  HolderType::INPLACE_NON_TRIVIAL  object lives in _holder     *)
(*   inst     HolderType::INSTANCE             heap object OWNED by the Any *)
(*   mref     HolderType::MUTABLE_REFERENCE    pointer, not owned          *)
(*   cref     HolderType::CONST_REFERENCE      pointer, not owned, const   *)
(*                                                                         *)
(* Payload types: class types "P" (> 8 bytes, copyable), "Q" (> 8 bytes,   *)
(* neither copyable nor movable), "S" (<= 8 bytes, non-trivial, copyable), *)
(* "T" (<= 8 bytes, trivial) and the primitive kinds of Any::Type.         *)
(*                                                                         *)
(* What a user relies on is stated at the end of the module: invariants    *)
(* over the state (ledger / ownership) and action properties; the          *)
(* observable projection Obs is what AnyBox_Trace.tla compares with the    *)
(* real object after every step.                                           *)
(*                                                                         *)
(* A reference (ref / cref, also copies of references) does no lifetime    *)
(* management ("本身不会进行计数等生命周期维护"): the user must keep the        *)
(* referent alive and - for referents stored inside another Any - in       *)
(* place.  These obligations are the guards CanDrop / ~SlotRefd of the     *)
(* actions: the model never destroys or relocates a referenced object.     *)
(***************************************************************************)
EXTENDS Integers, Sequences, FiniteSets, TLC

CONSTANTS NVars,    \* number of Any variables
          Ext,      \* sequence of payload types of the external objects (object ids 1..Len(Ext)), from {"P","Q","S"}
          CTypes,   \* class payload types in use, subset of {"P","Q","S","T"}
          Prims     \* primitive kinds in use, subset of PrimSet

VARIABLES h,     \* h[a]: what Any variable a holds
          ob,    \* ob[o]: ledger entry of payload object o
          dead,  \* the process aborted (copy of a non-copyable instance, assert build)
          ev     \* ghost: what the last step did (operation, payload constructions / destructions done by Any code, release result)

vars == <<h, ob, dead, ev>>

\* values for the constant Ext (a cfg file cannot write a tuple)
ExtNone == <<>>
ExtP == <<"P">>
ExtPQ == <<"P", "Q">>
ExtPS == <<"P", "S">>
ExtPQS == <<"P", "Q", "S">>

Vars == 1..NVars
NExt == Len(Ext)
NObj == NExt + NVars + 1        \* one spare: assignment constructs the new content before it destroys the old one
Objs == 1..NObj

AllPrims == <<"i64", "i32", "i16", "i8", "u64", "u32", "u16", "u8", "bool", "dbl", "f32">>
PrimSet == {AllPrims[i] : i \in 1..Len(AllPrims)}
ClassSet == {"P", "Q", "S", "T"}
IsPrim(t) == t \in PrimSet
Copyable(t) == t # "Q"
Instr(t) == t \in {"P", "Q", "S"}            \* instrumented: constructions / destructions are counted by the driver
Refable(t) == t \in {"P", "Q", "S"}          \* ref(T&) static_asserts sizeof(T) > 8 || !is_trivial<T>
Big(t) == t \in {"P", "Q"}                   \* sizeof(T) > 8: a value is stored on the heap

\* two values per type; doubles / floats are represented by twice their value (2.5 -> 5)
V1(t) == CASE t = "i64" -> -4 [] t = "i32" -> -3 [] t = "i16" -> -2 [] t = "i8" -> -1
           [] t = "u64" -> 100000 [] t = "u32" -> 70000 [] t = "u16" -> 65535 [] t = "u8" -> 200
           [] t = "bool" -> 1 [] t = "dbl" -> 5 [] t = "f32" -> 1 [] OTHER -> 1
V2(t) == CASE t = "i64" -> 100000 [] t = "i32" -> 70000 [] t = "i16" -> 300 [] t = "i8" -> 100
           [] t = "u64" -> 6 [] t = "u32" -> 5 [] t = "u16" -> 300 [] t = "u8" -> 7
           [] t = "bool" -> 0 [] t = "dbl" -> 201 [] t = "f32" -> 15 [] OTHER -> 2
Flip(t, v) == IF v = V1(t) THEN V2(t) ELSE V1(t)

EmptyH == [ht |-> "empty", ty |-> "none", obj |-> 0, slot |-> 0, val |-> 0]
FreeO == [live |-> FALSE, ty |-> "none", val |-> 0, loc |-> "none"]
NoEv == [op |-> "init", a |-> 0, b |-> 0, nc |-> 0, nd |-> 0, rl |-> 0, rv |-> 0]
Ev(name, a, b, nc, nd, rl, rv) == [op |-> name, a |-> a, b |-> b, nc |-> nc, nd |-> nd, rl |-> rl, rv |-> rv]

IsRef(x) == x.ht \in {"mref", "cref"}
Owned(x) == IF x.ht \in {"inst", "nontriv"} THEN {x.obj} ELSE {}
Owns(a, o) == o \in Owned(h[a])

Init ==
  /\ h = [a \in Vars |-> EmptyH]
  /\ ob = [o \in Objs |-> IF o <= NExt THEN [live |-> TRUE, ty |-> Ext[o], val |-> 1, loc |-> "ext"] ELSE FreeO]
  /\ dead = FALSE
  /\ ev = NoEv

---------------------------------------------------------------------------
\* user obligations for references
SlotRefd(b) == \E c \in Vars \ {b} : h[c].slot = b                       \* some other Any points into b's inline storage
ObjRefd(o, a) == \E c \in Vars \ {a} : IsRef(h[c]) /\ h[c].obj = o       \* some other Any references object o
CanDrop(a) == ~SlotRefd(a) /\ (h[a].ht = "inst" => ~ObjRefd(h[a].obj, a))

NewId(oo) == CHOOSE o \in Objs : ~oo[o].live /\ \A p \in 1..(o - 1) : oo[p].live
Born(oo, t, v, l) == [oo EXCEPT ![NewId(oo)] = [live |-> TRUE, ty |-> t, val |-> v, loc |-> l]]
Freed(oo, S) == [o \in Objs |-> IF o \in S THEN FreeO ELSE oo[o]]
NInstr(oo, S) == Cardinality({o \in S : Instr(oo[o].ty)})

\* variable a takes the new content nh (ledger already extended to ob1); its previous content is destroyed:
\* the common tail of operator= (construct temporary, destroy(), take), ref / cref (destroy(), point), clear()
Assign(a, nh, ob1, nc, name, b) ==
  /\ h' = [h EXCEPT ![a] = nh]
  /\ ob' = Freed(ob1, Owned(h[a]))
  /\ ev' = Ev(name, a, b, nc, NInstr(ob, Owned(h[a])), 0, 0)
  /\ UNCHANGED dead

\* a = T(v) / Any(T&&) / Any(const T&): primitives and small trivial types inline, small non-trivial types constructed in
\* _holder, everything else copied / moved to the heap
SetVal(a, t) ==
  /\ ~dead /\ CanDrop(a) /\ Copyable(t)
  /\ IF IsPrim(t) \/ t = "T"
       THEN Assign(a, [ht |-> "triv", ty |-> t, obj |-> 0, slot |-> 0, val |-> V1(t)], ob, 0, "val", 0)
       ELSE LET l == IF Big(t) THEN "heap" ELSE "inl"
                k == IF Big(t) THEN "inst" ELSE "nontriv"
            IN Assign(a, [ht |-> k, ty |-> t, obj |-> NewId(ob), slot |-> 0, val |-> 0], Born(ob, t, 1, l), 1, "val", 0)

\* a = std::unique_ptr<T>(new T(v)) / Any(std::unique_ptr<T>&&) / assign(descriptor, ptr): adopts the object (any T, any size);
\* the object was constructed by the user: no construction by Any code
SetPtr(a, t) ==
  /\ ~dead /\ CanDrop(a)
  /\ Assign(a, [ht |-> "inst", ty |-> t, obj |-> NewId(ob), slot |-> 0, val |-> 0], Born(ob, t, V1(t), "heap"), 0, "ptr", 0)

\* a.ref(x) / a.cref(x) / a.ref(const x&) on an external object
Ref(a, e, c) ==
  /\ ~dead /\ CanDrop(a) /\ e \in 1..NExt /\ c \in {"mref", "cref"}
  /\ Assign(a, [ht |-> c, ty |-> Ext[e], obj |-> e, slot |-> 0, val |-> 0], ob, 0, "ref", e)

\* a.ref(b) / a.cref(b) with b an Any: a refers to WHAT b HOLDS (b's inline storage, b's instance, b's referent);
\* constness is contagious (meta OR-ed with the reference bits)
RefAny(a, b, c) ==
  /\ ~dead /\ a # b /\ CanDrop(a) /\ c \in {"mref", "cref"}
  /\ LET x == h[b]
         cc == IF x.ht = "cref" THEN "cref" ELSE c
         nh == CASE x.ht \in {"empty", "triv", "nontriv"} -> [ht |-> cc, ty |-> x.ty, obj |-> 0, slot |-> b, val |-> 0]
                 [] x.ht = "inst" -> [ht |-> cc, ty |-> x.ty, obj |-> x.obj, slot |-> 0, val |-> 0]
                 [] OTHER -> [ht |-> cc, ty |-> x.ty, obj |-> x.obj, slot |-> x.slot, val |-> 0]
     IN /\ nh.slot # a                       \* b refers into a: a.ref(b) would point a at its own storage
        /\ Assign(a, nh, ob, 0, "refany", b)

\* a = b / Any(const Any&) / Any(Any&): an owned object is copied to a new owned object of the same kind, everything else
\* (inline trivial value, reference, empty) is copied bitwise: a copy of a reference is an alias
CopyOK(b) == Owned(h[b]) = {} \/ Copyable(h[b].ty)
Copy(a, b) ==
  /\ ~dead /\ CanDrop(a) /\ CopyOK(b)
  /\ LET x == h[b]
     IN IF Owned(x) = {}
          THEN Assign(a, x, ob, 0, "copy", b)
          ELSE Assign(a, [x EXCEPT !.obj = NewId(ob)], Born(ob, x.ty, ob[x.obj].val, ob[x.obj].loc),
                      IF Instr(x.ty) THEN 1 ELSE 0, "copy", b)

\* copy of an Any that owns a non-copyable object: assert(false) in copy_creater / copy_constructor
CopyAbort(a, b) ==
  /\ ~dead /\ CanDrop(a) /\ ~CopyOK(b)
  /\ dead' = TRUE
  /\ ev' = Ev("copy", a, b, 0, 0, 0, 0)
  /\ UNCHANGED <<h, ob>>

\* a = std::move(b) / Any(Any&&): a takes b's meta and holder bitwise (no payload move constructor runs, an inline object is
\* relocated), b is left EMPTY; self move-assignment keeps the content
Move(a, b) ==
  /\ ~dead
  /\ IF a = b
       THEN /\ ev' = Ev("move", a, b, 0, 0, 0, 0)
            /\ UNCHANGED <<h, ob, dead>>
       ELSE /\ CanDrop(a) /\ ~SlotRefd(b)
            /\ h' = [h EXCEPT ![a] = h[b], ![b] = EmptyH]
            /\ ob' = Freed(ob, Owned(h[a]))
            /\ ev' = Ev("move", a, b, 0, NInstr(ob, Owned(h[a])), 0, 0)
            /\ UNCHANGED dead

Clear(a) == ~dead /\ CanDrop(a) /\ Assign(a, EmptyH, ob, 0, "clear", 0)

\* a.release<T>(): only an owned heap instance whose meta is exactly meta_for_instance<T> (so not a primitive adopted through
\* the specialised unique_ptr<int64_t> ... constructors: their Type is INT64 ..., not INSTANCE); on failure nothing changes.
\* The unique_ptr goes to the user, who destroys the object (not Any code: nd = 0).
RelOK(a, t) == h[a].ht = "inst" /\ h[a].ty = t /\ ~IsPrim(t)
Released(a, name) ==
  /\ ~ObjRefd(h[a].obj, a)
  /\ h' = [h EXCEPT ![a] = EmptyH]
  /\ ob' = Freed(ob, {h[a].obj})
  /\ ev' = Ev(name, a, 0, 0, 0, 1, ob[h[a].obj].val)
  /\ UNCHANGED dead
NotReleased(a, name) ==
  /\ ev' = Ev(name, a, 0, 0, 0, 0, 0)
  /\ UNCHANGED <<h, ob, dead>>
Release(a, t) == ~dead /\ IF RelOK(a, t) THEN Released(a, "rel") ELSE NotReleased(a, "rel")
\* a.release() (type erased): every owned heap instance
ReleaseAny(a) == ~dead /\ IF h[a].ht = "inst" THEN Released(a, "relany") ELSE NotReleased(a, "relany")

\* write through the pointer returned by get<T>() (T = the stored type): possible unless empty or const reference
Mutable(a) == h[a].ty # "none" /\ h[a].ht # "cref"
Poke(a) ==
  /\ ~dead /\ Mutable(a)
  /\ LET x == h[a]
         inl == IF x.ht = "triv" THEN a ELSE IF IsRef(x) /\ x.slot # 0 /\ h[x.slot].ht = "triv" THEN x.slot ELSE 0
         o == IF x.ht \in {"nontriv", "inst"} THEN x.obj
              ELSE IF IsRef(x) /\ x.slot # 0 THEN h[x.slot].obj ELSE x.obj
     IN IF inl # 0
          THEN /\ h' = [h EXCEPT ![inl].val = Flip(x.ty, @)]
               /\ UNCHANGED ob
          ELSE /\ ob' = [ob EXCEPT ![o].val = Flip(x.ty, @)]
               /\ UNCHANGED h
  /\ ev' = Ev("poke", a, 0, 0, 0, 0, 0)
  /\ UNCHANGED dead

\* the user changes an external object directly
PokeX(e) ==
  /\ ~dead /\ e \in 1..NExt
  /\ ob' = [ob EXCEPT ![e].val = Flip(Ext[e], @)]
  /\ ev' = Ev("pokex", 0, e, 0, 0, 0, 0)
  /\ UNCHANGED <<h, dead>>

\* operation record -> action (used by MC_AnyBox's Next and by AnyBox_Trace)
Step(o) ==
  CASE o.op = "val" -> SetVal(o.a, o.ty)
    [] o.op = "ptr" -> SetPtr(o.a, o.ty)
    [] o.op = "ref" -> Ref(o.a, o.b, o.c)
    [] o.op = "refany" -> RefAny(o.a, o.b, o.c)
    [] o.op = "copy" -> Copy(o.a, o.b) \/ CopyAbort(o.a, o.b)
    [] o.op = "move" -> Move(o.a, o.b)
    [] o.op = "clear" -> Clear(o.a)
    [] o.op = "rel" -> Release(o.a, o.ty)
    [] o.op = "relany" -> ReleaseAny(o.a)
    [] o.op = "poke" -> Poke(o.a)
    [] o.op = "pokex" -> PokeX(o.b)

---------------------------------------------------------------------------
\* as<T>(): static_cast<T> of the stored primitive (integers as themselves, 8 / 16 bit targets wrap, a negative value
\* converted to a 32 / 64 bit unsigned target is reported as BIG, doubles / floats as twice their value)
BIG == 1073741824
P2(n) == IF n = 8 THEN 256 ELSE 65536
WrapU(x, n) == x % P2(n)
WrapS(x, n) == LET u == WrapU(x, n) IN IF u >= P2(n) \div 2 THEN u - P2(n) ELSE u
IsF(t) == t \in {"dbl", "f32"}
IntOf(t, v) == IF IsF(t) THEN (IF v >= 0 THEN v \div 2 ELSE -((-v) \div 2)) ELSE v
As(t, v, g) ==
  LET x == IntOf(t, v)
  IN CASE g = "i8" -> WrapS(x, 8) [] g = "u8" -> WrapU(x, 8)
       [] g = "i16" -> WrapS(x, 16) [] g = "u16" -> WrapU(x, 16)
       [] g \in {"i32", "i64"} -> x
       [] g \in {"u32", "u64"} -> IF x < 0 THEN BIG ELSE x
       [] g = "bool" -> IF v # 0 THEN 1 ELSE 0
       [] g \in {"dbl", "f32"} -> IF IsF(t) THEN v ELSE 2 * x

\* the observable projection of variable a
SlotVal(b) == IF h[b].ht = "nontriv" THEN ob[h[b].obj].val ELSE h[b].val
ValOf(a) ==
  LET x == h[a]
  IN CASE x.ht = "triv" -> x.val
       [] x.ht \in {"nontriv", "inst"} -> ob[x.obj].val
       [] IsRef(x) -> IF x.slot # 0 THEN SlotVal(x.slot) ELSE IF x.obj # 0 THEN ob[x.obj].val ELSE 0
       [] OTHER -> 0
\* where the pointer returned by cget<stored type>() points: nowhere / inline storage of variable b / external object e / heap
TgtOf(a) ==
  LET x == h[a]
  IN IF x.ty = "none" THEN <<"n", 0>>
     ELSE CASE x.ht \in {"triv", "nontriv"} -> <<"v", a>>
            [] x.ht = "inst" -> <<"o", x.obj>>
            [] OTHER -> IF x.slot # 0 THEN <<"v", x.slot>> ELSE <<"o", x.obj>>
LocOf(a) ==
  LET t == TgtOf(a)
  IN IF t[1] = "o" THEN (IF ob[t[2]].loc = "ext" THEN <<"x", t[2]>> ELSE <<"h", 0>>) ELSE t
AliasOf(a) ==
  IF h[a].ty = "none" THEN 0
  ELSE CHOOSE b \in Vars : /\ h[b].ty # "none" /\ TgtOf(b) = TgtOf(a)
                           /\ \A c \in 1..(b - 1) : ~(h[c].ty # "none" /\ TgtOf(c) = TgtOf(a))
ObsVar(a) ==
  LET x == h[a]
  IN [ne |-> x.ty # "none",                                                   \* operator bool
      te |-> IF x.ty = "none" THEN "EMPTY" ELSE IF IsPrim(x.ty) THEN x.ty ELSE "INSTANCE",   \* type()
      rf |-> IsRef(x),                                                        \* is_reference()
      cr |-> x.ht = "cref",                                                   \* is_const_reference()
      gt |-> IF Mutable(a) THEN <<x.ty>> ELSE <<>>,                           \* the T with get<T>() # nullptr
      cg |-> IF x.ty # "none" THEN <<x.ty>> ELSE <<>>,                        \* the T with cget<T>() # nullptr
      tn |-> x.ty,                                                            \* instance_type()
      vl |-> IF x.ty = "none" THEN 0 ELSE ValOf(a),                           \* value behind cget<T>()
      as |-> [i \in 1..Len(AllPrims) |-> IF IsPrim(x.ty) THEN As(x.ty, ValOf(a), AllPrims[i]) ELSE 0],
      to |-> IF IsPrim(x.ty) THEN 0 ELSE -1,                                  \* to<int64_t>() return code
      lc |-> LocOf(a),
      al |-> AliasOf(a)]
Live(t) == Cardinality({o \in Objs : ob[o].live /\ ob[o].ty = t})
Obs == [o |-> [a \in Vars |-> ObsVar(a)],
        lv |-> <<Live("P"), Live("Q"), Live("S")>>,                           \* live instrumented payload objects
        xs |-> [e \in 1..NExt |-> ob[e].val],
        nc |-> ev.nc, nd |-> ev.nd, rl |-> ev.rl, rv |-> ev.rv]

---------------------------------------------------------------------------
\* What users rely on.  State invariants:
HolderSet == [ht : {"empty", "triv", "nontriv", "inst", "mref", "cref"}, ty : ClassSet \cup PrimSet \cup {"none"},
              obj : 0..NObj, slot : 0..NVars, val : Int]
TypeOK ==
  /\ \A a \in Vars : h[a] \in HolderSet
  /\ \A a \in Vars : LET x == h[a] IN
       /\ (x.ht = "empty") => x = EmptyH
       /\ (x.ht = "triv") => (IsPrim(x.ty) \/ x.ty = "T") /\ x.obj = 0 /\ x.slot = 0
       /\ (x.ht = "nontriv") => x.ty = "S" /\ x.obj # 0 /\ x.slot = 0
       /\ (x.ht = "inst") => x.ty # "none" /\ x.obj # 0 /\ x.slot = 0
       /\ IsRef(x) => (x.obj = 0) # (x.slot = 0)
  /\ dead \in BOOLEAN

\* ledger: every live object that is not external has exactly one owner (no leak, no double ownership => no double destroy);
\* external objects stay alive and are never owned; owners point at live objects of their type, stored where the kind says
ExactlyOneOwner == \A o \in Objs : (ob[o].live /\ ob[o].loc # "ext") => Cardinality({a \in Vars : Owns(a, o)}) = 1
ExternalsUntouched == \A e \in 1..NExt : ob[e].live /\ ob[e].loc = "ext" /\ ob[e].ty = Ext[e] /\ \A a \in Vars : ~Owns(a, e)
OwnedWellFormed ==
  \A a \in Vars : \A o \in Owned(h[a]) :
     /\ ob[o].live /\ ob[o].ty = h[a].ty
     /\ ob[o].loc = (IF h[a].ht = "inst" THEN "heap" ELSE "inl")
\* under the user obligations no reference dangles
NoDangling ==
  \A a \in Vars : IsRef(h[a]) =>
     IF h[a].slot # 0
       THEN LET y == h[h[a].slot] IN y.ht \in {"empty", "triv", "nontriv"} /\ y.ty = h[a].ty
       ELSE ob[h[a].obj].live /\ ob[h[a].obj].ty = h[a].ty
\* get<T>() returns the stored object exactly when T is the stored type and mutability permits; cget ignores mutability
GetExact ==
  \A a \in Vars : LET o == ObsVar(a) IN
     /\ o.cg = (IF h[a].ty = "none" THEN <<>> ELSE <<h[a].ty>>)
     /\ o.gt = (IF h[a].ht = "cref" THEN <<>> ELSE o.cg)
     /\ (o.cr => o.rf)
Inv == TypeOK /\ ExactlyOneOwner /\ ExternalsUntouched /\ OwnedWellFormed /\ NoDangling /\ GetExact

\* Action properties ([][...]_vars):
\* an object is destroyed at most once, and only as the owned content of a variable that is overwritten / cleared /
\* released in this step; objects that are only referenced are never destroyed
DestroyedOnlyIfOwnedAndDropped ==
  \A o \in Objs : (ob[o].live /\ ~ob'[o].live) =>
     \E a \in Vars : Owns(a, o) /\ h'[a] # h[a] /\ ~IsRef(h[a])
\* ... and exactly once: the owned object of a variable whose content is dropped is destroyed in the same step unless another
\* variable took it over (move) - then it stays alive, unchanged
OwnedOfDroppedDestroyed ==
  \A a \in Vars : \A o \in Owned(h[a]) :
     (o \notin Owned(h'[a])) => IF \E b \in Vars : o \in Owned(h'[b]) THEN ob'[o] = ob[o] ELSE ~ob'[o].live
\* the ghost counters agree with the ledger: Any code destroys exactly the instrumented objects that die in the step, except
\* the one handed to the user by a successful release
LedgerCounts ==
  LET died == {o \in Objs : ob[o].live /\ ~ob'[o].live}
      born == {o \in Objs : ~ob[o].live /\ ob'[o].live}
  IN /\ (ev'.rl = 1) => Cardinality(died) = 1 /\ ev'.nd = 0
     /\ (ev'.rl = 0) => ev'.nd = NInstr(ob, died)
     /\ ev'.nc <= Cardinality(born) /\ Cardinality(born) <= 1
\* move leaves the source EMPTY, the destination holds exactly what the source held, no payload object is constructed, and
\* only the destination's previous content dies
MoveTransfers ==
  (ev'.op = "move" /\ ev'.a # ev'.b) =>
     /\ h'[ev'.b] = EmptyH /\ h'[ev'.a] = h[ev'.b] /\ ev'.nc = 0
     /\ \A o \in Objs : o \notin Owned(h[ev'.a]) => ob'[o] = ob[o]
\* copy: an owned value yields an independent equal object of the same kind (and nothing else changes); anything else
\* (reference, inline trivial value, empty) is duplicated bitwise - the copy of a reference is an alias of the same referent
CopyIndependentOrAlias ==
  (ev'.op = "copy" /\ ~dead') =>
     LET a == ev'.a  b == ev'.b
     IN IF Owned(h[b]) = {}
          THEN h'[a] = h[b]
          ELSE /\ h'[a].ht = h[b].ht /\ h'[a].ty = h[b].ty
               /\ (a # b) => Owned(h'[a]) \cap Owned(h'[b]) = {}
               /\ \A n \in Owned(h'[a]) : \A o \in Owned(h[b]) : ob'[n] = ob[o] /\ ~ob[n].live
               /\ (a # b) => h'[b] = h[b] /\ \A o \in Owned(h[b]) : ob'[o] = ob[o]
\* a reference never owns: dropping / overwriting a variable that holds a reference leaves the referent alive and unchanged
RefsNeverOwn ==
  \A a \in Vars : (IsRef(h[a]) /\ h'[a] # h[a] /\ h[a].obj # 0) => ob'[h[a].obj] = ob[h[a].obj] /\ ob[h[a].obj].live
StepProps == DestroyedOnlyIfOwnedAndDropped /\ OwnedOfDroppedDestroyed /\ LedgerCounts /\ MoveTransfers
             /\ CopyIndependentOrAlias /\ RefsNeverOwn
=============================================================================
