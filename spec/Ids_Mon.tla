------------------------------ MODULE Ids_Mon ------------------------------
(***************************************************************************)
(* L1 specification of the id allocator / thread ids / deposit box as a    *)
(* monitor over the observable events of an execution: call and return of  *)
(* the public operations with their arguments and results.  It knows       *)
(* nothing about the free stack, version tags or slot versions, so it      *)
(* judges the statement of property C14 on executions of ANY               *)
(* implementation of the API, also one that no longer follows Ids.tla.     *)
(*                                                                         *)
(*   allocate -> id          call al / ret al(id, idh)                     *)
(*   deallocate(id)          call de(id) / ret de       (thread ids: the   *)
(*                           call is the end of the thread function, the   *)
(*                           return is the thread's exit)                  *)
(*   for_each -> set         call fe / ret fe(vals)                        *)
(*   emplace -> id           call em(item) / ret em(id, idh)               *)
(*   take(id) -> bool        call tk|tr(id, idh) / got(res, item) / ret    *)
(*   finish(id)              the got of a winning tk, or call fr(id)       *)
(*                                                                         *)
(*  LiveIdsUnique       no value handed out while it is still held         *)
(*  ReuseBeforeMint     an allocate that overlapped no other call, made    *)
(*                      while freed values existed, returned one of them   *)
(*  ForEachReportsLive  a for_each that overlapped no other call reported  *)
(*                      exactly the live values (each once)                *)
(*  OneTakerWins        of the takes with one receipt at most one obtains  *)
(*                      the item, and when all of them are over one has    *)
(*  StaleNeverMatches   a receipt whose item was taken never matches       *)
(*                      again, a receipt is never issued twice, a match    *)
(*                      yields the item of that very emplace               *)
(***************************************************************************)
EXTENDS Naturals, Integers, Sequences, FiniteSets, TLC, Json, IOUtils

Tr == ndJsonDeserialize(IOEnv.TRACE)

VARIABLES l,
          ever,      \* values handed out at least once
          live,      \* values currently held
          cur,       \* cur[t]: operation thread t is executing ("" = none)
          overlap,   \* overlap[t]: the current operation of t overlapped another one
          snapFree, snapLive,   \* per thread: free / live values when its operation was called
          emplaced,  \* receipt <<value, version>> -> item
          taken,     \* receipts that obtained their item
          tried,     \* receipts some finished take was called with
          bad

mvars == <<l, ever, live, cur, overlap, snapFree, snapLive, emplaced, taken, tried, bad>>

Thrs == 1..8
SeqSet(s) == {s[i] : i \in 1..Len(s)}
Rcpt(e) == <<e.id, e.idh>>

Fresh(e) ==
  /\ ever' = 0..e.n - 1
  /\ live' = SeqSet(e.live)
  /\ cur' = [t \in Thrs |-> ""]
  /\ overlap' = [t \in Thrs |-> FALSE]
  /\ snapFree' = [t \in Thrs |-> {}]
  /\ snapLive' = [t \in Thrs |-> {}]
  /\ emplaced' = [r \in {<<x[1], x[2]>> : x \in SeqSet(e.em)} |-> (CHOOSE x \in SeqSet(e.em) : <<x[1], x[2]>> = r)[3]]
  /\ taken' = {<<x[1], x[2]>> : x \in SeqSet(e.tk)}
  /\ tried' = {}

MInit ==
  /\ l = 1
  /\ ever = {} /\ live = {} /\ cur = [t \in Thrs |-> ""] /\ overlap = [t \in Thrs |-> FALSE]
  /\ snapFree = [t \in Thrs |-> {}] /\ snapLive = [t \in Thrs |-> {}]
  /\ emplaced = << >> /\ taken = {} /\ tried = {}
  /\ bad = ""
  /\ TLCSet(1, 1)

Flag(b, name) == IF b /\ bad = "" THEN name ELSE bad
Flag2(b1, n1, b2, n2) == IF bad # "" THEN bad ELSE IF b1 THEN n1 ELSE IF b2 THEN n2 ELSE ""
Active == {t \in Thrs : cur[t] # ""}
Reused(r) == \E j \in DOMAIN emplaced : j[1] = r[1] /\ j[2] > r[2]

Enter(e) ==
  /\ cur' = [cur EXCEPT ![e.t] = e.op]
  /\ overlap' = [t \in Thrs |-> IF t = e.t THEN Active # {} ELSE IF t \in Active THEN TRUE ELSE overlap[t]]
  /\ snapFree' = [snapFree EXCEPT ![e.t] = ever \ live]
  /\ snapLive' = [snapLive EXCEPT ![e.t] = live]

MCall(e) ==
  /\ Enter(e)
  /\ CASE e.op \in {"de", "fr"} /\ e.id >= 0 ->
            /\ live' = live \ {e.id}
            /\ bad' = Flag(cur[e.t] # "" \/ e.id \notin live, "Protocol")
            /\ UNCHANGED <<ever, emplaced, taken, tried>>
       [] e.op \in {"tk", "tr"} /\ e.id >= 0 ->
            /\ bad' = Flag(cur[e.t] # "" \/ Rcpt(e) \notin DOMAIN emplaced, "Protocol")
            /\ UNCHANGED <<ever, live, emplaced, taken, tried>>
       [] OTHER ->
            /\ bad' = Flag(cur[e.t] # "", "Protocol")
            /\ UNCHANGED <<ever, live, emplaced, taken, tried>>

\* the caller learns whether its take obtained the item; a winning take() finishes from here on
MGot(e) ==
  LET r == Rcpt(e)
      again == r \in taken
      wrong == r \in DOMAIN emplaced /\ emplaced[r] # e.item
  IN /\ IF e.res = 1
        THEN /\ taken' = taken \cup {r}
             /\ bad' = Flag2((again /\ Reused(r)) \/ wrong, "StaleNeverMatches", again, "OneTakerWins")
             /\ live' = IF e.op = "tk" THEN live \ {e.id} ELSE live
        ELSE UNCHANGED <<taken, bad, live>>
     /\ tried' = tried \cup {r}
     /\ UNCHANGED <<ever, cur, overlap, snapFree, snapLive, emplaced>>

MRet(e) ==
  /\ cur' = [cur EXCEPT ![e.t] = ""]
  /\ CASE e.op \in {"al", "em"} ->
            /\ live' = live \cup {e.id}
            /\ ever' = ever \cup {e.id}
            /\ emplaced' = IF e.op = "em" THEN [r \in DOMAIN emplaced \cup {Rcpt(e)} |-> IF r = Rcpt(e) THEN e.item ELSE emplaced[r]] ELSE emplaced
            /\ bad' = IF bad # "" THEN bad
                      ELSE IF e.id \in live THEN "LiveIdsUnique"
                      ELSE IF e.op = "em" /\ Rcpt(e) \in DOMAIN emplaced THEN "StaleNeverMatches"
                      ELSE IF ~overlap[e.t] /\ snapFree[e.t] # {} /\ e.id \notin snapFree[e.t] THEN "ReuseBeforeMint"
                      ELSE IF e.id < 0 THEN "Protocol" ELSE ""
            /\ UNCHANGED <<taken, tried>>
       [] e.op = "fe" ->
            /\ bad' = Flag(~overlap[e.t] /\ (SeqSet(e.vals) # snapLive[e.t] \/ Len(e.vals) # Cardinality(SeqSet(e.vals))), "ForEachReportsLive")
            /\ UNCHANGED <<ever, live, emplaced, taken, tried>>
       [] OTHER ->
            /\ bad' = bad
            /\ UNCHANGED <<ever, live, emplaced, taken, tried>>
  /\ UNCHANGED <<overlap, snapFree, snapLive>>

\* quiescent observation by the driver after every thread was joined
MFinal(e) ==
  /\ bad' = Flag(SeqSet(e.vals) # live \/ Len(e.vals) # Cardinality(SeqSet(e.vals)), "ForEachReportsLive")
  /\ UNCHANGED <<ever, live, cur, overlap, snapFree, snapLive, emplaced, taken, tried>>

MEnd(e) ==
  /\ bad' = IF bad # "" THEN bad
            ELSE IF e.op \in {"crash", "hang"} THEN "NoCrash"
            ELSE IF e.op \in {"deadlock", "budget"} THEN "CallsReturn"
            ELSE IF e.op = "ok" /\ ~(tried \subseteq taken) THEN "OneTakerWins"
            ELSE ""
  /\ UNCHANGED <<ever, live, cur, overlap, snapFree, snapLive, emplaced, taken, tried>>

MNext ==
  /\ l <= Len(Tr)
  /\ LET e == Tr[l]
     IN CASE e.k = "reset" -> Fresh(e) /\ bad' = ""
          [] e.k = "call" -> MCall(e)
          [] e.k = "got" -> MGot(e)
          [] e.k = "ret" -> MRet(e)
          [] e.k = "final" -> MFinal(e)
          [] e.k = "end" -> MEnd(e)
  /\ l' = l + 1
  /\ TLCSet(1, l')
  \* the verdict on an execution is printed where its first clause fails; the monitor goes on with the next execution
  /\ ((bad' # "" /\ bad' # bad) => PrintT(<<"VERIFBAD", l, bad'>>))

MSpec == MInit /\ [][MNext]_mvars

\* one invariant per clause (bad names the first clause that failed; "" = every clause held so far)
MLiveIdsUnique == bad # "LiveIdsUnique"
MReuseBeforeMint == bad # "ReuseBeforeMint"
MForEachReportsLive == bad # "ForEachReportsLive"
MOneTakerWins == bad # "OneTakerWins"
MStaleNeverMatches == bad # "StaleNeverMatches"
MNoCrash == bad # "NoCrash"
MCallsReturn == bad # "CallsReturn"
MProtocol == bad # "Protocol"

Post == PrintT(<<"VERIF", TLCGet(1) - 1, Len(Tr), {}>>)
=============================================================================
