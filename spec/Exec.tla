------------------------------- MODULE Exec -------------------------------
(***************************************************************************)
(* L2 specification of babylon's executors (property C07).                 *)
(*                                                                         *)
(* QUEUE OPERATIONS ARE ATOMIC: ConcurrentBoundedQueue is verified by      *)
(* C01/C02, so a queue is a FIFO sequence with a capacity, push blocks     *)
(* while it is full, the (futex) pop of the global queue blocks while it   *)
(* is empty, try_pop fails on an empty queue.  The one place where the     *)
(* executor uses the queue outside its concurrent protocol is modelled     *)
(* explicitly: the owner of a local queue pushes through the               *)
(* NON-CONCURRENT ticket path (load + store of the push index, then the    *)
(* slot is filled and published) -- LReserve / LFill are two steps, a      *)
(* concurrent try_pop by a thief or the balancer between them finds the    *)
(* reserved slot not yet published and fails, as the queue's rules say.    *)
(*                                                                         *)
(*  ThreadPoolExecutor  (src/babylon/executor.cpp)                         *)
(*    global queue  capacity bit_ceil(2G)  (G=0 -> 1)                      *)
(*    local queue of worker w, used while size() < L  (2L slots)           *)
(*    keep_execute : RunnerScope; loop  local.try_pop -> steal scan ->     *)
(*                   global.pop (blocking);  FUNCTION run / WAKEUP / STOP  *)
(*    enqueue_task : is_running_in() /\ L > 0 /\ local.size() < L          *)
(*                     -> local.push<non concurrent>  else global.push     *)
(*    keep_balance : while running { sleep; for each local queue           *)
(*                     { while try_pop(task) enqueue_task(task) } }        *)
(*    stop         : running := false; join balancer; push STOP x W;       *)
(*                   join workers                                          *)
(*  InplaceExecutor : RunnerScope; run inside invoke (nested re-entry;     *)
(*                   `flat' = deferred re-entry, not in the pinned commit) *)
(*  AlwaysUseNewThreadExecutor : counter++, detached thread {RunnerScope;  *)
(*                   run; counter--}; join() waits for counter = 0         *)
(*  refusing executor: invoke returns non-zero, nothing may run            *)
(*                                                                         *)
(* Client programs: submitter threads (thread 1 = main) run operation      *)
(* lists  e r | s r | g | x | u ; task r has cfg.tree[r].c children, each  *)
(* with cfg.tree[r].g grandchildren (ids 10*p+k); a task submits its       *)
(* children from inside its body.                                          *)
(***************************************************************************)
EXTENDS Naturals, Integers, Sequences, FiniteSets, TLC

CONSTANTS Configs

VARIABLES cfg,      \* the configuration (chosen in Init)
          pc,       \* control state of every thread
          stk,      \* stack of task frames [id, k] a thread is executing (k = next child to submit)
          cur,      \* thread-local `current executor' : "ex" | "none"
          opi,      \* submitters: index of the next operation
          gq,       \* global queue: sequence of task ids / STOP / WAKE
          lq,       \* local queues: sequence of [id, f] (f = slot published)
          held,     \* item a thread holds between two steps (being pushed / just popped)
          si,       \* workers: index of the next victim of the steal scan
          bq,       \* balancer: index of the queue being swept
          nstop,    \* stop(): STOP markers pushed so far
          running,  \* ThreadPoolExecutor::_running
          ntrun,    \* AlwaysUseNewThreadExecutor::_running
          flatq,    \* inplace flat mode: deferred tasks of a thread
          H         \* history for the L1 clauses

vars == <<cfg, pc, stk, cur, opi, gq, lq, held, si, bq, nstop, running, ntrun, flatq, H>>

STOP == -1
WAKE == -2
BAL == 200

(***************************************************************************)
(* static structure (of a configuration c; without argument: of cfg)       *)
(***************************************************************************)
SubC(c) == 1..Len(c.prog)
WkC(c) == IF c.kind = "pool" THEN {100 + i : i \in 1..c.W} ELSE {}
HasBalC(c) == c.kind = "pool" /\ c.bal
NChC(c, id) == IF id < 10 THEN c.tree[id].c ELSE IF id < 100 THEN c.tree[id \div 10].g ELSE 0
KidsC(c, id) == {id * 10 + k : k \in 1..NChC(c, id)}
RootIdsC(c) == 1..Len(c.tree)
AllIdsC(c) == RootIdsC(c) \cup UNION {KidsC(c, r) : r \in RootIdsC(c)}
                          \cup UNION {UNION {KidsC(c, k) : k \in KidsC(c, r)} : r \in RootIdsC(c)}
TaskThrC(c) == IF c.kind = "newthread" THEN {1000 + id : id \in AllIdsC(c)} ELSE {}
ThrC(c) == SubC(c) \cup WkC(c) \cup (IF HasBalC(c) THEN {BAL} ELSE {}) \cup TaskThrC(c)
\* where a submitter stands when its next operation has index i (thread 1 = main joins the others at the end)
IdlePcC(c, t, i) == IF i > Len(c.prog[t]) THEN (IF t = 1 THEN "mjoin" ELSE "fin") ELSE "idle"

Sub == SubC(cfg)
Wk == WkC(cfg)
HasBal == HasBalC(cfg)
GC == IF cfg.G = 0 THEN 1 ELSE 2 * cfg.G     \* bit_ceil(2G) for G in 0..2
RootIds == RootIdsC(cfg)
NCh(id) == NChC(cfg, id)
Kids(id) == KidsC(cfg, id)
AllIds == AllIdsC(cfg)
Par(id) == id \div 10
RootOp(r) == CHOOSE o \in UNION {{cfg.prog[t][i] : i \in 1..Len(cfg.prog[t])} : t \in Sub} : o.op \in {"e", "s"} /\ o.r = r
HasFut(id) == IF id < 10 THEN RootOp(id).op = "e" ELSE (id % 10) % 2 = 1
Res(id) == 1000 + id
TaskThr == TaskThrC(cfg)
Thr == ThrC(cfg)
IdlePc(t, i) == IdlePcC(cfg, t, i)

Top(t) == stk[t][Len(stk[t])]
Pop(s) == SubSeq(s, 1, Len(s) - 1)

H0 == [acc |-> {}, accB |-> {}, refused |-> {}, began |-> {}, twice |-> {}, rinBad |-> {},
       ended |-> {}, locals |-> {}, futv |-> {}, stopCalled |-> FALSE, stopRet |-> FALSE, endedAtRet |-> {}]

\* initial values for configuration c
I0(c) ==
  [cfg |-> c,
   pc |-> [t \in ThrC(c) |-> IF t \in SubC(c) THEN IdlePcC(c, t, 1) ELSE IF t \in WkC(c) THEN "wl" ELSE IF t = BAL THEN "b0" ELSE "off"],
   stk |-> [t \in ThrC(c) |-> << >>],
   cur |-> [t \in ThrC(c) |-> IF t \in WkC(c) THEN "ex" ELSE "none"],   \* keep_execute: RunnerScope scope {*this}
   opi |-> [t \in SubC(c) |-> 1],
   lq |-> [w \in WkC(c) |-> << >>],
   held |-> [t \in ThrC(c) |-> 0],
   si |-> [w \in WkC(c) |-> 0],
   running |-> (c.kind = "pool"),
   flatq |-> [t \in SubC(c) |-> << >>]]

Init ==
  \E c \in Configs :
    LET i == I0(c)
    IN /\ cfg = i.cfg /\ pc = i.pc /\ stk = i.stk /\ cur = i.cur /\ opi = i.opi /\ gq = << >> /\ lq = i.lq
       /\ held = i.held /\ si = i.si /\ bq = 1 /\ nstop = 0 /\ running = i.running /\ ntrun = 0
       /\ flatq = i.flatq /\ H = H0

(***************************************************************************)
(* history helpers                                                         *)
(***************************************************************************)
Accepted(h, id) == [h EXCEPT !.acc = @ \cup {id}, !.accB = IF h.stopCalled THEN @ ELSE @ \cup {id}]
Begun(h, id, c) == [h EXCEPT !.began = @ \cup {id},
                             !.twice = IF id \in h.began THEN @ \cup {id} ELSE @,
                             !.rinBad = IF c # "ex" THEN @ \cup {id} ELSE @]
Ended(h, id) == [h EXCEPT !.ended = @ \cup {id}, !.futv = IF HasFut(id) THEN @ \cup {<<id, Res(id)>>} ELSE @]

InTask(t) == stk[t] # << >>
CurOp(t) == cfg.prog[t][opi[t]]

\* control returns to whoever made the submission (task body or operation list)
ResumePc(t) == IF InTask(t) THEN "body" ELSE IdlePc(t, opi[t] + 1)
ResumeRest(t) ==
  IF InTask(t)
    THEN /\ stk' = [stk EXCEPT ![t][Len(stk[t])].k = @ + 1]
         /\ opi' = opi
    ELSE /\ opi' = [opi EXCEPT ![t] = @ + 1]
         /\ stk' = stk
Resume(t) == ResumeRest(t) /\ pc' = [pc EXCEPT ![t] = ResumePc(t)]

(***************************************************************************)
(* Executor::execute / submit -> invoke                                    *)
(***************************************************************************)
\* enqueue_task looks at the local queue only on a worker thread with local_capacity > 0;
\* everywhere else the submission is one blocking push to the global queue
LocalChoice(t) == cfg.kind = "pool" /\ cur[t] = "ex" /\ cfg.L > 0

StartSub(t, id) ==
  CASE cfg.kind = "pool" ->
         IF LocalChoice(t)
           THEN IF Len(lq[t]) < cfg.L
             THEN \* LReserve: non-concurrent ticket (load + store of the local push index)
                  /\ lq' = [lq EXCEPT ![t] = Append(@, [id |-> id, f |-> FALSE])]
                  /\ held' = [held EXCEPT ![t] = id]
                  /\ pc' = [pc EXCEPT ![t] = "lfill"]
                  /\ H' = [H EXCEPT !.locals = @ \cup {id}]
                  /\ UNCHANGED <<stk, cur, opi, gq, ntrun, flatq>>
             ELSE \* local queue at capacity: the task goes to the global queue (which may have filled up meanwhile)
                  /\ held' = [held EXCEPT ![t] = id]
                  /\ pc' = [pc EXCEPT ![t] = "gpush"]
                  /\ UNCHANGED <<stk, cur, opi, gq, lq, ntrun, flatq, H>>
           ELSE /\ Len(gq) < GC
                /\ gq' = Append(gq, id)
                /\ H' = Accepted(H, id)
                /\ Resume(t)
                /\ UNCHANGED <<cur, lq, held, ntrun, flatq>>
    [] cfg.kind = "newthread" ->
         /\ ntrun' = ntrun + 1
         /\ H' = Accepted(H, id)
         /\ ResumeRest(t)
         /\ pc' = [pc EXCEPT ![t] = ResumePc(t), ![1000 + id] = "t0"]
         /\ UNCHANGED <<cur, gq, lq, held, flatq>>
    [] cfg.kind \in {"inplace", "refuse"} ->
         IF cfg.kind = "refuse" /\ id \notin cfg.acc
           THEN /\ H' = [H EXCEPT !.refused = @ \cup {id}]
                /\ Resume(t)
                /\ UNCHANGED <<cur, gq, lq, held, ntrun, flatq>>
           ELSE IF cfg.flat /\ cur[t] = "ex"
             THEN \* deferred re-entry: runs when the outermost invocation unwinds
                  /\ flatq' = [flatq EXCEPT ![t] = Append(@, id)]
                  /\ H' = Accepted(H, id)
                  /\ Resume(t)
                  /\ UNCHANGED <<cur, gq, lq, held, ntrun>>
             ELSE \* RunnerScope; function()
                  /\ stk' = [stk EXCEPT ![t] = Append(@, [id |-> id, k |-> 1])]
                  /\ cur' = [cur EXCEPT ![t] = "ex"]
                  /\ H' = Begun(H, id, "ex")
                  /\ pc' = [pc EXCEPT ![t] = "body"]
                  /\ UNCHANGED <<opi, gq, lq, held, ntrun, flatq>>

\* the slot of the reserved ticket is filled and published
LFill(t) ==
  /\ pc[t] = "lfill"
  /\ lq' = [lq EXCEPT ![t] = [i \in 1..Len(@) |-> IF @[i].id = held[t] THEN [@[i] EXCEPT !.f = TRUE] ELSE @[i]]]
  /\ H' = Accepted(H, held[t])
  /\ held' = [held EXCEPT ![t] = 0]
  /\ Resume(t)
  /\ UNCHANGED <<cfg, cur, gq, si, bq, nstop, running, ntrun, flatq>>

\* global_queue.push<concurrent, spin wait, futex wake> of a task a worker / the balancer holds
GPush(t) ==
  /\ pc[t] = "gpush"
  /\ Len(gq) < GC
  /\ gq' = Append(gq, held[t])
  /\ held' = [held EXCEPT ![t] = 0]
  /\ UNCHANGED <<cfg, cur, lq, si, bq, nstop, running, ntrun, flatq>>
  /\ IF t = BAL
       THEN /\ pc' = [pc EXCEPT ![t] = "bpop"]
            /\ UNCHANGED <<stk, opi, H>>
       ELSE /\ H' = Accepted(H, held[t])
            /\ Resume(t)

(***************************************************************************)
(* task bodies                                                             *)
(***************************************************************************)
EndTask(t) ==
  LET id == Top(t).id
      rest == Pop(stk[t])
  IN /\ UNCHANGED <<gq, lq, held>>
     /\ CASE t \in Wk ->
              /\ stk' = [stk EXCEPT ![t] = rest]
              /\ pc' = [pc EXCEPT ![t] = "wl"]
              /\ H' = Ended(H, id)
              /\ UNCHANGED <<cur, opi, ntrun, flatq>>
          [] t \in TaskThr ->
              /\ stk' = [stk EXCEPT ![t] = rest]
              /\ pc' = [pc EXCEPT ![t] = "tdec"]
              /\ cur' = [cur EXCEPT ![t] = "none"]
              /\ H' = Ended(H, id)
              /\ UNCHANGED <<opi, ntrun, flatq>>
          [] OTHER -> \* inline execution: invoke returns to the submitting context
              IF rest # << >>
                THEN /\ stk' = [stk EXCEPT ![t] = [rest EXCEPT ![Len(rest)].k = @ + 1]]
                     /\ pc' = [pc EXCEPT ![t] = "body"]
                     /\ H' = Accepted(Ended(H, id), id)
                     /\ UNCHANGED <<cur, opi, ntrun, flatq>>
                ELSE IF flatq[t] # << >>
                  THEN /\ stk' = [stk EXCEPT ![t] = <<[id |-> Head(flatq[t]), k |-> 1]>>]
                       /\ flatq' = [flatq EXCEPT ![t] = Tail(@)]
                       /\ pc' = [pc EXCEPT ![t] = "body"]
                       /\ H' = Begun(Ended(H, id), Head(flatq[t]), cur[t])
                       /\ UNCHANGED <<cur, opi, ntrun>>
                  ELSE /\ stk' = [stk EXCEPT ![t] = << >>]
                       /\ cur' = [cur EXCEPT ![t] = "none"]
                       /\ opi' = [opi EXCEPT ![t] = @ + 1]
                       /\ pc' = [pc EXCEPT ![t] = IdlePc(t, opi[t] + 1)]
                       /\ H' = Accepted(Ended(H, id), CurOp(t).r)
                       /\ UNCHANGED <<ntrun, flatq>>

Body(t) ==
  /\ pc[t] = "body"
  /\ UNCHANGED <<cfg, si, bq, nstop, running>>
  /\ IF Top(t).k <= NCh(Top(t).id)
       THEN StartSub(t, Top(t).id * 10 + Top(t).k)
       ELSE EndTask(t)

(***************************************************************************)
(* ThreadPoolExecutor::keep_execute                                        *)
(***************************************************************************)
Dispatch(t, item) ==
  CASE item = STOP -> /\ pc' = [pc EXCEPT ![t] = "done"]
                      /\ cur' = [cur EXCEPT ![t] = "none"]
                      /\ UNCHANGED <<stk, held, H>>
    [] item = WAKE -> /\ pc' = [pc EXCEPT ![t] = "wl"]
                      /\ UNCHANGED <<stk, cur, held, H>>
    [] OTHER -> \* the task is out of its queue; task.function() is called next
                /\ held' = [held EXCEPT ![t] = item]
                /\ pc' = [pc EXCEPT ![t] = "tk"]
                /\ UNCHANGED <<stk, cur, H>>

Begin(t) ==
  /\ pc[t] = "tk"
  /\ stk' = [stk EXCEPT ![t] = <<[id |-> held[t], k |-> 1]>>]
  /\ held' = [held EXCEPT ![t] = 0]
  /\ pc' = [pc EXCEPT ![t] = "body"]
  /\ H' = Begun(H, held[t], cur[t])
  /\ UNCHANGED <<cfg, cur, opi, gq, lq, si, bq, nstop, running, ntrun, flatq>>

CanTake(q) == q # << >> /\ Head(q).f
\* for_each visits the local queues in one fixed order (thread ids); a worker's own queue was just found empty
NextVictim(t, j) == IF 100 + j = t THEN j + 1 ELSE j

WLocal(t) ==
  /\ pc[t] = "wl"
  /\ UNCHANGED <<cfg, opi, gq, bq, nstop, running, ntrun, flatq>>
  /\ IF CanTake(lq[t])
       THEN /\ lq' = [lq EXCEPT ![t] = Tail(@)]
            /\ Dispatch(t, Head(lq[t]).id)
            /\ si' = si
       ELSE /\ pc' = [pc EXCEPT ![t] = IF cfg.steal /\ cfg.W > 1 THEN "ws" ELSE "wg"]
            /\ si' = [si EXCEPT ![t] = NextVictim(t, 1)]
            /\ UNCHANGED <<lq, stk, cur, held, H>>

WSteal(t) ==
  /\ pc[t] = "ws"
  /\ UNCHANGED <<cfg, opi, gq, bq, nstop, running, ntrun, flatq>>
  /\ LET v == 100 + si[t]
         nx == NextVictim(t, si[t] + 1)
     IN IF CanTake(lq[v])
          THEN /\ lq' = [lq EXCEPT ![v] = Tail(@)]
               /\ Dispatch(t, Head(lq[v]).id)
               /\ si' = si
          ELSE /\ si' = [si EXCEPT ![t] = nx]
               /\ pc' = [pc EXCEPT ![t] = IF nx > cfg.W THEN "wg" ELSE "ws"]
               /\ UNCHANGED <<lq, stk, cur, held, H>>

\* global_queue.pop<concurrent, futex wait>: blocks while the queue is empty
WGlobal(t) ==
  /\ pc[t] = "wg"
  /\ gq # << >>
  /\ gq' = Tail(gq)
  /\ Dispatch(t, Head(gq))
  /\ UNCHANGED <<cfg, opi, lq, si, bq, nstop, running, ntrun, flatq>>

(***************************************************************************)
(* ThreadPoolExecutor::keep_balance                                        *)
(***************************************************************************)
BCheck ==   \* while (running) { sleep_for(interval); ...
  /\ pc[BAL] = "b0"
  /\ pc' = [pc EXCEPT ![BAL] = IF running THEN "bpop" ELSE "done"]
  /\ bq' = 1
  /\ UNCHANGED <<cfg, stk, cur, opi, gq, lq, held, si, nstop, running, ntrun, flatq, H>>

BPop ==     \* ... while (queue.try_pop(task)) enqueue_task(task)   (not a worker thread: global queue)
  /\ pc[BAL] = "bpop"
  /\ UNCHANGED <<cfg, stk, cur, opi, gq, si, nstop, running, ntrun, flatq, H>>
  /\ LET v == 100 + bq
     IN IF CanTake(lq[v])
          THEN /\ lq' = [lq EXCEPT ![v] = Tail(@)]
               /\ held' = [held EXCEPT ![BAL] = Head(lq[v]).id]
               /\ pc' = [pc EXCEPT ![BAL] = "gpush"]
               /\ bq' = bq
          ELSE /\ IF bq < cfg.W
                    THEN bq' = bq + 1 /\ pc' = pc
                    ELSE bq' = 1 /\ pc' = [pc EXCEPT ![BAL] = "b0"]
               /\ UNCHANGED <<lq, held>>

(***************************************************************************)
(* ThreadPoolExecutor::stop (also run by the destructor)                   *)
(***************************************************************************)
XCall(t) ==   \* load running; store false
  /\ running' = FALSE
  /\ H' = [H EXCEPT !.stopCalled = TRUE]
  /\ pc' = [pc EXCEPT ![t] = "xjb"]
  /\ UNCHANGED <<stk, cur, opi, gq, lq, held, ntrun, flatq>>

XJoinBal(t) ==
  /\ pc[t] = "xjb"
  /\ HasBal => pc[BAL] = "done"
  /\ pc' = [pc EXCEPT ![t] = "xpush"]
  /\ UNCHANGED <<cfg, stk, cur, opi, gq, lq, held, si, bq, nstop, running, ntrun, flatq, H>>

XPush(t) ==   \* one STOP marker per worker thread, behind everything accepted so far
  /\ pc[t] = "xpush"
  /\ Len(gq) < GC
  /\ gq' = Append(gq, STOP)
  /\ nstop' = nstop + 1
  /\ pc' = [pc EXCEPT ![t] = IF nstop + 1 >= cfg.W THEN "xjw" ELSE "xpush"]
  /\ UNCHANGED <<cfg, stk, cur, opi, lq, held, si, bq, running, ntrun, flatq, H>>

XJoinWorkers(t) ==
  /\ pc[t] = "xjw"
  /\ \A w \in Wk : pc[w] = "done"
  /\ H' = [H EXCEPT !.stopRet = TRUE, !.endedAtRet = H.ended]
  /\ IF opi[t] <= Len(cfg.prog[t])      \* an explicit stop(): the operation list goes on
       THEN opi' = [opi EXCEPT ![t] = @ + 1] /\ pc' = [pc EXCEPT ![t] = IdlePc(t, opi[t] + 1)]
       ELSE opi' = opi /\ pc' = [pc EXCEPT ![t] = "fin"]
  /\ UNCHANGED <<cfg, stk, cur, gq, lq, held, si, bq, nstop, running, ntrun, flatq>>

(***************************************************************************)
(* AlwaysUseNewThreadExecutor threads                                      *)
(***************************************************************************)
TStart(t) ==
  /\ pc[t] = "t0"
  /\ cur' = [cur EXCEPT ![t] = "ex"]
  /\ stk' = [stk EXCEPT ![t] = <<[id |-> t - 1000, k |-> 1]>>]
  /\ pc' = [pc EXCEPT ![t] = "body"]
  /\ H' = Begun(H, t - 1000, "ex")
  /\ UNCHANGED <<cfg, opi, gq, lq, held, si, bq, nstop, running, ntrun, flatq>>

TDec(t) ==
  /\ pc[t] = "tdec"
  /\ ntrun' = ntrun - 1
  /\ pc' = [pc EXCEPT ![t] = "done"]
  /\ UNCHANGED <<cfg, stk, cur, opi, gq, lq, held, si, bq, nstop, running, flatq, H>>

(***************************************************************************)
(* client programs                                                         *)
(***************************************************************************)
MyFuts(t) == {cfg.prog[t][i].r : i \in {j \in 1..opi[t] - 1 : cfg.prog[t][j].op = "e"}}
Pending(t) == (MyFuts(t) \cap H.accB) \ H.ended

Op(t) ==
  /\ pc[t] = "idle"
  /\ UNCHANGED <<cfg, si, bq, nstop>>
  /\ LET o == CurOp(t)
     IN CASE o.op \in {"e", "s"} -> StartSub(t, o.r) /\ running' = running
          [] o.op = "g" -> /\ Pending(t) = {}
                           /\ Resume(t)
                           /\ UNCHANGED <<cur, gq, lq, held, ntrun, flatq, H, running>>
          [] o.op = "x" -> XCall(t)
          [] o.op = "u" -> /\ Len(gq) < GC
                           /\ gq' = Append(gq, WAKE)
                           /\ Resume(t)
                           /\ UNCHANGED <<cur, lq, held, ntrun, flatq, H, running>>

\* main (thread 1) joins the other submitters, then the executor goes away:
\* ~ThreadPoolExecutor -> stop();  AlwaysUseNewThreadExecutor::join()
MainJoin ==
  /\ pc[1] = "mjoin"
  /\ \A t \in Sub \ {1} : pc[t] = "fin"
  /\ UNCHANGED <<cfg, si, bq, nstop>>
  /\ IF cfg.kind = "pool" /\ running
       THEN XCall(1)
       ELSE /\ pc' = [pc EXCEPT ![1] = IF cfg.kind = "newthread" THEN "njoin" ELSE "fin"]
            /\ UNCHANGED <<stk, cur, opi, gq, lq, held, running, ntrun, flatq, H>>

NJoin ==
  /\ pc[1] = "njoin"
  /\ ntrun = 0
  /\ pc' = [pc EXCEPT ![1] = "fin"]
  /\ UNCHANGED <<cfg, stk, cur, opi, gq, lq, held, si, bq, nstop, running, ntrun, flatq, H>>

Step(t) ==
  \/ (t \in Sub /\ (Op(t) \/ XJoinBal(t) \/ XPush(t) \/ XJoinWorkers(t)))
  \/ (t = 1 /\ (MainJoin \/ NJoin))
  \/ (Body(t) /\ running' = running) \/ LFill(t) \/ GPush(t)
  \/ (t \in Wk /\ (WLocal(t) \/ WSteal(t) \/ WGlobal(t) \/ Begin(t)))
  \/ (t = BAL /\ HasBal /\ (BCheck \/ BPop))
  \/ (t \in TaskThr /\ (TStart(t) \/ TDec(t)))

(***************************************************************************)
(* termination / blocking                                                  *)
(***************************************************************************)
AllDone == \A t \in Sub : pc[t] = "fin"
Finished(t) == pc[t] \in {"fin", "done", "off"}
GFull == Len(gq) >= GC
\* the next step of t is a push to the global queue
AtGlobalPush(t) ==
  \/ pc[t] = "gpush"
  \/ pc[t] = "idle" /\ (CurOp(t).op = "u" \/ (CurOp(t).op \in {"e", "s"} /\ cfg.kind = "pool"))
  \/ pc[t] = "body" /\ Top(t).k <= NCh(Top(t).id) /\ cfg.kind = "pool" /\ ~LocalChoice(t)
Blocked(t) ==
  \/ AtGlobalPush(t) /\ GFull
  \/ pc[t] = "xpush" /\ GFull
  \/ pc[t] = "wg" /\ gq = << >>
  \/ pc[t] = "idle" /\ CurOp(t).op = "g" /\ Pending(t) # {}
  \/ pc[t] = "xjb" /\ HasBal /\ pc[BAL] # "done"
  \/ pc[t] = "xjw" /\ \E w \in Wk : pc[w] # "done"
  \/ pc[t] = "mjoin" /\ \E u \in Sub \ {1} : pc[u] # "fin"
  \/ pc[t] = "njoin" /\ ntrun # 0
Stuck == \A t \in Thr : Finished(t) \/ Blocked(t)

(***************************************************************************)
(* L1 clauses of C07                                                       *)
(***************************************************************************)
\* accepted before stop() was called, closed under `spawned into a local queue by such a task'
D1 == H.accB \cup {c \in H.locals : Par(c) \in H.accB}
Oblig == D1 \cup {c \in H.locals : Par(c) \in D1}

AcceptedBeforeStopRunsOnce ==
  /\ H.twice \cap H.accB = {}
  /\ (AllDone \/ H.stopRet) => H.accB \subseteq H.began
RunsOnOwnExecutorThread == H.rinBad \cap H.accB = {}
FutureReadyWithResult ==
  /\ \A p \in H.futv : p[2] = Res(p[1]) /\ p[1] \in H.ended
  /\ (AllDone \/ H.stopRet) => \A id \in H.accB : HasFut(id) => <<id, Res(id)>> \in H.futv
StopWaits == H.stopRet => Oblig \subseteq H.endedAtRet
FailedSubmitNeverRuns ==
  /\ H.refused \cap H.began = {}
  /\ H.refused \cap H.acc = {}
  /\ \A p \in H.futv : p[1] \notin H.refused
\* a program that does not itself sit on a full global queue never gets stuck before its end
NoDeadlock == (Stuck /\ ~AllDone) => \E t \in Thr : AtGlobalPush(t)

TypeOK ==
  /\ Len(gq) <= GC
  /\ \A w \in Wk : Len(lq[w]) <= cfg.L /\ Cardinality({i \in 1..Len(lq[w]) : ~lq[w][i].f}) <= 1
  /\ ntrun >= 0 /\ nstop <= cfg.W
=============================================================================
