------------------------------ MODULE MC_AnyBox ------------------------------
(* Model-checking instance of AnyBox.  Next = every operation record of Ops  *)
(* (variables x payload types x reference kinds).  With EmitT = TRUE every   *)
(* transition TLC generates is printed as <<"T", key, op, key'>>: the        *)
(* labelled state graph from which checks/any_common.py computes operation   *)
(* scripts that execute every transition on the real babylon::Any.  With     *)
(* Hist = TRUE the sequence of operations is kept in hist (for -simulate).   *)
EXTENDS AnyBox

CONSTANTS EmitT, Hist, Depth

VARIABLES hist

ValTypes == {t \in CTypes : Copyable(t)} \cup Prims
PtrTypes == CTypes \cup (Prims \cap {"i64", "u8", "dbl"})
RelTypes == CTypes \cup (Prims \cap {"i64"})

Op(o, a, b, t, c) == [op |-> o, a |-> a, b |-> b, ty |-> t, c |-> c]
Ops ==
  {Op("val", a, 0, t, "-") : a \in Vars, t \in ValTypes}
  \cup {Op("ptr", a, 0, t, "-") : a \in Vars, t \in PtrTypes}
  \cup {Op("ref", a, e, "-", c) : a \in Vars, e \in {e \in 1..NExt : Refable(Ext[e])}, c \in {"mref", "cref"}}
  \cup {Op("refany", a, b, "-", c) : a \in Vars, b \in Vars, c \in {"mref", "cref"}}
  \cup {Op("copy", a, b, "-", "-") : a \in Vars, b \in Vars}
  \cup {Op("move", a, b, "-", "-") : a \in Vars, b \in Vars}
  \cup {Op("clear", a, 0, "-", "-") : a \in Vars}
  \cup {Op("rel", a, 0, t, "-") : a \in Vars, t \in RelTypes}
  \cup {Op("relany", a, 0, "-", "-") : a \in Vars}
  \cup {Op("poke", a, 0, "-", "-") : a \in Vars}
  \cup {Op("pokex", 0, e, "-", "-") : e \in 1..NExt}

HK(x) == <<x.ht, x.ty, x.obj, x.slot, x.val>>
OK(x) == IF x.live THEN <<x.ty, x.val, x.loc>> ELSE <<>>
Key == <<[a \in Vars |-> HK(h[a])], [o \in Objs |-> OK(ob[o])], dead>>
OpK(o) == <<o.op, o.a, o.b, o.ty, o.c>>

MCInit == Init /\ hist = <<>>
MCNext ==
  \E o \in Ops :
     /\ Step(o)
     /\ hist' = IF Hist THEN Append(hist, OpK(o)) ELSE hist
     /\ (EmitT => PrintT(ToString(<<"T", Key, OpK(o), Key'>>)))
MCSpec == MCInit /\ [][MCNext]_<<vars, hist>>

View == <<h, ob, dead>>
StepOK == [][StepProps]_vars
DepthBound == Len(hist) < Depth
EmitHist == (Len(hist) = Depth \/ dead) => PrintT(<<"SCRIPT", hist>>)
=============================================================================
