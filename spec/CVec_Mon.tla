------------------------------ MODULE CVec_Mon ------------------------------
(***************************************************************************)
(* L1 specification of property C04 as a monitor over the observable       *)
(* events of an execution of ANY implementation of the ConcurrentVector    *)
(* API: call / return of the public operations with the identity of the    *)
(* element (or, for snapshot(), of the table) they designate, constructor  *)
(* and destructor calls of the element type, allocations and frees seen by *)
(* the allocator with their (virtual) time in seconds.  It knows nothing   *)
(* about tables being CAS-published, retire lists or stamps.               *)
(*                                                                         *)
(*  SameElementForSameIndex      one element per index, whoever asks,      *)
(*                               through ensure, operator[], for_each or a *)
(*                               snapshot                                  *)
(*  StableAddress                an element handed out stays a constructed *)
(*                               object in live memory until the vector    *)
(*                               dies                                      *)
(*  ConstructedOnceBeforeVisible constructor ran exactly once before the   *)
(*                               element was handed out                    *)
(*  DestroyedOnce                destructor runs exactly once, for every   *)
(*                               constructed element, by the time the      *)
(*                               vector is dead; memory not given back     *)
(*                               under a live object                       *)
(*  Cooling                      a table that a snapshot() call obtained   *)
(*                               is not given back earlier than 64 s after *)
(*                               that call began (it was still current     *)
(*                               then, so whatever superseded it came      *)
(*                               later)                                    *)
(*  NoUseAfterFree               a held snapshot is not dead less than     *)
(*                               64 s after it was taken                   *)
(*  NoLeak, NoDoubleFree         allocator discipline                      *)
(*  NoCrash                      no fault / hang / deadlock                *)
(***************************************************************************)
EXTENDS Naturals, Integers, Sequences, FiniteSets, TLC, Json, IOUtils

Tr == ndJsonDeserialize(IOEnv.TRACE)

COOL == 64

VARIABLES l,
          ctor, dtor,    \* <<aid, off>> -> number of constructor / destructor calls
          live, freed,   \* allocations outstanding / given back
          idx,           \* index -> element first handed out for it
          handed,        \* elements handed out
          seenCur,       \* table -> latest time a snapshot() call that obtained it began
          callAt,        \* thread -> time its current operation began
          heldAt,        \* thread -> time the snapshot it holds was requested
          dying,         \* the destructor of the vector has begun
          bad

mvars == <<l, ctor, dtor, live, freed, idx, handed, seenCur, callAt, heldAt, dying, bad>>

Thrs == 0..15
Get(f, x) == IF x \in DOMAIN f THEN f[x] ELSE 0
Put(f, x, v) == [y \in DOMAIN f \cup {x} |-> IF y = x THEN v ELSE f[y]]
Flag(b, name) == IF b /\ bad = "" THEN name ELSE bad
First(S) == CHOOSE s \in S : s[1] /\ \A r \in S : r[1] => s[2] <= r[2]
\* the first clause (lowest rank) that fails names the verdict
Verdict(S) == IF bad # "" \/ \A s \in S : ~s[1] THEN bad ELSE First(S)[3]

Fresh ==
  /\ ctor' = << >> /\ dtor' = << >> /\ live' = {} /\ freed' = {} /\ idx' = << >> /\ handed' = {}
  /\ seenCur' = << >> /\ callAt' = [t \in Thrs |-> 0] /\ heldAt' = [t \in Thrs |-> -1] /\ dying' = FALSE

MInit ==
  /\ l = 2 /\ Tr[1].k = "reset"
  /\ ctor = << >> /\ dtor = << >> /\ live = {} /\ freed = {} /\ idx = << >> /\ handed = {}
  /\ seenCur = << >> /\ callAt = [t \in Thrs |-> 0] /\ heldAt = [t \in Thrs |-> -1] /\ dying = FALSE
  /\ bad = ""
  /\ TLCSet(1, 1)

Alive(a) == Get(ctor, a) = 1 /\ Get(dtor, a) = 0 /\ a[1] \in live

MAlloc(e) ==
  /\ live' = live \cup {e.aid}
  /\ bad' = Flag(e.aid \in live \cup freed, "Protocol")
  /\ UNCHANGED <<ctor, dtor, freed, idx, handed, seenCur, callAt, heldAt, dying>>

MCtor(e) ==
  LET a == <<e.aid, e.off>>
  IN /\ ctor' = Put(ctor, a, Get(ctor, a) + 1)
     /\ bad' = Verdict({<<Get(ctor, a) >= 1, 1, "ConstructedOnceBeforeVisible">>,
                        <<e.aid \notin live, 2, "StableAddress">>})
     /\ UNCHANGED <<dtor, live, freed, idx, handed, seenCur, callAt, heldAt, dying>>

MDtor(e) ==
  LET a == <<e.aid, e.off>>
  IN /\ dtor' = Put(dtor, a, Get(dtor, a) + 1)
     /\ bad' = Verdict({<<Get(dtor, a) >= 1 \/ Get(ctor, a) # 1 \/ e.val # 1, 1, "DestroyedOnce">>,
                        <<a \in handed /\ ~dying, 2, "StableAddress">>})
     /\ UNCHANGED <<ctor, live, freed, idx, handed, seenCur, callAt, heldAt, dying>>

MFree(e) ==
  LET under == {a \in DOMAIN ctor : a[1] = e.aid /\ ctor[a] >= 1 /\ Get(dtor, a) = 0}
  IN /\ live' = live \ {e.aid}
     /\ freed' = freed \cup {e.aid}
     /\ bad' = Verdict({<<~e.ok \/ e.aid \notin live, 1, "NoDoubleFree">>,
                        <<\E a \in handed : a[1] = e.aid /\ ~dying, 2, "StableAddress">>,
                        <<under # {}, 3, "DestroyedOnce">>,
                        <<~dying /\ e.aid \in DOMAIN seenCur /\ e.now < seenCur[e.aid] + COOL, 4, "Cooling">>})
     /\ UNCHANGED <<ctor, dtor, idx, handed, seenCur, callAt, heldAt, dying>>

MCall(e) ==
  /\ callAt' = [callAt EXCEPT ![e.t] = e.now]
  /\ bad' = bad
  /\ UNCHANGED <<ctor, dtor, live, freed, idx, handed, seenCur, heldAt, dying>>

\* an element <<aid, off>> (val: it looked like a constructed object) was handed out for index i
ElemChecks(i, a, val, ix) ==
  {<<val # 1 \/ Get(ctor, a) # 1, 1, "ConstructedOnceBeforeVisible">>,
   <<Get(dtor, a) # 0 \/ a[1] \notin live, 2, "StableAddress">>,
   <<i \in DOMAIN ix /\ ix[i] # a, 3, "SameElementForSameIndex">>}

MRetElem(e) ==
  LET a == <<e.aid, e.off>>
  IN /\ idx' = IF e.n \in DOMAIN idx THEN idx ELSE Put(idx, e.n, a)
     /\ handed' = handed \cup {a}
     /\ bad' = Verdict(ElemChecks(e.n, a, e.val, idx))
     /\ UNCHANGED <<ctor, dtor, live, freed, seenCur, callAt, heldAt, dying>>

MRetEach(e) ==
  LET n == Len(e.els)
      A(j) == <<e.els[j][1], e.els[j][2]>>
      chk == UNION {ElemChecks(j - 1, A(j), e.els[j][3], idx) : j \in 1..n}
  IN /\ idx' = [i \in DOMAIN idx \cup 0..n - 1 |-> IF i \in DOMAIN idx THEN idx[i] ELSE A(i + 1)]
     /\ handed' = handed \cup {A(j) : j \in 1..n}
     /\ bad' = Verdict(chk \cup {<<n # e.n, 4, "Protocol">>})
     /\ UNCHANGED <<ctor, dtor, live, freed, seenCur, callAt, heldAt, dying>>

MRetSnap(e) ==
  /\ seenCur' = IF e.aid > 0 THEN Put(seenCur, e.aid, IF Get(seenCur, e.aid) > callAt[e.t] THEN seenCur[e.aid] ELSE callAt[e.t]) ELSE seenCur
  /\ heldAt' = [heldAt EXCEPT ![e.t] = callAt[e.t]]
  /\ bad' = Flag(e.aid > 0 /\ e.aid \notin live /\ e.now < callAt[e.t] + COOL, "NoUseAfterFree")
  /\ UNCHANGED <<ctor, dtor, live, freed, idx, handed, callAt, dying>>

MRetUse(e) ==
  IF ~e.ok
  THEN /\ bad' = Flag(heldAt[e.t] >= 0 /\ e.now < heldAt[e.t] + COOL, "NoUseAfterFree")
       /\ UNCHANGED <<ctor, dtor, live, freed, idx, handed, seenCur, callAt, heldAt, dying>>
  ELSE IF e.aid < 0
  THEN bad' = bad /\ UNCHANGED <<ctor, dtor, live, freed, idx, handed, seenCur, callAt, heldAt, dying>>
  ELSE MRetElem(e)

MRet(e) ==
  CASE e.op \in {"e", "x"} -> MRetElem(e)
    [] e.op = "f" -> MRetEach(e)
    [] e.op = "s" -> MRetSnap(e)
    [] e.op = "u" -> MRetUse(e)
    [] OTHER -> bad' = bad /\ UNCHANGED <<ctor, dtor, live, freed, idx, handed, seenCur, callAt, heldAt, dying>>

MDestroy(e) ==
  /\ dying' = TRUE /\ bad' = bad
  /\ UNCHANGED <<ctor, dtor, live, freed, idx, handed, seenCur, callAt, heldAt>>

MDead(e) ==
  /\ bad' = Verdict({<<\E a \in DOMAIN ctor : Get(dtor, a) # 1, 1, "DestroyedOnce">>,
                     <<Len(e.live) # 0 \/ live # {}, 2, "NoLeak">>})
  /\ UNCHANGED <<ctor, dtor, live, freed, idx, handed, seenCur, callAt, heldAt, dying>>

MEnd(e) ==
  /\ bad' = Flag(e.status # "ok", "NoCrash")
  /\ UNCHANGED <<ctor, dtor, live, freed, idx, handed, seenCur, callAt, heldAt, dying>>

MNext ==
  /\ l <= Len(Tr)
  /\ LET e == Tr[l]
     IN CASE e.k = "reset" -> Fresh /\ bad' = bad
          [] e.k = "alloc" -> MAlloc(e)
          [] e.k = "free" -> MFree(e)
          [] e.k = "ctor" -> MCtor(e)
          [] e.k = "dtor" -> MDtor(e)
          [] e.k = "call" -> MCall(e)
          [] e.k = "ret" -> MRet(e)
          [] e.k = "destroy" -> MDestroy(e)
          [] e.k = "dead" -> MDead(e)
          [] e.k = "end" -> MEnd(e)
  /\ l' = l + 1
  /\ TLCSet(1, l')

MSpec == MInit /\ [][MNext]_mvars

\* the verdict names the clause:  bad = "" means every clause held so far
Holds == bad = ""

Post == PrintT(<<"VERIF", TLCGet(1) - 1, Len(Tr), {}>>)
=============================================================================
