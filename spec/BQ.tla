-------------------------------- MODULE BQ --------------------------------
(***************************************************************************)
(* L2 (implementation-shaped) specification of                             *)
(* babylon::ConcurrentBoundedQueue  (src/babylon/concurrent/               *)
(* bounded_queue.hpp).  ONE ACTION PER ATOMIC OPERATION / FENCE / FUTEX    *)
(* CALL / CALLBACK EDGE of the code; the memory order of every site comes  *)
(* from the operator argument M(site) -- the constant table MO when model  *)
(* checking, the order logged by the running code when validating traces.  *)
(*                                                                         *)
(* Memory is the view-based model of WeakMem.tla.  Stale = FALSE gives     *)
(* plain interleaving semantics (loads read the last message) but still    *)
(* tracks happens-before, so NoDataRace is meaningful in both modes.       *)
(*                                                                         *)
(* The L1 properties (C01, C02) are stated over history variables at the   *)
(* end of the module.                                                      *)
(***************************************************************************)
EXTENDS Naturals, Integers, Sequences, FiniteSets, TLC, WeakMem

CONSTANTS Stale,   \* BOOLEAN: loads may read non-latest messages (weak-memory exploration)
          Configs  \* set of initial configurations [cap, base, prog]

VARIABLES cfg,     \* the configuration of this execution
          ms,      \* memory state (WeakMem)
          pc,      \* pc[t]
          L,       \* L[t]: locals of thread t
          H,       \* history record (L1 observables)
          ev       \* ghost: the operation performed by the last step

vars == <<cfg, ms, pc, L, H, ev>>

VMOD == 65536
WAITER == 65536           \* waiter flag in the high half of the futex word

Thr == 1..Len(cfg.prog)
Cap == cfg.cap
Mask == Cap - 1           \* Cap is a power of two

IdxLoc(role) == <<"idx", IF role = "push" THEN 0 ELSE 1>>
SlotLoc(i) == <<"slot", i>>
ValLoc(i) == <<"val", i>>

Ver(w) == w % VMOD
HasWaiter(w) == w >= WAITER
PushVer(idx) == ((idx \div Cap) * 2) % VMOD
PopVer(idx) == (PushVer(idx) + 1) % VMOD
ExpVer(role, idx) == IF role = "push" THEN PushVer(idx) ELSE PopVer(idx)
NextRound(idx) == ((idx \div Cap) + 1) * Cap

RoleOf(op) == IF op \in {"pu", "tpu", "pun", "tpun", "cpun"} THEN "push" ELSE "pop"
Other(role) == IF role = "push" THEN "pop" ELSE "push"
IsTry(op) == op \in {"tpu", "tpo", "tpun", "tpon"}

Op(t) == cfg.prog[t][L[t].opi]
OpId(t) == <<t, L[t].opi>>

NoEv == [t |-> 0, k |-> "", site |-> "", mo |-> "", loc |-> "", i |-> 0, v |-> 0, a |-> 0, b |-> 0,
         ok |-> TRUE, op |-> "", n |-> 0, vals |-> <<>>, res |-> 0]
LocName(x) == x[1]
LocIdx(x) == x[2]

L0 == [opi |-> 1, role |-> "push", idx |-> 0, num |-> 0, seg2 |-> <<>>, exp |-> 0, slot |-> 0, i |-> 0,
       seen |-> 0, wk |-> "", wret |-> "", cbret |-> "", cbrole |-> "", cbslot |-> 0, cbnum |-> 0, vals |-> <<>>,
       res |-> 0, ridx |-> 0, rexp |-> 0, rslot |-> 0, ci |-> 0, timed |-> FALSE, avail |-> 0, nested |-> FALSE]

H0 == [active |-> {}, done |-> {}, prec |-> {}, pushedBy |-> << >>, poppedBy |-> << >>, bad |-> "", tryBad |-> FALSE,
       overlap |-> [t \in 1..8 |-> FALSE], item |-> [t \in 1..8 |-> 0]]

MS0(c) == WMInit(1..Len(c.prog),
                 [x \in {<<"idx", 0>>, <<"idx", 1>>} \cup {<<"slot", i>> : i \in 0..c.cap - 1} \cup {<<"val", i>> : i \in 0..c.cap - 1}
                    |-> IF x[1] = "idx" THEN c.base ELSE IF x[1] = "slot" THEN ((c.base \div c.cap) * 2) % VMOD ELSE 0])
PC0(c) == [t \in 1..Len(c.prog) |-> "idle"]
LL0(c) == [t \in 1..Len(c.prog) |-> L0]

InitFor(c) ==
  /\ cfg = c
  /\ ms = MS0(c)
  /\ pc = PC0(c)
  /\ L = LL0(c)
  /\ H = H0
  /\ ev = NoEv

Init == \E c \in Configs : InitFor(c)

(***************************************************************************)
(* Memory access helpers.  Each yields ms', ev' and hands the value to a   *)
(* continuation that sets pc' and L'.                                      *)
(***************************************************************************)
KeepAll == Stale

DoLoad(t, x, site, M(_), K(_)) ==
  \E i \in Readable(ms, t, x, Stale) :
    LET mo == M(site)
        v == ms.mem[x][i].val
    IN /\ ms' = ScAfter(LoadEff(ScBefore(ms, t, mo), t, x, i, mo), t, mo)
       /\ ev' = [NoEv EXCEPT !.t = t, !.k = "load", !.site = site, !.mo = mo, !.loc = LocName(x), !.i = LocIdx(x), !.v = v]
       /\ K(v)

\* 32-bit load of a slot word; if the thread has an unordered narrow store pending it may
\* combine its own version half with a stale waiter half
DoWideLoad(t, x, site, M(_), K(_)) ==
  \/ DoLoad(t, x, site, M, K)
  \/ /\ Stale /\ IsPend(ms, t, x)
     /\ \E i \in Readable(ms, t, x, Stale), j \in PendReadable(ms, t, x) :
          LET mo == M(site)
              v == Ver(ms.mem[x][i].val) + (IF HasWaiter(ms.mem[x][j].val) THEN WAITER ELSE 0)
          IN /\ v # ms.mem[x][i].val
             /\ ms' = LoadEff(ms, t, x, i, mo)
             /\ ev' = [NoEv EXCEPT !.t = t, !.k = "load", !.site = site, !.mo = mo, !.loc = LocName(x), !.i = LocIdx(x), !.v = v]
             /\ K(v)

DoStore(t, x, v, site, M(_)) ==
  LET mo == M(site)
  IN /\ ms' = ScAfter(StoreEff(ScBefore(ms, t, mo), t, x, v, mo, KeepAll), t, mo)
     /\ ev' = [NoEv EXCEPT !.t = t, !.k = "store", !.site = site, !.mo = mo, !.loc = LocName(x), !.i = LocIdx(x), !.v = v]

\* 16-bit store of the version half: the waiter half keeps the value of the preceding message
DoStoreVer(t, x, ver, site, M(_)) ==
  LET mo == M(site)
      w == ver + (IF HasWaiter(LastVal(ms, x)) THEN WAITER ELSE 0)
  IN /\ ms' = ScAfter(NarrowStoreEff(ScBefore(ms, t, mo), t, x, w, mo, KeepAll), t, mo)
     /\ ev' = [NoEv EXCEPT !.t = t, !.k = "store", !.site = site, !.mo = mo, !.loc = LocName(x), !.i = LocIdx(x), !.v = ver]

DoRmw(t, x, kind, F(_), a, site, M(_), K(_)) ==
  LET mo == M(site)
      old == LastVal(ms, x)
  IN /\ ms' = ScAfter(RmwEff(ScBefore(ms, t, mo), t, x, F(old), mo, KeepAll), t, mo)
     /\ ev' = [NoEv EXCEPT !.t = t, !.k = kind, !.site = site, !.mo = mo, !.loc = LocName(x), !.i = LocIdx(x), !.v = old, !.a = a]
     /\ K(old)

DoCas(t, x, e, d, site, M(_), K(_, _)) ==
  LET mo == M(site)
      old == LastVal(ms, x)
  IN IF old = e
     THEN /\ ms' = ScAfter(RmwEff(ScBefore(ms, t, mo), t, x, d, mo, KeepAll), t, mo)
          /\ ev' = [NoEv EXCEPT !.t = t, !.k = "cas", !.site = site, !.mo = mo, !.loc = LocName(x), !.i = LocIdx(x), !.v = old, !.a = e, !.b = d, !.ok = TRUE]
          /\ K(TRUE, old)
     ELSE LET mf == M(site \o "_f")   \* the failure order is a site of its own
          IN /\ ms' = LoadEff(ms, t, x, Len(ms.mem[x]), mf)
             /\ ev' = [NoEv EXCEPT !.t = t, !.k = "cas", !.site = site \o "_f", !.mo = mf, !.loc = LocName(x), !.i = LocIdx(x), !.v = old, !.a = e, !.b = d, !.ok = FALSE]
             /\ K(FALSE, old)

DoFence(t, site, M(_)) ==
  LET mo == M(site)
  IN /\ ms' = FenceEff(ms, t, mo)
     /\ ev' = [NoEv EXCEPT !.t = t, !.k = "fence", !.site = site, !.mo = mo]

Goto(t, p) == pc' = [pc EXCEPT ![t] = p]
SetL(t, l) == L' = [L EXCEPT ![t] = l]

(***************************************************************************)
(* Call / return (driver level; also the L1 observation points)            *)
(***************************************************************************)
FirstPc(o) ==
  CASE o.op \in {"pu", "po"} -> IF o.c THEN "d_faa" ELSE "d_tload"
    [] o.op \in {"tpu", "tpo"} -> "t_iload"
    [] o.op \in {"pun", "pon"} -> IF o.c THEN "n_faa" ELSE "n_tload"
    [] o.op \in {"tpun", "tpon"} -> "tn_iload"
    [] o.op \in {"cpun", "cpon"} -> "c_faa"
    [] o.op = "xpon" -> "x_iload"

Call(t) ==
  /\ pc[t] = "idle"
  /\ L[t].opi <= Len(cfg.prog[t])
  /\ LET o == Op(t)
         others == H.active
         avail == LastVal(ms, IdxLoc("push")) - LastVal(ms, IdxLoc("pop"))
     IN /\ Goto(t, FirstPc(o))
        /\ SetL(t, [L[t] EXCEPT !.role = RoleOf(o.op), !.res = 0, !.avail = avail, !.nested = FALSE, !.seg2 = <<>>, !.timed = FALSE])
        /\ H' = [H EXCEPT !.active = @ \cup {OpId(t)},
                          !.prec = @ \cup {<<d, OpId(t)>> : d \in H.done},
                          !.overlap = [u \in DOMAIN H.overlap |-> IF u = t THEN others # {}
                                                                   ELSE IF \E id \in others : id[1] = u THEN TRUE ELSE H.overlap[u]]]
        /\ ev' = [NoEv EXCEPT !.t = t, !.k = "call", !.op = o.op, !.n = o.n]
        /\ UNCHANGED <<cfg, ms>>

\* what a try_ operation that overlapped nothing must have returned
TryExpected(t) ==
  LET o == Op(t)
      room == IF RoleOf(o.op) = "push" THEN Cap - L[t].avail ELSE L[t].avail
  IN IF o.op \in {"tpu", "tpo"} THEN (IF room > 0 THEN 1 ELSE 0)
     ELSE IF room < o.n THEN room ELSE o.n

Ret(t) ==
  /\ pc[t] = "ret"
  /\ LET o == Op(t)
         bad == IsTry(o.op) /\ ~H.overlap[t] /\ L[t].res # TryExpected(t)
     IN /\ H' = [H EXCEPT !.active = @ \ {OpId(t)}, !.done = @ \cup {OpId(t)},
                          !.tryBad = @ \/ bad]
        /\ ev' = [NoEv EXCEPT !.t = t, !.k = "ret", !.op = o.op, !.n = o.n, !.res = L[t].res]
  /\ Goto(t, "idle")
  /\ SetL(t, [L[t] EXCEPT !.opi = @ + 1])
  /\ UNCHANGED <<cfg, ms>>

(***************************************************************************)
(* Callback: cbb (access begins) / cbm / cbe (access ends)                 *)
(***************************************************************************)
Producing(role) == role \in {"push", "rpush"}

CbBegin(t) ==
  /\ pc[t] = "cbb"
  /\ LET l == L[t]
         n == l.cbnum
         cells == [j \in 1..n |-> ValLoc(l.cbslot + j - 1)]
         newvals == [j \in 1..n |-> t * 100 + H.item[t] + j]
         RECURSIVE Acc(_, _)
         Acc(m, j) == IF j > n THEN m
                      ELSE Acc(NaEff(m, t, cells[j], IF Producing(l.cbrole) THEN newvals[j] ELSE -7, FALSE), j + 1)
         read == [j \in 1..n |-> LastVal(ms, cells[j])]
         vals == IF Producing(l.cbrole) THEN newvals ELSE read
         dupOrInv == ~Producing(l.cbrole) /\ \E j \in 1..n : (read[j] \notin DOMAIN H.pushedBy \/ read[j] \in DOMAIN H.poppedBy)
         pb == IF Producing(l.cbrole) THEN [x \in DOMAIN H.pushedBy \cup {newvals[j] : j \in 1..n} |-> IF x \in DOMAIN H.pushedBy THEN H.pushedBy[x] ELSE OpId(t)] ELSE H.pushedBy
         qb == IF Producing(l.cbrole) THEN H.poppedBy ELSE [x \in DOMAIN H.poppedBy \cup {read[j] : j \in 1..n} |-> IF x \in DOMAIN H.poppedBy THEN H.poppedBy[x] ELSE OpId(t)]
     IN /\ ms' = Acc(ms, 1)
        /\ SetL(t, [l EXCEPT !.vals = vals])
        /\ H' = [H EXCEPT !.pushedBy = pb, !.poppedBy = qb,
                          !.item[t] = IF Producing(l.cbrole) THEN @ + n ELSE @,
                          !.bad = IF dupOrInv /\ H.bad = "" THEN "NoDupNoInvent" ELSE @]
        /\ ev' = [NoEv EXCEPT !.t = t, !.k = "cbb", !.op = l.cbrole, !.i = l.cbslot, !.n = n, !.vals = vals]
  /\ Goto(t, "cbm")
  /\ UNCHANGED cfg

CbMid(t) ==
  /\ pc[t] = "cbm"
  /\ ev' = [NoEv EXCEPT !.t = t, !.k = "cbm"]
  /\ Goto(t, "cbe")
  /\ UNCHANGED <<cfg, ms, L, H>>

CbEnd(t) ==
  /\ pc[t] = "cbe"
  /\ LET l == L[t]
         n == l.cbnum
         cells == [j \in 1..n |-> ValLoc(l.cbslot + j - 1)]
         RECURSIVE Acc(_, _)
         Acc(m, j) == IF j > n THEN m ELSE Acc(NaEff(m, t, cells[j], LastVal(m, cells[j]), FALSE), j + 1)
     IN /\ ms' = Acc(ms, 1)
        /\ ev' = [NoEv EXCEPT !.t = t, !.k = "cbe", !.op = l.cbrole, !.i = l.cbslot, !.n = n, !.vals = l.vals]
        /\ Goto(t, l.cbret)
  /\ UNCHANGED <<cfg, L, H>>

EnterCb(l, role, slot, num, retpc) == [l EXCEPT !.cbrole = role, !.cbslot = slot, !.cbnum = num, !.cbret = retpc]

(***************************************************************************)
(* SlotFutex::wait_until_reach_expected_version and its slow paths.        *)
(* L.wk names the caller ("deal" | "dealn" | "xp"), L.wret where to go on  *)
(* success, the waited slot is L.slot + L.i, expected version L.exp.       *)
(***************************************************************************)
WSlot(t) == SlotLoc(L[t].slot + L[t].i)
UseFutexWait(t) == L[t].timed \/ Op(t).w

WLoad(t, M(_)) ==
  /\ pc[t] = "w_load"
  /\ DoWideLoad(t, WSlot(t), L[t].wk \o "_wait_load", M,
        LAMBDA v : /\ SetL(t, [L[t] EXCEPT !.seen = v])
                   /\ Goto(t, IF Ver(v) = L[t].exp THEN L[t].wret
                              ELSE IF UseFutexWait(t) THEN (IF L[t].timed THEN "w_clk0" ELSE IF HasWaiter(v) THEN "w_fwait" ELSE "w_cas")
                              ELSE "w_sleep"))
  /\ UNCHANGED <<cfg, H>>

\* timed variant reads the clock when it enters the slow path (abstracted: no value)
WClk0(t) ==
  /\ pc[t] = "w_clk0"
  /\ ev' = [NoEv EXCEPT !.t = t, !.k = "clock"]
  /\ Goto(t, IF HasWaiter(L[t].seen) THEN "w_fwait" ELSE "w_cas")
  /\ UNCHANGED <<cfg, ms, L, H>>

WCas(t, M(_)) ==
  /\ pc[t] = "w_cas"
  /\ DoCas(t, WSlot(t), L[t].seen, L[t].seen + WAITER, L[t].wk \o "_wait_cas", M,
        LAMBDA ok, old :
          IF ok THEN /\ SetL(t, [L[t] EXCEPT !.seen = L[t].seen + WAITER]) /\ Goto(t, "w_fwait")
          ELSE /\ SetL(t, [L[t] EXCEPT !.seen = old])
               /\ Goto(t, IF Ver(old) = L[t].exp THEN L[t].wret ELSE IF HasWaiter(old) THEN "w_fwait" ELSE "w_cas"))
  /\ UNCHANGED <<cfg, H>>

\* futex_wait: the kernel compares the whole word with the expected value atomically
WFutexWait(t) ==
  /\ pc[t] = "w_fwait"
  /\ LET cur == LastVal(ms, WSlot(t))
     IN IF cur = L[t].seen
        THEN /\ Goto(t, "w_blocked")
             /\ ev' = [NoEv EXCEPT !.t = t, !.k = "fwait", !.loc = "slot", !.i = L[t].slot + L[t].i, !.a = L[t].seen, !.v = cur, !.ok = TRUE]
        ELSE /\ Goto(t, "w_reload")
             /\ ev' = [NoEv EXCEPT !.t = t, !.k = "fwait", !.loc = "slot", !.i = L[t].slot + L[t].i, !.a = L[t].seen, !.v = cur, !.ok = FALSE]
  /\ UNCHANGED <<cfg, ms, L, H>>

\* return from a futex_wait after a wake (the waker moved us to w_woken) ...
WFutexRet(t) ==
  /\ pc[t] = "w_woken"
  /\ ev' = [NoEv EXCEPT !.t = t, !.k = "fret", !.loc = "slot", !.i = L[t].slot + L[t].i, !.ok = TRUE]
  /\ Goto(t, "w_reload")
  /\ UNCHANGED <<cfg, ms, L, H>>

\* ... or spuriously (signal): allowed by the futex contract, the code must re-check and wait again
WSpurious(t) ==
  /\ pc[t] = "w_blocked"
  /\ ev' = [NoEv EXCEPT !.t = t, !.k = "spur"]
  /\ Goto(t, "w_woken")
  /\ UNCHANGED <<cfg, ms, L, H>>

\* ... or because the timeout expired (timed waits only): the timer takes the thread off the
\* wait queue (a later wake no longer counts it), then the caller gives up waiting
WTimerFire(t) ==
  /\ pc[t] = "w_blocked" /\ L[t].timed
  /\ ev' = [NoEv EXCEPT !.t = t, !.k = "tick"]
  /\ Goto(t, "w_timedout")
  /\ UNCHANGED <<cfg, ms, L, H>>
WTimeout(t) ==
  /\ pc[t] = "w_timedout"
  /\ ev' = [NoEv EXCEPT !.t = t, !.k = "fret", !.loc = "slot", !.i = L[t].slot + L[t].i, !.ok = FALSE]
  /\ Goto(t, L[t].wret)
  /\ UNCHANGED <<cfg, ms, L, H>>

WReload(t, M(_)) ==
  /\ pc[t] = "w_reload"
  /\ DoWideLoad(t, WSlot(t), L[t].wk \o "_wait_reload", M,
        LAMBDA v : /\ SetL(t, [L[t] EXCEPT !.seen = v])
                   /\ Goto(t, IF Ver(v) = L[t].exp THEN L[t].wret
                              ELSE IF L[t].timed THEN "w_clk1"
                              ELSE IF HasWaiter(v) THEN "w_fwait" ELSE "w_cas"))
  /\ UNCHANGED <<cfg, H>>

\* timed: re-read the clock; either the time is up (give up) or wait again
WClk1(t) ==
  /\ pc[t] = "w_clk1"
  /\ ev' = [NoEv EXCEPT !.t = t, !.k = "clock"]
  /\ \/ Goto(t, L[t].wret)
     \/ Goto(t, IF HasWaiter(L[t].seen) THEN "w_fwait" ELSE "w_cas")
  /\ UNCHANGED <<cfg, ms, L, H>>

WSleep(t) ==
  /\ pc[t] = "w_sleep"
  /\ ev' = [NoEv EXCEPT !.t = t, !.k = "sleep"]
  /\ Goto(t, "w_sload")
  /\ UNCHANGED <<cfg, ms, L, H>>

WSpinLoad(t, M(_)) ==
  /\ pc[t] = "w_sload"
  /\ DoWideLoad(t, WSlot(t), L[t].wk \o "_spin_load", M,
        LAMBDA v : /\ SetL(t, [L[t] EXCEPT !.seen = v])
                   /\ Goto(t, IF Ver(v) = L[t].exp THEN L[t].wret ELSE "w_sleep"))
  /\ UNCHANGED <<cfg, H>>

\* FUTEX_WAKE all on slot s by thread t: every thread blocked on that word becomes runnable
WakeAll(s) == [u \in DOMAIN pc |-> IF pc[u] = "w_blocked" /\ L[u].slot + L[u].i = s THEN "w_woken" ELSE pc[u]]
NumBlockedOn(s) == Cardinality({u \in DOMAIN pc : pc[u] = "w_blocked" /\ L[u].slot + L[u].i = s})

(***************************************************************************)
(* push / pop  (deal)                                                      *)
(***************************************************************************)
StartDeal(t, idx) ==
  [L[t] EXCEPT !.idx = idx, !.exp = ExpVer(L[t].role, idx), !.slot = idx % Cap, !.i = 0, !.num = 1,
               !.wk = "deal", !.wret = "cbb", !.cbrole = L[t].role, !.cbslot = idx % Cap, !.cbnum = 1, !.cbret = "p_pub"]

DFaa(t, M(_)) ==
  /\ pc[t] = "d_faa"
  /\ DoRmw(t, IdxLoc(L[t].role), "faa", LAMBDA o : o + 1, 1, "deal_ticket_faa", M,
           LAMBDA old : SetL(t, StartDeal(t, old)) /\ Goto(t, "w_load"))
  /\ UNCHANGED <<cfg, H>>

DTLoad(t, M(_)) ==
  /\ pc[t] = "d_tload"
  /\ DoLoad(t, IdxLoc(L[t].role), "deal_ticket_load", M,
            LAMBDA v : SetL(t, [L[t] EXCEPT !.idx = v]) /\ Goto(t, "d_tstore"))
  /\ UNCHANGED <<cfg, H>>

DTStore(t, M(_)) ==
  /\ pc[t] = "d_tstore"
  /\ DoStore(t, IdxLoc(L[t].role), L[t].idx + 1, "deal_ticket_store", M)
  /\ SetL(t, StartDeal(t, L[t].idx)) /\ Goto(t, "w_load")
  /\ UNCHANGED <<cfg, H>>

\* publish the slot: exchange + wake (USE_FUTEX_WAKE) or 16-bit release store
PPub(t, M(_)) ==
  /\ pc[t] = "p_pub"
  /\ LET x == SlotLoc(L[t].slot)
         nv == (L[t].exp + 1) % VMOD
     IN IF Op(t).k
        THEN DoRmw(t, x, "xchg", LAMBDA o : nv, nv, "deal_publish_xchg", M,
                   LAMBDA old : /\ Goto(t, IF HasWaiter(old) THEN "p_wake" ELSE "ret")
                                /\ SetL(t, [L[t] EXCEPT !.res = 1]))
        ELSE /\ DoStoreVer(t, x, nv, "deal_publish_store", M)
             /\ Goto(t, "ret") /\ SetL(t, [L[t] EXCEPT !.res = 1])
  /\ UNCHANGED <<cfg, H>>

PWake(t) ==
  /\ pc[t] = "p_wake"
  /\ ev' = [NoEv EXCEPT !.t = t, !.k = "fwake", !.loc = "slot", !.i = L[t].slot, !.v = NumBlockedOn(L[t].slot)]
  /\ pc' = [WakeAll(L[t].slot) EXCEPT ![t] = "ret"]
  /\ UNCHANGED <<cfg, ms, L, H>>

(***************************************************************************)
(* try_push / try_pop  (try_deal)                                          *)
(***************************************************************************)
TILoad(t, M(_)) ==
  /\ pc[t] = "t_iload"
  /\ DoLoad(t, IdxLoc(L[t].role), "try_index_load", M,
            LAMBDA v : SetL(t, [L[t] EXCEPT !.idx = v]) /\ Goto(t, "t_vload"))
  /\ UNCHANGED <<cfg, H>>

TVLoad(t, M(_)) ==
  /\ pc[t] = "t_vload"
  /\ DoWideLoad(t, SlotLoc(L[t].idx % Cap), "try_version_load", M,
        LAMBDA v : /\ Goto(t, IF Ver(v) # ExpVer(L[t].role, L[t].idx) THEN "t_iload2"
                              ELSE IF Op(t).c THEN "t_cas" ELSE "t_istore")
                   /\ UNCHANGED L)
  /\ UNCHANGED <<cfg, H>>

TILoad2(t, M(_)) ==
  /\ pc[t] = "t_iload2"
  /\ DoLoad(t, IdxLoc(L[t].role), "try_index_reload", M,
            LAMBDA v : IF v = L[t].idx THEN SetL(t, [L[t] EXCEPT !.res = 0]) /\ Goto(t, "ret")
                       ELSE SetL(t, [L[t] EXCEPT !.idx = v]) /\ Goto(t, "t_vload"))
  /\ UNCHANGED <<cfg, H>>

StartTryCb(t) ==
  LET idx == L[t].idx
  IN [L[t] EXCEPT !.exp = ExpVer(L[t].role, idx), !.slot = idx % Cap, !.i = 0, !.num = 1,
                  !.cbrole = L[t].role, !.cbslot = idx % Cap, !.cbnum = 1, !.cbret = "p_pub"]

TCas(t, M(_)) ==
  /\ pc[t] = "t_cas"
  /\ DoCas(t, IdxLoc(L[t].role), L[t].idx, L[t].idx + 1, "try_index_cas", M,
           LAMBDA ok, old : IF ok THEN SetL(t, StartTryCb(t)) /\ Goto(t, "cbb")
                            ELSE SetL(t, [L[t] EXCEPT !.idx = old]) /\ Goto(t, "t_vload"))
  /\ UNCHANGED <<cfg, H>>

TIStore(t, M(_)) ==
  /\ pc[t] = "t_istore"
  /\ DoStore(t, IdxLoc(L[t].role), L[t].idx + 1, "try_index_store", M)
  /\ SetL(t, StartTryCb(t)) /\ Goto(t, "cbb")
  /\ UNCHANGED <<cfg, H>>

(***************************************************************************)
(* push_n / pop_n  (deal_n_continuously), one or two contiguous segments   *)
(***************************************************************************)
\* split [idx, idx+n) at the ring boundary
Seg1(idx, n) == IF idx + n <= NextRound(idx) THEN <<idx, n>> ELSE <<idx, NextRound(idx) - idx>>
Seg2(idx, n) == IF idx + n <= NextRound(idx) THEN <<>> ELSE <<NextRound(idx), idx + n - NextRound(idx)>>

StartSeg(l, seg, wk, first) ==
  [l EXCEPT !.idx = seg[1], !.num = seg[2], !.exp = ExpVer(l.role, seg[1]), !.slot = seg[1] % Cap, !.i = 0, !.wk = wk]

NFaa(t, M(_)) ==
  /\ pc[t] = "n_faa"
  /\ DoRmw(t, IdxLoc(L[t].role), "faa", LAMBDA o : o + Op(t).n, Op(t).n, "dealn_ticket_faa", M,
           LAMBDA old : /\ SetL(t, [StartSeg(L[t], Seg1(old, Op(t).n), "dealn", TRUE) EXCEPT !.seg2 = Seg2(old, Op(t).n), !.wret = "n_wnext"])
                        /\ Goto(t, "w_load"))
  /\ UNCHANGED <<cfg, H>>

NTLoad(t, M(_)) ==
  /\ pc[t] = "n_tload"
  /\ DoLoad(t, IdxLoc(L[t].role), "dealn_ticket_load", M,
            LAMBDA v : SetL(t, [L[t] EXCEPT !.idx = v]) /\ Goto(t, "n_tstore"))
  /\ UNCHANGED <<cfg, H>>

NTStore(t, M(_)) ==
  /\ pc[t] = "n_tstore"
  /\ DoStore(t, IdxLoc(L[t].role), L[t].idx + Op(t).n, "dealn_ticket_store", M)
  /\ SetL(t, [StartSeg(L[t], Seg1(L[t].idx, Op(t).n), "dealn", TRUE) EXCEPT !.seg2 = Seg2(L[t].idx, Op(t).n), !.wret = "n_wnext"])
  /\ Goto(t, "w_load")
  /\ UNCHANGED <<cfg, H>>

\* slot i of the segment reached its version: wait for the next one, or go on to the fence
\* (pure control; folded into the preceding load by using it as the wait's return pc)
NWNext(t) ==
  /\ pc[t] = "n_wnext"
  /\ IF L[t].i + 1 < L[t].num
     THEN SetL(t, [L[t] EXCEPT !.i = @ + 1]) /\ Goto(t, "w_load")
     ELSE SetL(t, [L[t] EXCEPT !.i = 0]) /\ Goto(t, "n_facq")
  /\ ev' = NoEv
  /\ UNCHANGED <<cfg, ms, H>>

NFAcq(t, M(_)) ==
  /\ pc[t] = "n_facq"
  /\ DoFence(t, "batch_fence_acquire", M)
  /\ SetL(t, EnterCb(L[t], IF L[t].nested THEN "r" \o Other(L[t].role) ELSE L[t].role,
                     IF L[t].nested THEN L[t].rslot ELSE L[t].slot,
                     IF L[t].nested THEN 1 ELSE L[t].num, "n_frel"))
  /\ Goto(t, "cbb")
  /\ UNCHANGED <<cfg, H>>

NFRel(t, M(_)) ==
  /\ pc[t] = "n_frel"
  /\ DoFence(t, "batch_fence_release", M)
  /\ Goto(t, "n_st")
  /\ UNCHANGED <<cfg, L, H>>

\* after the version stores of a segment
AfterStores(t) ==
  LET l == L[t] IN
  IF l.nested THEN "c_vload"
  ELSE IF Op(t).op \notin {"cpun", "cpon"} /\ Op(t).k THEN "n_fsc"
  ELSE "n_segdone"

NStore(t, M(_)) ==
  /\ pc[t] = "n_st"
  /\ LET l == L[t]
         s == IF l.nested THEN l.rslot ELSE l.slot + l.i
         e == IF l.nested THEN l.rexp ELSE l.exp
         n == IF l.nested THEN 1 ELSE l.num
     IN /\ DoStoreVer(t, SlotLoc(s), (e + 1) % VMOD, "batch_version_store", M)
        /\ IF l.i + 1 < n
           THEN SetL(t, [l EXCEPT !.i = @ + 1]) /\ UNCHANGED pc
           ELSE /\ SetL(t, [l EXCEPT !.i = IF l.nested THEN l.ci ELSE 0, !.nested = FALSE,
                                     !.res = IF l.nested THEN l.res ELSE l.res + l.num])
                /\ Goto(t, AfterStores(t))
  /\ UNCHANGED <<cfg, H>>

NFSc(t, M(_)) ==
  /\ pc[t] = "n_fsc"
  /\ DoFence(t, "batch_fence_seq_cst", M)
  /\ Goto(t, "n_wload")
  /\ UNCHANGED <<cfg, L, H>>

NextWake(t) == IF L[t].i + 1 < L[t].num THEN "n_wload" ELSE "n_segdone"
BumpI(t) == [L[t] EXCEPT !.i = IF L[t].i + 1 < L[t].num THEN @ + 1 ELSE 0]

NWLoad(t, M(_)) ==
  /\ pc[t] = "n_wload"
  /\ DoWideLoad(t, SlotLoc(L[t].slot + L[t].i), "wakeup_load", M,
        LAMBDA v : IF HasWaiter(v) /\ Ver(v) = (L[t].exp + 1) % VMOD
                   THEN SetL(t, [L[t] EXCEPT !.seen = v]) /\ Goto(t, "n_wcas")
                   ELSE SetL(t, BumpI(t)) /\ Goto(t, NextWake(t)))
  /\ UNCHANGED <<cfg, H>>

NWCas(t, M(_)) ==
  /\ pc[t] = "n_wcas"
  /\ DoCas(t, SlotLoc(L[t].slot + L[t].i), L[t].seen, Ver(L[t].seen), "wakeup_cas", M,
        LAMBDA ok, old : IF ok THEN UNCHANGED L /\ Goto(t, "n_wake")
                         ELSE SetL(t, BumpI(t)) /\ Goto(t, NextWake(t)))
  /\ UNCHANGED <<cfg, H>>

NWake(t) ==
  /\ pc[t] = "n_wake"
  /\ ev' = [NoEv EXCEPT !.t = t, !.k = "fwake", !.loc = "slot", !.i = L[t].slot + L[t].i, !.v = NumBlockedOn(L[t].slot + L[t].i)]
  /\ pc' = [WakeAll(L[t].slot + L[t].i) EXCEPT ![t] = NextWake(t)]
  /\ SetL(t, BumpI(t))
  /\ UNCHANGED <<cfg, ms, H>>

\* end of a segment: second segment or return
SegStartPc(t) ==
  CASE Op(t).op \in {"pun", "pon"} -> "w_load"
    [] Op(t).op \in {"cpun", "cpon"} -> "c_vload"
    [] OTHER -> "tn_vload"

NSegDone(t) ==
  /\ pc[t] = "n_segdone"
  /\ ev' = NoEv
  /\ IF L[t].seg2 # <<>>
     THEN /\ SetL(t, [StartSeg(L[t], L[t].seg2, L[t].wk, FALSE) EXCEPT !.seg2 = <<>>])
          /\ Goto(t, SegStartPc(t))
     ELSE UNCHANGED L /\ Goto(t, "ret")
  /\ UNCHANGED <<cfg, ms, H>>

(***************************************************************************)
(* try_push_n / try_pop_n  (try_deal_n_continuously)                       *)
(***************************************************************************)
TNILoad(t, M(_)) ==
  /\ pc[t] = "tn_iload"
  /\ DoLoad(t, IdxLoc(L[t].role), "tryn_index_load", M,
            LAMBDA v : /\ SetL(t, [StartSeg(L[t], Seg1(v, Op(t).n), "tryn", TRUE) EXCEPT !.seg2 = Seg2(v, Op(t).n), !.res = 0])
                       /\ Goto(t, "tn_vload"))
  /\ UNCHANGED <<cfg, H>>

TNAfterScan(t, l) == IF l.num = 0 THEN "ret" ELSE IF Op(t).c /\ Op(t).op # "xpon" THEN "tn_cas" ELSE "tn_istore"

TNVLoad(t, M(_)) ==
  /\ pc[t] = "tn_vload"
  /\ DoWideLoad(t, SlotLoc(L[t].slot + L[t].i), "tryn_version_load", M,
        LAMBDA v : IF Ver(v) # L[t].exp
                   THEN LET l == [L[t] EXCEPT !.num = L[t].i, !.i = 0, !.seg2 = IF L[t].i < L[t].num THEN <<>> ELSE @]
                        IN SetL(t, l) /\ Goto(t, TNAfterScan(t, l))
                   ELSE IF L[t].i + 1 < L[t].num THEN SetL(t, [L[t] EXCEPT !.i = @ + 1]) /\ UNCHANGED pc
                   ELSE LET l == [L[t] EXCEPT !.i = 0] IN SetL(t, l) /\ Goto(t, TNAfterScan(t, l)))
  /\ UNCHANGED <<cfg, H>>

TNCas(t, M(_)) ==
  /\ pc[t] = "tn_cas"
  /\ DoCas(t, IdxLoc(L[t].role), L[t].idx, L[t].idx + L[t].num, "tryn_index_cas", M,
           LAMBDA ok, old : IF ok THEN UNCHANGED L /\ Goto(t, "n_facq")
                            ELSE SetL(t, [L[t] EXCEPT !.seg2 = <<>>]) /\ Goto(t, "ret"))
  /\ UNCHANGED <<cfg, H>>

TNIStore(t, M(_)) ==
  /\ pc[t] = "tn_istore"
  /\ DoStore(t, IdxLoc(L[t].role), L[t].idx + L[t].num, "tryn_index_store", M)
  /\ Goto(t, "n_facq")
  /\ UNCHANGED <<cfg, L, H>>

(***************************************************************************)
(* compensating push_n / pop_n (callback + reverse callback)               *)
(***************************************************************************)
CFaa(t, M(_)) ==
  /\ pc[t] = "c_faa"
  /\ DoRmw(t, IdxLoc(L[t].role), "faa", LAMBDA o : o + Op(t).n, Op(t).n, "comp_ticket_faa", M,
           LAMBDA old : /\ SetL(t, [StartSeg(L[t], Seg1(old, Op(t).n), "comp", TRUE) EXCEPT !.seg2 = Seg2(old, Op(t).n)])
                        /\ Goto(t, "c_vload"))
  /\ UNCHANGED <<cfg, H>>

CVLoad(t, M(_)) ==
  /\ pc[t] = "c_vload"
  /\ DoWideLoad(t, SlotLoc(L[t].slot + L[t].i), "comp_version_load", M,
        LAMBDA v : IF Ver(v) = L[t].exp
                   THEN IF L[t].i + 1 < L[t].num THEN SetL(t, [L[t] EXCEPT !.i = @ + 1]) /\ UNCHANGED pc
                        ELSE SetL(t, [L[t] EXCEPT !.i = 0]) /\ Goto(t, "n_facq")
                   ELSE UNCHANGED L /\ Goto(t, "c_need"))
  /\ UNCHANGED <<cfg, H>>

CNeed(t, M(_)) ==
  /\ pc[t] = "c_need"
  /\ DoLoad(t, IdxLoc(Other(L[t].role)), "comp_need_load", M,
        LAMBDA v : LET need == IF L[t].role = "push" THEN v + Cap ELSE v
                   IN IF need <= L[t].idx + L[t].num THEN UNCHANGED L /\ Goto(t, "r_iload")
                      ELSE UNCHANGED L /\ Goto(t, "c_yield"))
  /\ UNCHANGED <<cfg, H>>

CYield(t) ==
  /\ pc[t] = "c_yield"
  /\ ev' = [NoEv EXCEPT !.t = t, !.k = "yield"]
  /\ Goto(t, "c_vload")
  /\ UNCHANGED <<cfg, ms, L, H>>

\* nested try_{pop,push}_n<true,false>(reverse_callback, 1)
RILoad(t, M(_)) ==
  /\ pc[t] = "r_iload"
  /\ DoLoad(t, IdxLoc(Other(L[t].role)), "tryn_index_load", M,
        LAMBDA v : /\ SetL(t, [L[t] EXCEPT !.ridx = v, !.rexp = ExpVer(Other(L[t].role), v), !.rslot = v % Cap])
                   /\ Goto(t, "r_vload"))
  /\ UNCHANGED <<cfg, H>>

RVLoad(t, M(_)) ==
  /\ pc[t] = "r_vload"
  /\ DoWideLoad(t, SlotLoc(L[t].rslot), "tryn_version_load", M,
        LAMBDA v : UNCHANGED L /\ Goto(t, IF Ver(v) # L[t].rexp THEN "c_vload" ELSE "r_cas"))
  /\ UNCHANGED <<cfg, H>>

RCas(t, M(_)) ==
  /\ pc[t] = "r_cas"
  /\ DoCas(t, IdxLoc(Other(L[t].role)), L[t].ridx, L[t].ridx + 1, "tryn_index_cas", M,
        LAMBDA ok, old : IF ok THEN SetL(t, [L[t] EXCEPT !.nested = TRUE, !.ci = L[t].i, !.i = 0]) /\ Goto(t, "n_facq")
                         ELSE UNCHANGED L /\ Goto(t, "c_vload"))
  /\ UNCHANGED <<cfg, H>>

(***************************************************************************)
(* try_pop_n_exclusively_until                                             *)
(***************************************************************************)
XILoad(t, M(_)) ==
  /\ pc[t] = "x_iload"
  /\ DoLoad(t, IdxLoc("pop"), "xpop_index_load", M,
        LAMBDA v : LET index == v + Op(t).n
                   IN /\ SetL(t, [L[t] EXCEPT !.idx = index, !.exp = PopVer(index), !.slot = index % Cap, !.i = 0, !.num = 1,
                                              !.wk = "xp", !.wret = "tn_iload", !.timed = TRUE])
                      /\ Goto(t, "w_load"))
  /\ UNCHANGED <<cfg, H>>

(***************************************************************************)
Step(t, M(_)) ==
  \/ Call(t) \/ Ret(t) \/ CbBegin(t) \/ CbMid(t) \/ CbEnd(t)
  \/ WLoad(t, M) \/ WClk0(t) \/ WCas(t, M) \/ WFutexWait(t) \/ WFutexRet(t) \/ WSpurious(t) \/ WTimerFire(t) \/ WTimeout(t) \/ WReload(t, M) \/ WClk1(t)
  \/ WSleep(t) \/ WSpinLoad(t, M)
  \/ DFaa(t, M) \/ DTLoad(t, M) \/ DTStore(t, M) \/ PPub(t, M) \/ PWake(t)
  \/ TILoad(t, M) \/ TVLoad(t, M) \/ TILoad2(t, M) \/ TCas(t, M) \/ TIStore(t, M)
  \/ NFaa(t, M) \/ NTLoad(t, M) \/ NTStore(t, M) \/ NWNext(t) \/ NFAcq(t, M) \/ NFRel(t, M) \/ NStore(t, M)
  \/ NFSc(t, M) \/ NWLoad(t, M) \/ NWCas(t, M) \/ NWake(t) \/ NSegDone(t)
  \/ TNILoad(t, M) \/ TNVLoad(t, M) \/ TNCas(t, M) \/ TNIStore(t, M)
  \/ CFaa(t, M) \/ CVLoad(t, M) \/ CNeed(t, M) \/ CYield(t)
  \/ RILoad(t, M) \/ RVLoad(t, M) \/ RCas(t, M)
  \/ XILoad(t, M)

AllDone == \A t \in Thr : pc[t] = "idle" /\ L[t].opi > Len(cfg.prog[t])

(***************************************************************************)
(* L1 properties (C01 / C02) over the history                              *)
(***************************************************************************)
\* C01: exclusive, fully published access of callbacks
NoDataRace == ~ms.race
\* C01: nothing duplicated or invented
NoDupNoInvent == H.bad = ""
\* C01: a try_ operation that overlapped no other operation returns what the queue content at its
\* call dictates (real-time order: meaningful under interleaving semantics, i.e. Stale = FALSE)
TryJustified == ~H.tryBad
\* C01: real-time FIFO. a pushed by an op that returned before the op pushing b was invoked;
\* b popped by an op that returned before the op popping a was invoked  ==> violation
RealTimeFIFO ==
  \A a \in DOMAIN H.poppedBy \cap DOMAIN H.pushedBy, b \in DOMAIN H.poppedBy \cap DOMAIN H.pushedBy :
     ~(/\ <<H.pushedBy[a], H.pushedBy[b]>> \in H.prec
       /\ <<H.poppedBy[b], H.poppedBy[a]>> \in H.prec)
\* C01: at quiescence the multiset handed out equals the multiset handed in (plus what is left)
Conservation ==
  AllDone => Cardinality(DOMAIN H.pushedBy) - Cardinality(DOMAIN H.poppedBy)
               = LastVal(ms, IdxLoc("push")) - LastVal(ms, IdxLoc("pop"))
\* C02 (safety form of "no lost wake-up"): when nobody can move any more, no thread sleeps on a
\* futex word whose version already is the one it waits for (nobody is left to wake it)
Stuck == \A t \in Thr : pc[t] = "w_blocked" \/ (pc[t] = "idle" /\ L[t].opi > Len(cfg.prog[t]))
NoLostWakeup ==
  Stuck => \A t \in Thr : (pc[t] = "w_blocked" /\ ~L[t].timed) => Ver(LastVal(ms, WSlot(t))) # L[t].exp
\* C02: role-pure balanced programs never get stuck with a sleeper at all
NoDeadlock == Stuck => \A t \in Thr : pc[t] # "w_blocked" \/ L[t].timed

=============================================================================
