------------------------------- MODULE MC_GC -------------------------------
(* Model-checking instance of GC: program families as constants.            *)
EXTENDS GC

O(op, x) == [op |-> op, x |-> x]
Cfg(cap, prog, nreg) == [cap |-> cap, prog |-> prog, nreg |-> nreg]

Retires(n) == [i \in 1..n |-> O("retire", i)]
\* the owner: n retirements, stop() at that point, then the destructor
Owner(n) == Retires(n) \o << O("stop", 0), O("dtor", 0) >>
\* destructor only
OwnerD(n) == Retires(n) \o << O("dtor", 0) >>
\* retire more after ... no: stop() ends the collector, retiring afterwards is outside the contract
Region(r) == << O("enter", r), O("leave", r) >>
Region2(r) == Region(r) \o Region(r)

Fam(caps, ns) == { Cfg(c, << Owner(n), Region(1) >>, 1) : c \in caps, n \in ns }
             \cup { Cfg(c, << Owner(n), Region(1), Region(2) >>, 2) : c \in caps, n \in ns }
FamD(caps, ns) == { Cfg(c, << OwnerD(n), Region(1) >>, 1) : c \in caps, n \in ns }
FamRe(caps, ns) == { Cfg(c, << Owner(n), Region2(1) >>, 1) : c \in caps, n \in ns }

Fam1(caps, ns) == { Cfg(c, << Owner(n), Region(1) >>, 1) : c \in caps, n \in ns }
\* several retiring threads (ids 5.. / 9..): batches that are not sorted by epoch; a thread that retires inside its
\* own region
RetiresFrom(b, n) == [i \in 1..n |-> O("retire", b + i)]
Fam2R(caps, n1, n2) == { Cfg(c, << Owner(n1), RetiresFrom(4, n2), Region(1) >>, 1) : c \in caps }
FamRB(caps, n1, n2) == { Cfg(c, << Owner(n1), << O("enter", 1) >> \o RetiresFrom(4, n2) \o << O("leave", 1) >> >>, 1) : c \in caps }
Fam3R(caps) == { Cfg(c, << Owner(1), RetiresFrom(4, 1), RetiresFrom(8, 1) >>, 0) : c \in caps }

\* nested region: the inner unlock does not leave, the inner lock does not re-enter
Nested(r) == << O("enter", r), O("enter", r), O("leave", r), O("leave", r) >>
FamNest(caps, ns) == { Cfg(c, << Owner(n), Nested(1) >>, 1) : c \in caps, n \in ns }

Cfg_q == FamNest({1}, {1}) \cup FamRB({2}, 1, 1) \cup Fam1({1, 2}, {2}) \cup Fam1({1}, {3}) \cup FamD({2}, {2})
Cfg_full == FamNest({1, 2}, {1, 2}) \cup Fam2R({1, 2}, 1, 1) \cup Fam2R({2}, 2, 1) \cup FamRB({2, 4}, 1, 2) \cup FamRB({2}, 2, 1) \cup Fam3R({1, 2}) \cup Fam({1, 2, 4}, {1, 2, 3, 4}) \cup FamD({1, 2, 4}, {2, 4}) \cup FamRe({1, 2}, {2, 3})
Cfg_live == { Cfg(1, << Owner(2), Region(1) >>, 1), Cfg(2, << OwnerD(3), Region(1) >>, 1) }

Next == \/ ColStep
        \/ \E t \in Thr : Step(t)
        \/ (AllDone /\ col.pc = "exited" /\ UNCHANGED vars)
Spec == Init /\ [][Next]_vars
FairSpec == Spec /\ WF_vars(ColStep) /\ \A t \in 1..3 : WF_vars(t \in Thr /\ Step(t))

View == <<cfg, ver, reg, q, col, pc, L, H>>
\* retire resumes: every call returns, the collector ends (all regions close in these programs)
Termination == <>[](AllDone /\ col.pc = "exited")
=============================================================================
