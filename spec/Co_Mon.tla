------------------------------ MODULE Co_Mon ------------------------------
(***************************************************************************)
(* L1 specification of property C13 (babylon coroutines) as a monitor over  *)
(* the observable events of an execution.  It knows nothing about deposit   *)
(* boxes, intrusive lists or mutexes: only                                  *)
(*   wait(w,r)      coroutine w is about to co_await (round r), ticket of   *)
(*                  the executor run it is in, kind, value it waits for     *)
(*   susp(w,r,slot) the on_suspend callback of that wait ran (token exists) *)
(*   res(w,r)       the coroutine continued after the co_await: ticket of   *)
(*                  the run, executor it runs in, result                    *)
(*   call/ret       wake_one / wake_all / cancel(w,r) / set_value / submit  *)
(*                  setv -> v: the futex word was changed to the new value v *)
(*   inv            Executor::invoke seam: new ticket, innermost operation  *)
(*   spurious(w)    a finished (parked) coroutine was resumed again         *)
(*   (every event carries the thread t it happened on)                       *)
(*   final          quiescent observation after the driver completed every  *)
(*                  future and issued wake_all until nothing was woken      *)
(*                                                                         *)
(* Clauses (bad = "<clause>/<witness class>"):                              *)
(*   ResumedExactlyOncePerSuspension  NeverLeftSuspendedAfterWakeCondition  *)
(*   WakeOneWakesOneIfAnyNotCancelling  WakeAllWakesAll                     *)
(*   MismatchDoesNotSuspend  ResumedOnBoundExecutor                         *)
(*   EmptyOptionalIffCancelWon  ReceivesAwaitedValue  NoSlotLeak            *)
(*                                                                         *)
(* A wake_one that returned 0 and every wake_all put an OBLIGATION on each  *)
(* futex waiter that (a) was suspended (callback seen) before the call      *)
(* began, (b) had not continued when the call returned and (c) was not the  *)
(* target of a cancel overlapping the call.  Such a waiter was on the list, *)
(* unowned, for the whole call - unless another wake overlapping the call   *)
(* claimed it.  The obligation is therefore violated iff the waiter is      *)
(* eventually resumed through a ticket created by an operation that began   *)
(* AFTER the call returned, or never.                                       *)
(***************************************************************************)
EXTENDS Naturals, Integers, Sequences, FiniteSets, TLC, Json, IOUtils

Tr == ndJsonDeserialize(IOEnv.TRACE)

VARIABLES l,
          ops,     \* op id -> [op, w, r, call, ret, res]
          tkop,    \* ticket -> [op: id of the innermost operation when Executor::invoke was called (0: none), l: line]
          tkused,  \* tickets through which a futex waiter continued
          wst,     \* <<w, r>> -> state of that wait
          obl,     \* set of [x, w, r, cls]: obligations of wake operation x
          wact,    \* <<w, r>> -> wake_all operations active at some time between wait and susp
          ctx,     \* hazard contexts seen in this execution
          nmis,    \* mismatching waits that continued
          lastcall,\* id of the operation called last
          bad

mvars == <<l, ops, tkop, tkused, wst, obl, wact, ctx, nmis, lastcall, bad>>

Fresh ==
  /\ ops' = << >> /\ tkop' = << >> /\ tkused' = {} /\ wst' = << >> /\ obl' = {} /\ wact' = << >>
  /\ ctx' = {} /\ nmis' = 0 /\ lastcall' = 0

MInit ==
  /\ l = 2 /\ Tr[1].k = "reset"
  /\ ops = << >> /\ tkop = << >> /\ tkused = {} /\ wst = << >> /\ obl = {} /\ wact = << >>
  /\ ctx = {} /\ nmis = 0 /\ lastcall = 0
  /\ bad = ""
  /\ TLCSet(1, 1)

Put(f, k, v) == [x \in DOMAIN f \cup {k} |-> IF x = k THEN v ELSE f[x]]

\* the witness class is widened by the hazard context of the execution
Cls(c) == IF "slot_reuse_during_wake_all" \in ctx THEN "slot_reuse_during_wake_all" ELSE c
Flag(b, clause, c) == IF b /\ bad = "" THEN clause \o "/" \o Cls(c) ELSE bad
\* first failing clause of a list of <<condition, clause, class>>
RECURSIVE First(_)
First(s) == IF s = << >> THEN bad
            ELSE IF s[1][1] /\ bad = "" THEN s[1][2] \o "/" \o (IF Len(s[1]) = 4 THEN s[1][3] ELSE Cls(s[1][3]))
            ELSE First(Tail(s))

ActiveOps(kind) == {i \in DOMAIN ops : ops[i].op = kind /\ ops[i].ret = 0}
Key(e) == <<e.w, e.r>>

MCall(e) ==
  /\ ops' = Put(ops, e.id, [op |-> e.op, w |-> e.w, r |-> e.r, call |-> l, ret |-> 0, res |-> 0, t |-> e.t])
  /\ wact' = IF e.op = "wakeall"
             THEN [k \in DOMAIN wact |-> IF wst[k].st = "wait" /\ wst[k].suspl = 0 THEN wact[k] \cup {e.id} ELSE wact[k]]
             ELSE wact
  /\ bad' = Flag(e.id \in DOMAIN ops, "Protocol", "op_id")
  /\ lastcall' = e.id
  /\ UNCHANGED <<tkop, tkused, wst, obl, ctx, nmis>>

MInv(e) ==
  /\ tkop' = Put(tkop, e.tk, [op |-> e.opid, l |-> l])
  /\ bad' = Flag(e.tk \in DOMAIN tkop, "Protocol", "ticket")
  /\ UNCHANGED <<ops, tkused, wst, obl, wact, ctx, nmis, lastcall>>

\* The futex word only grows in the driver's programs (setv = fetch_add, its value is the result of the call).  A wait
\* on value x is known not to match once a store of a newer value has RETURNED (or x is the value that is never stored).
Never == 9999
NewerStored(x, before) ==
  x = Never \/ \E c \in DOMAIN ops : ops[c].op = "setv" /\ ops[c].ret # 0 /\ ops[c].ret < before /\ ops[c].res > x

MWait(e) ==
  /\ wst' = Put(wst, Key(e), [st |-> "wait", kind |-> e.kind, exp |-> e.exp, mis |-> e.kind = "futex" /\ NewerStored(e.exp, l), tk0 |-> e.tk, waitl |-> l, suspl |-> 0,
                              slot |-> -1, resl |-> 0, restk |-> 0, has |-> TRUE, t |-> e.t, ib |-> e.ib])
  /\ wact' = Put(wact, Key(e), ActiveOps("wakeall"))
  /\ bad' = Flag(Key(e) \in DOMAIN wst, "ResumedExactlyOncePerSuspension", "same_wait_started_twice")
  /\ UNCHANGED <<ops, tkop, tkused, obl, ctx, nmis, lastcall>>

\* slot of a waiter that was suspended before wake_all y began is handed out again, to a wait issued on ANOTHER
\* thread, while y is still running (on y's own thread a resumed coroutine can only reuse slots y is done with)
Reuse(k, slot) ==
  \E y \in wact[k] : ops[y].t # wst[k].t /\ \E k2 \in DOMAIN wst :
     /\ k2 # k /\ wst[k2].kind = "futex" /\ wst[k2].slot = slot
     /\ wst[k2].suspl # 0 /\ wst[k2].suspl < ops[y].call

\* a resumption dispatched by a wake / cancel after wait k began has not shown up as a continuation yet: the coroutine
\* of k may be running (or be about to run) while its own on_suspend callback is still being executed
InFlight(k) ==
  \E tk \in DOMAIN tkop : /\ tk \notin tkused /\ tkop[tk].l > wst[k].waitl
                           /\ tkop[tk].op \in DOMAIN ops /\ ops[tkop[tk].op].op \in {"wake1", "wakeall", "cancel"}

MSusp(e) ==
  LET k == Key(e) IN
  IF k \notin DOMAIN wst THEN bad' = Flag(TRUE, "Protocol", "susp_without_wait") /\ UNCHANGED <<ops, tkop, tkused, wst, obl, wact, ctx, nmis, lastcall>>
  ELSE
  /\ wst' = [wst EXCEPT ![k].suspl = l, ![k].slot = e.slot]
  /\ ctx' = (IF wst[k].kind = "futex" /\ Reuse(k, e.slot) THEN ctx \cup {"slot_reuse_during_wake_all"} ELSE ctx)
             \cup (IF wst[k].kind = "futex" /\ InFlight(k) THEN {"resumed_before_on_suspend_callback"} ELSE {})
  /\ bad' = Flag(wst[k].kind = "futex" /\ wst[k].mis, "MismatchDoesNotSuspend", "callback")
  /\ UNCHANGED <<ops, tkop, tkused, obl, wact, nmis, lastcall>>

\* obligations on waiter k are discharged by a ticket of an operation that began before the obliged call returned
Late(o, z) == z = 0 \/ z \notin DOMAIN ops \/ ops[z].call > ops[o.x].ret
OblClause(o) == IF o.cls = "value_changed_before_wake" THEN "NeverLeftSuspendedAfterWakeCondition"
                ELSE IF ops[o.x].op = "wake1" THEN "WakeOneWakesOneIfAnyNotCancelling" ELSE "WakeAllWakesAll"

MRes(e) ==
  LET k == Key(e) IN
  IF k \notin DOMAIN wst THEN bad' = Flag(TRUE, "ResumedExactlyOncePerSuspension", "continuation_without_wait") /\ UNCHANGED <<ops, tkop, tkused, wst, obl, wact, ctx, nmis, lastcall>>
  ELSE
  LET s == wst[k]
      fut == s.kind = "futex"
      suspended == e.tk # s.tk0
      z == IF e.tk \in DOMAIN tkop THEN tkop[e.tk].op ELSE 0
      zok == z \in DOMAIN ops /\ ops[z].op \in {"wake1", "wakeall", "cancel"}
             /\ (ops[z].op = "cancel" => <<ops[z].w, ops[z].r>> = k)
      mine == {o \in obl : <<o.w, o.r>> = k}
      late == IF ~suspended THEN {} ELSE {o \in mine : Late(o, z)}    \* a wait that did not suspend owes nothing
      lo == CHOOSE o \in late : TRUE
  IN
  /\ wst' = [wst EXCEPT ![k].st = "res", ![k].resl = l, ![k].restk = e.tk, ![k].has = e.has]
  /\ tkused' = IF fut /\ suspended THEN tkused \cup {e.tk} ELSE tkused
  /\ obl' = obl \ mine
  /\ nmis' = IF fut /\ ~suspended THEN nmis + 1 ELSE nmis
  /\ bad' = First(<<
        <<s.st # "wait", "ResumedExactlyOncePerSuspension", "continued_twice">>,
        <<fut /\ s.mis /\ suspended, "MismatchDoesNotSuspend", "resumed_by_new_run">>,
        <<fut /\ suspended /\ e.tk \in tkused, "ResumedExactlyOncePerSuspension", "one_dispatch_two_continuations">>,
        <<fut /\ suspended /\ ~zok, "ResumedExactlyOncePerSuspension", "resumed_by_unentitled_operation">>,
        <<e.ex # e.bound, "ResumedOnBoundExecutor", "executor">>,
        <<e.has /\ e.val # e.want, "ReceivesAwaitedValue", "value">>,
        <<late # {}, IF late # {} THEN OblClause(lo) ELSE "", IF late # {} THEN lo.cls ELSE "">>
     >>)
  /\ ctx' = IF fut /\ suspended /\ s.suspl = 0 THEN ctx \cup {"resumed_before_on_suspend_callback"} ELSE ctx
  /\ UNCHANGED <<ops, tkop, wact, lastcall>>

\* cancel operations on waiter k that were in progress at some time in [from, now]
Cancelling(k, from) ==
  \E c \in DOMAIN ops : ops[c].op = "cancel" /\ <<ops[c].w, ops[c].r>> = k /\ (ops[c].ret = 0 \/ ops[c].ret > from)
AnyCancelOverlap(from) ==
  \E c \in DOMAIN ops : ops[c].op = "cancel" /\ (ops[c].ret = 0 \/ ops[c].ret > from)

Eligible(x) ==
  {k \in DOMAIN wst : /\ wst[k].kind = "futex" /\ wst[k].st = "wait"
                      /\ wst[k].suspl # 0 /\ wst[k].suspl < ops[x].call
                      /\ ~Cancelling(k, ops[x].call)}

\* FUTEX contract: check-and-enqueue is atomic with respect to wakers.  If a store of a value newer than what k waits
\* for had returned before wake x was called, k (whose wait began before x returned) either does not suspend or is on
\* the list when x takes the lock: like every waiter x is obliged to, it must not be left for an operation that began
\* after x returned.
LostElig(x) ==
  {k \in DOMAIN wst : /\ wst[k].kind = "futex" /\ wst[k].st = "wait"
                      /\ NewerStored(wst[k].exp, ops[x].call)
                      /\ ~Cancelling(k, ops[x].call)}

MRet(e) ==
  IF e.id \notin DOMAIN ops THEN bad' = Flag(TRUE, "Protocol", "ret_without_call") /\ UNCHANGED <<ops, tkop, tkused, wst, obl, wact, ctx, nmis, lastcall>>
  ELSE
  LET x == e.id
      obliged == (e.op = "wake1" /\ e.res = 0) \/ e.op = "wakeall"
      cls == IF e.op = "wake1" THEN (IF AnyCancelOverlap(ops[x].call) THEN "cancel_of_other_waiter_overlaps" ELSE "plain") ELSE "plain"
  IN
  /\ ops' = [ops EXCEPT ![x].ret = l, ![x].res = e.res]
  /\ obl' = IF obliged THEN obl \cup {[x |-> x, w |-> k[1], r |-> k[2], cls |-> cls] : k \in Eligible(x)}
                             \cup {[x |-> x, w |-> k[1], r |-> k[2], cls |-> "value_changed_before_wake"] : k \in LostElig(x)}
             ELSE obl
  /\ bad' = bad
  /\ UNCHANGED <<tkop, tkused, wst, wact, ctx, nmis, lastcall>>

MSpurious(e) ==
  /\ bad' = Flag(TRUE, "ResumedExactlyOncePerSuspension", "finished_coroutine_resumed")
  /\ UNCHANGED <<ops, tkop, tkused, wst, obl, wact, ctx, nmis, lastcall>>

\* cancellable wrapper: the optional is empty iff a cancel of that wait returned true
CancelWon(k) == \E c \in DOMAIN ops : ops[c].op = "cancel" /\ <<ops[c].w, ops[c].r>> = k /\ ops[c].res = 1
OptBad == \E k \in DOMAIN wst : wst[k].kind = "cancel" /\ wst[k].st = "res" /\ (wst[k].has = CancelWon(k))
MFinal(e) ==
  LET o == CHOOSE o \in obl : TRUE IN
  /\ bad' = First(<<
        <<obl # {}, IF obl # {} THEN OblClause(o) ELSE "", IF obl # {} THEN o.cls ELSE "">>,
        <<e.alive # 0 \/ e.listed, "NeverLeftSuspendedAfterWakeCondition", "plain">>,
        <<OptBad, "EmptyOptionalIffCancelWon", "plain">>,
        <<e.clive # 0, "NoSlotLeak", "cancellable_box">>,
        <<e.alive = 0 /\ e.flive # 0 /\ e.flive = nmis /\ e.falloc <= e.nwf + nmis, "NoSlotLeak", "mismatching_wait_keeps_slot", TRUE>>,
        <<e.flive # 0 \/ e.falloc > e.nwf, "NoSlotLeak", "futex_box">>
     >>)
  /\ UNCHANGED <<ops, tkop, tkused, wst, obl, wact, ctx, nmis, lastcall>>

\* what the process was doing when it died: some thread was completing the awaited thing of a cancellable wait whose
\* inner task is not bound to an executor (the call has not returned)
LastCompletesUnbound ==
  \E c \in DOMAIN ops : /\ ops[c].op = "setval" /\ ops[c].ret = 0
                         /\ <<ops[c].w, ops[c].r>> \in DOMAIN wst
                         /\ wst[<<ops[c].w, ops[c].r>>].kind = "cancel" /\ ~wst[<<ops[c].w, ops[c].r>>].ib
CrashClass == IF "slot_reuse_during_wake_all" \in ctx THEN "slot_reuse_during_wake_all"
              ELSE IF "resumed_before_on_suspend_callback" \in ctx THEN "resumed_before_on_suspend_callback"
              ELSE IF LastCompletesUnbound THEN "cancellable_inner_task_without_executor" ELSE "plain"

MEnd(e) ==
  /\ bad' = First(<<
        <<e.status \in {"crash", "hang"}, "NoCrash", CrashClass, TRUE>>,
        <<e.status \in {"deadlock", "budget"}, "NoDeadlock", "plain">>
     >>)
  /\ PrintT(<<"C13V", bad'>>)     \* one verdict line per execution (used when many executions are judged in one run)
  /\ UNCHANGED <<ops, tkop, tkused, wst, obl, wact, ctx, nmis, lastcall>>

MNext ==
  /\ l <= Len(Tr)
  /\ LET e == Tr[l]
     IN CASE e.k = "reset" -> Fresh /\ bad' = ""
          [] e.k = "call" -> MCall(e)
          [] e.k = "ret" -> MRet(e)
          [] e.k = "inv" -> MInv(e)
          [] e.k = "wait" -> MWait(e)
          [] e.k = "susp" -> MSusp(e)
          [] e.k = "res" -> MRes(e)
          [] e.k = "spurious" -> MSpurious(e)
          [] e.k = "final" -> MFinal(e)
          [] e.k = "end" -> MEnd(e)
          [] OTHER -> UNCHANGED <<ops, tkop, tkused, wst, obl, wact, ctx, nmis, lastcall, bad>>
  /\ l' = l + 1
  /\ TLCSet(1, l')

MSpec == MInit /\ [][MNext]_mvars

Holds == bad = ""

\* error traces show only what the check needs (the full monitor state is large)
Brief == [l |-> l, bad |-> bad, ctx |-> ctx]

Post == PrintT(<<"VERIF", TLCGet(1) - 1, Len(Tr), {}>>)
=============================================================================
