------------------------------ MODULE EQ_Mon ------------------------------
(***************************************************************************)
(* L1 specification of property C16 (ConcurrentExecutionQueue) as a        *)
(* monitor over the observable events of an execution:                     *)
(*   call / ret of execute(item), signal_push_event(), join()              *)
(*   sub        the executor's answer to a launch (accepted / refused)     *)
(*   cbb / cbe  the consume function entered / left with a range of items  *)
(*   quiesce    every program thread finished (main thread takes over:     *)
(*              signals until accepted if the last launch was refused,     *)
(*              then join())                                               *)
(*   final      what the driver still found in the queue afterwards        *)
(*   end        status of the execution (ok | deadlock | budget | crash)   *)
(* It knows nothing about the event counter or the inner queue, so it      *)
(* judges executions of ANY implementation of the API.                     *)
(*                                                                         *)
(*  ConsumedExactlyOnce       nothing delivered twice / invented; at the   *)
(*                            end everything submitted was delivered       *)
(*  PerProducerOrder          items of one producer in submission order    *)
(*  SingleConsumer            consume function never active twice          *)
(*  NoStranding               healthy executor: nothing left behind, no    *)
(*                            hang with items pending                      *)
(*  JoinReturnsAfterConsumed  join() returns => everything whose execute() *)
(*                            returned before the join() call was consumed *)
(*  JoinReturns               join() does return (execution ends)          *)
(*  RecoveryAfterRefusal      after refused launches the next accepted     *)
(*                            signal resumes consumption of everything     *)
(***************************************************************************)
EXTENDS Naturals, Integers, Sequences, FiniteSets, TLC, Json, IOUtils

Tr == ndJsonDeserialize(IOEnv.TRACE)

VARIABLES l, xid,
          cur,               \* cur[t]: operation thread t is executing ("" = none)
          called, returned,  \* items whose execute() was called / has returned
          flyAtRet,          \* item -> items whose execute() was in flight when this one returned
          cons, consEnd,     \* items handed to the consume function / whose consume call returned
          inCons,            \* threads inside the consume function
          unrec,             \* the last launch was refused (no accepted launch since)
          refusedEver, mainphase,
          jset, jfly, jok,   \* per joining thread: submitted before / in flight at the call / still judged
          bad,               \* name of the first violated clause
          known              \* witnesses of the known finding (join behind an in-flight push)

mvars == <<l, xid, cur, called, returned, flyAtRet, cons, consEnd, inCons, unrec, refusedEver, mainphase, jset, jfly, jok, bad, known>>

Thrs == 0..63
Owner(x) == x \div 100
SeqSet(s) == {s[j] : j \in 1..Len(s)}

Fresh(e) ==
  /\ xid' = e.xid
  /\ cur' = [t \in Thrs |-> ""]
  /\ called' = {} /\ returned' = {} /\ flyAtRet' = << >> /\ cons' = {} /\ consEnd' = {} /\ inCons' = {}
  /\ unrec' = FALSE /\ refusedEver' = FALSE /\ mainphase' = FALSE
  /\ jset' = [t \in Thrs |-> {}] /\ jfly' = [t \in Thrs |-> {}] /\ jok' = [t \in Thrs |-> FALSE]

MInit ==
  /\ l = 2 /\ Tr[1].k = "reset"
  /\ xid = Tr[1].xid
  /\ cur = [t \in Thrs |-> ""]
  /\ called = {} /\ returned = {} /\ flyAtRet = << >> /\ cons = {} /\ consEnd = {} /\ inCons = {}
  /\ unrec = FALSE /\ refusedEver = FALSE /\ mainphase = FALSE
  /\ jset = [t \in Thrs |-> {}] /\ jfly = [t \in Thrs |-> {}] /\ jok = [t \in Thrs |-> FALSE]
  /\ bad = "" /\ known = {}
  /\ TLCSet(1, 1) /\ TLCSet(2, {})

Flag(b, name) == IF b /\ bad = "" THEN name ELSE bad

MCall(e) ==
  /\ cur' = [cur EXCEPT ![e.t] = e.op]
  /\ called' = IF e.op = "e" THEN called \cup {e.item} ELSE called
  /\ jset' = [jset EXCEPT ![e.t] = IF e.op = "j" THEN returned ELSE {}]
  /\ jfly' = [jfly EXCEPT ![e.t] = IF e.op = "j" THEN called \ returned ELSE {}]
  /\ jok' = [jok EXCEPT ![e.t] = e.op = "j" /\ ~unrec]
  /\ bad' = Flag(cur[e.t] # "" \/ (e.op = "e" /\ e.item \in called), "Protocol")
  /\ UNCHANGED <<xid, returned, flyAtRet, cons, consEnd, inCons, unrec, refusedEver, mainphase, known>>

\* a submitted item x that join() did not wait for is excused (known finding) iff some execute() that was
\* already in flight when x's execute() returned was still in flight when join() was called: that call
\* may hold an earlier, not yet published ticket of the inner queue
Excused(t, x) == x \in DOMAIN flyAtRet /\ (flyAtRet[x] \cap jfly[t]) # {}

MRet(e) ==
  LET missing == IF e.op = "j" /\ jok[e.t] THEN jset[e.t] \ consEnd ELSE {}
      hard == \E x \in missing : ~Excused(e.t, x)
  IN /\ cur' = [cur EXCEPT ![e.t] = ""]
     /\ returned' = IF e.op = "e" THEN returned \cup {e.item} ELSE returned
     /\ flyAtRet' = IF e.op = "e" /\ e.item \notin DOMAIN flyAtRet
                    THEN [x \in DOMAIN flyAtRet \cup {e.item} |-> IF x = e.item THEN (called \ returned) \ {e.item} ELSE flyAtRet[x]]
                    ELSE flyAtRet
     /\ bad' = IF hard THEN Flag(TRUE, "JoinReturnsAfterConsumed") ELSE Flag(cur[e.t] # e.op, "Protocol")
     /\ known' = IF missing # {} /\ ~hard THEN known \cup {<<"JoinBehindInflightPush", "X" \o ToString(xid)>>} ELSE known
     /\ UNCHANGED <<xid, called, cons, consEnd, inCons, unrec, refusedEver, mainphase, jset, jfly, jok>>

\* the executor answered a launch
MSub(e) ==
  /\ unrec' = ~e.ok
  /\ refusedEver' = (refusedEver \/ ~e.ok)
  \* a join() overlapping a refused launch is not judged (the counter is rolled back with items pending)
  /\ jok' = IF e.ok THEN jok ELSE [t \in Thrs |-> FALSE]
  /\ UNCHANGED <<xid, cur, called, returned, flyAtRet, cons, consEnd, inCons, mainphase, jset, jfly, bad, known>>

MCbBegin(e) ==
  LET vals == e.vals
      n == Len(vals)
      invented == \E j \in 1..n : vals[j] \notin called
      dup == \E j \in 1..n : vals[j] \in cons \/ \E i \in 1..j - 1 : vals[i] = vals[j]
      ooo == \E j \in 1..n : \E k \in 1..(vals[j] % 100) - 1 :
                LET y == Owner(vals[j]) * 100 + k
                IN y \notin cons /\ ~\E i \in 1..j - 1 : vals[i] = y
  IN /\ cons' = cons \cup SeqSet(vals)
     /\ inCons' = inCons \cup {e.t}
     /\ bad' = IF inCons # {} THEN Flag(TRUE, "SingleConsumer")
               ELSE IF invented \/ dup THEN Flag(TRUE, "ConsumedExactlyOnce")
               ELSE Flag(ooo, "PerProducerOrder")
     /\ UNCHANGED <<xid, cur, called, returned, flyAtRet, consEnd, unrec, refusedEver, mainphase, jset, jfly, jok, known>>

MCbEnd(e) ==
  /\ consEnd' = consEnd \cup SeqSet(e.vals)
  /\ inCons' = inCons \ {e.t}
  /\ bad' = Flag(~e.ok, "SingleConsumer")   \* the range changed under the consume function
  /\ UNCHANGED <<xid, cur, called, returned, flyAtRet, cons, unrec, refusedEver, mainphase, jset, jfly, jok, known>>

MQuiesce(e) ==
  /\ mainphase' = TRUE
  /\ UNCHANGED <<xid, cur, called, returned, flyAtRet, cons, consEnd, inCons, unrec, refusedEver, jset, jfly, jok, bad, known>>

\* after the main thread's (accepted) signal and join(): everything submitted was delivered, nothing is left
MFinal(e) ==
  /\ bad' = Flag(~(called \subseteq consEnd) \/ Len(e.vals) # 0,
                 IF refusedEver THEN "RecoveryAfterRefusal" ELSE "NoStranding")
  /\ UNCHANGED <<xid, cur, called, returned, flyAtRet, cons, consEnd, inCons, unrec, refusedEver, mainphase, jset, jfly, jok, known>>

MEnd(e) ==
  /\ bad' = IF e.status \in {"crash", "hang"} THEN Flag(TRUE, "NoCrash")
            ELSE IF e.status \in {"deadlock", "budget"} /\ (mainphase \/ ~unrec)
                 THEN Flag(TRUE, IF refusedEver THEN "RecoveryAfterRefusal"
                                 ELSE IF \E t \in Thrs : cur[t] = "j" THEN "JoinReturns" ELSE "NoStranding")
            ELSE bad
  /\ UNCHANGED <<xid, cur, called, returned, flyAtRet, cons, consEnd, inCons, unrec, refusedEver, mainphase, jset, jfly, jok, known>>

MNext ==
  /\ l <= Len(Tr)
  /\ LET e == Tr[l]
     IN CASE e.k = "reset" -> Fresh(e) /\ UNCHANGED <<bad, known>>
          [] e.k = "call" -> MCall(e)
          [] e.k = "ret" -> MRet(e)
          [] e.k = "sub" -> MSub(e)
          [] e.k = "cbb" -> MCbBegin(e)
          [] e.k = "cbe" -> MCbEnd(e)
          [] e.k = "quiesce" -> MQuiesce(e)
          [] e.k = "final" -> MFinal(e)
          [] e.k = "end" -> MEnd(e)
  /\ l' = l + 1
  /\ TLCSet(1, l')
  /\ TLCSet(2, known')

MSpec == MInit /\ [][MNext]_mvars

\* bad = "" means every clause held so far
Holds == bad = ""

\* <<"VERIF", lines explained, lines, witnesses of the known finding (execution ids)>>
Post == PrintT(<<"VERIF", TLCGet(1) - 1, Len(Tr), TLCGet(2)>>)
=============================================================================
