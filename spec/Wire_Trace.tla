------------------------------ MODULE Wire_Trace ------------------------------
(***************************************************************************)
(* C11 code -> spec: validates every result logged by wire_driver (what    *)
(* the real babylon code did with a spec-generated case) against Enc /     *)
(* Size / the parser machine of Wire.tla and evaluates the clauses of the  *)
(* property on the LOGGED data.  One state per trace line; a line never    *)
(* blocks: the clauses it violates are collected in `issues` (line, clause,*)
(* flag) and printed at the last line.  flag = 1 for Terminates / NoCrash   *)
(* means the machine (code as written) predicts the hang / abort as well.  *)
(* line kinds: ser (value serialized by the code), parse (one outcome of   *)
(* presenting a byte string; modes = the <<class, asserts>> pairs that     *)
(* produced it), end (child died: hang / crash - crash includes sanitizer  *)
(* reports, which are OBSERVED, not decided here), pbser / pbparse (what   *)
(* real protobuf wrote / read for the same members).                       *)
(***************************************************************************)
EXTENDS Wire, Json, IOUtils

Tr == ndJsonDeserialize(IOEnv.TRACE)
VARIABLES l, issues
tvars == <<l, issues>>

B(x) == x = 1
ParseIssues(e) ==
  LET t == Def(e.sch)
      r0 == Parse(e.sch, e.bytes, "b", TRUE)
      conf == \A q \in 1..Len(e.modes) :
                LET r == ModeFrom(r0, e.sch, e.bytes, e.modes[q][1], B(e.modes[q][2]))
                IN r.amb \/ (B(e.ok) = (r.st = "ok") /\ (B(e.ok) => SameV(t, e.out, r.out)))
  IN (IF ~conf THEN {<<"ParserMachine", 0>>} ELSE {})
     \cup (IF ClauseOf(e.kind) # "" /\ ~(B(e.ok) /\ SameV(t, e.out, ExpectOf(e.kind, e.sch, e.val, e.i)))
           THEN {<<ClauseOf(e.kind), 0>>} ELSE {})
     \cup (IF B(e.ok) /\ ~(B(e.ok2) /\ SameV(t, e.out2, NullNorm(t, e.out))) THEN {<<"SuccessIdempotent", 0>>} ELSE {})
SerIssues(e) ==
  LET t == Def(e.sch) enc == Enc(t, e.val)
  IN (IF ~(B(e.ok) /\ e.bytes = enc /\ e.bytes_c = e.bytes /\ e.bytes_a = e.bytes)
      THEN {<<"EncMatchesSpec", e.dirty>>} ELSE {})
     \cup (IF ~(e.size = Len(e.bytes) /\ e.size2 = Len(e.bytes) /\ Len(e.bytes_c) = e.size /\ e.size = Size(t, e.val))
           THEN {<<"SizeExact", e.dirty>>} ELSE {})
     \cup (IF ~(B(e.pok) /\ SameV(t, e.out, NullNorm(t, e.val))) THEN {<<"RoundTrip", e.dirty>>} ELSE {})
EndIssues(e) ==
  LET pred(x) == \E q \in 1..Len(e.modes) : ModeResult(e.sch, e.bytes, e.modes[q][1], B(e.modes[q][2])).st = x
  IN IF e.status = "hang" THEN {<<"Terminates", IF pred("hang") THEN 1 ELSE 0>>}
     ELSE {<<"NoCrash", IF pred("abort") THEN 1 ELSE 0>>}
PbIssues(e) ==
  IF e.k = "pbser"
  THEN (IF ~(B(e.ok) /\ e.bytes = PbEnc(Def("PbCp"), e.val) /\ e.size = Len(e.bytes)) THEN {<<"ProtoModel", 0>>} ELSE {})
  ELSE (IF ~(B(e.ok) /\ SameV(Def("PbCp"), e.out, ToPb(Def("Cp"), Def("PbCp"), NullNorm(Def("Cp"), e.val))))
        THEN {<<"InteropToProto", 0>>} ELSE {})
Judge(e) == CASE e.k = "parse" -> ParseIssues(e) [] e.k = "ser" -> SerIssues(e) [] e.k = "end" -> EndIssues(e)
              [] e.k \in {"pbser", "pbparse"} -> PbIssues(e) [] OTHER -> {}

TInit == l = 1 /\ issues = {} /\ TLCSet(1, 0)
TNext == /\ l <= Len(Tr)
         /\ issues' = issues \cup {<<l, x[1], x[2]>> : x \in Judge(Tr[l])}
         /\ l' = l + 1
         /\ TLCSet(1, l)
TSpec == TInit /\ [][TNext]_tvars
\* the trace is explained line by line; the verdicts are the printed issue set
Post == PrintT(<<"VERIFC11", TLCGet(1), Len(Tr)>>)
Verdicts == l = Len(Tr) + 1 => PrintT(<<"ISSUES", issues>>)
=============================================================================
