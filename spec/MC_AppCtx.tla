----------------------------- MODULE MC_AppCtx -----------------------------
(* Model-checking instance of AppCtx: memory orders from the table MO_AppCtx       *)
(* (generated from the running code by the conformance step; the committed copy    *)
(* documents the current source), registration sets and client programs as         *)
(* constants.  Types are 1..4, names 0 (none) | 1..3.                              *)
EXTENDS AppCtx, MO_AppCtx

MOf(site) == MO[site]

D(ty, nm) == [ty |-> ty, nm |-> nm]
R(ty, nm, fac, fail, deps) == [ty |-> ty, nm |-> nm, fac |-> fac, fail |-> fail, deps |-> deps]
S(ty, nm, deps) == R(ty, nm, FALSE, FALSE, deps)     \* singleton that initialises
SF(ty, nm, deps) == R(ty, nm, FALSE, TRUE, deps)     \* singleton whose initialize() fails
F(ty, nm, deps) == R(ty, nm, TRUE, FALSE, deps)      \* factory
FF(ty, nm, deps) == R(ty, nm, TRUE, TRUE, deps)
C(regs, prog) == [regs |-> regs, prog |-> prog]
G(ty) == D(ty, 0)

\* ---- registration sets
One == <<S(1, 0, << >>)>>
Chain == <<S(1, 0, <<G(2)>>), S(2, 0, << >>)>>
Chain3 == <<S(1, 0, <<G(2)>>), S(2, 0, <<G(3)>>), S(3, 0, << >>)>>
OneFail == <<SF(1, 0, << >>)>>
DepFail == <<S(1, 0, <<G(2)>>), SF(2, 0, << >>)>>
Cycle == <<S(1, 0, <<G(2)>>), S(2, 0, <<G(1)>>)>>
Self == <<S(1, 0, <<G(1)>>)>>
Named == <<S(1, 1, << >>), S(1, 2, << >>)>>                     \* same type, names a / b: by type alone is ambiguous
Twice == <<S(1, 1, << >>), S(1, 1, << >>), S(2, 0, <<D(1, 1)>>)>> \* same type AND name twice: nobody is found
Fac == <<F(3, 0, <<G(1)>>), S(1, 0, << >>)>>
FacFail == <<FF(3, 0, << >>), S(1, 0, <<G(3)>>)>>
Diamond == <<S(1, 0, <<G(2), G(3)>>), S(2, 0, <<G(4)>>), S(3, 0, <<G(4)>>), S(4, 0, << >>)>>
Missing == <<S(1, 0, <<G(2)>>)>>                               \* dependency that is not registered
TwoIndep == <<S(1, 0, << >>), S(2, 0, << >>)>>

\* ---- quick: sequentially consistent interleavings (views still tracked: NoDataRace is decided)
Cfg_sc ==
  { C(One, << <<G(1)>>, <<G(1)>>, <<G(1)>> >>),
    C(One, << <<G(1), G(1)>>, <<G(1), G(1)>> >>),
    C(Chain, << <<G(1)>>, <<G(2)>>, <<G(1)>> >>),
    C(Chain, << <<G(2), G(1)>>, <<G(1), G(2)>> >>),
    C(Chain3, << <<G(1)>>, <<G(3), G(2)>> >>),
    C(OneFail, << <<G(1)>>, <<G(1)>>, <<G(1)>> >>),
    C(DepFail, << <<G(1), G(1)>>, <<G(2), G(1)>> >>),
    C(Cycle, << <<G(1)>>, <<G(1), G(1)>> >>),
    C(Self, << <<G(1)>>, <<G(1)>> >>),
    C(Named, << <<G(1), D(1, 1)>>, <<D(1, 2), G(1)>>, <<D(1, 1)>> >>),
    C(Twice, << <<D(1, 1), G(2)>>, <<G(1), G(2)>> >>),
    C(Fac, << <<G(3), G(3)>>, <<G(3), G(1)>> >>),
    C(FacFail, << <<G(3), G(1)>>, <<G(1)>> >>),
    C(Missing, << <<G(1)>>, <<G(2), G(1)>> >>),
    C(TwoIndep, << <<G(1), G(2)>>, <<G(2), G(1)>> >>),
    C(Diamond, << <<G(1)>>, <<G(3)>> >>) }

\* ---- quick: weak memory (Stale = TRUE: a load may return any message the thread has not yet superseded)
Cfg_wm ==
  { C(One, << <<G(1), G(1)>>, <<G(1), G(1)>> >>),
    C(One, << <<G(1)>>, <<G(1)>>, <<G(1)>> >>),
    C(Chain, << <<G(1)>>, <<G(2), G(1)>> >>),
    C(OneFail, << <<G(1), G(1)>>, <<G(1)>> >>),
    C(Named, << <<G(1)>>, <<G(1), D(1, 1)>> >>),
    C(Fac, << <<G(3)>>, <<G(3), G(1)>> >>),
    C(Cycle, << <<G(1)>>, <<G(1)>> >>) }

\* ---- thorough
Cfg_sc3 ==
  { C(Chain, << <<G(1), G(2)>>, <<G(2), G(1)>>, <<G(1)>> >>),
    C(DepFail, << <<G(1)>>, <<G(2)>>, <<G(1), G(2)>> >>),
    C(Diamond, << <<G(1)>>, <<G(3)>>, <<G(2), G(4)>> >>),
    C(Chain3, << <<G(1)>>, <<G(2)>>, <<G(3)>> >>),
    C(Fac, << <<G(3)>>, <<G(3)>>, <<G(1), G(3)>> >>),
    C(Cycle, << <<G(1)>>, <<G(1)>>, <<G(1)>> >>),
    C(Named, << <<G(1)>>, <<G(1)>>, <<G(1), D(1, 2)>> >>) }
Cfg_wm3 ==
  { C(Chain, << <<G(1)>>, <<G(2)>>, <<G(1)>> >>),
    C(DepFail, << <<G(1)>>, <<G(2)>>, <<G(1)>> >>),
    C(Diamond, << <<G(1)>>, <<G(3)>> >>),
    C(Fac, << <<G(3), G(3)>>, <<G(3), G(1)>> >>) }

\* ---- the cyclic dependency entered from both ends by two threads (findings/X01_cross_thread_cycle_deadlock.md):
\* each thread holds one holder mutex and waits for the other one; TLC reports the deadlock
Cfg_cycle2 == { C(Cycle, << <<G(1)>>, <<G(2)>> >>) }

Terminal == mainpc = "done" /\ UNCHANGED vars
Next == (\E t \in Thr : Step(t, MOf)) \/ Clear \/ Terminal
Spec == Init /\ [][Next]_vars

\* Behaviours that a vsched script can reproduce: lock / unlock are schedule points that consume no script entry, so
\* the real thread performs them when it is named for its NEXT logged step.  A thread whose pending step follows a
\* mutex operation therefore runs first (a restriction of Next: a subset of its behaviours).
HotPcs == {"unl", "ret", "ctor", "seq"}
Hot(t) == Active(t) /\ Top(t).pc \in HotPcs
ReplayNext == (IF \E t \in Thr : Hot(t) THEN \E t \in Thr : Hot(t) /\ Step(t, MOf) ELSE \E t \in Thr : Step(t, MOf)) \/ Clear \/ Terminal
ReplaySpec == Init /\ [][ReplayNext]_vars

\* hide the ghost event from the state identity
View == <<cfg, ms, stk, opi, mx, sing, sq, pay, nextInst, H, mainpc>>
=============================================================================
