---------------------------- MODULE AnyBox_Trace ----------------------------
(***************************************************************************)
(* Trace validation of the real babylon::Any against AnyBox.  Every "op"   *)
(* line is one operation executed by harness/drivers/any_driver.cc plus    *)
(* the observable projection of ALL variables afterwards.  The line must   *)
(* be a step of AnyBox (Step of the logged operation record) and the       *)
(* logged observation must equal Obs of the successor state.  Clauses:     *)
(*   NoCrash                 the operation returned (no signal, no         *)
(*                           sanitizer report); an abort is accepted       *)
(*                           exactly where CopyAbort is enabled            *)
(*   CopyNonCopyableAborts   ... and must happen there                     *)
(*   DestroyedExactlyOnce    live payload objects per type, constructions  *)
(*                           / destructions done by Any code in the step,  *)
(*                           nothing alive after all variables are gone,   *)
(*                           no object destroyed twice (driver registry)   *)
(*   GetExactType            operator bool, type(), instance_type(),       *)
(*                           get<T>() / cget<T>() null-ness for every T    *)
(*   RefFlags                is_reference(), is_const_reference()          *)
(*   OwnershipAlias          where cget points (own inline storage / other *)
(*                           variable / external / heap) and which         *)
(*                           variables share the object                    *)
(*   ValuePreserved          payload value of every variable, external     *)
(*                           objects, release result                       *)
(*   AsIsStaticCast          as<T>() for the 11 targets, to<int64_t>()     *)
(* The first failing clause of an execution is recorded in bad with the    *)
(* set of deviating fields; the rest of that execution is skipped.         *)
(***************************************************************************)
EXTENDS AnyBox, Json, IOUtils

Tr == ndJsonDeserialize(IOEnv.TRACE)

VARIABLES l,      \* next line to explain
          base,   \* line of the reset that started the current execution
          cur,    \* id of the current execution
          skip,   \* a clause failed in the current execution: its remaining lines are not judged
          bad     \* set of <<"bad_" \o clause, execution id, line within the execution, deviating fields>>

tvars == <<vars, l, base, cur, skip, bad>>

TInit ==
  /\ l = 2 /\ Tr[1].k = "reset"
  /\ Init
  /\ base = 1 /\ cur = Tr[1].id /\ skip = FALSE /\ bad = {}
  /\ TLCSet(1, 1) /\ TLCSet(2, {})

Fresh(e) ==
  /\ h' = [a \in Vars |-> EmptyH]
  /\ ob' = [o \in Objs |-> IF o <= NExt THEN [live |-> TRUE, ty |-> Ext[o], val |-> 1, loc |-> "ext"] ELSE FreeO]
  /\ dead' = FALSE /\ ev' = NoEv
  /\ cur' = e.id /\ base' = l /\ skip' = FALSE
  /\ UNCHANGED bad

Opr(e) == [op |-> e.op, a |-> e.a, b |-> e.b, ty |-> e.ty, c |-> e.c]
Here == l - base

\* fields of line e that deviate from the observation X the specification computes for the successor state
VarDiff(e, X, F) == {f \in F : \E a \in Vars : e.o[a][f] # X.o[a][f]}
TopDiff(e, X, F) == {f \in F : e[f] # X[f]}
FLedger == {"lv", "nc", "nd"}
FGet == {"ne", "te", "tn", "gt", "cg"}
FRef == {"rf", "cr"}
FAlias == {"lc", "al"}
FVal == {"vl"}
FValTop == {"xs", "rl", "rv"}
FAs == {"as", "to"}
AllDiff(e, X) == TopDiff(e, X, FLedger \cup FValTop) \cup VarDiff(e, X, FGet \cup FRef \cup FAlias \cup FVal \cup FAs)

Clause(e, X) ==
  IF dead' THEN "CopyNonCopyableAborts"
  ELSE IF Len(e.o) # NVars THEN "GetExactType"
  ELSE IF e.er # 0 \/ TopDiff(e, X, FLedger) # {} THEN "DestroyedExactlyOnce"
  ELSE IF VarDiff(e, X, FGet) # {} THEN "GetExactType"
  ELSE IF VarDiff(e, X, FRef) # {} THEN "RefFlags"
  ELSE IF VarDiff(e, X, FAlias) # {} THEN "OwnershipAlias"
  ELSE IF VarDiff(e, X, FVal) # {} \/ TopDiff(e, X, FValTop) # {} THEN "ValuePreserved"
  ELSE IF VarDiff(e, X, FAs) # {} THEN "AsIsStaticCast"
  ELSE ""

\* fast path: the whole line agrees (each ObsVar evaluated once); only a deviating line is analysed field by field
Match(e) ==
  /\ ~dead' /\ e.er = 0 /\ Len(e.o) = NVars
  /\ \A a \in Vars : e.o[a] = ObsVar(a)'
  /\ e.lv = <<Live("P"), Live("Q"), Live("S")>>'
  /\ e.xs = [x \in 1..NExt |-> ob'[x].val]
  /\ e.nc = ev'.nc /\ e.nd = ev'.nd /\ e.rl = ev'.rl /\ e.rv = ev'.rv

TOp(e) ==
  IF skip THEN UNCHANGED <<vars, cur, base, skip, bad>>
  ELSE /\ Step(Opr(e))
       /\ IF Match(e)
            THEN UNCHANGED <<bad, skip>>
            ELSE LET X == Obs'
                     c == Clause(e, X)
                     d == IF dead' \/ Len(e.o) # NVars THEN {} ELSE AllDiff(e, X) \cup (IF e.er # 0 THEN {"er"} ELSE {})
                 IN /\ Assert(c # "", "Match and Clause disagree")
                    /\ bad' = bad \cup {<<"bad_" \o c, cur, Here, d>>}
                    /\ skip' = TRUE
                    /\ PrintT(<<"EXPECTED", cur, Here, X>>)
       /\ UNCHANGED <<cur, base>>

\* all variables destroyed: nothing the Any code owned may be alive, the external objects were still alive
TFin(e) ==
  /\ bad' = IF ~skip /\ (e.lv # <<0, 0, 0>> \/ e.er # 0) THEN bad \cup {<<"bad_DestroyedExactlyOnce", cur, Here, {"fin"}>>} ELSE bad
  /\ skip' = (skip \/ e.lv # <<0, 0, 0>> \/ e.er # 0)
  /\ UNCHANGED <<vars, cur, base>>

ExpectAbort(e) == e.op = "copy" /\ e.a \in Vars /\ e.b \in Vars /\ ~dead /\ CanDrop(e.a) /\ ~CopyOK(e.b)
TEnd(e) ==
  /\ bad' = IF skip \/ e.status = "ok" \/ (e.status = "abort" /\ ExpectAbort(e)) THEN bad
            ELSE bad \cup {<<"bad_NoCrash", cur, Here, {e.status}>>}
  /\ UNCHANGED <<vars, cur, base, skip>>

TNext ==
  /\ l <= Len(Tr)
  /\ LET e == Tr[l]
     IN CASE e.k = "reset" -> Fresh(e)
          [] e.k = "op" -> TOp(e)
          [] e.k = "fin" -> TFin(e)
          [] e.k = "end" -> TEnd(e)
  /\ l' = l + 1
  /\ TLCSet(1, l') /\ TLCSet(2, bad')

TSpec == TInit /\ [][TNext]_tvars

Post == PrintT(<<"VERIF", TLCGet(1) - 1, Len(Tr), TLCGet(2)>>)
=============================================================================
