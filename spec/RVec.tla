-------------------------------- MODULE RVec --------------------------------
(***************************************************************************)
(* C12 - babylon::ReusableVector (SwissVector, and with char slots the     *)
(* reusable strings) as a sequential state machine.                        *)
(*                                                                         *)
(* L1 (variable abs): every vector is a Seq(Value) and each operation has  *)
(*     the meaning ISO C++ gives it for std::vector.                       *)
(* L2 (variable vec): the representation of src/babylon/reusable/vector.hpp*)
(*     _size <= _constructed_size <= _capacity, one content per slot of    *)
(*     the current buffer (Raw = not constructed; a constructed slot below *)
(*     _size is "live", at or above _size it is "stale": still constructed,*)
(*     kept for reuse).  Every operation is transcribed with the case      *)
(*     split of the code, as a sequence of micro steps                     *)
(*         construct(slot <- source) / assign(slot <- source) /            *)
(*         move-construct / move-assign / destroy                          *)
(*     which are also emitted as the ghost event list ev (compared with    *)
(*     the life-cycle events of an instrumented element type during trace  *)
(*     validation) and which flag life-cycle mistakes in the ghost set bad.*)
(*                                                                         *)
(* An operation is a record  [n, v, w, a, b, s, q]  (name, target vector,  *)
(* other vector, two integers, a source descriptor, a sequence of values). *)
(* Sources:  ext (const T& to an object outside the vector), extm (T&&),   *)
(* val (emplace arguments), def (no argument), self (a reference to        *)
(* element s.x OF THE SAME VECTOR taken before the call - the class of     *)
(* calls std::vector must support, hypothesis H6), oth (element of the     *)
(* other vector).                                                          *)
(***************************************************************************)
EXTENDS Integers, Sequences, FiniteSets, TLC

CONSTANTS Vecs,        \* vector names, e.g. {1, 2}
          NV,          \* element values 1..NV  (0 = default constructed)
          MaxCap,      \* model bound: operations needing more capacity are not taken
          MaxN,        \* model bound for counts / range lengths
          MoveLeaves,  \* "moved" (a moved-from element holds Moved) | "same" (trivial elements)
          Forms,       \* subset of {"ext", "extm", "val"} offered by Next
          Alias,       \* BOOLEAN: offer self-aliasing arguments
          Life         \* BOOLEAN: vectors are created / destroyed by operations (else all exist, empty)

Raw   == -2            \* slot holds no object
Moved == -1            \* moved-from / indeterminate content
Dflt  == 0
Values == 1..NV

Max(a, b) == IF a > b THEN a ELSE b
Min(a, b) == IF a < b THEN a ELSE b
Flag(c, name) == IF c THEN {name} ELSE {}

VARIABLES alive,   \* [Vecs -> BOOLEAN]
          abs,     \* L1: [Vecs -> Seq(Int)]
          vec,     \* L2: [Vecs -> [sz, cons, cap, d, bid]]
          nb,      \* ghost: number of buffers allocated so far (buffer ids)
          ev,      \* ghost: micro steps of the last operation
          bad,     \* ghost: life-cycle clauses falsified so far
          op       \* ghost: the last operation
vars == <<alive, abs, vec, nb, ev, bad, op>>

NoVec == [sz |-> 0, cons |-> 0, cap |-> 0, d |-> <<>>, bid |-> 0]
NoSrc == [f |-> "def", x |-> 0]
NoOp  == [n |-> "init", v |-> 0, w |-> 0, a |-> 0, b |-> 0, s |-> NoSrc, q |-> <<>>]
O(n, v, w, a, b, s, q) == [n |-> n, v |-> v, w |-> w, a |-> a, b |-> b, s |-> s, q |-> q]

-----------------------------------------------------------------------------
(* L2 micro steps on an accumulator                                        *)
(* m = [sz, cons, cap, d, bid, b0, od, obid, nb, e, bad]                   *)
(*   b0   buffer the vector had when the call was made ("self" references) *)
(*   od   what reserve left behind in the abandoned buffer obid            *)

MkM(r, n) == [sz |-> r.sz, cons |-> r.cons, cap |-> r.cap, d |-> r.d, bid |-> r.bid, b0 |-> r.bid,
              od |-> <<>>, obid |-> 0, nb |-> n, e |-> <<>>, bad |-> {}]
VOf(m) == [sz |-> m.sz, cons |-> m.cons, cap |-> m.cap, d |-> m.d, bid |-> m.bid]

Left(x) == IF MoveLeaves = "moved" THEN Moved ELSE x     \* content of a moved-from element
Got(c) == IF c = Raw THEN Moved ELSE c                   \* what reading a slot yields

\* reading a source: value, address (buffer id, slot; 0,0 = outside every buffer), flags
Rd(m, s) ==
  CASE s.f \in {"ext", "extm", "val"} -> [x |-> s.x, sb |-> 0, si |-> 0, bad |-> {}]
    [] s.f = "def" -> [x |-> Dflt, sb |-> 0, si |-> 0, bad |-> {}]
    [] s.f = "self" ->
         IF m.bid = m.b0
         THEN [x |-> Got(m.d[s.x + 1]), sb |-> m.bid, si |-> s.x, bad |-> Flag(m.d[s.x + 1] = Raw, "NeverAssignOrReadRaw")]
         ELSE \* the reference dangles into the buffer reserve() has already emptied
              [x |-> m.od[s.x + 1], sb |-> m.obid, si |-> s.x, bad |-> {"NeverAssignOrReadRaw"}]
    [] s.f = "oth" ->
         LET c == vec[s.w].d[s.x + 1]
         IN [x |-> Got(c), sb |-> vec[s.w].bid, si |-> s.x, bad |-> Flag(c = Raw, "NeverAssignOrReadRaw")]

CTag(s) == CASE s.f \in {"ext", "self", "oth"} -> "cc" [] s.f = "extm" -> "cm" [] s.f = "val" -> "cv" [] s.f = "def" -> "cd"
ATag(s) == CASE s.f \in {"ext", "self", "oth"} -> "ac" [] s.f = "extm" -> "am" [] s.f = "val" -> "av" [] s.f = "def" -> "ad"

\* allocator.construct(&_data[i], source)
Construct(m, i, s) ==
  LET r == Rd(m, s)
  IN [m EXCEPT !.d = [@ EXCEPT ![i + 1] = r.x],
               !.e = Append(@, <<CTag(s), m.bid, i, r.sb, r.si>>),
               !.bad = @ \cup r.bad \cup Flag(m.d[i + 1] # Raw, "NeverConstructOnConstructed")]
ConstructInc(m, i, s) == [Construct(m, i, s) EXCEPT !.cons = @ + 1]

\* ReusableTraits::reconstruct(_data[i], allocator, source): clear() / operator= on a constructed object
Assign(m, i, s) ==
  LET r == Rd(m, s)
  IN [m EXCEPT !.d = [@ EXCEPT ![i + 1] = r.x],
               !.e = Append(@, <<ATag(s), m.bid, i, r.sb, r.si>>),
               !.bad = @ \cup r.bad \cup Flag(m.d[i + 1] = Raw, "NeverAssignOrReadRaw")]

\* allocator.construct(&_data[i], std::move(_data[j])); ++_constructed_size
MoveConsInc(m, i, j) ==
  LET c == m.d[j + 1]
  IN [m EXCEPT !.d = [@ EXCEPT ![i + 1] = Got(c), ![j + 1] = IF c = Raw THEN Raw ELSE Left(c)],
               !.cons = @ + 1,
               !.e = Append(@, <<"cm", m.bid, i, m.bid, j>>),
               !.bad = @ \cup Flag(c = Raw, "NeverAssignOrReadRaw") \cup Flag(m.d[i + 1] # Raw, "NeverConstructOnConstructed")]

\* _data[i] = std::move(_data[j])      (i = j happens for empty insertions: a self move)
MoveAsg(m, i, j) ==
  LET c == m.d[j + 1]
  IN [m EXCEPT !.d = IF i = j THEN @ ELSE [@ EXCEPT ![i + 1] = Got(c), ![j + 1] = IF c = Raw THEN Raw ELSE Left(c)],
               !.e = Append(@, <<"am", m.bid, i, m.bid, j>>),
               !.bad = @ \cup Flag(c = Raw \/ m.d[i + 1] = Raw, "NeverAssignOrReadRaw")]

Destroy(m, i) ==
  [m EXCEPT !.d = [@ EXCEPT ![i + 1] = Raw],
            !.e = Append(@, <<"d", m.bid, i, 0, 0>>),
            !.bad = @ \cup Flag(m.d[i + 1] = Raw, "DestroyedExactlyTheConstructed")]

\* reserve(n): a bigger buffer; EVERY constructed element (live and stale) is move-constructed over and
\* the source destroyed; the abandoned buffer is never returned to the (monotonic) resource
Reserve(m, n) ==
  IF m.cap >= n THEN m
  ELSE LET id == m.nb + 1
           steps == [k \in 1..(2 * m.cons) |->
                       IF k % 2 = 1 THEN <<"cm", id, (k - 1) \div 2, m.bid, (k - 1) \div 2>>
                                    ELSE <<"d", m.bid, (k - 1) \div 2, 0, 0>>]
       IN [m EXCEPT !.d = [k \in 1..n |-> IF k <= m.cons THEN Got(m.d[k]) ELSE Raw],
                    !.cap = n, !.bid = id, !.nb = id,
                    !.od = [k \in 1..m.cap |-> IF k <= m.cons THEN Left(Got(m.d[k])) ELSE Got(m.d[k])],
                    !.obid = m.bid,
                    !.e = @ \o steps,
                    !.bad = @ \cup Flag(\E k \in 1..m.cons : m.d[k] = Raw, "NeverAssignOrReadRaw")
                              \cup Flag(\E k \in (m.cons + 1)..m.cap : m.d[k] # Raw, "DestroyedExactlyTheConstructed")]

\* for (i = hi; i > lo;) { --i; construct(&_data[i], move(_data[i - cnt])); ++_constructed_size; }
RECURSIVE DownMC(_, _, _, _)
DownMC(m, i, lo, cnt) == IF i > lo THEN DownMC(MoveConsInc(m, i - 1, i - 1 - cnt), i - 1, lo, cnt) ELSE m
\* for (i = hi; i > lo;) { --i; _data[i] = move(_data[i - cnt]); }
RECURSIVE DownMA(_, _, _, _)
DownMA(m, i, lo, cnt) == IF i > lo THEN DownMA(MoveAsg(m, i - 1, i - 1 - cnt), i - 1, lo, cnt) ELSE m
\* for (i = lo; i < hi; ++i) reconstruct(_data[i], source number i - base)
RECURSIVE AsgUp(_, _, _, _, _)
AsgUp(m, i, hi, base, ss) == IF i < hi THEN AsgUp(Assign(m, i, ss[i - base + 1]), i + 1, hi, base, ss) ELSE m
\* for (i = lo; i < hi; ++i) { construct(&_data[i], source number i - base); ++_constructed_size; }
RECURSIVE ConUp(_, _, _, _, _)
ConUp(m, i, hi, base, ss) == IF i < hi THEN ConUp(ConstructInc(m, i, ss[i - base + 1]), i + 1, hi, base, ss) ELSE m

Rep(cnt, s) == [k \in 1..cnt |-> s]

\* insert(pos, count, value) / insert(pos, first, last) / emplace(pos, args) :
\* prepare_for_insert(index, count) followed by assign-over-constructed and construct-into-raw
Insert(m, idx, ss) ==
  LET cnt == Len(ss)
      m1 == Reserve(m, m.sz + cnt)
      me == Max(idx + cnt, m1.cons)           \* move_end_size
      re == Min(idx + cnt, m1.cons)           \* reconstruct_end_size
      m2 == DownMC(m1, m1.sz + cnt, me, cnt)  \* tail elements that land on raw slots
      m3 == DownMA(m2, me, idx + cnt, cnt)    \* the rest is shifted by move assignment
      m4 == [m3 EXCEPT !.sz = @ + cnt]
      m5 == AsgUp(m4, idx, re, idx, ss)
  IN ConUp(m5, re, idx + cnt, idx, ss)

\* erase(first, last)
RECURSIVE EraseLoop(_, _, _)
EraseLoop(m, dst, src) == IF src < m.sz THEN EraseLoop(MoveAsg(m, dst, src), dst + 1, src + 1) ELSE m
Erase(m, a, b) == IF a = b THEN m ELSE [EraseLoop(m, a, b) EXCEPT !.sz = @ - (b - a)]

\* emplace_back(args)
EmplaceBack(m, s) ==
  LET m1 == IF m.sz = m.cap THEN Reserve(m, IF m.cap = 0 THEN 4 ELSE 2 * m.cap) ELSE m
  IN IF m1.cons > m1.sz THEN [Assign(m1, m1.sz, s) EXCEPT !.sz = @ + 1]
                        ELSE [ConstructInc(m1, m1.sz, s) EXCEPT !.sz = @ + 1]
RECURSIVE EmplaceAll(_, _, _)
EmplaceAll(m, k, ss) == IF k <= Len(ss) THEN EmplaceAll(EmplaceBack(m, ss[k]), k + 1, ss) ELSE m

\* resize(count) / resize(count, value)
Resize(m, n, s) ==
  LET m1 == Reserve(m, n)
  IN IF m1.sz < n
     THEN LET re == Min(m1.cons, n)
              m2 == AsgUp(m1, m1.sz, re, m1.sz, Rep(n, s))
          IN [ConUp(m2, re, n, m1.sz, Rep(n, s)) EXCEPT !.sz = n]
     ELSE [m1 EXCEPT !.sz = n]

Clear(m) == [m EXCEPT !.sz = 0]
\* assign(count, value) / assign(first, last) / operator=(const&): clear(); reserve(n); emplace_back each
AssignAll(m, ss) == EmplaceAll(Reserve(Clear(m), Len(ss)), 1, ss)

\* constructors  (count[, value]) / (first, last) / copy: allocate exactly n, construct each
NewFrom(n0, ss) ==
  LET n == Len(ss)
      id == IF n > 0 THEN n0 + 1 ELSE 0
      m0 == [sz |-> 0, cons |-> 0, cap |-> n, d |-> [k \in 1..n |-> Raw], bid |-> id, b0 |-> id,
             od |-> <<>>, obid |-> 0, nb |-> IF n > 0 THEN n0 + 1 ELSE n0, e |-> <<>>, bad |-> {}]
  IN [ConUp(m0, 0, n, 0, ss) EXCEPT !.sz = n]

\* ~ReusableVector
RECURSIVE DestroyUp(_, _, _)
DestroyUp(m, i, hi) == IF i < hi THEN DestroyUp(Destroy(m, i), i + 1, hi) ELSE m
Destruct(m) ==
  LET m1 == DestroyUp(m, 0, m.cons)
  IN [m1 EXCEPT !.bad = @ \cup Flag(\E k \in 1..m1.cap : m1.d[k] # Raw, "DestroyedExactlyTheConstructed")]

-----------------------------------------------------------------------------
(* One operation on the L2 state: result [vec, nb, ev, bad]                 *)
Srcs(q) == [k \in 1..Len(q) |-> [f |-> "ext", x |-> q[k]]]
OthSrcs(w) == [k \in 1..vec[w].sz |-> [f |-> "oth", x |-> k - 1, w |-> w]]

OneVec(v, m) == [vec |-> [vec EXCEPT ![v] = VOf(m)], nb |-> m.nb, ev |-> m.e, bad |-> m.bad]

Apply(o) ==
  LET v == o.v
      m == MkM(vec[v], nb)
  IN CASE o.n = "pb"    -> OneVec(v, EmplaceBack(m, o.s))
       [] o.n = "pop"   -> OneVec(v, [m EXCEPT !.sz = @ - 1])
       [] o.n = "ins"   -> OneVec(v, Insert(m, o.a, <<o.s>>))
       [] o.n = "insn"  -> OneVec(v, Insert(m, o.a, Rep(o.b, o.s)))
       [] o.n = "insr"  -> OneVec(v, Insert(m, o.a, Srcs(o.q)))
       [] o.n = "era"   -> OneVec(v, Erase(m, o.a, o.a + 1))
       [] o.n = "erar"  -> OneVec(v, Erase(m, o.a, o.b))
       [] o.n = "rsz"   -> OneVec(v, Resize(m, o.b, NoSrc))
       [] o.n = "rszv"  -> OneVec(v, Resize(m, o.b, o.s))
       [] o.n = "res"   -> OneVec(v, Reserve(m, o.b))
       [] o.n = "clr"   -> OneVec(v, Clear(m))
       [] o.n = "asgn"  -> OneVec(v, AssignAll(m, Rep(o.b, o.s)))
       [] o.n = "asgr"  -> OneVec(v, AssignAll(m, Srcs(o.q)))
       [] o.n = "asgc"  -> OneVec(v, Resize(Clear(m), o.b, NoSrc))           \* reusable extension assign(count)
       [] o.n = "cpa"   -> OneVec(v, AssignAll(m, OthSrcs(o.w)))              \* v = w
       [] o.n \in {"swp", "mva"}                                              \* swap / v = std::move(w) (same allocator)
                        -> [vec |-> [vec EXCEPT ![v] = vec[o.w], ![o.w] = vec[v]], nb |-> nb, ev |-> <<>>, bad |-> {}]
       [] o.n = "new"   -> [vec |-> [vec EXCEPT ![v] = NoVec], nb |-> nb, ev |-> <<>>, bad |-> {}]
       [] o.n = "newn"  -> OneVec(v, NewFrom(nb, Rep(o.b, NoSrc)))
       [] o.n = "newnv" -> OneVec(v, NewFrom(nb, Rep(o.b, o.s)))
       [] o.n = "newr"  -> OneVec(v, NewFrom(nb, Srcs(o.q)))
       [] o.n = "cpc"   -> OneVec(v, NewFrom(nb, OthSrcs(o.w)))
       [] o.n = "mvc"   -> [vec |-> [vec EXCEPT ![v] = vec[o.w], ![o.w] = NoVec], nb |-> nb, ev |-> <<>>, bad |-> {}]
       [] o.n = "newm"  -> OneVec(v, [NewFrom(nb, Rep(o.b, NoSrc)) EXCEPT !.sz = 0])  \* from AllocationMetadata{capacity = b}
       [] o.n = "del"   -> LET m1 == Destruct(m)
                           IN [vec |-> [vec EXCEPT ![v] = NoVec], nb |-> nb, ev |-> m1.e, bad |-> m1.bad]

-----------------------------------------------------------------------------
(* L1: the same operation on std::vector                                   *)
SrcVal(o) == CASE o.s.f \in {"ext", "extm", "val"} -> o.s.x
               [] o.s.f = "def" -> Dflt
               [] o.s.f = "self" -> abs[o.v][o.s.x + 1]      \* the value the reference denotes WHEN THE CALL IS MADE
InsertAt(s, idx, vals) == SubSeq(s, 1, idx) \o vals \o SubSeq(s, idx + 1, Len(s))
Remove(s, a, b) == SubSeq(s, 1, a) \o SubSeq(s, b + 1, Len(s))
ResizeTo(s, n, x) == IF n <= Len(s) THEN SubSeq(s, 1, n) ELSE s \o [k \in 1..(n - Len(s)) |-> x]

\* unspec: contents of a moved-from vector ("valid but unspecified": whatever it turns out to hold)
AbsApply(o, unspec) ==
  LET v == o.v
      s == abs[v]
      One(x) == [abs EXCEPT ![v] = x]
  IN CASE o.n = "pb"    -> One(Append(s, SrcVal(o)))
       [] o.n = "pop"   -> One(SubSeq(s, 1, Len(s) - 1))
       [] o.n = "ins"   -> One(InsertAt(s, o.a, <<SrcVal(o)>>))
       [] o.n = "insn"  -> One(InsertAt(s, o.a, [k \in 1..o.b |-> SrcVal(o)]))
       [] o.n = "insr"  -> One(InsertAt(s, o.a, o.q))
       [] o.n = "era"   -> One(Remove(s, o.a, o.a + 1))
       [] o.n = "erar"  -> One(Remove(s, o.a, o.b))
       [] o.n = "rsz"   -> One(ResizeTo(s, o.b, Dflt))
       [] o.n = "rszv"  -> One(ResizeTo(s, o.b, SrcVal(o)))
       [] o.n = "res"   -> abs
       [] o.n = "clr"   -> One(<<>>)
       [] o.n = "asgn"  -> One([k \in 1..o.b |-> SrcVal(o)])
       [] o.n = "asgr"  -> One(o.q)
       [] o.n = "asgc"  -> One([k \in 1..o.b |-> Dflt])
       [] o.n = "cpa"   -> One(abs[o.w])
       [] o.n = "swp"   -> [abs EXCEPT ![v] = abs[o.w], ![o.w] = abs[v]]
       [] o.n = "mva"   -> [abs EXCEPT ![v] = abs[o.w], ![o.w] = unspec]
       [] o.n = "new"   -> One(<<>>)
       [] o.n = "newn"  -> One([k \in 1..o.b |-> Dflt])
       [] o.n = "newnv" -> One([k \in 1..o.b |-> SrcVal(o)])
       [] o.n = "newr"  -> One(o.q)
       [] o.n = "cpc"   -> One(abs[o.w])
       [] o.n = "mvc"   -> [abs EXCEPT ![v] = abs[o.w], ![o.w] = <<>>]   \* moved-from by construction: guaranteed empty
       [] o.n = "newm"  -> One(<<>>)
       [] o.n = "del"   -> One(<<>>)

Live(r) == SubSeq(r.d, 1, r.sz)

\* preconditions of the interface (what a caller of std::vector may do)
Pre(o) ==
  LET v == o.v
      n == vec[v].sz
      SelfOk == o.s.f = "self" => (o.s.x >= 0 /\ o.s.x < n)
  IN CASE o.n \in {"new", "newn", "newnv", "newr", "newm"} -> ~alive[v] /\ o.s.f # "self"
       [] o.n \in {"cpc", "mvc"} -> ~alive[v] /\ o.w # v /\ o.w \in Vecs /\ alive[o.w]
       [] o.n \in {"swp", "mva", "cpa"} -> alive[v] /\ o.w # v /\ o.w \in Vecs /\ alive[o.w]
       [] o.n = "pop" -> alive[v] /\ n > 0
       [] o.n \in {"ins", "insn", "insr"} -> alive[v] /\ o.a >= 0 /\ o.a <= n /\ SelfOk
       [] o.n = "era" -> alive[v] /\ o.a >= 0 /\ o.a < n
       [] o.n = "erar" -> alive[v] /\ 0 <= o.a /\ o.a <= o.b /\ o.b <= n
       [] o.n = "asgn" -> alive[v] /\ o.s.f # "self"     \* [sequence.reqmts]: t must not be a reference into a
       [] OTHER -> alive[v] /\ SelfOk

\* the moved-from vector's abstract value is whatever the representation holds (unspecified by the standard)
Do(o, R, unspec) ==
  /\ Pre(o)
  /\ vec' = R.vec
  /\ nb' = R.nb
  /\ ev' = R.ev
  /\ bad' = bad \cup R.bad
               \cup Flag(o.n \in {"clr", "asgn", "asgr", "asgc", "cpa"} /\ (R.vec[o.v].cap < vec[o.v].cap \/ R.vec[o.v].cons < vec[o.v].cons), "ClearKeepsCapacity")
  /\ abs' = AbsApply(o, unspec)
  /\ alive' = CASE o.n = "del" -> [alive EXCEPT ![o.v] = FALSE]
                [] o.n \in {"new", "newn", "newnv", "newr", "newm", "cpc", "mvc"} -> [alive EXCEPT ![o.v] = TRUE]
                [] OTHER -> alive
  /\ op' = o

Init ==
  /\ alive = [v \in Vecs |-> ~Life]
  /\ abs = [v \in Vecs |-> <<>>]
  /\ vec = [v \in Vecs |-> NoVec]
  /\ nb = 0
  /\ ev = <<>>
  /\ bad = {}
  /\ op = NoOp

-----------------------------------------------------------------------------
(* the operation universe offered to the model checker                     *)
SeqsUpTo(n) == UNION {[1..k -> Values] : k \in 0..n}
ArgSrcs(v) == {[f |-> f, x |-> x] : f \in Forms, x \in Values}
ExtSrcs == {[f |-> "ext", x |-> x] : x \in Values}
SelfSrcs(v) == IF Alias THEN {[f |-> "self", x |-> i] : i \in 0..(vec[v].sz - 1)} ELSE {}

OpsOf(v) ==
  LET n == vec[v].sz
      S == ArgSrcs(v) \cup SelfSrcs(v)
      SC == ExtSrcs \cup SelfSrcs(v)            \* insert(pos, n, const V&) / resize(n, const V&)
      others == {w \in Vecs : w # v /\ alive[w]}
  IN IF alive[v]
     THEN {O("pb", v, 0, 0, 0, s, <<>>) : s \in S}
       \cup {O("pop", v, 0, 0, 0, NoSrc, <<>>)}
       \cup {O("ins", v, 0, a, 0, s, <<>>) : a \in 0..n, s \in S}
       \cup {O("insn", v, 0, a, b, s, <<>>) : a \in 0..n, b \in 0..MaxN, s \in SC}
       \cup {O("insr", v, 0, a, 0, NoSrc, q) : a \in 0..n, q \in SeqsUpTo(MaxN)}
       \cup {O("era", v, 0, a, 0, NoSrc, <<>>) : a \in 0..(n - 1)}
       \cup {O("erar", v, 0, ab[1], ab[2], NoSrc, <<>>) : ab \in {x \in (0..n) \X (0..n) : x[1] <= x[2]}}
       \cup {O("rsz", v, 0, 0, b, NoSrc, <<>>) : b \in 0..MaxCap}
       \cup {O("rszv", v, 0, 0, b, s, <<>>) : b \in 0..MaxCap, s \in SC}
       \cup {O("res", v, 0, 0, b, NoSrc, <<>>) : b \in 0..MaxCap}
       \cup {O("clr", v, 0, 0, 0, NoSrc, <<>>)}
       \cup {O("asgn", v, 0, 0, b, s, <<>>) : b \in 0..MaxN, s \in ExtSrcs}
       \cup {O("asgr", v, 0, 0, 0, NoSrc, q) : q \in SeqsUpTo(MaxN)}
       \cup {O("asgc", v, 0, 0, b, NoSrc, <<>>) : b \in 0..MaxN}
       \cup {O(nm, v, w, 0, 0, NoSrc, <<>>) : nm \in {"swp", "mva", "cpa"}, w \in others}
       \cup (IF Life THEN {O("del", v, 0, 0, 0, NoSrc, <<>>)} ELSE {})
     ELSE {O("new", v, 0, 0, 0, NoSrc, <<>>)}
       \cup {O("newn", v, 0, 0, b, NoSrc, <<>>) : b \in 0..MaxN}
       \cup {O("newnv", v, 0, 0, b, s, <<>>) : b \in 0..MaxN, s \in ExtSrcs}
       \cup {O("newr", v, 0, 0, 0, NoSrc, q) : q \in SeqsUpTo(MaxN)}
       \cup {O("newm", v, 0, 0, b, NoSrc, <<>>) : b \in 0..MaxN}
       \cup {O(nm, v, w, 0, 0, NoSrc, <<>>) : nm \in {"cpc", "mvc"}, w \in others}

Step(o) ==
  LET R == Apply(o)
  IN /\ \A v \in Vecs : R.vec[v].cap <= MaxCap          \* model bound only
     /\ Do(o, R, IF o.n = "mva" THEN Live(R.vec[o.w]) ELSE <<>>)

Next == \E v \in Vecs : \E o \in OpsOf(v) : Pre(o) /\ Step(o)
Spec == Init /\ [][Next]_vars

-----------------------------------------------------------------------------
(* Properties                                                              *)
\* the abstraction of L2 is the std::vector, after every operation
SameAsStdVector == \A v \in Vecs : alive[v] => Live(vec[v]) = abs[v]
\* size <= constructed <= capacity
SizeConsCap == \A v \in Vecs : LET r == vec[v] IN r.sz <= r.cons /\ r.cons <= r.cap /\ Len(r.d) = r.cap /\ r.sz >= 0
\* per slot: live below size, stale (constructed, kept) up to constructed_size, raw above
SlotStates == \A v \in Vecs : \A k \in 1..vec[v].cap : (vec[v].d[k] # Raw) <=> (k <= vec[v].cons)
NeverConstructOnConstructed == "NeverConstructOnConstructed" \notin bad
NeverAssignOrReadRaw == "NeverAssignOrReadRaw" \notin bad
DestroyedExactlyTheConstructed ==
  /\ "DestroyedExactlyTheConstructed" \notin bad
  /\ \A v \in Vecs : ~alive[v] => vec[v] = NoVec
ClearKeepsCapacity == "ClearKeepsCapacity" \notin bad
\* a cleared vector is indistinguishable from a fresh one through the std interface
ClearedEqualsFresh == \A v \in Vecs : (alive[v] /\ op.n = "clr" /\ op.v = v) => (abs[v] = <<>> /\ vec[v].sz = 0)

TypeOK ==
  /\ \A v \in Vecs : \A k \in 1..Len(abs[v]) : abs[v][k] \in Values \cup {Dflt}
  /\ \A v \in Vecs : \A k \in 1..vec[v].sz : vec[v].d[k] \in Values \cup {Dflt, Moved}
=============================================================================
