----------------------------- MODULE Ids_Trace -----------------------------
(***************************************************************************)
(* Trace validation of the real IdAllocator / ThreadId / DepositBox        *)
(* against the L2 specifications Ids.tla + Box.tla.  Every line of the     *)
(* (normalised) ndjson trace recorded under vsched must be explained by    *)
(* exactly the action the thread's pc allows, with the same location,      *)
(* operands, value read and outcome.  The memory order of each step is the *)
(* one the running code passed (Tr[l].mo, Tr[l].mof for a failed           *)
(* compare-exchange); the <<site, order>> pairs seen are collected in      *)
(* moSeen, from which MO_Ids.tla is regenerated.                           *)
(***************************************************************************)
EXTENDS Box, Json, IOUtils

Tr == ndJsonDeserialize(IOEnv.TRACE)

VARIABLES l,       \* next line to explain
          moSeen   \* set of <<site, order>> observed

tvars == <<vars, l, moSeen>>

CfgOf(e) == [kind |-> e.kind, n |-> e.n, fr |-> e.fr, own |-> e.own, prog |-> e.prog, after |-> e.after, nb |-> e.nb, smod |-> 0]

TInit ==
  /\ l = 2
  /\ moSeen = {}
  /\ Tr[1].k = "reset"
  /\ InitFor(CfgOf(Tr[1]))
  /\ TLCSet(1, 1)
  /\ TLCSet(2, {})

Progress == TLCSet(1, IF TLCGet(1) < l' THEN l' ELSE TLCGet(1))

IsHead(e) == e.loc = "head"

\* does the operation the model performed equal the logged one?
Matches(m, e) ==
  /\ m.t = e.t /\ m.k = e.k
  /\ CASE e.k \in {"load", "store"} -> m.loc = e.loc /\ m.i = e.i /\ m.v = e.v /\ m.vh = e.vh
       [] e.k = "faa" -> m.loc = e.loc /\ m.i = e.i /\ m.v = e.v /\ m.a = e.a
       [] e.k = "cas" -> /\ m.loc = e.loc /\ m.i = e.i /\ m.ok = e.ok
                         /\ m.v = e.v /\ m.vh = e.vh /\ m.a = e.a /\ m.ah = e.ah /\ m.b = e.b /\ m.bh = e.bh
       [] e.k = "call" -> m.op = e.op /\ m.n = e.n /\ m.id = e.id /\ m.idh = e.idh /\ (e.op = "em" => m.item = e.item)   \* adv: id, idh = the head after the jump
       [] e.k = "got" -> m.op = e.op /\ m.n = e.n /\ m.res = e.res /\ m.item = e.item
       [] e.k = "ret" -> /\ m.op = e.op /\ m.n = e.n
                         /\ CASE e.op \in {"al", "em"} -> m.id = e.id /\ m.idh = e.idh /\ (e.op = "em" => m.item = e.item)
                              [] e.op \in {"tk", "tr"} -> m.res = e.res /\ m.item = e.item
                              [] e.op = "fe" -> m.vals = SeqSet(e.vals)
                              [] OTHER -> TRUE
       [] OTHER -> FALSE

\* the order the code passed: a failed compare-exchange used its failure order
OrderOf(e, site) == IF e.k = "cas" /\ ~e.ok THEN e.mof ELSE e.mo

Consume ==
  /\ l <= Len(Tr)
  /\ LET e == Tr[l]
     IN /\ e.k \notin {"reset", "end", "final"}
        /\ BoxStep(e.t, LAMBDA site : OrderOf(e, site))
        /\ Matches(ev', e)
        /\ moSeen' = IF ev'.site # "" THEN moSeen \cup {<<ev'.site, ev'.mo>>} ELSE moSeen
        \* an L1 clause failing on the L2 state of the observed execution is printed with its line
        /\ (H'.bad # H.bad => PrintT(<<"VERIFBAD", l, H'.bad \ H.bad>>))
  /\ l' = l + 1

\* quiescent observation by the driver (for_each and end() after all threads were joined):
\* conformance = what the model's memory dictates
Final ==
  /\ l <= Len(Tr) /\ Tr[l].k = "final"
  /\ AllDone
  /\ SeqSet(Tr[l].vals) = Scan(LastVal(ms, NextLoc))
  /\ Tr[l].n = LastVal(ms, NextLoc)
  /\ l' = l + 1
  /\ UNCHANGED <<vars, moSeen>>

End ==
  /\ l <= Len(Tr) /\ Tr[l].k = "end"
  /\ (Tr[l].op = "ok" => AllDone)
  /\ l' = l + 1
  /\ UNCHANGED <<vars, moSeen>>

Reset ==
  /\ l <= Len(Tr) /\ Tr[l].k = "reset"
  /\ LET c == CfgOf(Tr[l])
     IN /\ cfg' = c /\ ms' = MS0(c) /\ pc' = PC0(c) /\ L' = LL0(c) /\ H' = H0(c) /\ ev' = NoEv
  /\ l' = l + 1
  /\ UNCHANGED moSeen

TNext == (Consume \/ Final \/ End \/ Reset) /\ Progress /\ (l' > Len(Tr) => TLCSet(2, moSeen'))

TSpec == TInit /\ [][TNext]_tvars

\* reported at the end:  <<"VERIF", lines explained, lines, site/order pairs>>
Post == PrintT(<<"VERIF", TLCGet(1) - 1, Len(Tr), TLCGet(2)>>)

\* debugging aid: violated exactly when the whole (truncated) trace was explained
DbgStop == l <= Len(Tr)

\* the L1 clauses evaluated on the L2 state of the observed execution (same formulas as the model-checked ones)
TLiveIdsUnique == LiveIdsUnique
TReuseBeforeMint == ReuseBeforeMint
TForEachReportsLive == ForEachReportsLive
TOneTakerWins == OneTakerWins
TStaleNeverMatches == StaleNeverMatches
TFreeListWellFormed == FreeListWellFormed
=============================================================================
