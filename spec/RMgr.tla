-------------------------------- MODULE RMgr --------------------------------
(***************************************************************************)
(* C12 - babylon::ReusableManager over a monotonic resource.               *)
(*                                                                         *)
(* Objects created through the manager are used in cycles:                 *)
(*    workload (fill the cleared object)  ;  manager.clear()               *)
(* and clear() is either the logical clear of every object (reconstruct =  *)
(* clear(), capacity retained) or - every R-th time - the re-creation:     *)
(* update every unit's AllocationMetadata from its instance, release the   *)
(* resource, rebuild every instance from its metadata.                     *)
(*                                                                         *)
(* An object is a reusable vector whose elements are "values with retained *)
(* capacity" (strings, nested vectors, messages; need 0 = fits in a fresh  *)
(* element) or a single such value (kind "str").  Workloads are sequences  *)
(* of needs; the contents are abstracted to the needs themselves.          *)
(* L2 state: size / constructed / capacity / per constructed slot the      *)
(* retained element capacity; recorded metadata (capacity = max            *)
(* constructed_size seen at re-creations, element capacity = max element   *)
(* capacity); the instance each unit currently owns, the set of instances  *)
(* alive in the resource, the accessor (a pointer to the unit's instance   *)
(* pointer).                                                               *)
(***************************************************************************)
EXTENDS Integers, Sequences, FiniteSets, TLC

CONSTANTS Objs,     \* object names
          KindOf,   \* [Objs -> {"vec", "str"}]
          R,        \* recreate interval (set_recreate_interval)
          Needs,    \* element needs offered by Next, e.g. {0, 2, 3}
          MaxLen,   \* longest workload offered by Next
          MaxClears

Max(a, b) == IF a > b THEN a ELSE b
Flag(c, name) == IF c THEN {name} ELSE {}
RECURSIVE MaxOf(_)
MaxOf(s) == IF s = <<>> THEN -1 ELSE Max(Head(s), MaxOf(Tail(s)))    \* -1: nothing retained

VARIABLES phase,   \* "idle" (cleared, before the workload) | "filled"
          ct,      \* _clear_times
          nclr,    \* ghost: number of clear() calls so far
          recAt,   \* ghost: the clear() calls that re-created
          obj,     \* [Objs -> [sz, cons, cap, ecap, val]]
          meta,    \* [Objs -> [cap, ecap]]   recorded AllocationMetadata
          inst,    \* [Objs -> instance id]   TypedReusableUnit::_instance
          live,    \* instances alive in the resource
          ninst,   \* ghost: instance id counter
          hw,      \* ghost: [Objs -> pointwise maximum of all workloads run so far]
          grew,    \* ghost: the last workload took new memory from the resource
          bad
mvars == <<phase, ct, nclr, recAt, obj, meta, inst, live, ninst, hw, grew, bad>>

\* a fresh object of the kind (fr = capacity a fresh element has without allocating)
FreshObj(kind, fr) == IF kind = "vec" THEN [sz |-> 0, cons |-> 0, cap |-> 0, ecap |-> <<>>, val |-> <<>>]
                                    ELSE [sz |-> 0, cons |-> 1, cap |-> 1, ecap |-> <<fr>>, val |-> <<>>]

\* element k of the workload fits without new memory
SlotFits(o, W, k, fr) == IF k <= o.cons THEN o.ecap[k] >= W[k] ELSE fr >= W[k]
\* the workload fits in the retained capacity of the (cleared) object
Fits(o, W, fr) == o.cap >= Len(W) /\ \A k \in 1..Len(W) : SlotFits(o, W, k, fr)

\* emplace_back of every element of W on the cleared object (vector.hpp emplace_back; strings: assign)
RECURSIVE Fill(_, _, _, _)
Fill(o, W, k, fr) ==
  IF k > Len(W) THEN o
  ELSE LET o1 == IF o.sz = o.cap THEN [o EXCEPT !.cap = IF o.cap = 0 THEN 4 ELSE 2 * o.cap, !.g = TRUE] ELSE o
           o2 == IF o1.cons > o1.sz
                 THEN [o1 EXCEPT !.ecap[o1.sz + 1] = Max(@, W[k]), !.g = @ \/ W[k] > o1.ecap[o1.sz + 1]]
                 ELSE [o1 EXCEPT !.ecap = Append(@, Max(fr, W[k])), !.cons = @ + 1, !.g = @ \/ W[k] > fr]
       IN Fill([o2 EXCEPT !.sz = @ + 1, !.val = Append(@, W[k])], W, k + 1, fr)
FillObj(o, W, fr) ==
  LET r == Fill([sz |-> o.sz, cons |-> o.cons, cap |-> o.cap, ecap |-> o.ecap, val |-> o.val, g |-> FALSE], W, 1, fr)
  IN [o |-> [sz |-> r.sz, cons |-> r.cons, cap |-> r.cap, ecap |-> r.ecap, val |-> r.val], g |-> r.g]

\* TypedReusableUnit::update : extract capacities
Update(m, o) == [cap |-> Max(m.cap, o.cons), ecap |-> Max(m.ecap, MaxOf(o.ecap))]
\* create_with_allocation_metadata : capacity = constructed = recorded capacity, every element rebuilt with the recorded element capacity
Recreate(kind, m, fr) == IF kind = "vec" THEN [sz |-> 0, cons |-> m.cap, cap |-> m.cap, ecap |-> [k \in 1..m.cap |-> Max(fr, m.ecap)], val |-> <<>>]
                                       ELSE [sz |-> 0, cons |-> 1, cap |-> 1, ecap |-> <<Max(fr, m.ecap)>>, val |-> <<>>]
LogicalClear(o) == [o EXCEPT !.sz = 0, !.val = <<>>]

PointMax(a, b) == [k \in 1..Max(Len(a), Len(b)) |-> Max(IF k <= Len(a) THEN a[k] ELSE 0, IF k <= Len(b) THEN b[k] ELSE 0)]

Init ==
  /\ phase = "idle" /\ ct = 0 /\ nclr = 0 /\ recAt = {}
  /\ obj = [u \in Objs |-> FreshObj(KindOf[u], 0)]
  /\ meta = [u \in Objs |-> [cap |-> 0, ecap |-> 0]]
  /\ inst = [u \in Objs |-> u] /\ live = Objs /\ ninst = Cardinality(Objs)
  /\ hw = [u \in Objs |-> <<>>] /\ grew = FALSE /\ bad = {}

\* one workload: every object is filled
Work(W) ==
  /\ phase = "idle"
  /\ LET res == [u \in Objs |-> FillObj(obj[u], W[u], 0)]
         allfit == \A u \in Objs : Fits(obj[u], W[u], 0)
         g == \E u \in Objs : res[u].g
     IN /\ obj' = [u \in Objs |-> res[u].o]
        /\ grew' = g
        /\ bad' = bad \cup Flag(allfit /\ g, "Convergence")
  /\ hw' = [u \in Objs |-> PointMax(hw[u], W[u])]
  /\ phase' = "filled"
  /\ UNCHANGED <<ct, nclr, recAt, meta, inst, live, ninst>>

\* ReusableManager::clear
ClearAll ==
  /\ phase = "filled"
  /\ nclr' = nclr + 1
  /\ IF ct + 1 >= R
     THEN LET m2 == [u \in Objs |-> Update(meta[u], obj[u])]
              ids == [u \in Objs |-> ninst + u]      \* Objs are 1..n
          IN /\ ct' = 0
             /\ meta' = m2
             /\ obj' = [u \in Objs |-> Recreate(KindOf[u], m2[u], 0)]
             /\ inst' = ids /\ live' = {ids[u] : u \in Objs} /\ ninst' = ninst + Cardinality(Objs)
             /\ recAt' = recAt \cup {nclr + 1}
     ELSE /\ ct' = ct + 1
          /\ obj' = [u \in Objs |-> LogicalClear(obj[u])]
          /\ UNCHANGED <<meta, inst, live, ninst, recAt>>
  /\ bad' = bad \cup Flag(\E u \in Objs : obj'[u].cons < obj[u].cons \/ \E k \in 1..obj[u].cons : obj'[u].ecap[k] < obj[u].ecap[k], "ClearKeepsCapacity")
  /\ phase' = "idle"
  /\ UNCHANGED <<hw, grew>>

Workloads == UNION {[1..k -> Needs] : k \in 0..MaxLen}
StrWorkloads == {<<>>} \cup {<<n>> : n \in Needs}
Next ==
  \/ \E W \in [Objs -> Workloads] : (\A u \in Objs : KindOf[u] = "str" => W[u] \in StrWorkloads) /\ Work(W)
  \/ (nclr < MaxClears /\ ClearAll)
Spec == Init /\ [][Next]_mvars

-----------------------------------------------------------------------------
\* the accessor (pointer to the unit's instance pointer) always denotes an instance alive in the resource
AccessorStable == \A u \in Objs : inst[u] \in live
\* after clear() every object is indistinguishable from a fresh one
ClearedEqualsFresh == phase = "idle" => \A u \in Objs : obj[u].sz = 0 /\ obj[u].val = <<>>
ClearKeepsCapacity == "ClearKeepsCapacity" \notin bad
\* a workload that fits takes no new memory; and everything that was ever run fits from then on,
\* through logical clears and re-creations alike
Convergence ==
  /\ "Convergence" \notin bad
  /\ phase = "idle" => \A u \in Objs : Fits(obj[u], hw[u], 0)
\* re-creation exactly at every R-th clear
RecreateCadence == recAt = {k \in 1..nclr : k % R = 0}
SizeConsCap == \A u \in Objs : obj[u].sz <= obj[u].cons /\ obj[u].cons <= obj[u].cap /\ Len(obj[u].ecap) = obj[u].cons /\ Len(obj[u].val) = obj[u].sz
SameAsStd == phase = "filled" => \A u \in Objs : obj[u].sz = Len(obj[u].val)
=============================================================================
