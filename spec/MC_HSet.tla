------------------------------ MODULE MC_HSet ------------------------------
(* Model-checking instance of HSet: two containers, every action sequence up to  *)
(* Depth over small parameter families.  EmplaceMany macro steps cross the       *)
(* 16 / 32 / 64 boundaries in one transition, so that "default-constructed head  *)
(* + 1 / + 2 chained tables" and "n-bucket head + 1 / + 2 chained tables" are    *)
(* reached within a few steps.  hist is the script of the behaviour (hidden from *)
(* the state identity by VIEW): with EmitOK as an invariant TLC prints one       *)
(* script per distinct state (BFS spanning tree) or per simulated behaviour -    *)
(* these scripts are executed on the real container (spec -> code direction).    *)
EXTENDS HSet

CONSTANTS SingleKeys,   \* keys for single Emplace / Find
          Vals,         \* values for single Emplace (>= 2 values exercise first-insert-wins)
          Los, ManyN,   \* EmplaceMany(lo, n): lo \in Los, n \in ManyN
          CapReq,       \* arguments of Construct(n) / Reserve(n) / Rehash(n)
          Depth,
          Observers     \* BOOLEAN: include the read-only actions (useful for -simulate scripts)

VARIABLES hist, nsteps

S(i) == SizeRet(i)
K(i) == IterKeys(i)

Act ==
  \/ \E i \in Cons : Construct(i, "D", 0)
  \/ \E i \in Cons, n \in CapReq : Construct(i, "N", n)
  \/ \E i \in Cons, k \in SingleKeys, v \in Vals : Emplace(i, k, v)
  \/ \E i \in Cons, lo \in Los, n \in ManyN : EmplaceMany(i, lo, n, 1)
  \/ \E i \in Cons : Clear(i, S(i))
  \/ \E i \in Cons, n \in CapReq : Reserve(i, n, S(i), K(i), FALSE)
  \/ \E i \in Cons, n \in CapReq : Rehash(i, n, S(i), K(i), FALSE)
  \/ \E d \in Cons, s \in Cons : Copy(d, s, S(s), K(s), FALSE)
  \/ \E d \in Cons, s \in Cons : MoveAssign(d, s)
  \/ \E d \in Cons, s \in Cons : MoveCtor(d, s)
  \/ \E a \in Cons, b \in Cons : a <= b /\ Swap(a, b)
  \/ Observers /\ \E i \in Cons, k \in SingleKeys : Find(i, k)
  \/ Observers /\ \E i \in Cons : Iterate(i)
  \/ Observers /\ \E i \in Cons : Size(i)

MCInit == Init /\ hist = "" /\ nsteps = 0
MCNext ==
  /\ Act
  /\ hist' = (IF hist = "" THEN ev' ELSE hist \o ";" \o ev')
  /\ nsteps' = nsteps + 1
MCSpec == MCInit /\ [][MCNext]_<<vars, hist, nsteps>>

View == <<ref, ch, st, mf>>
DepthBound == nsteps < Depth

\* always TRUE; prints the script that led to this state
EmitOK == PrintT(<<"SCRIPT", nsteps, hist>>)

EmitLast == (nsteps = Depth) => PrintT(<<"SCRIPT", nsteps, hist>>)

\* steering targets (negated: TLC's counterexample is the shortest script reaching them)
NotDefault1 == \A i \in Cons : ~DefaultChained(i, 1)
NotDefault2 == \A i \in Cons : ~DefaultChained(i, 2)
NotSized2 == \A i \in Cons : ~(~ch[i][1].ph /\ Len(ch[i]) >= 3)
=============================================================================
