----------------------------- MODULE MC_Epoch -----------------------------
(* Model-checking instance of Epoch: memory orders from the table MO_Epoch   *)
(* (regenerated from the running code by the conformance step), client       *)
(* program families as constants.                                            *)
EXTENDS Epoch, MO_Epoch

MOf(site) == MO[site]

O(op, h) == [op |-> op, h |-> h]
Cfg(prog, ns, nh, pre) == [prog |-> prog, ns |-> ns, nh |-> nh, pre |-> pre]

\* writer: unlink, tick, scan, reclaim (k rounds: k + 1 objects)
W1 == << O("unlink", 0), O("tick", 0), O("lwm", 0), O("reclaim", 0) >>
W2 == W1 \o W1
\* reader, thread-local style / accessor style (accessor h exists already)
Rtl == << O("lock", 0), O("read", 0), O("deref", 0), O("unlock", 0) >>
Racc(h) == << O("lock", h), O("read", 0), O("deref", 0), O("unlock", h) >>
\* accessor created and released by the reader itself
Rcr(h) == << O("create", h) >> \o Racc(h) \o << O("release", h) >>
\* nested regions: the inner unlock must not leave
Rnest(h) == << O("lock", h), O("lock", h), O("read", 0), O("unlock", h), O("deref", 0), O("unlock", h) >>
\* region moved to another thread together with its accessor
Rgive(h) == << O("lock", h), O("read", 0), O("give", h) >>
Rtake(h) == << O("take", h), O("deref", 0), O("unlock", h) >>
\* slot recycled: released, created again by somebody else
Rrecycle(h, g) == << O("create", h), O("lock", h), O("unlock", h), O("release", h), O("create", g) >> \o Racc(g)

\* --- single families
F_tl2 == { Cfg(<< Rtl, Rtl, W1 >>, 2, 0, 0) }
F_tl2w2 == { Cfg(<< Rtl, Rtl, W2 >>, 2, 0, 0) }
F_acc2 == { Cfg(<< Racc(1), Racc(2), W1 >>, 2, 2, 2) }
F_acc2w2 == { Cfg(<< Racc(1), Racc(2), W2 >>, 2, 2, 2) }
F_tl1w2 == { Cfg(<< Rtl, W2 >>, 1, 0, 0) }
F_acc1w2 == { Cfg(<< Racc(1), W2 >>, 1, 1, 1) }
F_tl1 == { Cfg(<< Rtl, W1 >>, 1, 0, 0) }
F_acc1 == { Cfg(<< Racc(1), W1 >>, 1, 1, 1) }
F_nest == { Cfg(<< Rnest(1), W1 >>, 1, 1, 1) }
F_nestw2 == { Cfg(<< Rnest(1), W2 >>, 1, 1, 1) }
F_nest2 == { Cfg(<< Rnest(1), Racc(2), W1 >>, 2, 2, 2) }
F_move == { Cfg(<< Rgive(1), Rtake(1), W1 >>, 1, 1, 1) }
F_movew2 == { Cfg(<< Rgive(1), Rtake(1), W2 >>, 1, 1, 1) }
F_cr1 == { Cfg(<< Rcr(1), W1 >>, 1, 1, 0) }
F_cr2 == { Cfg(<< Rcr(1), Rcr(2), W1 >>, 2, 2, 0) }
F_recycle == { Cfg(<< Rrecycle(1, 2), Rcr(3), W1 >>, 2, 3, 0) }
F_relock == { Cfg(<< Rtl \o Rtl, W2 >>, 1, 0, 0), Cfg(<< Racc(1) \o Racc(1), W2 >>, 1, 1, 1) }

\* accessor released while locked; the id recycled by another thread that enters its own region
Rdrop(h) == << O("create", h), O("lock", h), O("read", 0), O("deref", 0), O("release", h) >>
F_relw == { Cfg(<< Rdrop(1), W1 >>, 1, 1, 0), Cfg(<< << O("create", 1), O("lock", 1), O("release", 1) >>, Rcr(2), W1 >>, 2, 2, 0) }
\* quick: the dropped accessor alone, and its id recycled by a thread that enters a region (accessor 1 exists already)
F_relw_s == { Cfg(<< Rdrop(1), W1 >>, 1, 1, 0),
              Cfg(<< << O("lock", 1), O("release", 1) >>, << O("create", 2), O("lock", 2), O("read", 0), O("deref", 0), O("unlock", 2) >>, W1 >>, 2, 2, 1) }
Cfg_relw_q == F_relw_s
Cfg_relw == F_relw

\* --- weak-memory families (Stale = TRUE)
Cfg_wm_q == F_tl1w2 \cup F_acc1w2 \cup F_nest \cup F_move \cup F_cr1
Cfg_wm == Cfg_wm_q \cup F_tl2 \cup F_acc2 \cup F_relock \cup F_nestw2
\* --- interleaving families (Stale = FALSE)
Cfg_sc_q == F_tl1w2 \cup F_acc1w2 \cup F_nestw2 \cup F_move \cup F_cr1
Cfg_sc == Cfg_sc_q \cup F_tl2 \cup F_acc2 \cup F_cr2 \cup F_nest2 \cup F_movew2 \cup F_recycle \cup F_relock
\* --- largest bounds of DESIGN 4/C09 (2 readers + 1 writer, 2 objects); run by hand, see the report
Cfg_big == F_tl2w2 \cup F_acc2w2

Next == \/ \E t \in Thr : Step(t, MOf)
        \/ (AllDone /\ UNCHANGED vars)
Spec == Init /\ [][Next]_vars

View == <<cfg, ms, pc, L, G, H>>
=============================================================================
