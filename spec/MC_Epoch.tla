----------------------------- MODULE MC_Epoch -----------------------------
(* Model-checking instance of Epoch: memory orders from the table MO_Epoch   *)
(* (regenerated from the running code by the conformance step), client       *)
(* program families as constants.                                            *)
EXTENDS Epoch, MO_Epoch

MOf(site) == MO[site]

O(op, h) == [op |-> op, h |-> h]
Cfg(prog, ns, nh, pre) == [prog |-> prog, ns |-> ns, nh |-> nh, pre |-> pre]

\* writer: unlink, tick, scan, reclaim (k rounds: k + 1 objects)
W1 == << O("unlink", 0), O("tick", 0), O("lwm", 0), O("reclaim", 0) >>
W2 == W1 \o W1
\* reader, thread-local style / accessor style (accessor h exists already)
Rtl == << O("lock", 0), O("read", 0), O("deref", 0), O("unlock", 0) >>
Racc(h) == << O("lock", h), O("read", 0), O("deref", 0), O("unlock", h) >>
\* accessor created and released by the reader itself
Rcr(h) == << O("create", h) >> \o Racc(h) \o << O("release", h) >>
\* nested regions: the inner unlock must not leave
Rnest(h) == << O("lock", h), O("lock", h), O("read", 0), O("unlock", h), O("deref", 0), O("unlock", h) >>
\* region moved to another thread together with its accessor
Rgive(h) == << O("lock", h), O("read", 0), O("give", h) >>
Rtake(h) == << O("take", h), O("deref", 0), O("unlock", h) >>
\* slot recycled: released, created again by somebody else
Rrecycle(h, g) == << O("create", h), O("lock", h), O("unlock", h), O("release", h), O("create", g) >> \o Racc(g)

\* --- weak-memory families (Stale = TRUE): 2 readers / 2 accessors + 1 writer
Cfg_wm_tl == { Cfg(<< Rtl, Rtl, W1 >>, 2, 0, 0) }
Cfg_wm_acc == { Cfg(<< Racc(1), Racc(2), W1 >>, 2, 2, 2) }
Cfg_wm_2obj == { Cfg(<< Rtl, W2 >>, 1, 0, 0), Cfg(<< Racc(1), W2 >>, 1, 1, 1) }
Cfg_wm_misc == { Cfg(<< Rnest(1), W1 >>, 1, 1, 1), Cfg(<< Rgive(1), Rtake(1), W1 >>, 1, 1, 1), Cfg(<< Rcr(1), W1 >>, 1, 1, 0) }
Cfg_wm == Cfg_wm_tl \cup Cfg_wm_acc \cup Cfg_wm_2obj \cup Cfg_wm_misc

\* --- interleaving families (Stale = FALSE)
Cfg_sc == { Cfg(<< Rtl, Rtl, W2 >>, 2, 0, 0),
            Cfg(<< Racc(1), Racc(2), W2 >>, 2, 2, 2),
            Cfg(<< Rcr(1), Rcr(2), W1 >>, 2, 2, 0),
            Cfg(<< Rnest(1), Racc(2), W1 >>, 2, 2, 2),
            Cfg(<< Rnest(1), W2 >>, 1, 1, 1),
            Cfg(<< Rgive(1), Rtake(1), W2 >>, 1, 1, 1),
            Cfg(<< Rrecycle(1, 2), Rcr(3), W1 >>, 2, 3, 0) }

Cfg_dbg == { Cfg(<< Rrecycle(1, 2), Rcr(3), W1 >>, 2, 3, 0) }

Next == \/ \E t \in Thr : Step(t, MOf)
        \/ (AllDone /\ UNCHANGED vars)
Spec == Init /\ [][Next]_vars

View == <<cfg, ms, pc, L, G, H>>
=============================================================================
