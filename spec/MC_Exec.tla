------------------------------ MODULE MC_Exec ------------------------------
(* Model-checking instance of Exec: configuration families as constants.      *)
(* Bounds (DESIGN C07): W <= 3 workers, G, L in {0,1,2}, <= 4 root tasks,     *)
(* trees of depth <= 2, stealing on/off, balancer on/off, SC (queue           *)
(* operations atomic).                                                        *)
EXTENDS Exec

B == {TRUE, FALSE}
O(op, r) == [op |-> op, r |-> r]
T(c, g) == [c |-> c, g |-> g]
None == << >>

Pool(w, g, l, st, bl, tree, prog) ==
  [kind |-> "pool", W |-> w, G |-> g, L |-> l, steal |-> st, bal |-> bl, flat |-> FALSE, acc |-> {}, tree |-> tree, prog |-> prog]
Other(kind, flat, acc, tree, prog) ==
  [kind |-> kind, W |-> 0, G |-> 0, L |-> 0, steal |-> FALSE, bal |-> FALSE, flat |-> flat, acc |-> acc, tree |-> tree, prog |-> prog]

\* ---- programs (thread 1 = main; it joins the others and then destroys the executor) --------
\* stop() issued by the second thread while main may still be submitting / waiting
P2_race == << <<O("e", 1), O("g", 0)>>, <<O("s", 2), O("x", 0)>> >>
\* stop only from the destructor
P2_dtor == << <<O("e", 1), O("g", 0)>>, <<O("s", 2)>> >>
\* stop() by main at an arbitrary point, a wake-up task in between
P2_main == << <<O("u", 0), O("x", 0)>>, <<O("e", 1), O("s", 2), O("g", 0)>> >>
\* three threads
P3_race == << None, <<O("e", 1), O("g", 0)>>, <<O("s", 2), O("x", 0)>> >>
P3_main == << <<O("u", 0), O("x", 0)>>, <<O("e", 1), O("s", 2)>>, <<O("e", 3), O("g", 0)>> >>
\* four roots
P3_four == << None, <<O("e", 1), O("s", 2), O("g", 0)>>, <<O("s", 3), O("e", 4), O("x", 0)>> >>

Tr_2 == <<T(2, 0), T(0, 0)>>             \* root 1 submits two children
Tr_1 == <<T(1, 0), T(0, 0)>>
Tr_d2 == <<T(1, 1), T(0, 0)>>            \* child with a grandchild
Tr_kids == <<T(2, 0), T(1, 1)>>
Tr_three == <<T(1, 0), T(2, 0), T(0, 0)>>
Tr_four == <<T(1, 1), T(0, 0), T(2, 0), T(0, 0)>>

\* quick: W = 2, every capacity, stealing on/off without balancer; balancer on smaller trees; W = 1
Cfg_qa == { Pool(2, 1, l, st, FALSE, Tr_2, P2_race) : l \in {0, 1, 2}, st \in B } \cup { Pool(2, 0, 1, st, FALSE, Tr_2, P2_race) : st \in B }
Cfg_qb == { Pool(2, 1, l, TRUE, TRUE, Tr_1, P2_race) : l \in {1, 2} } \cup { Pool(2, 1, 1, FALSE, TRUE, Tr_1, P2_race) }
Cfg_qc == { Pool(1, 0, l, FALSE, bl, Tr_2, P2_race) : l \in {0, 1}, bl \in B }
Cfg_qd == { Pool(2, 1, 1, st, FALSE, Tr_d2, P2_dtor) : st \in B } \cup { Pool(2, 2, 1, TRUE, FALSE, Tr_1, P2_main) }
Cfg_quick == Cfg_qa \cup Cfg_qb \cup Cfg_qc \cup Cfg_qd

\* thorough families
P2_four == << <<O("e", 1), O("s", 2), O("g", 0)>>, <<O("s", 3), O("e", 4), O("x", 0)>> >>
Tr_4 == <<T(1, 0), T(0, 0), T(1, 0), T(0, 0)>>
Cfg_t2 == { Pool(2, g, l, st, bl, Tr_kids, P2_race) : g \in {0, 1, 2}, l \in {0, 1, 2}, st \in B, bl \in B }
Cfg_dtor == { Pool(w, g, l, st, bl, Tr_2, P2_dtor) : w \in {2, 3}, g \in {0, 2}, l \in {1, 2}, st \in B, bl \in B }
Cfg_main == { Pool(2, g, l, st, bl, Tr_1, P2_main) : g \in {1, 2}, l \in {0, 1}, st \in B, bl \in B }
Cfg_w3 == { Pool(3, g, l, st, FALSE, Tr_4, P2_four) : g \in {0, 1, 2}, l \in {0, 1}, st \in B }
Cfg_w3b == { Pool(3, 1, l, st, TRUE, Tr_1, P2_race) : l \in {1, 2}, st \in B }
\* three client threads (main only joins), six tasks
Cfg_t3 == { Pool(2, g, 1, st, bl, Tr_kids, P3_race) : g \in {0, 2}, st \in B, bl \in B }

\* inplace (nested and flat re-entry), new-thread and refusing executors
P_two == << <<O("e", 1), O("s", 2)>>, <<O("e", 3), O("g", 0)>> >>
Tr_nest == <<T(2, 1), T(1, 0), T(1, 1)>>
Cfg_other ==
     { Other("inplace", f, {}, Tr_nest, P_two) : f \in B }
  \cup { Other("newthread", FALSE, {}, <<T(1, 1), T(0, 0), T(1, 0)>>, P_two) }
  \cup { Other("refuse", FALSE, a, Tr_nest, P_two) : a \in {{}, {1, 11, 12, 3}, {2, 3, 31, 311}, {1, 2, 3, 11, 12, 111, 121, 21, 31, 311}} }

Cfg_quickall == Cfg_quick \cup Cfg_other

\* liveness on tiny configurations
Cfg_live == { Pool(2, 1, 1, st, bl, Tr_1, P2_race) : st \in B, bl \in B } \cup { Pool(1, 0, 1, FALSE, TRUE, Tr_1, P2_dtor) }

Next == (\E t \in Thr : Step(t)) \/ ((AllDone \/ Stuck) /\ UNCHANGED vars)
Spec == Init /\ [][Next]_vars
FairSpec == Spec /\ \A t \in 1..3 \cup 101..103 \cup {BAL} : WF_vars(t \in Thr /\ Step(t))

\* under fair scheduling every program that never sits on a full global queue reaches its end
Termination == <>(AllDone \/ \E t \in Thr : pc[t] = "gpush" /\ Len(gq) >= GC)
=============================================================================
