------------------------------ MODULE RMgr_Trace ------------------------------
(***************************************************************************)
(* Trace validation of cycles  workload ; manager.clear()  executed on the *)
(* REAL babylon::ReusableManager<SwissMemoryResource> (rvec_driver, kind   *)
(* mgr) against RMgr.  One "cyc" line per cycle: the workload w (content   *)
(* ids per object), need (capacity each element of the workload needs),    *)
(* the observation of every object before the workload (o0), after it (o1) *)
(* and after clear() (o2) - size, constructed_size, capacity, decoded       *)
(* contents c, retained capacity of every constructed element ecap, ok =   *)
(* the accessor yields an instance inside the manager's resource -,        *)
(* space_used before/after the workload, space_allocated after clear(),    *)
(* rel = the resource was released (re-creation) during this clear(),      *)
(* live1/live2 = element objects alive (instrumented element type).        *)
(*                                                                         *)
(* L1 clauses (verdicts):                                                  *)
(*  AccessorStable, SameAsStdVector (contents after the workload),         *)
(*  SizeConsCap, Convergence (a workload that fits in the retained         *)
(*  capacities takes no memory from the resource; the same recorded        *)
(*  capacities rebuild to the same space_allocated), ClearedEqualsFresh,   *)
(*  ClearKeepsCapacity (retained = constructed elements and their          *)
(*  capacities; a logical clear also keeps the vector capacity),           *)
(*  RecreateCadence (re-creation exactly at every r-th clear),             *)
(*  DestroyedExactlyTheConstructed (elements alive = constructed slots,    *)
(*  also across release()).                                                *)
(* L2 conformance (drift only): RMgr!FillObj / Update / Recreate from the  *)
(* observed pre-state predict size/constructed/capacity exactly and the    *)
(* element capacities from below.                                          *)
(***************************************************************************)
EXTENDS RMgr, Json, IOUtils

\* the trace is parsed once (TInit) and kept in TLC register 4: a plain definition would be re-evaluated,
\* i.e. the file re-parsed, at every reference
Tr == TLCGet(4)
TKind == [u \in {1} |-> "vec"]

VARIABLES l, tbad, drift, verd, start,
          tmeta,    \* L2: recorded metadata per object (sequence)
          tct,      \* L2: _clear_times
          lastRec   \* <<signature of the rebuilt objects, space_allocated>> of the last re-creation
tvars == <<mvars, l, tbad, drift, verd, start, tmeta, tct, lastRec>>

MObj(r) == [sz |-> r.sz, cons |-> r.cons, cap |-> r.cap, ecap |-> r.ecap, val |-> <<>>]
MKind(r) == IF r.kind = "vec" THEN "vec" ELSE "str"
GE(a, b) == Len(a) >= Len(b) /\ \A k \in 1..Len(b) : a[k] >= b[k]      \* pointwise, on the prefix b covers
Sum(f, S) == LET RECURSIVE Acc(_) Acc(T) == IF T = {} THEN 0 ELSE LET x == CHOOSE y \in T : TRUE IN f[x] + Acc(T \ {x}) IN Acc(S)
First(seq) == IF \E k \in 1..Len(seq) : seq[k] # "" THEN seq[CHOOSE k \in 1..Len(seq) : seq[k] # "" /\ \A j \in 1..(k - 1) : seq[j] = ""] ELSE ""
If(c, name) == IF c THEN name ELSE ""
WellFormed(o) == o.sz <= o.cons /\ o.cons <= o.cap /\ Len(o.ecap) = o.cons /\ Len(o.c) = o.sz

TInit ==
  /\ TLCSet(4, ndJsonDeserialize(IOEnv.TRACE))
  /\ Init
  /\ l = 1 /\ tbad = "" /\ drift = {} /\ verd = {} /\ start = 1 /\ tmeta = <<>> /\ tct = 0 /\ lastRec = <<>>
  /\ TLCSet(1, 1) /\ TLCSet(2, {}) /\ TLCSet(3, {})

Reset ==
  /\ l <= Len(Tr) /\ Tr[l].k = "reset"
  /\ tbad' = "" /\ start' = l /\ tmeta' = <<>> /\ tct' = 0 /\ lastRec' = <<>>
  /\ UNCHANGED <<mvars, drift, verd>>
  /\ l' = l + 1

Skip ==
  /\ l <= Len(Tr) /\ Tr[l].k = "cyc" /\ tbad # ""
  /\ UNCHANGED <<mvars, tbad, drift, verd, start, tmeta, tct, lastRec>>
  /\ l' = l + 1

Cycle ==
  /\ l <= Len(Tr) /\ Tr[l].k = "cyc" /\ tbad = ""
  /\ LET e == Tr[l]
         U == 1..Len(e.o0)
         m0 == IF tmeta = <<>> THEN [u \in U |-> [cap |-> 0, ecap |-> -1]] ELSE tmeta
         wf == \A u \in U : WellFormed(e.o0[u]) /\ WellFormed(e.o1[u]) /\ WellFormed(e.o2[u])
         ok == \A u \in U : e.o0[u].ok = 1 /\ e.o1[u].ok = 1 /\ e.o2[u].ok = 1
         fits == \A u \in U : Fits(MObj(e.o0[u]), e.need[u], e.o0[u].fr)
         counted == {u \in U : e.o0[u].cnt = 1}
         sig == [u \in U |-> <<e.o2[u].cons, e.o2[u].cap, e.o2[u].ecap>>]
         clause == First(<<
            If(~ok, "AccessorStable"),
            If(~wf, "SizeConsCap"),
            If(\E u \in U : e.o1[u].c # e.w[u], "SameAsStdVector"),
            If(fits /\ e.used1 # e.used0, "Convergence"),
            If(\E u \in U : e.o2[u].sz # 0 \/ e.o2[u].c # <<>>, "ClearedEqualsFresh"),
            If(\E u \in U : e.o2[u].cons < e.o1[u].cons \/ ~GE(e.o2[u].ecap, e.o1[u].ecap) \/ (e.rel = 0 /\ e.o2[u].cap < e.o1[u].cap), "ClearKeepsCapacity"),
            If((e.rel = 1) # (e.cyc % e.r = 0), "RecreateCadence"),
            If(e.live1 # Sum([u \in U |-> e.o1[u].cons], counted) \/ e.live2 # Sum([u \in U |-> e.o2[u].cons], counted), "DestroyedExactlyTheConstructed"),
            If(e.rel = 1 /\ lastRec # <<>> /\ lastRec[1] = sig /\ lastRec[2] # e.alloc2, "Convergence") >>)
         \* L2: prediction from the observed pre-state
         P1 == [u \in U |-> FillObj(MObj(e.o0[u]), e.need[u], e.o0[u].fr).o]
         conf1 == \A u \in U : /\ P1[u].sz = e.o1[u].sz /\ P1[u].cons = e.o1[u].cons /\ P1[u].cap = e.o1[u].cap
                                /\ IF e.o0[u].kind = "msg" THEN GE(e.o1[u].ecap, e.need[u]) ELSE GE(e.o1[u].ecap, P1[u].ecap)
         prel == tct + 1 >= e.r
         m2 == [u \in U |-> Update(m0[u], MObj(e.o1[u]))]
         P2 == [u \in U |-> IF prel THEN Recreate(MKind(e.o0[u]), m2[u], e.o0[u].fr) ELSE LogicalClear(MObj(e.o1[u]))]
         conf2 == /\ prel = (e.rel = 1)
                  /\ \A u \in U : P2[u].sz = e.o2[u].sz /\ P2[u].cons = e.o2[u].cons /\ P2[u].cap = e.o2[u].cap /\ GE(e.o2[u].ecap, P2[u].ecap)
     IN /\ tbad' = clause
        /\ verd' = IF clause # "" THEN verd \cup {<<ToString(start), clause, ToString(l), "cycle", ToString(e.cyc)>>} ELSE verd
        /\ drift' = IF clause # "" \/ (conf1 /\ conf2) THEN drift ELSE drift \cup {<<ToString(l), IF conf1 THEN "clear" ELSE "work">>}
        /\ tmeta' = IF e.rel = 1 THEN m2 ELSE m0
        /\ tct' = IF e.rel = 1 THEN 0 ELSE tct + 1
        /\ lastRec' = IF e.rel = 1 THEN <<sig, e.alloc2>> ELSE lastRec
  /\ UNCHANGED <<mvars, start>>
  /\ l' = l + 1

End ==
  /\ l <= Len(Tr) /\ Tr[l].k = "end"
  /\ LET c == IF tbad = "" /\ Tr[l].status # "ok" THEN "NoCrash" ELSE ""
     IN /\ tbad' = IF tbad # "" THEN tbad ELSE c
        /\ verd' = IF c # "" THEN verd \cup {<<ToString(start), c, ToString(l), "end", "0">>} ELSE verd
  /\ UNCHANGED <<mvars, drift, start, tmeta, tct, lastRec>>
  /\ l' = l + 1

Progress == TLCSet(1, IF TLCGet(1) < l' THEN l' ELSE TLCGet(1))
TNext == (Reset \/ Cycle \/ Skip \/ End) /\ Progress /\ (l' > Len(Tr) => (TLCSet(2, drift') /\ TLCSet(3, verd')))
TSpec == TInit /\ [][TNext]_tvars
Post == PrintT(<<"VERIF", TLCGet(1) - 1, Len(Tr), TLCGet(2), TLCGet(3)>>)
=============================================================================
