-------------------------------- MODULE Fut --------------------------------
(***************************************************************************)
(* L2 (implementation-shaped) specification of babylon::FutureContext,     *)
(* Future / Promise and CountDownLatch  (src/babylon/future.hpp, NDEBUG    *)
(* build: the debug-only assert loads are not part of the protocol).       *)
(* ONE ACTION PER ATOMIC OPERATION / FUTEX CALL / CLOCK READ / CALLBACK    *)
(* EDGE; the memory order of every site comes from M(site).                *)
(*                                                                         *)
(*   head    : 0 (empty) | node id (top of the callback list) | SEALED     *)
(*   nx      : node id -> next node id (non-atomic field of a node)        *)
(*   futex   : "somebody waits" flag (bit 0) (+ READY once published)        *)
(*   val     : the non-atomic value cell (constructed / content in H)      *)
(*   count   : CountDownLatch::_count                                      *)
(*   now     : virtual clock (jumps to the deadline of the timer fired)    *)
(*                                                                         *)
(* Memory is the view-based model of WeakMem.tla (Stale = FALSE: plain     *)
(* interleavings, happens-before still tracked for NoDataRace).            *)
(* The L1 clauses of C08 are invariants over H at the end of the module.   *)
(***************************************************************************)
EXTENDS Naturals, Integers, Sequences, FiniteSets, TLC, WeakMem

CONSTANTS Stale,   \* BOOLEAN: loads may read non-latest messages
          Configs  \* set of configurations [mode, count, spur, spw, fx0, prog]
                   \* (spw: how many spurious / EINTR returns of futex_wait are explored per operation;
                   \*  slack: 0 when the clock is exact (model checking), 1 when `now` is the microsecond FLOOR of a
                   \*  nanosecond clock (recorded traces: a spurious return lands at an arbitrary nanosecond))
                   \* (spur: compare_exchange_weak may fail spuriously;  fx0: initial futex word -- regression family for
                   \*  the repaired defect c8a8a14: a waiter COUNTER next to the READY bit carried into it; waiters now
                   \*  set a flag with fetch_or, so a word just below READY stays below READY)

VARIABLES cfg, ms, pc, L, H, nx, now, ev

vars == <<cfg, ms, pc, L, H, nx, now, ev>>

SEALED == -1
READY == 65536            \* READY_MASK (0x80000000 in the code; traces are normalised)
POISON == 99              \* what the value cell holds before construction
HeadLoc == <<"head", 0>>
FutexLoc == <<"futex", 0>>
CountLoc == <<"count", 0>>
ValCell == <<"val", 0>>
NodeCell(id) == <<"node", id>>

IsReady(w) == w >= READY
Or1(w) == IF w % 2 = 0 THEN w + 1 ELSE w      \* w | 1
Max0(x) == IF x > 0 THEN x ELSE 0

Thr == 1..Len(cfg.prog)
Op(t) == cfg.prog[t][L[t].opi]
NodeId(t) == t * 10 + L[t].opi
IsLatch == cfg.mode = "latch"

NoEv == [t |-> 0, k |-> "", site |-> "", mo |-> "", loc |-> "", i |-> 0, v |-> 0, a |-> 0, b |-> 0,
         ok |-> TRUE, op |-> "", n |-> 0, res |-> 0, id |-> 0]
LocName(x) == x[1]
LocIdx(x) == x[2]

L0 == [opi |-> 1, seen |-> 0, head |-> 0, cur |-> 0, until |-> 0, rem |-> 0, dl |-> 0, res |-> 0,
       timed |-> FALSE, wk |-> "", cbid |-> 0, inl |-> FALSE, after |-> FALSE, t0 |-> 0, setter |-> FALSE, sp |-> FALSE, nsp |-> 0]

\* a latch constructed with count 0 is published by its constructor
PreSet(c) == c.mode = "latch" /\ c.count = 0

H0(c) == [constructed |-> PreSet(c), value |-> 0, svCalled |-> PreSet(c), svDone |-> PreSet(c),
          cbs |-> {}, ran |-> {}, bad |-> ""]

MS0(c) == WMInit(1..Len(c.prog),
                 (HeadLoc :> (IF PreSet(c) THEN SEALED ELSE 0)) @@ (FutexLoc :> (IF PreSet(c) THEN READY ELSE c.fx0)) @@ (CountLoc :> c.count))
PC0(c) == [t \in 1..Len(c.prog) |-> "idle"]
LL0(c) == [t \in 1..Len(c.prog) |-> L0]

InitFor(c) ==
  /\ cfg = c
  /\ ms = MS0(c)
  /\ pc = PC0(c)
  /\ L = LL0(c)
  /\ H = H0(c)
  /\ nx = << >>
  /\ now = 0
  /\ ev = NoEv

Init == \E c \in Configs : InitFor(c)

(***************************************************************************)
(* Memory access helpers                                                   *)
(***************************************************************************)
KeepAll == Stale

DoLoad(t, x, site, M(_), K(_)) ==
  \E i \in Readable(ms, t, x, Stale) :
    LET mo == M(site)
        v == ms.mem[x][i].val
    IN /\ ms' = ScAfter(LoadEff(ScBefore(ms, t, mo), t, x, i, mo), t, mo)
       /\ ev' = [NoEv EXCEPT !.t = t, !.k = "load", !.site = site, !.mo = mo, !.loc = LocName(x), !.i = LocIdx(x), !.v = v]
       /\ K(v)

DoRmw(t, x, kind, F(_), a, site, M(_), K(_)) ==
  LET mo == M(site)
      old == LastVal(ms, x)
  IN /\ ms' = ScAfter(RmwEff(ScBefore(ms, t, mo), t, x, F(old), mo, KeepAll), t, mo)
     /\ ev' = [NoEv EXCEPT !.t = t, !.k = kind, !.site = site, !.mo = mo, !.loc = LocName(x), !.i = LocIdx(x), !.v = old, !.a = a]
     /\ K(old)

\* compare_exchange_weak on memory state m; the failure order is the site  <site>_fail
\* (a spurious failure of the weak form is explored at most once per operation: mayspur)
DoCasM(m, t, x, e, d, mayspur, site, M(_), K(_, _)) ==
  LET mo == M(site)
      fsite == site \o "_fail"
      mof == M(fsite)
      old == LastVal(m, x)
  IN \/ /\ old = e
        /\ ms' = ScAfter(RmwEff(ScBefore(m, t, mo), t, x, d, mo, KeepAll), t, mo)
        /\ ev' = [NoEv EXCEPT !.t = t, !.k = "cas", !.site = site, !.mo = mo, !.loc = LocName(x), !.i = LocIdx(x), !.v = old, !.a = e, !.b = d, !.ok = TRUE]
        /\ K(TRUE, old)
     \/ /\ (old # e \/ (cfg.spur /\ mayspur))
        /\ ms' = CasFailEff(m, t, x, mof)
        /\ ev' = [NoEv EXCEPT !.t = t, !.k = "cas", !.site = fsite, !.mo = mof, !.loc = LocName(x), !.i = LocIdx(x), !.v = old, !.a = e, !.b = d, !.ok = FALSE]
        /\ K(FALSE, old)

Goto(t, p) == pc' = [pc EXCEPT ![t] = p]
SetL(t, l) == L' = [L EXCEPT ![t] = l]
Flag(b, name) == IF b /\ H.bad = "" THEN name ELSE H.bad

(***************************************************************************)
(* Call / return of the public operations (L1 observation points)          *)
(***************************************************************************)
FirstPc(o) ==
  CASE o.op = "sv" -> "sv_rload"
    [] o.op = "cd" -> "cd_fsub"
    [] o.op = "get" -> "g_load"
    [] o.op = "wf" -> "wf_load"
    [] o.op \in {"of", "th"} -> "of_load"
    [] o.op = "rd" -> "rd_load"
    [] o.op = "sl" -> "sl_sleep"

Call(t) ==
  /\ pc[t] = "idle"
  /\ L[t].opi <= Len(cfg.prog[t])
  /\ LET o == Op(t)
     IN /\ Goto(t, FirstPc(o))
        /\ SetL(t, [L[t] EXCEPT !.after = H.svDone /\ ~Stale, !.t0 = now, !.res = 0, !.timed = (o.op = "wf"),
                                !.wk = IF o.op = "wf" THEN "wf" ELSE "get", !.inl = FALSE, !.setter = FALSE, !.sp = FALSE, !.nsp = 0])
        /\ H' = [H EXCEPT !.svCalled = @ \/ o.op = "sv",
                          !.cbs = IF o.op \in {"of", "th"} THEN @ \cup {NodeId(t)} ELSE @]
        /\ ev' = [NoEv EXCEPT !.t = t, !.k = "call", !.op = o.op, !.n = o.n, !.id = NodeId(t)]
        /\ UNCHANGED <<cfg, ms, nx, now>>

Ret(t) ==
  /\ pc[t] = "ret"
  /\ LET o == Op(t)
         l == L[t]
         b == CASE o.op = "wf" /\ l.res = 1 /\ ~H.constructed -> "WaitForTrue"
                [] o.op = "wf" /\ l.res = 0 /\ l.after -> "AfterSet"
                [] o.op = "wf" /\ l.res = 0 /\ now - l.t0 < Max0(o.n) -> "WaitForFalse"
                [] o.op = "rd" /\ l.res = 1 /\ ~H.constructed -> "ReadyOnlyIfSet"
                [] o.op = "rd" /\ l.res = 0 /\ l.after -> "AfterSet"
                [] o.op \in {"of", "th"} /\ l.after /\ NodeId(t) \notin H.ran -> "CallbackExactlyOnce"
                [] OTHER -> ""
     IN /\ H' = [H EXCEPT !.bad = Flag(b # "", b), !.svDone = @ \/ l.setter]
        /\ ev' = [NoEv EXCEPT !.t = t, !.k = "ret", !.op = o.op, !.n = o.n, !.res = l.res, !.id = NodeId(t)]
  /\ Goto(t, "idle")
  /\ SetL(t, [L[t] EXCEPT !.opi = @ + 1])
  /\ UNCHANGED <<cfg, ms, nx, now>>

(***************************************************************************)
(* Callback edges.  A callback run from the detached list (by the thread    *)
(* that sealed) first reads the node (function, next); every callback reads *)
(* the value cell.                                                          *)
(***************************************************************************)
Observed == IF H.constructed THEN H.value ELSE POISON

CbBegin(t) ==
  /\ pc[t] = "cbb"
  /\ LET id == L[t].cbid
         m1 == IF L[t].inl THEN ms ELSE NaReadEff(ms, t, NodeCell(id))
     IN /\ ms' = NaReadEff(m1, t, ValCell)
        /\ H' = [H EXCEPT !.ran = @ \cup {id},
                          !.bad = IF id \in H.ran THEN Flag(TRUE, "CallbackExactlyOnce")
                                  ELSE Flag(~H.constructed, "CallbackAfterValue")]
        /\ ev' = [NoEv EXCEPT !.t = t, !.k = "cbb", !.id = id, !.v = Observed]
  /\ Goto(t, "cbe")
  /\ UNCHANGED <<cfg, L, nx, now>>

CbEnd(t) ==
  /\ pc[t] = "cbe"
  /\ LET id == L[t].cbid
         next == IF L[t].inl THEN 0 ELSE nx[id]
     IN /\ ev' = [NoEv EXCEPT !.t = t, !.k = "cbe", !.id = id]
        /\ IF next = 0 THEN Goto(t, "ret") /\ UNCHANGED L
           ELSE Goto(t, "cbb") /\ SetL(t, [L[t] EXCEPT !.cbid = next])
  /\ UNCHANGED <<cfg, ms, H, nx, now>>

(***************************************************************************)
(* Promise::set_value -> FutureContext::set_value                          *)
(***************************************************************************)
SvRLoad(t, M(_)) ==
  /\ pc[t] = "sv_rload"
  /\ DoLoad(t, HeadLoc, "promise_ready_load", M,
            LAMBDA v : UNCHANGED L /\ Goto(t, IF v = SEALED THEN "ret" ELSE "sv_cons"))
  /\ UNCHANGED <<cfg, H, nx, now>>

SetVal(t) == IF Op(t).op = "sv" THEN Op(t).n ELSE 0

\* new (pointer()) ValueType(args...)
SvCons(t) ==
  /\ pc[t] = "sv_cons"
  /\ ms' = NaWriteEff(ms, t, ValCell, Thr)
  /\ H' = [H EXCEPT !.constructed = TRUE, !.value = SetVal(t), !.svCalled = TRUE,
                    !.bad = Flag(H.constructed, "SetOnce")]
  /\ ev' = [NoEv EXCEPT !.t = t, !.k = "vw", !.v = SetVal(t)]
  /\ SetL(t, [L[t] EXCEPT !.setter = TRUE])
  /\ Goto(t, "sv_seal")
  /\ UNCHANGED <<cfg, nx, now>>

AfterPub(cur) == IF cur = 0 THEN "ret" ELSE "cbb"

\* seal(): _head.exchange(SEALED)
SvSeal(t, M(_)) ==
  /\ pc[t] = "sv_seal"
  /\ DoRmw(t, HeadLoc, "xchg", LAMBDA o : SEALED, SEALED, "seal_xchg", M,
           LAMBDA old : SetL(t, [L[t] EXCEPT !.cur = old, !.cbid = old, !.inl = FALSE]) /\ Goto(t, "sv_fx"))
  /\ UNCHANGED <<cfg, H, nx, now>>

\* _futex.value().exchange(READY_MASK)
SvFx(t, M(_)) ==
  /\ pc[t] = "sv_fx"
  /\ DoRmw(t, FutexLoc, "xchg", LAMBDA o : READY, READY, "ready_xchg", M,
           LAMBDA old : UNCHANGED L /\ Goto(t, IF old > 0 THEN "sv_wake" ELSE AfterPub(L[t].cur)))
  /\ UNCHANGED <<cfg, H, nx, now>>

NumBlocked == Cardinality({u \in DOMAIN pc : pc[u] = "w_blocked"})

SvWake(t) ==
  /\ pc[t] = "sv_wake"
  /\ ev' = [NoEv EXCEPT !.t = t, !.k = "fwake", !.loc = "futex", !.v = NumBlocked]
  /\ pc' = [u \in DOMAIN pc |-> IF u = t THEN AfterPub(L[t].cur) ELSE IF pc[u] = "w_blocked" THEN "w_woken" ELSE pc[u]]
  /\ UNCHANGED <<cfg, ms, L, H, nx, now>>

(***************************************************************************)
(* FutureContext::on_finish (Future::on_finish / then / Promise::on_finish) *)
(***************************************************************************)
OfLoad(t, M(_)) ==
  /\ pc[t] = "of_load"
  /\ DoLoad(t, HeadLoc, "of_head_load", M,
            LAMBDA v : IF v = SEALED
                       THEN SetL(t, [L[t] EXCEPT !.cbid = NodeId(t), !.inl = TRUE]) /\ Goto(t, "cbb")
                       ELSE SetL(t, [L[t] EXCEPT !.head = v]) /\ Goto(t, "of_cas"))
  /\ UNCHANGED <<cfg, H, nx, now>>

\* node->next = head; _head.compare_exchange_weak(head, node); on failure re-check SEALED
OfCas(t, M(_)) ==
  /\ pc[t] = "of_cas"
  /\ LET id == NodeId(t)
         m1 == NaWriteEff(ms, t, NodeCell(id), Thr)
     IN /\ nx' = (id :> L[t].head) @@ nx
        /\ DoCasM(m1, t, HeadLoc, L[t].head, id, ~L[t].sp, "of_head_cas", M,
                  LAMBDA ok, old :
                    IF ok THEN UNCHANGED L /\ Goto(t, "ret")
                    ELSE IF old = SEALED THEN SetL(t, [L[t] EXCEPT !.cbid = id, !.inl = TRUE, !.head = old]) /\ Goto(t, "cbb")
                    ELSE SetL(t, [L[t] EXCEPT !.head = old, !.sp = @ \/ (old = L[t].head)]) /\ UNCHANGED pc)
  /\ UNCHANGED <<cfg, H, now>>

(***************************************************************************)
(* get() / wait_for(): fast path, wait_slow / wait_for_slow                *)
(***************************************************************************)
GLoad(t, M(_)) ==
  /\ pc[t] = "g_load"
  /\ DoLoad(t, FutexLoc, "get_futex_load", M,
            LAMBDA v : UNCHANGED L /\ Goto(t, IF IsReady(v) THEN "g_read" ELSE "w_reg"))
  /\ UNCHANGED <<cfg, H, nx, now>>

WfLoad(t, M(_)) ==
  /\ pc[t] = "wf_load"
  /\ DoLoad(t, FutexLoc, "wf_futex_load", M,
            LAMBDA v : IF IsReady(v) THEN SetL(t, [L[t] EXCEPT !.res = 1]) /\ Goto(t, "ret")
                       ELSE UNCHANGED L /\ Goto(t, "wf_clk0"))
  /\ UNCHANGED <<cfg, H, nx, now>>

\* clock_gettime: until = now + max(0, timeout)
WfClk0(t) ==
  /\ pc[t] = "wf_clk0"
  /\ ev' = [NoEv EXCEPT !.t = t, !.k = "clock", !.v = now]
  /\ SetL(t, [L[t] EXCEPT !.until = now + Max0(Op(t).n), !.rem = Max0(Op(t).n)])
  /\ Goto(t, "w_reg")
  /\ UNCHANGED <<cfg, ms, H, nx, now>>

\* register as waiter:  value = _futex.fetch_or(1) | 1
WReg(t, M(_)) ==
  /\ pc[t] = "w_reg"
  /\ DoRmw(t, FutexLoc, "for", LAMBDA o : Or1(o), 1, L[t].wk \o "_waiter_for", M,
           LAMBDA old : IF IsReady(Or1(old))
                        THEN IF L[t].timed THEN SetL(t, [L[t] EXCEPT !.seen = Or1(old), !.res = 1]) /\ Goto(t, "ret")
                             ELSE SetL(t, [L[t] EXCEPT !.seen = Or1(old)]) /\ Goto(t, "g_read")
                        ELSE SetL(t, [L[t] EXCEPT !.seen = Or1(old)]) /\ Goto(t, "w_fwait"))
  /\ UNCHANGED <<cfg, H, nx, now>>

\* futex_wait(value, timeout): the kernel compares the word with the expected value atomically
WFutexWait(t) ==
  /\ pc[t] = "w_fwait"
  /\ LET cur == LastVal(ms, FutexLoc)
     IN IF cur = L[t].seen
        THEN /\ Goto(t, "w_blocked")
             /\ SetL(t, [L[t] EXCEPT !.dl = now + L[t].rem])
             /\ ev' = [NoEv EXCEPT !.t = t, !.k = "fwait", !.loc = "futex", !.a = L[t].seen, !.v = cur, !.ok = TRUE]
        ELSE /\ Goto(t, "w_reload")
             /\ UNCHANGED L
             /\ ev' = [NoEv EXCEPT !.t = t, !.k = "fwait", !.loc = "futex", !.a = L[t].seen, !.v = cur, !.ok = FALSE]
  /\ UNCHANGED <<cfg, ms, H, nx, now>>

WFutexRet(t) ==
  /\ pc[t] = "w_woken"
  /\ ev' = [NoEv EXCEPT !.t = t, !.k = "fret", !.loc = "futex", !.ok = TRUE]
  /\ Goto(t, "w_reload")
  /\ UNCHANGED <<cfg, ms, L, H, nx, now>>

\* futex_wait may return without a wake (spuriously with 0, or -1/EINTR on a signal), for a timed wait some time n - now
\* into the wait: a legal action of the environment -- the code must re-check the word and, in wait_for, re-compute
\* the remaining time from the clock
Spur(t, n) ==
  /\ pc[t] = "w_blocked"
  /\ L[t].nsp < cfg.spw
  /\ n >= now /\ (n > now => L[t].timed /\ n < L[t].dl + cfg.slack)
  /\ now' = n
  /\ ev' = [NoEv EXCEPT !.t = t, !.k = "spur", !.v = n]
  /\ SetL(t, [L[t] EXCEPT !.nsp = @ + 1])
  /\ Goto(t, "w_woken")
  /\ UNCHANGED <<cfg, ms, H, nx>>

WTimeout(t) ==
  /\ pc[t] = "w_timedout"
  /\ ev' = [NoEv EXCEPT !.t = t, !.k = "fret", !.loc = "futex", !.ok = FALSE]
  /\ Goto(t, "w_reload")
  /\ UNCHANGED <<cfg, ms, L, H, nx, now>>

WReload(t, M(_)) ==
  /\ pc[t] = "w_reload"
  /\ DoLoad(t, FutexLoc, L[t].wk \o "_reload", M,
            LAMBDA v : /\ SetL(t, [L[t] EXCEPT !.seen = v])
                       /\ Goto(t, IF L[t].timed THEN "w_clk1" ELSE IF IsReady(v) THEN "g_read" ELSE "w_fwait"))
  /\ UNCHANGED <<cfg, H, nx, now>>

\* wait_for_slow re-reads the clock after every wait: give up when the time is over (even if READY)
\* (rem = 0 on a floored clock: the sub-microsecond parts decide, both outcomes are possible)
WClk1(t) ==
  /\ pc[t] = "w_clk1"
  /\ ev' = [NoEv EXCEPT !.t = t, !.k = "clock", !.v = now]
  /\ LET rem == L[t].until - now
     IN \/ /\ rem <= 0
           /\ SetL(t, [L[t] EXCEPT !.rem = rem, !.res = 0]) /\ Goto(t, "ret")
        \/ /\ (rem > 0 \/ (rem = 0 /\ cfg.slack > 0))
           /\ IF IsReady(L[t].seen) THEN SetL(t, [L[t] EXCEPT !.rem = rem, !.res = 1]) /\ Goto(t, "ret")
              ELSE SetL(t, [L[t] EXCEPT !.rem = rem]) /\ Goto(t, "w_fwait")
  /\ UNCHANGED <<cfg, ms, H, nx, now>>

\* the client reads the value get() returned a reference to
GRead(t) ==
  /\ pc[t] = "g_read"
  /\ ms' = NaReadEff(ms, t, ValCell)
  /\ H' = [H EXCEPT !.bad = Flag(~H.constructed, "GetReturnsValue")]
  /\ ev' = [NoEv EXCEPT !.t = t, !.k = "vr", !.v = Observed]
  /\ SetL(t, [L[t] EXCEPT !.res = 1])
  /\ Goto(t, "ret")
  /\ UNCHANGED <<cfg, nx, now>>

\* a timer fires: virtual time jumps to n >= deadline; timed futex waiter / sleeper becomes runnable
Fire(t, n) ==
  /\ \/ pc[t] = "w_blocked" /\ L[t].timed
     \/ pc[t] = "sl_blocked"
  /\ n + cfg.slack >= L[t].dl /\ n >= now
  /\ now' = n
  /\ ev' = [NoEv EXCEPT !.t = t, !.k = "tick", !.v = n]
  /\ Goto(t, IF pc[t] = "w_blocked" THEN "w_timedout" ELSE "ret")
  /\ UNCHANGED <<cfg, ms, L, H, nx>>

(***************************************************************************)
(* ready(), CountDownLatch::count_down, usleep                             *)
(***************************************************************************)
RdLoad(t, M(_)) ==
  /\ pc[t] = "rd_load"
  /\ DoLoad(t, HeadLoc, "ready_head_load", M,
            LAMBDA v : SetL(t, [L[t] EXCEPT !.res = IF v = SEALED THEN 1 ELSE 0]) /\ Goto(t, "ret"))
  /\ UNCHANGED <<cfg, H, nx, now>>

CdFsub(t, M(_)) ==
  /\ pc[t] = "cd_fsub"
  /\ DoRmw(t, CountLoc, "faa", LAMBDA o : o - Op(t).n, 0 - Op(t).n, "count_fsub", M,
           LAMBDA old : UNCHANGED L /\ Goto(t, IF old - Op(t).n = 0 THEN "sv_rload" ELSE "ret"))
  /\ UNCHANGED <<cfg, H, nx, now>>

SlSleep(t) ==
  /\ pc[t] = "sl_sleep"
  /\ ev' = [NoEv EXCEPT !.t = t, !.k = "sleep", !.n = Op(t).n]
  /\ IF Op(t).n <= 0 THEN Goto(t, "ret") /\ UNCHANGED L
     ELSE Goto(t, "sl_blocked") /\ SetL(t, [L[t] EXCEPT !.dl = now + Op(t).n])
  /\ UNCHANGED <<cfg, ms, H, nx, now>>

(***************************************************************************)
Step(t, M(_)) ==
  \/ (Call(t) \/ Ret(t) \/ CbBegin(t) \/ CbEnd(t))
  \/ SvRLoad(t, M) \/ SvSeal(t, M) \/ SvFx(t, M) \/ OfLoad(t, M) \/ OfCas(t, M) \/ GLoad(t, M) \/ WfLoad(t, M) \/ WReg(t, M)
  \/ WReload(t, M) \/ RdLoad(t, M) \/ CdFsub(t, M)
  \/ SvCons(t) \/ SvWake(t) \/ WfClk0(t) \/ WFutexWait(t) \/ WFutexRet(t) \/ WTimeout(t) \/ WClk1(t) \/ GRead(t) \/ SlSleep(t)

FireMC(t) == Fire(t, IF L[t].dl > now THEN L[t].dl ELSE now)
SpurMC(t) == Spur(t, now) \/ (L[t].dl > now + 1 /\ Spur(t, L[t].dl - 1))

Finished(t) == pc[t] = "idle" /\ L[t].opi > Len(cfg.prog[t])
AllDone == \A t \in Thr : Finished(t)

(***************************************************************************)
(* L1 clauses of C08 over the history                                      *)
(***************************************************************************)
Sealed == LastVal(ms, HeadLoc) = SEALED
\* every callback at most once at any time; exactly once when everything has finished after a set_value
CallbackExactlyOnce ==
  /\ H.bad # "CallbackExactlyOnce"
  /\ (AllDone /\ H.svDone => H.ran = H.cbs)
  /\ (~H.svCalled => H.ran = {})
\* never before the value is set, and it observes the value
CallbackAfterValue == H.bad # "CallbackAfterValue"
\* every access to the value cell / callback node is ordered by happens-before
NoDataRace == ~ms.race
GetReturnsValue == H.bad # "GetReturnsValue"
WaitForTrue == H.bad # "WaitForTrue"
WaitForFalse == H.bad # "WaitForFalse"
\* operations invoked after set_value returned see it (real-time clause: Stale = FALSE only)
AfterSet == H.bad # "AfterSet"
ReadyOnlyIfSet == H.bad # "ReadyOnlyIfSet"
SetOnce == H.bad # "SetOnce"
\* no sleeper is left behind once set_value has returned
NoLostWakeup == H.svDone => \A t \in Thr : pc[t] # "w_blocked"
\* the latch is ready exactly when its count reached zero
LatchReadyIffZero ==
  IsLatch => /\ (Sealed \/ H.constructed) => LastVal(ms, CountLoc) = 0
             /\ (AllDone /\ LastVal(ms, CountLoc) = 0) => Sealed /\ IsReady(LastVal(ms, FutexLoc))
\* published state is consistent
PublishedConsistent == IsReady(LastVal(ms, FutexLoc)) => Sealed /\ H.constructed

=============================================================================
