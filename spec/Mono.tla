------------------------------- MODULE Mono -------------------------------
(***************************************************************************)
(* babylon::ExclusiveMonotonicBufferResource (memory_resource.h/.cpp) as a *)
(* sequential state machine over an integer address space (property C06).  *)
(*                                                                         *)
(* Address space (the same one the driver logs, harness/drivers/mono_driver)*)
(*   0                      nullptr                                        *)
(*   k * P                  page with ordinal k.  The (recording) page     *)
(*                          allocator hands out the lowest free ODD ordinal*)
(*                          so pages are never adjacent and are aligned to *)
(*                          exactly P (not 2P)                             *)
(*   [UB, 2UB) / [2UB, 3UB) the upstream resources "rec" (the one given to *)
(*                          set_upstream) and "dflt" (new_delete_resource):*)
(*                          bump allocation, every block aligned to exactly*)
(*                          the requested alignment, 8 byte gap            *)
(*                                                                         *)
(* The bookkeeping of the resource is intrusive: PageArray (128 bytes),    *)
(* OversizePageArray (368) and DestroyTaskArray (248), 15 entries each,    *)
(* filled from the last entry downwards, live inside the managed memory.   *)
(* Every action follows the case split of the C++ code; the L1 clauses of  *)
(* the property are the invariants at the end of the module.               *)
(***************************************************************************)
EXTENDS Integers, Sequences, FiniteSets, TLC

PA  == 128           \* sizeof(PageArray)         = 8 + 15 * 8
OA  == 368           \* sizeof(OversizePageArray) = 8 + 15 * 24
DA  == 248           \* sizeof(DestroyTaskArray)  = 8 + 15 * 16
CAP == 15            \* PAGE_ARRAY_CAPACITY = DESTROY_TASK_ARRAY_CAPACITY
UB  == 4194304       \* first address of upstream "rec"

VARIABLES
  P,       \* page size of the page allocator (power of two, >= 128; fixed by Init, a variable only so that one
           \* trace validation run can hold executions with different page sizes)
  pas,     \* page arrays, oldest first:        [at, ents : Seq(page address)]   (insertion order)
  oas,     \* oversize page arrays, oldest first:[at, ents : Seq([a, n, al, src])]
  das,     \* destroy task arrays, oldest first: [at, ents : Seq([id, fn])]
  fb, fe,  \* _free_begin, _free_end
  used,    \* _space_used
  alloc,   \* _space_allocated
  up,      \* the upstream the resource object points to: "rec" | "dflt"
  nd,      \* destructors registered since the last release (ids 1..nd)
  blocks,  \* live blocks returned by allocate: set of [a, n]
  intact,  \* canary model: no write of the resource has touched a live block
  dj,      \* every block was disjoint from all live blocks when it was handed out
  ins,     \* every block was inside owned memory when it was handed out (memory is only given back by release)
  pages,   \* page allocator side: addresses of the pages handed out
  ulive,   \* upstream side: blocks handed out [a, n, al, src]
  ucur,    \* upstream side: bump cursors [rec |-> .., dflt |-> ..]
  ev       \* the last operation with everything it did to the outside world

vars == <<P, pas, oas, das, fb, fe, used, alloc, up, nd, blocks, intact, dj, ins, pages, ulive, ucur, ev>>

-----------------------------------------------------------------------------
RoundUp(x, a) == ((x + a - 1) \div a) * a
Max(a, b) == IF a > b THEN a ELSE b
Last(s) == s[Len(s)]
Reverse(s) == [i \in 1..Len(s) |-> s[Len(s) + 1 - i]]
SetLast(s, x) == [s EXCEPT ![Len(s)] = x]
Range(s) == {s[i] : i \in 1..Len(s)}
RECURSIVE Flatten(_)
Flatten(ss) == IF ss = <<>> THEN <<>> ELSE Head(ss) \o Flatten(Tail(ss))

UBase(u) == IF u = "rec" THEN UB ELSE 2 * UB
UCur0 == [rec |-> UB, dflt |-> 2 * UB]

\* the lowest free odd ordinal
FreshPage(S) ==
  LET n == Cardinality(S)
      k == CHOOSE k \in 1..(n + 1) : (2 * k - 1) * P \notin S /\ \A j \in 1..(k - 1) : (2 * j - 1) * P \in S
  IN (2 * k - 1) * P

\* upstream: aligned to exactly al
UAddr(cur, al) == LET a0 == RoundUp(cur, al) IN IF a0 % (2 * al) = 0 THEN a0 + al ELSE a0

NoEv == [op |-> "init", n |-> 0, al |-> 0, id |-> 0, fn |-> 0, p |-> 0, res |-> 0, bres |-> FALSE,
         pal |-> <<>>, pfr |-> <<>>, ual |-> <<>>, ufr |-> <<>>, dts |-> <<>>,
         prepages |-> {}, preulive |-> {}, prend |-> 0]

\* the state as one record, so that the allocation path can be composed (register_destructor allocates,
\* AllocateMany repeats)
Cur == [pas |-> pas, oas |-> oas, das |-> das, fb |-> fb, fe |-> fe, used |-> used, alloc |-> alloc, up |-> up,
        pages |-> pages, ulive |-> ulive, ucur |-> ucur,
        res |-> 0, pal |-> <<>>, ual |-> <<>>, wr |-> {}]

\* offsets of the k-th inserted entry (k = 1..15): arrays are filled from index 14 downwards
PaEnt(at, k) == [a |-> at + 8 + 8 * (CAP - k), n |-> 8]
OaEnt(at, k) == [a |-> at + 8 + 24 * (CAP - k), n |-> 24]
DaEnt(at, k) == [a |-> at + 8 + 16 * (CAP - k), n |-> 16]
Hdr(at) == [a |-> at, n |-> 8]

-----------------------------------------------------------------------------
(* do_allocate_with_page_in_new_page_array: the three placements of a new PageArray *)
InNewPageArray(s, b, pg) ==
  LET f2 == RoundUp(s.fb, 8)                       \* do_align<alignof(PageArray)>()
  IN IF f2 + PA <= s.fe
     THEN \* (A) tail of the old page
          [s EXCEPT !.pas = Append(@, [at |-> f2, ents |-> <<pg>>]),
                    !.fb = pg + b, !.fe = pg + P,
                    !.wr = @ \cup {Hdr(f2), PaEnt(f2, 1)}]
     ELSE IF b + PA <= P
     THEN \* (B) inside the new page, behind the block
          LET b8 == RoundUp(b, 8)
          IN [s EXCEPT !.pas = Append(@, [at |-> pg + b8, ents |-> <<pg>>]),
                       !.fb = pg + b8 + PA, !.fe = pg + P,
                       !.wr = @ \cup {Hdr(pg + b8), PaEnt(pg + b8, 1)}]
     ELSE \* (C) an additional page holds the array (and is the new current page)
          LET ad == FreshPage(s.pages)
          IN [s EXCEPT !.pages = @ \cup {ad}, !.alloc = @ + P, !.pal = Append(@, ad),
                       !.pas = Append(@, [at |-> ad, ents |-> <<pg, ad>>]),
                       !.fb = ad + PA, !.fe = ad + P,
                       !.wr = @ \cup {Hdr(ad), PaEnt(ad, 1), PaEnt(ad, 2)}]

(* do_allocate_in_new_page, branch bytes <= page_size && alignment <= page_size *)
InNewPage(s, b) ==
  LET pg == FreshPage(s.pages)
      s1 == [s EXCEPT !.pages = @ \cup {pg}, !.alloc = @ + P, !.pal = Append(@, pg), !.res = pg]
  IN IF Len(s.pas) > 0 /\ Len(Last(s.pas).ents) < CAP
     THEN LET arr == Last(s.pas)
              k == Len(arr.ents) + 1
          IN [s1 EXCEPT !.pas = SetLast(@, [arr EXCEPT !.ents = Append(@, pg)]),
                        !.fb = pg + b, !.fe = pg + P,
                        !.wr = @ \cup {PaEnt(arr.at, k)}]
     ELSE InNewPageArray(s1, b, pg)

(* do_allocate_in_oversize_page *)
InOversize(s, b, al) ==
  IF Len(s.oas) > 0 /\ Len(Last(s.oas).ents) < CAP
  THEN LET a == UAddr(s.ucur[s.up], al)
           e == [a |-> a, n |-> b, al |-> al, src |-> s.up]
           arr == Last(s.oas)
           k == Len(arr.ents) + 1
       IN [s EXCEPT !.ulive = @ \cup {e}, !.ucur[s.up] = a + b + 8, !.ual = Append(@, e),
                    !.alloc = @ + b,
                    !.oas = SetLast(@, [arr EXCEPT !.ents = Append(@, e)]),
                    !.res = a, !.wr = @ \cup {OaEnt(arr.at, k)}]
  ELSE LET al2 == Max(al, 8)
           b2 == RoundUp(b, al2)
           a == UAddr(s.ucur[s.up], al2)
           e == [a |-> a, n |-> b2 + OA, al |-> al2, src |-> s.up]
       IN [s EXCEPT !.ulive = @ \cup {e}, !.ucur[s.up] = a + b2 + OA + 8, !.ual = Append(@, e),
                    !.alloc = @ + b2 + OA,
                    !.oas = Append(@, [at |-> a + b2, ents |-> <<e>>]),
                    !.res = a, !.wr = @ \cup {Hdr(a + b2), OaEnt(a + b2, 1)}]

(* allocate(bytes, alignment) = do_align + do_allocate_already_aligned *)
DoAlloc(s0, b, al) ==
  LET f1 == RoundUp(s0.fb, al)
      s == [s0 EXCEPT !.fb = f1, !.used = @ + b]
  IN IF f1 + b <= s.fe
     THEN [s EXCEPT !.fb = f1 + b, !.res = f1]
     ELSE IF b <= P /\ al <= P THEN InNewPage(s, b) ELSE InOversize(s, b, al)

Overlap(x, y) == x.n > 0 /\ y.n > 0 /\ x.a < y.a + y.n /\ y.a < x.a + x.n
Untouched(wr, bl) == \A w \in wr, b \in bl : ~Overlap(w, b)
InsideOf(x, pgs, ups, psz) ==
  \/ x.n = 0
  \/ \E pg \in pgs : pg <= x.a /\ x.a + x.n <= pg + psz
  \/ \E u \in ups : u.a <= x.a /\ x.a + x.n <= u.a + u.n

Install(s) ==
  /\ pas' = s.pas /\ oas' = s.oas /\ das' = s.das /\ fb' = s.fb /\ fe' = s.fe
  /\ used' = s.used /\ alloc' = s.alloc /\ up' = s.up
  /\ pages' = s.pages /\ ulive' = s.ulive /\ ucur' = s.ucur

-----------------------------------------------------------------------------
Init(pagesize) ==
  /\ P = pagesize
  /\ pas = <<>> /\ oas = <<>> /\ das = <<>>
  /\ fb = 0 /\ fe = 0 /\ used = 0 /\ alloc = 0 /\ up = "rec" /\ nd = 0
  /\ blocks = {} /\ intact = TRUE /\ dj = TRUE /\ ins = TRUE
  /\ pages = {} /\ ulive = {} /\ ucur = UCur0
  /\ ev = NoEv

Allocate(b, al) ==
  LET s == DoAlloc(Cur, b, al)
      nb == [a |-> s.res, n |-> b]
  IN /\ Install(s)
     /\ blocks' = blocks \cup {nb}
     /\ intact' = (intact /\ Untouched(s.wr, blocks))
     /\ dj' = (dj /\ \A y \in blocks : ~Overlap(nb, y))
     /\ ins' = (ins /\ InsideOf(nb, s.pages, s.ulive, P))
     /\ ev' = [NoEv EXCEPT !.op = "alloc", !.n = b, !.al = al, !.res = s.res, !.pal = s.pal, !.ual = s.ual]
     /\ UNCHANGED <<nd, P>>

\* macro action for model checking: cnt allocations in one step (crosses the 15 entry boundaries)
RECURSIVE Many(_, _, _, _)
Many(s, cnt, b, al) ==
  IF cnt = 0 THEN s
  ELSE LET s1 == DoAlloc([s EXCEPT !.wr = {}], b, al)
           nb == [a |-> s1.res, n |-> b]
       IN Many([s1 EXCEPT !.bl = @ \cup {nb},
                          !.ok = @ /\ Untouched(s1.wr, s.bl),
                          !.dj = @ /\ \A y \in s.bl : ~Overlap(nb, y),
                          !.ins = @ /\ InsideOf(nb, s1.pages, s1.ulive, P)], cnt - 1, b, al)
AllocateMany(cnt, b, al) ==
  LET s == Many(Cur @@ [bl |-> blocks, ok |-> intact, dj |-> dj, ins |-> ins], cnt, b, al)
  IN /\ Install(s)
     /\ blocks' = s.bl
     /\ intact' = s.ok /\ dj' = s.dj /\ ins' = s.ins
     /\ ev' = [NoEv EXCEPT !.op = "am", !.n = b, !.al = al, !.id = cnt, !.res = s.res, !.pal = s.pal, !.ual = s.ual]
     /\ UNCHANGED <<nd, P>>

(* register_destructor -> get_destroy_task [-> do_get_destroy_task_in_new_array -> allocate<8>(248)] *)
RegisterDestructor ==
  LET id == nd + 1
      t == [id |-> id, fn |-> id % 2]
  IN /\ nd' = id
     /\ IF Len(das) > 0 /\ Len(Last(das).ents) < CAP
        THEN LET arr == Last(das)
                 k == Len(arr.ents) + 1
             IN /\ das' = SetLast(das, [arr EXCEPT !.ents = Append(@, t)])
                /\ intact' = (intact /\ Untouched({DaEnt(arr.at, k)}, blocks))
                /\ ev' = [NoEv EXCEPT !.op = "rd", !.id = id, !.fn = t.fn]
                /\ UNCHANGED <<pas, oas, fb, fe, used, alloc, up, pages, ulive, ucur>>
        ELSE LET s == DoAlloc(Cur, DA, 8)
                 s2 == [s EXCEPT !.das = Append(@, [at |-> s.res, ents |-> <<t>>])]
             IN /\ Install(s2)
                /\ intact' = (intact /\ Untouched(s.wr \cup {Hdr(s.res), DaEnt(s.res, 1)}, blocks))
                /\ ev' = [NoEv EXCEPT !.op = "rd", !.id = id, !.fn = t.fn, !.pal = s.pal, !.ual = s.ual]
     /\ UNCHANGED <<blocks, dj, ins, P>>

RegisterMany(cnt) ==
  /\ cnt \in 1..CAP /\ Len(das) > 0 /\ Len(Last(das).ents) + cnt <= CAP
  /\ LET arr == Last(das)
         k0 == Len(arr.ents)
         ts == [i \in 1..cnt |-> [id |-> nd + i, fn |-> (nd + i) % 2]]
     IN /\ das' = SetLast(das, [arr EXCEPT !.ents = @ \o ts])
        /\ intact' = (intact /\ Untouched({DaEnt(arr.at, k0 + i) : i \in 1..cnt}, blocks))
        /\ nd' = nd + cnt
        /\ ev' = [NoEv EXCEPT !.op = "dm", !.id = cnt]
  /\ UNCHANGED <<P, pas, oas, fb, fe, used, alloc, up, pages, ulive, ucur, blocks, dj, ins>>

(* contains(ptr), computed as the code does: the newest page counts up to its used part
   page_size - (free_end - free_begin), every other page entirely, oversize blocks with their size *)
PageEntsNewestFirst == Flatten([i \in 1..Len(pas) |-> Reverse(pas[Len(pas) + 1 - i].ents)])
OverEntsNewestFirst == Flatten([i \in 1..Len(oas) |-> Reverse(oas[Len(oas) + 1 - i].ents)])
DtorsNewestFirst == Flatten([i \in 1..Len(das) |-> Reverse(das[Len(das) + 1 - i].ents)])

ContainsRes(p) ==
  LET pe == PageEntsNewestFirst
      oe == OverEntsNewestFirst
  IN \/ \E i \in 1..Len(pe) : p >= pe[i] /\ p < pe[i] + (IF i = 1 THEN P - (fe - fb) ELSE P)
     \/ \E i \in 1..Len(oe) : p >= oe[i].a /\ p < oe[i].a + oe[i].n

Contains(p) ==
  /\ ev' = [NoEv EXCEPT !.op = "contains", !.p = p, !.bres = ContainsRes(p)]
  /\ UNCHANGED <<P, pas, oas, das, fb, fe, used, alloc, up, nd, blocks, intact, dj, ins, pages, ulive, ucur>>

(* release(): destruct_all (newest array first, newest task first), then every page array's pages in one
   deallocate batch (newest array first), then every oversize block to the CURRENT upstream *)
Release(opname) ==
  LET dts == DtorsNewestFirst
      pfr == [i \in 1..Len(pas) |-> Reverse(pas[Len(pas) + 1 - i].ents)]
      ufr == [i \in 1..Len(OverEntsNewestFirst) |->
                LET e == OverEntsNewestFirst[i] IN [a |-> e.a, n |-> e.n, al |-> e.al, src |-> e.src, to |-> up]]
      back == {e \in ulive : \E i \in 1..Len(ufr) : ufr[i].a = e.a /\ ufr[i].n = e.n /\ ufr[i].al = e.al /\ ufr[i].to = e.src}
      ul2 == ulive \ back
  IN /\ pas' = <<>> /\ oas' = <<>> /\ das' = <<>>
     /\ fb' = (IF pas = <<>> THEN fb ELSE 0) /\ fe' = (IF pas = <<>> THEN fe ELSE 0)
     /\ used' = 0 /\ alloc' = 0 /\ nd' = 0
     /\ blocks' = {} /\ intact' = TRUE /\ dj' = TRUE /\ ins' = TRUE
     /\ pages' = pages \ Range(Flatten(pfr))
     /\ ulive' = ul2
     /\ ucur' = [u \in {"rec", "dflt"} |-> IF \E e \in ul2 : e.src = u THEN ucur[u] ELSE UBase(u)]
     /\ ev' = [NoEv EXCEPT !.op = opname, !.dts = dts, !.pfr = pfr, !.ufr = ufr,
                           !.prepages = pages, !.preulive = ulive, !.prend = nd]
     /\ UNCHANGED <<up, P>>

(* operator=(&&) into an empty resource configured with the same page allocator and upstream: a swap *)
MoveAssign ==
  /\ ev' = [NoEv EXCEPT !.op = "mva"]
  /\ UNCHANGED <<P, pas, oas, das, fb, fe, used, alloc, up, nd, blocks, intact, dj, ins, pages, ulive, ucur>>

(* move constructor: delegates to the default constructor, then operator=(&&), which swaps
   _page_allocator but NOT _upstream: the new object points to new_delete_resource() *)
\* (until fix e659057 the move constructor left the new object with new_delete_resource() as upstream:
\*  up' = "dflt"; the repaired code swaps _upstream like everything else)
MoveConstruct ==
  /\ UNCHANGED up
  /\ ev' = [NoEv EXCEPT !.op = "mvc"]
  /\ UNCHANGED <<P, pas, oas, das, fb, fe, used, alloc, nd, blocks, intact, dj, ins, pages, ulive, ucur>>

-----------------------------------------------------------------------------
(* L1: the clauses of property C06 *)
PaR == {[a |-> pas[i].at, n |-> PA] : i \in 1..Len(pas)}
OaR == {[a |-> oas[i].at, n |-> OA] : i \in 1..Len(oas)}
DaR == {[a |-> das[i].at, n |-> DA] : i \in 1..Len(das)}
Book == PaR \cup OaR \cup DaR

Aligned ==
  /\ ev.op = "alloc" => ev.res % ev.al = 0
  /\ \A k \in Book : k.a % 8 = 0

Inside(x) == InsideOf(x, pages, ulive, P)

\* blocks: judged when handed out (`ins`; memory only leaves in release, which ends every block);
\* bookkeeping arrays: in every state
InsideOwnedMemory == ins /\ \A k \in Book : Inside(k)
InsideOwnedMemoryFull == \A x \in blocks \cup Book : Inside(x)          \* the same, non-incremental (model checking)

\* block against block: judged when handed out (`dj`, also catches the same block handed out twice);
\* block against bookkeeping and bookkeeping against bookkeeping: in every state
Disjoint ==
  /\ dj
  /\ \A x \in blocks, k \in Book : ~Overlap(x, k)
  /\ \A k1 \in Book, k2 \in Book : k1 # k2 => ~Overlap(k1, k2)
  /\ Cardinality(Book) = Len(pas) + Len(oas) + Len(das)
DisjointFull == \A x \in blocks, y \in blocks : x # y => ~Overlap(x, y)       \* non-incremental (model checking)

ContentsStable == intact

IsRel == ev.op \in {"release", "destroy"}

ReleaseRunsEachDestructorOnce ==
  IsRel => ev.dts = [i \in 1..ev.prend |-> [id |-> ev.prend + 1 - i, fn |-> (ev.prend + 1 - i) % 2]]

EachPageReturnedOnce ==
  IsRel => LET fl == Flatten(ev.pfr)
           IN Len(fl) = Cardinality(ev.prepages) /\ Range(fl) = ev.prepages /\ pages = {}

OversizeReturnedWithSameBytesAlign ==
  IsRel => /\ Len(ev.ufr) = Cardinality(ev.preulive)
           /\ {[a |-> r.a, n |-> r.n, al |-> r.al, src |-> r.to] : r \in Range(ev.ufr)} = ev.preulive
           /\ ulive = {}

AccountingZero == IsRel => used = 0 /\ alloc = 0

ReusableAfterRelease ==
  IsRel => /\ pas = <<>> /\ oas = <<>> /\ das = <<>> /\ fb = 0 /\ fe = 0 /\ nd = 0 /\ blocks = {}
           /\ ucur[up] = UBase(up)

\* contains() finds every live block
ContainsLive ==
  \A x \in blocks : x.n > 0 => ContainsRes(x.a) /\ ContainsRes(x.a + x.n - 1)

(* ENVIRONMENT ASSUMPTION on the PageAllocator the resource is given: every page is aligned to the page size.
   do_allocate_in_new_page returns the start of a fresh page for every request with alignment <= page_size
   without aligning it, so `Aligned` holds only on top of this.  In this model pages are k * P by construction;
   on the real allocator stack (NewDeletePageAllocator, CachedPageAllocator, PageHeap; driver scenario "real")
   the monitor checks it on the logged pointer values (Mono_Mon: EnvPageAligned). *)
EnvPagesAligned == \A pg \in pages : pg % P = 0

(* L2 sanity (not part of the property statement; they keep the specification honest) *)
PagesConsistent == pages = Range(PageEntsNewestFirst) /\ Len(PageEntsNewestFirst) = Cardinality(pages)
UpstreamConsistent == ulive = Range(OverEntsNewestFirst)
AccountingExact ==
  LET RECURSIVE Sum(_)
      Sum(S) == IF S = {} THEN 0 ELSE LET x == CHOOSE x \in S : TRUE IN x.n + Sum(S \ {x})
  IN alloc = P * Cardinality(pages) + Sum(ulive)
FreeRegionClean ==
  fb < fe => /\ \E pg \in pages : pg <= fb /\ fe = pg + P
             /\ \A x \in blocks \cup Book : ~Overlap(x, [a |-> fb, n |-> fe - fb])
=============================================================================
