-------------------------------- MODULE Pool --------------------------------
(***************************************************************************)
(* L2 (implementation-shaped) specification of babylon::ObjectPool         *)
(* (src/babylon/concurrent/object_pool.{h,hpp}, property C17) over an      *)
(* abstract-but-faithful ConcurrentBoundedQueue of capacity                *)
(* bit_ceil(2 * capacity): push / pop index, per slot a futex word         *)
(* (version, waiter flag) and a value; one action per atomic operation /   *)
(* futex call / callback of the queue code, sequentially consistent        *)
(* memory (publication under the C++ memory model: BQ.tla, C01/C02).       *)
(*                                                                         *)
(* strict mode (no creator):                                               *)
(*   pop  = queue.pop<true, true, false>   ticket, futex wait on the slot, *)
(*                                         16-bit version store, no wake   *)
(*   push = recycler(obj); queue.push<true, false, true>                   *)
(*                                         ticket, spin, exchange + wake   *)
(* auto-create mode (creator set):                                         *)
(*   pop  = compensating pop_n(cb, rcb = creator, 1)                       *)
(*   push = recycler(obj); if capacity <= size() destroy obj               *)
(*          else compensating push_n(cb, rcb = destroy, 1)                 *)
(* The custom deleter of the pointer handed out calls push.                *)
(* The pool's destructor destroys whatever the slots still own.            *)
(*                                                                         *)
(* cfg.wake = FALSE describes a push that publishes without waking (used   *)
(* only to show that BlockedPopResumes is not vacuous).                    *)
(***************************************************************************)
EXTENDS Naturals, Integers, Sequences, FiniteSets, TLC

CONSTANTS Configs   \* set of [auto, cap, qcap, inject, no, wake, prog]

VARIABLES cfg,
          q,        \* [push, pop, ver, w, val]
          pc, L,
          held,     \* held[t]: sequence of objects thread t holds
          nextObj,  \* next id the creator hands out
          own,      \* ghost: object -> <<"none",0>> | <<"pool",0>> | <<"c",t>> | <<"tr",t>> | <<"dead",0>>
          clean,    \* ghost: the recycler has run on the object since it was last handed out
          H,        \* history: [bad]
          ev

vars == <<cfg, q, pc, L, held, nextObj, own, clean, H, ev>>

T == Len(cfg.prog)
Thr == 0..T
Callers == 1..T
QCap == cfg.qcap
Objs == 1..cfg.no

SetOf(s) == {s[j] : j \in 1..Len(s)}
PushVer(idx) == (idx \div QCap) * 2
PopVer(idx) == PushVer(idx) + 1
ExpVer(role, idx) == IF role = "push" THEN PushVer(idx) ELSE PopVer(idx)
Other(role) == IF role = "push" THEN "pop" ELSE "push"
IdxOf(role) == IF role = "push" THEN q.push ELSE q.pop
IdxName(role) == IF role = "push" THEN "push_idx" ELSE "pop_idx"

NONE == <<"none", 0>>
POOL == <<"pool", 0>>
DEAD == <<"dead", 0>>
Tr(t) == <<"tr", t>>
Cl(t) == <<"c", t>>

NoEv == [t |-> 0, k |-> "", loc |-> "", i |-> 0, v |-> 0, a |-> 0, ok |-> TRUE, op |-> "", obj |-> 0]

L0 == [opi |-> 1, role |-> "pop", obj |-> 0, rc |-> 0, idx |-> 0, slot |-> 0, exp |-> 0, seen |-> <<0, FALSE>>,
       ridx |-> 0, rslot |-> 0, rexp |-> 0, spop |-> 0]

\* the owner pushes the injected objects 1..inject before the threads start (recycler runs on them)
InitFor(c) ==
  /\ cfg = c
  /\ q = [push |-> c.inject, pop |-> 0,
          ver |-> [s \in 0..c.qcap - 1 |-> IF s < c.inject THEN 1 ELSE 0],
          w |-> [s \in 0..c.qcap - 1 |-> FALSE],
          val |-> [s \in 0..c.qcap - 1 |-> IF s < c.inject THEN s + 1 ELSE 0]]
  /\ pc = [t \in 0..Len(c.prog) |-> IF t = 0 THEN "m_start" ELSE "idle"]
  /\ L = [t \in 0..Len(c.prog) |-> L0]
  /\ held = [t \in 1..Len(c.prog) |-> <<>>]
  /\ nextObj = c.inject + 1
  /\ own = [o \in 1..c.no |-> IF o <= c.inject THEN POOL ELSE NONE]
  /\ clean = [o \in 1..c.no |-> TRUE]
  /\ H = [bad |-> ""]
  /\ ev = NoEv

Init == \E c \in Configs : InitFor(c)

Goto(t, p) == pc' = [pc EXCEPT ![t] = p]
SetL(t, l) == L' = [L EXCEPT ![t] = l]
Flag(b, name) == H' = [H EXCEPT !.bad = IF b /\ H.bad = "" THEN name ELSE @]
Flag2(b1, n1, b2, n2) == H' = [H EXCEPT !.bad = IF @ # "" THEN @ ELSE IF b1 THEN n1 ELSE IF b2 THEN n2 ELSE @]
Op(t) == cfg.prog[t][L[t].opi]
ProgDone(t) == pc[t] = "idle" /\ L[t].opi > Len(cfg.prog[t])
ThreadsDone == \A t \in Callers : ProgDone(t)
Word(s) == <<q.ver[s], q.w[s]>>
SetOwn(o, to) == own' = [own EXCEPT ![o] = to]
Owned(o, by) == o \in DOMAIN own /\ own[o] = by

(***************************************************************************)
(* call / return                                                           *)
(***************************************************************************)
Call(t) ==
  /\ t \in Callers /\ pc[t] = "idle" /\ L[t].opi <= Len(cfg.prog[t])
  /\ IF Op(t) = "p"
     THEN /\ SetL(t, [L[t] EXCEPT !.role = "pop", !.obj = 0])
          /\ Goto(t, IF cfg.auto THEN "c_faa" ELSE "sp_faa")
          /\ ev' = [NoEv EXCEPT !.t = t, !.k = "call", !.op = "pop"]
          /\ UNCHANGED <<held, own, H>>
     ELSE IF held[t] = <<>>
     THEN SetL(t, [L[t] EXCEPT !.opi = @ + 1]) /\ ev' = NoEv /\ UNCHANGED <<pc, held, own, H>>
     ELSE LET o == Head(held[t]) IN
          /\ held' = [held EXCEPT ![t] = Tail(@)]
          /\ SetOwn(o, Tr(t))
          /\ Flag(~Owned(o, Cl(t)), "SingleOwner")
          /\ SetL(t, [L[t] EXCEPT !.role = "push", !.obj = o, !.rc = 0])
          /\ Goto(t, "recycle")
          /\ ev' = [NoEv EXCEPT !.t = t, !.k = "call", !.op = "push", !.obj = o]
  /\ UNCHANGED <<cfg, q, nextObj, clean>>

\* pop returns: the caller holds the object
PopRet(t) ==
  /\ pc[t] = "pop_ret"
  /\ LET o == L[t].obj IN
     /\ held' = [held EXCEPT ![t] = Append(@, o)]
     /\ SetOwn(o, Cl(t))
     /\ Flag2(~Owned(o, Tr(t)) \/ o = 0, "SingleOwner", o \in DOMAIN clean /\ ~clean[o], "RecyclerOncePerReturn")
     /\ clean' = [x \in DOMAIN clean |-> IF x = o THEN FALSE ELSE clean[x]]
     /\ ev' = [NoEv EXCEPT !.t = t, !.k = "ret", !.op = "pop", !.obj = o]
  /\ SetL(t, [L[t] EXCEPT !.opi = @ + 1, !.obj = 0]) /\ Goto(t, "idle")
  /\ UNCHANGED <<cfg, q, nextObj>>

PushRet(t) ==
  /\ pc[t] = "push_ret"
  /\ Flag(L[t].rc # 1, "RecyclerOncePerReturn")
  /\ ev' = [NoEv EXCEPT !.t = t, !.k = "ret", !.op = "push", !.obj = L[t].obj]
  /\ SetL(t, [L[t] EXCEPT !.opi = @ + 1, !.obj = 0]) /\ Goto(t, "idle")
  /\ UNCHANGED <<cfg, q, held, nextObj, own, clean>>

\* push: _object_recycler(*object) comes first, in both modes
Recycle(t) ==
  /\ pc[t] = "recycle"
  /\ clean' = [clean EXCEPT ![L[t].obj] = TRUE]
  /\ SetL(t, [L[t] EXCEPT !.rc = @ + 1])
  /\ Goto(t, IF cfg.auto THEN "z_pop" ELSE "su_faa")
  /\ ev' = [NoEv EXCEPT !.t = t, !.k = "recycle", !.obj = L[t].obj]
  /\ UNCHANGED <<cfg, q, held, nextObj, own, H>>

(***************************************************************************)
(* strict mode pop: queue.pop<true, true, false>                           *)
(***************************************************************************)
SPFaa(t) ==
  /\ pc[t] = "sp_faa"
  /\ q' = [q EXCEPT !.pop = @ + 1]
  /\ SetL(t, [L[t] EXCEPT !.idx = q.pop, !.slot = q.pop % QCap, !.exp = PopVer(q.pop)])
  /\ ev' = [NoEv EXCEPT !.t = t, !.k = "faa", !.loc = "pop_idx", !.v = q.pop, !.a = 1]
  /\ Goto(t, "sp_load")
  /\ UNCHANGED <<cfg, held, nextObj, own, clean, H>>

AfterSeen(t, wd) == IF wd[1] = L[t].exp THEN "sp_cb" ELSE IF wd[2] THEN "sp_fwait" ELSE "sp_cas"

SPLoad(t) ==
  /\ pc[t] \in {"sp_load", "sp_reload"}
  /\ LET wd == Word(L[t].slot) IN
     /\ SetL(t, [L[t] EXCEPT !.seen = wd])
     /\ Goto(t, AfterSeen(t, wd))
     /\ ev' = [NoEv EXCEPT !.t = t, !.k = "load", !.loc = "slot", !.i = L[t].slot, !.v = wd[1], !.ok = wd[2]]
  /\ UNCHANGED <<cfg, q, held, nextObj, own, clean, H>>

SPCas(t) ==
  /\ pc[t] = "sp_cas"
  /\ LET wd == Word(L[t].slot) IN
     IF wd = L[t].seen
     THEN /\ q' = [q EXCEPT !.w[L[t].slot] = TRUE]
          /\ SetL(t, [L[t] EXCEPT !.seen = <<wd[1], TRUE>>])
          /\ Goto(t, "sp_fwait")
          /\ ev' = [NoEv EXCEPT !.t = t, !.k = "cas", !.loc = "slot", !.i = L[t].slot, !.v = wd[1], !.ok = TRUE]
     ELSE /\ q' = q
          /\ SetL(t, [L[t] EXCEPT !.seen = wd])
          /\ Goto(t, AfterSeen(t, wd))
          /\ ev' = [NoEv EXCEPT !.t = t, !.k = "cas", !.loc = "slot", !.i = L[t].slot, !.v = wd[1], !.ok = FALSE]
  /\ UNCHANGED <<cfg, held, nextObj, own, clean, H>>

\* futex_wait: compare the whole word and block, atomically
SPFutexWait(t) ==
  /\ pc[t] = "sp_fwait"
  /\ LET wd == Word(L[t].slot) IN
     /\ Goto(t, IF wd = L[t].seen THEN "sp_blocked" ELSE "sp_reload")
     /\ ev' = [NoEv EXCEPT !.t = t, !.k = "fwait", !.loc = "slot", !.i = L[t].slot, !.ok = (wd = L[t].seen)]
  /\ UNCHANGED <<cfg, q, L, held, nextObj, own, clean, H>>

SPWoken(t) ==
  /\ pc[t] = "sp_woken"
  /\ ev' = [NoEv EXCEPT !.t = t, !.k = "fret", !.loc = "slot", !.i = L[t].slot]
  /\ Goto(t, "sp_reload")
  /\ UNCHANGED <<cfg, q, L, held, nextObj, own, clean, H>>

\* the callback: result.reset(object.release())
TakeObj(t, s) ==
  LET o == q.val[s] IN
  /\ q' = [q EXCEPT !.val[s] = 0]
  /\ own' = IF o \in DOMAIN own THEN [own EXCEPT ![o] = Tr(t)] ELSE own
  /\ Flag(~Owned(o, POOL), "SingleOwner")
  /\ SetL(t, [L[t] EXCEPT !.obj = o])

SPCb(t) ==
  /\ pc[t] = "sp_cb"
  /\ TakeObj(t, L[t].slot)
  /\ ev' = NoEv
  /\ Goto(t, "sp_pub")
  /\ UNCHANGED <<cfg, held, nextObj, clean>>

\* USE_FUTEX_WAKE = false: 16-bit store of the version, the waiter half is left alone
SPPub(t) ==
  /\ pc[t] = "sp_pub"
  /\ q' = [q EXCEPT !.ver[L[t].slot] = L[t].exp + 1]
  /\ ev' = [NoEv EXCEPT !.t = t, !.k = "store", !.loc = "slot", !.i = L[t].slot, !.v = L[t].exp + 1]
  /\ Goto(t, "pop_ret")
  /\ UNCHANGED <<cfg, L, held, nextObj, own, clean, H>>

(***************************************************************************)
(* strict mode push: queue.push<true, false, true>                         *)
(***************************************************************************)
SUFaa(t) ==
  /\ pc[t] = "su_faa"
  /\ q' = [q EXCEPT !.push = @ + 1]
  /\ SetL(t, [L[t] EXCEPT !.idx = q.push, !.slot = q.push % QCap, !.exp = PushVer(q.push)])
  /\ ev' = [NoEv EXCEPT !.t = t, !.k = "faa", !.loc = "push_idx", !.v = q.push, !.a = 1]
  /\ Goto(t, "su_load")
  /\ UNCHANGED <<cfg, held, nextObj, own, clean, H>>

SULoad(t) ==
  /\ pc[t] = "su_load"
  /\ LET wd == Word(L[t].slot) IN
     /\ Goto(t, IF wd[1] = L[t].exp THEN "su_cb" ELSE "su_sleep")
     /\ ev' = [NoEv EXCEPT !.t = t, !.k = "load", !.loc = "slot", !.i = L[t].slot, !.v = wd[1], !.ok = wd[2]]
  /\ UNCHANGED <<cfg, q, L, held, nextObj, own, clean, H>>

SUSleep(t) ==
  /\ pc[t] = "su_sleep"
  /\ ev' = [NoEv EXCEPT !.t = t, !.k = "sleep"]
  /\ Goto(t, "su_load")
  /\ UNCHANGED <<cfg, q, L, held, nextObj, own, clean, H>>

PutObj(t, s) ==
  LET o == L[t].obj IN
  /\ q' = [q EXCEPT !.val[s] = o]
  /\ SetOwn(o, POOL)
  /\ Flag(~Owned(o, Tr(t)) \/ q.val[s] # 0, "SingleOwner")

SUCb(t) ==
  /\ pc[t] = "su_cb"
  /\ PutObj(t, L[t].slot)
  /\ ev' = NoEv
  /\ Goto(t, "su_pub")
  /\ UNCHANGED <<cfg, L, held, nextObj, clean>>

\* set_version_and_wakeup_waiters: exchange, wake if the waiter flag was set
SUPub(t) ==
  /\ pc[t] = "su_pub"
  /\ LET s == L[t].slot
         old == Word(s)
     IN /\ q' = IF cfg.wake THEN [q EXCEPT !.ver[s] = L[t].exp + 1, !.w[s] = FALSE] ELSE [q EXCEPT !.ver[s] = L[t].exp + 1]
        /\ ev' = [NoEv EXCEPT !.t = t, !.k = IF cfg.wake THEN "xchg" ELSE "store", !.loc = "slot", !.i = s, !.v = old[1], !.ok = old[2], !.a = L[t].exp + 1]
        /\ Goto(t, IF cfg.wake /\ old[2] THEN "su_wake" ELSE "push_ret")
  /\ UNCHANGED <<cfg, L, held, nextObj, own, clean, H>>

SUWake(t) ==
  /\ pc[t] = "su_wake"
  /\ pc' = [u \in DOMAIN pc |-> IF u = t THEN "push_ret" ELSE IF pc[u] = "sp_blocked" /\ L[u].slot = L[t].slot THEN "sp_woken" ELSE pc[u]]
  /\ ev' = [NoEv EXCEPT !.t = t, !.k = "fwake", !.loc = "slot", !.i = L[t].slot,
                        !.v = Cardinality({u \in DOMAIN pc : pc[u] = "sp_blocked" /\ L[u].slot = L[t].slot})]
  /\ UNCHANGED <<cfg, q, L, held, nextObj, own, clean, H>>

(***************************************************************************)
(* auto mode push: size() check                                            *)
(***************************************************************************)
ZPop(t) ==
  /\ pc[t] = "z_pop"
  /\ SetL(t, [L[t] EXCEPT !.spop = q.pop])
  /\ ev' = [NoEv EXCEPT !.t = t, !.k = "load", !.loc = "pop_idx", !.v = q.pop]
  /\ Goto(t, "z_push")
  /\ UNCHANGED <<cfg, q, held, nextObj, own, clean, H>>

Destroy(t, o) ==
  /\ own' = IF o \in DOMAIN own THEN [own EXCEPT ![o] = DEAD] ELSE own

ZPush(t) ==
  /\ pc[t] = "z_push"
  /\ LET sz == IF q.push > L[t].spop THEN q.push - L[t].spop ELSE 0 IN
     /\ ev' = [NoEv EXCEPT !.t = t, !.k = "load", !.loc = "push_idx", !.v = q.push]
     /\ Goto(t, IF cfg.cap <= sz THEN "z_drop" ELSE "c_faa")
  /\ UNCHANGED <<cfg, q, L, held, nextObj, own, clean, H>>

\* overflow: the unique_ptr goes out of scope
ZDrop(t) ==
  /\ pc[t] = "z_drop"
  /\ Destroy(t, L[t].obj)
  /\ Flag(~Owned(L[t].obj, Tr(t)), "SingleOwner")
  /\ ev' = [NoEv EXCEPT !.t = t, !.k = "dtor", !.obj = L[t].obj]
  /\ Goto(t, "push_ret")
  /\ UNCHANGED <<cfg, q, L, held, nextObj, clean>>

(***************************************************************************)
(* auto mode: compensating pop_n(cb, creator, 1) / push_n(cb, destroy, 1)  *)
(***************************************************************************)
CFaa(t) ==
  /\ pc[t] = "c_faa"
  /\ LET role == L[t].role
         old == IdxOf(role)
     IN /\ q' = IF role = "push" THEN [q EXCEPT !.push = @ + 1] ELSE [q EXCEPT !.pop = @ + 1]
        /\ SetL(t, [L[t] EXCEPT !.idx = old, !.slot = old % QCap, !.exp = ExpVer(role, old)])
        /\ ev' = [NoEv EXCEPT !.t = t, !.k = "faa", !.loc = IdxName(role), !.v = old, !.a = 1]
  /\ Goto(t, "c_chk")
  /\ UNCHANGED <<cfg, held, nextObj, own, clean, H>>

CChk(t) ==
  /\ pc[t] = "c_chk"
  /\ LET v == q.ver[L[t].slot] IN
     /\ ev' = [NoEv EXCEPT !.t = t, !.k = "load", !.loc = "slot", !.i = L[t].slot, !.v = v]
     /\ Goto(t, IF v = L[t].exp THEN "c_cb" ELSE "c_need")
  /\ UNCHANGED <<cfg, q, L, held, nextObj, own, clean, H>>

CNeed(t) ==
  /\ pc[t] = "c_need"
  /\ LET v == IdxOf(Other(L[t].role))
         need == IF L[t].role = "push" THEN v + QCap ELSE v
     IN /\ ev' = [NoEv EXCEPT !.t = t, !.k = "load", !.loc = IdxName(Other(L[t].role)), !.v = v]
        /\ Goto(t, IF need <= L[t].idx + 1 THEN "r_iload" ELSE "c_yield")
  /\ UNCHANGED <<cfg, q, L, held, nextObj, own, clean, H>>

CYield(t) ==
  /\ pc[t] = "c_yield"
  /\ ev' = [NoEv EXCEPT !.t = t, !.k = "yield"]
  /\ Goto(t, "c_chk")
  /\ UNCHANGED <<cfg, q, L, held, nextObj, own, clean, H>>

RILoad(t) ==
  /\ pc[t] = "r_iload"
  /\ LET o == Other(L[t].role)
         v == IdxOf(o)
     IN /\ SetL(t, [L[t] EXCEPT !.ridx = v, !.rexp = ExpVer(o, v), !.rslot = v % QCap])
        /\ ev' = [NoEv EXCEPT !.t = t, !.k = "load", !.loc = IdxName(o), !.v = v]
  /\ Goto(t, "r_vload")
  /\ UNCHANGED <<cfg, q, held, nextObj, own, clean, H>>

RVLoad(t) ==
  /\ pc[t] = "r_vload"
  /\ LET v == q.ver[L[t].rslot] IN
     /\ ev' = [NoEv EXCEPT !.t = t, !.k = "load", !.loc = "slot", !.i = L[t].rslot, !.v = v]
     /\ Goto(t, IF v = L[t].rexp THEN "r_cas" ELSE "c_chk")
  /\ UNCHANGED <<cfg, q, L, held, nextObj, own, clean, H>>

RCas(t) ==
  /\ pc[t] = "r_cas"
  /\ LET o == Other(L[t].role)
         v == IdxOf(o)
         ok == v = L[t].ridx
     IN /\ q' = IF ~ok THEN q ELSE IF o = "push" THEN [q EXCEPT !.push = @ + 1] ELSE [q EXCEPT !.pop = @ + 1]
        /\ ev' = [NoEv EXCEPT !.t = t, !.k = "cas", !.loc = IdxName(o), !.v = v, !.a = L[t].ridx, !.ok = ok]
        /\ Goto(t, IF ok THEN "r_cb" ELSE "c_chk")
  /\ UNCHANGED <<cfg, L, held, nextObj, own, clean, H>>

\* reverse callback: pop -> *iter = _object_creator();   push -> (*iter).reset()
RCb(t) ==
  /\ pc[t] = "r_cb"
  /\ IF L[t].role = "pop"
     THEN LET o == nextObj IN
          /\ nextObj' = nextObj + 1
          /\ q' = [q EXCEPT !.val[L[t].rslot] = o]
          /\ own' = IF o \in DOMAIN own THEN [own EXCEPT ![o] = POOL] ELSE own
          /\ Flag(~Owned(o, NONE) \/ q.val[L[t].rslot] # 0, "SingleOwner")
          /\ ev' = [NoEv EXCEPT !.t = t, !.k = "create", !.obj = o]
     ELSE LET o == q.val[L[t].rslot] IN
          /\ nextObj' = nextObj
          /\ q' = [q EXCEPT !.val[L[t].rslot] = 0]
          /\ Destroy(t, o)
          /\ Flag(~Owned(o, POOL), "SingleOwner")
          /\ ev' = [NoEv EXCEPT !.t = t, !.k = "dtor", !.obj = o]
  /\ Goto(t, "r_st")
  /\ UNCHANGED <<cfg, L, held, clean>>

RSt(t) ==
  /\ pc[t] = "r_st"
  /\ q' = [q EXCEPT !.ver[L[t].rslot] = L[t].rexp + 1]
  /\ ev' = [NoEv EXCEPT !.t = t, !.k = "store", !.loc = "slot", !.i = L[t].rslot, !.v = L[t].rexp + 1]
  /\ Goto(t, "c_chk")
  /\ UNCHANGED <<cfg, L, held, nextObj, own, clean, H>>

CCb(t) ==
  /\ pc[t] = "c_cb"
  /\ IF L[t].role = "pop"
     THEN TakeObj(t, L[t].slot)
     ELSE PutObj(t, L[t].slot) /\ UNCHANGED L
  /\ ev' = NoEv
  /\ Goto(t, "c_st")
  /\ UNCHANGED <<cfg, held, nextObj, clean>>

CSt(t) ==
  /\ pc[t] = "c_st"
  /\ q' = [q EXCEPT !.ver[L[t].slot] = L[t].exp + 1]
  /\ ev' = [NoEv EXCEPT !.t = t, !.k = "store", !.loc = "slot", !.i = L[t].slot, !.v = L[t].exp + 1]
  /\ Goto(t, IF L[t].role = "pop" THEN "pop_ret" ELSE "push_ret")
  /\ UNCHANGED <<cfg, L, held, nextObj, own, clean, H>>

(***************************************************************************)
(* the owner thread: quiescent observation, then ~ObjectPool: every slot's *)
(* unique_ptr is destroyed                                                 *)
(***************************************************************************)
MStart(t) ==
  /\ t = 0 /\ pc[0] = "m_start" /\ ThreadsDone
  /\ ev' = [NoEv EXCEPT !.k = "quiesce"]
  /\ Goto(0, "m_dtor")
  /\ UNCHANGED <<cfg, q, L, held, nextObj, own, clean, H>>

MDtor(t) ==
  /\ t = 0 /\ pc[0] = "m_dtor"
  /\ LET left == {q.val[s] : s \in DOMAIN q.val} \ {0} IN
     /\ own' = [o \in DOMAIN own |-> IF o \in left THEN DEAD ELSE own[o]]
     /\ Flag(\E o \in left : ~Owned(o, POOL), "SingleOwner")
     /\ q' = [q EXCEPT !.val = [s \in DOMAIN q.val |-> 0]]
  /\ ev' = [NoEv EXCEPT !.k = "destroy"]
  /\ Goto(0, "m_done")
  /\ UNCHANGED <<cfg, L, held, nextObj, clean>>

Step(t) ==
  \/ Call(t) \/ PopRet(t) \/ PushRet(t) \/ Recycle(t)
  \/ SPFaa(t) \/ SPLoad(t) \/ SPCas(t) \/ SPFutexWait(t) \/ SPWoken(t) \/ SPCb(t) \/ SPPub(t)
  \/ SUFaa(t) \/ SULoad(t) \/ SUSleep(t) \/ SUCb(t) \/ SUPub(t) \/ SUWake(t)
  \/ ZPop(t) \/ ZPush(t) \/ ZDrop(t)
  \/ CFaa(t) \/ CChk(t) \/ CNeed(t) \/ CYield(t) \/ RILoad(t) \/ RVLoad(t) \/ RCas(t) \/ RCb(t) \/ RSt(t) \/ CCb(t) \/ CSt(t)
  \/ MStart(t) \/ MDtor(t)

AllDone == pc[0] = "m_done"

(***************************************************************************)
(* L1 clauses of C17                                                       *)
(***************************************************************************)
Outstanding == {o \in Objs : own[o][1] \in {"c", "tr"}}
Alive == {o \in Objs : own[o] # NONE /\ own[o] # DEAD}
HeldSet == UNION {SetOf(held[t]) : t \in Callers}
NHeld == LET RECURSIVE S(_) S(t) == IF t = 0 THEN 0 ELSE Len(held[t]) + S(t - 1) IN S(T)

\* every transfer found the object where the ghost map says it is; nobody holds an object twice
SingleOwner ==
  /\ H.bad # "SingleOwner"
  /\ \A t, u \in Callers : t # u => SetOf(held[t]) \cap SetOf(held[u]) = {}
  /\ \A t \in Callers : Cardinality(SetOf(held[t])) = Len(held[t])
  /\ \A o \in HeldSet : own[o][1] = "c"
\* strict mode: no object is ever created, never more than the injected ones outstanding
StrictNeverExceedsInjected ==
  ~cfg.auto => (nextObj = cfg.inject + 1 /\ Cardinality(Outstanding) <= cfg.inject /\ Alive \subseteq 1..cfg.inject /\ (~AllDone => Alive = 1..cfg.inject))
\* exactly one recycler call per push, and before the object can be handed out again
RecyclerOncePerReturn == H.bad # "RecyclerOncePerReturn"
\* every object is held, cached or destroyed: at quiescence the cache is what free_object_number() reports,
\* after the pool's destruction nothing is alive that a caller does not hold
Quiescent == ThreadsDone /\ pc[0] = "m_start"
CachedNow == {q.val[s] : s \in DOMAIN q.val} \ {0}
OverflowDestroyedNotLeaked ==
  /\ Quiescent => /\ Alive = HeldSet \cup CachedNow
                  /\ Cardinality(CachedNow) = q.push - q.pop
                  /\ Cardinality(Alive) - NHeld = q.push - q.pop
                  /\ q.push - q.pop <= QCap
  /\ AllDone => Alive = HeldSet
\* safety form of "a blocked pop resumes when an object comes back": when nobody can move any more no thread
\* sleeps on a slot (programs of the configurations are balanced: every holder gives back)
Stuck == \A t \in Callers : pc[t] = "sp_blocked" \/ ProgDone(t)
BlockedPopResumes == Stuck => \A t \in Callers : pc[t] # "sp_blocked"
\* a sleeper's slot has not yet reached the version it waits for, or a waker is on its way (flag still set)
NoLostWakeup == \A t \in Callers : pc[t] = "sp_blocked" => (q.ver[L[t].slot] # L[t].exp \/ \E u \in Callers : pc[u] = "su_wake" /\ L[u].slot = L[t].slot)
=============================================================================
