---------------------------- MODULE AppCtx_Trace ----------------------------
(***************************************************************************)
(* Trace validation of the real babylon::ApplicationContext against the L2 *)
(* specification AppCtx.  Every line of the (normalised) ndjson trace      *)
(* recorded under vsched must be explained by exactly the AppCtx action    *)
(* the thread's frame allows, with the same holder, location, value read,  *)
(* instance identity, lookup result and outcome.  The memory order of each *)
(* atomic step is the one the running code passed (mo of the line): the    *)
(* happens-before views evolve with the code's real orders, the L1 clauses *)
(* are evaluated on every state of the trace, and the <<site, order>>      *)
(* pairs seen are collected (MO_AppCtx.tla is regenerated from them).      *)
(***************************************************************************)
EXTENDS AppCtx, Json, IOUtils

Tr == ndJsonDeserialize(IOEnv.TRACE)

VARIABLES l,       \* next line to explain
          moSeen   \* set of <<site, order>> observed

tvars == <<vars, l, moSeen>>

CfgOf(e) == [regs |-> e.regs, prog |-> e.prog]

TInit ==
  /\ l = 2
  /\ moSeen = {}
  /\ Tr[1].k = "reset"
  /\ InitFor(CfgOf(Tr[1]))
  /\ TLCSet(1, 1)
  /\ TLCSet(2, {})

Progress == TLCSet(1, IF TLCGet(1) < l' THEN l' ELSE TLCGet(1))

Matches(m, e) ==
  /\ m.t = e.t /\ m.k = e.k
  /\ CASE e.k = "call" -> m.ty = e.ty /\ m.nm = e.nm /\ m.c = e.c
       [] e.k = "load" -> m.loc = e.loc /\ m.i = e.i /\ m.v = e.v
       [] e.k \in {"lock", "unlock"} -> m.loc = e.loc /\ m.i = e.i
       [] e.k = "ctor" -> m.c = e.c /\ m.inst = e.inst /\ m.v = e.v
       [] e.k = "ib" -> m.c = e.c /\ m.inst = e.inst
       [] e.k = "ie" -> m.c = e.c /\ m.inst = e.inst /\ m.ok = e.ok
       [] e.k = "dtor" -> m.c = e.c /\ m.inst = e.inst
       [] e.k = "faa" -> m.loc = e.loc /\ m.v = e.v /\ m.a = e.a
       [] e.k = "store" -> m.loc = e.loc /\ m.i = e.i /\ m.v = e.v
       [] e.k = "ret" -> m.ty = e.ty /\ m.nm = e.nm /\ m.c = e.c /\ m.res = e.res
       [] e.k = "use" -> m.inst = e.inst /\ m.v = e.v
       [] OTHER -> FALSE

Consume ==
  /\ l <= Len(Tr)
  /\ LET e == Tr[l]
     IN /\ e.k \notin {"reset", "end", "final", "clear"}
        /\ e.t \in Thr
        /\ Step(e.t, LAMBDA site : e.mo)
        /\ Matches(ev', e)
        /\ moSeen' = IF ev'.site # "" THEN moSeen \cup {<<ev'.site, ev'.mo>>} ELSE moSeen
  /\ l' = l + 1

\* ApplicationContext::clear() on the main thread: the destructors it ran, in order
TClear ==
  /\ l <= Len(Tr) /\ Tr[l].k = "clear"
  /\ Clear
  /\ ev'.order = Tr[l].order
  /\ l' = l + 1
  /\ UNCHANGED moSeen

\* quiescent observation by the driver: instances still alive, lookups that still succeed
Final ==
  /\ l <= Len(Tr) /\ Tr[l].k = "final"
  /\ Tr[l].alive = Cardinality({p \in H.ctors : p[1] \notin H.dead})
  /\ Tr[l].found = 0
  /\ l' = l + 1
  /\ UNCHANGED <<vars, moSeen>>

End ==
  /\ l <= Len(Tr) /\ Tr[l].k = "end"
  /\ (Tr[l].status = "ok" => mainpc = "done")
  /\ l' = l + 1
  /\ UNCHANGED <<vars, moSeen>>

Reset ==
  /\ l <= Len(Tr) /\ Tr[l].k = "reset"
  /\ LET c == CfgOf(Tr[l])
     IN /\ cfg' = c /\ ms' = MS0(c)
        /\ stk' = [t \in 1..Len(c.prog) |-> << >>]
        /\ opi' = [t \in 1..Len(c.prog) |-> 1]
        /\ mx' = [h \in 0..NReg(c) |-> [o |-> 0, d |-> 0]]
        /\ sing' = [h \in 0..NReg(c) |-> 0]
        /\ sq' = [h \in 0..NReg(c) |-> 0]
        /\ pay' = << >> /\ nextInst' = 1 /\ H' = H0 /\ mainpc' = "run" /\ ev' = NoEv
  /\ l' = l + 1
  /\ UNCHANGED moSeen

TNext == (Consume \/ TClear \/ Final \/ End \/ Reset) /\ Progress /\ (l' > Len(Tr) => TLCSet(2, moSeen'))

TSpec == TInit /\ [][TNext]_tvars

\* reported at the end:  <<"VERIF", lines explained, lines, site/order pairs>>
Post == PrintT(<<"VERIF", TLCGet(1) - 1, Len(Tr), TLCGet(2)>>)

\* L1 verdicts on the observed execution (same formulas as the model-checked ones)
TCreatedAtMostOnce == CreatedAtMostOnce
TSameInstance == SameInstance
TFullyInitialised == FullyInitialised
TFactoryFresh == FactoryFresh
TDepsBeforeInit == DepsBeforeInit
TStateForward == StateForward
TClearOrder == ClearOrder
TDestroyedOnce == DestroyedOnce
TClearDestroysAll == ClearDestroysAll
TNoDataRace == NoDataRace
TPublishedConsistent == PublishedConsistent
=============================================================================
