------------------------------ MODULE RVec_Trace ------------------------------
(***************************************************************************)
(* Trace validation of operation sequences executed on the REAL            *)
(* ReusableVector / SwissVector / reusable strings (harness/drivers/       *)
(* rvec_driver.cc) against RVec.                                           *)
(*                                                                         *)
(* Every "op" line carries the resolved operation, the observation of both *)
(* vectors after it (size, constructed_size, capacity, content id of every *)
(* live and stale element, buffer id) and - mode "full" - the life-cycle   *)
(* events of the instrumented element type.                                *)
(*                                                                         *)
(* L1 (verdicts, variable tbad = first clause the real code falsified):    *)
(*   SameAsStdVector   observed contents = the std::vector meaning (abs)   *)
(*   SizeConsCap       size <= constructed <= capacity, and the slots that *)
(*                     really hold an object are exactly [0, constructed)  *)
(*   NeverConstructOnConstructed / NeverAssignOrReadRaw /                  *)
(*   DestroyedExactlyTheConstructed   judged on the REAL events against    *)
(*                     the set C of addresses that currently hold an object*)
(*   ClearKeepsCapacity  clear / assign never shrink capacity or the       *)
(*                     number of retained (constructed) elements           *)
(*   NoCrash                                                               *)
(*   (SpecL1DiffersFromStdVector is not a verdict about babylon: the driver *)
(*   runs a real std::vector of content ids side by side; if L1 disagrees  *)
(*   with it the specification is wrong and the check reports BROKEN)      *)
(* L2 (conformance, never a verdict): RVec!Apply from the previous OBSERVED*)
(*   state must predict the observed representation (and event list).      *)
(*   A mismatch is recorded in drift = SPEC-DRIFT; the L2 state is re-     *)
(*   synchronised with the observation after every operation, so each step *)
(*   is checked on its own.                                                *)
(* Modes: full (instrumented element), cnt (size/constructed/capacity      *)
(* only: int, strings, nested vectors, protobuf messages), l1 (strings     *)
(* with char slots: contents and capacity only).                           *)
(***************************************************************************)
EXTENDS RVec, Json, IOUtils

\* the trace is parsed once (TInit) and kept in TLC register 4: a plain definition would be re-evaluated,
\* i.e. the file re-parsed, at every reference
Tr == TLCGet(4)

VARIABLES l,      \* next line
          C,      \* addresses <<buffer, slot>> that hold an object, according to the real events
          tbad,   \* first L1 clause falsified by the real code ("" = none)
          drift,  \* set of <<line, op>> where L2 mispredicted the representation
          verd,   \* set of <<first line of the execution, clause, line, op, source form>>: all L1 verdicts of this file
          start,  \* first line of the current execution
          mode
tvars == <<vars, l, C, tbad, drift, verd, start, mode>>

OpOf(e) == [n |-> e.n, v |-> e.v, w |-> e.w, a |-> e.a, b |-> e.b, s |-> [f |-> e.f, x |-> e.x], q |-> e.q]
ObsVec(r) == [sz |-> r.sz, cons |-> r.cons, cap |-> r.cap,
              d |-> r.c \o r.st \o [k \in 1..(r.cap - r.cons) |-> Raw], bid |-> r.bid]

IsCtor(t) == t \in {"cc", "cm", "cv", "cd"}
IsAsg(t) == t \in {"ac", "am", "av", "ad"}
\* replay the real life-cycle events over the set of constructed addresses
RECURSIVE Fold(_, _, _, _)
Fold(E, k, cs, b) ==
  IF k > Len(E) THEN [c |-> cs, b |-> b]
  ELSE LET x == E[k]
           dst == <<x[2], x[3]>>
           src == <<x[4], x[5]>>
           b1 == IF b # "" THEN b
                 ELSE IF x[4] # 0 /\ src \notin cs THEN "NeverAssignOrReadRaw"
                 ELSE IF IsCtor(x[1]) /\ dst \in cs THEN "NeverConstructOnConstructed"
                 ELSE IF IsAsg(x[1]) /\ dst \notin cs THEN "NeverAssignOrReadRaw"
                 ELSE IF x[1] = "d" /\ dst \notin cs THEN "DestroyedExactlyTheConstructed"
                 ELSE ""
           cs1 == IF IsCtor(x[1]) THEN cs \cup {dst} ELSE IF x[1] = "d" THEN cs \ {dst} ELSE cs
       IN Fold(E, k + 1, cs1, b1)

First(seq) == IF \E k \in 1..Len(seq) : seq[k] # "" THEN seq[CHOOSE k \in 1..Len(seq) : seq[k] # "" /\ \A j \in 1..(k - 1) : seq[j] = ""] ELSE ""
If(c, name) == IF c THEN name ELSE ""

TInit ==
  /\ TLCSet(4, ndJsonDeserialize(IOEnv.TRACE))
  /\ Init
  /\ l = 1 /\ C = {} /\ tbad = "" /\ drift = {} /\ verd = {} /\ start = 1 /\ mode = "full"
  /\ TLCSet(1, 1) /\ TLCSet(2, {}) /\ TLCSet(3, {})

Reset ==
  /\ l <= Len(Tr) /\ Tr[l].k = "reset"
  /\ alive' = [v \in Vecs |-> FALSE] /\ abs' = [v \in Vecs |-> <<>>] /\ vec' = [v \in Vecs |-> NoVec]
  /\ nb' = 0 /\ ev' = <<>> /\ bad' = {} /\ op' = NoOp
  /\ C' = {} /\ tbad' = "" /\ mode' = Tr[l].mode /\ start' = l
  /\ UNCHANGED <<drift, verd>>
  /\ l' = l + 1

\* after the first falsified clause the rest of that execution is not judged any more
Skip ==
  /\ l <= Len(Tr) /\ Tr[l].k = "op" /\ tbad # ""
  /\ UNCHANGED <<vars, C, tbad, drift, verd, start, mode>>
  /\ l' = l + 1

StepOp ==
  /\ l <= Len(Tr) /\ Tr[l].k = "op" /\ tbad = ""
  /\ LET e == Tr[l]
         o == OpOf(e)
         obs == [v \in Vecs |-> ObsVec(e.o[v])]
         nalive == [v \in Vecs |-> e.o[v].al = 1]
         nabs == AbsApply(o, IF o.n = "mva" THEN e.o[o.w].c ELSE <<>>)
         F == IF mode = "full" THEN Fold(e.ev, 1, C, "") ELSE [c |-> C, b |-> ""]
         R == Apply(o)
         l2same == CASE mode = "full" -> R.vec = obs /\ R.ev = e.ev /\ R.nb = e.nb
                     [] mode = "cnt" -> \A v \in Vecs : R.vec[v].sz = obs[v].sz /\ R.vec[v].cons = obs[v].cons /\ R.vec[v].cap = obs[v].cap
                     [] OTHER -> TRUE
         keeps == o.n \in {"clr", "asgn", "asgr", "asgc", "cpa"}
         clause == First(<<
            \* self-check of THIS specification: a real std::vector driven side by side must agree with L1
            If(e.ref # <<>> /\ \E v \in Vecs : nalive[v] /\ e.ref[v] # nabs[v], "SpecL1DiffersFromStdVector"),
            If(\E v \in Vecs : nalive[v] /\ e.o[v].c # nabs[v], "SameAsStdVector"),
            If(\E v \in Vecs : nalive[v] /\ ~(e.o[v].sz <= e.o[v].cons /\ e.o[v].cons <= e.o[v].cap /\ Len(e.o[v].c) = e.o[v].sz), "SizeConsCap"),
            F.b,
            If(mode = "full" /\ \E v \in Vecs : nalive[v] /\ e.o[v].bid # 0 /\ {a[2] : a \in {z \in F.c : z[1] = e.o[v].bid}} # 0..(e.o[v].cons - 1), "SizeConsCap"),
            If(keeps /\ (e.o[o.v].cap < vec[o.v].cap \/ (mode # "l1" /\ e.o[o.v].cons < vec[o.v].cons)), "ClearKeepsCapacity"),
            If(mode = "full" /\ o.n = "del" /\ vec[o.v].bid # 0 /\ \E a \in F.c : a[1] = vec[o.v].bid, "DestroyedExactlyTheConstructed") >>)
     IN /\ abs' = nabs /\ alive' = nalive /\ vec' = obs /\ nb' = e.nb /\ ev' = e.ev /\ op' = o /\ bad' = bad
        /\ C' = F.c
        /\ tbad' = clause
        /\ verd' = IF clause # "" THEN verd \cup {<<ToString(start), clause, ToString(l), o.n, o.s.f>>} ELSE verd
        /\ start' = start
        /\ drift' = IF clause # "" \/ mode = "l1" \/ l2same THEN drift ELSE drift \cup {<<ToString(l), o.n>>}
        /\ mode' = mode
  /\ l' = l + 1

End ==
  /\ l <= Len(Tr) /\ Tr[l].k = "end"
  /\ LET c == IF tbad # "" THEN ""
              ELSE IF Tr[l].status # "ok" THEN "NoCrash"
              ELSE IF mode = "full" /\ C # {} THEN "DestroyedExactlyTheConstructed"
              ELSE ""
     IN /\ tbad' = IF tbad # "" THEN tbad ELSE c
        /\ verd' = IF c # "" THEN verd \cup {<<ToString(start), c, ToString(l), "end", "def">>} ELSE verd
  /\ UNCHANGED <<vars, C, drift, start, mode>>
  /\ l' = l + 1

Progress == TLCSet(1, IF TLCGet(1) < l' THEN l' ELSE TLCGet(1))
TNext == (Reset \/ StepOp \/ Skip \/ End) /\ Progress /\ (l' > Len(Tr) => (TLCSet(2, drift') /\ TLCSet(3, verd')))
TSpec == TInit /\ [][TNext]_tvars

\* <<"VERIF", lines explained, lines, {<<line, op>> of SPEC-DRIFT}, {verdicts}>>
Post == PrintT(<<"VERIF", TLCGet(1) - 1, Len(Tr), TLCGet(2), TLCGet(3)>>)

\* debugging aid (not in the configuration): stop at the first falsified clause
Holds == tbad = ""
=============================================================================
