---------------------------- MODULE Topic_Trace ----------------------------
(***************************************************************************)
(* Trace validation of the real ConcurrentTransientTopic against the L2    *)
(* specification Topic.  Every line of the (normalised) ndjson trace       *)
(* recorded under vsched must be explained by exactly the Topic action the *)
(* thread's pc allows, with the same location, operands, value read and    *)
(* outcome.  The memory order of each step is the one the running code     *)
(* passed (Tr[l].mo): the happens-before views of WeakMem evolve with the  *)
(* code's real orders, the L1 clauses are evaluated on every state of the  *)
(* trace, and the (site -> order) pairs seen are collected in moSeen from  *)
(* which MO_Topic.tla is regenerated.                                      *)
(***************************************************************************)
EXTENDS Topic, Json, IOUtils

Tr == ndJsonDeserialize(IOEnv.TRACE)

VARIABLES l,       \* next line to explain
          moSeen   \* set of <<site, order>> observed

tvars == <<vars, l, moSeen>>

CfgOf(e) == [base |-> e.base, bs |-> e.bs, slots |-> {e.slots[i] : i \in 1..Len(e.slots)}, live |-> e.live, prog |-> e.prog]

TInit ==
  /\ l = 2
  /\ moSeen = {}
  /\ Tr[1].k = "reset"
  /\ InitFor(CfgOf(Tr[1]))
  /\ TLCSet(1, 1)
  /\ TLCSet(2, {})

Progress == TLCSet(1, IF TLCGet(1) < l' THEN l' ELSE TLCGet(1))

\* does the operation the model performed equal the logged one?
Matches(m, e) ==
  /\ m.t = e.t /\ m.k = e.k
  /\ CASE e.k \in {"load", "store"} -> m.loc = e.loc /\ m.i = e.i /\ m.v = e.v
       [] e.k = "faa" -> m.loc = e.loc /\ m.i = e.i /\ m.v = e.v /\ m.a = e.a
       [] e.k = "cas" -> m.loc = e.loc /\ m.i = e.i /\ m.v = e.v /\ m.a = e.a /\ m.b = e.b /\ m.ok = e.ok
       [] e.k = "fence" -> TRUE
       [] e.k = "fwait" -> m.loc = e.loc /\ m.i = e.i /\ m.a = e.a /\ m.v = e.v /\ m.ok = e.ok
       [] e.k = "fret" -> m.loc = e.loc /\ m.i = e.i /\ m.ok = e.ok
       [] e.k = "fwake" -> m.loc = e.loc /\ m.i = e.i /\ m.v = e.v
       [] e.k \in {"spawn", "join"} -> m.i = e.i
       [] e.k = "call" -> m.op = e.op /\ m.n = e.n
       [] e.k = "ret" -> m.op = e.op /\ m.n = e.n /\ m.res = e.res /\ m.i = e.i /\ m.vals = e.vals
       [] e.k = "cb" -> m.i = e.i /\ m.n = e.n /\ m.vals = e.vals
       [] OTHER -> FALSE

Consume ==
  /\ l <= Len(Tr)
  /\ LET e == Tr[l]
     IN /\ e.k \notin {"reset", "end", "final"}
        /\ Step(e.t, LAMBDA site : e.mo)
        /\ Matches(ev', e)
        /\ moSeen' = IF ev'.site # "" THEN moSeen \cup {<<ev'.site, ev'.mo>>} ELSE moSeen
  /\ l' = l + 1

\* a fence the model has but the code no longer executes is recorded as order "none"
SkipFence ==
  /\ l <= Len(Tr)
  /\ Tr[l].k \notin {"reset", "final"}
  /\ \E t \in Thr :
        /\ pc[t] \in {"p_frel", "p_fsc", "x_fsc", "c_facq"}
        /\ (Tr[l].k = "end" \/ (Tr[l].t = t /\ Tr[l].k # "fence"))
        /\ (PFRel(t, LAMBDA site : "none") \/ PFSc(t, LAMBDA site : "none") \/ XFSc(t, LAMBDA site : "none") \/ CFAcq(t, LAMBDA site : "none"))
        /\ moSeen' = moSeen \cup {<<ev'.site, "none">>}
  /\ UNCHANGED l

\* quiescent observation by the driver
Final ==
  /\ l <= Len(Tr) /\ Tr[l].k = "final"
  /\ Tr[l].v = LastVal(ms, IdxLoc)
  /\ l' = l + 1
  /\ UNCHANGED <<vars, moSeen>>

End ==
  /\ l <= Len(Tr) /\ Tr[l].k = "end"
  /\ (Tr[l].status = "ok" => AllDone)
  /\ (Tr[l].status = "deadlock" => Stuck)
  /\ l' = l + 1
  /\ UNCHANGED <<vars, moSeen>>

Reset ==
  /\ l <= Len(Tr) /\ Tr[l].k = "reset"
  /\ LET c == CfgOf(Tr[l])
     IN /\ cfg' = c /\ ms' = MS0(c) /\ pc' = PC0(c) /\ L' = LL0(c) /\ H' = H0(c) /\ ev' = NoEv
  /\ l' = l + 1
  /\ UNCHANGED moSeen

TNext == (Consume \/ SkipFence \/ Final \/ End \/ Reset) /\ Progress /\ (l' > Len(Tr) => TLCSet(2, moSeen'))

TSpec == TInit /\ [][TNext]_tvars

\* reported at the end:  <<"VERIF", lines explained, lines, site/order pairs>>
Post == PrintT(<<"VERIF", TLCGet(1) - 1, Len(Tr), TLCGet(2)>>)

\* debugging aid: violated exactly when the whole (truncated) trace was explained
DbgStop == l <= Len(Tr)

\* L1 verdicts on the observed execution (same formulas as the model-checked ones)
TNoDataRace == NoDataRace
TInOrderExactlyOnce == InOrderExactlyOnce
TEndOnlyAtLogEnd == EndOnlyAtLogEnd
TPublishersNeverShareSlot == PublishersNeverShareSlot
TClearActsAsNew == ClearActsAsNew
TNoLostWakeup == NoLostWakeup
TNoDeadlock == NoDeadlock
=============================================================================
