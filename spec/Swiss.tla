------------------------------- MODULE Swiss -------------------------------
(***************************************************************************)
(* L2 (implementation-shaped) specification of                             *)
(*   babylon::ConcurrentFixedSwissTable       (do_emplace / find)          *)
(*   babylon::ConcurrentTransientHashSet/Map  (emplace / find: chain of    *)
(*                                             doubled tables)             *)
(* src/babylon/concurrent/transient_hash_table.hpp.  ONE ACTION PER ATOMIC *)
(* OPERATION / FENCE / SIMD GROUP LOAD / yield / user callback (hasher,    *)
(* key comparison, element constructor).  Memory orders come from M(site). *)
(*                                                                         *)
(* Geometry is the implementation's: groups are 16 control bytes starting  *)
(* at ANY bucket (base = (hash >> 7) & mask), the control array has a      *)
(* mirrored tail ctrl[B + j] = ctrl[j] (j < 15), probing is triangular.    *)
(* Control bytes as logged (int8 zero-extended): EMPTY 128, BUSY 129,      *)
(* DUMMY 130, tag 0..127.  The key universe is small and each key's        *)
(* (hash base, 7-bit tag) is a constant of the configuration.              *)
(*                                                                         *)
(* Locations of WeakMem are created lazily (only touched bytes exist in    *)
(* ms.mem); InitVal gives the value of an untouched location.              *)
(***************************************************************************)
EXTENDS Naturals, Integers, Sequences, FiniteSets, TLC, WeakMem

CONSTANTS Stale,   \* BOOLEAN: loads may read non-latest messages
          Configs  \* set of configurations [kind, head, keys, pre, prog]

VARIABLES cfg,     \* configuration of this execution
          ms,      \* memory (WeakMem)
          pc, L,   \* per thread control state and locals
          G,       \* non-atomic global state: cells (slot code -> key), creator (table ordinal -> thread)
          H,       \* history (L1 observables)
          ev       \* ghost: operation performed by the last step

vars == <<cfg, ms, pc, L, G, H, ev>>

EMPTY == 128
BUSY == 129
DUMMY == 130
IsFree(c) == c >= 128                 \* sign bit set: what Group::match_empty reports
GS == 16

Thr == 1..Len(cfg.prog)
Pow2(n) == IF n = 0 THEN 1 ELSE IF n = 1 THEN 2 ELSE IF n = 2 THEN 4 ELSE IF n = 3 THEN 8 ELSE 16
B0 == IF cfg.head = 0 THEN 16 ELSE cfg.head          \* the placeholder reports bucket_count 16
BSize(o) == B0 * Pow2(o)
Mask(o) == BSize(o) - 1
IsDummy(o) == o = 0 /\ cfg.head = 0
NTab0 == IF Len(cfg.pre) > 1 THEN Len(cfg.pre) ELSE 1  \* tables linked initially
Code(o, i) == o * 1000 + i                             \* slot identity
OrdOf(c) == c \div 1000
IdxOf(c) == c % 1000

CtrlLoc(o, i) == <<"ctrl", Code(o, i)>>
CellLoc(c) == <<"cell", c>>
NextLoc(o) == <<"next", o>>
InitLoc(o, t) == <<"tinit", o * 10 + t>>   \* non-atomic fields / memset of the table node created by t for ordinal o

IsEmp(op) == op \in {"e", "i", "x", "t"}    \* emplace(T&&) insert(const T&) map[] try_emplace ; "f" find "c" contains
IsFiller(k) == k >= 100                     \* pre-filled key 100 + 1000 * ord + slot
FillOrd(k) == (k - 100) \div 1000
FillIdx(k) == (k - 100) % 1000
PreTag(o, j) == IF o + 1 <= Len(cfg.pre) /\ j + 1 <= Len(cfg.pre[o + 1]) THEN cfg.pre[o + 1][j + 1] ELSE -1
KeyH(k) == IF IsFiller(k) THEN FillIdx(k) ELSE cfg.keys[k].h
KeyTag(k) == IF IsFiller(k) THEN PreTag(FillOrd(k), FillIdx(k)) ELSE cfg.keys[k].tag
FillKey(o, j) == 100 + 1000 * o + j

InitCtrl(o, i) ==
  IF IsDummy(o) THEN DUMMY
  ELSE IF i >= BSize(o) + 15 THEN EMPTY
  ELSE LET j == IF i >= BSize(o) THEN i - BSize(o) ELSE i
       IN IF PreTag(o, j) >= 0 THEN PreTag(o, j) ELSE EMPTY
InitNext(o) == IF o + 1 < NTab0 THEN 1 ELSE 0
InitVal(x) == IF x[1] = "ctrl" THEN InitCtrl(OrdOf(x[2]), IdxOf(x[2])) ELSE IF x[1] = "next" THEN InitNext(x[2]) ELSE 0
M0(x) == WithLoc(ms, x, InitVal(x))
LastOf(x) == IF x \in DOMAIN ms.mem THEN LastVal(ms, x) ELSE InitVal(x)

CellKey(c) == IF c \in DOMAIN G.cells THEN G.cells[c]
              ELSE IF PreTag(OrdOf(c), IdxOf(c)) >= 0 THEN FillKey(OrdOf(c), IdxOf(c)) ELSE 0

Op(t) == cfg.prog[t][L[t].opi]
Key(t) == Op(t).k
OpId(t) == <<t, L[t].opi>>

NoEv == [t |-> 0, k |-> "", site |-> "", mo |-> "", fsite |-> "", mof |-> "", loc |-> "", i |-> 0, v |-> 0, a |-> 0, b |-> 0,
         ok |-> TRUE, op |-> "", key |-> 0, res |-> 0, ins |-> FALSE]

L0 == [opi |-> 1, o |-> 0, base |-> 0, step |-> 0, grp |-> <<>>, off |-> 0, idx |-> 0, res |-> -1, ins |-> FALSE,
       must |-> FALSE, consumed |-> FALSE]
H0 == [slots |-> {}, wins |-> {}, retk |-> {}, bad |-> "", miss |-> FALSE]
G0 == [cells |-> << >>, creator |-> << >>]

InitFor(c) ==
  /\ cfg = c
  /\ ms = WMInit(1..Len(c.prog), << >>)
  /\ pc = [t \in 1..Len(c.prog) |-> "idle"]
  /\ L = [t \in 1..Len(c.prog) |-> L0]
  /\ G = G0
  /\ H = H0
  /\ ev = NoEv

Init == \E c \in Configs : InitFor(c)

(***************************************************************************)
(* memory access helpers                                                   *)
(***************************************************************************)
KeepAll == Stale
\* read of a non-atomic cell.  Cells and table nodes are written once; a thread that re-reads a cell it has
\* already read race-free (spinning losers re-compare keys) leaves its read marker as it is, which keeps the
\* state space finite
NaRead(m, t, c) ==
  IF RdLoc(c, t) \in DOMAIN m.mem /\ c \in DOMAIN m.mem /\ VGet(m.cur[t], c) = Last(m, c).ts THEN m
  ELSE NaReadEff(m, t, c)
Goto(t, p) == pc' = [pc EXCEPT ![t] = p]
SetL(t, l) == L' = [L EXCEPT ![t] = l]
Min(S) == CHOOSE x \in S : \A y \in S : x <= y

DoLoad(t, x, site, M(_), K(_)) ==
  LET m0 == M0(x) IN
  \E i \in Readable(m0, t, x, Stale) :
    LET mo == M(site)
        v == m0.mem[x][i].val
    IN /\ ms' = ScAfter(LoadEff(ScBefore(m0, t, mo), t, x, i, mo), t, mo)
       /\ ev' = [NoEv EXCEPT !.t = t, !.k = "load", !.site = site, !.mo = mo, !.loc = x[1], !.i = x[2], !.v = v]
       /\ K(v)

DoStore(t, x, v, site, M(_)) ==
  LET mo == M(site)
      m0 == M0(x)
  IN /\ ms' = ScAfter(StoreEff(ScBefore(m0, t, mo), t, x, v, mo, KeepAll), t, mo)
     /\ ev' = [NoEv EXCEPT !.t = t, !.k = "store", !.site = site, !.mo = mo, !.loc = x[1], !.i = x[2], !.v = v]

\* compare_exchange_strong with separate success / failure orders
DoCas(t, x, e, d, site, fsite, M(_), K(_, _)) ==
  LET mo == M(site)
      mof == M(fsite)
      m0 == M0(x)
      old == LastVal(m0, x)
      e0 == [NoEv EXCEPT !.t = t, !.k = "cas", !.site = site, !.mo = mo, !.fsite = fsite, !.mof = mof, !.loc = x[1], !.i = x[2],
                         !.v = old, !.a = e, !.b = d]
  IN IF old = e
     THEN /\ ms' = ScAfter(RmwEff(ScBefore(m0, t, mo), t, x, d, mo, KeepAll), t, mo)
          /\ ev' = [e0 EXCEPT !.ok = TRUE]
          /\ K(TRUE, old)
     ELSE /\ ms' = LoadEff(m0, t, x, Len(m0.mem[x]), mof)
          /\ ev' = [e0 EXCEPT !.ok = FALSE]
          /\ K(FALSE, old)

DoFence(t, site, M(_)) ==
  LET mo == M(site)
  IN /\ ms' = FenceEff(ms, t, mo)
     /\ ev' = [NoEv EXCEPT !.t = t, !.k = "fence", !.site = site, !.mo = mo]

(***************************************************************************)
(* call / hasher                                                           *)
(***************************************************************************)
Call(t) ==
  /\ pc[t] = "idle"
  /\ L[t].opi <= Len(cfg.prog[t])
  /\ LET o == Op(t)
     IN /\ SetL(t, [L[t] EXCEPT !.o = 0, !.res = -1, !.ins = FALSE, !.consumed = FALSE, !.grp = <<>>, !.off = 0, !.idx = 0,
                                !.base = 0, !.step = 0,
                                !.must = (o.k \in H.retk \/ IsFiller(o.k))])
        /\ ev' = [NoEv EXCEPT !.t = t, !.k = "call", !.op = o.op, !.key = o.k]
  /\ Goto(t, "hash")
  /\ UNCHANGED <<cfg, ms, G, H>>

\* hasher()(key) at the start of do_emplace / find on table L.o: reads the (non-atomic) fields of the table
Hash(t) ==
  /\ pc[t] = "hash"
  /\ LET o == L[t].o
     IN /\ ms' = IF o \in DOMAIN G.creator THEN NaRead(ms, t, InitLoc(o, G.creator[o])) ELSE ms
        /\ SetL(t, [L[t] EXCEPT !.base = KeyH(Key(t)) % BSize(o), !.step = 0])
        /\ ev' = [NoEv EXCEPT !.t = t, !.k = "hash", !.key = Key(t)]
  /\ Goto(t, "gload")
  /\ UNCHANGED <<cfg, G, H>>

(***************************************************************************)
(* probe: group load, candidates, empties                                  *)
(***************************************************************************)
NextCand(g, tag, from) == LET S == {p \in from..15 : g[p + 1] = tag} IN IF S = {} THEN 16 ELSE Min(S)
FirstFree(g) == LET S == {p \in 0..15 : IsFree(g[p + 1])} IN IF S = {} THEN 16 ELSE Min(S)

TableMiss(t, l) == IF cfg.kind = "fixed" THEN <<"ret", [l EXCEPT !.res = -1]>> ELSE <<"fnext", l>>
TableFull(t, l) == IF cfg.kind = "fixed" THEN <<"ret", [l EXCEPT !.res = -1]>> ELSE <<"gnext", l>>

\* no (more) candidate in the loaded group: match_empty, then insert / stop / step to the next group
AfterCands(t, l) ==
  LET f == FirstFree(l.grp)
      s2 == l.step + GS
  IN IF f < 16
     THEN IF IsEmp(Op(t).op) THEN <<"cas", [l EXCEPT !.off = f]>> ELSE TableMiss(t, l)
     ELSE IF s2 > Mask(l.o) THEN (IF IsEmp(Op(t).op) THEN TableFull(t, l) ELSE TableMiss(t, l))
          ELSE <<"gload", [l EXCEPT !.step = s2, !.base = (l.base + s2) % BSize(l.o)]>>
AfterLoad(t, l) ==
  LET c == NextCand(l.grp, KeyTag(Key(t)), 0)
  IN IF c < 16 THEN <<"fence", [l EXCEPT !.off = c]>> ELSE AfterCands(t, l)

\* Group::Group : 16 control bytes read at once (plain SIMD load == 16 relaxed byte loads)
GLoad(t) ==
  /\ pc[t] = "gload"
  /\ LET o == L[t].o
         b == L[t].base
         P == {p \in 0..15 : CtrlLoc(o, b + p) \in DOMAIN ms.mem}
         Sels == IF Stale THEN {s \in [P -> 1..4] : \A p \in P : s[p] \in Readable(ms, t, CtrlLoc(o, b + p), TRUE)}
                 ELSE {[p \in P |-> Len(ms.mem[CtrlLoc(o, b + p)])]}
     IN \E sel \in Sels :
          LET g == [p \in 1..16 |-> IF (p - 1) \in P THEN ms.mem[CtrlLoc(o, b + p - 1)][sel[p - 1]].val ELSE InitCtrl(o, b + p - 1)]
              RECURSIVE Acc(_, _)
              Acc(m, S) == IF S = {} THEN m
                           ELSE LET p == Min(S) IN Acc(LoadEff(m, t, CtrlLoc(o, b + p), sel[p], "rlx"), S \ {p})
              nx == AfterLoad(t, [L[t] EXCEPT !.grp = g])
          IN /\ ms' = Acc(ms, P)
             /\ SetL(t, nx[2])
             /\ Goto(t, nx[1])
             /\ ev' = [NoEv EXCEPT !.t = t, !.k = "gl", !.loc = "ctrl", !.i = Code(o, b)]
  /\ UNCHANGED <<cfg, G, H>>

FenceSite(t) == IF IsEmp(Op(t).op) THEN "emplace_fence_acquire" ELSE "find_fence_acquire"

Fence(t, M(_)) ==
  /\ pc[t] = "fence"
  /\ DoFence(t, FenceSite(t), M)
  /\ Goto(t, "keq")
  /\ UNCHANGED <<cfg, L, G, H>>

\* E::extract(at(index)) == key : a read of the non-atomic cell
KeyEq(t) ==
  /\ pc[t] = "keq"
  /\ LET l == L[t]
         idx == (l.base + l.off) % BSize(l.o)
         c == Code(l.o, idx)
         eq == CellKey(c) = Key(t)
         nc == NextCand(l.grp, KeyTag(Key(t)), l.off + 1)
         nx == IF eq THEN <<"ret", [l EXCEPT !.res = c, !.ins = FALSE]>>
               ELSE IF nc < 16 THEN <<"fence", [l EXCEPT !.off = nc]>> ELSE AfterCands(t, l)
     IN /\ ms' = NaRead(ms, t, CellLoc(c))
        /\ SetL(t, nx[2])
        /\ Goto(t, nx[1])
        /\ ev' = [NoEv EXCEPT !.t = t, !.k = "keq", !.i = c, !.ok = eq, !.key = Key(t)]
  /\ UNCHANGED <<cfg, G, H>>

(***************************************************************************)
(* insertion: CAS EMPTY -> BUSY, construct, publish tag + mirror           *)
(***************************************************************************)
Cas(t, M(_)) ==
  /\ pc[t] = "cas"
  /\ LET l == L[t]
         idx == (l.base + l.off) % BSize(l.o)
     IN DoCas(t, CtrlLoc(l.o, idx), EMPTY, BUSY, "emplace_cas", "emplace_cas_fail", M,
              LAMBDA ok, old :
                IF ok THEN SetL(t, [l EXCEPT !.idx = idx]) /\ Goto(t, "construct")
                ELSE IF old = DUMMY THEN SetL(t, TableFull(t, l)[2]) /\ Goto(t, TableFull(t, l)[1])
                ELSE IF old = BUSY THEN UNCHANGED L /\ Goto(t, "yield")
                ELSE UNCHANGED L /\ Goto(t, "gload"))
  /\ UNCHANGED <<cfg, G, H>>

Yield(t) ==
  /\ pc[t] = "yield"
  /\ ev' = [NoEv EXCEPT !.t = t, !.k = "yield"]
  /\ Goto(t, "gload")
  /\ UNCHANGED <<cfg, ms, L, G, H>>

Construct(t) ==
  /\ pc[t] = "construct"
  /\ LET c == Code(L[t].o, L[t].idx)
     IN /\ ms' = NaWriteEff(ms, t, CellLoc(c), Thr)
        /\ G' = [G EXCEPT !.cells = [x \in DOMAIN G.cells \cup {c} |-> IF x = c THEN Key(t) ELSE G.cells[x]]]
        /\ SetL(t, [L[t] EXCEPT !.consumed = TRUE])
        /\ ev' = [NoEv EXCEPT !.t = t, !.k = "ctor", !.i = c, !.key = Key(t)]
  /\ Goto(t, "st_tag")
  /\ UNCHANGED <<cfg, H>>

StTag(t, M(_)) ==
  /\ pc[t] = "st_tag"
  /\ DoStore(t, CtrlLoc(L[t].o, L[t].idx), KeyTag(Key(t)), "emplace_store_tag", M)
  /\ Goto(t, "st_mirror")
  /\ UNCHANGED <<cfg, L, G, H>>

\* cloned_index = ((index - 15) & mask) + 15 : B + index for index < 15, index itself otherwise
Cloned(o, idx) == ((idx + BSize(o) - 15) % BSize(o)) + 15

StMirror(t, M(_)) ==
  /\ pc[t] = "st_mirror"
  /\ DoStore(t, CtrlLoc(L[t].o, Cloned(L[t].o, L[t].idx)), KeyTag(Key(t)), "emplace_store_mirror", M)
  /\ SetL(t, [L[t] EXCEPT !.res = Code(L[t].o, L[t].idx), !.ins = TRUE])   \* _size << 1 is thread-local: no shared step
  /\ Goto(t, "ret")
  /\ UNCHANGED <<cfg, G, H>>

(***************************************************************************)
(* growth (ConcurrentTransientHashSet::emplace) and chained find           *)
(***************************************************************************)
GNext(t, M(_)) ==
  /\ pc[t] = "gnext"
  /\ DoLoad(t, NextLoc(L[t].o), "grow_next_load", M,
            LAMBDA v : IF v = 0 THEN UNCHANGED L /\ Goto(t, "new_node")
                       ELSE SetL(t, [L[t] EXCEPT !.o = @ + 1]) /\ Goto(t, "hash"))
  /\ UNCHANGED <<cfg, G, H>>

\* new TableNode {bucket_count << 1}: private until linked
NewNode(t) ==
  /\ pc[t] = "new_node"
  /\ ms' = NaWriteEff(ms, t, InitLoc(L[t].o + 1, t), Thr)
  /\ ev' = [NoEv EXCEPT !.t = t, !.k = "new"]
  /\ Goto(t, "cas_next")
  /\ UNCHANGED <<cfg, L, G, H>>

CasNext(t, M(_)) ==
  /\ pc[t] = "cas_next"
  /\ LET o == L[t].o
     IN DoCas(t, NextLoc(o), 0, 1, "grow_next_cas", "grow_next_cas_fail", M,
              LAMBDA ok, old :
                IF ok THEN /\ G' = [G EXCEPT !.creator = [x \in DOMAIN G.creator \cup {o + 1} |-> IF x = o + 1 THEN t ELSE G.creator[x]]]
                           /\ SetL(t, [L[t] EXCEPT !.o = o + 1]) /\ Goto(t, "hash")
                ELSE UNCHANGED <<G, L>> /\ Goto(t, "del_loser"))
  /\ UNCHANGED <<cfg, H>>

\* the loser deletes its own node and continues with the winner's
DelLoser(t) ==
  /\ pc[t] = "del_loser"
  /\ ms' = NaWriteEff(ms, t, InitLoc(L[t].o + 1, t), Thr)
  /\ ev' = [NoEv EXCEPT !.t = t, !.k = "del"]
  /\ SetL(t, [L[t] EXCEPT !.o = @ + 1])
  /\ Goto(t, "hash")
  /\ UNCHANGED <<cfg, G, H>>

FNext(t, M(_)) ==
  /\ pc[t] = "fnext"
  /\ DoLoad(t, NextLoc(L[t].o), IF L[t].o = 0 THEN "find_head_next_load" ELSE "find_node_next_load", M,
            LAMBDA v : IF v = 0 THEN SetL(t, [L[t] EXCEPT !.res = -1]) /\ Goto(t, "ret")
                       ELSE SetL(t, [L[t] EXCEPT !.o = @ + 1]) /\ Goto(t, "hash"))
  /\ UNCHANGED <<cfg, G, H>>

(***************************************************************************)
(* return: the L1 observation point                                        *)
(***************************************************************************)
LastCtrl(o, i) == LastOf(CtrlLoc(o, i))
TableReallyFull == IsDummy(0) \/ \A i \in 0..BSize(0) - 1 : LastCtrl(0, i) < 128
Flag(b, name, cur) == IF b /\ cur = "" THEN name ELSE cur

Ret(t) ==
  /\ pc[t] = "ret"
  /\ LET o == Op(t)
         k == o.k
         r == L[t].res
         emp == IsEmp(o.op)
         b1 == emp /\ L[t].ins /\ (IsFiller(k) \/ \E w \in H.wins : w[1] = k)
         b2 == r >= 0 /\ ((\E s \in H.slots : s[1] = k /\ s[2] # r) \/ (IsFiller(k) /\ r # Code(FillOrd(k), FillIdx(k))))
         b4 == emp /\ r < 0 /\ (L[t].consumed \/ cfg.kind # "fixed")
         b5 == emp /\ r < 0 /\ cfg.kind = "fixed" /\ ~TableReallyFull
         bad1 == Flag(b1, "OneWinner", Flag(b2, "SameSlot", Flag(b4, "FullFailsWithoutConsuming", Flag(b5, "FullOnlyWhenFull", H.bad))))
     IN /\ H' = [H EXCEPT !.slots = IF r >= 0 THEN @ \cup {<<k, r>>} ELSE @,
                          !.wins = IF emp /\ L[t].ins THEN @ \cup {<<k, OpId(t)>>} ELSE @,
                          !.retk = IF emp /\ r >= 0 THEN @ \cup {k} ELSE @,       \* an insertion of the key returned its element
                          !.bad = bad1,
                          !.miss = @ \/ (r < 0 /\ L[t].must)]
        /\ ev' = [NoEv EXCEPT !.t = t, !.k = "ret", !.op = o.op, !.key = k, !.res = r, !.ins = L[t].ins]
  /\ Goto(t, "idle")
  /\ SetL(t, [L[t] EXCEPT !.opi = @ + 1])
  /\ UNCHANGED <<cfg, ms, G>>

(***************************************************************************)
Step(t, M(_)) ==
  \/ Call(t) \/ Hash(t) \/ GLoad(t) \/ Fence(t, M) \/ KeyEq(t)
  \/ Cas(t, M) \/ Yield(t) \/ Construct(t) \/ StTag(t, M) \/ StMirror(t, M)
  \/ GNext(t, M) \/ NewNode(t) \/ CasNext(t, M) \/ DelLoser(t) \/ FNext(t, M)
  \/ Ret(t)

AllDone == \A t \in Thr : pc[t] = "idle" /\ L[t].opi > Len(cfg.prog[t])

(***************************************************************************)
(* L1 properties (C03)                                                     *)
(***************************************************************************)
\* fully constructed element: every read of a cell is ordered after its construction; table nodes are published
NoDataRace == ~ms.race
\* for each key exactly one insertion reports success (safety part: never two; a pre-filled key never again)
OneWinner == H.bad # "OneWinner"
\* ... and whoever received the element of a key without inserting it has a winner (checked at quiescence)
LoserHasWinner == AllDone => \A s \in H.slots : IsFiller(s[1]) \/ \E w \in H.wins : w[1] = s[1]
\* all insertions and lookups of a key return the same element
SameSlot == H.bad # "SameSlot"
\* a lookup / insertion that starts after an insertion of the key returned its element never misses it (real time: Stale = FALSE)
NoMissAfterReturn == ~H.miss
\* insertion into a full fixed table fails without consuming; the growing set never fails
FullFailsWithoutConsuming == H.bad # "FullFailsWithoutConsuming"
\* a fixed table reports "full" only when every bucket is taken
FullOnlyWhenFull == H.bad # "FullOnlyWhenFull"
\* growth never duplicates a key (no key in two cells) ...
NoDupKey == \A c1 \in DOMAIN G.cells, c2 \in DOMAIN G.cells : c1 # c2 => G.cells[c1] # G.cells[c2]
Linked(o) == o = 0 \/ LastOf(NextLoc(o - 1)) = 1
\* ... and never drops one: at quiescence every winner's element sits, published, in a linked table
GrowthKeepsKeys ==
  /\ NoDupKey
  /\ AllDone => \A w \in H.wins : \E c \in DOMAIN G.cells :
                   /\ G.cells[c] = w[1] /\ <<w[1], c>> \in H.slots
                   /\ LastCtrl(OrdOf(c), IdxOf(c)) = KeyTag(w[1])
                   /\ LastCtrl(OrdOf(c), Cloned(OrdOf(c), IdxOf(c))) = KeyTag(w[1])
                   /\ Linked(OrdOf(c))
=============================================================================
