---------------------------- MODULE Appender_Mon ----------------------------
(***************************************************************************)
(* L1 monitor for the second sentence of C20 (and page conservation across *)
(* the asynchronous hand-off) over the observable events of an execution   *)
(* of the REAL AsyncFileAppender under vsched (driver scenario "app"):     *)
(*                                                                         *)
(*   wcall(t, e, file, bytes, pages) / wret     write(entry, file)         *)
(*   dcall(t, e, pages) / dret                  discard(entry)             *)
(*   alloc(ids) / free(ids)                     recording PageAllocator    *)
(*                                              (runs of one thread merged)*)
(*   check(f, g, rot)                           recording FileObject       *)
(*   writev(f, g, segs: page id, off, len ..)   as issued by the appender  *)
(*   ccall / cret                               close()                    *)
(*   file(f, g, data)                           what the driver reads back *)
(*   final(live pages, guards) / end(status)                               *)
(*                                                                         *)
(* It knows nothing about queues, batches or back-off: it judges any       *)
(* implementation of the appender API.  Clauses (bad = first one failed):  *)
(*   WrittenExactlyOnce  every entry in a file was written for that file,  *)
(*                       appears once; nothing else is in the files        *)
(*   Unmixed             an entry's bytes are contiguous, inside one       *)
(*                       generation of its file, and one writev carries    *)
(*                       pages of entries of ONE destination only          *)
(*   PerThreadOrder      per file, a thread's entries in program order     *)
(*   NothingLost         close() returned => every entry whose write()     *)
(*                       returned before close() was called is in its file *)
(*   PagesConserved      no page returned twice / that was not out; after  *)
(*                       close() every page is back                        *)
(*   NoForeignPage       writev only names pages that are out, offset 0    *)
(*   NoOverrun, NoCrash                                                    *)
(* Entries' first byte is the entry id (10 * thread + seq), so the files   *)
(* are parsed deterministically.  O1 (close() hangs on a full queue) is    *)
(* recognised and recorded, not judged (close = raw executions only).      *)
(***************************************************************************)
EXTENDS Naturals, Integers, Sequences, FiniteSets, TLC, Json, IOUtils

Tr == ndJsonDeserialize(IOEnv.TRACE)

VARIABLES l, P, judge,
          ent,      \* entry id -> [t, f, n, ln, kind]; ln = line of the call (bytes / pages stay in the trace: small states)
          wdone, must, closed,
          out,      \* pages currently allocated
          files,    \* <<f, g>> -> line of the "file" event carrying the data read back
          live,     \* pages still allocated at the end (-1: not reported)
          waived,   \* entries whose chunk the (fault-injected) writev refused with EINTR: the unchanged code drops
                    \* those bytes, so NothingLost is not demanded for them (pages must still come back exactly once)
          notes,    \* {<<"o1", line>>}: executions in which close() hung on a full queue
          bad

mvars == <<l, P, judge, ent, wdone, must, closed, out, files, live, notes, waived, bad>>

Flag(b, name) == IF b /\ bad = "" THEN name ELSE bad
SeqSet(q) == {q[i] : i \in 1..Len(q)}
Ext(f, k, v) == [x \in DOMAIN f \cup {k} |-> IF x = k THEN v ELSE f[x]]

MInit ==
  /\ l = 2 /\ Tr[1].k = "reset"
  /\ P = Tr[1].P /\ judge = Tr[1].judge_close
  /\ ent = << >> /\ wdone = {} /\ must = {} /\ closed = "no"
  /\ out = {} /\ files = << >> /\ live = <<-1>> /\ notes = {} /\ waived = {} /\ bad = ""
  /\ TLCSet(1, 1) /\ TLCSet(2, {})

Fresh(e) ==
  /\ P' = e.P /\ judge' = e.judge_close
  /\ ent' = << >> /\ wdone' = {} /\ must' = {} /\ closed' = "no"
  /\ out' = {} /\ files' = << >> /\ live' = <<-1>> /\ waived' = {}
  /\ UNCHANGED <<notes, bad>>

Same(vs) == UNCHANGED vs

MCallW(e, kind) ==
  /\ ent' = Ext(ent, e.e, [t |-> e.t, f |-> e.f, n |-> e.n, ln |-> l, kind |-> kind])
  /\ bad' = Flag(e.e \in DOMAIN ent \/ ~(SeqSet(e.pages) \subseteq out), "Protocol")
  /\ Same(<<P, judge, wdone, must, closed, out, files, live, notes, waived>>)

MRetW(e) ==
  /\ wdone' = wdone \cup {e.e}
  /\ Same(<<P, judge, ent, must, closed, out, files, live, notes, bad, waived>>)

NoDup(q) == Cardinality(SeqSet(q)) = Len(q)

MAlloc(e) ==
  /\ out' = out \cup SeqSet(e.ids)
  /\ bad' = Flag(SeqSet(e.ids) \cap out # {} \/ ~NoDup(e.ids), "Protocol")
  /\ Same(<<P, judge, ent, wdone, must, closed, files, live, notes, waived>>)

MFree(e) ==
  /\ out' = out \ SeqSet(e.ids)
  /\ bad' = Flag(~(SeqSet(e.ids) \subseteq out) \/ ~NoDup(e.ids), "PagesConserved")      \* returned twice, or never handed out
  /\ Same(<<P, judge, ent, wdone, must, closed, files, live, notes, waived>>)

\* pages of entries that were NOT written for file f (other destination, or discarded)
OtherPages(f) == UNION {SeqSet(Tr[ent[x].ln].pages) : x \in {y \in DOMAIN ent : ~(ent[y].kind = "w" /\ ent[y].f = f)}}

MWritev(e) ==
  LET pagesOk == \A i \in 1..Len(e.segs) : e.segs[i][1] \in out /\ e.segs[i][2] = 0 /\ e.segs[i][3] <= P
      oneDest == {e.segs[i][1] : i \in 1..Len(e.segs)} \cap OtherPages(e.f) = {}
  IN /\ bad' = IF ~pagesOk THEN Flag(TRUE, "NoForeignPage")
               ELSE IF e.f < 0 THEN Flag(TRUE, "WrittenExactlyOnce")    \* written to a descriptor that is no generation of any file
               ELSE Flag(~oneDest, "Unmixed")
     /\ waived' = IF e.fail THEN waived \cup {x \in DOMAIN ent : SeqSet(Tr[ent[x].ln].pages) \cap {e.segs[i][1] : i \in 1..Len(e.segs)} # {}} ELSE waived
     /\ Same(<<P, judge, ent, wdone, must, closed, out, files, live, notes>>)

MCCall(e) ==
  /\ must' = wdone /\ closed' = "called"
  /\ Same(<<P, judge, ent, wdone, out, files, live, notes, bad, waived>>)

MCRet(e) ==
  /\ closed' = "ret"
  /\ Same(<<P, judge, ent, wdone, must, out, files, live, notes, bad, waived>>)

MFile(e) ==
  /\ files' = Ext(files, <<e.f, e.g>>, l)
  /\ Same(<<P, judge, ent, wdone, must, closed, out, live, notes, bad, waived>>)

MFinal(e) ==
  /\ live' = e.live
  /\ bad' = Flag(~e.guards, "NoOverrun")
  /\ Same(<<P, judge, ent, wdone, must, closed, out, files, notes, waived>>)

\* ---- the files, parsed ---------------------------------------------------------------------------
\* one generation: acc = [err, seen, order]
RECURSIVE ParseGen(_, _, _, _)
ParseGen(D, pos, f, acc) ==
  IF pos > Len(D) \/ acc.err # "" THEN acc
  ELSE LET id == D[pos]
       IN IF id \notin DOMAIN ent \/ ent[id].kind # "w" \/ ent[id].f # f THEN [acc EXCEPT !.err = "WrittenExactlyOnce"]  \* nobody wrote this here
          ELSE IF id \in acc.seen THEN [acc EXCEPT !.err = "WrittenExactlyOnce"]                                          \* a second time
          ELSE IF pos + ent[id].n - 1 > Len(D) \/ SubSeq(D, pos, pos + ent[id].n - 1) # Tr[ent[id].ln].bytes THEN [acc EXCEPT !.err = "Unmixed"]
          ELSE ParseGen(D, pos + ent[id].n, f, [acc EXCEPT !.seen = acc.seen \cup {id}, !.order = Append(acc.order, id)])

Gens(f) == {k[2] : k \in {x \in DOMAIN files : x[1] = f}}
RECURSIVE ParseFile(_, _, _)
ParseFile(f, g, acc) ==   \* generations in ascending order
  IF g > 8 THEN acc
  ELSE IF g \in Gens(f) THEN ParseFile(f, g + 1, ParseGen(Tr[files[<<f, g>>]].data, 1, f, acc))
  ELSE ParseFile(f, g + 1, acc)

Parsed == LET a0 == ParseFile(0, 0, [err |-> "", seen |-> {}, order |-> << >>])
              a1 == ParseFile(1, 0, [err |-> a0.err, seen |-> a0.seen, order |-> << >>])
          IN [err |-> a1.err, seen |-> a1.seen, o0 |-> a0.order, o1 |-> a1.order]

Ordered(q) == \A i \in 1..Len(q), j \in 1..Len(q) : (i < j /\ q[i] \div 10 = q[j] \div 10) => q[i] < q[j]

Verdict(pr) ==
  IF pr.err # "" THEN pr.err
  ELSE IF ~Ordered(pr.o0) \/ ~Ordered(pr.o1) THEN "PerThreadOrder"
  ELSE IF ~((must \ waived) \subseteq pr.seen) THEN "NothingLost"
  ELSE IF live # << >> THEN "PagesConserved"
  ELSE ""

MEnd(e) ==
  LET hungO1 == ~judge /\ e.status \in {"budget", "deadlock"} /\ e.closer_blocked /\ closed = "called"
  IN /\ bad' = IF e.status = "ok" /\ closed = "ret" THEN Flag(Verdict(Parsed) # "", Verdict(Parsed))
               ELSE IF hungO1 THEN bad
               ELSE IF e.status \in {"crash", "hang"} THEN Flag(TRUE, "NoCrash")
               ELSE Flag(TRUE, "NothingLost")       \* close() did not return although the queue had room
     /\ notes' = IF hungO1 THEN notes \cup {<<"o1", ToString(l)>>} ELSE notes
     /\ Same(<<P, judge, ent, wdone, must, closed, out, files, live, waived>>)

MNext ==
  /\ l <= Len(Tr)
  /\ LET e == Tr[l]
     IN CASE e.k = "reset" -> Fresh(e)
          [] e.k = "wcall" -> MCallW(e, "w")
          [] e.k = "dcall" -> MCallW(e, "d")
          [] e.k = "wret" -> MRetW(e)
          [] e.k = "alloc" -> MAlloc(e)
          [] e.k = "free" -> MFree(e)
          [] e.k = "writev" -> MWritev(e)
          [] e.k = "ccall" -> MCCall(e)
          [] e.k = "cret" -> MCRet(e)
          [] e.k = "file" -> MFile(e)
          [] e.k = "final" -> MFinal(e)
          [] e.k = "end" -> MEnd(e)
          [] OTHER -> UNCHANGED <<P, judge, ent, wdone, must, closed, out, files, live, notes, waived, bad>>
  /\ l' = l + 1
  /\ TLCSet(1, l') /\ TLCSet(2, notes')

MSpec == MInit /\ [][MNext]_mvars

Holds == bad = ""
\* one invariant per clause, so that TLC's message names the clause
WrittenExactlyOnce == bad # "WrittenExactlyOnce"
Unmixed == bad # "Unmixed"
PerThreadOrder == bad # "PerThreadOrder"
NothingLost == bad # "NothingLost"
PagesConserved == bad # "PagesConserved"
NoForeignPage == bad # "NoForeignPage"
NoOverrun == bad # "NoOverrun"
NoCrash == bad # "NoCrash"
Protocol == bad # "Protocol"
Post == PrintT(<<"VERIF", TLCGet(1) - 1, Len(Tr), TLCGet(2)>>)
=============================================================================
