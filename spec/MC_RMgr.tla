------------------------------ MODULE MC_RMgr ------------------------------
(* Model-checking instance of RMgr: one vector-of-values object and one single-value object. *)
EXTENDS RMgr
MCObjs == {1, 2}
MCKind == [u \in {1, 2} |-> IF u = 1 THEN "vec" ELSE "str"]
\* the ghost counters are not part of the state identity
View == <<phase, ct, nclr % R, obj, meta, {u \in MCObjs : inst[u] \in live}, hw, grew, bad, recAt = {k \in 1..nclr : k % R = 0}>>
=============================================================================
